import CV.Proofs.CatContiguous
/-!
# Symbol tables, the non-contiguous decoder model and the hash-table encoder model
-/
namespace CV.Cat
open CV

/-! ## `iter_extended_cdf` -/

/-- consecutive pairs of an extended cdf as `(symbol, left, right.wrapping_sub(left))` -/
def pairsOf {Sym : Type} (B : Nat) : List (Nat × Sym) → List (Sym × Nat × Nat)
  | (l, s) :: (r, s') :: rest => (s, l, wsub B r l) :: pairsOf B ((r, s') :: rest)
  | _ => []

theorem pairsOf_length {Sym : Type} (B : Nat) (cdf : List (Nat × Sym)) :
    (pairsOf B cdf).length = cdf.length - 1 := by
  induction cdf with
  | nil => rfl
  | cons x rest ih =>
    cases rest with
    | nil => rfl
    | cons y rest =>
      obtain ⟨l, s⟩ := x; obtain ⟨r, s'⟩ := y
      simp only [pairsOf, List.length_cons, ih]; omega

theorem pairsOf_getElem? {Sym : Type} [Inhabited Sym] (B : Nat) (cdf : List (Nat × Sym)) (i : Nat)
    (hi : i + 1 < cdf.length) :
    (pairsOf B cdf)[i]? = some ((cdf.getD i default).2, (cdf.getD i default).1,
      wsub B (cdf.getD (i + 1) default).1 (cdf.getD i default).1) := by
  induction cdf generalizing i with
  | nil => simp at hi
  | cons x rest ih =>
    cases rest with
    | nil => simp at hi
    | cons y rest =>
      obtain ⟨l, s⟩ := x; obtain ⟨r, s'⟩ := y
      cases i with
      | zero => simp [pairsOf]
      | succ i =>
        simp only [pairsOf, List.getElem?_cons_succ]
        rw [ih i (by simpa using hi)]
        simp

/-- no probability is zero ⇒ the iterator never hits `expect("quantization is leaky")` -/
theorem iterExtGo_eq {Sym : Type} (B : Nat) (left : Nat) (sym : Sym) (rest : List (Nat × Sym))
    (h : ∀ t ∈ pairsOf B ((left, sym) :: rest), t.2.2 ≠ 0) :
    iterExtGo B left sym rest = .ok (pairsOf B ((left, sym) :: rest)) := by
  induction rest generalizing left sym with
  | nil => rfl
  | cons y rest ih =>
    obtain ⟨r, s'⟩ := y
    simp only [iterExtGo, pairsOf]
    have h0 : wsub B r left ≠ 0 := h (sym, left, wsub B r left) (by simp [pairsOf])
    rw [if_neg h0, ih r s' (fun t ht => h t (by simp [pairsOf, ht]))]

theorem iterExtendedCdf_eq {Sym : Type} (B : Nat) (cdf : List (Nat × Sym)) (hne : cdf ≠ [])
    (h : ∀ t ∈ pairsOf B cdf, t.2.2 ≠ 0) : iterExtendedCdf B cdf = .ok (pairsOf B cdf) := by
  cases cdf with
  | nil => exact absurd rfl hne
  | cons x rest => obtain ⟨l, s⟩ := x; exact iterExtGo_eq B l s rest h

/-- the table of the specification: bin `i` labelled `lab i` -/
def specTable {Sym : Type} (lab : Nat → Sym) (ext : List Nat) : List (Sym × Nat × Nat) :=
  (List.range (ext.length - 1)).map fun i =>
    (lab i, ext.getD i 0, ext.getD (i + 1) 0 - ext.getD i 0)

/-- for a valid cdf, the consecutive pairs are the specification's table -/
theorem pairsOf_eq_specTable {Sym : Type} [Inhabited Sym] {B P : Nat} {cdf : List (Nat × Sym)}
    (h : ValidCdf B P (cdf.map (·.1))) (hP : P ≤ B) :
    pairsOf B cdf = specTable (fun i => (cdf.getD i default).2) (unwrap P (cdf.map (·.1))) := by
  have hlen := h.length_eq
  simp only [List.length_map] at hlen
  apply List.ext_getElem?
  intro i
  by_cases hi : i + 1 < cdf.length
  · rw [pairsOf_getElem? B cdf i hi]
    unfold specTable
    rw [List.getElem?_map, List.getElem?_range (by omega)]
    simp only [Option.map_some]
    obtain ⟨l, r, e1, e2, e3, e4, _⟩ := h.prob hP (i := i) (by simpa using hi)
    have g1 : (cdf.getD i default).1 = l := by
      have : (cdf.map (·.1))[i]? = some l := e1
      rw [List.getElem?_map, getElem?_of_lt (d := default) (by omega)] at this
      simpa using this
    have g2 : (cdf.getD (i + 1) default).1 = r := by
      have : (cdf.map (·.1))[i + 1]? = some r := e2
      rw [List.getElem?_map, getElem?_of_lt (d := default) (by omega)] at this
      simpa using this
    rw [g1, g2, e4, e3]
  · have l1 : (pairsOf B cdf).length ≤ i := by rw [pairsOf_length]; omega
    have l2 : (specTable (fun i => (cdf.getD i default).2) (unwrap P (cdf.map (·.1)))).length ≤ i := by
      simp [specTable]; omega
    rw [List.getElem?_eq_none l1, List.getElem?_eq_none l2]

theorem pairsOf_nonzero {Sym : Type} [Inhabited Sym] {B P : Nat} {cdf : List (Nat × Sym)}
    (h : ValidCdf B P (cdf.map (·.1))) (hP : P ≤ B) : ∀ t ∈ pairsOf B cdf, t.2.2 ≠ 0 := by
  intro t ht
  rw [pairsOf_eq_specTable h hP] at ht
  simp only [specTable, List.mem_map, List.mem_range] at ht
  obtain ⟨i, hi, rfl⟩ := ht
  have := h.2.bin (s := i) (by omega)
  simp only; omega

/-- `symbol_table()` of any cdf-with-symbols representation -/
theorem iterExtendedCdf_valid {Sym : Type} [Inhabited Sym] {B P : Nat} {cdf : List (Nat × Sym)}
    (h : ValidCdf B P (cdf.map (·.1))) (hP : P ≤ B) :
    iterExtendedCdf B cdf =
      .ok (specTable (fun i => (cdf.getD i default).2) (unwrap P (cdf.map (·.1)))) := by
  have hne : cdf ≠ [] := by
    intro hn; subst hn; exact h.ne_nil rfl
  rw [iterExtendedCdf_eq B cdf hne (pairsOf_nonzero h hP), pairsOf_eq_specTable h hP]

/-- `ContiguousCategoricalEntropyModel::symbol_table` enumerates the specification in
    cumulative order with the identity labelling -/
theorem Contiguous.table_eq {B P : Nat} {m : Contiguous} (h : ValidCdf B P m.cdf) (hP : P ≤ B) :
    m.table B = .ok (specTable id (unwrap P m.cdf)) := by
  unfold Contiguous.table
  have hmap : (m.cdf.zipIdx.map (fun (c, i) => (c, i))).map (·.1) = m.cdf := by
    simp
  have h' : ValidCdf B P ((m.cdf.zipIdx.map (fun (c, i) => (c, i))).map (·.1)) := by
    rw [hmap]; exact h
  rw [iterExtendedCdf_valid h' hP, hmap]
  congr 1
  unfold specTable
  apply List.map_congr_left
  intro i hi
  simp only [List.mem_range] at hi
  have hl := h.length_eq
  have : i < m.cdf.length := by omega
  simp [List.getD_eq_getElem?_getD, this]


/-! ## `NonContiguousCategoricalDecoderModel` -/

/-- the decoder model for the table `ext` with bin `i` labelled `labels[i]`
    (the last cdf entry repeats the last label, as all constructors do) -/
def ncCdf {Sym : Type} (B P : Nat) (labels : List Sym) (ext : List Nat) (last : Sym) :
    List (Nat × Sym) :=
  ext.dropLast.zip labels ++ [(wrappingPow2 B P, last)]

theorem ncCdf_map_fst {Sym : Type} {B P : Nat} {labels : List Sym} {ext : List Nat} {last : Sym}
    (hlen : labels.length + 1 = ext.length) :
    (ncCdf B P labels ext last).map (·.1) = wrapCdf B P ext := by
  unfold ncCdf wrapCdf
  rw [List.map_append, List.map_fst_zip (by simp; omega)]
  rfl

theorem ncCdf_label {Sym : Type} [Inhabited Sym] {B P : Nat} {labels : List Sym} {ext : List Nat}
    {last : Sym} (hlen : labels.length + 1 = ext.length) {i : Nat} (hi : i < labels.length) :
    ((ncCdf B P labels ext last).getD i default).2 = labels.getD i default := by
  unfold ncCdf
  have hz : i < (ext.dropLast.zip labels).length := by simp; omega
  rw [List.getD_eq_getElem?_getD, List.getElem?_append_left hz]
  rw [List.getElem?_eq_getElem hz, List.getElem_zip]
  simp [List.getD_eq_getElem?_getD, hi]

theorem NcDec.dec_eq {Sym : Type} [Inhabited Sym] {B P : Nat} {m : NcDec Sym}
    (h : ValidCdf B P (m.cdf.map (·.1))) (hP : P ≤ B) {q : Nat} (hq : q < 2 ^ P) :
    m.dec B q = .ok ((m.cdf.getD (specIdx (unwrap P (m.cdf.map (·.1))) q) default).2,
      (specDec (unwrap P (m.cdf.map (·.1))) q).2.1, (specDec (unwrap P (m.cdf.map (·.1))) q).2.2) := by
  unfold NcDec.dec
  rw [cdfQuantile_eq h hP hq]
  simp only [specDec]
  have hin := specIdx_inBin h.2 hq
  have hl := h.length_eq
  simp only [List.length_map] at hl
  have : specIdx (unwrap P (m.cdf.map (·.1))) q < m.cdf.length := by have := hin.1; omega
  rw [getElem?_of_lt (d := default) this]

theorem NcDec.dec_total {Sym : Type} {B P : Nat} {m : NcDec Sym}
    (h : ValidCdf B P (m.cdf.map (·.1))) (hP : P ≤ B) (q : Nat) : ∃ r, m.dec B q = .ok r := by
  unfold NcDec.dec
  obtain ⟨r, hr⟩ := cdfQuantile_total h hP q
  rw [hr]
  obtain ⟨idx, left, p⟩ := r
  simp only
  -- the index returned by the search is in bounds
  have hidx : idx + 1 < m.cdf.length := by
    unfold cdfQuantile csub at hr
    have h3 := h.three_le
    simp only [List.length_map] at h3
    rw [if_pos (by simp; omega)] at hr
    simp only at hr
    have hmono : MonoIdx ((m.cdf.map (·.1)).take ((m.cdf.map (·.1)).length - 1)) := by
      rw [← List.dropLast_eq_take]
      apply MonoIdx.of_pairwise
      have : (unwrap P (m.cdf.map (·.1))).Pairwise (· < ·) := h.2.2.2.2
      unfold unwrap at this
      exact (List.pairwise_append.mp this).1
    obtain ⟨k, hk, hkle, _, _⟩ := bsearch_spec q hmono
    rw [hk] at hr
    simp only at hr
    simp only [List.length_take, List.length_map] at hkle
    by_cases hk1 : 1 ≤ k
    · rw [if_pos hk1] at hr
      simp only at hr
      cases e1 : (m.cdf.map (·.1))[k]? with
      | none => simp [e1] at hr
      | some r =>
        cases e2 : (m.cdf.map (·.1))[k - 1]? with
        | none => simp [e1, e2] at hr
        | some l =>
          simp only [e1, e2] at hr
          split at hr
          · simp at hr
          · simp only [Except.ok.injEq, Prod.mk.injEq] at hr
            omega
    · rw [if_neg hk1] at hr; simp at hr
  rw [getElem?_of_lt (d := (m.cdf[idx]'(by omega))) (by omega)]
  exact ⟨_, rfl⟩

theorem NcDec.table_eq {Sym : Type} [Inhabited Sym] {B P : Nat} {m : NcDec Sym}
    (h : ValidCdf B P (m.cdf.map (·.1))) (hP : P ≤ B) :
    m.table B = .ok (specTable (fun i => (m.cdf.getD i default).2) (unwrap P (m.cdf.map (·.1)))) :=
  iterExtendedCdf_valid h hP


/-! ### constructors of the non-contiguous decoder model -/

theorem takeSyms_list {Sym : Type} {l : List Sym} {n : Nat} {ss : List Sym} {rest : SymIter Sym}
    (h : takeSyms (.list l) n = some (ss, rest)) :
    ∃ rem, l = ss ++ rem ∧ rest = .list rem ∧ ss.length = n := by
  induction n generalizing l ss with
  | zero =>
    simp [takeSyms] at h
    exact ⟨l, by simp [← h.1], h.2.symm, by simp [← h.1]⟩
  | succ n ih =>
    obtain ⟨s, it', ss', h1, h2, rfl⟩ := takeSyms_succ_inv h
    cases l with
    | nil => simp [SymIter.next] at h1
    | cons x l =>
      simp only [SymIter.next, Option.some.injEq, Prod.mk.injEq] at h1
      obtain ⟨rfl, rfl⟩ := h1
      obtain ⟨rem, e1, e2, e3⟩ := ih h2
      exact ⟨rem, by simp [e1], e2, by simp [e3]⟩

theorem foldOp_pushPair {Sym : Type} (t : List (Sym × Nat × Nat)) (cdf0 : List (Nat × Sym)) :
    foldOp (fun (cdf : List (Nat × Sym)) s left _ => some (cdf ++ [(left, s)])) cdf0 t =
      some (cdf0 ++ t.map (fun t => (t.2.1, t.1))) := by
  induction t generalizing cdf0 with
  | nil => simp [foldOp]
  | cons x t ih =>
    obtain ⟨s, l, p⟩ := x
    simp only [foldOp, ih, List.map_cons, List.append_assoc, List.singleton_append]

theorem map_pair_zip {α β γ : Type} (ss : List α) (ls : List β) (qs : List γ)
    (h1 : ss.length = ls.length) (h2 : ls.length = qs.length) :
    (ss.zip (ls.zip qs)).map (fun t => (t.2.1, t.1)) = ls.zip ss := by
  induction ss generalizing ls qs with
  | nil => cases ls <;> simp_all
  | cons s ss ih =>
    cases ls with
    | nil => simp at h1
    | cons l ls =>
      cases qs with
      | nil => simp at h2
      | cons q qs =>
        simp only [List.zip_cons_cons, List.map_cons, List.cons.injEq, true_and]
        exact ih ls qs (by simpa using h1) (by simpa using h2)

theorem extOf_dropLast (qs : List Nat) : (extOf qs).dropLast = psums 0 qs := by
  simp [extOf]

theorem extOf_length (qs : List Nat) : (extOf qs).length = qs.length + 1 := by
  simp [extOf]

/-- **C19 for `NonContiguousCategoricalDecoderModel::from_symbols_and_nonzero_fixed_point_
    probabilities`**: never panics; acceptance implies a valid table and exactly as many
    symbols as entries (D13) -/
theorem NcDec.fromFixed_some {Sym : Type} {B P : Nat} {syms : List Sym} {probs : List Nat}
    {infer : Bool} (hP1 : 1 ≤ P) (hP : P ≤ B) (hprobs : ∀ p ∈ probs, p < 2 ^ B) :
    (NcDec.fromSymbolsAndNonzeroFixedPoint B P syms probs infer = .ok none) ∨
    ∃ m qs last, NcDec.fromSymbolsAndNonzeroFixedPoint B P syms probs infer = .ok (some m) ∧
      ValidProbs P qs ∧ qs = (if infer then probs ++ [2 ^ P - probs.sum] else probs) ∧
      syms.length = qs.length ∧ m.cdf = ncCdf B P syms (extOf qs) last := by
  unfold NcDec.fromSymbolsAndNonzeroFixedPoint
  cases hacc : accumulate B P (fun (cdf : List (Nat × Sym)) s left _ => some (cdf ++ [(left, s)]))
      (.list syms) probs [] infer with
  | none => left; rfl
  | some r =>
    obtain ⟨rest, cdf⟩ := r
    simp only
    obtain ⟨qs, ss, hv, hqs, hts, hfold⟩ := accumulate_some hP1 hP hprobs hacc
    obtain ⟨rem, e1, e2, e3⟩ := takeSyms_list hts
    rw [foldOp_pushPair] at hfold
    simp only [List.nil_append, Option.some.injEq] at hfold
    unfold triples at hfold
    rw [map_pair_zip ss _ _ (by simp [e3]) (by simp)] at hfold
    have hlen2 := hv.1
    have hcne : cdf ≠ [] := by
      intro hn
      have : ((psums 0 qs).zip ss).length = 0 := by rw [hfold, hn]; rfl
      rw [List.length_zip, psums_length, e3, Nat.min_self] at this
      omega
    cases hl : cdf.getLast? with
    | none => exact absurd (List.getLast?_eq_none_iff.mp hl) hcne
    | some x =>
      obtain ⟨c, last⟩ := x
      simp only
      subst e2
      cases rem with
      | cons x rem => left; simp [SymIter.next]
      | nil =>
        right
        simp only [SymIter.next, List.append_nil] at e1 ⊢
        subst e1
        refine ⟨_, qs, last, rfl, hv, hqs, e3, ?_⟩
        simp only [ncCdf, extOf_dropLast, ← hfold]


theorem ncCdf_valid {Sym : Type} {B P : Nat} {labels : List Sym} {ext : List Nat} {last : Sym}
    (h : ValidExt P ext) (hlen : labels.length + 1 = ext.length) :
    ValidCdf B P ((ncCdf B P labels ext last).map (·.1)) := by
  rw [ncCdf_map_fst hlen]; exact wrapCdf_valid h

theorem ncCdf_unwrap {Sym : Type} {B P : Nat} {labels : List Sym} {ext : List Nat} {last : Sym}
    (h : ValidExt P ext) (hlen : labels.length + 1 = ext.length) :
    unwrap P ((ncCdf B P labels ext last).map (·.1)) = ext := by
  rw [ncCdf_map_fst hlen]
  exact unwrap_wrapCdf (by intro hn; subst hn; have := h.1; simp at this) h.2.2.1

/-- the quantile function of the canonical decoder model is the labelled specification -/
theorem NcDec.dec_canon {Sym : Type} [DecidableEq Sym] [Inhabited Sym] {B P : Nat}
    {labels : List Sym} {ext : List Nat} {last : Sym}
    (h : ValidExt P ext) (hlen : labels.length + 1 = ext.length) (hP : P ≤ B) {q : Nat}
    (hq : q < 2 ^ P) :
    NcDec.dec B { cdf := ncCdf B P labels ext last } q = .ok ((labelledModel labels ext).dec q) := by
  rw [NcDec.dec_eq (m := { cdf := ncCdf B P labels ext last }) (ncCdf_valid h hlen) hP hq]
  simp only [ncCdf_unwrap h hlen, labelledModel]
  have hin := specIdx_inBin h hq
  rw [ncCdf_label hlen (by have := hin.1; omega)]

theorem NcDec.table_canon {Sym : Type} [Inhabited Sym] {B P : Nat}
    {labels : List Sym} {ext : List Nat} {last : Sym}
    (h : ValidExt P ext) (hlen : labels.length + 1 = ext.length) (hP : P ≤ B) :
    NcDec.table B { cdf := ncCdf B P labels ext last } =
      .ok (specTable (fun i => labels.getD i default) ext) := by
  rw [NcDec.table_eq (m := { cdf := ncCdf B P labels ext last }) (ncCdf_valid h hlen) hP]
  simp only [ncCdf_unwrap h hlen]
  congr 1
  unfold specTable
  apply List.map_congr_left
  intro i hi
  simp only [List.mem_range] at hi
  simp only [ncCdf_label (B := B) (P := P) (last := last) hlen (i := i) (by omega)]

/-- labels of a table given as a function on bin indices -/
def labelsOf {Sym : Type} (lab : Nat → Sym) (n : Nat) : List Sym := (List.range n).map lab

theorem labelsOf_getD {Sym : Type} [Inhabited Sym] (lab : Nat → Sym) {n i : Nat} (hi : i < n) :
    (labelsOf lab n).getD i default = lab i := by
  simp [labelsOf, List.getD_eq_getElem?_getD, hi]

theorem psums_step (acc : Nat) (qs : List Nat) (i : Nat) (hi : i < qs.length) :
    (psums acc qs ++ [acc + qs.sum]).getD (i + 1) 0 =
      (psums acc qs ++ [acc + qs.sum]).getD i 0 + qs.getD i 0 := by
  induction qs generalizing acc i with
  | nil => simp at hi
  | cons q qs ih =>
    cases i with
    | zero =>
      cases qs with
      | nil => simp [psums]
      | cons q' qs => simp [psums]
    | succ i =>
      have := ih (acc + q) i (by simpa using hi)
      simp only [psums, List.sum_cons, List.cons_append, List.getD_cons_succ] at this ⊢
      rw [Nat.add_assoc] at this
      exact this

theorem extOf_step (qs : List Nat) {i : Nat} (hi : i < qs.length) :
    (extOf qs).getD (i + 1) 0 = (extOf qs).getD i 0 + qs.getD i 0 := by
  have := psums_step 0 qs i hi
  simpa [extOf] using this

theorem extOf_getD_psums (qs : List Nat) {i : Nat} (hi : i < qs.length) :
    (extOf qs).getD i 0 = (psums 0 qs).getD i 0 := by
  unfold extOf
  rw [List.getD_eq_getElem?_getD, List.getD_eq_getElem?_getD, List.getElem?_append_left (by simpa using hi)]

/-- the calls of `operation` are the rows of the specification's table -/
theorem triples_eq_specTable {Sym : Type} [Inhabited Sym] {ss : List Sym} {qs : List Nat}
    (h : ss.length = qs.length) :
    triples ss qs = specTable (fun i => ss.getD i default) (extOf qs) := by
  apply List.ext_getElem?
  intro i
  by_cases hi : i < qs.length
  · have h1 : ss[i]? = some (ss.getD i default) := getElem?_of_lt (by omega)
    have h2 : (psums 0 qs)[i]? = some ((psums 0 qs).getD i 0) := getElem?_of_lt (by simpa using hi)
    have h3 : qs[i]? = some (qs.getD i 0) := getElem?_of_lt hi
    unfold triples
    rw [List.getElem?_zip_eq_some (z := (ss.getD i default, (psums 0 qs).getD i 0, qs.getD i 0)) |>.mpr
      ⟨h1, List.getElem?_zip_eq_some (z := ((psums 0 qs).getD i 0, qs.getD i 0)) |>.mpr ⟨h2, h3⟩⟩]
    simp only [specTable, extOf_length, Nat.add_sub_cancel, List.getElem?_map,
      List.getElem?_range hi, Option.map_some]
    rw [extOf_step qs hi, extOf_getD_psums qs hi]
    congr 3
    omega
  · rw [List.getElem?_eq_none (by simp [triples, h]; omega),
      List.getElem?_eq_none (by simp [specTable, extOf_length]; omega)]


/-! ## `NonContiguousCategoricalEncoderModel` -/

theorem NcEnc.get_idxOf {Sym : Type} [DecidableEq Sym] (t : List (Sym × Nat × Nat)) (s : Sym) :
    NcEnc.get t s = (t[(t.map (·.1)).idxOf s]?).map (·.2) := by
  induction t with
  | nil => simp [NcEnc.get]
  | cons x t ih =>
    obtain ⟨k, v⟩ := x
    simp only [NcEnc.get, List.map_cons, List.idxOf_cons]
    by_cases hk : k = s
    · subst hk; simp
    · have : (k == s) = false := by simpa using hk
      rw [if_neg hk, this]
      simp only [cond_false, List.getElem?_cons_succ]
      exact ih

theorem NcEnc.get_none_iff {Sym : Type} [DecidableEq Sym] (t : List (Sym × Nat × Nat)) (s : Sym) :
    NcEnc.get t s = none ↔ s ∉ t.map (·.1) := by
  induction t with
  | nil => simp [NcEnc.get]
  | cons x t ih =>
    obtain ⟨k, v⟩ := x
    simp only [NcEnc.get, List.map_cons, List.mem_cons, not_or]
    by_cases hk : k = s
    · subst hk; simp
    · rw [if_neg hk, ih]
      constructor
      · intro h; exact ⟨fun e => hk e.symm, h⟩
      · intro h; exact h.2

theorem specTable_keys {Sym : Type} (lab : Nat → Sym) (ext : List Nat) :
    (specTable lab ext).map (·.1) = labelsOf lab (ext.length - 1) := by
  simp [specTable, labelsOf, List.map_map, Function.comp_def]

theorem specTable_length {Sym : Type} (lab : Nat → Sym) (ext : List Nat) :
    (specTable lab ext).length = ext.length - 1 := by simp [specTable]

theorem specTable_getElem? {Sym : Type} (lab : Nat → Sym) (ext : List Nat) {i : Nat}
    (hi : i < ext.length - 1) :
    (specTable lab ext)[i]? = some (lab i, ext.getD i 0, ext.getD (i + 1) 0 - ext.getD i 0) := by
  simp [specTable, hi]

/-- looking a symbol up in the hash table built from the specification's table is the
    labelled specification's encoder; in particular symbols outside the support give `None`
    (the lookup is by symbol value, nothing is narrowed: C09) -/
theorem NcEnc.get_specTable {Sym : Type} [DecidableEq Sym] [Inhabited Sym] (lab : Nat → Sym)
    (ext : List Nat) (s : Sym) :
    NcEnc.get (specTable lab ext) s = (labelledModel (labelsOf lab (ext.length - 1)) ext).enc s := by
  rw [NcEnc.get_idxOf, specTable_keys]
  simp only [labelledModel]
  by_cases hmem : s ∈ labelsOf lab (ext.length - 1)
  · rw [if_pos hmem]
    have hi : (labelsOf lab (ext.length - 1)).idxOf s < ext.length - 1 := by
      have := List.idxOf_lt_length_of_mem hmem
      simpa [labelsOf] using this
    rw [specTable_getElem? lab ext hi]
    simp only [Option.map_some, specEnc]
    rw [if_pos (by omega)]
  · rw [if_neg hmem]
    have hi : ¬ (labelsOf lab (ext.length - 1)).idxOf s < (labelsOf lab (ext.length - 1)).length := by
      intro h; exact hmem (List.idxOf_lt_length_iff.mp h)
    have hlen : (labelsOf lab (ext.length - 1)).length = ext.length - 1 := by simp [labelsOf]
    rw [List.getElem?_eq_none (by rw [specTable_length]; omega)]
    rfl

theorem NcEnc.insert_fresh {Sym : Type} [DecidableEq Sym] (t : List (Sym × Nat × Nat)) (s : Sym)
    (v : Nat × Nat) (h : s ∉ t.map (·.1)) : NcEnc.insert t s v = t ++ [(s, v)] := by
  unfold NcEnc.insert
  congr 1
  rw [List.filter_eq_self]
  intro e he
  have : e.1 ≠ s := fun hh => h (by rw [← hh]; exact List.mem_map_of_mem he)
  simpa using this

/-- `collect::<HashMap>()` of a table with distinct labels keeps every row -/
theorem NcEnc.foldl_insert_nodup {Sym : Type} [DecidableEq Sym] (t t0 : List (Sym × Nat × Nat))
    (h : ((t0 ++ t).map (·.1)).Nodup) :
    t.foldl (fun t (x : Sym × Nat × Nat) => NcEnc.insert t x.1 (x.2.1, x.2.2)) t0 = t0 ++ t := by
  induction t generalizing t0 with
  | nil => simp
  | cons x t ih =>
    obtain ⟨s, l, p⟩ := x
    simp only [List.foldl_cons]
    have hfresh : s ∉ t0.map (·.1) := by
      intro hm
      rw [List.map_append, List.map_cons] at h
      have := (List.nodup_append.mp h).2.2 s hm s (by simp)
      exact this rfl
    rw [NcEnc.insert_fresh t0 s (l, p) hfresh]
    rw [ih (t0 ++ [(s, l, p)]) (by simpa using h)]
    simp

theorem NcEnc.fromTable_nodup {Sym : Type} [DecidableEq Sym] (t : List (Sym × Nat × Nat))
    (h : (t.map (·.1)).Nodup) : (NcEnc.fromTable t).tbl = t := by
  unfold NcEnc.fromTable
  have := NcEnc.foldl_insert_nodup t [] (by simpa using h)
  simpa using this

/-- what a successful run of the constructor's closure did: it appended every row, the
    labels are distinct and no probability is zero -/
theorem NcEnc.foldOp_insertNew {Sym : Type} [DecidableEq Sym] (t t0 tbl : List (Sym × Nat × Nat))
    (h0 : (t0.map (·.1)).Nodup) (h : foldOp NcEnc.insertNew t0 t = some tbl) :
    tbl = t0 ++ t ∧ ((t0 ++ t).map (·.1)).Nodup := by
  induction t generalizing t0 with
  | nil => simp [foldOp] at h; subst h; simpa using h0
  | cons x t ih =>
    obtain ⟨s, l, p⟩ := x
    simp only [foldOp, NcEnc.insertNew] at h
    cases hg : NcEnc.get t0 s with
    | some v => simp [hg] at h
    | none =>
      simp only [hg] at h
      by_cases hp : p = 0
      · simp [hp] at h
      · rw [if_neg hp] at h
        simp only at h
        have hfresh := (NcEnc.get_none_iff t0 s).mp hg
        have h0' : ((t0 ++ [(s, (l, p))]).map (·.1)).Nodup := by
          rw [List.map_append, List.nodup_append]
          refine ⟨h0, by simp, ?_⟩
          intro a ha b hb
          simp at hb; subst hb
          intro e; subst e; exact hfresh ha
        obtain ⟨e1, e2⟩ := ih (t0 ++ [(s, (l, p))]) h0' h
        constructor
        · rw [e1]; simp
        · simpa using e2

/-- conversely the closure accepts every table with distinct labels and non-zero entries -/
theorem NcEnc.foldOp_insertNew_of_nodup {Sym : Type} [DecidableEq Sym]
    (t t0 : List (Sym × Nat × Nat)) (h : ((t0 ++ t).map (·.1)).Nodup)
    (hp : ∀ x ∈ t, x.2.2 ≠ 0) : foldOp NcEnc.insertNew t0 t = some (t0 ++ t) := by
  induction t generalizing t0 with
  | nil => simp [foldOp]
  | cons x t ih =>
    obtain ⟨s, l, p⟩ := x
    have hfresh : s ∉ t0.map (·.1) := by
      intro hm
      rw [List.map_append, List.map_cons] at h
      exact (List.nodup_append.mp h).2.2 s hm s (by simp) rfl
    simp only [foldOp, NcEnc.insertNew]
    rw [(NcEnc.get_none_iff t0 s).mpr hfresh]
    simp only
    rw [if_neg (hp (s, l, p) (by simp))]
    simp only
    rw [ih (t0 ++ [(s, (l, p))]) (by simpa using h) (fun x hx => hp x (by simp [hx]))]
    simp


theorem labelsOf_getD_self {Sym : Type} [Inhabited Sym] (ss : List Sym) :
    labelsOf (fun i => ss.getD i default) ss.length = ss := by
  apply List.ext_getElem?
  intro i
  by_cases hi : i < ss.length
  · simp [labelsOf, hi, List.getD_eq_getElem?_getD]
  · simp [labelsOf, hi]

/-- **C19 for the hash-table encoder model**: acceptance implies a valid table, exactly as
    many symbols as entries (D13), pairwise distinct symbols, and the table of the
    specification -/
theorem NcEnc.fromFixed_some {Sym : Type} [DecidableEq Sym] [Inhabited Sym] {B P : Nat}
    {syms : List Sym} {probs : List Nat} {infer : Bool} {m : NcEnc Sym}
    (hP1 : 1 ≤ P) (hP : P ≤ B) (hprobs : ∀ p ∈ probs, p < 2 ^ B)
    (h : NcEnc.fromSymbolsAndNonzeroFixedPoint B P syms probs infer = some m) :
    ∃ qs, ValidProbs P qs ∧ qs = (if infer then probs ++ [2 ^ P - probs.sum] else probs) ∧
      syms.length = qs.length ∧ syms.Nodup ∧
      m.tbl = specTable (fun i => syms.getD i default) (extOf qs) := by
  unfold NcEnc.fromSymbolsAndNonzeroFixedPoint at h
  cases hacc : accumulate B P NcEnc.insertNew (.list syms) probs [] infer with
  | none => simp [hacc] at h
  | some r =>
    obtain ⟨rest, tbl⟩ := r
    simp only [hacc] at h
    obtain ⟨qs, ss, hv, hqs, hts, hfold⟩ := accumulate_some hP1 hP hprobs hacc
    obtain ⟨rem, e1, e2, e3⟩ := takeSyms_list hts
    subst e2
    cases rem with
    | cons x rem => simp [SymIter.next] at h
    | nil =>
      simp only [SymIter.next, Option.some.injEq] at h
      simp only [List.append_nil] at e1
      subst e1
      obtain ⟨t1, t2⟩ := NcEnc.foldOp_insertNew _ [] tbl (by simp) hfold
      simp only [List.nil_append] at t1 t2
      rw [triples_syms e3] at t2
      refine ⟨qs, hv, hqs, e3, t2, ?_⟩
      rw [← h, t1, triples_eq_specTable e3]

theorem NcEnc.enc_of_specTable {Sym : Type} [DecidableEq Sym] [Inhabited Sym] {m : NcEnc Sym}
    {syms : List Sym} {ext : List Nat} (hlen : syms.length + 1 = ext.length)
    (h : m.tbl = specTable (fun i => syms.getD i default) ext) (s : Sym) :
    m.enc s = (labelledModel syms ext).enc s := by
  unfold NcEnc.enc
  rw [h, NcEnc.get_specTable]
  have : ext.length - 1 = syms.length := by omega
  rw [this, labelsOf_getD_self]


/-! ### `from_iterable_entropy_model` of the decoder model (with the D32 validation) -/

theorem dropLast_getElem_eq' {ext : List Nat} {j : Nat} (hj : j < ext.dropLast.length) :
    ext.dropLast[j] = ext.getD j 0 := by
  have hj' : j < ext.length := by simp at hj; omega
  rw [List.getElem_dropLast, getD_of_lt hj']

/-- rows `i, i+1, …` of the canonical non-contiguous cdf -/
def cdfRows {Sym : Type} (lab : Nat → Sym) (ext : List Nat) (i m : Nat) : List (Nat × Sym) :=
  (List.range' i m).map (fun j => (ext.getD j 0, lab j))

theorem cdfRows_succ {Sym : Type} (lab : Nat → Sym) (ext : List Nat) (i m : Nat) :
    cdfRows lab ext i (m + 1) = (ext.getD i 0, lab i) :: cdfRows lab ext (i + 1) m := by
  simp [cdfRows, List.range'_succ]

theorem cdfRows_all {Sym : Type} (lab : Nat → Sym) (ext : List Nat) :
    cdfRows lab ext 0 (ext.length - 1) = ext.dropLast.zip (labelsOf lab (ext.length - 1)) := by
  apply List.ext_getElem?
  intro i
  by_cases hi : i < ext.length - 1
  · have h1 : ext.dropLast[i]? = some (ext.getD i 0) := by
      rw [List.getElem?_dropLast, if_pos hi, getElem?_of_lt (d := 0) (by omega)]
    have h2 : (labelsOf lab (ext.length - 1))[i]? = some (lab i) := by
      simp [labelsOf, hi]
    rw [List.getElem?_zip_eq_some (z := (ext.getD i 0, lab i)) |>.mpr ⟨h1, h2⟩]
    simp [cdfRows, hi]
  · rw [List.getElem?_eq_none (by simp [cdfRows]; omega),
      List.getElem?_eq_none (by simp [labelsOf]; omega)]

theorem specTable_drop {Sym : Type} (lab : Nat → Sym) (ext : List Nat) {i : Nat}
    (hi : i < ext.length - 1) :
    (specTable lab ext).drop i =
      (lab i, ext.getD i 0, ext.getD (i + 1) 0 - ext.getD i 0) :: (specTable lab ext).drop (i + 1) := by
  have hlt : i < (specTable lab ext).length := by rw [specTable_length]; exact hi
  rw [List.drop_eq_getElem_cons hlt]
  congr 1
  have := specTable_getElem? lab ext hi
  rw [List.getElem?_eq_getElem hlt] at this
  exact Option.some.inj this


/-- the validating loop accepts the specification's table -/
theorem fromTableCheck_specTable {Sym : Type} {B P : Nat} {ext : List Nat} (h : ValidExt P ext)
    (hP1 : 1 ≤ P) (hP : P ≤ B) (lab : Nat → Sym) :
    ∀ (m i : Nat) (cdf : List (Nat × Sym)), i + m + 2 = ext.length →
      NcDec.fromTableCheck B (wsub B (wrappingPow2 B P) 1) ((specTable lab ext).drop i)
          (ext.getD i 0) false cdf = .ok (true, cdf ++ cdfRows lab ext i (m + 1)) := by
  have hPB := pow_le_pow_of_le hP
  have h2P := two_pow_pos' P
  intro m
  induction m with
  | zero =>
    intro i cdf hi
    rw [specTable_drop lab ext (by omega)]
    have hnil : (specTable lab ext).drop (i + 1) = [] := by
      apply List.drop_eq_nil_of_le; rw [specTable_length]; omega
    obtain ⟨b1, b2, _⟩ := h.bin (s := i) (by omega)
    have hlast : ext.getD (i + 1) 0 = 2 ^ P := by
      have : i + 1 = ext.length - 1 := by omega
      rw [this]; exact h.2.2.1
    rw [hnil]
    simp only [NcDec.fromTableCheck, wsub_total_one hP1 hP]
    rw [if_neg (by simp)]
    unfold csub
    rw [if_pos (by omega)]
    simp only
    rw [wsub_of_le (by omega) (by omega), if_neg (by omega)]
    have : (ext.getD (i + 1) 0 - ext.getD i 0 - 1 == 2 ^ P - 1 - ext.getD i 0) = true := by
      rw [beq_iff_eq]; omega
    rw [this, cdfRows_succ]
    simp [cdfRows]
  | succ m ih =>
    intro i cdf hi
    rw [specTable_drop lab ext (by omega)]
    obtain ⟨b1, b2, _⟩ := h.bin (s := i) (by omega)
    have hin := h.inner_lt (i := i + 1) (by omega)
    simp only [NcDec.fromTableCheck, wsub_total_one hP1 hP]
    rw [if_neg (by simp)]
    unfold csub
    rw [if_pos (by omega)]
    simp only
    rw [wsub_of_le (by omega) (by omega), if_neg (by omega)]
    have hc : (ext.getD (i + 1) 0 - ext.getD i 0 - 1 == 2 ^ P - 1 - ext.getD i 0) = false := by
      rw [beq_eq_false_iff_ne]; omega
    have hw : wadd B (ext.getD i 0) (ext.getD (i + 1) 0 - ext.getD i 0) = ext.getD (i + 1) 0 := by
      unfold wadd
      rw [Nat.mod_eq_of_lt (by omega)]; omega
    have ih' := ih (i + 1) (cdf ++ [(ext.getD i 0, lab i)]) (by omega)
    rw [wsub_total_one hP1 hP] at ih'
    rw [hc, hw, ih', cdfRows_succ lab ext i (m + 1)]
    simp

/-- `to_generic_decoder_model` / `from_iterable_entropy_model` on the specification's table
    passes the validation and yields the canonical decoder model: same bins, same labels -/
theorem NcDec.fromTable_specTable {Sym : Type} {B P : Nat} (lab : Nat → Sym) {ext : List Nat}
    (h : ValidExt P ext) (hP1 : 1 ≤ P) (hP : P ≤ B) :
    ∃ last, NcDec.fromTable B P (specTable lab ext) =
      .ok { cdf := ncCdf B P (labelsOf lab (ext.length - 1)) ext last } := by
  have h3 := h.1
  unfold NcDec.fromTable
  have hc := fromTableCheck_specTable h hP1 hP lab (ext.length - 2) 0 [] (by omega)
  rw [List.drop_zero, h.2.1] at hc
  rw [hc]
  simp only [List.nil_append]
  have e : ext.length - 2 + 1 = ext.length - 1 := by omega
  rw [e, cdfRows_all]
  cases hl : (ext.dropLast.zip (labelsOf lab (ext.length - 1))).getLast? with
  | none =>
    exfalso
    have := List.getLast?_eq_none_iff.mp hl
    have : (ext.dropLast.zip (labelsOf lab (ext.length - 1))).length = 0 := by rw [this]; rfl
    simp [labelsOf] at this
    omega
  | some x =>
    obtain ⟨c, last⟩ := x
    exact ⟨last, by simp [ncCdf]⟩

end CV.Cat
