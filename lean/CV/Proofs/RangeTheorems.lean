import CV.Proofs.RangeReadPoint
/-!
# Round trip (C02), exhaustion (C18), random access (C07), suffix immunity (C11)
-/
namespace CV.Range
open RangeSpec (St step run)

theorem run_append (W S : Nat) (st : St) (a b : List (Nat × Nat × Nat)) :
    run W S st (a ++ b) = run W S (run W S st a) b := by
  induction a generalizing st with
  | nil => rfl
  | cons x xs ih =>
    obtain ⟨P, cum, p⟩ := x
    simp only [List.cons_append, run]
    exact ih _

theorem step_m_le (W S : Nat) (st : St) (P cum p : Nat) :
    st.m ≤ (step W S st P cum p).m ∧ (step W S st P cum p).m ≤ st.m + 1 := by
  unfold step
  simp only
  split <;> simp

theorem run_m_le (W S : Nat) (st : St) (l : List (Nat × Nat × Nat)) :
    st.m ≤ (run W S st l).m ∧ (run W S st l).m ≤ st.m + l.length := by
  induction l generalizing st with
  | nil => simp [run]
  | cons x xs ih =>
    obtain ⟨P, cum, p⟩ := x
    simp only [run, List.length_cons]
    have h1 := step_m_le W S st P cum p
    have h2 := ih (step W S st P cum p)
    omega

theorem sealWords_spec_length (W S : Nat) (st : St) :
    st.m + 1 ≤ (RangeSpec.sealWords W S st).length ∧
    (RangeSpec.sealWords W S st).length ≤ st.m + 2 := by
  unfold RangeSpec.sealWords
  simp only [List.length_append, length_digits]
  split <;> simp

theorem sealWords_spec_wordsOK (c : Cfg) (st : St) :
    WordsOK c (RangeSpec.sealWords c.W c.S st) := by
  unfold RangeSpec.sealWords
  simp only
  apply (digits_wordsOK c _ _).append
  split
  · exact WordsOK.cons (two_pow_pos' _) WordsOK.nil
  · exact WordsOK.nil

theorem words_spec_wordsOK (c : Cfg) (l : List (Nat × Nat × Nat)) :
    WordsOK c (RangeSpec.words c.W c.S l) := by
  cases l with
  | nil => exact WordsOK.nil
  | cons x xs => exact sealWords_spec_wordsOK c _

/-- `max_difference` of `maybe_exhausted` is at least `2^(S-W)` -/
theorem maxDiff_ge {c : Cfg} (hc : RValid c) :
    2^(c.S - c.W) ≤ wsub c.S ((2^(c.S - c.W) * 2) % 2^c.S) 1 := by
  have hT := hc.pow_S
  have hU := two_pow_pos' (c.S - c.W)
  have hW := hc.W_pos
  have hb : 2 ≤ 2^c.W := by
    calc 2 = 2^1 := rfl
      _ ≤ 2^c.W := Nat.pow_le_pow_right (by omega) hW
  have h2U : 2^(c.S - c.W) * 2 ≤ 2^c.S := by rw [hT]; exact Nat.mul_le_mul_left _ hb
  have h1T : 1 < 2^c.S := by omega
  by_cases heq : 2^(c.S - c.W) * 2 = 2^c.S
  · rw [heq, Nat.mod_self]
    have : wsub c.S 0 1 = 2^c.S - 1 := by
      apply wsub_unique h1T (by omega)
      have : 1 + (2^c.S - 1) = 2^c.S := by omega
      rw [this, Nat.mod_self]
    rw [this]; omega
  · have hlt : 2^(c.S - c.W) * 2 < 2^c.S := by omega
    rw [Nat.mod_eq_of_lt hlt]
    have : wsub c.S (2^(c.S - c.W) * 2) 1 = 2^(c.S - c.W) * 2 - 1 := by
      apply wsub_unique h1T (by omega)
      have : 1 + (2^(c.S - c.W) * 2 - 1) = 2^(c.S - c.W) * 2 := by omega
      rw [this, Nat.mod_eq_of_lt hlt]
    rw [this]; omega

theorem maybeExhausted_eq {c : Cfg} (hc : RValid c) (d : Decoder) :
    d.maybeExhausted c = .ok (decide (d.data.length ≤ d.pos) &&
      (d.range == maxState c ||
        decide (wsub c.S d.point d.lower < wsub c.S ((2^(c.S - c.W) * 2) % 2^c.S) 1))) := by
  have hWS := hc.W_lt_S
  have hW := hc.W_pos
  unfold Decoder.maybeExhausted
  rw [shl_ok (show c.S - c.W < c.S by omega)]
  simp only [shl_eq_mul, Nat.one_mul]
  rw [Nat.mod_eq_of_lt (Nat.pow_lt_pow_right (by omega) (show c.S - c.W < c.S by omega))]
  rw [shl_ok (show 1 < c.S by omega)]
  simp only [shl_eq_mul, Nat.pow_one]

/-- a decoder with whole words left never reports exhaustion -/
theorem not_exhausted_of_words_left {c : Cfg} (hc : RValid c) {d : Decoder}
    (h : d.pos < d.data.length) : d.maybeExhausted c = .ok false := by
  rw [maybeExhausted_eq hc]
  have : ¬ (d.data.length ≤ d.pos) := by omega
  simp [this]

/-- the decoder that belongs to a reference state whose interval contains the stream within
    `2^(S-W)` of its lower end, with all data consumed, reports exhaustion -/
theorem exhausted_of_rel {c : Cfg} (hc : RValid c) {st : St} {ws : List Nat} {d : Decoder}
    (hrel : DRel c st ws d) (hI : SpecInv c st) (hcont : Contains c st ws)
    (hnear : pre c.W ws (st.m + nW c) - st.Lo < 2^(c.S - c.W))
    (hlen : ws.length ≤ st.m + nW c) : d.maybeExhausted c = .ok true := by
  rw [maybeExhausted_eq hc]
  have h1 : d.data.length ≤ d.pos := by rw [hrel.data, hrel.pos]; omega
  have h2 : wsub c.S d.point d.lower < wsub c.S ((2^(c.S - c.W) * 2) % 2^c.S) 1 := by
    rw [hrel.diff hI hcont]
    exact Nat.lt_of_lt_of_le hnear (maxDiff_ge hc)
  simp [h1, h2]

/-- **C02 round trip**: for every message of valid steps (any per-symbol `PRECISION` /
    probability type), encoding from an empty encoder, sealing, and decoding with the same
    models returns exactly the message; an empty message produces no words; after the last
    symbol the decoder reports that it may be exhausted. -/
theorem roundtrip {Sym : Type} {c : Cfg} (hc : RValid c) (msg : List (MStep Sym))
    (hn : MsgFits c msg.length) (hv : ∀ x ∈ msg, x.Valid c) :
    ∃ e ws d0 d, encodeMsg c (Encoder.empty c) msg = .ok e ∧
      intoCompressed c e = .ok ws ∧
      Decoder.fromCompressed c ws = .ok d0 ∧
      decodeMsg c d0 msg = .ok (msg.map (·.sym), d) ∧
      d.maybeExhausted c = .ok true ∧
      (msg = [] → ws = []) := by
  obtain ⟨e, he, hI, _, hws⟩ := words_eq_spec hc msg hn hv
  have hwok := words_spec_wordsOK c (msg.map MStep.spec)
  obtain ⟨d0, hd0, hrel0⟩ := fromCompressed_eq hc hwok
  have hN := hc.two_le_nW
  cases msg with
  | nil =>
    refine ⟨e, _, d0, d0, he, hws, hd0, rfl, ?_, fun _ => rfl⟩
    have hinit := specInv_init hc
    have hc0 : Contains c (RangeSpec.init c.S) [] := by
      have : pre c.W [] (nW c) = 0 := by
        have := pre_pad c.W [] 0 (fun j _ => by simp) (nW c)
        simpa [pre] using this
      unfold Contains
      simp only [RangeSpec.init, Nat.zero_add, this]
      have := two_pow_pos' c.S
      have : 1 < 2^c.S := Nat.one_lt_two_pow (by have := hc.W_lt_S; omega)
      omega
    have hrel0' : DRel c (RangeSpec.init c.S) [] d0 := hrel0
    apply exhausted_of_rel hc hrel0' hinit hc0
    · have : pre c.W [] (nW c) = 0 := by
        have := pre_pad c.W [] 0 (fun j _ => by simp) (nW c)
        simpa [pre] using this
      simp only [RangeSpec.init, Nat.zero_add, this]
      exact two_pow_pos' _
    · simp
  | cons x xs =>
    have hIn : SpecInv c (run c.W c.S (RangeSpec.init c.S) ((x :: xs).map MStep.spec)) :=
      specInv_run _ _ (specInv_init hc) hv
    obtain ⟨hcont, hnear⟩ := seal_contains hc hIn
    have hwseq : RangeSpec.words c.W c.S ((x :: xs).map MStep.spec)
        = RangeSpec.sealWords c.W c.S
            (run c.W c.S (RangeSpec.init c.S) ((x :: xs).map MStep.spec)) := rfl
    rw [hwseq] at hws hwok hd0 hrel0
    obtain ⟨d, hd, hrel⟩ := decodeMsg_ok hwok (x :: xs) _ d0 (specInv_init hc) hv hcont hrel0
    refine ⟨e, _, d0, d, he, hws, hd0, hd, ?_, fun h => by cases h⟩
    apply exhausted_of_rel hc hrel hIn hcont hnear
    have := (sealWords_spec_length c.W c.S
      (run c.W c.S (RangeSpec.init c.S) ((x :: xs).map MStep.spec))).2
    omega

/-- the registers of an encoder are the registers of its abstraction -/
theorem absE_lower {c : Cfg} {e : Encoder} (hI : Inv c e) : e.lower = (absE c e).Lo % 2^c.S := by
  simp only [absE, absLo]
  rw [Nat.mul_comm, Nat.mul_add_mod, Nat.mod_eq_of_lt hI.2.1]

/-- **C07 random access**: take a snapshot `pos()` of the encoder after any prefix `pre` of the
    message (also while words are held back), finish the message and seal.  Any decoder over
    the sealed data — wherever it currently is — that seeks to the snapshot decodes exactly
    the rest of the message and is then possibly exhausted.  (`post = []` is "seeking to the
    final position".) -/
theorem seek_resumes {Sym : Type} {c : Cfg} (hc : RValid c) (pre' post : List (MStep Sym))
    (hn : MsgFits c (pre' ++ post).length) (hv : ∀ x ∈ pre' ++ post, x.Valid c) :
    ∃ ei e ws snap, encodeMsg c (Encoder.empty c) pre' = .ok ei ∧ ei.pos = .ok snap ∧
      encodeMsg c ei post = .ok e ∧ intoCompressed c e = .ok ws ∧
      ∀ d : Decoder, d.data = ws →
        ∃ d' d'', d.seek c snap.1 snap.2.1 snap.2.2 = .ok d' ∧
          decodeMsg c d' post = .ok (post.map (·.sym), d'') ∧
          d''.maybeExhausted c = .ok true := by
  have hvpre : ∀ x ∈ pre', x.Valid c := fun x hx => hv x (by simp [hx])
  have hvpost : ∀ x ∈ post, x.Valid c := fun x hx => hv x (by simp [hx])
  have hn' : MsgFits c (pre'.length + post.length) := by rw [← List.length_append]; exact hn
  obtain ⟨ei, hei, hIi, hfi, habsi, _⟩ := encodeMsg_ok' post.length pre' (Encoder.empty c)
    (inv_empty hc) (fits_empty hn') hvpre
  obtain ⟨e, he, hI, _, habs, _⟩ := encodeMsg_ok post ei hIi hfi hvpost
  -- the snapshot
  have hposok : ei.pos = .ok (ei.bulk.length + ei.situation.held, ei.lower, ei.range) := by
    have := hfi.held_lt hc
    unfold Encoder.pos
    rw [cadd_ok (by omega)]
  -- the whole message
  obtain ⟨e', he', hI', _, hws⟩ := words_eq_spec hc (pre' ++ post) hn hv
  have hcomp : encodeMsg c (Encoder.empty c) (pre' ++ post) = .ok e := by
    have : ∀ (a b : List (MStep Sym)) (x y z : Encoder), encodeMsg c x a = .ok y →
        encodeMsg c y b = .ok z → encodeMsg c x (a ++ b) = .ok z := by
      intro a
      induction a with
      | nil => intro b x y z h1 h2; simp only [encodeMsg] at h1; cases h1; exact h2
      | cons u us ih =>
        intro b x y z h1 h2
        simp only [encodeMsg, List.cons_append] at h1 ⊢
        cases hu : encode (cfgAt c u.B u.P) u.model u.sym x with
        | error err => rw [hu] at h1; cases h1
        | ok x' => rw [hu] at h1; simp only at h1 ⊢; exact ih b x' y z h1 h2
    exact this _ _ _ _ _ hei he
  have hee : e' = e := by rw [hcomp] at he'; cases he'; rfl
  rw [hee] at hws
  refine ⟨ei, e, _, _, hei, hposok, he, hws, ?_⟩
  intro d hd
  have hwok := words_spec_wordsOK c ((pre' ++ post).map MStep.spec)
  rw [absE_empty] at habsi
  -- reference states
  have hIi' : SpecInv c (absE c ei) := by rw [habsi]; exact specInv_run _ _ (specInv_init hc) hvpre
  have hrunall : run c.W c.S (RangeSpec.init c.S) ((pre' ++ post).map MStep.spec)
      = run c.W c.S (absE c ei) (post.map MStep.spec) := by
    rw [List.map_append, run_append, habsi]
  have hIn : SpecInv c (run c.W c.S (absE c ei) (post.map MStep.spec)) :=
    specInv_run _ _ hIi' hvpost
  have hN := hc.two_le_nW
  -- the data and the final interval
  by_cases hnil : pre' ++ post = []
  · -- empty message: no words, nothing to decode
    have hp1 : pre' = [] := (List.append_eq_nil_iff.mp hnil).1
    have hp2 : post = [] := (List.append_eq_nil_iff.mp hnil).2
    subst hp1; subst hp2
    simp only [encodeMsg] at hei
    cases hei
    have hws' : RangeSpec.words c.W c.S (([] ++ ([] : List (MStep Sym))).map MStep.spec) = [] := rfl
    rw [hws'] at hd hwok
    obtain ⟨d', hd', hrel⟩ := seek_eq (c := c) hc (ws := []) WordsOK.nil hd
      (st := RangeSpec.init c.S) (pos := 0) (lower := 0) (range := maxState c)
      (by simp) rfl (by simp [RangeSpec.init]) rfl
    refine ⟨d', d', hd', rfl, ?_⟩
    have hpre0 : pre c.W [] (nW c) = 0 := by
      have := pre_pad c.W [] 0 (fun j _ => by simp) (nW c)
      simpa [pre] using this
    have h1T : 1 < 2^c.S := Nat.one_lt_two_pow (by have := hc.W_lt_S; omega)
    apply exhausted_of_rel hc hrel (specInv_init hc)
    · unfold Contains
      simp only [RangeSpec.init, Nat.zero_add, hpre0]; omega
    · simp only [RangeSpec.init, Nat.zero_add, hpre0]; exact two_pow_pos' _
    · simp
  · have hwseq : RangeSpec.words c.W c.S ((pre' ++ post).map MStep.spec)
        = RangeSpec.sealWords c.W c.S
            (run c.W c.S (absE c ei) (post.map MStep.spec)) := by
      rw [← hrunall]
      cases hl : pre' ++ post with
      | nil => exact absurd hl hnil
      | cons x xs => rfl
    rw [hwseq] at hd hwok
    obtain ⟨hcont, hnear⟩ := seal_contains hc hIn
    have hlen := sealWords_spec_length c.W c.S (run c.W c.S (absE c ei) (post.map MStep.spec))
    have hmle := (run_m_le c.W c.S (absE c ei) (post.map MStep.spec)).1
    obtain ⟨d', hd', hrel⟩ := seek_eq (c := c) hc hwok hd (st := absE c ei)
      (pos := ei.bulk.length + ei.situation.held) (lower := ei.lower) (range := ei.range)
      (by
        have hpm : ei.bulk.length + ei.situation.held = (absE c ei).m := rfl
        rw [hpm]; omega)
      rfl (absE_lower hIi) rfl
    obtain ⟨d'', hd'', hrel2⟩ := decodeMsg_ok hwok post _ d' hIi' hvpost hcont hrel
    refine ⟨d', d'', hd', hd'', ?_⟩
    apply exhausted_of_rel hc hrel2 hIn hcont hnear
    omega

end CV.Range
