import CV.Proofs.RangeEnc
import CV.Proofs.RangeDigits
/-!
# Refinement of the encoder to the big-number reference (C02 / C06 core)

`absE c e = (Lo, R, m)`: the finalised words `bulk`, followed by the held-back words in their
*uncarried* form, followed by the `S`-bit register `lower`, read as one big number.
`encode_symbol` is `RangeSpec.step` on this abstraction: carries are ordinary addition.
-/
namespace CV.Range
open RangeSpec (St step)

/-- the held-back words, assuming no carry will happen -/
def heldDigits (c : Cfg) : Situation → List Nat
  | .normal => []
  | .inverted n first => first :: List.replicate (n - 1) (2^c.W - 1)

abbrev heldCount : Situation → Nat := Situation.held

/-- all words produced so far (finalised and held-back, uncarried) -/
def digitsOf (c : Cfg) (e : Encoder) : List Nat := e.bulk ++ heldDigits c e.situation

def absLo (c : Cfg) (e : Encoder) : Nat := val c.W (digitsOf c e) * 2^c.S + e.lower

/-- abstraction function to the reference coder's state -/
def absE (c : Cfg) (e : Encoder) : St :=
  { Lo := absLo c e, R := e.range, m := e.bulk.length + heldCount e.situation }

theorem heldDigits_length {c : Cfg} {sit : Situation}
    (h : ∀ n f, sit = .inverted n f → 1 ≤ n) : (heldDigits c sit).length = heldCount sit := by
  cases sit with
  | normal => rfl
  | inverted n f =>
    have := h n f rfl
    simp only [heldDigits, heldCount, Situation.held, List.length_cons, List.length_replicate]; omega

theorem absE_empty (c : Cfg) : absE c (Encoder.empty c) = RangeSpec.init c.S := by
  simp [absE, absLo, digitsOf, heldDigits, heldCount, Situation.held, Encoder.empty, RangeSpec.init, maxState]

/-- appending the top word of `lower` and shifting the register is multiplication by `2^W` -/
theorem shift_digit {c : Cfg} (hc : RValid c) (ds : List Nat) (lower : Nat) :
    val c.W (ds ++ [lower / 2^(c.S - c.W)]) * 2^c.S + (lower % 2^(c.S - c.W)) * 2^c.W
      = (val c.W ds * 2^c.S + lower) * 2^c.W := by
  have hdm := Nat.div_add_mod lower (2^(c.S - c.W))
  rw [val_snoc]
  generalize lower / 2^(c.S - c.W) = q at *
  generalize lower % 2^(c.S - c.W) = r at *
  rw [← hdm, hc.pow_S]
  ring

/-- abstraction of the renormalisation step -/
theorem renormP_abs {c : Cfg} (hc : RValid c) {bulk : List Nat} {sit : Situation}
    {lower range : Nat} (hl : lower < 2^c.S) (hs : SitInv c lower range sit) :
    absE c (renormP c bulk sit lower range) =
      if range < 2^(c.S - c.W) then
        { Lo := (val c.W (bulk ++ heldDigits c sit) * 2^c.S + lower) * 2^c.W,
          R := range * 2^c.W, m := bulk.length + heldCount sit + 1 }
      else
        { Lo := val c.W (bulk ++ heldDigits c sit) * 2^c.S + lower,
          R := range, m := bulk.length + heldCount sit } := by
  unfold renormP
  by_cases hlt : range < 2^(c.S - c.W)
  · simp only [hlt, if_true]
    cases sit with
    | inverted n first =>
      obtain ⟨hn, hf, hw⟩ := hs
      -- the top word of `lower` is all ones
      have hU := two_pow_pos' (c.S - c.W)
      have htop : lower / 2^(c.S - c.W) = 2^c.W - 1 := by
        have hT := hc.pow_S
        apply Nat.div_eq_of_lt_le
        · have : (2^c.W - 1) * 2^(c.S - c.W) = 2^c.S - 2^(c.S - c.W) := by
            rw [Nat.sub_mul, Nat.one_mul, Nat.mul_comm, ← hT]
          omega
        · have hb := two_pow_pos' c.W
          have : (2^c.W - 1 + 1) * 2^(c.S - c.W) = 2^c.S := by
            rw [Nat.sub_add_cancel hb, Nat.mul_comm, ← hT]
          omega
      have hrep : first :: List.replicate (n + 1 - 1) (2^c.W - 1)
          = (first :: List.replicate (n - 1) (2^c.W - 1)) ++ [lower / 2^(c.S - c.W)] := by
        rw [htop]
        have : n + 1 - 1 = (n - 1) + 1 := by omega
        rw [this, List.replicate_succ']
        rfl
      simp only [absE, absLo, digitsOf, heldDigits, heldCount, Situation.held, Situation.held]
      rw [hrep, ← List.append_assoc, shift_digit hc]
      simp only [Nat.add_assoc]
    | normal =>
      by_cases hw : (lower % 2^(c.S - c.W)) * 2^c.W + range * 2^c.W < 2^c.S
      · simp only [hw, if_true, absE, absLo, digitsOf, heldDigits, heldCount, Situation.held,
          List.append_nil, List.length_append, List.length_singleton, Nat.add_zero]
        rw [shift_digit hc]
      · simp only [hw, if_false, absE, absLo, digitsOf, heldDigits, heldCount, Situation.held,
          List.append_nil, Nat.add_zero, Nat.sub_self, List.replicate_zero]
        rw [shift_digit hc]
  · simp only [hlt, if_false, absE, absLo, digitsOf]

/-- abstraction of the first half of `encode_symbol` -/
theorem resolveP_abs {c : Cfg} {e : Encoder} {off r1 : Nat}
    (hl : e.lower < 2^c.S) (hoff : off + r1 ≤ e.range) (hr : e.range < 2^c.S) (hr1 : 0 < r1)
    (hs : SitInv c e.lower e.range e.situation) :
    val c.W ((resolveP c e ((e.lower + off) % 2^c.S) r1).1
        ++ heldDigits c (resolveP c e ((e.lower + off) % 2^c.S) r1).2) * 2^c.S
      + (e.lower + off) % 2^c.S = absLo c e + off ∧
    (resolveP c e ((e.lower + off) % 2^c.S) r1).1.length
      + heldCount (resolveP c e ((e.lower + off) % 2^c.S) r1).2
      = e.bulk.length + heldCount e.situation := by
  have hT := two_pow_pos' c.S
  unfold resolveP absLo digitsOf
  cases hsit : e.situation with
  | normal =>
    rw [hsit] at hs
    simp only [SitInv] at hs
    have h1 : e.lower + off < 2^c.S := by omega
    simp only [Nat.mod_eq_of_lt h1, heldDigits, heldCount, Situation.held, List.append_nil]
    constructor
    · omega
    · trivial
  | inverted n first =>
    rw [hsit] at hs
    obtain ⟨hn, hf, hw⟩ := hs
    have h2 : e.lower + off < 2 * 2^c.S := by omega
    by_cases hwrap : e.lower + off < 2^c.S
    · -- `lower + off` does not wrap
      have hnl : (e.lower + off) % 2^c.S = e.lower + off := Nat.mod_eq_of_lt hwrap
      rw [hnl]
      have hnc : ¬ (e.lower + off < e.lower) := by omega
      by_cases h : (e.lower + off + r1) % 2^c.S > e.lower + off
      · simp only [h, if_true, hnc, decide_false, heldP, Bool.false_eq_true, if_false,
          heldDigits, heldCount, Situation.held, List.append_nil, List.length_append, List.length_cons,
          List.length_replicate]
        constructor
        · omega
        · omega
      · simp only [h, if_false, heldDigits, heldCount, Situation.held, Situation.held]
        constructor
        · omega
        · trivial
    · -- `lower + off` wraps: the carry happens
      have hnl : (e.lower + off) % 2^c.S = e.lower + off - 2^c.S := by
        rw [mod_two h2]; simp [hwrap]
      rw [hnl]
      have hcarry : e.lower + off - 2^c.S < e.lower := by omega
      have h3 : e.lower + off - 2^c.S + r1 < 2^c.S := by omega
      have h : (e.lower + off - 2^c.S + r1) % 2^c.S > e.lower + off - 2^c.S := by
        rw [Nat.mod_eq_of_lt h3]; omega
      simp only [h, if_true, hcarry, decide_true, heldP, heldDigits, heldCount, Situation.held,
        List.append_nil, List.length_append, List.length_cons, List.length_replicate]
      constructor
      · rw [val_carry]
        have : (val c.W (e.bulk ++ first :: List.replicate (n - 1) (2^c.W - 1)) + 1) * 2^c.S
            = val c.W (e.bulk ++ first :: List.replicate (n - 1) (2^c.W - 1)) * 2^c.S + 2^c.S := by
          ring
        omega
      · omega

/-- **(c)** `encode_symbol` refines the reference step. -/
theorem encPure_abs {c : Cfg} (hc : RValid c) {e : Encoder} (hI : Inv c e) {cum p : Nat}
    (hp : 0 < p) (hcp : cum + p ≤ 2^c.P) :
    absE c (encPure c e cum p) = step c.W c.S (absE c e) c.P cum p := by
  obtain ⟨hb, hl, hr, hr2, hs⟩ := hI
  obtain ⟨hsc1, hsc2, hsc3⟩ := scale_facts hc hr hr2 hp hcp
  have hT := two_pow_pos' c.S
  have hsplit : e.range / 2^c.P * (cum + p) = e.range / 2^c.P * cum + e.range / 2^c.P * p :=
    Nat.mul_add _ _ _
  have hres := resolveP_inv (c := c) (e := e)
    (nl := (e.lower + e.range / 2^c.P * cum) % 2^c.S) (r1 := e.range / 2^c.P * p)
    hb hsc3 (by omega) (Nat.mod_lt _ hT)
    (by
      intro hn
      rw [hn] at hs
      simp only [SitInv] at hs
      have hlt : e.lower + e.range / 2^c.P * cum < 2^c.S := by omega
      rw [Nat.mod_eq_of_lt hlt]; omega)
    (by
      intro n first hn
      rw [hn] at hs
      exact ⟨hs.1, hs.2.1⟩)
  have habs := resolveP_abs (c := c) (e := e) (off := e.range / 2^c.P * cum)
    (r1 := e.range / 2^c.P * p) hl (by omega) hr2 hsc3 hs
  unfold encPure
  rw [renormP_abs hc (Nat.mod_lt _ hT) hres.2]
  unfold step
  simp only [absE]
  rw [habs.1, habs.2]
  by_cases hlt : e.range / 2^c.P * p < 2^(c.S - c.W)
  · simp only [hlt, if_true]
  · simp only [hlt, if_false]

/-- one symbol uses up at most one unit of the `usize` head-room -/
theorem encPure_fits {c : Cfg} (hc : RValid c) {e : Encoder} (hI : Inv c e) {cum p k : Nat}
    (hp : 0 < p) (hcp : cum + p ≤ 2^c.P) (hf : Fits c e (k + 1)) :
    Fits c (encPure c e cum p) k := by
  have habs := encPure_abs hc hI hp hcp
  have hm : (absE c (encPure c e cum p)).m ≤ (absE c e).m + 1 := by
    rw [habs]; unfold step; simp only; split <;> simp
  simp only [absE, heldCount] at hm
  unfold Fits at hf ⊢
  have : c.W * ((encPure c e cum p).bulk.length + (encPure c e cum p).situation.held + k + 2)
      ≤ c.W * (e.bulk.length + e.situation.held + (k + 1) + 2) :=
    Nat.mul_le_mul_left _ (by omega)
  omega

end CV.Range
