import CV.Proofs.HuffSafe
/-!
# Vocabulary of the property statements about the Huffman codebooks
-/
namespace CV.Huff

/-- inputs on which `from_probabilities` is specified: at least one symbol, at most
`usize::MAX / 4` symbols (the constructor's own guard), and the sum of all weights is
representable in the weight type (otherwise the checked build panics with an overflow) -/
def Admissible (wb : Option Nat) (ws : List Nat) : Prop :=
  0 < ws.length ∧ ws.length ≤ usizeMax / 4 ∧ WeightsFit wb ws

/-- length of the codeword `encode_symbol_prefix` emits for `s` (0 if it is rejected) -/
def wordLen (en : List Nat) (s : Nat) : Nat :=
  match encodePrefix en s with
  | .ok w => w.length
  | .error _ => 0

/-- `Σ_s weight_s · |codeword_s|` of the encoder array `en` -/
def codeCost (ws : List Nat) (en : List Nat) : Nat :=
  (ws.zipIdx.map (fun p => p.1 * wordLen en p.2)).sum

/-- a tree is a code tree for the alphabet `0 … n-1`: every symbol is the label of exactly one leaf -/
def Tree.IsCodeTree (t : Tree) (n : Nat) : Prop := t.leaves.Perm (List.range n)

/-- `Σ_s weight_s · depth_s` of a code tree -/
def Tree.wcost (ws : List Nat) (t : Tree) : Nat :=
  (ws.zipIdx.map (fun p => p.1 * t.depth p.2)).sum

/-- `Σ_s weight_s · |c s|` of an arbitrary assignment of bit strings to symbols -/
def assignCost (ws : List Nat) (c : Nat → List Bool) : Nat :=
  (ws.zipIdx.map (fun p => p.1 * (c p.2).length)).sum

/-- no codeword is a prefix of another one -/
def PrefixFree (n : Nat) (c : Nat → List Bool) : Prop :=
  ∀ s1 s2, s1 < n → s2 < n → c s1 <+: c s2 → s1 = s2

theorem admissible_build {wb : Option Nat} {ws : List Nat} (h : Admissible wb ws) :
    ∃ en dn T, encTree wb ws = .ok en ∧ decTree wb ws = .ok dn ∧ huffTree ws = some T ∧
      Built ws.length en dn T :=
  build_ok wb ws h.1 h.2.1 h.2.2

theorem Built.wordLen_eq {n : Nat} {en : List Nat} {dn : List (Nat × Nat)} {T : Tree}
    (B : Built n en dn T) {s : Nat} (hs : s < n) : wordLen en s = T.depth s := by
  obtain ⟨p, hp⟩ := B.code_of_lt hs
  simp [wordLen, B.prefix hp, Tree.depth, hp]

end CV.Huff
