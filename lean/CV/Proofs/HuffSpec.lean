import CV.Proofs.HuffSafe
/-!
# Vocabulary of the property statements about the Huffman codebooks
-/
namespace CV.Huff

/-- the sum of all weights is representable in `n` bits (otherwise a checked build panics with
an overflow somewhere in the constructor) -/
def WeightsFit (n : Nat) (ws : List Nat) : Prop := ws.sum < 2^n

/-- an admissible number of symbols: at least one, at most `usize::MAX / 4` (the encoder
constructor's own guard) -/
def SizeOK {α : Type} (ws : List α) : Prop := 0 < ws.length ∧ ws.length ≤ usizeMax / 4

/-- length of the codeword `encode_symbol_prefix` emits for `s` (0 if it is rejected) -/
def wordLen (en : List Nat) (s : Nat) : Nat :=
  match encodePrefix en s with
  | .ok w => w.length
  | .error _ => 0

/-- `Σ_s weight_s · |codeword_s|` of the encoder array `en` -/
def codeCost (ws : List Nat) (en : List Nat) : Nat :=
  (ws.zipIdx.map (fun p => p.1 * wordLen en p.2)).sum

/-- a tree is a code tree for the alphabet `0 … n-1`: every symbol is the label of exactly one leaf -/
def Tree.IsCodeTree (t : Tree) (n : Nat) : Prop := t.leaves.Perm (List.range n)

/-- `Σ_s weight_s · depth_s` of a code tree -/
def Tree.wcost (ws : List Nat) (t : Tree) : Nat :=
  (ws.zipIdx.map (fun p => p.1 * t.depth p.2)).sum

/-- `Σ_s weight_s · |c s|` of an arbitrary assignment of bit strings to symbols -/
def assignCost (ws : List Nat) (c : Nat → List Bool) : Nat :=
  (ws.zipIdx.map (fun p => p.1 * (c p.2).length)).sum

/-- no codeword is a prefix of another one -/
def PrefixFree (n : Nat) (c : Nat → List Bool) : Prop :=
  ∀ s1 s2, s1 < n → s2 < n → c s1 <+: c s2 → s1 = s2

theorem noOverflow_zipIdx {n : Nat} {ws : List Nat} (h : WeightsFit n ws) :
    NoOverflow n ws.zipIdx := by
  simp only [NoOverflow, WeightsFit] at *
  rw [List.zipIdx_map_fst 0 ws]; exact h

/-- checked integer weights whose total fits: the constructors coincide with the exact ones -/
theorem checked_eq_exact {n : Nat} {ws : List Nat} (h : WeightsFit n ws) :
    encTree (checkedOps n) ws = encTree exactOps ws ∧
    decTree (checkedOps n) ws = decTree exactOps ws ∧
    huffTree (checkedOps n) ws = huffTree exactOps ws := by
  have hno := noOverflow_zipIdx h
  refine ⟨?_, ?_, treeLoop_checked n _ _ _ hno⟩
  · simp only [encTree]
    split
    · rfl
    · exact encLoop_checked n _ _ _ _ hno
  · simp only [decTree]
    split
    · rfl
    · exact decLoop_checked n _ _ _ _ hno

/-- a weight type whose `+` never panics: both constructors succeed on every admissible size -/
theorem total_build {α : Type} {ops : WeightOps α} (ht : Total ops) {ws : List α}
    (hs : SizeOK ws) :
    ∃ en dn T, encTree ops ws = .ok en ∧ decTree ops ws = .ok dn ∧ huffTree ops ws = some T ∧
      Built ws.length en dn T := by
  have hne : ws.zipIdx ≠ [] := by
    intro e
    have : ws.zipIdx.length = 0 := by rw [e]; rfl
    rw [List.length_zipIdx] at this; have := hs.1; omega
  obtain ⟨T, hT⟩ := treeLoop_total ops ht ws.length ws.zipIdx ws.length (by simp) hne
  obtain ⟨en, dn, he, hd, B⟩ := build_of_tree (ops := ops) hs.1 hs.2 hT
  exact ⟨en, dn, T, he, hd, hT, B⟩

theorem Built.wordLen_eq {n : Nat} {en : List Nat} {dn : List (Nat × Nat)} {T : Tree}
    (B : Built n en dn T) {s : Nat} (hs : s < n) : wordLen en s = T.depth s := by
  obtain ⟨p, hp⟩ := B.code_of_lt hs
  simp [wordLen, B.prefix hp, Tree.depth, hp]

end CV.Huff
