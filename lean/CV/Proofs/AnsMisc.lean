import CV.Proofs.AnsExport
import CV.Proofs.AnsInverse
/-!
# ANS coder: constructors establish the invariant; guards; size queries; seek
-/
namespace CV.Ans
open CV

variable {c : Cfg}

theorem readInitialLoop_inv (hc : c.Valid) (ws : List Nat) (hws : ∀ w ∈ ws, w < 2^c.W) :
    ∀ st, st < 2^(c.S - c.W) →
      Inv c { bulk := (readInitialLoop c st ws).2, state := (readInitialLoop c st ws).1 } := by
  obtain ⟨f1, f2, f3, f4, f5, f6⟩ := Valid.facts hc
  obtain ⟨e1, e2, e3, e4, l1, l2, l3⟩ := pows hc
  have l4 : 2^(c.S - c.W) ≤ 2^c.S := pow_le_pow2 (by omega)
  induction ws with
  | nil =>
    intro st hst
    exact ⟨by simp only [readInitialLoop]; omega, by simp [readInitialLoop], by simp [readInitialLoop]⟩
  | cons w ws ih =>
    intro st hst
    have hw : w < 2^c.W := hws w List.mem_cons_self
    have hnt : st <<< c.W < 2^c.S := by
      rw [Nat.shiftLeft_eq, e2]; exact Nat.mul_lt_mul_of_pos_right hst (Nat.two_pow_pos _)
    simp only [readInitialLoop]
    rw [Nat.mod_eq_of_lt hnt, shl_or_eq hw]
    have hlt : st * 2^c.W + w < 2^c.S := by
      have : (st + 1) * 2^c.W ≤ 2^(c.S - c.W) * 2^c.W := Nat.mul_le_mul_right _ hst
      rw [Nat.add_mul, Nat.one_mul] at this
      omega
    by_cases hge : st * 2^c.W + w ≥ 2^(c.S - c.W)
    · simp only [hge, if_true]
      exact ⟨hlt, fun w' hw' => hws w' (List.mem_cons_of_mem _ hw'), fun _ => hge⟩
    · simp only [hge, if_false]
      exact ih (fun w' hw' => hws w' (List.mem_cons_of_mem _ hw')) _ (by omega)

/-- every coder `from_compressed` accepts satisfies the invariant -/
theorem fromCompressed_inv (hc : c.Valid) (ws : List Nat) (hws : ∀ w ∈ ws, w < 2^c.W)
    {x : Coder} (h : fromCompressed c ws = some x) : Inv c x ∧ x.cap = none := by
  obtain ⟨f1, f2, f3, f4, f5, f6⟩ := Valid.facts hc
  cases ws with
  | nil =>
    simp only [fromCompressed, Option.some.injEq] at h
    subst h
    exact ⟨⟨Nat.two_pow_pos _, by simp, by simp⟩, rfl⟩
  | cons w ws =>
    simp only [fromCompressed] at h
    split at h
    · cases h
    · simp only [Option.some.injEq] at h
      subst h
      have hw : w < 2^c.W := hws w List.mem_cons_self
      have : w < 2^(c.S - c.W) := Nat.lt_of_lt_of_le hw (pow_le_pow2 (by omega))
      exact ⟨readInitialLoop_inv hc ws (fun w' hw' => hws w' (List.mem_cons_of_mem _ hw')) w this, rfl⟩

/-- `from_compressed` rejects exactly the non-empty data whose last word is zero -/
theorem fromCompressed_none_iff (ws : List Nat) :
    fromCompressed c ws = none ↔ ∃ rest, ws = 0 :: rest := by
  cases ws with
  | nil => simp [fromCompressed]
  | cons w ws =>
    simp only [fromCompressed]
    split
    · rename_i h; subst h; simp
    · rename_i h; simp; exact h

/-- on any backend (bounded or not): a successful `pushAll` only prepends the words -/
theorem pushAll_some {x y : Coder} (ws : List Nat) (h : pushAll x ws = some y) :
    y.bulk = ws.reverse ++ x.bulk ∧ y.state = x.state ∧ y.cap = x.cap := by
  induction ws generalizing x with
  | nil =>
    simp only [pushAll, Option.some.injEq] at h
    subst h; simp
  | cons w ws ih =>
    simp only [pushAll] at h
    split at h
    · obtain ⟨h1, h2, h3⟩ := ih h
      simp only at h1 h2 h3
      refine ⟨?_, h2, h3⟩
      rw [h1]; simp
    · cases h

/-- the `get_compressed` guard on **any** backend: if the guard could be created, dropping it
    restores the coder exactly (if it could not, the model keeps the old coder: D21 repair) -/
theorem getCompressed_guard_any {x y : Coder} (h : getCompressedThenDrop c x = some y) : y = x := by
  unfold getCompressedThenDrop at h
  split at h
  · rename_i z hz
    obtain ⟨h1, h2, h3⟩ := pushAll_some _ hz
    simp only [Option.some.injEq] at h
    subst h
    apply Coder.ext3
    · simp only [dropReads, h1]
      rw [← List.length_reverse, List.drop_left]
    · simp only [dropReads]; exact h2
    · simp only [dropReads]; exact h3
  · cases h

theorem dropReads_pushAll {x : Coder} (hcap : x.cap = none) (ws : List Nat) :
    (pushAll x ws).map (fun y => dropReads y ws.length) = some x := by
  rw [pushAll_none hcap]
  simp only [Option.map_some, dropReads, Option.some.injEq]
  have : (ws.reverse ++ x.bulk).drop ws.length = x.bulk := by
    rw [← List.length_reverse, List.drop_left]
  cases x
  simp_all

/-- the `get_compressed` guard: shows what `into_compressed` would return; dropping it restores
    the coder exactly -/
theorem getCompressed_guard {x : Coder} (hcap : x.cap = none) :
    getCompressedThenDrop c x = some x := by
  unfold getCompressedThenDrop
  have := dropReads_pushAll hcap (chunksLE c.W x.state)
  rw [pushAll_none hcap] at this ⊢
  simpa using this

/-- the `get_binary` guard: dropping it restores the coder exactly -/
theorem getBinary_guard {x : Coder} (hcap : x.cap = none) {ws : List Nat}
    (h : getBinary c x = .ok ws) : getBinaryThenDrop c x = some x := by
  unfold getBinary at h
  unfold getBinaryThenDrop
  split at h
  · cases h
  · rename_i top restBE heq
    split at h
    · cases h
    · rename_i htop
      simp only [htop, if_false]
      have := dropReads_pushAll hcap restBE.reverse
      rw [pushAll_none hcap] at this ⊢
      simpa using this

theorem numWords_eq {x : Coder} (hx : x.cap = none) :
    ∃ ws, intoCompressed c x = some ws ∧ numWords c x = ws.length ∧
      numBits c x = c.W * ws.length ∧ iterCompressed c x = ws.reverse := by
  refine ⟨_, intoCompressed_none hx, ?_, ?_, ?_⟩
  · simp [numWords, chunksBE, Nat.add_comm]
  · simp [numBits, numWords, chunksBE, Nat.add_comm]
  · simp [iterCompressed, chunksBE]

theorem isEmpty_iff (hc : c.Valid) {x : Coder} (hx : Inv c x) (hcap : x.cap = none) :
    isEmpty x = true ↔ intoCompressed c x = some [] := by
  obtain ⟨f1, f2, f3, f4, f5, f6⟩ := Valid.facts hc
  have hW : 0 < c.W := by omega
  rw [intoCompressed_none hcap, chunksBE_eq]
  simp only [isEmpty, beq_iff_eq, Option.some.injEq, List.append_eq_nil_iff]
  constructor
  · intro h0
    have hb : x.bulk = [] := by
      cases hbk : x.bulk with
      | nil => rfl
      | cons a l =>
        have := hx.2.2 (by rw [hbk]; exact List.cons_ne_nil _ _)
        have := Nat.two_pow_pos (c.S - c.W)
        omega
    rw [h0, nchunks_zero _ hW]
    exact ⟨rfl, hb⟩
  · intro ⟨h1, _⟩
    rcases Nat.eq_zero_or_pos x.state with h | h
    · exact h
    · obtain ⟨hn, _, _⟩ := nchunks_bounds hW h
      obtain ⟨n, hn'⟩ : ∃ n, nchunks c.W x.state = n + 1 := ⟨nchunks c.W x.state - 1, by omega⟩
      rw [hn', digitsBE_succ] at h1
      cases h1

/-- encoding never touches the words already on the bulk: they remain a suffix -/
theorem encArith_bulk_suffix (x : Coder) (cum p : Nat) :
    ∃ pre, (encArith c x cum p).bulk = pre ++ x.bulk := by
  simp only [encArith, afterFlush]
  split
  · exact ⟨[x.state % 2^c.W], rfl⟩
  · exact ⟨[], rfl⟩

/-- seeking to a snapshot `(pos, state)` taken from `x` on any coder whose bulk extends `x.bulk`
    reconstructs `x` exactly -/
theorem seek_snapshot (x y : Coder) (hcap : y.cap = x.cap) (pre : List Nat) (h : y.bulk = pre ++ x.bulk) :
    seek y (pos x) = some x := by
  simp only [seek, pos]
  have hle : x.bulk.length ≤ y.bulk.length := by rw [h]; simp
  simp only [hle, if_true, Option.some.injEq]
  have : y.bulk.drop (y.bulk.length - x.bulk.length) = x.bulk := by
    rw [h]; simp
  rw [this]
  cases x; cases y; simp_all

theorem seek_beyond (y : Coder) (p : Nat × Nat) (h : y.bulk.length < p.1) : seek y p = none := by
  simp only [seek]
  have : ¬ p.1 ≤ y.bulk.length := by omega
  simp only [this, if_false]

end CV.Ans
