import CV.Proofs.AnsStep
/-!
# ANS coder: encode and decode are mutually inverse (both directions), with invariant
-/
namespace CV.Ans
open CV

variable {c : Cfg} {Sym : Type}

theorem Coder.ext3 {a b : Coder} (h1 : a.bulk = b.bulk) (h2 : a.state = b.state)
    (h3 : a.cap = b.cap) : a = b := by
  cases a; cases b; simp_all

theorem encArith_of_noflush {y : Coder} {cum p : Nat} (h : y.state < p * 2^(c.S - c.P)) :
    encArith c y cum p =
      { bulk := y.bulk, state := (y.state / p) * 2^c.P + (cum + y.state % p), cap := y.cap } := by
  have : ¬ flushCond c y p := by unfold flushCond; omega
  simp only [encArith, afterFlush, this, if_false]

theorem encArith_of_flush {y : Coder} {cum p : Nat} (h : p * 2^(c.S - c.P) ≤ y.state) :
    encArith c y cum p =
      { bulk := (y.state % 2^c.W) :: y.bulk,
        state := (y.state / 2^c.W / p) * 2^c.P + (cum + y.state / 2^c.W % p), cap := y.cap } := by
  have : flushCond c y p := h
  simp only [encArith, afterFlush, this, if_true]

/-- `decode ∘ encode = id` on states: popping after a push returns the pushed symbol and
    *exactly* the previous coder. -/
theorem decArith_encArith (hc : c.Valid) {m : Model Sym} (hm : m.WellFormed c.P)
    {x : Coder} (hx : Inv c x) {s : Sym} {cum p : Nat} (henc : m.enc s = some (cum, p)) :
    decArith c m (encArith c x cum p) = (s, x) := by
  obtain ⟨hp, hsum, hp1, hdec⟩ := hm.1 _ _ _ henc
  obtain ⟨f1, f2, f3, f4, f5, f6⟩ := Valid.facts hc
  obtain ⟨e1, e2, e3, e4, l1, l2, l3⟩ := pows hc
  have hlt := afterFlush_lt hc hx hp
  have hPw : 0 < 2^c.P := Nat.two_pow_pos _
  have hW : 0 < 2^c.W := Nat.two_pow_pos _
  -- facts about y1 = afterFlush
  have hr : (afterFlush c x p).state % p < p := Nat.mod_lt _ hp
  have hq : cum + (afterFlush c x p).state % p < 2^c.P := by omega
  have hmod : ((afterFlush c x p).state / p * 2^c.P + (cum + (afterFlush c x p).state % p)) % 2^c.P
      = cum + (afterFlush c x p).state % p := mul_add_mod_of_lt hq
  have hdiv : ((afterFlush c x p).state / p * 2^c.P + (cum + (afterFlush c x p).state % p)) / 2^c.P
      = (afterFlush c x p).state / p := mul_add_div_of_lt hq
  have hd := hdec (cum + (afterFlush c x p).state % p) (by omega) (by omega)
  have hback : (afterFlush c x p).state / p * p + (cum + (afterFlush c x p).state % p - cum)
      = (afterFlush c x p).state := by
    have := Nat.div_add_mod (afterFlush c x p).state p
    rw [Nat.mul_comm] at this
    omega
  simp only [decArith, encArith, hmod, hdiv, hd, hback]
  -- now case split on the flush
  unfold afterFlush
  by_cases hf : flushCond c x p
  · simp only [hf, if_true]
    have hlt2 : x.state / 2^c.W < 2^(c.S - c.W) := by
      apply Nat.div_lt_of_lt_mul; rw [Nat.mul_comm, ← e2]; exact hx.1
    simp only [hlt2, if_true]
    have := Nat.div_add_mod x.state (2^c.W)
    rw [Nat.mul_comm] at this
    simp only [this]
  · simp only [hf, if_false]
    by_cases hsmall : x.state < 2^(c.S - c.W)
    · simp only [hsmall, if_true]
      have : x.bulk = [] := by
        cases hb : x.bulk with
        | nil => rfl
        | cons w r =>
          have := hx.2.2 (by rw [hb]; exact List.cons_ne_nil _ _)
          omega
      simp only [this]
      cases x
      simp_all
    · simp only [hsmall, if_false]

/-- `encode ∘ decode = id` on states (surjectivity / bits-back direction). -/
theorem encArith_decArith (hc : c.Valid) {m : Model Sym} (hm : m.WellFormed c.P)
    {x : Coder} (hx : Inv c x) :
    Inv c (decArith c m x).2 ∧
    m.enc (decArith c m x).1 = some ((m.dec (x.state % 2^c.P)).2.1, (m.dec (x.state % 2^c.P)).2.2) ∧
    encArith c (decArith c m x).2 (m.dec (x.state % 2^c.P)).2.1 (m.dec (x.state % 2^c.P)).2.2 = x := by
  obtain ⟨f1, f2, f3, f4, f5, f6⟩ := Valid.facts hc
  obtain ⟨e1, e2, e3, e4, l1, l2, l3⟩ := pows hc
  have hPw : 0 < 2^c.P := Nat.two_pow_pos _
  have hW : 0 < 2^c.W := Nat.two_pow_pos _
  have hq : x.state % 2^c.P < 2^c.P := Nat.mod_lt _ hPw
  obtain ⟨henc, hle, hlt⟩ := hm.2 _ hq
  obtain ⟨hp, hsum, hp1, _⟩ := hm.1 _ _ _ henc
  obtain ⟨_, _, hst⟩ := decode_spec hc hm hx
  obtain ⟨hs, hb, hne⟩ := hx
  generalize hr : m.dec (x.state % 2^c.P) = r at henc hle hlt hp hsum hp1 hst
  obtain ⟨s, cum, p⟩ := r
  simp only at henc hle hlt hp hsum hp1 hst
  -- abbreviations
  generalize hA : x.state / 2^c.P = A at hst
  generalize hR : x.state % 2^c.P - cum = R at hst
  have hRp : R < p := by omega
  have hstate : x.state = A * 2^c.P + (cum + R) := by
    have := Nat.div_add_mod x.state (2^c.P)
    rw [hA, Nat.mul_comm] at this
    omega
  have l4 : 2^(c.S - c.W) ≤ 2^c.S := pow_le_pow2 (by omega)
  have hpS : p * 2^(c.S - c.P) < 2^c.S := by
    rw [e1, Nat.mul_comm]; exact Nat.mul_lt_mul_of_pos_left hp1 (Nat.two_pow_pos _)
  have hmodp : (A * p + R) % p = R := mul_add_mod_of_lt hRp
  have hdivp : (A * p + R) / p = A := mul_add_div_of_lt hRp
  simp only [decArith, hr, hA, hR]
  refine ⟨?_, henc, ?_⟩
  · -- invariant of the decoded coder
    by_cases hlt2 : A * p + R < 2^(c.S - c.W)
    · simp only [hlt2, if_true]
      cases hbulk : x.bulk with
      | nil =>
        refine ⟨by simp only; omega, ?_, ?_⟩
        · simp only; intro w hw; cases hw
        · simp only; intro h; exact absurd rfl h
      | cons w rest =>
        have hw : w < 2^c.W := hb w (by rw [hbulk]; exact List.mem_cons_self)
        have hge := hne (by rw [hbulk]; exact List.cons_ne_nil _ _)
        refine ⟨?_, ?_, ?_⟩
        · simp only
          have : (A * p + R + 1) * 2^c.W ≤ 2^(c.S - c.W) * 2^c.W := Nat.mul_le_mul_right _ hlt2
          rw [Nat.add_mul, Nat.one_mul] at this
          omega
        · simp only
          intro w' hw'
          exact hb w' (by rw [hbulk]; exact List.mem_cons_of_mem _ hw')
        · simp only
          intro _
          -- A ≥ 2^(S-W-P), so (A*p + R) * 2^W ≥ 2^(S-P) ≥ 2^(S-W)
          have hA2 : 2^(c.S - c.W - c.P) ≤ A := by
            rw [← hA, Nat.le_div_iff_mul_le hPw, ← e4]; exact hge
          have h1 : 2^(c.S - c.W - c.P) * 1 ≤ A * p := Nat.mul_le_mul hA2 hp
          have h2 : 2^(c.S - c.W - c.P) * 2^c.W ≤ (A * p + R) * 2^c.W :=
            Nat.mul_le_mul_right _ (by omega)
          omega
    · simp only [hlt2, if_false]
      exact ⟨by simp only; omega, hb, fun _ => by simp only; omega⟩
  · -- re-encoding restores x
    by_cases hlt2 : A * p + R < 2^(c.S - c.W)
    · simp only [hlt2, if_true]
      cases hbulk : x.bulk with
      | nil =>
        simp only
        rw [encArith_of_noflush (by simp only; omega)]
        simp only [hmodp, hdivp]
        exact Coder.ext3 hbulk.symm hstate.symm rfl
      | cons w rest =>
        have hw : w < 2^c.W := hb w (by rw [hbulk]; exact List.mem_cons_self)
        have hge := hne (by rw [hbulk]; exact List.cons_ne_nil _ _)
        simp only
        have hA2 : 2^(c.S - c.W - c.P) ≤ A := by
          rw [← hA, Nat.le_div_iff_mul_le hPw, ← e4]; exact hge
        have hf : p * 2^(c.S - c.P) ≤ (A * p + R) * 2^c.W + w := by
          have h1 : p * 2^(c.S - c.W - c.P) ≤ A * p := by
            rw [Nat.mul_comm]; exact Nat.mul_le_mul_right _ hA2
          have h2 : p * 2^(c.S - c.W - c.P) * 2^c.W ≤ (A * p + R) * 2^c.W :=
            Nat.mul_le_mul_right _ (by omega)
          rw [e3, ← Nat.mul_assoc]
          omega
        rw [encArith_of_flush (by simp only; exact hf)]
        simp only [mul_add_mod_of_lt hw, mul_add_div_of_lt hw, hmodp, hdivp]
        exact Coder.ext3 hbulk.symm hstate.symm rfl
    · simp only [hlt2, if_false]
      rw [encArith_of_noflush (by simp only; omega)]
      simp only [hmodp, hdivp]
      exact Coder.ext3 rfl hstate.symm rfl

end CV.Ans
