import CV.Proofs.RangeInspect
/-!
# Compressed size (C12), multiplicatively on naturals

With `k_i = S − W − P_i`:
`2^num_bits · ∏ p_i · ∏ 2^k_i  ≤  2^(2W) · ∏ 2^P_i · ∏ (2^k_i + 1)`,
i.e. `num_bits ≤ Σ log2(2^P_i / p_i) + Σ log2(1 + 2^-k_i) + 2W` (even without the `S` the
property allows), and `num_words ≤ n + 2`.
-/
namespace CV.Range
open RangeSpec (St step run)

/-- `∏ p_i · 2^(S-W-P_i)` -/
def sizeA (c : Cfg) : List (Nat × Nat × Nat) → Nat
  | [] => 1
  | (P, _, p) :: rest => p * 2^(c.S - c.W - P) * sizeA c rest

/-- `∏ 2^P_i · (2^(S-W-P_i) + 1)` -/
def sizeB (c : Cfg) : List (Nat × Nat × Nat) → Nat
  | [] => 1
  | (P, _, _) :: rest => 2^P * (2^(c.S - c.W - P) + 1) * sizeB c rest

/-- potential inequality carried along a run -/
def Pot (c : Cfg) (st : St) (a b : Nat) : Prop :=
  (2^c.W)^st.m * (2^c.S - 1) * a ≤ st.R * b

theorem pot_init (c : Cfg) : Pot c (RangeSpec.init c.S) 1 1 := by
  simp [Pot, RangeSpec.init]

/-- the rounding loss of one step: `R · 2^k ≤ ⌊R / 2^P⌋ · 2^P · (2^k + 1)` -/
theorem step_loss {c : Cfg} (hc : RValid c) {R : Nat} (hr : 2^(c.S - c.W) ≤ R) :
    R * 2^(c.S - c.W - c.P) ≤ R / 2^c.P * (2^c.P * (2^(c.S - c.W - c.P) + 1)) := by
  have hP := two_pow_pos' c.P
  have hs : 2^(c.S - c.W - c.P) ≤ R / 2^c.P := by
    rw [Nat.le_div_iff_mul_le hP, ← hc.pow_SW_P]; exact hr
  have hlt : R < (R / 2^c.P + 1) * 2^c.P := by
    have := Nat.lt_mul_div_succ R hP
    rw [Nat.mul_comm]; exact this
  generalize R / 2^c.P = s at *
  generalize 2^(c.S - c.W - c.P) = K at *
  generalize 2^c.P = Q at *
  calc R * K ≤ ((s + 1) * Q) * K := Nat.mul_le_mul_right _ (Nat.le_of_lt hlt)
    _ = s * Q * K + Q * K := by ring
    _ ≤ s * Q * K + Q * s := Nat.add_le_add_left (Nat.mul_le_mul_left _ hs) _
    _ = s * (Q * (K + 1)) := by ring

theorem pot_step {c : Cfg} (hc : RValid c) {st : St} (hI : SpecInv c st) {cum p a b : Nat}
    (h : Pot c st a b) :
    Pot c (step c.W c.S st c.P cum p)
      (a * (p * 2^(c.S - c.W - c.P))) (b * (2^c.P * (2^(c.S - c.W - c.P) + 1))) := by
  have key := step_loss hc hI.1
  unfold Pot at h ⊢
  have hcore : (2^c.W)^st.m * (2^c.S - 1) * (a * (p * 2^(c.S - c.W - c.P)))
      ≤ (st.R / 2^c.P * p) * (b * (2^c.P * (2^(c.S - c.W - c.P) + 1))) := by
    generalize st.R / 2^c.P = s at *
    generalize 2^(c.S - c.W - c.P) = K at *
    generalize 2^c.P = Q at *
    generalize (2^c.W)^st.m * (2^c.S - 1) = G at *
    calc G * (a * (p * K)) = (G * a) * (p * K) := by ring
      _ ≤ (st.R * b) * (p * K) := Nat.mul_le_mul_right _ h
      _ = (b * p) * (st.R * K) := by ring
      _ ≤ (b * p) * (s * (Q * (K + 1))) := Nat.mul_le_mul_left _ key
      _ = (s * p) * (b * (Q * (K + 1))) := by ring
  unfold step
  simp only
  split
  · simp only [Nat.pow_succ]
    calc (2^c.W)^st.m * 2^c.W * (2^c.S - 1) * (a * (p * 2^(c.S - c.W - c.P)))
        = ((2^c.W)^st.m * (2^c.S - 1) * (a * (p * 2^(c.S - c.W - c.P)))) * 2^c.W := by ring
      _ ≤ ((st.R / 2^c.P * p) * (b * (2^c.P * (2^(c.S - c.W - c.P) + 1)))) * 2^c.W :=
          Nat.mul_le_mul_right _ hcore
      _ = st.R / 2^c.P * p * 2^c.W * (b * (2^c.P * (2^(c.S - c.W - c.P) + 1))) := by ring
  · exact hcore

theorem pot_run {Sym : Type} {c : Cfg} : ∀ (msg : List (MStep Sym)) (st : St) (a b : Nat),
    SpecInv c st → (∀ x ∈ msg, x.Valid c) → Pot c st a b →
    Pot c (run c.W c.S st (msg.map MStep.spec))
      (a * sizeA c (msg.map MStep.spec)) (b * sizeB c (msg.map MStep.spec)) := by
  intro msg
  induction msg with
  | nil => intro st a b _ _ h; simpa [sizeA, sizeB, run] using h
  | cons x xs ih =>
    intro st a b hI hv h
    have hx : x.Valid c := hv x (by simp)
    obtain ⟨hp, hcp⟩ := hx.cp_ok
    have hI1 : SpecInv (cfgAt c x.B x.P) st := hI
    have hI2 : SpecInv c (step c.W c.S st x.P x.cp.1 x.cp.2) :=
      specInv_step (c := cfgAt c x.B x.P) hx.1 hI1 hp hcp
    have h1 : Pot c (step c.W c.S st x.P x.cp.1 x.cp.2)
        (a * (x.cp.2 * 2^(c.S - c.W - x.P))) (b * (2^x.P * (2^(c.S - c.W - x.P) + 1))) :=
      pot_step (c := cfgAt c x.B x.P) hx.1 hI1 h
    have h2 := ih _ _ _ hI2 (fun y hy => hv y (by simp [hy])) h1
    simp only [List.map_cons, MStep.spec, run, sizeA, sizeB] at h2 ⊢
    have e1 : a * (x.cp.2 * 2^(c.S - c.W - x.P) * sizeA c (xs.map MStep.spec))
        = a * (x.cp.2 * 2^(c.S - c.W - x.P)) * sizeA c (xs.map MStep.spec) := by ring
    have e2 : b * (2^x.P * (2^(c.S - c.W - x.P) + 1) * sizeB c (xs.map MStep.spec))
        = b * (2^x.P * (2^(c.S - c.W - x.P) + 1)) * sizeB c (xs.map MStep.spec) := by ring
    rw [e1, e2]; exact h2

/-- **C12**: after encoding any message from an empty encoder,
    `2^num_bits · ∏ p_i 2^k_i ≤ 2^(2W) · ∏ 2^P_i (2^k_i + 1)` and `num_words ≤ n + 2`. -/
theorem size_bound {Sym : Type} {c : Cfg} (hc : RValid c) (msg : List (MStep Sym))
    (hn : MsgFits c msg.length) (hv : ∀ x ∈ msg, x.Valid c) :
    ∃ e nw, encodeMsg c (Encoder.empty c) msg = .ok e ∧
      numWords c e = .ok nw ∧ numBits c e = .ok (c.W * nw) ∧
      nw ≤ msg.length + 2 ∧
      2^(c.W * nw) * sizeA c (msg.map MStep.spec)
        ≤ 2^(2 * c.W) * sizeB c (msg.map MStep.spec) := by
  obtain ⟨e, he, hI, hf, hws⟩ := words_eq_spec hc msg hn hv
  have hnw := numWords_eq hc hI hf
  have hnb := numBits_eq hc hI hf
  rw [intoCompressed_eq hc hI] at hws
  have hlen : (e.bulk ++ sealP c e).length
      = (RangeSpec.words c.W c.S (msg.map MStep.spec)).length := by
    have := Except.ok.inj hws; rw [this]
  refine ⟨e, _, he, hnw, hnb, ?_, ?_⟩
  · rw [hlen]
    cases msg with
    | nil => simp [RangeSpec.words]
    | cons x xs =>
      have h1 := (sealWords_spec_length c.W c.S
        (run c.W c.S (RangeSpec.init c.S) ((x :: xs).map MStep.spec))).2
      have h2 := (run_m_le c.W c.S (RangeSpec.init c.S) ((x :: xs).map MStep.spec)).2
      have hm0 : (RangeSpec.init c.S).m = 0 := rfl
      rw [hm0, List.length_map] at h2
      show (RangeSpec.sealWords c.W c.S _).length ≤ _
      omega
  · rw [hlen]
    have hpot := pot_run msg (RangeSpec.init c.S) 1 1 (specInv_init hc) hv (pot_init c)
    have hIn := specInv_run msg (RangeSpec.init c.S) (specInv_init hc) hv
    simp only [Nat.one_mul] at hpot
    unfold Pot at hpot
    generalize hst : run c.W c.S (RangeSpec.init c.S) (msg.map MStep.spec) = st at *
    have hT1 : 0 < 2^c.S - 1 := by
      have : 1 < 2^c.S := Nat.one_lt_two_pow (by have := hc.W_lt_S; omega)
      omega
    -- cancel `2^S − 1`
    have hAB : (2^c.W)^st.m * sizeA c (msg.map MStep.spec) ≤ sizeB c (msg.map MStep.spec) := by
      have h1 : st.R * sizeB c (msg.map MStep.spec)
          ≤ (2^c.S - 1) * sizeB c (msg.map MStep.spec) :=
        Nat.mul_le_mul_right _ (by have := hIn.2.1; omega)
      have h2 : (2^c.S - 1) * ((2^c.W)^st.m * sizeA c (msg.map MStep.spec))
          ≤ (2^c.S - 1) * sizeB c (msg.map MStep.spec) := by
        calc (2^c.S - 1) * ((2^c.W)^st.m * sizeA c (msg.map MStep.spec))
            = (2^c.W)^st.m * (2^c.S - 1) * sizeA c (msg.map MStep.spec) := by ring
          _ ≤ _ := Nat.le_trans hpot h1
      exact Nat.le_of_mul_le_mul_left h2 hT1
    have hwl : (RangeSpec.words c.W c.S (msg.map MStep.spec)).length ≤ st.m + 2 := by
      cases msg with
      | nil => simp [RangeSpec.words]
      | cons x xs =>
        rw [← hst]
        exact (sealWords_spec_length c.W c.S _).2
    have hpow : 2^(c.W * (RangeSpec.words c.W c.S (msg.map MStep.spec)).length)
        ≤ (2^c.W)^st.m * 2^(2 * c.W) := by
      rw [← Nat.pow_mul, ← Nat.pow_add]
      apply Nat.pow_le_pow_right (by omega)
      calc c.W * (RangeSpec.words c.W c.S (msg.map MStep.spec)).length
          ≤ c.W * (st.m + 2) := Nat.mul_le_mul_left _ hwl
        _ = c.W * st.m + 2 * c.W := by ring
    calc 2^(c.W * (RangeSpec.words c.W c.S (msg.map MStep.spec)).length)
          * sizeA c (msg.map MStep.spec)
        ≤ ((2^c.W)^st.m * 2^(2 * c.W)) * sizeA c (msg.map MStep.spec) :=
          Nat.mul_le_mul_right _ hpow
      _ = 2^(2 * c.W) * ((2^c.W)^st.m * sizeA c (msg.map MStep.spec)) := by ring
      _ ≤ 2^(2 * c.W) * sizeB c (msg.map MStep.spec) := Nat.mul_le_mul_left _ hAB

end CV.Range
