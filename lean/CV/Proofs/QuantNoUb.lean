import CV.Model.Quant
/-!
# `quantize.rs` contains no reachable unsafe precondition — for ARBITRARY distributions

After D25 (symbol-table iterator) and D27 (`quantile_function`) every conversion to `NonZero` in
`quantize.rs` is checked.  Accordingly the model of the leaky quantizer has no `Fault.ub` site
left, and for *arbitrary* external functions `gl`, `gr` (no monotonicity, no bound — a
`Distribution` is a safe trait and may return anything) the encoder, the decoder (any hint, any
fuel) and the symbol table never return a `Fault.ub`: a non-monotone or out-of-`[0,1]` CDF can
only reach the documented *panics* (or an overflow panic in a checked build), nowhere UB.
-/
namespace CV.Quant

def SErr.isUb : SErr → Bool
  | .fault (.ub _) => true
  | _ => false

/-- the computation does not end in an unsafe-precondition violation -/
def NoUb {α : Type} (r : SM α) : Prop := ∀ e, r = .error e → e.isUb = false

theorem NoUb.ok {α : Type} (a : α) : NoUb (.ok a : SM α) := by intro e h; cases h

theorem NoUb.err {α : Type} {e : SErr} (h : e.isUb = false) : NoUb (.error e : SM α) := by
  intro e' h'; cases h'; exact h

theorem noUb_liftM_cadd (site : String) (n a b : Nat) : NoUb (liftM (cadd site n a b)) := by
  unfold cadd; split <;> intro e h <;> cases h <;> rfl

theorem noUb_liftM_symCadd (t : SymTy) (site : String) (a b : Int) :
    NoUb (liftM (t.cadd site a b)) := by
  unfold SymTy.cadd; split <;> intro e h <;> cases h <;> rfl

theorem noUb_liftM_symCsub (t : SymTy) (site : String) (a b : Int) :
    NoUb (liftM (t.csub site a b)) := by
  unfold SymTy.csub; split <;> intro e h <;> cases h <;> rfl

variable {m : LQ} {gl gr : Ext}

theorem noUb_leaky (g : Ext) (site : String) (s : Int) : NoUb (m.leaky g site s) := by
  unfold LQ.leaky; split
  · exact NoUb.err rfl
  · exact noUb_liftM_cadd _ _ _ _

theorem noUb_rightOf (g : Ext) (site : String) (s : Int) : NoUb (m.rightOf g site s) := by
  unfold LQ.rightOf; split
  · exact NoUb.ok _
  · have := noUb_leaky (m := m) g site s
    split
    · rename_i e he; intro e' h'; cases h'; exact this e he
    · exact NoUb.ok _

theorem noUb_stepDown (s : Int) : ∀ (fuel : Nat) (step : Int), NoUb (m.stepDown s fuel step) := by
  intro fuel
  induction fuel with
  | zero => intro step; unfold LQ.stepDown; exact NoUb.err rfl
  | succ f ih => intro step; unfold LQ.stepDown; simp only; split
                 · exact NoUb.ok _
                 · exact ih _

theorem noUb_stepUp (s : Int) : ∀ (fuel : Nat) (step : Int), NoUb (m.stepUp s fuel step) := by
  intro fuel
  induction fuel with
  | zero => intro step; unfold LQ.stepUp; exact NoUb.err rfl
  | succ f ih => intro step; unfold LQ.stepUp; simp only; split
                 · exact NoUb.ok _
                 · exact ih _

/-- propagation of an error through `match x with | .error e => .error e | …` -/
theorem NoUb.prop {α β : Type} {x : SM α} (hx : NoUb x) {e : SErr} (he : x = .error e) :
    NoUb (.error e : SM β) := NoUb.err (hx e he)

theorem noUb_leftM (site : String) (s : Int) :
    NoUb (if s = m.min then (.ok 0 : SM Nat) else m.leaky gl site s) := by
  split
  · exact NoUb.ok _
  · exact noUb_leaky _ _ _

theorem noUb_down (q : Nat) : ∀ (fuel : Nat) (s step : Int) (left : Nat) (found : Bool),
    NoUb (m.down gl gr q fuel s step left found) := by
  intro fuel
  induction fuel with
  | zero => intro s step left found; unfold LQ.down; exact NoUb.err rfl
  | succ f ih =>
    intro s step left found
    unfold LQ.down
    simp only
    split
    · exact NoUb.ok _
    · split
      · rename_i e he; exact (noUb_leftM (m := m) (gl := gl) _ _).prop he
      · split
        · split
          · split
            · rename_i e he; exact (noUb_rightOf (m := m) _ _ _).prop he
            · exact NoUb.ok _
          · split
            · rename_i e he; exact (noUb_liftM_symCadd _ _ _ _).prop he
            · exact ih _ _ _ _
        · split
          · split
            · rename_i e he; exact (noUb_liftM_symCsub _ _ _ _).prop he
            · exact ih _ _ _ _
          · split
            · rename_i e he; exact (noUb_stepDown (m := m) _ _ _).prop he
            · exact ih _ _ _ _

theorem noUb_up (q : Nat) : ∀ (fuel : Nat) (s step : Int) (left : Nat) (found : Bool),
    NoUb (m.up gl gr q fuel s step left found) := by
  intro fuel
  induction fuel with
  | zero => intro s step left found; unfold LQ.up; exact NoUb.err rfl
  | succ f ih =>
    intro s step left found
    unfold LQ.up
    simp only
    split
    · split
      · rename_i e he; exact (noUb_leaky (m := m) _ _ _).prop he
      · split
        · exact NoUb.err rfl
        · exact NoUb.ok _
    · split
      · rename_i e he; exact (noUb_rightOf (m := m) _ _ _).prop he
      · split
        · split
          · split
            · rename_i e he; exact (noUb_leftM (m := m) (gl := gl) _ _).prop he
            · split
              · exact NoUb.ok _
              · split
                · rename_i e he; exact (noUb_liftM_symCsub _ _ _ _).prop he
                · exact ih _ _ _ _
          · split
            · rename_i e he; exact (noUb_liftM_symCsub _ _ _ _).prop he
            · exact ih _ _ _ _
        · split
          · split
            · rename_i e he; exact (noUb_liftM_symCadd _ _ _ _).prop he
            · exact ih _ _ _ _
          · split
            · rename_i e he; exact (noUb_stepUp (m := m) _ _ _).prop he
            · exact ih _ _ _ _

/-- **no UB in `quantile_function`, whatever the distribution, the hint and the fuel** -/
theorem noUb_dec (fuel : Nat) (hint : Int) (q : Nat) : NoUb (m.dec gl gr fuel hint q) := by
  unfold LQ.dec
  simp only
  split
  · exact NoUb.err rfl
  · split
    · rename_i e he
      refine NoUb.prop (x := _) ?_ he
      split
      · exact NoUb.ok _
      · exact noUb_leaky _ _ _
    · split
      · rename_i e he
        refine NoUb.prop (x := _) ?_ he
        split
        · split
          · rename_i e he; exact (noUb_liftM_symCsub _ _ _ _).prop he
          · exact noUb_down _ _ _ _ _ _
        · exact noUb_up _ _ _ _ _ _
      · split
        · exact NoUb.err rfl
        · exact NoUb.ok _

/-- **no UB in `left_cumulative_and_probability`, whatever the distribution** -/
theorem noUb_enc (s : Int) : NoUb (m.enc gl gr s) := by
  unfold LQ.enc
  simp only
  split
  · exact NoUb.ok _
  · split
    · rename_i e he; exact (noUb_leftM (m := m) (gl := gl) _ _).prop he
    · split
      · rename_i e he
        refine NoUb.prop (x := _) ?_ he
        split
        · exact NoUb.ok _
        · split
          · rename_i e he; exact (noUb_leaky (m := m) _ _ _).prop he
          · exact noUb_liftM_cadd _ _ _ _
      · split
        · exact NoUb.err rfl
        · exact NoUb.ok _

/-- **no UB in the symbol-table iterator, whatever the distribution** (D25) -/
theorem noUb_table : ∀ (fuel : Nat) (s : Int) (left : Nat), NoUb (m.table gl fuel s left) := by
  intro fuel
  induction fuel with
  | zero => intro s left; unfold LQ.table; exact NoUb.err rfl
  | succ f ih =>
    intro s left
    unfold LQ.table
    simp only
    split
    · split
      · exact NoUb.err rfl
      · exact NoUb.ok _
    · split
      · rename_i e he; exact (noUb_liftM_symCadd _ _ _ _).prop he
      · split
        · rename_i e he; exact (noUb_leaky (m := m) _ _ _).prop he
        · split
          · exact NoUb.err rfl
          · split
            · rename_i e he; exact NoUb.prop (ih _ _) he
            · exact NoUb.ok _

end CV.Quant
