import CV.Proofs.BackendZipper
/-!
# Facts about the zipper spec (pure list reasoning)

LIFO, FIFO, fusedness and exactness of `remaining` / `space_left` on the spec machine `Z`.
`Proofs/Backend.lean` transfers them to `Cursor` and `Reverse<Cursor>` through `Cur.run_ofZ`.
-/
namespace CV.Backend
namespace Z

theorem run_append (wr : Bool) (a : List Op) : ∀ (z : Z) (b : List Op),
    run wr z (a ++ b) = ((run wr z a).1 ++ (run wr (run wr z a).2 b).1, (run wr (run wr z a).2 b).2) := by
  induction a with
  | nil => intro z b; simp [run]
  | cons op a ih => intro z b; simp [run, ih]

/-- `k ≤ |ahd|` writes all succeed and push the words onto the stack side -/
theorem run_writes (ws : List Nat) : ∀ z : Z, ws.length ≤ z.ahd.length →
    run true z (ws.map Op.write) =
      (List.replicate ws.length Out.ok, ⟨ws.reverse ++ z.stk, z.ahd.drop ws.length⟩) := by
  induction ws with
  | nil => intro z _; simp [run]
  | cons w ws ih =>
    intro z h
    cases z with
    | mk stk ahd =>
      cases ahd with
      | nil => simp at h
      | cons a ah =>
        have h' : ws.length ≤ ah.length := by simpa using h
        simp [run, step, ih ⟨w :: stk, ah⟩ h', List.replicate_succ]

/-- once the free space is used up, a write is refused and changes nothing -/
theorem step_write_full (z : Z) (w : Nat) (h : z.ahd = []) :
    step true z (.write w) = (.full, z) := by
  simp [step, h]

/-- stack reads return the stack side in order, moving the words to the queue side -/
theorem run_readS (wr : Bool) (xs : List Nat) : ∀ (st ah : List Nat),
    run wr ⟨xs ++ st, ah⟩ (List.replicate xs.length Op.readS) =
      (xs.map (fun w => Out.word (some w)), ⟨st, xs.reverse ++ ah⟩) := by
  induction xs with
  | nil => intro st ah; simp [run]
  | cons x xs ih =>
    intro st ah
    simp [run, step, List.replicate_succ, ih]

theorem run_readQ (wr : Bool) (xs : List Nat) : ∀ (st ah : List Nat),
    run wr ⟨st, xs ++ ah⟩ (List.replicate xs.length Op.readQ) =
      (xs.map (fun w => Out.word (some w)), ⟨xs.reverse ++ st, ah⟩) := by
  induction xs with
  | nil => intro st ah; simp [run]
  | cons x xs ih =>
    intro st ah
    simp [run, step, List.replicate_succ, ih]

/-- fused: an exhausted stack side stays exhausted -/
theorem run_readS_nil (wr : Bool) (m : Nat) (ah : List Nat) :
    run wr ⟨[], ah⟩ (List.replicate m Op.readS) = (List.replicate m (Out.word none), ⟨[], ah⟩) := by
  induction m with
  | zero => simp [run]
  | succ m ih => simp [run, step, List.replicate_succ, ih]

theorem run_readQ_nil (wr : Bool) (m : Nat) (st : List Nat) :
    run wr ⟨st, []⟩ (List.replicate m Op.readQ) = (List.replicate m (Out.word none), ⟨st, []⟩) := by
  induction m with
  | zero => simp [run]
  | succ m ih => simp [run, step, List.replicate_succ, ih]

end Z
end CV.Backend
