import CV.Proofs.RangeConcat
/-!
# Batch forms of the range coder (default trait methods of src/stream/mod.rs)

`Model/Range.lean` transcribes `encode_symbols` / `try_encode_symbols` / `encode_iid_symbols`
and the decoding iterators as the loops they are; here: they equal the caller's per-symbol loop,
and a batch that fails part-way leaves exactly the coder of the successful prefix.  That the
*real* batch methods equal these functions is what the `encs` / `decs` correspondence ops and the
twin-coder oracle check.
-/
namespace CV.Range

/-- the caller's loop: `encode_symbol` for each pair, stop at the first error -/
def perSymbolLoop {Sym : Type} (c : Cfg) : Encoder → List (Sym × Model Sym) →
    Encoder × Except EncErr Unit
  | e, [] => (e, .ok ())
  | e, (s, m) :: rest =>
    match encode c m s e with
    | .ok e' => perSymbolLoop c e' rest
    | .error err => (e, .error err)

theorem encodeSymbols_eq_perSymbolLoop {Sym : Type} (c : Cfg) (items : List (Sym × Model Sym))
    (e : Encoder) :
    encodeSymbols c e (items.map some) =
      ((perSymbolLoop c e items).1,
        match (perSymbolLoop c e items).2 with
        | .ok () => .ok ()
        | .error err => .error (.coding err)) := by
  induction items generalizing e with
  | nil => rfl
  | cons a rest ih =>
    obtain ⟨s, m⟩ := a
    simp only [List.map_cons, encodeSymbols, perSymbolLoop]
    cases h : encode c m s e with
    | ok e' => simp only; exact ih e'
    | error err => rfl

theorem encodeIidSymbols_eq_perSymbolLoop {Sym : Type} (c : Cfg) (m : Model Sym) (syms : List Sym)
    (e : Encoder) :
    encodeIidSymbols c e m syms =
      ((perSymbolLoop c e (syms.map (fun s => (s, m)))).1,
        match (perSymbolLoop c e (syms.map (fun s => (s, m)))).2 with
        | .ok () => .ok ()
        | .error err => .error (.coding err)) := by
  unfold encodeIidSymbols
  rw [← encodeSymbols_eq_perSymbolLoop, List.map_map]
  rfl

/-- a successful prefix followed by an `Err` item or an impossible symbol: the batch stops there,
    reports the error, and the encoder is the one the prefix left -/
theorem encodeSymbols_partway {Sym : Type} (c : Cfg) (pre : List (Sym × Model Sym))
    (e ePre : Encoder) (h : encodeSymbols c e (pre.map some) = (ePre, .ok ()))
    (rest : List (Option (Sym × Model Sym))) :
    encodeSymbols c e (pre.map some ++ none :: rest) = (ePre, .error .model) ∧
    ∀ s m, m.enc s = none →
      encodeSymbols c e (pre.map some ++ some (s, m) :: rest)
        = (ePre, .error (.coding .impossible)) := by
  induction pre generalizing e with
  | nil =>
    simp only [List.map_nil, encodeSymbols] at h
    cases h
    refine ⟨rfl, ?_⟩
    intro s m hs
    simp only [List.map_nil, List.nil_append, encodeSymbols, encode_impossible hs]
  | cons a pre ih =>
    obtain ⟨s0, m0⟩ := a
    simp only [List.map_cons, encodeSymbols] at h
    cases h0 : encode c m0 s0 e with
    | error err => rw [h0] at h; cases h
    | ok e1 =>
      rw [h0] at h
      simp only at h
      obtain ⟨h1, h2⟩ := ih e1 h
      refine ⟨?_, ?_⟩
      · simp only [List.map_cons, List.cons_append, encodeSymbols, h0]; exact h1
      · intro s m hs
        simp only [List.map_cons, List.cons_append, encodeSymbols, h0]; exact h2 s m hs

/-- the caller's decoding loop -/
def perSymbolDecLoop {Sym : Type} (c : Cfg) : Decoder → List (Model Sym) → List Sym →
    Decoder × List Sym × Except DecErr Unit
  | d, [], acc => (d, acc.reverse, .ok ())
  | d, m :: rest, acc =>
    match decode c m d with
    | .ok (s, d') => perSymbolDecLoop c d' rest (s :: acc)
    | .error err => (d, acc.reverse, .error err)

theorem decodeSymbols_eq_perSymbolLoop {Sym : Type} (c : Cfg) (models : List (Model Sym))
    (d : Decoder) (acc : List Sym) :
    decodeSymbols c d (models.map some) acc =
      ((perSymbolDecLoop c d models acc).1, (perSymbolDecLoop c d models acc).2.1,
        match (perSymbolDecLoop c d models acc).2.2 with
        | .ok () => .ok ()
        | .error err => .error (.coding err)) := by
  induction models generalizing d acc with
  | nil => rfl
  | cons m rest ih =>
    simp only [List.map_cons, decodeSymbols, perSymbolDecLoop]
    cases h : decode c m d with
    | ok r => obtain ⟨s, d'⟩ := r; simp only; exact ih d' (s :: acc)
    | error err => rfl

/-- an all-successful batch is the message-level encoder of the round-trip theorems (one
    configuration for the whole batch, as the const generic `PRECISION` of a call forces) -/
theorem encodeSymbols_eq_encodeMsg {Sym : Type} (c : Cfg) (items : List (Sym × Model Sym))
    (e : Encoder) :
    (perSymbolLoop c e items).2 = .ok () →
    encodeMsg (cfgAt c c.B c.P) e
        (items.map (fun x => { B := c.B, P := c.P, model := x.2, sym := x.1 }))
      = .ok (perSymbolLoop c e items).1 := by
  induction items generalizing e with
  | nil => intro _; rfl
  | cons a rest ih =>
    obtain ⟨s, m⟩ := a
    intro h
    have hc : cfgAt (cfgAt c c.B c.P) c.B c.P = c := rfl
    simp only [List.map_cons, encodeMsg, perSymbolLoop, hc] at h ⊢
    cases h0 : encode c m s e with
    | error err => rw [h0] at h; cases h
    | ok e1 =>
      rw [h0] at h
      simp only at h ⊢
      exact ih e1 h

end CV.Range
