import CV.Proofs.Backend
/-!
# C20 for `backends.rs`: which faults exist, when they occur, and what `buf_mut` breaks

After the D12 repair (`ca8abce`) the model of `Cursor` / `Reverse<Cursor>` has no `Fault.ub`
branch at all; the pre-repair methods are kept as `…Legacy` to state what was wrong.
-/
namespace CV.Backend

def Fault.isUb : Fault → Bool
  | .ub _ => true
  | _ => false

theorem csub_error {site : String} {a b : Nat} {f : Fault} (h : csub site a b = .error f) :
    f = .overflow site ∧ a < b := by
  unfold csub at h
  split at h
  · cases h
  · exact ⟨(Except.error.inj h).symm, by omega⟩

theorem Cursor.readStack_error {c : Cursor} {f : Fault} (h : c.readStack = .error f) :
    f = .panic "cursor.read_stack.index" ∧ c.buf.length < c.pos := by
  unfold Cursor.readStack at h
  split at h
  · cases h
  · rename_i hp
    cases hb : c.buf[c.pos - 1]? with
    | some w => simp [hb] at h
    | none =>
      simp [hb] at h
      have := List.getElem?_eq_none_iff.mp hb
      exact ⟨h.symm, by omega⟩

theorem Cursor.write_error {c : Cursor} {w : Nat} {e : WErr} (h : c.write w = .error e) :
    e = .outOfSpace := by
  unfold Cursor.write at h
  split at h
  · cases h
  · exact (Except.error.inj h).symm

theorem RevCursor.write_error {r : RevCursor} {w : Nat} {e : WErr} (h : r.write w = .error e) :
    e = .outOfSpace ∨ (e = .fault (.panic "rev_cursor.write.index") ∧ r.inner.buf.length < r.inner.pos) := by
  unfold RevCursor.write at h
  split at h
  · exact Or.inl (Except.error.inj h).symm
  · split at h
    · cases h
    · exact Or.inr ⟨(Except.error.inj h).symm, by omega⟩

theorem extendLoop_cursor_ok (ws : List Nat) : ∀ c : Cursor,
    ∃ o c', extendLoop Cursor.write c ws = .ok (o, c') := by
  induction ws with
  | nil => intro c; exact ⟨_, _, rfl⟩
  | cons w ws ih =>
    intro c
    cases hw : c.write w with
    | ok c' => simpa [extendLoop, hw] using ih c'
    | error e =>
      have := Cursor.write_error hw
      subst this
      exact ⟨.extFull ws.length, c, by simp [extendLoop, hw]⟩

theorem extendLoop_rev_error (ws : List Nat) : ∀ (r : RevCursor) (f : Fault),
    extendLoop RevCursor.write r ws = .error f → f = .panic "rev_cursor.write.index" := by
  induction ws with
  | nil => intro r f h; simp [extendLoop] at h
  | cons w ws ih =>
    intro r f h
    cases hw : r.write w with
    | ok r' => exact ih r' f (by simpa [extendLoop, hw] using h)
    | error e =>
      rcases RevCursor.write_error hw with rfl | ⟨rfl, _⟩
      · simp [extendLoop, hw] at h
      · simp [extendLoop, hw] at h; exact h.symm

/-- **No UB site is left**: whatever the state (invariant or not, e.g. after `buf_mut`
    misuse) and whatever the method, a fault of `Cursor` / `Reverse<Cursor>` is an index
    panic or an arithmetic-overflow panic, never an unsafe-precondition violation. -/
theorem Cur.step_fault_not_ub (wr : Bool) (s : Cur) (op : Op) (f : Fault)
    (h : Cur.step wr s op = .error f) : Fault.isUb f = false := by
  cases s with
  | fwd c =>
    cases op with
    | readS =>
      cases hr : c.readStack with
      | ok p => simp [Cur.step, hr] at h
      | error e =>
        simp [Cur.step, hr] at h; subst h
        rw [(Cursor.readStack_error hr).1]; rfl
    | readQ => simp [Cur.step] at h
    | write w =>
      cases wr
      · simp [Cur.step] at h
      · cases hw : c.write w with
        | ok c' => simp [Cur.step, hw] at h
        | error e => have := Cursor.write_error hw; subst this; simp [Cur.step, hw] at h
    | extend ws =>
      cases wr
      · simp [Cur.step] at h
      · obtain ⟨o, c', he⟩ := extendLoop_cursor_ok ws c
        simp [Cur.step, he] at h
    | remS => simp [Cur.step] at h
    | remQ =>
      cases hr : c.remainingQueue with
      | ok n => simp [Cur.step, hr] at h
      | error e =>
        simp [Cur.step, hr] at h; subst h
        rw [(csub_error hr).1]; rfl
    | exhS => simp [Cur.step] at h
    | exhQ =>
      cases hr : c.remainingQueue with
      | ok n => simp [Cur.step, Cursor.isExhaustedQueue, hr] at h
      | error e =>
        simp [Cur.step, Cursor.isExhaustedQueue, hr] at h; subst h
        rw [(csub_error hr).1]; rfl
    | spaceLeft =>
      cases wr
      · simp [Cur.step] at h
      · cases hr : c.spaceLeft with
        | ok n => simp [Cur.step, hr] at h
        | error e =>
          simp [Cur.step, hr] at h; subst h
          rw [(csub_error hr).1]; rfl
    | full =>
      cases wr
      · simp [Cur.step] at h
      · cases hr : c.spaceLeft with
        | ok n => simp [Cur.step, Cursor.isFull, hr] at h
        | error e =>
          simp [Cur.step, Cursor.isFull, hr] at h; subst h
          rw [(csub_error hr).1]; rfl
    | pos => simp [Cur.step] at h
    | seek p => cases hs : c.seek p <;> simp [Cur.step, hs] at h
    | intoReversed =>
      cases wr
      · simp [Cur.step] at h
      · cases hr : csub "cursor.into_reversed" c.buf.length c.pos with
        | ok n => simp [Cur.step, Cursor.intoReversed, hr] at h
        | error e =>
          simp [Cur.step, Cursor.intoReversed, hr] at h; subst h
          rw [(csub_error hr).1]; rfl
    | roundtrip => cases hs : Cursor.newAtPos c.buf c.pos <;> simp [Cur.step, hs] at h
    | raw => simp [Cur.step] at h
    | bmSet ws => simp [Cur.step] at h
  | rev r =>
    cases op with
    | readS => simp [Cur.step] at h
    | readQ =>
      cases hr : r.inner.readStack with
      | ok p => simp [Cur.step, RevCursor.readQueue, hr] at h
      | error e =>
        simp [Cur.step, RevCursor.readQueue, hr] at h; subst h
        rw [(Cursor.readStack_error hr).1]; rfl
    | write w =>
      cases wr
      · simp [Cur.step] at h
      · cases hw : r.write w with
        | ok c' => simp [Cur.step, hw] at h
        | error e =>
          rcases RevCursor.write_error hw with rfl | ⟨rfl, _⟩
          · simp [Cur.step, hw] at h
          · simp [Cur.step, hw] at h; subst h; rfl
    | extend ws =>
      cases wr
      · simp [Cur.step] at h
      · cases he : extendLoop RevCursor.write r ws with
        | ok p => simp [Cur.step, he] at h
        | error e =>
          simp [Cur.step, he] at h; subst h
          rw [extendLoop_rev_error ws r e he]; rfl
    | remS =>
      cases hr : r.inner.remainingQueue with
      | ok n => simp [Cur.step, RevCursor.remainingStack, hr] at h
      | error e =>
        simp [Cur.step, RevCursor.remainingStack, hr] at h; subst h
        rw [(csub_error hr).1]; rfl
    | remQ => simp [Cur.step] at h
    | exhS =>
      cases hr : r.inner.remainingQueue with
      | ok n => simp [Cur.step, RevCursor.isExhaustedStack, Cursor.isExhaustedQueue, hr] at h
      | error e =>
        simp [Cur.step, RevCursor.isExhaustedStack, Cursor.isExhaustedQueue, hr] at h; subst h
        rw [(csub_error hr).1]; rfl
    | exhQ => simp [Cur.step] at h
    | spaceLeft => cases wr <;> simp [Cur.step] at h
    | full => cases wr <;> simp [Cur.step] at h
    | pos => simp [Cur.step] at h
    | seek p => cases hs : r.seek p <;> simp [Cur.step, hs] at h
    | intoReversed =>
      cases wr
      · simp [Cur.step] at h
      · cases hr : csub "cursor.into_reversed" r.inner.buf.length r.inner.pos with
        | ok n => simp [Cur.step, RevCursor.intoReversed, Cursor.intoReversed, hr] at h
        | error e =>
          simp [Cur.step, RevCursor.intoReversed, Cursor.intoReversed, hr] at h; subst h
          rw [(csub_error hr).1]; rfl
    | roundtrip => cases hs : Cursor.newAtPos r.inner.buf r.inner.pos <;> simp [Cur.step, hs] at h
    | raw => simp [Cur.step] at h
    | bmSet ws => simp [Cur.step] at h

/-- a fault of any kind needs a broken invariant -/
theorem Cur.step_fault_needs_broken_inv (wr : Bool) (s : Cur) (op : Op) (f : Fault)
    (h : Cur.step wr s op = .error f) : ¬ s.Inv := by
  intro hI
  by_cases hop : ∃ ws, op = .bmSet ws
  · obtain ⟨ws, rfl⟩ := hop
    cases s <;> simp [Cur.step] at h
  · obtain ⟨o, s', h', _⟩ := Cur.step_inv wr s hI op (fun ws hw => hop ⟨ws, hw⟩)
    rw [h'] at h; cases h

/-! ## what `buf_mut` breaks -/

/-- `buf_mut` breaks the invariant exactly when the new buffer is shorter than `pos` -/
theorem Cursor.bufMutSet_inv_iff (c : Cursor) (ws : List Nat) :
    (c.bufMutSet ws).Inv ↔ c.pos ≤ ws.length := by
  simp [Cursor.bufMutSet, Cursor.Inv]

/-- behaviour of the repaired `Cursor` once `pos > len` (all of it checked against the real
    code by the correspondence, family `gen_buf_mut`) -/
theorem Cursor.broken_behaviour (c : Cursor) (h : c.buf.length < c.pos) :
    c.readStack = .error (.panic "cursor.read_stack.index") ∧
    c.readQueue = (none, c) ∧
    (∀ w, c.write w = .error .outOfSpace) ∧
    c.spaceLeft = .error (.overflow "cursor.space_left") ∧
    c.remainingQueue = .error (.overflow "cursor.remaining_queue") ∧
    c.intoReversed = .error (.overflow "cursor.into_reversed") ∧
    (∀ q, q ≤ c.buf.length → c.seek q = some { c with pos := q }) := by
  have hp : c.pos ≠ 0 := by omega
  have hb : c.buf[c.pos - 1]? = none := List.getElem?_eq_none_iff.mpr (by omega)
  have hq : c.buf[c.pos]? = none := List.getElem?_eq_none_iff.mpr (by omega)
  have hlt : ¬ (c.pos < c.buf.length) := by omega
  have hle : ¬ (c.pos ≤ c.buf.length) := by omega
  refine ⟨by simp [Cursor.readStack, hp, hb], by simp [Cursor.readQueue, hq],
    fun w => by simp [Cursor.write, hlt], by simp [Cursor.spaceLeft, csub, hle],
    by simp [Cursor.remainingQueue, csub, hle], by simp [Cursor.intoReversed, csub, hle],
    fun q hq => Cursor.seek_le c q hq⟩

theorem RevCursor.broken_write (r : RevCursor) (h : r.inner.buf.length < r.inner.pos) (w : Nat) :
    r.write w = .error (.fault (.panic "rev_cursor.write.index")) := by
  have hp : r.inner.pos ≠ 0 := by omega
  have hlt : ¬ (r.inner.pos - 1 < r.inner.buf.length) := by omega
  simp [RevCursor.write, hp, hlt]

/-! ## the code before the D12 repair -/

/-- under the invariant the old and the new stack read agree … -/
theorem Cursor.readStackLegacy_eq (c : Cursor) (hI : c.Inv) : c.readStackLegacy = c.readStack := by
  unfold Cursor.readStackLegacy Cursor.readStack
  by_cases hp : c.pos = 0
  · simp [hp]
  · have : c.pos - 1 < c.buf.length := by unfold Cursor.Inv at hI; omega
    simp [hp, List.getElem?_eq_getElem this]

/-- … but once `buf_mut` has made the buffer shorter than `pos`, the old code reached the
    unchecked index: this is D12 -/
theorem Cursor.readStackLegacy_ub (c : Cursor) (h : c.buf.length < c.pos) :
    c.readStackLegacy = .error (.ub "cursor.read_stack.get_unchecked") := by
  have hp : c.pos ≠ 0 := by omega
  have hb : c.buf[c.pos - 1]? = none := List.getElem?_eq_none_iff.mpr (by omega)
  simp [Cursor.readStackLegacy, hp, hb]

theorem RevCursor.writeLegacy_eq (r : RevCursor) (hI : r.inner.Inv) (w : Nat) :
    r.writeLegacy w = r.write w := by
  unfold RevCursor.writeLegacy RevCursor.write
  by_cases hp : r.inner.pos = 0
  · simp [hp]
  · have : r.inner.pos - 1 < r.inner.buf.length := by unfold Cursor.Inv at hI; omega
    simp [hp, this]

theorem RevCursor.writeLegacy_ub (r : RevCursor) (h : r.inner.buf.length < r.inner.pos) (w : Nat) :
    r.writeLegacy w = .error (.fault (.ub "rev_cursor.write.get_unchecked_mut")) := by
  have hp : r.inner.pos ≠ 0 := by omega
  have hlt : ¬ (r.inner.pos - 1 < r.inner.buf.length) := by omega
  simp [RevCursor.writeLegacy, hp, hlt]

end CV.Backend
