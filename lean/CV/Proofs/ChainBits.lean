import CV.Proofs.ChainLocal
import CV.Proofs.ChainPrecision
import CV.Proofs.ChainHist
/-!
# Chain coder: which bits of the data make up which chunk (C14, literal form)

`Pos` names a single bit of the data a coder is looking at: bit `b` of the leftover bits in the
compressed head (`head b`, below the marker bit) or bit `b` of the `i`-th word of the
compressed stack counted from the top (`word i b`).

`chunkPosV W Ps L idx m` lists, for a sequence of precisions `Ps` (one per symbol – constant
in `decode_symbols`, varying when `change_precision` is called in between), the bit positions
that make up the successive chunks, most significant bit first.  It is a definition on *lists
of positions only* – "take the last `P` positions of the buffer", "append the upper `W - P` bit
positions of the next word" –: no arithmetic on the data, no entropy model, no remainders
side; it depends on the data only through the number `m` of words and the number of leftover
bits.

* `quantilesV_eq_chunks` – the chunks handed out by the coder's bit buffer (`takeChunk`) are
  exactly the numbers spelled by the data bits at these positions.
* `chunkPosV_pairwise`, `chunkPosV_valid`, `chunkPosV_length` – every data bit belongs to at
  most one chunk, every position is a real bit of the data, chunk `i` has exactly `Ps[i]` bits.
-/
namespace CV.Chain

inductive Pos where
  /-- bit `b` of the leftover bits in `heads.compressed` (the marker is not a data bit) -/
  | head (b : Nat)
  /-- bit `b` of the `i`-th word of the compressed stack, `i = 0` being the top -/
  | word (i b : Nat)
  deriving DecidableEq, Repr

/-- the value (0 or 1) of the data bit at a position -/
def bitOf (hc : Nat) (comp : List Nat) : Pos → Nat
  | .head b => hc / 2^b % 2
  | .word i b => comp.getD i 0 / 2^b % 2

theorem bitOf_lt (hc : Nat) (comp : List Nat) (p : Pos) : bitOf hc comp p < 2 := by
  cases p <;> exact Nat.mod_lt _ (by decide)

/-- the number spelled by the bits at the positions `l` (most significant first) -/
def valOf (f : Pos → Nat) : List Pos → Nat
  | [] => 0
  | p :: l => f p * 2^l.length + valOf f l

/-- positions `lo + n - 1, …, lo + 1, lo` of one source, most significant first -/
def seg (mk : Nat → Pos) (lo : Nat) : Nat → List Pos
  | 0 => []
  | n + 1 => mk (lo + n) :: seg mk lo n

@[simp] theorem seg_length (mk : Nat → Pos) (lo n : Nat) : (seg mk lo n).length = n := by
  induction n with
  | zero => rfl
  | succ n ih => simp [seg, ih]

theorem mem_seg {mk : Nat → Pos} {lo n : Nat} {q : Pos} :
    q ∈ seg mk lo n ↔ ∃ t, t < n ∧ q = mk (lo + t) := by
  induction n with
  | zero => simp [seg]
  | succ n ih =>
    simp only [seg, List.mem_cons, ih]
    constructor
    · rintro (h | ⟨t, ht, h⟩)
      · exact ⟨n, by omega, h⟩
      · exact ⟨t, by omega, h⟩
    · rintro ⟨t, ht, h⟩
      by_cases htn : t = n
      · left; rw [h, htn]
      · right; exact ⟨t, by omega, h⟩

theorem seg_nodup {mk : Nat → Pos} (hinj : ∀ a b, mk a = mk b → a = b) (lo n : Nat) :
    (seg mk lo n).Nodup := by
  induction n with
  | zero => simp [seg]
  | succ n ih =>
    simp only [seg, List.nodup_cons]
    refine ⟨?_, ih⟩
    intro hmem
    obtain ⟨t, ht, h⟩ := mem_seg.mp hmem
    have := hinj _ _ h
    omega

theorem valOf_append (f : Pos → Nat) (a b : List Pos) :
    valOf f (a ++ b) = valOf f a * 2^b.length + valOf f b := by
  induction a with
  | nil => simp [valOf]
  | cons p a ih =>
    simp only [List.cons_append, valOf, ih, List.length_append, Nat.pow_add, Nat.add_mul,
      Nat.mul_assoc, Nat.add_assoc]

theorem valOf_lt {f : Pos → Nat} (hf : ∀ p, f p < 2) (l : List Pos) : valOf f l < 2^l.length := by
  induction l with
  | nil => simp [valOf]
  | cons p l ih =>
    simp only [valOf, List.length_cons, Nat.pow_succ]
    have h1 : f p ≤ 1 := by have := hf p; omega
    have h2 : f p * 2^l.length ≤ 1 * 2^l.length := Nat.mul_le_mul_right _ h1
    omega

theorem valOf_congr {f g : Pos → Nat} {l : List Pos} (h : ∀ p ∈ l, f p = g p) :
    valOf f l = valOf g l := by
  induction l with
  | nil => rfl
  | cons p l ih =>
    simp only [valOf]
    rw [h p (List.mem_cons_self), ih (fun q hq => h q (List.mem_cons_of_mem _ hq))]

/-- the bits `lo … lo+n-1` of `x` spell `x / 2^lo % 2^n` -/
theorem valOf_seg {f : Pos → Nat} {mk : Nat → Pos} {x : Nat} (hf : ∀ b, f (mk b) = x / 2^b % 2)
    (lo n : Nat) : valOf f (seg mk lo n) = x / 2^lo % 2^n := by
  induction n with
  | zero => simp [seg, valOf, Nat.mod_one]
  | succ n ih =>
    simp only [seg, valOf, seg_length, ih, hf]
    rw [Nat.mod_pow_succ (x := x / 2^lo), Nat.pow_add, ← Nat.div_div_eq_div_mul]
    rw [Nat.mul_comm, Nat.add_comm]

/-! ## the bit-position machine -/

/-- positions of the successive chunks for the precisions `Ps`; `L` = positions of the leftover
    bits (most significant first), `idx` = index of the next word, `m` = words left -/
def chunkPosV (W : Nat) : List Nat → List Pos → Nat → Nat → List (List Pos)
  | [], _, _, _ => []
  | P :: Ps, L, idx, m =>
    if P = W ∨ L.length < P then
      match m with
      | 0 => []
      | m' + 1 =>
        if P = W then seg (.word idx) 0 W :: chunkPosV W Ps L (idx + 1) m'
        else seg (.word idx) 0 P :: chunkPosV W Ps (L ++ seg (.word idx) P (W - P)) (idx + 1) m'
    else L.drop (L.length - P) :: chunkPosV W Ps (L.take (L.length - P)) idx m

/-- `word % (1 << P)` resp. `word` – the chunk before `.as_()` -/
def rawQ (W P word : Nat) : Nat := if P = W then word else word % 2^P

/-- the chunks the bit buffer hands out for a sequence of precisions (one per symbol) -/
def quantilesV (c : Cfg) : List Nat → Nat → List Nat → List Nat
  | [], _, _ => []
  | P :: Ps, hc, comp =>
    match takeChunk (withP c P) hc comp with
    | .ok (word, hc', comp') => rawQ c.W P word :: quantilesV c Ps hc' comp'
    | .error _ => []

/-- explicit results of `takeChunk` (only `1 ≤ P ≤ W` is needed) -/
theorem takeChunk_eval {c : Cfg} (_hP1 : 1 ≤ c.P) (hPW : c.P ≤ c.W) {hc : Nat} (h1 : 1 ≤ hc) :
    (c.P = c.W ∨ hc < 2^c.P → takeChunk c hc [] = .error .outOfData) ∧
    (c.P = c.W → ∀ w r, takeChunk c hc (w :: r) = .ok (w, hc, r)) ∧
    (c.P ≠ c.W → hc < 2^c.P → ∀ w r, w < 2^c.W →
        takeChunk c hc (w :: r) = .ok (w, hc * 2^(c.W - c.P) + w / 2^c.P, r)) ∧
    (c.P ≠ c.W → 2^c.P ≤ hc → ∀ comp, takeChunk c hc comp = .ok (hc, hc / 2^c.P, comp)) := by
  refine ⟨?_, ?_, ?_, ?_⟩
  · intro h
    by_cases hEq : c.P = c.W
    · simp [takeChunk, hEq]
    · have hlt : c.P < c.W := by omega
      have hlow : hc < 2^c.P := by rcases h with h | h; exact absurd h hEq; exact h
      simp [takeChunk, hEq, shlT_one hlt, hlow]
  · intro hEq w r; simp [takeChunk, hEq]
  · intro hEq hlow w r hw
    have hlt : c.P < c.W := by omega
    have e1 : shlT c.W 1 c.P = 2^c.P := shlT_one hlt
    have hB : 0 < 2^(c.W - c.P) := pow_pos2 _
    have hdiv : w / 2^c.P < 2^(c.W - c.P) := by
      apply Nat.div_lt_of_lt_mul; rw [Nat.mul_comm, ← pow_split hPW]; exact hw
    have hnt : hc * 2^(c.W - c.P) < 2^c.W := by
      rw [pow_split' hPW]; exact Nat.mul_lt_mul_of_pos_right hlow hB
    have ev : shlT c.W hc (c.W - c.P) ||| (w >>> c.P) = hc * 2^(c.W - c.P) + w / 2^c.P := by
      rw [shlT_of_lt hnt, shr_eq, or_eq_add hdiv]
    have hne : hc * 2^(c.W - c.P) + w / 2^c.P ≠ 0 := by
      intro h0
      have h3 : 1 * 2^(c.W - c.P) ≤ hc * 2^(c.W - c.P) := Nat.mul_le_mul_right _ h1
      rw [Nat.one_mul, (Nat.add_eq_zero_iff.mp h0).1] at h3
      omega
    unfold takeChunk
    rw [if_pos (Or.inr (e1 ▸ hlow))]
    simp only [ne_eq, hEq, not_false_eq_true, if_true, ev]
    rw [if_neg hne]
  · intro hEq hge comp
    have hlt : c.P < c.W := by omega
    have e1 : shlT c.W 1 c.P = 2^c.P := shlT_one hlt
    have hlow : ¬ hc < 2^c.P := by omega
    have hne : hc / 2^c.P ≠ 0 := by
      have := (Nat.one_le_div_iff (pow_pos2 c.P)).mpr hge; omega
    simp [takeChunk, hEq, e1, hlow, shr_eq, hne]

theorem drop_cons_facts {l : List Nat} {idx w : Nat} {rest : List Nat}
    (h : l.drop idx = w :: rest) :
    l.getD idx 0 = w ∧ l.drop (idx + 1) = rest ∧ l.length - idx = (l.length - (idx + 1)) + 1 ∧
    w ∈ l := by
  have hlt : idx < l.length := by
    rcases Nat.lt_or_ge idx l.length with h' | h'
    · exact h'
    · rw [List.drop_eq_nil_of_le h'] at h; cases h
  rw [List.drop_eq_getElem_cons hlt] at h
  injection h with h1 h2
  refine ⟨?_, h2, by omega, ?_⟩
  · rw [List.getD_eq_getElem?_getD, List.getElem?_eq_getElem hlt]; exact h1
  · rw [← h1]; exact List.getElem_mem hlt

/-- **The chunks are the data bits at the listed positions.**  `hc0`, `comp0` are the head and
    stack the positions refer to; `(hc, comp0.drop idx)` is the current state of the bit
    buffer, whose leftover bits sit at the positions `L`. -/
theorem quantilesV_eq_chunks {c : Cfg} (hc0 : Nat) (comp0 : List Nat) (hw0 : Words c.W comp0) :
    ∀ (Ps : List Nat) (L : List Pos) (idx hc : Nat),
      (∀ P ∈ Ps, 1 ≤ P ∧ P ≤ c.W) →
      hc = 2^L.length + valOf (bitOf hc0 comp0) L → hc < 2^c.W →
      quantilesV c Ps hc (comp0.drop idx) =
        (chunkPosV c.W Ps L idx (comp0.length - idx)).map (valOf (bitOf hc0 comp0)) := by
  intro Ps
  induction Ps with
  | nil => intros; simp [quantilesV, chunkPosV]
  | cons P Ps ih =>
    intro L idx hc hPs hhc hlt
    obtain ⟨hP1, hPW⟩ := hPs P (List.mem_cons_self)
    have hPs' : ∀ P' ∈ Ps, 1 ≤ P' ∧ P' ≤ c.W := fun P' h => hPs P' (List.mem_cons_of_mem _ h)
    have hf := bitOf_lt hc0 comp0
    have hv := valOf_lt hf L
    have h1 : 1 ≤ hc := by have := pow_pos2 L.length; omega
    obtain ⟨ev0, ev1, ev2, ev3⟩ :=
      takeChunk_eval (c := withP c P) (by simpa using hP1) (by simpa using hPW) h1
    simp only [withP_P, withP_W] at ev0 ev1 ev2 ev3
    -- the buffer has fewer than P bits  ↔  hc < 2^P
    have hcond : hc < 2^P ↔ L.length < P := by
      constructor
      · intro h
        rcases Nat.lt_or_ge L.length P with h' | h'
        · exact h'
        · have := pow_mono2 h'; omega
      · intro h
        have : 2^(L.length + 1) ≤ 2^P := pow_mono2 h
        rw [Nat.pow_succ] at this; omega
    simp only [quantilesV, chunkPosV]
    by_cases hread : P = c.W ∨ L.length < P
    · rw [if_pos hread]
      have hread' : P = c.W ∨ hc < 2^P := by
        rcases hread with h | h
        · exact Or.inl h
        · exact Or.inr (hcond.mpr h)
      cases hdrop : comp0.drop idx with
      | nil =>
        have hm : comp0.length - idx = 0 := by
          have := congrArg List.length hdrop; simpa using this
        rw [hm, ev0 hread']; rfl
      | cons w rest =>
        obtain ⟨hget, hrest, hm, hmem⟩ := drop_cons_facts hdrop
        have hw : w < 2^c.W := hw0 w hmem
        have hwf : ∀ b, bitOf hc0 comp0 (.word idx b) = w / 2^b % 2 := by
          intro b; simp only [bitOf]; rw [hget]
        rw [hm]
        by_cases hEq : P = c.W
        · rw [ev1 hEq]
          dsimp only
          rw [if_pos hEq]
          simp only [List.map_cons]
          rw [← hrest, ih L (idx + 1) hc hPs' hhc hlt]
          congr 1
          rw [valOf_seg hwf 0 c.W, rawQ, if_pos hEq]
          simp [Nat.mod_eq_of_lt hw]
        · have hlow : L.length < P := by rcases hread with h | h; exact absurd h hEq; exact h
          rw [ev2 hEq (hcond.mpr hlow) w rest hw]
          dsimp only
          rw [if_neg hEq]
          simp only [List.map_cons]
          have hdiv : w / 2^P < 2^(c.W - P) := by
            apply Nat.div_lt_of_lt_mul; rw [Nat.mul_comm, ← pow_split hPW]; exact hw
          have hL' : hc * 2^(c.W - P) + w / 2^P =
              2^(L ++ seg (.word idx) P (c.W - P)).length +
                valOf (bitOf hc0 comp0) (L ++ seg (.word idx) P (c.W - P)) := by
            rw [valOf_append, seg_length, valOf_seg hwf P (c.W - P), Nat.mod_eq_of_lt hdiv,
              List.length_append, seg_length, Nat.pow_add, hhc, Nat.add_mul]
            omega
          have hlt' : hc * 2^(c.W - P) + w / 2^P < 2^c.W := by
            rw [hL']
            have hv' := valOf_lt hf (L ++ seg (.word idx) P (c.W - P))
            have hlen : (L ++ seg (Pos.word idx) P (c.W - P)).length + 1 ≤ c.W := by
              simp only [List.length_append, seg_length]; omega
            have := pow_mono2 hlen
            rw [Nat.pow_succ] at this
            omega
          rw [← hrest, ih _ (idx + 1) _ hPs' hL' hlt']
          congr 1
          rw [valOf_seg hwf 0 P, rawQ, if_neg hEq]
          simp
    · rw [if_neg hread]
      have hEq : P ≠ c.W := fun h => hread (Or.inl h)
      have hge : P ≤ L.length := by
        rcases Nat.lt_or_ge L.length P with h | h
        · exact absurd (Or.inr h) hread
        · exact h
      have hge' : 2^P ≤ hc := by have := pow_mono2 hge; omega
      rw [ev3 hEq hge']
      simp only [List.map_cons]
      -- split the buffer: L = take ++ drop
      have hsplit := List.take_append_drop (L.length - P) L
      have hdl : (L.drop (L.length - P)).length = P := by simp; omega
      have htl : (L.take (L.length - P)).length = L.length - P := by simp
      have hval : valOf (bitOf hc0 comp0) L =
          valOf (bitOf hc0 comp0) (L.take (L.length - P)) * 2^P +
            valOf (bitOf hc0 comp0) (L.drop (L.length - P)) := by
        conv => lhs; rw [← hsplit]
        rw [valOf_append, hdl]
      have hchunk := valOf_lt hf (L.drop (L.length - P))
      rw [hdl] at hchunk
      have hcform : hc = (2^(L.length - P) + valOf (bitOf hc0 comp0) (L.take (L.length - P))) * 2^P +
          valOf (bitOf hc0 comp0) (L.drop (L.length - P)) := by
        rw [hhc, hval, Nat.add_mul, ← Nat.pow_add]
        have : L.length - P + P = L.length := by omega
        rw [this]; omega
      have hdiv : hc / 2^P = 2^(L.take (L.length - P)).length +
          valOf (bitOf hc0 comp0) (L.take (L.length - P)) := by
        rw [htl]; conv => lhs; rw [hcform]
        exact mul_add_div_of_lt hchunk
      have hmod : hc % 2^P = valOf (bitOf hc0 comp0) (L.drop (L.length - P)) := by
        conv => lhs; rw [hcform]
        exact mul_add_mod_of_lt hchunk
      have hlt' : hc / 2^P < 2^c.W := Nat.lt_of_le_of_lt (Nat.div_le_self _ _) hlt
      rw [ih _ idx _ hPs' hdiv hlt']
      congr 1
      rw [rawQ, if_neg hEq, hmod]

/-! ## structure of the position lists -/

/-- a position that does not belong to the words `idx, idx+1, …` still on the stack -/
def Pos.Old (idx : Nat) : Pos → Prop
  | .head _ => True
  | .word i _ => i < idx

theorem Pos.Old.mono {idx idx' : Nat} {q : Pos} (h : Pos.Old idx q) (hle : idx ≤ idx') :
    Pos.Old idx' q := by
  cases q with
  | head b => trivial
  | word i b => simp only [Pos.Old] at h ⊢; omega

/-- chunk `i` has exactly `Ps[i]` bits -/
theorem chunkPosV_length (W : Nat) :
    ∀ (Ps : List Nat) (L : List Pos) (idx m : Nat), (∀ P ∈ Ps, P ≤ W) →
      ∀ (i : Nat) (ch : List Pos), (chunkPosV W Ps L idx m)[i]? = some ch → Ps[i]? = some ch.length := by
  intro Ps
  induction Ps with
  | nil => intro L idx m _ i ch h; simp [chunkPosV] at h
  | cons P Ps ih =>
    intro L idx m hPs i ch h
    have hPW := hPs P (List.mem_cons_self)
    have hPs' : ∀ P' ∈ Ps, P' ≤ W := fun P' h => hPs P' (List.mem_cons_of_mem _ h)
    simp only [chunkPosV] at h
    by_cases hread : P = W ∨ L.length < P
    · rw [if_pos hread] at h
      cases m with
      | zero => simp at h
      | succ m' =>
        dsimp only at h
        by_cases hEq : P = W
        · rw [if_pos hEq] at h
          cases i with
          | zero => simp at h; subst h; simp [hEq]
          | succ i => simp only [List.getElem?_cons_succ] at h ⊢; exact ih _ _ _ hPs' i ch h
        · rw [if_neg hEq] at h
          cases i with
          | zero => simp at h; subst h; simp
          | succ i => simp only [List.getElem?_cons_succ] at h ⊢; exact ih _ _ _ hPs' i ch h
    · rw [if_neg hread] at h
      have hge : P ≤ L.length := by
        rcases Nat.lt_or_ge L.length P with h' | h'
        · exact absurd (Or.inr h') hread
        · exact h'
      cases i with
      | zero => simp at h; subst h; simp; omega
      | succ i => simp only [List.getElem?_cons_succ] at h ⊢; exact ih _ _ _ hPs' i ch h

/-- every position of every chunk is a leftover bit of the head or a real bit (`t < W`) of one
    of the `m` words still on the stack -/
theorem chunkPosV_valid (W : Nat) :
    ∀ (Ps : List Nat) (L : List Pos) (idx m : Nat), (∀ P ∈ Ps, P ≤ W) →
      ∀ ch ∈ chunkPosV W Ps L idx m, ∀ q ∈ ch,
        q ∈ L ∨ ∃ i t, q = .word i t ∧ idx ≤ i ∧ i < idx + m ∧ t < W := by
  intro Ps
  induction Ps with
  | nil => intro L idx m _ ch h; simp [chunkPosV] at h
  | cons P Ps ih =>
    intro L idx m hPs ch hch q hq
    have hPW := hPs P (List.mem_cons_self)
    have hPs' : ∀ P' ∈ Ps, P' ≤ W := fun P' h => hPs P' (List.mem_cons_of_mem _ h)
    simp only [chunkPosV] at hch
    by_cases hread : P = W ∨ L.length < P
    · rw [if_pos hread] at hch
      cases m with
      | zero => simp at hch
      | succ m' =>
        dsimp only at hch
        by_cases hEq : P = W
        · rw [if_pos hEq] at hch
          rcases List.mem_cons.mp hch with rfl | hch
          · obtain ⟨t, ht, rfl⟩ := mem_seg.mp hq
            exact Or.inr ⟨idx, 0 + t, rfl, Nat.le_refl _, by omega, by omega⟩
          · rcases ih _ _ _ hPs' ch hch q hq with h | ⟨i, t, rfl, h1, h2, h3⟩
            · exact Or.inl h
            · exact Or.inr ⟨i, t, rfl, by omega, by omega, h3⟩
        · rw [if_neg hEq] at hch
          rcases List.mem_cons.mp hch with rfl | hch
          · obtain ⟨t, ht, rfl⟩ := mem_seg.mp hq
            exact Or.inr ⟨idx, 0 + t, rfl, Nat.le_refl _, by omega, by omega⟩
          · rcases ih _ _ _ hPs' ch hch q hq with h | ⟨i, t, rfl, h1, h2, h3⟩
            · rcases List.mem_append.mp h with h | h
              · exact Or.inl h
              · obtain ⟨t, ht, rfl⟩ := mem_seg.mp h
                exact Or.inr ⟨idx, P + t, rfl, Nat.le_refl _, by omega, by omega⟩
            · exact Or.inr ⟨i, t, rfl, by omega, by omega, h3⟩
    · rw [if_neg hread] at hch
      rcases List.mem_cons.mp hch with rfl | hch
      · exact Or.inl (List.mem_of_mem_drop hq)
      · rcases ih _ _ _ hPs' ch hch q hq with h | h
        · exact Or.inl (List.mem_of_mem_take h)
        · exact Or.inr h

/-- **No data bit belongs to two chunks** (and none occurs twice in one chunk). -/
theorem chunkPosV_pairwise (W : Nat) :
    ∀ (Ps : List Nat) (L : List Pos) (idx m : Nat), (∀ P ∈ Ps, P ≤ W) →
      L.Nodup → (∀ q ∈ L, Pos.Old idx q) →
      (chunkPosV W Ps L idx m).Pairwise (fun a b => ∀ q ∈ a, q ∉ b) ∧
      ∀ ch ∈ chunkPosV W Ps L idx m, ch.Nodup := by
  have winj : ∀ idx a b, Pos.word idx a = Pos.word idx b → a = b := by
    intro idx a b h; injection h
  intro Ps
  induction Ps with
  | nil => intro L idx m _ _ _; simp [chunkPosV]
  | cons P Ps ih =>
    intro L idx m hPs hnd hold
    have hPW := hPs P (List.mem_cons_self)
    have hPs' : ∀ P' ∈ Ps, P' ≤ W := fun P' h => hPs P' (List.mem_cons_of_mem _ h)
    -- a bit of word `idx` is neither in `L` nor in a later word
    have hnew : ∀ t, Pos.word idx t ∉ L := by
      intro t hmem
      have := hold _ hmem
      simp [Pos.Old] at this
    simp only [chunkPosV]
    by_cases hread : P = W ∨ L.length < P
    · rw [if_pos hread]
      cases m with
      | zero => simp
      | succ m' =>
        dsimp only
        by_cases hEq : P = W
        · rw [if_pos hEq]
          obtain ⟨ih1, ih2⟩ := ih L (idx + 1) m' hPs' hnd (fun q hq => (hold q hq).mono (by omega))
          refine ⟨List.pairwise_cons.mpr ⟨?_, ih1⟩, ?_⟩
          · intro b hb q hq hqb
            obtain ⟨t, _, rfl⟩ := mem_seg.mp hq
            rcases chunkPosV_valid W Ps L (idx + 1) m' hPs' b hb _ hqb with h | ⟨i, t', h, h1, _⟩
            · exact hnew _ h
            · injection h with h; omega
          · intro ch hch
            rcases List.mem_cons.mp hch with rfl | hch
            · exact seg_nodup (winj idx) _ _
            · exact ih2 ch hch
        · rw [if_neg hEq]
          have hnd' : (L ++ seg (Pos.word idx) P (W - P)).Nodup := by
            rw [List.nodup_append]
            refine ⟨hnd, seg_nodup (winj idx) _ _, ?_⟩
            intro a ha b hb hab
            obtain ⟨t, _, rfl⟩ := mem_seg.mp hb
            exact hnew _ (hab ▸ ha)
          have hold' : ∀ q ∈ L ++ seg (Pos.word idx) P (W - P), Pos.Old (idx + 1) q := by
            intro q hq
            rcases List.mem_append.mp hq with h | h
            · exact (hold q h).mono (by omega)
            · obtain ⟨t, _, rfl⟩ := mem_seg.mp h; simp [Pos.Old]
          obtain ⟨ih1, ih2⟩ := ih _ (idx + 1) m' hPs' hnd' hold'
          refine ⟨List.pairwise_cons.mpr ⟨?_, ih1⟩, ?_⟩
          · intro b hb q hq hqb
            obtain ⟨t, ht, rfl⟩ := mem_seg.mp hq
            rcases chunkPosV_valid W Ps _ (idx + 1) m' hPs' b hb _ hqb with h | ⟨i, t', h, h1, _⟩
            · rcases List.mem_append.mp h with h | h
              · exact hnew _ h
              · obtain ⟨t', _, h⟩ := mem_seg.mp h
                injection h with _ h; omega
            · injection h with h; omega
          · intro ch hch
            rcases List.mem_cons.mp hch with rfl | hch
            · exact seg_nodup (winj idx) _ _
            · exact ih2 ch hch
    · rw [if_neg hread]
      have hsplit := List.take_append_drop (L.length - P) L
      have hnd2 : (L.take (L.length - P) ++ L.drop (L.length - P)).Nodup := by rw [hsplit]; exact hnd
      obtain ⟨hndt, hndd, hdisj⟩ := List.nodup_append.mp hnd2
      obtain ⟨ih1, ih2⟩ := ih (L.take (L.length - P)) idx m hPs' hndt
        (fun q hq => hold q (List.mem_of_mem_take hq))
      refine ⟨List.pairwise_cons.mpr ⟨?_, ih1⟩, ?_⟩
      · intro b hb q hq hqb
        rcases chunkPosV_valid W Ps _ idx m hPs' b hb _ hqb with h | ⟨i, t', rfl, h1, _⟩
        · exact hdisj _ h _ hq rfl
        · have := hold _ (List.mem_of_mem_drop hq)
          simp [Pos.Old] at this; omega
      · intro ch hch
        rcases List.mem_cons.mp hch with rfl | hch
        · exact hndd
        · exact ih2 ch hch

/-! ## constant precision: `quantiles` -/

theorem quantiles_eq_quantilesV {c : Cfg} (hv : CValid c) :
    ∀ (n hc : Nat) (comp : List Nat), 1 ≤ hc → hc < 2^c.W → Words c.W comp →
      quantiles c n hc comp = quantilesV c (List.replicate n c.P) hc comp := by
  intro n
  induction n with
  | zero => intros; simp [quantiles, quantilesV]
  | succ n ih =>
    intro hc comp h1 h2 hw
    simp only [quantiles, List.replicate_succ, quantilesV, withP_self]
    rcases takeChunk_ok hv h1 h2 hw with ⟨herr, _⟩ | ⟨word, hc', comp', htk, h1', h2', hword, hw', _⟩
    · simp [herr]
    · simp only [htk]
      rw [ih hc' comp' h1' h2' hw', (quantileOf_lt hv hword).2]
      rfl

/-- the positions of the leftover bits of a head with `k` bits below the marker -/
def headPos (k : Nat) : List Pos := seg .head 0 k

/-- **C14, literal form (constant precision).**  The `i`-th chunk of a coder whose compressed
    head holds `k` leftover bits (`2^k ≤ hc < 2^(k+1)`) is the number spelled by the data bits at
    the positions `chunkPosV W (replicate n P) (headPos k) 0 |comp|`[i]. -/
theorem quantiles_eq_chunks {c : Cfg} (hv : CValid c) {hc k : Nat} {comp : List Nat}
    (hlo : 2^k ≤ hc) (hhi : hc < 2^(k + 1)) (hW : hc < 2^c.W) (hw : Words c.W comp) (n : Nat) :
    quantiles c n hc comp =
      (chunkPosV c.W (List.replicate n c.P) (headPos k) 0 comp.length).map
        (valOf (bitOf hc comp)) := by
  have h1 : 1 ≤ hc := Nat.le_trans (pow_pos2 k) hlo
  rw [quantiles_eq_quantilesV hv n hc comp h1 hW hw]
  have hPs : ∀ P ∈ List.replicate n c.P, 1 ≤ P ∧ P ≤ c.W := by
    intro P hP
    obtain ⟨_, rfl⟩ := List.mem_replicate.mp hP
    obtain ⟨a, b, d, _⟩ := hv
    exact ⟨a, by omega⟩
  have hval : hc = 2^(headPos k).length + valOf (bitOf hc comp) (headPos k) := by
    have hf : ∀ b, bitOf hc comp (.head b) = hc / 2^b % 2 := fun b => rfl
    rw [headPos, seg_length, valOf_seg hf 0 k]
    simp only [Nat.pow_zero, Nat.div_one]
    rw [Nat.pow_succ] at hhi
    have := Nat.div_add_mod hc (2^k)
    have hd : hc / 2^k = 1 := by
      apply Nat.div_eq_of_lt_le
      · rw [Nat.one_mul]; exact hlo
      · omega
    rw [hd] at this
    omega
  have := quantilesV_eq_chunks hc comp hw (List.replicate n c.P) (headPos k) 0 hc hPs hval hW
  simpa using this

/-! ## index form of disjointness, flipping bits -/

theorem headPos_ok (k idx : Nat) : (headPos k).Nodup ∧ ∀ q ∈ headPos k, Pos.Old idx q := by
  refine ⟨seg_nodup (fun a b h => by injection h) _ _, ?_⟩
  intro q hq
  obtain ⟨t, _, rfl⟩ := mem_seg.mp hq
  trivial

/-- distinct chunks share no bit position -/
theorem chunkPosV_disjoint {W : Nat} {Ps : List Nat} {L : List Pos} {idx m : Nat}
    (hPs : ∀ P ∈ Ps, P ≤ W) (hnd : L.Nodup) (hold : ∀ q ∈ L, Pos.Old idx q)
    {i j : Nat} (hij : i ≠ j) {a b : List Pos}
    (ha : (chunkPosV W Ps L idx m)[i]? = some a) (hb : (chunkPosV W Ps L idx m)[j]? = some b) :
    ∀ q ∈ a, q ∉ b := by
  have hpw := (chunkPosV_pairwise W Ps L idx m hPs hnd hold).1
  rw [List.pairwise_iff_getElem] at hpw
  obtain ⟨hi, rfl⟩ := List.getElem?_eq_some_iff.mp ha
  obtain ⟨hj, rfl⟩ := List.getElem?_eq_some_iff.mp hb
  intro q hqa hqb
  rcases Nat.lt_or_ge i j with h | h
  · exact hpw i j hi hj h q hqa hqb
  · exact hpw j i hj hi (by omega) q hqb hqa

/-- Two data sets of the same shape that agree on every bit outside chunk `j` have the same
    chunks everywhere except possibly at `j` (and equally many of them). -/
theorem quantiles_flip {c : Cfg} (hv : CValid c) {hc hc' k : Nat} {comp comp' : List Nat}
    (hlo : 2^k ≤ hc) (hhi : hc < 2^(k + 1)) (hW : hc < 2^c.W) (hw : Words c.W comp)
    (hlo' : 2^k ≤ hc') (hhi' : hc' < 2^(k + 1)) (hW' : hc' < 2^c.W) (hw' : Words c.W comp')
    (hlen : comp.length = comp'.length) (n j : Nat)
    (hsame : ∀ q, q ∉ ((chunkPosV c.W (List.replicate n c.P) (headPos k) 0 comp.length)[j]?).getD [] →
      bitOf hc comp q = bitOf hc' comp' q) :
    (quantiles c n hc comp).length = (quantiles c n hc' comp').length ∧
    ∀ i : Nat, i ≠ j → (quantiles c n hc comp)[i]? = (quantiles c n hc' comp')[i]? := by
  rw [quantiles_eq_chunks hv hlo hhi hW hw n, quantiles_eq_chunks hv hlo' hhi' hW' hw' n, ← hlen]
  refine ⟨by simp, ?_⟩
  intro i hij
  simp only [List.getElem?_map]
  cases hch : (chunkPosV c.W (List.replicate n c.P) (headPos k) 0 comp.length)[i]? with
  | none => rfl
  | some a =>
    simp only [Option.map_some]
    congr 1
    apply valOf_congr
    intro q hq
    apply hsame
    have hPs : ∀ P ∈ List.replicate n c.P, P ≤ c.W := by
      intro P hP
      obtain ⟨_, rfl⟩ := List.mem_replicate.mp hP
      obtain ⟨_, b, d, _⟩ := hv; omega
    cases hcj : (chunkPosV c.W (List.replicate n c.P) (headPos k) 0 comp.length)[j]? with
    | none => simp
    | some b =>
      simp only [Option.getD_some]
      exact chunkPosV_disjoint hPs (headPos_ok k 0).1 (headPos_ok k 0).2 hij hch hcj q hq

/-! ## per-symbol precision: schedules with `change_precision` in between -/

/-- the precision in force at each decode step of a schedule started at precision `P` -/
def decPrecs {Sym : Type} (P : Nat) : List (Step Sym) → List Nat
  | [] => []
  | .dec _ _ :: r => P :: decPrecs P r
  | .prec q :: r => decPrecs q r

def decModels {Sym : Type} : List (Step Sym) → List (Model Sym)
  | [] => []
  | .dec _ m :: r => m :: decModels r
  | .prec _ :: r => decModels r

/-- the symbols recorded in a log, oldest first -/
def logSyms {Sym : Type} : List (Done Sym) → List Sym
  | [] => []
  | .dec _ _ s :: r => s :: logSyms r
  | .prec _ :: r => logSyms r

theorem takeChunk_congr {c c' : Cfg} (hW : c.W = c'.W) (hP : c.P = c'.P) (hc : Nat) (comp : List Nat) :
    takeChunk c hc comp = takeChunk c' hc comp := by
  simp [takeChunk, hW, hP]

theorem quantilesV_withP (c : Cfg) (q : Nat) :
    ∀ (Ps : List Nat) (hc : Nat) (comp : List Nat),
      quantilesV (withP c q) Ps hc comp = quantilesV c Ps hc comp := by
  intro Ps
  induction Ps with
  | nil => intros; rfl
  | cons P Ps ih =>
    intro hc comp
    simp only [quantilesV, withP_withP, withP_W]
    cases takeChunk (withP c P) hc comp with
    | error e => rfl
    | ok r => obtain ⟨w, a, b⟩ := r; simp only [ih]

/-- **Locality for schedules with precision changes**: the symbols decoded by a schedule that
    runs to completion are `zipWith (fun q m => m.dec q).1` over the chunks `quantilesV` of the
    compressed side for the per-symbol precisions – neither the remainders side nor the
    precision changes themselves (which never touch the compressed side) feed back. -/
theorem locality_schedule {Sym : Type} :
    ∀ (steps : List (Step Sym)) (c : Cfg) (x : Coder),
      PrecOk c.W c.S c.P → StepsOk c steps → Inv c x →
      ∀ log c' y, runDec c steps x = some (log, c', y) →
        logSyms log = List.zipWith (fun q m => (m.dec q).1)
          (quantilesV c (decPrecs c.P steps) x.heads.compressed x.compressed) (decModels steps) ∧
        (quantilesV c (decPrecs c.P steps) x.heads.compressed x.compressed).length
          = (decModels steps).length := by
  intro steps
  induction steps with
  | nil =>
    intro c x _ _ _ log c' y hrun
    simp only [runDec, Option.some.injEq, Prod.mk.injEq] at hrun
    obtain ⟨rfl, _, _⟩ := hrun
    simp [logSyms, decPrecs, decModels, quantilesV]
  | cons st rest ih =>
    intro c x hP hok hx log c' y hrun
    cases st with
    | dec B m =>
      obtain ⟨hv, hm, hrest⟩ := hok
      simp only [runDec] at hrun
      rcases decode_spec hv hm (inv_withB.mpr hx) with ⟨herr, _⟩ | ⟨s, y1, word, hdec, hy1, htk, hs, _⟩
      · simp [herr] at hrun
      · simp only [hdec] at hrun
        rcases hrd : runDec c rest y1 with _ | ⟨l, c1, z⟩
        · simp [hrd] at hrun
        · simp only [hrd, Option.some.injEq, Prod.mk.injEq] at hrun
          obtain ⟨rfl, _, _⟩ := hrun
          obtain ⟨ih1, ih2⟩ := ih c y1 hP hrest (inv_withB.mp hy1) l c1 z hrd
          -- the word taken is a real word, so `.as_()` does not change the chunk
          have hword : word < 2^c.W := by
            rcases takeChunk_ok hv hx.1.1 hx.1.2.1 hx.2.1 with ⟨he, _⟩ | ⟨w', a', b', htk', _, _, hw', _⟩
            · rw [he] at htk; cases htk
            · rw [htk'] at htk; cases htk; exact hw'
          have hq : quantileOf (withB c B) word = rawQ c.W c.P word := (quantileOf_lt hv hword).2
          have htk2 : takeChunk (withP c c.P) x.heads.compressed x.compressed
              = .ok (word, y1.heads.compressed, y1.compressed) := by
            rw [← htk]; exact takeChunk_congr rfl rfl _ _
          simp only [logSyms, decPrecs, decModels, quantilesV, htk2, List.zipWith_cons_cons,
            List.length_cons]
          refine ⟨?_, by rw [ih2]⟩
          rw [ih1, hs, hq]
    | prec q =>
      obtain ⟨hq, hrest⟩ := hok
      simp only [runDec] at hrun
      rcases changePrecision_spec hP hq hx with ⟨herr, _⟩ | ⟨y1, hcp, hy1, hcomp, hhead, _⟩
      · simp [herr] at hrun
      · simp only [hcp] at hrun
        rcases hrd : runDec (withP c q) rest y1 with _ | ⟨l, c1, z⟩
        · simp [hrd] at hrun
        · simp only [hrd, Option.some.injEq, Prod.mk.injEq] at hrun
          obtain ⟨rfl, _, _⟩ := hrun
          obtain ⟨ih1, ih2⟩ := ih (withP c q) y1 hq hrest hy1 l c1 z hrd
          simp only [withP_P, quantilesV_withP, hcomp, hhead] at ih1 ih2
          simp only [logSyms, decPrecs, decModels]
          exact ⟨ih1, ih2⟩

theorem decPrecs_ok {Sym : Type} :
    ∀ (steps : List (Step Sym)) (c : Cfg), StepsOk c steps →
      ∀ P ∈ decPrecs c.P steps, 1 ≤ P ∧ P ≤ c.W := by
  intro steps
  induction steps with
  | nil => intro c _ P h; simp [decPrecs] at h
  | cons st rest ih =>
    intro c hok P hP
    cases st with
    | dec B m =>
      obtain ⟨hv, _, hrest⟩ := hok
      simp only [decPrecs, List.mem_cons] at hP
      rcases hP with rfl | hP
      · obtain ⟨a, b, d, _⟩ := hv
        simp only [withB_P, withB_B, withB_W] at a b d
        exact ⟨a, by omega⟩
      · exact ih c hrest P hP
    | prec q =>
      obtain ⟨_, hrest⟩ := hok
      simp only [decPrecs] at hP
      exact ih (withP c q) hrest P hP

/-- per-symbol-precision version of `quantiles_flip` -/
theorem quantilesV_flip {c : Cfg} (Ps : List Nat) (hPs : ∀ P ∈ Ps, 1 ≤ P ∧ P ≤ c.W)
    {hc hc' k : Nat} {comp comp' : List Nat}
    (hlo : 2^k ≤ hc) (hhi : hc < 2^(k + 1)) (hW : hc < 2^c.W) (hw : Words c.W comp)
    (hlo' : 2^k ≤ hc') (hhi' : hc' < 2^(k + 1)) (hW' : hc' < 2^c.W) (hw' : Words c.W comp')
    (hlen : comp.length = comp'.length) (j : Nat)
    (hsame : ∀ q, q ∉ ((chunkPosV c.W Ps (headPos k) 0 comp.length)[j]?).getD [] →
      bitOf hc comp q = bitOf hc' comp' q) :
    quantilesV c Ps hc comp = (chunkPosV c.W Ps (headPos k) 0 comp.length).map (valOf (bitOf hc comp)) ∧
    quantilesV c Ps hc' comp' = (chunkPosV c.W Ps (headPos k) 0 comp.length).map (valOf (bitOf hc' comp')) ∧
    ∀ i : Nat, i ≠ j → (quantilesV c Ps hc comp)[i]? = (quantilesV c Ps hc' comp')[i]? := by
  have hval : ∀ (h : Nat) (cp : List Nat), 2^k ≤ h → h < 2^(k+1) →
      h = 2^(headPos k).length + valOf (bitOf h cp) (headPos k) := by
    intro h cp h1 h2
    have hf : ∀ b, bitOf h cp (.head b) = h / 2^b % 2 := fun b => rfl
    rw [headPos, seg_length, valOf_seg hf 0 k]
    simp only [Nat.pow_zero, Nat.div_one]
    rw [Nat.pow_succ] at h2
    have := Nat.div_add_mod h (2^k)
    have hd : h / 2^k = 1 := by
      apply Nat.div_eq_of_lt_le
      · rw [Nat.one_mul]; exact h1
      · omega
    rw [hd] at this
    omega
  have e1 := quantilesV_eq_chunks hc comp hw Ps (headPos k) 0 hc hPs (hval hc comp hlo hhi) hW
  have e2 := quantilesV_eq_chunks hc' comp' hw' Ps (headPos k) 0 hc' hPs (hval hc' comp' hlo' hhi') hW'
  simp only [List.drop_zero, Nat.sub_zero] at e1 e2
  rw [← hlen] at e2
  refine ⟨e1, e2, ?_⟩
  intro i hij
  rw [e1, e2]
  simp only [List.getElem?_map]
  cases hch : (chunkPosV c.W Ps (headPos k) 0 comp.length)[i]? with
  | none => rfl
  | some a =>
    simp only [Option.map_some]
    congr 1
    apply valOf_congr
    intro q hq
    apply hsame
    have hPs' : ∀ P ∈ Ps, P ≤ c.W := fun P h => (hPs P h).2
    cases hcj : (chunkPosV c.W Ps (headPos k) 0 comp.length)[j]? with
    | none => simp
    | some b =>
      simp only [Option.getD_some]
      exact chunkPosV_disjoint hPs' (headPos_ok k 0).1 (headPos_ok k 0).2 hij hch hcj q hq

/-- **Locality for schedules, including runs that stop early.**  With `r = runDecE c steps x`
    (log of the steps done, error of the first failing step), `qs` the chunks for the
    per-symbol precisions and `full = zipWith (m.dec q).1 qs models`:
    the symbols decoded are a prefix of `full`; a decode step can only fail with
    `OutOfCompressedData`, and it does so exactly when the chunks have run out
    (`#symbols = qs.length`); a precision change can only fail with `OutOfRemainders`;
    a completed run decodes all of `full`. -/
theorem locality_scheduleE {Sym : Type} :
    ∀ (steps : List (Step Sym)) (c : Cfg) (x : Coder),
      PrecOk c.W c.S c.P → StepsOk c steps → Inv c x →
      logSyms (runDecE c steps x).1 =
        (List.zipWith (fun q m => (m.dec q).1)
          (quantilesV c (decPrecs c.P steps) x.heads.compressed x.compressed) (decModels steps)).take
          (logSyms (runDecE c steps x).1).length ∧
      (∀ e, (runDecE c steps x).2.2.2 = some (.inl e) → e = .outOfData ∧
        (logSyms (runDecE c steps x).1).length =
          (quantilesV c (decPrecs c.P steps) x.heads.compressed x.compressed).length ∧
        (quantilesV c (decPrecs c.P steps) x.heads.compressed x.compressed).length
          < (decModels steps).length) ∧
      (∀ e, (runDecE c steps x).2.2.2 = some (.inr e) → e = .outOfRemainders) ∧
      ((runDecE c steps x).2.2.2 = none →
        (quantilesV c (decPrecs c.P steps) x.heads.compressed x.compressed).length
          = (decModels steps).length ∧
        (logSyms (runDecE c steps x).1).length = (decModels steps).length) := by
  intro steps
  induction steps with
  | nil =>
    intro c x _ _ _
    simp [runDecE, logSyms, decPrecs, decModels, quantilesV]
  | cons st rest ih =>
    intro c x hP hok hx
    cases st with
    | dec B m =>
      obtain ⟨hv, hm, hrest⟩ := hok
      rcases decode_spec hv hm (inv_withB.mpr hx) with ⟨herr, _, _, htk⟩ | ⟨s, y1, word, hdec, hy1, htk, hs, _⟩
      · have htk2 : takeChunk (withP c c.P) x.heads.compressed x.compressed = .error .outOfData := by
          rw [← htk]; exact takeChunk_congr rfl rfl _ _
        simp [runDecE, herr, logSyms, decPrecs, decModels, quantilesV, htk2]
      · obtain ⟨ih1, ih2, ih3, ih4⟩ := ih c y1 hP hrest (inv_withB.mp hy1)
        have hword : word < 2^c.W := by
          rcases takeChunk_ok hv hx.1.1 hx.1.2.1 hx.2.1 with ⟨he, _⟩ | ⟨w', a', b', htk', _, _, hw', _⟩
          · rw [he] at htk; cases htk
          · rw [htk'] at htk; cases htk; exact hw'
        have hq : quantileOf (withB c B) word = rawQ c.W c.P word := (quantileOf_lt hv hword).2
        have htk2 : takeChunk (withP c c.P) x.heads.compressed x.compressed
            = .ok (word, y1.heads.compressed, y1.compressed) := by
          rw [← htk]; exact takeChunk_congr rfl rfl _ _
        simp only [runDecE, hdec, logSyms, decPrecs, decModels, quantilesV, htk2,
          List.zipWith_cons_cons, List.length_cons, List.take_succ_cons]
        refine ⟨?_, ?_, ih3, ?_⟩
        · rw [← ih1, hs, hq]
        · intro e he
          obtain ⟨h1, h2, h3⟩ := ih2 e he
          exact ⟨h1, by omega, by omega⟩
        · intro he
          obtain ⟨h1, h2⟩ := ih4 he
          exact ⟨by omega, by omega⟩
    | prec q =>
      obtain ⟨hq, hrest⟩ := hok
      rcases changePrecision_spec hP hq hx with ⟨herr, _⟩ | ⟨y1, hcp, hy1, hcomp, hhead, _⟩
      · simp [runDecE, herr, logSyms]
      · obtain ⟨ih1, ih2, ih3, ih4⟩ := ih (withP c q) y1 hq hrest hy1
        simp only [withP_P, quantilesV_withP, hcomp, hhead] at ih1 ih2 ih3 ih4
        simp only [runDecE, hcp, logSyms, decPrecs, decModels]
        exact ⟨ih1, ih2, ih3, ih4⟩

end CV.Chain
