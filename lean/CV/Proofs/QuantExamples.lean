import CV.Proofs.QuantModels
/-!
# Concrete instances satisfying the hypotheses of the `quant` theorems (non-vacuity), and
pre-repair variants of the code on which the same obligations fail (`…_counterexample`)
-/
namespace CV.Quant

/-! ### fast / lazy: `P = 12`, `u16`, four symbols -/

def exH : Nat → Nat := fun i => i * 1000

theorem exFastOk : FastOk 16 12 4 := ⟨by decide, by decide, by decide, by decide⟩
theorem exFree : freeWeight 16 12 4 = 2 ^ 12 - 4 := freeWeight_eq exFastOk
theorem exTBF1 : TBF1Fast exH 4 := ⟨fun i _ => by unfold exH; omega, rfl⟩
theorem exTBF2 : TBF2 12 4 (2 ^ 12 - 4) exH (fun _ => 1) := by
  intro q _
  show 1 ≤ 1 ∧ 1 ≤ 4 ∧ cumF 12 4 (2 ^ 12 - 4) exH (1 - 1) ≤ q
  refine ⟨Nat.le_refl _, by omega, ?_⟩
  rw [cumF_zero exFastOk exTBF1.zero]; omega

/-- `P = B`: the total wraps to `0` in `Probability` -/
theorem exFastOkFull : FastOk 8 8 3 := ⟨by decide, by decide, by decide, by decide⟩

/-! ### leaky quantizer: `i8` symbols (narrower than `Probability = u16`), `P = 12` -/

def exLQ : LQ := { t := ⟨8, true⟩, B := 16, P := 12, min := -3, max := 3, free := 4089 }
def exG : Int → Nat := fun s => (s + 3).toNat * 600

theorem exLQ_ok : exLQ.Ok :=
  ⟨by decide, by decide, by decide, by decide, by decide, by decide, by decide, by decide⟩

theorem exG_ok : GOk exLQ exG := by
  constructor
  · intro s h1 h2
    have h1' : (-3 : Int) < s := h1
    have h2' : s < 3 := h2
    show (s + 3).toNat * 600 ≤ (s + 1 + 3).toNat * 600
    omega
  · intro s h1 h2
    have h1' : (-3 : Int) < s := h1
    have h2' : s ≤ 3 := h2
    show (s + 3).toNat * 600 ≤ 4089
    omega

/-- a signed symbol type whose support spans more than half of the type (accepted since D10) -/
def exLQwide : LQ := { t := ⟨8, true⟩, B := 16, P := 12, min := -128, max := 126, free := 3841 }
theorem exLQwide_ok : exLQwide.Ok :=
  ⟨by decide, by decide, by decide, by decide, by decide, by decide, by decide, by decide⟩
theorem exLQwide_new : LQ.new ⟨8, true⟩ 16 12 (-128) 126 = .ok exLQwide := by rfl

/-- `P = B = 8` with a full `u8` support: `free = 0` -/
def exLQfull : LQ := { t := ⟨8, false⟩, B := 8, P := 8, min := 0, max := 255, free := 0 }
theorem exLQfull_ok : exLQfull.Ok :=
  ⟨by decide, by decide, by decide, by decide, by decide, by decide, by decide, by decide⟩
theorem exGfull_ok : GOk exLQfull (fun _ => 0) := ⟨fun _ _ _ => Nat.le_refl _, fun _ _ _ => Nat.le_refl _⟩

/-! ### the code before the repairs: the obligations fail -/

/-- D4: without the clamp, `h` one quantum above `free` leaves nothing for the last symbol:
    `P = 3`, three symbols, `free = 5`, `h = [0, 3, 6]` gives the cdf `[0, 4, 8, 8]` -/
theorem D4_counterexample :
    let h : Nat → Nat := fun i => i * 3
    Mono h 3 ∧ h 0 = 0 ∧
    (List.range 3).map (fun i => h i + i) ++ [2 ^ 3] = [0, 4, 8, 8] := by decide

/-- D1: the pre-repair iterator used `g symbol` instead of `g next_symbol` for the right end of
    `symbol`: on `exLQ`/`exG` its first entry is `(min, 0, g min + 1) = (-3, 0, 1)`, while the
    encoder answers `(0, 601)` for `-3` -/
theorem D1_counterexample :
    exG (-3) + slack exLQ.t exLQ.B (-3 + 1) exLQ.min = 1 ∧
    exLQ.enc (extL exG) (extR exG) (-3) = .ok (some (0, 601)) := ⟨by decide, by rfl⟩

/-- D16: `step << 1 != 0` lets an `i8` step of `64` become `-128` -/
theorem D16_counterexample :
    (⟨8, true⟩ : SymTy).wrap (64 * 2) = -128 ∧ (⟨8, true⟩ : SymTy).wrap (64 * 2) ≠ 0 ∧
    exLQ.dbl 64 = 64 := by decide

/-- D10: `65542` symbols at `u16`/`P = 12` truncate to `6`; the repaired `new` rejects them -/
theorem D10_counterexample :
    narrow 16 65541 = 5 ∧ ∃ f, LQ.new ⟨32, true⟩ 16 12 0 65541 = .error f := by
  refine ⟨by decide, ?_⟩
  exact LQ.new_rejects (by decide) (by decide)

end CV.Quant
