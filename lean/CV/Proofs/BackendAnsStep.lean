import CV.Model.BackendAns
import CV.Proofs.BackendAns
import CV.Properties.C01_ans
/-!
# The ANS coder over a concrete backend *is* the abstract ANS model

`Sim B good abs`: the backend `B` is simulated by the ANS model's `(bulk, cap)` through `abs`
on states satisfying `good`.  For such a backend `encodeCPOn`/`decodeOn` (the coder steps of
`stack.rs` over the explicit backend) commute with `abs` and `Ans.encodeCP`/`Ans.decode`.
Instances: `Cursor` (good = `pos ≤ len`), `Reverse<Cursor>`, `Vec`.
-/
namespace CV.Backend.AnsAbs
open CV CV.Backend

structure Sim {β : Type} (B : BackendOps β) (good : β → Prop) (abs : β → Nat → Ans.Coder) : Prop where
  state_eq : ∀ b st, (abs b st).state = st
  restate : ∀ b st st', abs b st' = { abs b st with state := st' }
  write_ok : ∀ b st w b', good b → B.write b w = .ok b' →
    Ans.canWrite (abs b st) = true ∧
    abs b' st = { abs b st with bulk := w :: (abs b st).bulk } ∧ good b'
  write_err : ∀ b st w e, good b → B.write b w = .error e →
    e = .outOfSpace ∧ Ans.canWrite (abs b st) = false
  read : ∀ b st, good b → ∃ b', B.read b = .ok ((abs b st).bulk.head?, b') ∧
    abs b' st = Ans.dropReads (abs b st) 1 ∧ good b'

/-- image of a coder-step result in the abstract model -/
def liftEnc {β : Type} (abs : β → Nat → Ans.Coder) :
    Except Ans.EncErr (β × Nat) → Except Ans.EncErr Ans.Coder
  | .ok (b, st) => .ok (abs b st)
  | .error e => .error e

def liftDec {β Sym : Type} (abs : β → Nat → Ans.Coder) :
    M (Sym × β × Nat) → M (Sym × Ans.Coder)
  | .ok (s, b, st) => .ok (s, abs b st)
  | .error f => .error f

variable {β : Type} {B : BackendOps β} {good : β → Prop} {abs : β → Nat → Ans.Coder}

/-- the arithmetic tail of `encode_symbol` does not touch the backend -/
private theorem tail_eq (abs : β → Nat → Ans.Coder) (b' : β) (bulk : List Nat) (cap : Option Nat)
    (key : ∀ s', abs b' s' = ⟨bulk, s', cap⟩) (c : Cfg) (st cum p : Nat) :
    (if p = 0 then (.error (.fault (.panic "ans.enc.div0")) : Except Ans.EncErr Ans.Coder) else
      match cadd "ans.enc.quantile" c.B cum (narrow c.B (narrow c.W (st % p))) with
      | .error f => .error (.fault f)
      | .ok quantile =>
        match shl "ans.enc.prefix" c.S (st / p) c.P with
        | .error f => .error (.fault f)
        | .ok hiPart => .ok (⟨bulk, hiPart ||| quantile, cap⟩ : Ans.Coder)) =
    liftEnc abs
      (if p = 0 then .error (.fault (.panic "ans.enc.div0")) else
        match cadd "ans.enc.quantile" c.B cum (narrow c.B (narrow c.W (st % p))) with
        | .error f => .error (.fault f)
        | .ok quantile =>
          match shl "ans.enc.prefix" c.S (st / p) c.P with
          | .error f => .error (.fault f)
          | .ok hiPart => .ok (b', hiPart ||| quantile)) := by
  by_cases hp : p = 0
  · simp [hp, liftEnc]
  · simp only [hp, if_false]
    cases cadd "ans.enc.quantile" c.B cum (narrow c.B (narrow c.W (st % p))) with
    | error f => simp [liftEnc]
    | ok q =>
      cases shl "ans.enc.prefix" c.S (st / p) c.P with
      | error f => simp [liftEnc]
      | ok hp' => simp [liftEnc, key]

/-- **`encode_symbol` over a simulated backend = `Ans.encodeCP` on the abstraction**
    (including `backendFull`: refused write, coder untouched) -/
theorem encodeCPOn_sim (h : Sim B good abs) (c : Cfg) (b : β) (hg : good b) (st cum p : Nat) :
    Ans.encodeCP c (abs b st) cum p = liftEnc abs (encodeCPOn B c b st cum p) := by
  unfold Ans.encodeCP encodeCPOn
  rw [h.state_eq]
  cases shr "ans.enc.hi" c.S st (c.S - c.P) with
  | error f => simp [liftEnc]
  | ok hi =>
    simp only
    by_cases hflush : hi ≥ p
    · simp only [hflush, if_true]
      cases hw : B.write b (narrow c.W st) with
      | ok b' =>
        obtain ⟨hcw, habs, _⟩ := h.write_ok b st _ b' hg hw
        simp only [hcw, if_true]
        have key : ∀ s', abs b' s' = ⟨narrow c.W st :: (abs b st).bulk, s', (abs b st).cap⟩ := by
          intro s'; rw [h.restate b' st s', habs]
        exact tail_eq abs b' _ _ key c (st >>> c.W) cum p
      | error e =>
        obtain ⟨he, hcw⟩ := h.write_err b st _ e hg hw
        subst he
        simp [hcw, liftEnc]
    · simp only [hflush, if_false]
      have key : ∀ s', abs b s' = ⟨(abs b st).bulk, s', (abs b st).cap⟩ := by
        intro s'; rw [h.restate b st s']
      rw [h.state_eq]
      exact tail_eq abs b _ _ key c st cum p

theorem encodeOn_sim {Sym : Type} (h : Sim B good abs) (c : Cfg) (m : Model Sym) (s : Sym)
    (b : β) (hg : good b) (st : Nat) :
    Ans.encode c m s (abs b st) = liftEnc abs (encodeOn B c m s b st) := by
  unfold Ans.encode encodeOn
  cases m.enc s with
  | none => simp [liftEnc]
  | some cp => exact encodeCPOn_sim h c b hg st cp.1 cp.2

/-- a successful encode keeps the backend good -/
theorem encodeCPOn_good (h : Sim B good abs) (c : Cfg) (b : β) (hg : good b) (st cum p : Nat)
    (b' : β) (st' : Nat) (he : encodeCPOn B c b st cum p = .ok (b', st')) : good b' := by
  unfold encodeCPOn at he
  cases hs : shr "ans.enc.hi" c.S st (c.S - c.P) with
  | error f => simp [hs] at he
  | ok hi =>
    simp only [hs] at he
    by_cases hflush : hi ≥ p
    · simp only [hflush, if_true] at he
      cases hw : B.write b (narrow c.W st) with
      | ok b1 =>
        have hg1 := (h.write_ok b st _ b1 hg hw).2.2
        simp only [hw] at he
        split at he
        · cases he
        · split at he
          · cases he
          · split at he
            · cases he
            · cases he; exact hg1
      | error e =>
        cases e <;> simp [hw] at he
    · simp only [hflush, if_false] at he
      split at he
      · cases he
      · split at he
        · cases he
        · split at he
          · cases he
          · cases he; exact hg

/-- **`decode_symbol` over a simulated backend = `Ans.decode` on the abstraction** -/
theorem decodeOn_sim {Sym : Type} (h : Sim B good abs) (c : Cfg) (m : Model Sym) (b : β)
    (hg : good b) (st : Nat) :
    Ans.decode c m (abs b st) = liftDec abs (decodeOn B c m b st) := by
  unfold Ans.decode decodeOn
  rw [h.state_eq]
  cases shl "ans.dec.one" c.S 1 c.P with
  | error f => simp [liftDec]
  | ok modulus =>
    simp only
    cases csub "ans.dec.remainder" (narrow c.B (narrow c.W (st % modulus)))
        (m.dec (narrow c.B (narrow c.W (st % modulus)))).2.1 with
    | error f => simp [liftDec]
    | ok remainder =>
      simp only
      cases cmul "ans.dec.mul" c.S (st >>> c.P) (m.dec (narrow c.B (narrow c.W (st % modulus)))).2.2 with
      | error f => simp [liftDec]
      | ok t =>
        simp only
        cases cadd "ans.dec.add" c.S t remainder with
        | error f => simp [liftDec]
        | ok st1 =>
          simp only
          by_cases hlt : st1 < 2^(c.S - c.W)
          · simp only [hlt, if_true]
            obtain ⟨b', hr, habs, _⟩ := h.read b st hg
            rw [hr]
            cases hb : (abs b st).bulk with
            | nil =>
              simp only [List.head?_nil, liftDec]
              rw [h.restate b' st st1, habs]
              simp [Ans.dropReads, hb]
            | cons w rest =>
              simp only [List.head?_cons, liftDec]
              rw [h.restate b' st, habs]
              simp [Ans.dropReads, hb]
          · simp only [hlt, if_false, liftDec]
            rw [h.restate b st st1]

theorem decodeOn_good {Sym : Type} (h : Sim B good abs) (c : Cfg) (m : Model Sym) (b : β)
    (hg : good b) (st : Nat) (s : Sym) (b' : β) (st' : Nat)
    (hd : decodeOn B c m b st = .ok (s, b', st')) : good b' := by
  unfold decodeOn at hd
  obtain ⟨b1, hr, _, hg1⟩ := h.read b st hg
  cases h1 : shl "ans.dec.one" c.S 1 c.P with
  | error f => simp [h1] at hd
  | ok modulus =>
    simp only [h1] at hd
    cases h2 : csub "ans.dec.remainder" (narrow c.B (narrow c.W (st % modulus)))
        (m.dec (narrow c.B (narrow c.W (st % modulus)))).2.1 with
    | error f => simp [h2] at hd
    | ok remainder =>
      simp only [h2] at hd
      cases h3 : cmul "ans.dec.mul" c.S (st >>> c.P)
          (m.dec (narrow c.B (narrow c.W (st % modulus)))).2.2 with
      | error f => simp [h3] at hd
      | ok t =>
        simp only [h3] at hd
        cases h4 : cadd "ans.dec.add" c.S t remainder with
        | error f => simp [h4] at hd
        | ok st1 =>
          simp only [h4] at hd
          by_cases hlt : st1 < 2^(c.S - c.W)
          · simp only [hlt, if_true, hr] at hd
            cases ho : (abs b st).bulk.head? with
            | none =>
              simp only [ho] at hd
              have := (Prod.mk.inj (Prod.mk.inj (Except.ok.inj hd)).2).1
              rw [← this]; exact hg1
            | some w =>
              simp only [ho] at hd
              have := (Prod.mk.inj (Prod.mk.inj (Except.ok.inj hd)).2).1
              rw [← this]; exact hg1
          · simp only [hlt, if_false] at hd
            have := (Prod.mk.inj (Prod.mk.inj (Except.ok.inj hd)).2).1
            rw [← this]; exact hg

/-! ## instances -/

theorem sim_cursor : Sim cursorOps Cursor.Inv absCur where
  state_eq := fun _ _ => rfl
  restate := fun _ _ _ => rfl
  write_ok := by
    intro c st w c' hI hw
    have h1 := cur_write c hI st w
    have hw' : c.write w = .ok c' := hw
    rw [hw'] at h1
    rw [ansWrite_eq] at h1
    have hcw : Ans.canWrite (absCur c st) = true := by
      cases hc : Ans.canWrite (absCur c st) with
      | true => rfl
      | false => simp [hc] at h1
    refine ⟨hcw, ?_, ?_⟩
    · simp [hcw] at h1; exact h1.symm
    · unfold Cursor.write at hw'
      split at hw'
      · cases hw'; simp [Cursor.Inv]; omega
      · cases hw'
  write_err := by
    intro c st w e hI hw
    have hw' : c.write w = .error e := hw
    have h1 := cur_write c hI st w
    rw [hw', ansWrite_eq] at h1
    refine ⟨?_, ?_⟩
    · unfold Cursor.write at hw'
      split at hw'
      · cases hw'
      · exact (Except.error.inj hw').symm
    · cases hc : Ans.canWrite (absCur c st) with
      | false => rfl
      | true => simp [hc] at h1
  read := by
    intro c st hI
    obtain ⟨c', h1, h2, h3⟩ := cur_read c hI st
    exact ⟨c', h1, h2, h3⟩

theorem sim_vec : Sim vecOps (fun _ => True) absVec where
  state_eq := fun _ _ => rfl
  restate := fun _ _ _ => rfl
  write_ok := by
    intro v st w v' _ hw
    have : v' = v.write w := by
      have := Except.ok.inj hw; exact this.symm
    subst this
    refine ⟨by simp [Ans.canWrite, absVec], ?_, trivial⟩
    simp [absVec, VecB.write]
  write_err := by
    intro v st w e _ hw
    cases hw
  read := by
    intro v st _
    have := vec_read v st
    refine ⟨(v.read).2, ?_, ?_, trivial⟩
    · show Except.ok v.read = _
      have h1 : (v.read).1 = (absVec v st).bulk.head? := by
        have := congrArg Prod.fst this; simpa [ansRead] using this
      rw [← h1]
    · have := congrArg Prod.snd this; simpa [ansRead] using this

theorem sim_revCursor : Sim revCursorOps (fun r => r.inner.Inv) absRev where
  state_eq := fun _ _ => rfl
  restate := fun _ _ _ => rfl
  write_ok := by
    intro r st w r' hI hw
    have hw' : r.write w = .ok r' := hw
    have h1 := rev_write r hI st w
    rw [hw', ansWrite_eq] at h1
    have hcw : Ans.canWrite (absRev r st) = true := by
      cases hc : Ans.canWrite (absRev r st) with
      | true => rfl
      | false => simp [hc] at h1
    refine ⟨hcw, ?_, ?_⟩
    · simp [hcw] at h1; exact h1.symm
    · have hI' : r.inner.pos ≤ r.inner.buf.length := hI
      unfold RevCursor.write at hw'
      split at hw'
      · cases hw'
      · split at hw'
        · cases hw'; simp [Cursor.Inv]; omega
        · cases hw'
  write_err := by
    intro r st w e hI hw
    have hw' : r.write w = .error e := hw
    have hI' : r.inner.pos ≤ r.inner.buf.length := hI
    have h1 := rev_write r hI st w
    rw [hw', ansWrite_eq] at h1
    refine ⟨?_, ?_⟩
    · unfold RevCursor.write at hw'
      split at hw'
      · exact (Except.error.inj hw').symm
      · split at hw'
        · cases hw'
        · omega
    · cases hc : Ans.canWrite (absRev r st) with
      | false => rfl
      | true => simp [hc] at h1
  read := by
    intro r st hI
    have := rev_read r st
    have hI' : r.inner.pos ≤ r.inner.buf.length := hI
    refine ⟨(r.readStack).2, ?_, ?_, ?_⟩
    · show Except.ok r.readStack = _
      have h1 : (r.readStack).1 = (absRev r st).bulk.head? := by
        have := congrArg Prod.fst this; simpa [ansRead] using this
      rw [← h1]
    · have := congrArg Prod.snd this; simpa [ansRead] using this
    · show (r.readStack).2.inner.pos ≤ (r.readStack).2.inner.buf.length
      simp only [RevCursor.readStack, Cursor.readQueue]
      cases hb : r.inner.buf[r.inner.pos]? with
      | none => simpa using hI'
      | some w =>
        have : r.inner.pos < r.inner.buf.length := by
          rcases Nat.lt_or_ge r.inner.pos r.inner.buf.length with h | h
          · exact h
          · rw [List.getElem?_eq_none_iff.mpr h] at hb; cases hb
        simp; omega

/-! ## transporting the ANS theorems (stated for `cap = none`) to bounded backends -/

/-- the arithmetic tail of `Ans.encodeCP` ignores `cap` -/
private theorem tail_cap (c : Cfg) (bulk : List Nat) (st : Nat) (k k' : Option Nat) (cum p : Nat)
    (y : Ans.Coder)
    (h : (if p = 0 then (.error (.fault (.panic "ans.enc.div0")) : Except Ans.EncErr Ans.Coder) else
      match cadd "ans.enc.quantile" c.B cum (narrow c.B (narrow c.W (st % p))) with
      | .error f => .error (.fault f)
      | .ok quantile =>
        match shl "ans.enc.prefix" c.S (st / p) c.P with
        | .error f => .error (.fault f)
        | .ok hiPart => .ok (⟨bulk, hiPart ||| quantile, k⟩ : Ans.Coder)) = .ok y) :
    (if p = 0 then (.error (.fault (.panic "ans.enc.div0")) : Except Ans.EncErr Ans.Coder) else
      match cadd "ans.enc.quantile" c.B cum (narrow c.B (narrow c.W (st % p))) with
      | .error f => .error (.fault f)
      | .ok quantile =>
        match shl "ans.enc.prefix" c.S (st / p) c.P with
        | .error f => .error (.fault f)
        | .ok hiPart => .ok (⟨bulk, hiPart ||| quantile, k'⟩ : Ans.Coder)) = .ok { y with cap := k' }
    ∧ y.cap = k := by
  by_cases hp : p = 0
  · simp [hp] at h
  · simp only [hp, if_false] at h ⊢
    cases h1 : cadd "ans.enc.quantile" c.B cum (narrow c.B (narrow c.W (st % p))) with
    | error f => simp [h1] at h
    | ok q =>
      simp only [h1] at h ⊢
      cases h2 : shl "ans.enc.prefix" c.S (st / p) c.P with
      | error f => simp [h2] at h
      | ok hp' =>
        simp only [h2] at h ⊢
        have := Except.ok.inj h
        subst this
        exact ⟨rfl, rfl⟩

/-- a successful encode on a bounded backend is the unbounded encode (same words, same state) -/
theorem encodeCP_ok_uncap (c : Cfg) (x y : Ans.Coder) (cum p : Nat)
    (h : Ans.encodeCP c x cum p = .ok y) :
    Ans.encodeCP c { x with cap := none } cum p = .ok { y with cap := none } ∧ y.cap = x.cap := by
  unfold Ans.encodeCP at h ⊢
  cases hs : shr "ans.enc.hi" c.S x.state (c.S - c.P) with
  | error f => simp [hs] at h
  | ok hi =>
    simp only [hs] at h ⊢
    by_cases hflush : hi ≥ p
    · simp only [hflush, if_true] at h ⊢
      cases hcw : Ans.canWrite x with
      | false => simp [hcw] at h
      | true =>
        have hcw' : Ans.canWrite { x with cap := none } = true := by simp [Ans.canWrite]
        simp only [hcw, hcw', if_true] at h ⊢
        exact tail_cap c _ _ _ none cum p y h
    · simp only [hflush, if_false] at h ⊢
      exact tail_cap c _ _ _ none cum p y h

/-- conversely, with room for one word the bounded encode is the unbounded one -/
theorem encodeCP_ok_recap (c : Cfg) (x y0 : Ans.Coder) (cum p : Nat)
    (hcw : Ans.canWrite x = true)
    (h : Ans.encodeCP c { x with cap := none } cum p = .ok y0) :
    Ans.encodeCP c x cum p = .ok { y0 with cap := x.cap } := by
  unfold Ans.encodeCP at h ⊢
  cases hs : shr "ans.enc.hi" c.S x.state (c.S - c.P) with
  | error f => simp [hs] at h
  | ok hi =>
    simp only [hs] at h ⊢
    by_cases hflush : hi ≥ p
    · have hcw' : Ans.canWrite { x with cap := none } = true := by simp [Ans.canWrite]
      simp only [hflush, if_true, hcw, hcw'] at h ⊢
      exact (tail_cap c _ _ _ x.cap cum p y0 h).1
    · simp only [hflush, if_false] at h ⊢
      exact (tail_cap c _ _ _ x.cap cum p y0 h).1

/-- `Ans.decode` never looks at `cap` -/
theorem decode_recap {Sym : Type} (c : Cfg) (m : Model Sym) (x : Ans.Coder) (k : Option Nat)
    (s : Sym) (z : Ans.Coder) (h : Ans.decode c m x = .ok (s, z)) :
    Ans.decode c m { x with cap := k } = .ok (s, { z with cap := k }) := by
  unfold Ans.decode at h ⊢
  cases h1 : shl "ans.dec.one" c.S 1 c.P with
  | error f => simp [h1] at h
  | ok modulus =>
    simp only [h1] at h ⊢
    cases h2 : csub "ans.dec.remainder" (narrow c.B (narrow c.W (x.state % modulus)))
        (m.dec (narrow c.B (narrow c.W (x.state % modulus)))).2.1 with
    | error f => simp [h2] at h
    | ok remainder =>
      simp only [h2] at h ⊢
      cases h3 : cmul "ans.dec.mul" c.S (x.state >>> c.P)
          (m.dec (narrow c.B (narrow c.W (x.state % modulus)))).2.2 with
      | error f => simp [h3] at h
      | ok t =>
        simp only [h3] at h ⊢
        cases h4 : cadd "ans.dec.add" c.S t remainder with
        | error f => simp [h4] at h
        | ok st1 =>
          simp only [h4] at h ⊢
          by_cases hlt : st1 < 2^(c.S - c.W)
          · simp only [hlt, if_true] at h ⊢
            cases hb : x.bulk with
            | nil =>
              simp only [hb] at h ⊢
              obtain ⟨hs, hz⟩ := Prod.mk.inj (Except.ok.inj h)
              subst hs; subst hz; rfl
            | cons w rest =>
              simp only [hb] at h ⊢
              obtain ⟨hs, hz⟩ := Prod.mk.inj (Except.ok.inj h)
              subst hs; subst hz; rfl
          · simp only [hlt, if_false] at h ⊢
            obtain ⟨hs, hz⟩ := Prod.mk.inj (Except.ok.inj h)
            subst hs; subst hz; rfl

/-- **C01 transported**: over any simulated backend (in particular a bounded `Cursor`), if
    `encode_symbol` succeeds — i.e. unless the backend is full — then `decode_symbol` with the
    same model returns the symbol, the original `state`, and a backend with the original
    abstraction (same stack contents, same position). -/
theorem sim_decode_encode {Sym : Type} (h : Sim B good abs) {c : Cfg} (hc : c.Valid)
    {m : Model Sym} (hm : m.WellFormed c.P) (b : β) (hg : good b) (st : Nat)
    (hx : Ans.Inv c (abs b st)) {s : Sym} {cp : Nat × Nat} (henc : m.enc s = some cp)
    (b' : β) (st' : Nat) (hok : encodeOn B c m s b st = .ok (b', st')) :
    good b' ∧ Ans.Inv c (abs b' st') ∧
    ∃ b'', decodeOn B c m b' st' = .ok (s, b'', st) ∧ good b'' ∧ abs b'' st = abs b st := by
  -- the abstract coder with the bound removed
  have hx0 : Ans.Inv c { abs b st with cap := none } := hx
  obtain ⟨y0, he0, hy0, _, hd0⟩ := CV.Ans.C01.decode_encode hc hm hx0 rfl henc
  -- the bounded abstract encode succeeded with `abs b' st'`
  have he : Ans.encode c m s (abs b st) = .ok (abs b' st') := by
    rw [encodeOn_sim h c m s b hg st, hok]; rfl
  have hg' : good b' := by
    unfold encodeOn at hok
    rw [henc] at hok
    exact encodeCPOn_good h c b hg st cp.1 cp.2 b' st' hok
  -- hence it is the unbounded one
  have he2 : Ans.encodeCP c (abs b st) cp.1 cp.2 = .ok (abs b' st') := by
    unfold Ans.encode at he; rw [henc] at he; exact he
  obtain ⟨he', hcap⟩ := encodeCP_ok_uncap c _ _ _ _ he2
  have he0' : Ans.encodeCP c { abs b st with cap := none } cp.1 cp.2 = .ok y0 := by
    unfold Ans.encode at he0; rw [henc] at he0; exact he0
  have hy : y0 = { abs b' st' with cap := none } := by
    rw [he0'] at he'; exact Except.ok.inj he'
  subst hy
  have hdec : Ans.decode c m (abs b' st') = .ok (s, abs b st) := by
    have this' : Ans.decode c m ⟨(abs b' st').bulk, (abs b' st').state, (abs b st).cap⟩ =
        .ok (s, ⟨(abs b st).bulk, (abs b st).state, (abs b st).cap⟩) :=
      decode_recap c m { abs b' st' with cap := none } (abs b st).cap s
        { abs b st with cap := none } hd0
    have e1 : (⟨(abs b' st').bulk, (abs b' st').state, (abs b st).cap⟩ : Ans.Coder) = abs b' st' := by
      rw [← hcap]
    have e2 : (⟨(abs b st).bulk, (abs b st).state, (abs b st).cap⟩ : Ans.Coder) = abs b st := rfl
    rw [e1, e2] at this'
    exact this'
  rw [decodeOn_sim h c m b' hg' st'] at hdec
  cases hd : decodeOn B c m b' st' with
  | error f => rw [hd] at hdec; cases hdec
  | ok r =>
    obtain ⟨s1, b'', st''⟩ := r
    rw [hd] at hdec
    have hinj := Except.ok.inj hdec
    have hs : s1 = s := (Prod.mk.inj hinj).1
    have habs : abs b'' st'' = abs b st := (Prod.mk.inj hinj).2
    have hst : st'' = st := by
      have := congrArg Ans.Coder.state habs
      rwa [h.state_eq, h.state_eq] at this
    subst hs; subst hst
    exact ⟨hg', hy0, b'', rfl, decodeOn_good h c m b' hg' st' s1 b'' st'' hd, habs⟩

/-- **C01/C09 transported**: with room for one more word, `encode_symbol` of an in-support
    symbol succeeds on any simulated backend -/
theorem sim_encode_succeeds {Sym : Type} (h : Sim B good abs) {c : Cfg} (hc : c.Valid)
    {m : Model Sym} (hm : m.WellFormed c.P) (b : β) (hg : good b) (st : Nat)
    (hx : Ans.Inv c (abs b st)) {s : Sym} {cp : Nat × Nat} (henc : m.enc s = some cp)
    (hroom : Ans.canWrite (abs b st) = true) :
    ∃ b' st', encodeOn B c m s b st = .ok (b', st') := by
  have hx0 : Ans.Inv c { abs b st with cap := none } := hx
  obtain ⟨y0, he0, _, _, _⟩ := CV.Ans.C01.decode_encode hc hm hx0 rfl henc
  have he0' : Ans.encodeCP c { abs b st with cap := none } cp.1 cp.2 = .ok y0 := by
    unfold Ans.encode at he0; rw [henc] at he0; exact he0
  have he := encodeCP_ok_recap c _ _ _ _ hroom he0'
  have hs : Ans.encode c m s (abs b st) = .ok { y0 with cap := (abs b st).cap } := by
    unfold Ans.encode; rw [henc]; exact he
  rw [encodeOn_sim h c m s b hg st] at hs
  cases hr : encodeOn B c m s b st with
  | ok r => exact ⟨r.1, r.2, rfl⟩
  | error e => rw [hr] at hs; cases hs

/-- a refused encode (`backendFull`) happens only when the abstract coder cannot write -/
theorem sim_full_only_when_full (h : Sim B good abs) (c : Cfg) (b : β) (hg : good b)
    (st cum p : Nat) (he : encodeCPOn B c b st cum p = .error .backendFull) :
    Ans.canWrite (abs b st) = false := by
  have hs := encodeCPOn_sim h c b hg st cum p
  rw [he] at hs
  simp only [liftEnc] at hs
  unfold Ans.encodeCP at hs
  cases hsr : shr "ans.enc.hi" c.S (abs b st).state (c.S - c.P) with
  | error f => simp [hsr] at hs
  | ok hi =>
    simp only [hsr] at hs
    cases hcw : Ans.canWrite (abs b st) with
    | false => rfl
    | true =>
      exfalso
      by_cases hflush : hi ≥ p
      · simp only [hflush, if_true, hcw] at hs
        repeat' split at hs
        all_goals cases hs
      · simp only [hflush, if_false] at hs
        repeat' split at hs
        all_goals cases hs

end CV.Backend.AnsAbs
