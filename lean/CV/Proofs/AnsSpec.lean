import CV.Spec.RansSpec
import CV.Proofs.AnsMisc
/-!
# The Impl model of the ANS coder produces exactly the words of the reference rANS spec
-/
namespace CV.Ans
open CV

theorem bitlen_eq_of_bounds {y k : Nat} (hk : 0 < k) (h1 : 2^(k - 1) ≤ y) (h2 : y < 2^k) :
    bitlen y = k := by
  have hle := bitlen_le_of_lt h2
  have hy : 0 < y := Nat.lt_of_lt_of_le (Nat.two_pow_pos _) h1
  have hlt := lt_two_pow_bitlen y
  have : ¬ bitlen y ≤ k - 1 := by
    intro h
    have := pow_le_pow2 h
    omega
  omega

theorem bitlen_div {x W : Nat} (h : 2^W ≤ x) : bitlen (x / 2^W) = bitlen x - W := by
  have hx : 0 < x := Nat.lt_of_lt_of_le (Nat.two_pow_pos _) h
  have hb1 := two_pow_bitlen_le hx
  have hb2 := lt_two_pow_bitlen x
  -- bitlen x > W
  have hbW : W < bitlen x := by
    rcases Nat.lt_or_ge W (bitlen x) with h' | h'
    · exact h'
    · have := pow_le_pow2 h'; omega
  apply bitlen_eq_of_bounds (by omega)
  · rw [Nat.le_div_iff_mul_le (Nat.two_pow_pos _), ← Nat.pow_add]
    have : bitlen x - W - 1 + W = bitlen x - 1 := by omega
    rw [this]; exact hb1
  · apply Nat.div_lt_of_lt_mul
    rw [← Nat.pow_add]
    have : W + (bitlen x - W) = bitlen x := by omega
    rw [this]; exact hb2

theorem nchunks_div {W x : Nat} (hW : 0 < W) (hx : 0 < x) :
    nchunks W (x / 2^W) = nchunks W x - 1 := by
  rcases Nat.lt_or_ge x (2^W) with h | h
  · -- single chunk
    rw [Nat.div_eq_of_lt h, nchunks_zero _ hW]
    obtain ⟨hn, hlo, _⟩ := nchunks_bounds hW hx
    have hb := bitlen_le_of_lt h
    have : nchunks W x - 1 < 1 := by
      apply Nat.lt_of_mul_lt_mul_right (a := W)
      omega
    omega
  · unfold nchunks
    rw [bitlen_div h]
    have hx' : 0 < x := hx
    have hbW : W ≤ bitlen x := by
      rcases Nat.lt_or_ge (bitlen x) W with h' | h'
      · have h2 := lt_two_pow_bitlen x
        have := pow_le_pow2 (Nat.le_of_lt h')
        omega
      · exact h'
    have e : bitlen x - W + W - 1 = (bitlen x + W - 1) - W * 1 := by omega
    rw [e, Nat.sub_mul_div]

/-- recursive characterisation of `bit_array_to_chunks_truncated(x).rev()` -/
theorem chunksLE_rec {W x : Nat} (hW : 0 < W) (hx : 0 < x) :
    chunksLE W x = (x % 2^W) :: chunksLE W (x / 2^W) := by
  have hn := (nchunks_bounds hW hx).1
  unfold chunksLE
  have e1 : (bitlen x + W - 1) / W = nchunks W x := rfl
  have e2 : (bitlen (x / 2^W) + W - 1) / W = nchunks W (x / 2^W) := rfl
  rw [e1, e2, nchunks_div hW hx]
  obtain ⟨n, hn'⟩ : ∃ n, nchunks W x = n + 1 := ⟨nchunks W x - 1, by omega⟩
  rw [hn', Nat.add_sub_cancel, List.range_succ_eq_map]
  simp only [List.map_cons, Nat.zero_mul, Nat.shiftRight_zero, List.map_map, List.cons.injEq, true_and]
  apply List.map_congr_left
  intro i _
  simp only [Function.comp, shr_eq]
  rw [Nat.div_div_eq_div_mul, ← Nat.pow_add]
  congr 3
  rw [Nat.succ_mul]; omega

theorem digits_eq_chunksLE {W : Nat} (hW : 0 < W) :
    ∀ (fuel x : Nat), bitlen x ≤ fuel → RansSpec.digits W fuel x = chunksLE W x := by
  intro fuel
  induction fuel with
  | zero =>
    intro x hb
    have : x = 0 := by
      rcases Nat.eq_zero_or_pos x with h | h
      · exact h
      · have := bitlen_pos h; omega
    subst this
    simp [RansSpec.digits, chunksLE, bitlen_zero]
    omega
  | succ fuel ih =>
    intro x hb
    rcases Nat.eq_zero_or_pos x with h | h
    · subst h
      simp [RansSpec.digits, chunksLE, bitlen_zero]
      omega
    · have hne : x ≠ 0 := by omega
      simp only [RansSpec.digits, hne, if_false]
      rw [chunksLE_rec hW h]
      congr 1
      apply ih
      rcases Nat.lt_or_ge x (2^W) with h2 | h2
      · rw [Nat.div_eq_of_lt h2, bitlen_zero]; omega
      · rw [bitlen_div h2]; omega

variable {c : Cfg}

/-- the spec state mirrors the coder: emitted words = bulk (oldest first), same state -/
def Mirrors (st : RansSpec.St) (x : Coder) : Prop := st.emitted = x.bulk.reverse ∧ st.x = x.state

/-- the `while` loop of the specification runs at most once on an invariant state,
    which is what the implementation's single `if` relies on -/
theorem renorm_eq (hc : c.Valid) {x : Coder} (hx : Inv c x) {p : Nat} (hp : 0 < p)
    {st : RansSpec.St} (hm : Mirrors st x) (fuel : Nat) :
    Mirrors (RansSpec.renorm c.W c.S c.P p (fuel + 2) st) (afterFlush c x p) := by
  obtain ⟨e1, e2, e3, e4, l1, l2, l3⟩ := pows hc
  obtain ⟨hm1, hm2⟩ := hm
  unfold afterFlush flushCond
  simp only [RansSpec.renorm]
  rw [hm2]
  by_cases hf : p * 2^(c.S - c.P) ≤ x.state
  · simp only [hf, if_true]
    have hlt : x.state / 2^c.W < 2^(c.S - c.W) := by
      apply Nat.div_lt_of_lt_mul; rw [Nat.mul_comm, ← e2]; exact hx.1
    have hstop : ¬ p * 2^(c.S - c.P) ≤ x.state / 2^c.W := by
      have : 2^(c.S - c.P) ≤ p * 2^(c.S - c.P) := Nat.le_mul_of_pos_left _ hp
      omega
    simp only [hstop, if_false]
    exact ⟨by simp [hm1], rfl⟩
  · simp only [hf, if_false]
    exact ⟨hm1, hm2⟩

theorem push_mirrors (hc : c.Valid) {x : Coder} (hx : Inv c x) {cum p : Nat} (hp : 0 < p)
    {st : RansSpec.St} (hm : Mirrors st x) :
    Mirrors (RansSpec.push c.W c.S st (c.P, cum, p)) (encArith c x cum p) := by
  obtain ⟨f1, f2, f3, f4, f5, f6⟩ := Valid.facts hc
  have hfuel : c.S / c.W + 1 = (c.S / c.W - 1) + 2 := by
    have : 2 ≤ c.S / c.W := by
      rw [Nat.le_div_iff_mul_le (by omega)]; omega
    omega
  unfold RansSpec.push
  simp only
  rw [hfuel]
  obtain ⟨h1, h2⟩ := renorm_eq hc hx hp hm (c.S / c.W - 1)
  unfold encArith
  exact ⟨h1, by simp only [h2, Nat.add_assoc]⟩

end CV.Ans
