import CV.Model.Quant
/-!
# `fast_quantized_cdf` and the lazy categorical model: integer layer

`h i = toInt (c_i * scale)` is an arbitrary sequence.  From the decidable hypotheses

* `Mono h n` : `h i ≤ h (i+1)` for `i < n`   (TB-F1: float `+`, `* scale`, float→int are monotone),
* `h 0 = 0`                                   (`0.0 * scale` converts to `0`),

and the constructor guards (`FastOk`), the eager cdf and the lazy model are the tiling
`cumF 0 = 0 < cumF 1 < … < cumF n = 2^P` with `cumF i = min (h i) free + i`, no `Fault` is
reachable, the eager and the lazy encoder coincide, and the lazy decoder returns the unique bin
of every quantile for **every** admissible skip count `k0` (TB-F2 is the hypothesis
`cumF (k0 - 1) ≤ q`).  The pre-repair hypothesis `h i ≤ free` is no longer needed: the clamp
(D4) makes it hold by construction.
-/
namespace CV.Quant

/-- `h` is nondecreasing on `0..n` -/
def Mono (h : Nat → Nat) (n : Nat) : Prop := ∀ i, i < n → h i ≤ h (i + 1)

instance (h : Nat → Nat) (n : Nat) : Decidable (Mono h n) := by
  unfold Mono; exact Nat.decidableBallLT n (fun i _ => h i ≤ h (i + 1))

/-- what the static assertions and the length guard of the `…_fast` constructors establish -/
structure FastOk (B P n : Nat) : Prop where
  hP1 : 1 ≤ P
  hPB : P ≤ B
  hn2 : 2 ≤ n
  hn : n + 2 ≤ 2 ^ P

theorem two_pow_le {P B : Nat} (h : P ≤ B) : 2 ^ P ≤ 2 ^ B := Nat.pow_le_pow_right (by omega) h

theorem lenOk_iff {P n : Nat} (hP : P ≤ 64) : lenOk P n = true ↔ 2 ≤ n ∧ n + 2 ≤ 2 ^ P := by
  unfold lenOk wsub wrappingPow2
  have h64 : (2 : Nat) ^ P ≤ 2 ^ 64 := two_pow_le hP
  have hpos : 0 < (2 : Nat) ^ P := Nat.pow_pos (by omega)
  by_cases hP64 : P ≥ 64
  · have : P = 64 := by omega
    subst this
    simp
    omega
  · have hlt : (2 : Nat) ^ P < 2 ^ 64 := Nat.pow_lt_pow_right (by omega) (by omega)
    rw [if_neg hP64]
    have e : (2 ^ P + 2 ^ 64 - 1 % 2 ^ 64) % 2 ^ 64 = 2 ^ P - 1 := by
      have : (1 : Nat) % 2 ^ 64 = 1 := Nat.mod_eq_of_lt (by omega)
      rw [this]
      have : 2 ^ P + 2 ^ 64 - 1 = (2 ^ P - 1) + 2 ^ 64 := by omega
      rw [this, Nat.add_mod_right, Nat.mod_eq_of_lt (by omega)]
    rw [e]
    simp
    omega

theorem FastOk.of_lenOk {B P n : Nat} (hP1 : 1 ≤ P) (hPB : P ≤ B) (hB : B ≤ 64)
    (h : lenOk P n = true) : FastOk B P n := by
  have := (lenOk_iff (by omega)).mp h
  exact ⟨hP1, hPB, this.1, this.2⟩

theorem freeWeight_eq {B P n : Nat} (ok : FastOk B P n) : freeWeight B P n = 2 ^ P - n := by
  have hPB := two_pow_le ok.hPB
  have hn := ok.hn
  have hn2 := ok.hn2
  unfold freeWeight wsub wrappingPow2 narrow
  have hnB : n % 2 ^ B = n := Nat.mod_eq_of_lt (by omega)
  by_cases hP : P ≥ B
  · have : P = B := by have := ok.hPB; omega
    subst this
    rw [if_pos hP]
    simp only [hnB]
    rw [Nat.zero_add, Nat.mod_eq_of_lt (by omega)]
  · rw [if_neg hP]
    simp only [hnB]
    have hlt : (2 : Nat) ^ P < 2 ^ B := Nat.pow_lt_pow_right (by omega) (by omega)
    have : 2 ^ P + 2 ^ B - n = (2 ^ P - n) + 2 ^ B := by omega
    rw [this, Nat.add_mod_right, Nat.mod_eq_of_lt (by omega)]

/-- the true (unwrapped) cumulative of symbol `i` -/
def cumF (P n free : Nat) (h : Nat → Nat) (i : Nat) : Nat :=
  if i < n then min (h i) free + i else 2 ^ P

section
variable {B P n free : Nat} {h : Nat → Nat}

theorem cumF_zero (ok : FastOk B P n) (h0 : h 0 = 0) : cumF P n free h 0 = 0 := by
  have := ok.hn2
  unfold cumF; rw [if_pos (by omega), h0]; simp

theorem cumF_last : cumF P n free h n = 2 ^ P := by
  unfold cumF; rw [if_neg (by omega)]

theorem cumF_lt_total (ok : FastOk B P n) (hf : free = 2 ^ P - n) {i : Nat} (hi : i < n) :
    cumF P n free h i + 1 ≤ 2 ^ P := by
  have := ok.hn
  unfold cumF; rw [if_pos hi]
  have : min (h i) free ≤ free := Nat.min_le_right _ _
  omega

theorem cumF_step (ok : FastOk B P n) (hf : free = 2 ^ P - n) (hm : Mono h n) {i : Nat}
    (hi : i < n) : cumF P n free h i < cumF P n free h (i + 1) := by
  by_cases hi1 : i + 1 < n
  · have := hm i hi
    unfold cumF; rw [if_pos hi, if_pos hi1]
    have : min (h i) free ≤ min (h (i + 1)) free := by
      simp only [Nat.le_min]
      exact ⟨Nat.le_trans (Nat.min_le_left _ _) this, Nat.min_le_right _ _⟩
    omega
  · have hl := cumF_lt_total (h := h) ok hf hi
    have : i + 1 = n := by omega
    rw [this, cumF_last]; omega

theorem cumF_mono (ok : FastOk B P n) (hf : free = 2 ^ P - n) (hm : Mono h n) {i j : Nat}
    (hij : i ≤ j) (hj : j ≤ n) : cumF P n free h i ≤ cumF P n free h j := by
  induction j with
  | zero => have : i = 0 := by omega
            subst this; exact Nat.le_refl _
  | succ j ih =>
    rcases Nat.lt_or_ge i (j + 1) with hlt | hge
    · have := ih (by omega) (by omega)
      have := cumF_step ok hf hm (i := j) (by omega)
      omega
    · have : i = j + 1 := by omega
      subst this; exact Nat.le_refl _

theorem cumF_strict (ok : FastOk B P n) (hf : free = 2 ^ P - n) (hm : Mono h n) {i j : Nat}
    (hij : i < j) (hj : j ≤ n) : cumF P n free h i < cumF P n free h j := by
  have h1 := cumF_step ok hf hm (i := i) (by omega)
  have h2 := cumF_mono ok hf hm (i := i + 1) (j := j) (by omega) hj
  omega

/-- a quantile lies in at most one bin -/
theorem bin_unique (ok : FastOk B P n) (hf : free = 2 ^ P - n) (hm : Mono h n) {s t q : Nat}
    (hs : s < n) (ht : t < n)
    (h1 : cumF P n free h s ≤ q) (h2 : q < cumF P n free h (s + 1))
    (h3 : cumF P n free h t ≤ q) (h4 : q < cumF P n free h (t + 1)) : s = t := by
  rcases Nat.lt_trichotomy s t with hlt | heq | hgt
  · have := cumF_mono ok hf hm (i := s + 1) (j := t) (by omega) (by omega); omega
  · exact heq
  · have := cumF_mono ok hf hm (i := t + 1) (j := s) (by omega) (by omega); omega

theorem narrow_small (ok : FastOk B P n) {i : Nat} (hi : i ≤ n) : narrow B i = i := by
  have := two_pow_le ok.hPB
  have := ok.hn
  unfold narrow; exact Nat.mod_eq_of_lt (by omega)

/-- `min (h i) free + i` never overflows `Probability` -/
theorem cadd_cum (ok : FastOk B P n) (hf : free = 2 ^ P - n) (site : String) {i : Nat}
    (hi : i < n) : cadd site B (min (h i) free) (narrow B i) = .ok (cumF P n free h i) := by
  have hPB := two_pow_le ok.hPB
  have hl := cumF_lt_total (h := h) ok hf hi
  rw [narrow_small ok (by omega)]
  unfold cumF at *; rw [if_pos hi] at *
  unfold cadd; rw [if_pos (by omega)]

/-! ### eager: `fast_quantized_cdf` -/

theorem fastEntry_eq (ok : FastOk B P n) (hf : free = 2 ^ P - n) {i : Nat} (hi : i < n) :
    fastEntry B free h i = .ok (cumF P n free h i) := cadd_cum ok hf _ hi

theorem fastEntries_eq (ok : FastOk B P n) (hf : free = 2 ^ P - n) (k i : Nat) (hik : i + k ≤ n) :
    fastEntries B free h k i = .ok ((List.range' i k).map (cumF P n free h)) := by
  induction k generalizing i with
  | zero => rfl
  | succ k ih =>
    unfold fastEntries
    rw [fastEntry_eq ok hf (by omega), ih (i + 1) (by omega)]
    simp [List.range'_succ]

/-- the cdf table the eager constructor stores -/
def cdfList (B P n free : Nat) (h : Nat → Nat) : List Nat :=
  (List.range' 0 n).map (cumF P n free h) ++ [wrappingPow2 B P]

theorem fastCdf_eq (ok : FastOk B P n) (hf : free = 2 ^ P - n) :
    fastCdf B P n free h = .ok (cdfList B P n free h) := by
  unfold fastCdf; rw [fastEntries_eq ok hf n 0 (by omega)]; rfl

theorem cdfList_length : (cdfList B P n free h).length = n + 1 := by simp [cdfList]

theorem cdfList_get_lt {i : Nat} (hi : i < n) :
    (cdfList B P n free h)[i]? = some (cumF P n free h i) := by
  unfold cdfList
  rw [List.getElem?_append_left (by simpa using hi)]
  simp [hi]

theorem cdfList_get_last : (cdfList B P n free h)[n]? = some (wrappingPow2 B P) := by
  unfold cdfList
  rw [List.getElem?_append_right (by simp)]
  simp

/-- width of bin `s` -/
def widthF (P n free : Nat) (h : Nat → Nat) (s : Nat) : Nat :=
  cumF P n free h (s + 1) - cumF P n free h s

theorem width_pos (ok : FastOk B P n) (hf : free = 2 ^ P - n) (hm : Mono h n) {s : Nat}
    (hs : s < n) : 0 < widthF P n free h s := by
  have := cumF_step ok hf hm hs
  unfold widthF; omega

/-- no bin has probability one (there are at least two non-empty bins) -/
theorem width_lt (ok : FastOk B P n) (hf : free = 2 ^ P - n) (hm : Mono h n) {s : Nat}
    (hs : s < n) : widthF P n free h s < 2 ^ P := by
  have hn2 := ok.hn2
  have hst := cumF_step ok hf hm hs
  have hle : cumF P n free h (s + 1) ≤ 2 ^ P := by
    have := cumF_mono ok hf hm (i := s + 1) (j := n) (by omega) (Nat.le_refl _)
    rw [cumF_last] at this; exact this
  unfold widthF
  rcases Nat.eq_zero_or_pos s with h00 | hpos
  · subst h00
    have h1 := cumF_lt_total (h := h) ok hf (i := 1) (by omega)
    have h2 : cumF P n free h (0 + 1) = cumF P n free h 1 := rfl
    omega
  · have := cumF_strict ok hf hm (i := 0) (j := s) hpos (by omega)
    omega

/-- `right.wrapping_sub(left)` is the true width (inner bins) -/
theorem wsub_inner (ok : FastOk B P n) (hf : free = 2 ^ P - n) (hm : Mono h n) {s : Nat}
    (h1 : s + 1 < n) :
    wsub B (cumF P n free h (s + 1)) (cumF P n free h s) = widthF P n free h s := by
  have hPB := two_pow_le ok.hPB
  have hst := cumF_step ok hf hm (i := s) (by omega)
  have hl := cumF_lt_total (h := h) ok hf h1
  unfold widthF wsub
  rw [Nat.mod_eq_of_lt (a := cumF P n free h s) (by omega)]
  have : cumF P n free h (s + 1) + 2 ^ B - cumF P n free h s
      = (cumF P n free h (s + 1) - cumF P n free h s) + 2 ^ B := by omega
  rw [this, Nat.add_mod_right, Nat.mod_eq_of_lt (by omega)]

/-- … and when the right end is the (possibly wrapped) total `wrapping_pow2(P)` -/
theorem wsub_last (ok : FastOk B P n) (hf : free = 2 ^ P - n) (hm : Mono h n) {s : Nat}
    (h1 : s + 1 = n) :
    wsub B (wrappingPow2 B P) (cumF P n free h s) = widthF P n free h s := by
  have hPB := two_pow_le ok.hPB
  have hn2 := ok.hn2
  have hl := cumF_lt_total (h := h) ok hf (i := s) (by omega)
  have hpos : 0 < cumF P n free h s := by
    have := cumF_strict ok hf hm (i := 0) (j := s) (by omega) (by omega); omega
  unfold widthF
  rw [h1, cumF_last]
  unfold wsub wrappingPow2
  rw [Nat.mod_eq_of_lt (a := cumF P n free h s) (by omega)]
  by_cases hP : P ≥ B
  · have : P = B := by have := ok.hPB; omega
    subst this
    rw [if_pos hP, Nat.zero_add, Nat.mod_eq_of_lt (by omega)]
  · rw [if_neg hP]
    have : 2 ^ P + 2 ^ B - cumF P n free h s = (2 ^ P - cumF P n free h s) + 2 ^ B := by omega
    rw [this, Nat.add_mod_right, Nat.mod_eq_of_lt (by omega)]

/-- the encoder both models implement -/
def encF (P n free : Nat) (h : Nat → Nat) (s : Nat) : Option (Nat × Nat) :=
  if s < n then some (cumF P n free h s, widthF P n free h s) else none

theorem eagerEnc_eq (ok : FastOk B P n) (hf : free = 2 ^ P - n) (hm : Mono h n)
    (s : Nat) : eagerEnc B (cdfList B P n free h) s = .ok (encF P n free h s) := by
  unfold eagerEnc encF
  rw [cdfList_length]
  by_cases hs : s < n
  · have hp := width_pos ok hf hm hs
    rw [if_neg (by omega), if_pos hs, cdfList_get_lt hs]
    by_cases h1 : s + 1 < n
    · rw [cdfList_get_lt h1]
      simp only
      rw [wsub_inner ok hf hm h1, if_neg (by omega)]
    · have e : s + 1 = n := by omega
      rw [e, cdfList_get_last]
      simp only
      rw [wsub_last ok hf hm e, if_neg (by omega)]
  · rw [if_pos (by omega), if_neg hs]

/-! ### lazy model -/

theorem cadd_right (ok : FastOk B P n) (hf : free = 2 ^ P - n) {s : Nat} (h1 : s + 1 < n) :
    cadd "lazy.enc.right" B (min (h (s + 1)) free) (narrow B s)
      = .ok (min (h (s + 1)) free + s) ∧
    cadd "lazy.enc.right1" B (min (h (s + 1)) free + s) 1 = .ok (cumF P n free h (s + 1)) := by
  have hPB := two_pow_le ok.hPB
  have hl := cumF_lt_total (h := h) ok hf h1
  rw [narrow_small ok (by omega)]
  unfold cumF at hl ⊢; rw [if_pos h1] at hl ⊢
  unfold cadd
  rw [if_pos (by omega), if_pos (by omega)]
  exact ⟨rfl, by rw [Nat.add_assoc]⟩

theorem lazyEnc_eq (ok : FastOk B P n) (hf : free = 2 ^ P - n) (hm : Mono h n)
    (s : Nat) : lazyEnc B P n free h s = .ok (encF P n free h s) := by
  unfold lazyEnc encF
  by_cases hs : s < n
  · have hp := width_pos ok hf hm hs
    rw [if_neg (by omega), if_pos hs, cadd_cum ok hf _ hs]
    by_cases h1 : s + 1 < n
    · rw [if_neg (by omega)]
      have hc := cadd_right (h := h) ok hf h1
      rw [hc.1]; simp only; rw [hc.2]; simp only
      rw [wsub_inner ok hf hm h1, if_neg (by omega)]
    · have e : s + 1 = n := by omega
      rw [if_pos (by omega)]
      simp only
      rw [wsub_last ok hf hm e, if_neg (by omega)]
  · rw [if_pos (by omega), if_neg hs]

/-- **C05** eager.enc = lazy.enc: both are `cdf i = min (h i) free + i` over the same `h` -/
theorem eager_enc_eq_lazy_enc (ok : FastOk B P n) (hf : free = 2 ^ P - n) (hm : Mono h n)
    (s : Nat) :
    eagerEnc B (cdfList B P n free h) s = lazyEnc B P n free h s := by
  rw [eagerEnc_eq ok hf hm, lazyEnc_eq ok hf hm]

theorem usizePred_eq {j : Nat} (h1 : 1 ≤ j) : usizePred j = j - 1 := by
  unfold usizePred; rw [if_neg (by omega)]

/-- what the decoder must return for `q`: the bin `s` that contains it -/
def IsBin (P n free : Nat) (h : Nat → Nat) (q s : Nat) : Prop :=
  s < n ∧ cumF P n free h s ≤ q ∧ q < cumF P n free h (s + 1)

theorem lazyDecLoop_spec (ok : FastOk B P n) (hB : B ≤ 64) (hf : free = 2 ^ P - n)
    (hm : Mono h n) {q : Nat} (hq : q < 2 ^ P) :
    ∀ (fuel j : Nat), j + 1 + fuel = n → cumF P n free h j ≤ q →
      ∃ s, IsBin P n free h q s ∧
        lazyDecLoop B P n free h q fuel (j + 1) (cumF P n free h j)
          = .ok (s, cumF P n free h s, widthF P n free h s) := by
  have h64 : (2 : Nat) ^ P ≤ 2 ^ 64 := two_pow_le (by have := ok.hPB; omega)
  have hn := ok.hn
  intro fuel
  induction fuel with
  | zero =>
    intro j hjn hle
    have hjs : j < n := by omega
    have hp := width_pos ok hf hm hjs
    refine ⟨j, ⟨hjs, hle, ?_⟩, ?_⟩
    · have e : j + 1 = n := by omega
      rw [e, cumF_last]; exact hq
    · unfold lazyDecLoop
      simp only
      rw [wsub_last ok hf hm (by omega), if_neg (by omega), usizePred_eq (by omega)]
      rfl
  | succ fuel ih =>
    intro j hjn hle
    have hjs : j < n := by omega
    have hj1 : j + 1 < n := by omega
    have hp := width_pos ok hf hm hjs
    unfold lazyDecLoop
    rw [cadd_cum ok hf _ hj1]
    simp only
    by_cases hgt : cumF P n free h (j + 1) > q
    · rw [if_pos hgt]
      refine ⟨j, ⟨hjs, hle, hgt⟩, ?_⟩
      rw [wsub_inner ok hf hm hj1, if_neg (by omega), usizePred_eq (by omega)]
      rfl
    · rw [if_neg hgt]
      exact ih (j + 1) (by omega) (Nat.le_of_not_gt hgt)

/-- the lazy decoder returns the bin of `q` for every admissible skip count `k0`;
    TB-F2 (soundness of the float-only skip phase) is exactly `cumF (k0 - 1) ≤ q` -/
theorem lazyDec_spec (ok : FastOk B P n) (hB : B ≤ 64) (hf : free = 2 ^ P - n)
    (hm : Mono h n) {q k0 : Nat} (hq : q < 2 ^ P)
    (hk1 : 1 ≤ k0) (hkn : k0 ≤ n) (tbf2 : cumF P n free h (k0 - 1) ≤ q) :
    ∃ s, IsBin P n free h q s ∧
      lazyDec B P n free h k0 q = .ok (s, cumF P n free h s, widthF P n free h s) := by
  have h64 : (2 : Nat) ^ P ≤ 2 ^ 64 := two_pow_le (by have := ok.hPB; omega)
  have hn := ok.hn
  obtain ⟨j, rfl⟩ : ∃ j, k0 = j + 1 := ⟨k0 - 1, by omega⟩
  have e : j + 1 - 1 = j := by omega
  rw [e] at tbf2
  unfold lazyDec
  rw [usizePred_eq hk1, e, cadd_cum ok hf _ (by omega)]
  exact lazyDecLoop_spec ok hB hf hm hq (n - (j + 1)) j (by omega) tbf2

/-- bins are unique, so `lazyDec` is a function of `q` alone: the hint-like `k0` only saves work -/
theorem IsBin.unique (ok : FastOk B P n) (hf : free = 2 ^ P - n) (hm : Mono h n) {q s t : Nat}
    (hs : IsBin P n free h q s) (ht : IsBin P n free h q t) : s = t :=
  bin_unique ok hf hm hs.1 ht.1 hs.2.1 hs.2.2 ht.2.1 ht.2.2

/-- every quantile below `2^P` has a bin -/
theorem IsBin.exists (ok : FastOk B P n) (hB : B ≤ 64) (hf : free = 2 ^ P - n) (hm : Mono h n)
    (h0 : h 0 = 0) {q : Nat} (hq : q < 2 ^ P) : ∃ s, IsBin P n free h q s := by
  have hn2 := ok.hn2
  have := lazyDec_spec ok hB hf hm (k0 := 1) hq (by omega) (by omega)
    (by rw [cumF_zero ok h0]; omega)
  obtain ⟨s, hs, _⟩ := this
  exact ⟨s, hs⟩

end

end CV.Quant
