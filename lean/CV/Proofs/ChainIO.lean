import CV.Proofs.ChainStep
/-!
# Chain coder: constructors and exporters

* `drain_unfold` – the fuel of the exporters' `while` loops is always sufficient (`W ≥ 1`).
* `fillLoop_spec` – the loop of `ChainCoderHeads::new`: what it consumes (`D`), the bounds on
  the resulting head, and that draining the head puts exactly `D` back.
* `fromBinary_spec`, `fromCompressed_spec` – the constructors establish the invariant
  (on *any* word list: C10) and are undone by `into_binary` / `into_compressed`.
* `intoRemainders_spec` – `from_remainders ∘ into_remainders = id`, with or without further
  words below the exported suffix (`remainders_export_import`).
-/
namespace CV.Chain

/-! ## the drain loop -/

theorem shr_lt_self {W r : Nat} (hW : 1 ≤ W) (hr : r ≠ 0) : r >>> W < r := by
  rw [shr_eq]
  apply Nat.div_lt_self (by omega)
  calc 1 < 2^1 := by decide
    _ ≤ 2^W := pow_mono2 hW

theorem drainGo_fuel_irrel {W lim : Nat} (hW : 1 ≤ W) :
    ∀ (f1 f2 r : Nat) (st : List Nat), r ≤ f1 → r ≤ f2 →
      drainGo W lim f1 r st = drainGo W lim f2 r st := by
  intro f1
  induction f1 with
  | zero =>
    intro f2 r st h1 _
    have hr : r = 0 := by omega
    subst hr
    cases f2 <;> simp [drainGo]
  | succ n ih =>
    intro f2 r st h1 h2
    cases f2 with
    | zero =>
      have hr : r = 0 := by omega
      subst hr
      simp [drainGo]
    | succ k =>
      simp only [drainGo]
      by_cases hl : r ≤ lim
      · simp [hl]
      · simp only [hl, if_false]
        have hr : r ≠ 0 := by omega
        have := shr_lt_self hW hr
        exact ih k _ _ (by omega) (by omega)

/-- the loop equation of `while r > lim { stack.write(r as Word); r >>= W }` -/
theorem drain_unfold {W : Nat} (hW : 1 ≤ W) (lim r : Nat) (st : List Nat) :
    drain W lim r st =
      if r ≤ lim then .ok (r, st) else drain W lim (r >>> W) (narrow W r :: st) := by
  unfold drain
  by_cases hl : r ≤ lim
  · cases r <;> simp [drainGo, hl]
  · have hr : r ≠ 0 := by omega
    obtain ⟨k, rfl⟩ : ∃ k, r = k + 1 := ⟨r - 1, by omega⟩
    simp only [drainGo, hl, if_false]
    have := shr_lt_self hW hr
    exact drainGo_fuel_irrel hW _ _ _ _ (by omega) (Nat.le_refl _)

/-- the loop always terminates with `r ≤ lim`, pushing a list `F` of words that does not depend
    on what is already on the stack -/
theorem drain_ok {W : Nat} (hW : 1 ≤ W) (lim : Nat) :
    ∀ (r : Nat), ∃ z F, z ≤ lim ∧ Words W F ∧ (r ≤ lim → F = [] ∧ z = r) ∧
      ∀ st, drain W lim r st = .ok (z, F ++ st) := by
  intro r
  induction r using Nat.strongRecOn with
  | _ r ih =>
    by_cases hl : r ≤ lim
    · refine ⟨r, [], hl, Words.nil, fun _ => ⟨rfl, rfl⟩, ?_⟩
      intro st; rw [drain_unfold hW, if_pos hl]; rfl
    · have hr : r ≠ 0 := by omega
      obtain ⟨z, F, hz, hF, _, hd⟩ := ih (r >>> W) (shr_lt_self hW hr)
      refine ⟨z, F ++ [narrow W r], hz, Words.append hF (Words.cons (narrow_lt _ _) Words.nil),
        fun h => absurd h hl, ?_⟩
      intro st
      rw [drain_unfold hW, if_neg hl, hd]
      simp

/-! ## the loop of `ChainCoderHeads::new` -/

/-- `fillLoop` with threshold `thr ≤ 2^(S-W)`, started from a head `h ≥ 1`. -/
theorem fillLoop_spec {c : Cfg} {thr : Nat} (hW : 1 ≤ c.W)
    (hthr : thr * 2^c.W ≤ 2^c.S) :
    ∀ (src : List Nat) (h : Nat), Words c.W src → 1 ≤ h →
      ∀ h' rest, fillLoop c thr h src = some (h', rest) →
        thr ≤ h' ∧ (h' < thr * 2^c.W ∨ h' = h) ∧ Words c.W rest ∧
        ∃ D, src = D ++ rest ∧
          (∃ v, h' = h * 2^(c.W * D.length) + v ∧ v < 2^(c.W * D.length)) ∧
          ∀ lim st, lim < 2^c.W →
            drain c.W lim h' st = drain c.W lim h (D ++ st) := by
  intro src
  induction src with
  | nil =>
    intro h _ hh h' rest hfl
    simp only [fillLoop] at hfl
    by_cases hlt : h < thr
    · simp [hlt] at hfl
    · simp only [hlt, if_false, Option.some.injEq, Prod.mk.injEq] at hfl
      obtain ⟨rfl, rfl⟩ := hfl
      exact ⟨by omega, Or.inr rfl, Words.nil, [], rfl, ⟨0, by simp, by simp⟩, fun _ _ _ => rfl⟩
  | cons w src ih =>
    intro h hws hh h' rest hfl
    simp only [fillLoop] at hfl
    by_cases hlt : h < thr
    · simp only [hlt, if_true] at hfl
      have hwlt := hws.head
      have hnt : h * 2^c.W < 2^c.S :=
        Nat.lt_of_lt_of_le (Nat.mul_lt_mul_of_pos_right hlt (pow_pos2 _)) hthr
      have e : shlT c.S h c.W ||| w = h * 2^c.W + w := by
        rw [shlT_of_lt hnt, or_eq_add hwlt]
      rw [e] at hfl
      have h1ge : 2^c.W ≤ h * 2^c.W + w := by
        have : 1 * 2^c.W ≤ h * 2^c.W := Nat.mul_le_mul_right _ hh
        rw [Nat.one_mul] at this
        exact Nat.le_trans this (Nat.le_add_right _ _)
      have h1pos : 1 ≤ h * 2^c.W + w := Nat.le_trans (pow_pos2 _) h1ge
      obtain ⟨hge, hub, hwr, D, hD, ⟨v, hv, hvlt⟩, hdr⟩ := ih _ hws.tail h1pos h' rest hfl
      have hup1 : h * 2^c.W + w < thr * 2^c.W := by
        have h3 : (h + 1) * 2^c.W ≤ thr * 2^c.W := Nat.mul_le_mul_right _ hlt
        have h4 : (h + 1) * 2^c.W = h * 2^c.W + 2^c.W := by rw [Nat.add_mul, Nat.one_mul]
        omega
      refine ⟨hge, Or.inl ?_, hwr, w :: D, by rw [hD]; rfl, ?_, ?_⟩
      · rcases hub with hub | hub
        · exact hub
        · rw [hub]; exact hup1
      · -- value of the head: h * 2^(W (|D|+1)) + (w * 2^(W |D|) + v)
        refine ⟨w * 2^(c.W * D.length) + v, ?_, ?_⟩
        · rw [hv, List.length_cons, Nat.mul_succ, Nat.pow_add, Nat.add_mul]
          rw [Nat.mul_assoc, Nat.mul_comm (2^c.W) (2^(c.W * D.length)), ← Nat.mul_assoc]
          omega
        · rw [List.length_cons, Nat.mul_succ, Nat.pow_add]
          have h3 : (w + 1) * 2^(c.W * D.length) ≤ 2^c.W * 2^(c.W * D.length) :=
            Nat.mul_le_mul_right _ hwlt
          have h4 : (w + 1) * 2^(c.W * D.length) = w * 2^(c.W * D.length) + 2^(c.W * D.length) := by
            rw [Nat.add_mul, Nat.one_mul]
          rw [Nat.mul_comm (2^(c.W * D.length))]
          omega
      · intro lim st hlim
        rw [hdr lim st hlim, drain_unfold hW lim (h * 2^c.W + w), if_neg (by omega)]
        simp [shr_eq, narrow, mul_add_div_of_lt hwlt, mul_add_mod_of_lt hwlt]
    · simp only [hlt, if_false, Option.some.injEq, Prod.mk.injEq] at hfl
      obtain ⟨rfl, rfl⟩ := hfl
      exact ⟨by omega, Or.inr rfl, hws, [], rfl, ⟨0, by simp, by simp⟩, fun _ _ _ => rfl⟩

theorem fillLoop_ge {c : Cfg} {thr h : Nat} (hge : ¬ h < thr) (src : List Nat) :
    fillLoop c thr h src = some (h, src) := by
  cases src <;> simp [fillLoop, hge]

/-- the threshold of `ChainCoderHeads::new` -/
theorem thr_eq {c : Cfg} (hv : PrecOk c.W c.S c.P) :
    shlT c.S 1 (c.S - c.W - c.P) = 2^(c.S - c.W - c.P) ∧
    2^(c.S - c.W - c.P) * 2^c.W = 2^(c.S - c.P) ∧ 2^(c.S - c.P) ≤ 2^c.S ∧ 1 ≤ c.W := by
  obtain ⟨hP1, hPW, hS⟩ := hv
  refine ⟨shlT_one (by omega), ?_, pow_mono2 (by omega), by omega⟩
  rw [← Nat.pow_add]; congr 1; omega

/-! ## `from_binary` / `into_binary` -/

theorem bitlen_pow_add {n v : Nat} (hv : v < 2^n) : bitlen (2^n + v) = n + 1 := by
  have hne : 2^n + v ≠ 0 := by have := pow_pos2 n; omega
  unfold bitlen
  rw [if_neg hne]
  congr 1
  rw [Nat.log2_eq_iff hne]
  refine ⟨Nat.le_add_right _ _, ?_⟩
  rw [Nat.pow_succ]; omega

/-- `from_binary` on any word list: either not enough words, or a coder satisfying the
    invariant whose heads `into_binary` turns back into exactly the consumed words `D`
    (whatever has been pushed onto the compressed stack in between). -/
theorem fromBinary_spec {c : Cfg} (hv : PrecOk c.W c.S c.P) {data : List Nat} (hd : Words c.W data)
    {x : Coder} (h : fromBinary c data = some x) :
    Inv c x ∧ x.remainders = [] ∧
    ∃ D, data = D ++ x.compressed ∧
      ∀ K R, intoBinary c { compressed := K, remainders := R, heads := x.heads }
        = .ok (R, D ++ K) := by
  obtain ⟨ethr, hthr, hle, hW⟩ := thr_eq hv
  unfold fromBinary headsNew at h
  simp only [ethr, if_true] at h
  rcases hfl : fillLoop c (2^(c.S - c.W - c.P)) 1 data with _ | ⟨h', rest⟩
  · simp [hfl] at h
  · simp only [hfl, Option.some.injEq] at h
    subst h
    obtain ⟨hge, hub, hwr, D, hD, ⟨v, hval, hvlt⟩, hdr⟩ :=
      fillLoop_spec hW (by rw [hthr]; exact hle) data 1 hd (Nat.le_refl 1) h' rest hfl
    have hWpos : 1 < 2^c.W := by
      calc 1 < 2^1 := by decide
        _ ≤ 2^c.W := pow_mono2 hW
    have hhi : h' < 2^(c.S - c.P) := by
      rcases hub with hub | hub
      · rw [← hthr]; exact hub
      · rw [hub]
        have : 2^c.W ≤ 2^(c.S - c.P) := pow_mono2 (by obtain ⟨_, _, hS⟩ := hv; omega)
        omega
    refine ⟨⟨⟨Nat.le_refl 1, hWpos, hge, hhi⟩, hwr, Words.nil⟩, rfl, D, hD, ?_⟩
    intro K R
    rw [Nat.one_mul] at hval
    have hbl : bitlen h' = c.W * D.length + 1 := by rw [hval]; exact bitlen_pow_add hvlt
    have hdrain : drain c.W 1 h' K = .ok (1, D ++ K) := by
      rw [hdr 1 K hWpos, drain_unfold hW, if_pos (Nat.le_refl 1)]
    simp [intoBinary, hbl, csub, hdrain]

/-! ## `from_compressed` / `into_compressed` -/

theorem fromCompressed_spec {c : Cfg} (hv : PrecOk c.W c.S c.P) {data : List Nat} (hd : Words c.W data)
    {x : Coder} (h : fromCompressed c data = some x) :
    Inv c x ∧ x.remainders = [] ∧
    ∃ D, data = D ++ x.compressed ∧
      ∀ K R, intoCompressed c { compressed := K, remainders := R, heads := x.heads }
        = .ok (R, D ++ K) := by
  obtain ⟨ethr, hthr, hle, hW⟩ := thr_eq hv
  unfold fromCompressed headsNew at h
  cases data with
  | nil => simp at h
  | cons w0 rest0 =>
    by_cases hw0 : w0 = 0
    · simp [hw0] at h
    · simp only [ethr, Bool.false_eq_true, if_false, ne_eq, hw0, not_false_eq_true, if_true] at h
      rcases hfl : fillLoop c (2^(c.S - c.W - c.P)) w0 rest0 with _ | ⟨h', rest⟩
      · simp [hfl] at h
      · simp only [hfl, Option.some.injEq] at h
        subst h
        have hw0lt := hd.head
        obtain ⟨hge, hub, hwr, D, hD, _, hdr⟩ :=
          fillLoop_spec hW (by rw [hthr]; exact hle) rest0 w0 hd.tail (by omega) h' rest hfl
        have hWpos : 1 < 2^c.W := by
          calc 1 < 2^1 := by decide
            _ ≤ 2^c.W := pow_mono2 hW
        have hhi : h' < 2^(c.S - c.P) := by
          rcases hub with hub | hub
          · rw [← hthr]; exact hub
          · rw [hub]
            have : 2^c.W ≤ 2^(c.S - c.P) := pow_mono2 (by obtain ⟨_, _, hS⟩ := hv; omega)
            omega
        refine ⟨⟨⟨Nat.le_refl 1, hWpos, hge, hhi⟩, hwr, Words.nil⟩, rfl, w0 :: D,
          by rw [hD]; rfl, ?_⟩
        intro K R
        have hdrain : drain c.W 0 h' K = .ok (0, w0 :: D ++ K) := by
          rw [hdr 0 K (pow_pos2 _), drain_unfold hW, if_neg (by omega)]
          rw [shr_eq, Nat.div_eq_of_lt hw0lt, narrow_of_lt hw0lt, drain_unfold hW,
            if_pos (Nat.le_refl 0)]
          rfl
        simp [intoCompressed, hdrain]

/-! ## `into_remainders` / `from_remainders` -/

/-- reading back what `drain … 0` pushed, starting from an empty head, is the same as starting
    from the drained value -/
theorem drain_fill {c : Cfg} {thr : Nat} (hW : 1 ≤ c.W) :
    ∀ (r : Nat) (st : List Nat) (z : Nat) (res : List Nat),
      drain c.W 0 r st = .ok (z, res) → r < 2^c.S → r >>> c.W < thr →
      fillLoop c thr 0 res = fillLoop c thr r st := by
  intro r
  induction r using Nat.strongRecOn with
  | _ r ih =>
    intro st z res hdr hrS hsh
    rw [drain_unfold hW] at hdr
    by_cases hr0 : r ≤ 0
    · have : r = 0 := by omega
      subst this
      simp at hdr
      rw [hdr.2]
    · rw [if_neg hr0] at hdr
      have hr : r ≠ 0 := by omega
      have hlt := shr_lt_self hW hr
      have h2 : r >>> c.W >>> c.W < thr := by
        have : r >>> c.W >>> c.W ≤ r >>> c.W := by
          rw [shr_eq (r >>> c.W)]; exact Nat.div_le_self _ _
        omega
      rw [ih _ hlt _ _ _ hdr (by omega) h2]
      simp only [fillLoop, hsh, if_true]
      have hlow : r % 2^c.W < 2^c.W := Nat.mod_lt _ (pow_pos2 _)
      have hnt : r / 2^c.W * 2^c.W < 2^c.S :=
        Nat.lt_of_le_of_lt (Nat.div_mul_le_self _ _) hrS
      have e : shlT c.S (r >>> c.W) c.W ||| narrow c.W r = r := by
        rw [shr_eq, shlT_of_lt hnt, narrow, or_eq_add hlow]; exact div_add_mod' _ _
      rw [e]

/-- the topmost word pushed by `drain … 0` is non-zero -/
theorem drain_top_nonzero {W : Nat} (hW : 1 ≤ W) :
    ∀ (r : Nat) (st : List Nat) (z : Nat) (res : List Nat),
      drain W 0 r st = .ok (z, res) → r ≠ 0 → ∃ f0 rest, res = f0 :: rest ∧ f0 ≠ 0 := by
  intro r
  induction r using Nat.strongRecOn with
  | _ r ih =>
    intro st z res hdr hr
    rw [drain_unfold hW, if_neg (by omega)] at hdr
    by_cases h0 : r >>> W = 0
    · rw [h0, drain_unfold hW, if_pos (Nat.le_refl 0)] at hdr
      simp only [Except.ok.injEq, Prod.mk.injEq] at hdr
      refine ⟨narrow W r, st, hdr.2.symm, ?_⟩
      rw [shr_eq] at h0
      have : r < 2^W := by
        rcases Nat.lt_or_ge r (2^W) with h | h
        · exact h
        · have := (Nat.one_le_div_iff (pow_pos2 W)).mpr h; omega
      rw [narrow_of_lt this]; exact hr
    · exact ih _ (shr_lt_self hW hr) _ _ _ hdr h0

/-- `from_remainders(into_remainders(x)) = x` up to the (emptied) compressed stack, also when
    further words `T` (e.g. the unused prefix) lie below the exported suffix. -/
theorem intoRemainders_spec {c : Cfg} (hv : PrecOk c.W c.S c.P) {x : Coder} (hx : Inv c x) :
    ∃ F, Words c.W F ∧
      intoRemainders c x = .ok (x.compressed, x.heads.compressed :: (F ++ x.remainders)) ∧
      ∀ T, fromRemainders c (x.heads.compressed :: (F ++ x.remainders ++ T))
        = some { compressed := [], remainders := x.remainders ++ T, heads := x.heads } := by
  obtain ⟨ethr, hthr, hle, hW⟩ := thr_eq hv
  obtain ⟨⟨hc1, hc2, hr1, hr2⟩, hwc, hwr⟩ := hx
  obtain ⟨z, F, _, hF, _, hd⟩ := drain_ok hW 0 x.heads.remainders
  refine ⟨F, hF, by simp [intoRemainders, hd], ?_⟩
  intro T
  have hr0 : x.heads.remainders ≠ 0 := by have := pow_pos2 (c.S - c.W - c.P); omega
  have hdT := hd (x.remainders ++ T)
  obtain ⟨f0, rest, hres, hf0⟩ := drain_top_nonzero hW _ _ _ _ hdT hr0
  have hrS : x.heads.remainders < 2^c.S := Nat.lt_of_lt_of_le hr2 hle
  have hsh : x.heads.remainders >>> c.W < 2^(c.S - c.W - c.P) := by
    rw [shr_eq]; apply Nat.div_lt_of_lt_mul; rw [Nat.mul_comm, hthr]; exact hr2
  have hfill := drain_fill (c := c) (thr := 2^(c.S - c.W - c.P)) hW _ _ _ _ hdT hrS hsh
  have hnlt : ¬ x.heads.remainders < 2^(c.S - c.W - c.P) := by omega
  rw [fillLoop_ge hnlt, hres] at hfill
  have hpos : 0 < 2^(c.S - c.W - c.P) := pow_pos2 _
  simp only [fillLoop, hpos, if_true] at hfill
  have e0 : shlT c.S 0 c.W ||| f0 = f0 := by simp [shlT]
  rw [e0] at hfill
  have hc0 : x.heads.compressed ≠ 0 := by omega
  have hassoc : F ++ x.remainders ++ T = f0 :: rest := by rw [List.append_assoc]; exact hres
  simp [fromRemainders, hc0, hassoc, headsNew, ethr, hf0, hfill]

/-! ## how many words the constructors take for the remainders head -/

theorem lt_of_pow_le_lt {a b x : Nat} (h1 : 2^a ≤ x) (h2 : x < 2^b) : a < b := by
  rcases Nat.lt_or_ge a b with h | h
  · exact h
  · have := pow_mono2 h; omega

/-- `from_binary` moves exactly `⌈(S-W-P)/W⌉` words from the top of the data into the
    remainders head -/
theorem fromBinary_consumed {c : Cfg} (hv : PrecOk c.W c.S c.P) {data : List Nat}
    (hd : Words c.W data) {x : Coder} (h : fromBinary c data = some x) :
    ∃ D, data = D ++ x.compressed ∧ c.S - c.W - c.P ≤ c.W * D.length ∧
      (D.length ≠ 0 → c.W * (D.length - 1) < c.S - c.W - c.P) := by
  obtain ⟨ethr, hthr, hle, hW⟩ := thr_eq hv
  unfold fromBinary headsNew at h
  simp only [ethr, if_true] at h
  rcases hfl : fillLoop c (2^(c.S - c.W - c.P)) 1 data with _ | ⟨h', rest⟩
  · simp [hfl] at h
  · simp only [hfl, Option.some.injEq] at h
    subst h
    obtain ⟨hge, hub, _, D, hD, ⟨v, hval, hvlt⟩, _⟩ :=
      fillLoop_spec hW (by rw [hthr]; exact hle) data 1 hd (Nat.le_refl 1) h' rest hfl
    rw [Nat.one_mul] at hval
    refine ⟨D, hD, ?_, ?_⟩
    · have : h' < 2^(c.W * D.length + 1) := by rw [Nat.pow_succ]; omega
      have := lt_of_pow_le_lt hge this
      omega
    · intro hne
      rcases hub with hub | hub
      · rw [← Nat.pow_add] at hub
        have h1 : 2^(c.W * D.length) ≤ h' := by omega
        have := lt_of_pow_le_lt h1 hub
        have e : c.W * D.length = c.W * (D.length - 1) + c.W := by
          obtain ⟨n, hn⟩ : ∃ n, D.length = n + 1 := ⟨D.length - 1, by omega⟩
          rw [hn, Nat.mul_succ]; simp
        omega
      · -- no word was read at all
        exfalso
        have h1 : 2^c.W ≤ 2^(c.W * D.length) := pow_mono2 (by
          have : c.W * 1 ≤ c.W * D.length := Nat.mul_le_mul_left _ (by omega)
          omega)
        have h2 : 2 ≤ 2^c.W := by
          calc 2 = 2^1 := by decide
            _ ≤ 2^c.W := pow_mono2 hW
        omega

/-- `from_compressed` takes at least one and at most `1 + ⌈(S-W-P)/W⌉` words -/
theorem fromCompressed_consumed {c : Cfg} (hv : PrecOk c.W c.S c.P) {data : List Nat}
    (hd : Words c.W data) {x : Coder} (h : fromCompressed c data = some x) :
    ∃ D, data = D ++ x.compressed ∧ 1 ≤ D.length ∧
      (2 ≤ D.length → c.W * (D.length - 2) < c.S - c.W - c.P) := by
  obtain ⟨ethr, hthr, hle, hW⟩ := thr_eq hv
  unfold fromCompressed headsNew at h
  cases data with
  | nil => simp at h
  | cons w0 rest0 =>
    by_cases hw0 : w0 = 0
    · simp [hw0] at h
    · simp only [ethr, Bool.false_eq_true, if_false, ne_eq, hw0, not_false_eq_true, if_true] at h
      rcases hfl : fillLoop c (2^(c.S - c.W - c.P)) w0 rest0 with _ | ⟨h', rest⟩
      · simp [hfl] at h
      · simp only [hfl, Option.some.injEq] at h
        subst h
        obtain ⟨_, hub, _, D, hD, ⟨v, hval, hvlt⟩, _⟩ :=
          fillLoop_spec hW (by rw [hthr]; exact hle) rest0 w0 hd.tail (by omega) h' rest hfl
        refine ⟨w0 :: D, by rw [hD]; rfl, by simp, ?_⟩
        intro h2
        simp only [List.length_cons] at h2 ⊢
        have hw0lt := hd.head
        have h1 : 2^(c.W * D.length) ≤ h' := by
          have : 1 * 2^(c.W * D.length) ≤ w0 * 2^(c.W * D.length) :=
            Nat.mul_le_mul_right _ (by omega)
          omega
        rcases hub with hub | hub
        · rw [← Nat.pow_add] at hub
          have := lt_of_pow_le_lt h1 hub
          have e : c.W * D.length = c.W * (D.length + 1 - 2) + c.W := by
            obtain ⟨n, hn⟩ : ∃ n, D.length = n + 1 := ⟨D.length - 1, by omega⟩
            rw [hn, Nat.mul_succ]; simp
          omega
        · exfalso
          have h3 : 2^c.W ≤ 2^(c.W * D.length) := pow_mono2 (by
            have : c.W * 1 ≤ c.W * D.length := Nat.mul_le_mul_left _ (by omega)
            omega)
          omega

end CV.Chain
