import CV.Proofs.CatArith
/-!
# `accumulate_nonzero_probabilities`: what acceptance means

Pure description of the loop (`sumW`, `lapsOf`, `leftsW`), the arithmetic core
(`lapsOf = 0` ⇒ no entry is zero and nothing wraps), and the characterisation of accepted
inputs for an arbitrary closure `op` and symbol iterator (`accumulate_some`).
-/
namespace CV.Cat
open CV

/-- true (unwrapped) left cumulatives of a probability table -/
def psums (acc : Nat) : List Nat → List Nat
  | [] => []
  | p :: ps => acc :: psums (acc + p) ps

/-- final value of `accum` -/
def sumW (B acc : Nat) : List Nat → Nat
  | [] => acc
  | p :: ps => sumW B (wadd B acc p) ps

/-- increments of `laps_or_zeros` -/
def lapsOf (B acc : Nat) : List Nat → Nat
  | [] => 0
  | p :: ps => (if wadd B acc p ≤ acc then 1 else 0) + lapsOf B (wadd B acc p) ps

/-- the `old_accum` values handed to `operation` -/
def leftsW (B acc : Nat) : List Nat → List Nat
  | [] => []
  | p :: ps => acc :: leftsW B (wadd B acc p) ps

/-- what the input table has to be: at least two entries, none zero, total exactly `2^P` -/
def ValidProbs (P : Nat) (qs : List Nat) : Prop :=
  2 ≤ qs.length ∧ (∀ q ∈ qs, 0 < q) ∧ qs.sum = 2 ^ P

@[simp] theorem psums_length (acc : Nat) (ps : List Nat) : (psums acc ps).length = ps.length := by
  induction ps generalizing acc with
  | nil => rfl
  | cons p ps ih => simp [psums, ih]

@[simp] theorem leftsW_length (B acc : Nat) (ps : List Nat) : (leftsW B acc ps).length = ps.length := by
  induction ps generalizing acc with
  | nil => rfl
  | cons p ps ih => simp [leftsW, ih]

theorem psums_append (acc : Nat) (ps qs : List Nat) :
    psums acc (ps ++ qs) = psums acc ps ++ psums (acc + ps.sum) qs := by
  induction ps generalizing acc with
  | nil => simp [psums]
  | cons p ps ih => simp [psums, ih, Nat.add_assoc]

theorem sumW_append (B acc : Nat) (ps qs : List Nat) :
    sumW B acc (ps ++ qs) = sumW B (sumW B acc ps) qs := by
  induction ps generalizing acc with
  | nil => rfl
  | cons p ps ih => simp [sumW, ih]

theorem lapsOf_append (B acc : Nat) (ps qs : List Nat) :
    lapsOf B acc (ps ++ qs) = lapsOf B acc ps + lapsOf B (sumW B acc ps) qs := by
  induction ps generalizing acc with
  | nil => simp [lapsOf, sumW]
  | cons p ps ih => simp [lapsOf, sumW, ih, Nat.add_assoc]

theorem leftsW_append (B acc : Nat) (ps qs : List Nat) :
    leftsW B acc (ps ++ qs) = leftsW B acc ps ++ leftsW B (sumW B acc ps) qs := by
  induction ps generalizing acc with
  | nil => simp [leftsW, sumW]
  | cons p ps ih => simp [leftsW, sumW, ih]

theorem sumW_lt {B acc : Nat} (h : acc < 2 ^ B) (ps : List Nat) : sumW B acc ps < 2 ^ B := by
  induction ps generalizing acc with
  | nil => exact h
  | cons p ps ih => exact ih wadd_lt

/-- **Arithmetic core.** If the branch-free counter stays at zero, no entry is zero and the
    running sum never wraps: the wrapped quantities are the true ones. -/
theorem lapsOf_zero {B acc : Nat} {ps : List Nat} (hacc : acc < 2 ^ B)
    (hps : ∀ p ∈ ps, p < 2 ^ B) (h : lapsOf B acc ps = 0) :
    (∀ p ∈ ps, 0 < p) ∧ acc + ps.sum < 2 ^ B ∧ sumW B acc ps = acc + ps.sum ∧
      leftsW B acc ps = psums acc ps := by
  induction ps generalizing acc with
  | nil => simp [sumW, leftsW, psums, hacc]
  | cons p ps ih =>
    have hp : p < 2 ^ B := hps p (by simp)
    simp only [lapsOf] at h
    have hw := wadd_eq hacc hp
    have hstep : ¬ (wadd B acc p ≤ acc) := by
      intro hle; rw [if_pos hle] at h; omega
    rw [if_neg hstep] at h
    have hnow : acc + p < 2 ^ B ∧ 0 < p := by
      by_cases hlt : acc + p < 2 ^ B
      · rw [if_pos hlt] at hw; omega
      · rw [if_neg hlt] at hw; omega
    have hweq : wadd B acc p = acc + p := by rw [hw, if_pos hnow.1]
    rw [hweq] at h
    have := ih (acc := acc + p) hnow.1 (fun q hq => hps q (by simp [hq])) (by omega)
    obtain ⟨h1, h2, h3, h4⟩ := this
    refine ⟨?_, ?_, ?_, ?_⟩
    · intro q hq
      rcases List.mem_cons.mp hq with rfl | hq
      · exact hnow.2
      · exact h1 q hq
    · simp only [List.sum_cons]; omega
    · simp only [sumW, List.sum_cons, hweq, h3]; omega
    · simp only [leftsW, psums, hweq, h4]

/-- converse: a table without zeros whose true sum fits never trips the counter -/
theorem lapsOf_zero_of_valid {B acc : Nat} {ps : List Nat}
    (hpos : ∀ p ∈ ps, 0 < p) (hsum : acc + ps.sum < 2 ^ B) :
    lapsOf B acc ps = 0 ∧ sumW B acc ps = acc + ps.sum ∧ leftsW B acc ps = psums acc ps := by
  induction ps generalizing acc with
  | nil => simp [lapsOf, sumW, leftsW, psums]
  | cons p ps ih =>
    simp only [List.sum_cons] at hsum
    have hp0 : 0 < p := hpos p (by simp)
    have hweq : wadd B acc p = acc + p := by
      unfold wadd; exact Nat.mod_eq_of_lt (by omega)
    have := ih (acc := acc + p) (fun q hq => hpos q (by simp [hq])) (by omega)
    obtain ⟨h1, h2, h3⟩ := this
    refine ⟨?_, ?_, ?_⟩
    · simp only [lapsOf, hweq, h1]; rw [if_neg (by omega)]
    · simp only [sumW, hweq, h2, List.sum_cons]; omega
    · simp only [leftsW, psums, hweq, h3]

theorem psums_lt_of_pos {acc : Nat} {ps : List Nat} (hpos : ∀ p ∈ ps, 0 < p) :
    ∀ x ∈ psums acc ps, acc ≤ x ∧ x < acc + ps.sum := by
  induction ps generalizing acc with
  | nil => simp [psums]
  | cons p ps ih =>
    intro x hx
    simp only [psums, List.mem_cons] at hx
    have hp0 : 0 < p := hpos p (by simp)
    simp only [List.sum_cons]
    rcases hx with rfl | hx
    · omega
    · have := ih (acc := acc + p) (fun q hq => hpos q (by simp [hq])) x hx
      omega

theorem psums_pairwise {acc : Nat} {ps : List Nat} (hpos : ∀ p ∈ ps, 0 < p) :
    (psums acc ps).Pairwise (· < ·) := by
  induction ps generalizing acc with
  | nil => simp [psums]
  | cons p ps ih =>
    simp only [psums, List.pairwise_cons]
    have hp0 : 0 < p := hpos p (by simp)
    refine ⟨?_, ih (fun q hq => hpos q (by simp [hq]))⟩
    intro x hx
    have := psums_lt_of_pos (acc := acc + p) (fun q hq => hpos q (by simp [hq])) x hx
    omega

end CV.Cat
