import CV.Proofs.CatArith
/-!
# `accumulate_nonzero_probabilities`: what acceptance means

Pure description of the loop (`sumW`, `lapsOf`, `leftsW`), the arithmetic core
(`lapsOf = 0` ⇒ no entry is zero and nothing wraps), and the characterisation of accepted
inputs for an arbitrary closure `op` and symbol iterator (`accumulate_some`).
-/
namespace CV.Cat
open CV

/-- true (unwrapped) left cumulatives of a probability table -/
def psums (acc : Nat) : List Nat → List Nat
  | [] => []
  | p :: ps => acc :: psums (acc + p) ps

/-- final value of `accum` -/
def sumW (B acc : Nat) : List Nat → Nat
  | [] => acc
  | p :: ps => sumW B (wadd B acc p) ps

/-- increments of `laps_or_zeros` -/
def lapsOf (B acc : Nat) : List Nat → Nat
  | [] => 0
  | p :: ps => (if wadd B acc p ≤ acc then 1 else 0) + lapsOf B (wadd B acc p) ps

/-- the `old_accum` values handed to `operation` -/
def leftsW (B acc : Nat) : List Nat → List Nat
  | [] => []
  | p :: ps => acc :: leftsW B (wadd B acc p) ps

/-- what the input table has to be: at least two entries, none zero, total exactly `2^P` -/
def ValidProbs (P : Nat) (qs : List Nat) : Prop :=
  2 ≤ qs.length ∧ (∀ q ∈ qs, 0 < q) ∧ qs.sum = 2 ^ P

@[simp] theorem psums_length (acc : Nat) (ps : List Nat) : (psums acc ps).length = ps.length := by
  induction ps generalizing acc with
  | nil => rfl
  | cons p ps ih => simp [psums, ih]

@[simp] theorem leftsW_length (B acc : Nat) (ps : List Nat) : (leftsW B acc ps).length = ps.length := by
  induction ps generalizing acc with
  | nil => rfl
  | cons p ps ih => simp [leftsW, ih]

theorem psums_append (acc : Nat) (ps qs : List Nat) :
    psums acc (ps ++ qs) = psums acc ps ++ psums (acc + ps.sum) qs := by
  induction ps generalizing acc with
  | nil => simp [psums]
  | cons p ps ih => simp [psums, ih, Nat.add_assoc]

theorem sumW_append (B acc : Nat) (ps qs : List Nat) :
    sumW B acc (ps ++ qs) = sumW B (sumW B acc ps) qs := by
  induction ps generalizing acc with
  | nil => rfl
  | cons p ps ih => simp [sumW, ih]

theorem lapsOf_append (B acc : Nat) (ps qs : List Nat) :
    lapsOf B acc (ps ++ qs) = lapsOf B acc ps + lapsOf B (sumW B acc ps) qs := by
  induction ps generalizing acc with
  | nil => simp [lapsOf, sumW]
  | cons p ps ih => simp [lapsOf, sumW, ih, Nat.add_assoc]

theorem leftsW_append (B acc : Nat) (ps qs : List Nat) :
    leftsW B acc (ps ++ qs) = leftsW B acc ps ++ leftsW B (sumW B acc ps) qs := by
  induction ps generalizing acc with
  | nil => simp [leftsW, sumW]
  | cons p ps ih => simp [leftsW, sumW, ih]

theorem sumW_lt {B acc : Nat} (h : acc < 2 ^ B) (ps : List Nat) : sumW B acc ps < 2 ^ B := by
  induction ps generalizing acc with
  | nil => exact h
  | cons p ps ih => exact ih wadd_lt

/-- **Arithmetic core.** If the branch-free counter stays at zero, no entry is zero and the
    running sum never wraps: the wrapped quantities are the true ones. -/
theorem lapsOf_zero {B acc : Nat} {ps : List Nat} (hacc : acc < 2 ^ B)
    (hps : ∀ p ∈ ps, p < 2 ^ B) (h : lapsOf B acc ps = 0) :
    (∀ p ∈ ps, 0 < p) ∧ acc + ps.sum < 2 ^ B ∧ sumW B acc ps = acc + ps.sum ∧
      leftsW B acc ps = psums acc ps := by
  induction ps generalizing acc with
  | nil => simp [sumW, leftsW, psums, hacc]
  | cons p ps ih =>
    have hp : p < 2 ^ B := hps p (by simp)
    simp only [lapsOf] at h
    have hw := wadd_eq hacc hp
    have hstep : ¬ (wadd B acc p ≤ acc) := by
      intro hle; rw [if_pos hle] at h; omega
    rw [if_neg hstep] at h
    have hnow : acc + p < 2 ^ B ∧ 0 < p := by
      by_cases hlt : acc + p < 2 ^ B
      · rw [if_pos hlt] at hw; omega
      · rw [if_neg hlt] at hw; omega
    have hweq : wadd B acc p = acc + p := by rw [hw, if_pos hnow.1]
    rw [hweq] at h
    have := ih (acc := acc + p) hnow.1 (fun q hq => hps q (by simp [hq])) (by omega)
    obtain ⟨h1, h2, h3, h4⟩ := this
    refine ⟨?_, ?_, ?_, ?_⟩
    · intro q hq
      rcases List.mem_cons.mp hq with rfl | hq
      · exact hnow.2
      · exact h1 q hq
    · simp only [List.sum_cons]; omega
    · simp only [sumW, List.sum_cons, hweq, h3]; omega
    · simp only [leftsW, psums, hweq, h4]

/-- converse: a table without zeros whose true sum fits never trips the counter -/
theorem lapsOf_zero_of_valid {B acc : Nat} {ps : List Nat}
    (hpos : ∀ p ∈ ps, 0 < p) (hsum : acc + ps.sum < 2 ^ B) :
    lapsOf B acc ps = 0 ∧ sumW B acc ps = acc + ps.sum ∧ leftsW B acc ps = psums acc ps := by
  induction ps generalizing acc with
  | nil => simp [lapsOf, sumW, leftsW, psums]
  | cons p ps ih =>
    simp only [List.sum_cons] at hsum
    have hp0 : 0 < p := hpos p (by simp)
    have hweq : wadd B acc p = acc + p := by
      unfold wadd; exact Nat.mod_eq_of_lt (by omega)
    have := ih (acc := acc + p) (fun q hq => hpos q (by simp [hq])) (by omega)
    obtain ⟨h1, h2, h3⟩ := this
    refine ⟨?_, ?_, ?_⟩
    · simp only [lapsOf, hweq, h1]; rw [if_neg (by omega)]
    · simp only [sumW, hweq, h2, List.sum_cons]; omega
    · simp only [leftsW, psums, hweq, h3]

theorem psums_lt_of_pos {acc : Nat} {ps : List Nat} (hpos : ∀ p ∈ ps, 0 < p) :
    ∀ x ∈ psums acc ps, acc ≤ x ∧ x < acc + ps.sum := by
  induction ps generalizing acc with
  | nil => simp [psums]
  | cons p ps ih =>
    intro x hx
    simp only [psums, List.mem_cons] at hx
    have hp0 : 0 < p := hpos p (by simp)
    simp only [List.sum_cons]
    rcases hx with rfl | hx
    · omega
    · have := ih (acc := acc + p) (fun q hq => hpos q (by simp [hq])) x hx
      omega

theorem psums_pairwise {acc : Nat} {ps : List Nat} (hpos : ∀ p ∈ ps, 0 < p) :
    (psums acc ps).Pairwise (· < ·) := by
  induction ps generalizing acc with
  | nil => simp [psums]
  | cons p ps ih =>
    simp only [psums, List.pairwise_cons]
    have hp0 : 0 < p := hpos p (by simp)
    refine ⟨?_, ih (fun q hq => hpos q (by simp [hq]))⟩
    intro x hx
    have := psums_lt_of_pos (acc := acc + p) (fun q hq => hpos q (by simp [hq])) x hx
    omega

end CV.Cat

/-! ## the loop for an arbitrary closure and symbol iterator -/
namespace CV.Cat
open CV

/-- `n` calls of `symbols.next()` -/
def takeSyms {Sym : Type} : SymIter Sym → Nat → Option (List Sym × SymIter Sym)
  | it, 0 => some ([], it)
  | it, n + 1 =>
    match it.next with
    | none => none
    | some (s, it') =>
      match takeSyms it' n with
      | none => none
      | some (ss, rest) => some (s :: ss, rest)

/-- consecutive calls of `operation(symbol, left_cumulative, probability)` -/
def foldOp {σ Sym : Type} (op : σ → Sym → Nat → Nat → Option σ) :
    σ → List (Sym × Nat × Nat) → Option σ
  | st, [] => some st
  | st, (s, l, p) :: rest =>
    match op st s l p with
    | none => none
    | some st' => foldOp op st' rest

theorem foldOp_append {σ Sym : Type} (op : σ → Sym → Nat → Nat → Option σ) (st : σ)
    (xs ys : List (Sym × Nat × Nat)) :
    foldOp op st (xs ++ ys) = (foldOp op st xs).bind (fun st' => foldOp op st' ys) := by
  induction xs generalizing st with
  | nil => simp [foldOp]
  | cons x xs ih =>
    obtain ⟨s, l, p⟩ := x
    simp only [List.cons_append, foldOp]
    cases op st s l p with
    | none => simp
    | some st' => simp [ih]

theorem takeSyms_succ_inv {Sym : Type} {it rest : SymIter Sym} {n : Nat} {ss : List Sym}
    (h : takeSyms it (n + 1) = some (ss, rest)) :
    ∃ s it' ss', it.next = some (s, it') ∧ takeSyms it' n = some (ss', rest) ∧ ss = s :: ss' := by
  simp only [takeSyms] at h
  cases hn : it.next with
  | none => simp [hn] at h
  | some x =>
    obtain ⟨s, it'⟩ := x
    simp only [hn] at h
    cases ht : takeSyms it' n with
    | none => simp [ht] at h
    | some y =>
      obtain ⟨ss', rest'⟩ := y
      simp only [ht, Option.some.injEq, Prod.mk.injEq] at h
      exact ⟨s, it', ss', rfl, by rw [← h.2]; exact ht, h.1.symm⟩

theorem takeSyms_length {Sym : Type} {it rest : SymIter Sym} {n : Nat} {ss : List Sym}
    (h : takeSyms it n = some (ss, rest)) : ss.length = n := by
  induction n generalizing it ss with
  | zero => simp [takeSyms] at h; simp [h.1.symm]
  | succ n ih =>
    obtain ⟨s, it', ss', _, h2, rfl⟩ := takeSyms_succ_inv h
    simp [ih h2]

theorem takeSyms_succ {Sym : Type} {it rest : SymIter Sym} {n : Nat} {ss : List Sym}
    (h : takeSyms it n = some (ss, rest)) :
    takeSyms it (n + 1) =
      match rest.next with
      | none => none
      | some (s, rest') => some (ss ++ [s], rest') := by
  induction n generalizing it ss with
  | zero =>
    simp [takeSyms] at h
    obtain ⟨rfl, rfl⟩ := h
    simp only [takeSyms]
    cases it.next with
    | none => rfl
    | some x => obtain ⟨s, it'⟩ := x; simp
  | succ n ih =>
    obtain ⟨s, it', ss', h1, h2, rfl⟩ := takeSyms_succ_inv h
    rw [takeSyms, h1]
    simp only
    rw [ih h2]
    cases rest.next with
    | none => rfl
    | some x => obtain ⟨s', r'⟩ := x; simp

/-- what a successful run of the loop did -/
theorem accLoop_some {σ Sym : Type} {B : Nat} {op : σ → Sym → Nat → Nat → Option σ}
    {ps : List Nat} {a a' : Acc σ Sym} (h : accLoop B op ps a = some a') :
    ∃ ss, takeSyms a.syms ps.length = some (ss, a'.syms) ∧
      foldOp op a.st (ss.zip ((leftsW B a.accum ps).zip ps)) = some a'.st ∧
      a'.accum = sumW B a.accum ps ∧ a'.laps = a.laps + lapsOf B a.accum ps ∧
      a'.num = a.num + ps.length := by
  induction ps generalizing a with
  | nil =>
    simp only [accLoop, Option.some.injEq] at h
    subst h
    exact ⟨[], by simp [takeSyms], by simp [foldOp], by simp [sumW], by simp [lapsOf], by simp⟩
  | cons p ps ih =>
    simp only [accLoop] at h
    cases hnext : a.syms.next with
    | none => simp [hnext] at h
    | some x =>
      obtain ⟨s, syms⟩ := x
      simp only [hnext] at h
      cases hop : op a.st s a.accum p with
      | none => simp [hop] at h
      | some st =>
        simp only [hop] at h
        obtain ⟨ss, h1, h2, h3, h4, h5⟩ := ih h
        simp only at h1 h2 h3 h4 h5
        refine ⟨s :: ss, ?_, ?_, ?_, ?_, ?_⟩
        · simp only [List.length_cons, takeSyms, hnext, h1]
        · simp only [leftsW, List.zip_cons_cons, foldOp, hop, h2]
        · simp only [sumW, h3]
        · simp only [lapsOf, h4]; omega
        · simp only [List.length_cons, h5]; omega

/-- inversion of `accumulate` with `infer_last_probability = true` -/
theorem accumulate_infer_inv {σ Sym : Type} {B P : Nat} {op : σ → Sym → Nat → Nat → Option σ}
    {syms rest : SymIter Sym} {probs : List Nat} {st st' : σ}
    (h : accumulate B P op syms probs st true = some (rest, st')) :
    ∃ a s, accLoop B op probs { accum := 0, laps := 0, num := 0, syms := syms, st := st } = some a ∧
      1 ≤ a.num ∧ wsub B a.accum 1 < wsub B (wrappingPow2 B P) 1 ∧ a.laps = 0 ∧
      a.syms.next = some (s, rest) ∧
      op a.st s a.accum (wsub B (wrappingPow2 B P) a.accum) = some st' := by
  unfold accumulate at h
  cases hloop : accLoop B op probs { accum := 0, laps := 0, num := 0, syms := syms, st := st } with
  | none => simp [hloop] at h
  | some a =>
    simp only [hloop, if_true] at h
    by_cases hnum : a.num + 1 < 2
    · simp [hnum] at h
    · rw [if_neg hnum] at h
      by_cases hc : wsub B a.accum 1 ≥ wsub B (wrappingPow2 B P) 1 ∨ a.laps ≠ 0
      · simp [hc] at h
      · rw [if_neg hc] at h
        cases hnext : a.syms.next with
        | none => simp [hnext] at h
        | some x =>
          obtain ⟨s, syms'⟩ := x
          simp only [hnext] at h
          cases hop : op a.st s a.accum (wsub B (wrappingPow2 B P) a.accum) with
          | none => simp [hop] at h
          | some stf =>
            simp only [hop, Option.some.injEq, Prod.mk.injEq] at h
            obtain ⟨rfl, rfl⟩ := h
            refine ⟨a, s, rfl, by omega, ?_, ?_, hnext, hop⟩
            · exact Nat.lt_of_not_ge (fun hh => hc (Or.inl hh))
            · exact Classical.byContradiction (fun hh => hc (Or.inr hh))

/-- inversion of `accumulate` with `infer_last_probability = false` -/
theorem accumulate_noinfer_inv {σ Sym : Type} {B P : Nat} {op : σ → Sym → Nat → Nat → Option σ}
    {syms rest : SymIter Sym} {probs : List Nat} {st st' : σ}
    (h : accumulate B P op syms probs st false = some (rest, st')) :
    ∃ a, accLoop B op probs { accum := 0, laps := 0, num := 0, syms := syms, st := st } = some a ∧
      2 ≤ a.num ∧ a.accum = wrappingPow2 B P ∧ a.laps = (if P = B then 1 else 0) ∧
      rest = a.syms ∧ st' = a.st := by
  unfold accumulate at h
  cases hloop : accLoop B op probs { accum := 0, laps := 0, num := 0, syms := syms, st := st } with
  | none => simp [hloop] at h
  | some a =>
    simp only [hloop, Bool.false_eq_true, if_false, Nat.add_zero] at h
    by_cases hnum : a.num < 2
    · simp [hnum] at h
    · rw [if_neg hnum] at h
      by_cases hc : a.accum ≠ wrappingPow2 B P ∨ a.laps ≠ (if P = B then 1 else 0)
      · simp [hc] at h
      · rw [if_neg hc] at h
        simp only [Option.some.injEq, Prod.mk.injEq] at h
        refine ⟨a, rfl, by omega, ?_, ?_, h.1.symm, h.2.symm⟩
        · exact Classical.byContradiction (fun hh => hc (Or.inl hh))
        · exact Classical.byContradiction (fun hh => hc (Or.inr hh))

theorem mem_le_sum {l : List Nat} {x : Nat} (h : x ∈ l) : x ≤ l.sum := by
  induction l with
  | nil => simp at h
  | cons y l ih =>
    simp only [List.sum_cons]
    rcases List.mem_cons.mp h with rfl | h
    · omega
    · have := ih h; omega

/-- the triples `operation` is called with for a full probability table `qs` -/
def triples {Sym : Type} (ss : List Sym) (qs : List Nat) : List (Sym × Nat × Nat) :=
  ss.zip ((psums 0 qs).zip qs)

theorem accumulate_some_infer {σ Sym : Type} {B P : Nat} {op : σ → Sym → Nat → Nat → Option σ}
    {syms rest : SymIter Sym} {probs : List Nat} {st st' : σ}
    (hP1 : 1 ≤ P) (hP : P ≤ B) (hprobs : ∀ p ∈ probs, p < 2 ^ B)
    (h : accumulate B P op syms probs st true = some (rest, st')) :
    ∃ ss, ValidProbs P (probs ++ [2 ^ P - probs.sum]) ∧
      takeSyms syms (probs.length + 1) = some (ss, rest) ∧
      foldOp op st (triples ss (probs ++ [2 ^ P - probs.sum])) = some st' := by
  have hPB := pow_le_pow_of_le hP
  have h2B := two_pow_pos' B
  have h2P := two_pow_pos' P
  obtain ⟨a, s, hloop, hnum, hc, hlaps, hnext, hop⟩ := accumulate_infer_inv h
  obtain ⟨ss, h1, h2, h3, h4, h5⟩ := accLoop_some hloop
  simp only [Nat.zero_add] at h1 h2 h3 h4 h5
  have hl0 : lapsOf B 0 probs = 0 := by omega
  obtain ⟨hpos, hfit, hsum, hlefts⟩ := lapsOf_zero h2B hprobs hl0
  simp only [Nat.zero_add] at hfit hsum
  have hacc : a.accum = probs.sum := by rw [h3, hsum]
  have hrange : 0 < probs.sum ∧ probs.sum < 2 ^ P := by
    rw [hacc] at hc
    have hone : (1 : Nat) < 2 ^ B := Nat.one_lt_two_pow (by omega)
    have hT1 : wsub B (wrappingPow2 B P) 1 = 2 ^ P - 1 := by
      rw [wsub_eq wrappingPow2_lt hone]
      rcases Nat.lt_or_ge P B with hlt | hge
      · rw [wrappingPow2_of_lt hlt, if_pos (by omega)]
      · have : P = B := by omega
        subst this
        rw [wrappingPow2_self, if_neg (by omega)]; omega
    rw [hT1, wsub_eq hfit hone] at hc
    by_cases h1s : 1 ≤ probs.sum
    · rw [if_pos h1s] at hc; omega
    · rw [if_neg h1s] at hc; omega
  refine ⟨ss ++ [s], ⟨?_, ?_, ?_⟩, ?_, ?_⟩
  · simp only [List.length_append, List.length_singleton]; omega
  · intro q hq
    rcases List.mem_append.mp hq with hq | hq
    · exact hpos q hq
    · simp at hq; omega
  · simp only [List.sum_append, List.sum_singleton]; omega
  · rw [takeSyms_succ h1, hnext]
  · have hlen : ss.length = probs.length := takeSyms_length h1
    unfold triples
    rw [psums_append]
    simp only [psums, Nat.zero_add]
    rw [List.zip_append (by simp), List.zip_append (by simp [hlen])]
    rw [foldOp_append, ← hlefts, h2]
    simp only [Option.bind_some, List.zip_cons_cons, List.zip_nil_right, foldOp]
    rw [hacc, wsub_total hP hrange.1 hrange.2] at hop
    rw [hop]

theorem accumulate_some_noinfer {σ Sym : Type} {B P : Nat} {op : σ → Sym → Nat → Nat → Option σ}
    {syms rest : SymIter Sym} {probs : List Nat} {st st' : σ}
    (hP : P ≤ B) (hprobs : ∀ p ∈ probs, p < 2 ^ B)
    (h : accumulate B P op syms probs st false = some (rest, st')) :
    ∃ ss, ValidProbs P probs ∧
      takeSyms syms probs.length = some (ss, rest) ∧
      foldOp op st (triples ss probs) = some st' := by
  have hPB := pow_le_pow_of_le hP
  have h2B := two_pow_pos' B
  have h2P := two_pow_pos' P
  obtain ⟨a, hloop, hnum, hT, hL, rfl, rfl⟩ := accumulate_noinfer_inv h
  obtain ⟨ss, h1, h2, h3, h4, h5⟩ := accLoop_some hloop
  simp only [Nat.zero_add] at h1 h2 h3 h4 h5
  have hlen : 2 ≤ probs.length := by omega
  rcases List.eq_nil_or_concat probs with hnil | ⟨init, last, hcat⟩
  · subst hnil; simp at hlen
  · rw [List.concat_eq_append] at hcat
    subst hcat
    have hinit : ∀ p ∈ init, p < 2 ^ B := fun p hp => hprobs p (by simp [hp])
    have hlast : last < 2 ^ B := hprobs last (by simp)
    rw [lapsOf_append] at h4
    rw [sumW_append] at h3
    simp only [lapsOf, sumW, Nat.add_zero] at h3 h4
    have hsi : sumW B 0 init < 2 ^ B := sumW_lt h2B init
    have hw := wadd_eq hsi hlast
    have hne : init ≠ [] := by
      intro hh; subst hh; simp at hlen
    have hvalid : lapsOf B 0 init = 0 ∧ 0 < last ∧ sumW B 0 init + last = 2 ^ P := by
      rcases Nat.lt_or_ge P B with hlt | hge
      · rw [if_neg (by omega)] at hL
        rw [wrappingPow2_of_lt hlt] at hT
        have hPlt := pow_lt_pow_of_lt hlt
        by_cases hle : wadd B (sumW B 0 init) last ≤ sumW B 0 init
        · rw [if_pos hle] at h4; omega
        · rw [if_neg hle] at h4
          by_cases hf : sumW B 0 init + last < 2 ^ B
          · rw [if_pos hf] at hw; omega
          · rw [if_neg hf] at hw; omega
      · have : P = B := by omega
        subst this
        rw [if_pos rfl] at hL
        rw [wrappingPow2_self] at hT
        by_cases hle : wadd P (sumW P 0 init) last ≤ sumW P 0 init
        · rw [if_pos hle] at h4
          have hl0 : lapsOf P 0 init = 0 := by omega
          obtain ⟨hp, _, hs, _⟩ := lapsOf_zero h2B hinit hl0
          simp only [Nat.zero_add] at hs
          obtain ⟨x, hx⟩ := List.exists_mem_of_ne_nil init hne
          have hx0 := hp x hx
          have hxs := mem_le_sum hx
          by_cases hf : sumW P 0 init + last < 2 ^ P
          · rw [if_pos hf] at hw; omega
          · rw [if_neg hf] at hw
            refine ⟨hl0, ?_, ?_⟩ <;> omega
        · rw [if_neg hle] at h4; omega
    obtain ⟨hl0, hlast0, htot⟩ := hvalid
    obtain ⟨hpos, hfit, hsum, hlefts⟩ := lapsOf_zero h2B hinit hl0
    simp only [Nat.zero_add] at hfit hsum
    have hposAll : ∀ q ∈ init ++ [last], 0 < q := by
      intro q hq
      rcases List.mem_append.mp hq with hq | hq
      · exact hpos q hq
      · simp at hq; omega
    refine ⟨ss, ⟨hlen, hposAll, ?_⟩, h1, ?_⟩
    · simp only [List.sum_append, List.sum_singleton]; omega
    · unfold triples
      rw [← h2]
      congr 2
      rw [leftsW_append, psums_append, hlefts]
      simp only [leftsW, psums, Nat.zero_add, hsum]

end CV.Cat

namespace CV.Cat
open CV

/-- **Acceptance means validity** (for every closure, every symbol iterator, every
    `1 ≤ P ≤ B`, both values of `infer_last_probability`): if
    `accumulate_nonzero_probabilities` returns `Ok`, then the full table `qs` (the input, plus
    the inferred entry) has at least two entries, no zero entry, and sums to exactly `2^P`
    without wrapping; `operation` was called once per entry with the true left cumulative. -/
theorem accumulate_some {σ Sym : Type} {B P : Nat} {op : σ → Sym → Nat → Nat → Option σ}
    {syms rest : SymIter Sym} {probs : List Nat} {st st' : σ} {infer : Bool}
    (hP1 : 1 ≤ P) (hP : P ≤ B) (hprobs : ∀ p ∈ probs, p < 2 ^ B)
    (h : accumulate B P op syms probs st infer = some (rest, st')) :
    ∃ qs ss, ValidProbs P qs ∧
      qs = (if infer then probs ++ [2 ^ P - probs.sum] else probs) ∧
      takeSyms syms qs.length = some (ss, rest) ∧
      foldOp op st (triples ss qs) = some st' := by
  cases infer with
  | true =>
    obtain ⟨ss, h1, h2, h3⟩ := accumulate_some_infer hP1 hP hprobs h
    exact ⟨_, ss, h1, by simp, by simpa using h2, h3⟩
  | false =>
    obtain ⟨ss, h1, h2, h3⟩ := accumulate_some_noinfer hP hprobs h
    exact ⟨_, ss, h1, by simp, h2, h3⟩

/-- in a valid table every entry is smaller than the total: no symbol has probability one -/
theorem ValidProbs.lt {P : Nat} {qs : List Nat} (h : ValidProbs P qs) : ∀ q ∈ qs, q < 2 ^ P := by
  obtain ⟨hlen, hpos, hsum⟩ := h
  intro q hq
  -- some other entry is positive
  match qs, hlen, hpos, hsum, hq with
  | a :: b :: rest, _, hpos, hsum, hq =>
    have ha := hpos a (by simp)
    have hb := hpos b (by simp)
    simp only [List.sum_cons] at hsum
    simp only [List.mem_cons] at hq
    rcases hq with rfl | rfl | hq
    · omega
    · omega
    · have := mem_le_sum hq; omega

end CV.Cat
