import CV.Proofs.CatNonContiguous
/-!
# Lookup decoder models

`LookupOK P ext tbl`: the table has `2^P` entries and entry `q` is the index of the bin that
contains `q`.  All three loops that build lookup tables (`from_nonzero_fixed_point_
probabilities`, `from_symbol_table`, `From<&ContiguousCategoricalEntropyModel>`) establish
it; from it the unchecked indexing in `quantile_function` is in bounds and returns the
specification.
-/
namespace CV.Cat
open CV

def LookupOK (P : Nat) (ext : List Nat) (tbl : Array Nat) : Prop :=
  tbl.size = 2 ^ P ∧ ∀ q, q < 2 ^ P → tbl[q]? = some (specIdx ext q)

/-- loop invariant: bins `0 .. i-1` have been written -/
def LookupInv (ext : List Nat) (i : Nat) (tbl : Array Nat) : Prop :=
  tbl.size = ext.getD i 0 ∧ ∀ q, q < tbl.size → tbl[q]? = some (specIdx ext q)

theorem LookupInv.zero {P : Nat} {ext : List Nat} (h : ValidExt P ext) : LookupInv ext 0 #[] := by
  refine ⟨by rw [h.2.1]; rfl, ?_⟩
  intro q hq; simp at hq

theorem LookupInv.step {B P : Nat} {ext : List Nat} (h : ValidExt P ext) {i : Nat} {tbl : Array Nat}
    (hinv : LookupInv ext i tbl) (hi : i + 1 < ext.length) (hiB : i < 2 ^ B) :
    LookupInv ext (i + 1) (vecResize tbl (ext.getD (i + 1) 0) (narrow B i)) := by
  obtain ⟨hsz, hval⟩ := hinv
  obtain ⟨b1, b2, _⟩ := h.bin hi
  have hgrow : ¬ (ext.getD (i + 1) 0 ≤ tbl.size) := by omega
  unfold vecResize
  rw [if_neg hgrow]
  refine ⟨by rw [Array.size_append, Array.size_replicate]; omega, ?_⟩
  intro q hq
  rw [Array.getElem?_append]
  by_cases hlt : q < tbl.size
  · rw [if_pos hlt]; exact hval q hlt
  · rw [if_neg hlt, Array.getElem?_replicate]
    simp only [Array.size_append, Array.size_replicate] at hq
    rw [if_pos (by omega)]
    have hin : InBin ext i q := ⟨hi, by omega, by omega⟩
    have hq2 : q < 2 ^ P := by omega
    rw [InBin.unique h.2.2.2 (specIdx_inBin h hq2) hin]
    unfold narrow
    rw [Nat.mod_eq_of_lt hiB]

theorem LookupInv.final {P : Nat} {ext : List Nat} (h : ValidExt P ext) {tbl : Array Nat}
    (hinv : LookupInv ext (ext.length - 1) tbl) : LookupOK P ext tbl := by
  obtain ⟨hsz, hval⟩ := hinv
  rw [h.2.2.1] at hsz
  exact ⟨hsz, fun q hq => hval q (by omega)⟩

/-- number of bins is at most `2^P` -/
theorem ValidExt.index_lt {P : Nat} {ext : List Nat} (h : ValidExt P ext) :
    ∀ i, i < ext.length → i ≤ ext.getD i 0 := by
  intro i
  induction i with
  | zero => intro _; omega
  | succ i ih =>
    intro hi
    have := ih (by omega)
    have := pairwise_getD h.2.2.2 (i := i) (j := i + 1) (by omega) hi
    omega

theorem ValidExt.bins_le {P : Nat} {ext : List Nat} (h : ValidExt P ext) :
    ext.length - 1 ≤ 2 ^ P := by
  have := h.index_lt (ext.length - 1) (by have := h.1; omega)
  rw [h.2.2.1] at this
  exact this

/-- `quantile_function` of both lookup models: in bounds, non-zero, and the specification -/
theorem lookupQuantile_eq {B P : Nat} {tbl : Array Nat} {cs : List Nat}
    (h : ValidCdf B P cs) (hP : P ≤ B) (hok : LookupOK P (unwrap P cs) tbl) {q : Nat}
    (hq : q < 2 ^ P) : lookupQuantile B P tbl cs q = .ok (specDec (unwrap P cs) q) := by
  unfold lookupQuantile
  rw [if_neg (by omega), hok.2 q hq]
  simp only
  have hin := specIdx_inBin h.2 hq
  have hl := h.length_eq
  obtain ⟨l, r, e1, e2, e3, e4, e5⟩ := h.prob hP (i := specIdx (unwrap P cs) q) (by have := hin.1; omega)
  rw [e1, e2]
  simp only
  rw [if_neg (by omega), e4, e3]
  rfl

/-- at `P = B` every quantile of type `Probability` is in range; at `P < B` the model
    panics (a clean `assert!`, not UB) for quantiles `≥ 2^P` -/
theorem lookupQuantile_out_of_range {B P : Nat} {tbl : Array Nat} {cs : List Nat} {q : Nat}
    (hPB : B ≠ P) (hq : ¬ q < 2 ^ P) :
    lookupQuantile B P tbl cs q = .error (.panic "lookup.quantile_function.assert") := by
  unfold lookupQuantile
  rw [if_pos ⟨hPB, hq⟩]

end CV.Cat
