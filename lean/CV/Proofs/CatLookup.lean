import CV.Proofs.CatNonContiguous
/-!
# Lookup decoder models

`LookupOK P ext tbl`: the table has `2^P` entries and entry `q` is the index of the bin that
contains `q`.  All three loops that build lookup tables (`from_nonzero_fixed_point_
probabilities`, `from_symbol_table`, `From<&ContiguousCategoricalEntropyModel>`) establish
it; from it the unchecked indexing in `quantile_function` is in bounds and returns the
specification.
-/
namespace CV.Cat
open CV

def LookupOK (P : Nat) (ext : List Nat) (tbl : Array Nat) : Prop :=
  tbl.size = 2 ^ P ∧ ∀ q, q < 2 ^ P → tbl[q]? = some (specIdx ext q)

/-- loop invariant: bins `0 .. i-1` have been written -/
def LookupInv (ext : List Nat) (i : Nat) (tbl : Array Nat) : Prop :=
  tbl.size = ext.getD i 0 ∧ ∀ q, q < tbl.size → tbl[q]? = some (specIdx ext q)

theorem LookupInv.zero {P : Nat} {ext : List Nat} (h : ValidExt P ext) : LookupInv ext 0 #[] := by
  refine ⟨by rw [h.2.1]; rfl, ?_⟩
  intro q hq; simp at hq

theorem LookupInv.step {B P : Nat} {ext : List Nat} (h : ValidExt P ext) {i : Nat} {tbl : Array Nat}
    (hinv : LookupInv ext i tbl) (hi : i + 1 < ext.length) (hiB : i < 2 ^ B) :
    LookupInv ext (i + 1) (vecResize tbl (ext.getD (i + 1) 0) (narrow B i)) := by
  obtain ⟨hsz, hval⟩ := hinv
  obtain ⟨b1, b2, _⟩ := h.bin hi
  have hgrow : ¬ (ext.getD (i + 1) 0 ≤ tbl.size) := by omega
  unfold vecResize
  rw [if_neg hgrow]
  refine ⟨by rw [Array.size_append, Array.size_replicate]; omega, ?_⟩
  intro q hq
  rw [Array.getElem?_append]
  by_cases hlt : q < tbl.size
  · rw [if_pos hlt]; exact hval q hlt
  · rw [if_neg hlt, Array.getElem?_replicate]
    simp only [Array.size_append, Array.size_replicate] at hq
    rw [if_pos (by omega)]
    have hin : InBin ext i q := ⟨hi, by omega, by omega⟩
    have hq2 : q < 2 ^ P := by omega
    rw [InBin.unique h.2.2.2 (specIdx_inBin h hq2) hin]
    unfold narrow
    rw [Nat.mod_eq_of_lt hiB]

theorem LookupInv.final {P : Nat} {ext : List Nat} (h : ValidExt P ext) {tbl : Array Nat}
    (hinv : LookupInv ext (ext.length - 1) tbl) : LookupOK P ext tbl := by
  obtain ⟨hsz, hval⟩ := hinv
  rw [h.2.2.1] at hsz
  exact ⟨hsz, fun q hq => hval q (by omega)⟩

/-- number of bins is at most `2^P` -/
theorem ValidExt.index_lt {P : Nat} {ext : List Nat} (h : ValidExt P ext) :
    ∀ i, i < ext.length → i ≤ ext.getD i 0 := by
  intro i
  induction i with
  | zero => intro _; omega
  | succ i ih =>
    intro hi
    have := ih (by omega)
    have := pairwise_getD h.2.2.2 (i := i) (j := i + 1) (by omega) hi
    omega

theorem ValidExt.bins_le {P : Nat} {ext : List Nat} (h : ValidExt P ext) :
    ext.length - 1 ≤ 2 ^ P := by
  have := h.index_lt (ext.length - 1) (by have := h.1; omega)
  rw [h.2.2.1] at this
  exact this

/-- `quantile_function` of both lookup models: in bounds, non-zero, and the specification -/
theorem lookupQuantile_eq {B P : Nat} {tbl : Array Nat} {cs : List Nat}
    (h : ValidCdf B P cs) (hP : P ≤ B) (hok : LookupOK P (unwrap P cs) tbl) {q : Nat}
    (hq : q < 2 ^ P) : lookupQuantile B P tbl cs q = .ok (specDec (unwrap P cs) q) := by
  unfold lookupQuantile
  rw [if_neg (by omega), hok.2 q hq]
  simp only
  have hin := specIdx_inBin h.2 hq
  have hl := h.length_eq
  obtain ⟨l, r, e1, e2, e3, e4, e5⟩ := h.prob hP (i := specIdx (unwrap P cs) q) (by have := hin.1; omega)
  rw [e1, e2]
  simp only
  rw [if_neg (by omega), e4, e3]
  rfl

/-- at `P = B` every quantile of type `Probability` is in range; at `P < B` the model
    panics (a clean `assert!`, not UB) for quantiles `≥ 2^P` -/
theorem lookupQuantile_out_of_range {B P : Nat} {tbl : Array Nat} {cs : List Nat} {q : Nat}
    (hPB : B ≠ P) (hq : ¬ q < 2 ^ P) :
    lookupQuantile B P tbl cs q = .error (.panic "lookup.quantile_function.assert") := by
  unfold lookupQuantile
  rw [if_pos ⟨hPB, hq⟩]


theorem dropLast_getElem_eq {ext : List Nat} {j : Nat} (hj : j < ext.dropLast.length) :
    ext.dropLast[j] = ext.getD j 0 := by
  have hj' : j < ext.length := by simp at hj; omega
  rw [List.getElem_dropLast, getD_of_lt hj']

/-- the loop of `From<&ContiguousCategoricalEntropyModel>` -/
theorem fromContigLoop_inv {B P : Nat} {ext : List Nat} (h : ValidExt P ext) (hP : P ≤ B) :
    ∀ (m i : Nat) (tbl : Array Nat), i + m + 2 = ext.length → LookupInv ext i tbl →
      LookupInv ext (ext.length - 2) (Lookup.fromContigLoop B (ext.dropLast.drop (i + 1)) i tbl) := by
  have hbins := h.bins_le
  have hPB := pow_le_pow_of_le hP
  intro m
  induction m with
  | zero =>
    intro i tbl hi hinv
    have : ext.dropLast.drop (i + 1) = [] := by
      apply List.drop_eq_nil_of_le; simp; omega
    rw [this]
    simp only [Lookup.fromContigLoop]
    have : ext.length - 2 = i := by omega
    rw [this]; exact hinv
  | succ m ih =>
    intro i tbl hi hinv
    have hlt : i + 1 < ext.dropLast.length := by simp; omega
    rw [List.drop_eq_getElem_cons hlt]
    simp only [Lookup.fromContigLoop]
    rw [dropLast_getElem_eq hlt]
    exact ih (i + 1) _ (by omega) (hinv.step (B := B) h (by omega) (by omega))

/-- **`to_lookup_decoder_model`**: never panics on a constructed contiguous model, keeps the
    cdf, and builds a correct lookup table -/
theorem Lookup.fromContiguous_ok {B P : Nat} {m : Contiguous} (h : ValidCdf B P m.cdf) (hP : P ≤ B) :
    ∃ tbl, Lookup.fromContiguous B P m = .ok { tbl := tbl, cdf := m.cdf } ∧
      LookupOK P (unwrap P m.cdf) tbl := by
  have h3 := h.three_le
  have hl := h.length_eq
  have hbins := h.2.bins_le
  have hPB := pow_le_pow_of_le hP
  unfold Lookup.fromContiguous csub
  rw [if_pos (by omega)]
  simp only
  rw [if_neg (by omega), if_pos (by omega)]
  simp only
  refine ⟨_, rfl, ?_⟩
  have hinner : (m.cdf.take (m.cdf.length - 1)).drop 1 = (unwrap P m.cdf).dropLast.drop (0 + 1) := by
    rw [← List.dropLast_eq_take]
    simp [unwrap]
  rw [hinner]
  have hinv := fromContigLoop_inv h.2 hP ((unwrap P m.cdf).length - 2) 0 #[] (by omega)
    (LookupInv.zero h.2)
  have hstep := hinv.step (B := B) h.2 (by omega) (by omega)
  have e1 : (unwrap P m.cdf).length - 2 + 1 = (unwrap P m.cdf).length - 1 := by omega
  rw [e1, h.2.2.2.1] at hstep
  have e2 : m.cdf.length - 2 = (unwrap P m.cdf).length - 2 := by omega
  rw [e2]
  have := LookupInv.final h.2 (tbl := vecResize _ (2 ^ P) (narrow B ((unwrap P m.cdf).length - 2)))
    (by rw [← e1]; exact (by
          have := hinv.step (B := B) h.2 (by omega) (by omega)
          rw [e1] at this
          rw [h.2.2.2.1] at this
          rw [e1]
          exact this))
  exact this


/-! ### the loops that push one block per symbol -/

/-- `NonContiguousLookupDecoderModel::from_symbol_table` on the specification's table: the
    `debug_assert_eq!` holds, every block is written where it belongs -/
theorem fromTableLoop_inv {Sym : Type} {B P : Nat} {ext : List Nat} (h : ValidExt P ext)
    (hP : P ≤ B) (lab : Nat → Sym) (dbg : Bool) :
    ∀ (m i : Nat) (cdf : List (Nat × Sym)) (tbl : Array Nat), i + m + 1 = ext.length →
      cdf.length = i → LookupInv ext i tbl →
      ∃ tbl', NcLookup.fromTableLoop B dbg ((specTable lab ext).drop i) cdf tbl =
          .ok (cdf ++ cdfRows lab ext i m, tbl') ∧ LookupInv ext (ext.length - 1) tbl' := by
  have hbins := h.bins_le
  have hPB := pow_le_pow_of_le hP
  intro m
  induction m with
  | zero =>
    intro i cdf tbl hi hc hinv
    have : (specTable lab ext).drop i = [] := by
      apply List.drop_eq_nil_of_le; rw [specTable_length]; omega
    rw [this]
    have e : ext.length - 1 = i := by omega
    refine ⟨tbl, by simp [NcLookup.fromTableLoop, cdfRows], by rw [e]; exact hinv⟩
  | succ m ih =>
    intro i cdf tbl hi hc hinv
    rw [specTable_drop lab ext (by omega)]
    simp only [NcLookup.fromTableLoop]
    obtain ⟨b1, b2, _⟩ := h.bin (s := i) (by omega)
    have hsz : narrow B tbl.size = ext.getD i 0 := by
      unfold narrow; rw [hinv.1]; exact Nat.mod_eq_of_lt (by omega)
    rw [if_neg (by rw [hsz]; simp)]
    have hnew : tbl.size + (ext.getD (i + 1) 0 - ext.getD i 0) = ext.getD (i + 1) 0 := by
      rw [hinv.1]; omega
    rw [hnew, hc, hsz]
    obtain ⟨tbl', e1, e2⟩ := ih (i + 1) (cdf ++ [(ext.getD i 0, lab i)]) _ (by omega)
      (by simp [hc]) (hinv.step (B := B) h (by omega) (by omega))
    refine ⟨tbl', ?_, e2⟩
    rw [e1, cdfRows_succ]
    simp

/-- the closure of `from_symbols_and_nonzero_fixed_point_probabilities` (non-contiguous) -/
theorem foldOp_ncPushOp_inv {Sym : Type} {B P : Nat} {ext : List Nat} (h : ValidExt P ext)
    (hP : P ≤ B) (lab : Nat → Sym) :
    ∀ (m i : Nat) (cdf : List (Nat × Sym)) (tbl : Array Nat), i + m + 1 = ext.length →
      cdf.length = i → LookupInv ext i tbl →
      ∃ tbl', foldOp (NcLookup.pushOp B) (cdf, tbl) ((specTable lab ext).drop i) =
          some (cdf ++ cdfRows lab ext i m, tbl') ∧ LookupInv ext (ext.length - 1) tbl' := by
  have hbins := h.bins_le
  have hPB := pow_le_pow_of_le hP
  intro m
  induction m with
  | zero =>
    intro i cdf tbl hi hc hinv
    have : (specTable lab ext).drop i = [] := by
      apply List.drop_eq_nil_of_le; rw [specTable_length]; omega
    rw [this]
    have e : ext.length - 1 = i := by omega
    refine ⟨tbl, by simp [foldOp, cdfRows], by rw [e]; exact hinv⟩
  | succ m ih =>
    intro i cdf tbl hi hc hinv
    rw [specTable_drop lab ext (by omega)]
    simp only [foldOp, NcLookup.pushOp]
    obtain ⟨b1, b2, _⟩ := h.bin (s := i) (by omega)
    have hsz : narrow B tbl.size = ext.getD i 0 := by
      unfold narrow; rw [hinv.1]; exact Nat.mod_eq_of_lt (by omega)
    have hnew : tbl.size + (ext.getD (i + 1) 0 - ext.getD i 0) = ext.getD (i + 1) 0 := by
      rw [hinv.1]; omega
    rw [hnew, hc, hsz]
    obtain ⟨tbl', e1, e2⟩ := ih (i + 1) (cdf ++ [(ext.getD i 0, lab i)]) _ (by omega)
      (by simp [hc]) (hinv.step (B := B) h (by omega) (by omega))
    refine ⟨tbl', ?_, e2⟩
    rw [e1, cdfRows_succ]
    simp

/-- the closure of `from_nonzero_fixed_point_probabilities` (contiguous lookup) -/
theorem foldOp_pushOp_inv {B P : Nat} {ext : List Nat} (h : ValidExt P ext)
    (hP : P ≤ B) (lab : Nat → Unit) :
    ∀ (m i : Nat) (cdf : List Nat) (tbl : Array Nat), i + m + 1 = ext.length →
      cdf.length = i → LookupInv ext i tbl →
      ∃ tbl', foldOp (Lookup.pushOp B) (cdf, tbl) ((specTable lab ext).drop i) =
          some (cdf ++ (ext.dropLast.drop i), tbl') ∧ LookupInv ext (ext.length - 1) tbl' := by
  have hbins := h.bins_le
  have hPB := pow_le_pow_of_le hP
  intro m
  induction m with
  | zero =>
    intro i cdf tbl hi hc hinv
    have : (specTable lab ext).drop i = [] := by
      apply List.drop_eq_nil_of_le; rw [specTable_length]; omega
    rw [this]
    have : ext.dropLast.drop i = [] := by
      apply List.drop_eq_nil_of_le; simp; omega
    rw [this]
    have e : ext.length - 1 = i := by omega
    refine ⟨tbl, by simp [foldOp], by rw [e]; exact hinv⟩
  | succ m ih =>
    intro i cdf tbl hi hc hinv
    rw [specTable_drop lab ext (by omega)]
    simp only [foldOp, Lookup.pushOp]
    obtain ⟨b1, b2, _⟩ := h.bin (s := i) (by omega)
    have hsz : narrow B tbl.size = ext.getD i 0 := by
      unfold narrow; rw [hinv.1]; exact Nat.mod_eq_of_lt (by omega)
    have hnew : tbl.size + (ext.getD (i + 1) 0 - ext.getD i 0) = ext.getD (i + 1) 0 := by
      rw [hinv.1]; omega
    rw [hnew, hc, hsz]
    obtain ⟨tbl', e1, e2⟩ := ih (i + 1) (cdf ++ [ext.getD i 0]) _ (by omega)
      (by simp [hc]) (hinv.step (B := B) h (by omega) (by omega))
    refine ⟨tbl', ?_, e2⟩
    have hlt : i < ext.dropLast.length := by simp; omega
    rw [e1, List.drop_eq_getElem_cons hlt, dropLast_getElem_eq hlt]
    simp


/-! ### constructors and conversions -/

/-- **C19 for `ContiguousLookupDecoderModel::from_nonzero_fixed_point_probabilities`** -/
theorem Lookup.fromNonzeroFixedPoint_some {B P : Nat} {probs : List Nat} {infer : Bool}
    {m : Lookup} (hP1 : 1 ≤ P) (hP : P ≤ B) (hprobs : ∀ p ∈ probs, p < 2 ^ B)
    (h : Lookup.fromNonzeroFixedPoint B P probs infer = some m) :
    ∃ qs, ValidProbs P qs ∧ qs = (if infer then probs ++ [2 ^ P - probs.sum] else probs) ∧
      m.cdf = wrapCdf B P (extOf qs) ∧ LookupOK P (extOf qs) m.tbl := by
  unfold Lookup.fromNonzeroFixedPoint at h
  cases hacc : accumulate B P (Lookup.pushOp B) (.rep ()) probs (([] : List Nat), (#[] : Array Nat))
      infer with
  | none => simp [hacc] at h
  | some r =>
    obtain ⟨rest, cdf, tbl⟩ := r
    simp only [hacc, Option.some.injEq] at h
    obtain ⟨qs, ss, hv, hqs, hts, hfold⟩ := accumulate_some hP1 hP hprobs hacc
    have hlen := takeSyms_length hts
    have hext := extOf_valid hv
    rw [triples_eq_specTable hlen] at hfold
    obtain ⟨tbl', e1, e2⟩ := foldOp_pushOp_inv hext hP (fun i => ss.getD i default)
      ((extOf qs).length - 1) 0 [] #[] (by have := hext.1; omega) rfl (LookupInv.zero hext)
    simp only [List.drop_zero, List.nil_append] at e1
    rw [e1] at hfold
    simp only [Option.some.injEq, Prod.mk.injEq] at hfold
    refine ⟨qs, hv, hqs, ?_, ?_⟩
    · rw [← h]; simp only [wrapCdf, ← hfold.1]
    · rw [← h]; simp only [← hfold.2]; exact LookupInv.final hext e2

theorem Lookup.dec_eq {B P : Nat} {m : Lookup} (h : ValidCdf B P m.cdf) (hP : P ≤ B)
    (hok : LookupOK P (unwrap P m.cdf) m.tbl) {q : Nat} (hq : q < 2 ^ P) :
    m.dec B P q = .ok (specDec (unwrap P m.cdf) q) := lookupQuantile_eq h hP hok hq

theorem Lookup.table_eq {B P : Nat} {m : Lookup} (h : ValidCdf B P m.cdf) (hP : P ≤ B) :
    m.table B = .ok (specTable id (unwrap P m.cdf)) :=
  Contiguous.table_eq (m := { cdf := m.cdf }) h hP

/-- **C19 for `NonContiguousLookupDecoderModel::from_symbols_and_nonzero_fixed_point_
    probabilities`**: never panics; acceptance implies a valid table and matching counts -/
theorem NcLookup.fromFixed_some {Sym : Type} [Inhabited Sym] {B P : Nat} {syms : List Sym}
    {probs : List Nat} {infer : Bool} (hP1 : 1 ≤ P) (hP : P ≤ B) (hprobs : ∀ p ∈ probs, p < 2 ^ B) :
    (NcLookup.fromSymbolsAndNonzeroFixedPoint B P syms probs infer = .ok none) ∨
    ∃ m qs last, NcLookup.fromSymbolsAndNonzeroFixedPoint B P syms probs infer = .ok (some m) ∧
      ValidProbs P qs ∧ qs = (if infer then probs ++ [2 ^ P - probs.sum] else probs) ∧
      syms.length = qs.length ∧ m.cdf = ncCdf B P syms (extOf qs) last ∧
      LookupOK P (extOf qs) m.tbl := by
  unfold NcLookup.fromSymbolsAndNonzeroFixedPoint
  cases hacc : accumulate B P (NcLookup.pushOp B) (.list syms) probs
      (([] : List (Nat × Sym)), (#[] : Array Nat)) infer with
  | none => left; rfl
  | some r =>
    obtain ⟨rest, cdf, tbl⟩ := r
    simp only
    obtain ⟨qs, ss, hv, hqs, hts, hfold⟩ := accumulate_some hP1 hP hprobs hacc
    obtain ⟨rem, e1, e2, e3⟩ := takeSyms_list hts
    have hext := extOf_valid hv
    have hl3 := hext.1
    rw [triples_eq_specTable e3] at hfold
    obtain ⟨tbl', f1, f2⟩ := foldOp_ncPushOp_inv hext hP (fun i => ss.getD i default)
      ((extOf qs).length - 1) 0 [] #[] (by omega) rfl (LookupInv.zero hext)
    simp only [List.drop_zero, List.nil_append] at f1
    rw [f1] at hfold
    simp only [Option.some.injEq, Prod.mk.injEq] at hfold
    obtain ⟨hc, ht⟩ := hfold
    have hrows : cdf = (extOf qs).dropLast.zip ss := by
      rw [← hc, cdfRows_all]
      have : (extOf qs).length - 1 = ss.length := by rw [extOf_length]; omega
      rw [this, labelsOf_getD_self]
    have hcne : cdf ≠ [] := by
      intro hn
      have : ((extOf qs).dropLast.zip ss).length = 0 := by rw [← hrows, hn]; rfl
      rw [List.length_zip, extOf_dropLast, psums_length, e3, Nat.min_self] at this
      have := hv.1; omega
    cases hl : cdf.getLast? with
    | none => exact absurd (List.getLast?_eq_none_iff.mp hl) hcne
    | some x =>
      obtain ⟨c, last⟩ := x
      simp only
      subst e2
      cases rem with
      | cons x rem => left; simp [SymIter.next]
      | nil =>
        right
        simp only [SymIter.next, List.append_nil] at e1 ⊢
        subst e1
        refine ⟨_, qs, last, rfl, hv, hqs, e3, ?_, ?_⟩
        · simp only [ncCdf, hrows]
        · simp only [← ht]; exact LookupInv.final hext f2

/-- **`to_generic_lookup_decoder_model` / `to_lookup_decoder_model`** on the specification's
    table: never panics (the `debug_assert` holds), canonical cdf, correct lookup table -/
theorem NcLookup.fromTableWith_specTable {Sym : Type} {B P : Nat} (lab : Nat → Sym) {ext : List Nat}
    (h : ValidExt P ext) (hP : P ≤ B) (dbg : Bool) :
    ∃ tbl last, NcLookup.fromTableWith B P dbg (specTable lab ext) =
      .ok { tbl := tbl, cdf := ncCdf B P (labelsOf lab (ext.length - 1)) ext last } ∧
      LookupOK P ext tbl := by
  have h3 := h.1
  unfold NcLookup.fromTableWith
  obtain ⟨tbl', f1, f2⟩ := fromTableLoop_inv h hP lab dbg (ext.length - 1) 0 [] #[] (by omega) rfl
    (LookupInv.zero h)
  simp only [List.drop_zero, List.nil_append] at f1
  rw [f1, cdfRows_all]
  simp only
  have hok := LookupInv.final h f2
  cases hl : (ext.dropLast.zip (labelsOf lab (ext.length - 1))).getLast? with
  | none =>
    exfalso
    have := List.getLast?_eq_none_iff.mp hl
    have : (ext.dropLast.zip (labelsOf lab (ext.length - 1))).length = 0 := by rw [this]; rfl
    simp [labelsOf] at this
    omega
  | some x =>
    obtain ⟨c, last⟩ := x
    refine ⟨tbl', last, ?_, hok⟩
    simp only [ncCdf]
    rw [if_neg (by rw [hok.1]; simp)]

theorem NcLookup.fromTable_specTable {Sym : Type} {B P : Nat} (lab : Nat → Sym) {ext : List Nat}
    (h : ValidExt P ext) (hP : P ≤ B) :
    ∃ tbl last, NcLookup.fromTable B P (specTable lab ext) =
      .ok { tbl := tbl, cdf := ncCdf B P (labelsOf lab (ext.length - 1)) ext last } ∧
      LookupOK P ext tbl :=
  NcLookup.fromTableWith_specTable lab h hP true

theorem NcLookup.dec_canon {Sym : Type} [DecidableEq Sym] [Inhabited Sym] {B P : Nat}
    {labels : List Sym} {ext : List Nat} {last : Sym} {tbl : Array Nat}
    (h : ValidExt P ext) (hlen : labels.length + 1 = ext.length) (hP : P ≤ B)
    (hok : LookupOK P ext tbl) {q : Nat} (hq : q < 2 ^ P) :
    NcLookup.dec B P { tbl := tbl, cdf := ncCdf B P labels ext last } q =
      .ok ((labelledModel labels ext).dec q) := by
  unfold NcLookup.dec
  have hv := ncCdf_valid (B := B) (last := last) h hlen
  have hu := ncCdf_unwrap (B := B) (last := last) h hlen
  simp only
  rw [lookupQuantile_eq hv hP (by rw [hu]; exact hok) hq, hu]
  simp only [specDec]
  have hin := specIdx_inBin h hq
  have hi : specIdx ext q < labels.length := by have := hin.1; omega
  have hlab := ncCdf_label (B := B) (P := P) (last := last) hlen hi
  have hlt : specIdx ext q < (ncCdf B P labels ext last).length := by
    simp [ncCdf]; omega
  rw [getElem?_of_lt (d := default) hlt]
  simp only [labelledModel, specDec, hlab]

theorem NcLookup.table_canon {Sym : Type} [Inhabited Sym] {B P : Nat}
    {labels : List Sym} {ext : List Nat} {last : Sym} {tbl : Array Nat}
    (h : ValidExt P ext) (hlen : labels.length + 1 = ext.length) (hP : P ≤ B) :
    NcLookup.table B { tbl := tbl, cdf := ncCdf B P labels ext last } =
      .ok (specTable (fun i => labels.getD i default) ext) :=
  NcDec.table_canon h hlen hP

end CV.Cat
