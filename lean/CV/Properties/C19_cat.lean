import CV.Proofs.CatComplete
/-!
# C19 (component `cat`): constructors of the integer entropy models reject invalid input

Everything is about the Impl model of the *repaired* code (D6/D7/D15: at least two symbols;
D8: `infer_last_probability` at `P = B`; D13: symbol/weight counts).  `B = Probability::BITS`,
`P = PRECISION`, for all `1 ≤ P ≤ B`; tables are lists of `Probability` values (`< 2^B`).
`ValidProbs P qs` = at least two entries, none zero, (unwrapped) total exactly `2^P`.

**Distinct symbols.**  `C19_ncenc` / `C19_acceptance_iff` show that the hash-table encoder is
accepted only for pairwise distinct symbols (`Nodup`).  `C19_ncdec`, `C19_nclookup` and the
decoder clause of `C19_acceptance_iff` deliberately do **not** mention `Nodup`: the decoder
constructors accept repeated symbols (their symbol type is only `Clone`).  For such input they
return a valid *decoder* (valid cdf, correct lookup table), but "a model that satisfies C03"
with one interval per symbol is not shown — this is the open known finding (see
`C05_cat.lean`); the harness oracle reports it as such.
-/
namespace CV.Cat
open CV

/-- **Validator, all constructors at once**: whatever closure and symbol iterator a
    constructor passes to `accumulate_nonzero_probabilities`, `Ok` implies that the table
    (plus the inferred entry) is valid — at least two symbols, no zero entry, no entry of
    probability one, total exactly `2^P` without wrapping. -/
theorem C19_validator_accepts_only_valid {σ Sym : Type} {B P : Nat}
    {op : σ → Sym → Nat → Nat → Option σ} {syms rest : SymIter Sym} {probs : List Nat}
    {st st' : σ} {infer : Bool} (hP1 : 1 ≤ P) (hP : P ≤ B) (hprobs : ∀ p ∈ probs, p < 2 ^ B)
    (h : accumulate B P op syms probs st infer = some (rest, st')) :
    let qs := if infer then probs ++ [2 ^ P - probs.sum] else probs
    2 ≤ qs.length ∧ (∀ q ∈ qs, 0 < q ∧ q < 2 ^ P) ∧ qs.sum = 2 ^ P := by
  obtain ⟨qs, ss, hv, hqs, _, _⟩ := accumulate_some hP1 hP hprobs h
  simp only
  rw [← hqs]
  exact ⟨hv.1, fun q hq => ⟨hv.2.1 q hq, hv.lt q hq⟩, hv.2.2⟩

/-- a single symbol carrying the whole mass is never accepted (D6, D7, D15) -/
theorem C19_single_symbol_rejected {σ Sym : Type} {B P : Nat}
    {op : σ → Sym → Nat → Nat → Option σ} {syms : SymIter Sym} {probs : List Nat}
    {st : σ} {infer : Bool} (hP1 : 1 ≤ P) (hP : P ≤ B) (hprobs : ∀ p ∈ probs, p < 2 ^ B)
    (hone : probs.length + (if infer then 1 else 0) < 2) :
    accumulate B P op syms probs st infer = none := by
  cases h : accumulate B P op syms probs st infer with
  | none => rfl
  | some r =>
    obtain ⟨rest, st'⟩ := r
    have := (C19_validator_accepts_only_valid hP1 hP hprobs h).1
    cases infer <;> simp at this hone <;> omega

/-- zero entries, entries `≥ 2^P`, and (without inference) totals other than `2^P` — in
    particular tables that wrap around once too often — are rejected -/
theorem C19_listed_rejections {σ Sym : Type} {B P : Nat}
    {op : σ → Sym → Nat → Nat → Option σ} {syms : SymIter Sym} {probs : List Nat}
    {st : σ} {infer : Bool} (hP1 : 1 ≤ P) (hP : P ≤ B) (hprobs : ∀ p ∈ probs, p < 2 ^ B)
    (hbad : (0 ∈ probs) ∨ (∃ p ∈ probs, 2 ^ P ≤ p) ∨ (infer = false ∧ probs.sum ≠ 2 ^ P) ∨
      (infer = true ∧ 2 ^ P ≤ probs.sum)) :
    accumulate B P op syms probs st infer = none := by
  cases h : accumulate B P op syms probs st infer with
  | none => rfl
  | some r =>
    obtain ⟨rest, st'⟩ := r
    exfalso
    obtain ⟨_, h2, h3⟩ := C19_validator_accepts_only_valid hP1 hP hprobs h
    have hmem : ∀ p ∈ probs, p ∈ (if infer then probs ++ [2 ^ P - probs.sum] else probs) := by
      intro p hp; cases infer <;> simp [hp]
    rcases hbad with h0 | ⟨p, hp, hbig⟩ | ⟨hi, hs⟩ | ⟨hi, hs⟩
    · have := (h2 0 (hmem 0 h0)).1; omega
    · have := (h2 p (hmem p hp)).2; omega
    · subst hi; simp at h3; exact hs h3
    · subst hi
      have := (h2 (2 ^ P - probs.sum) (by simp)).1
      omega

/-- **Contiguous model**: accepted exactly for valid tables; the model is then the cdf of that
    table -/
theorem C19_contiguous_iff {B P : Nat} {probs : List Nat} {m : Contiguous}
    (hP1 : 1 ≤ P) (hP : P ≤ B) (hprobs : ∀ p ∈ probs, p < 2 ^ B) :
    Contiguous.fromNonzeroFixedPoint B P probs false = some m ↔
      ValidProbs P probs ∧ m.cdf = wrapCdf B P (extOf probs) := by
  constructor
  · intro h
    obtain ⟨qs, hv, hqs, hm⟩ := Contiguous.fromNonzeroFixedPoint_some hP1 hP hprobs h
    simp at hqs; subst hqs
    exact ⟨hv, hm⟩
  · intro ⟨hv, hm⟩
    rw [Contiguous.fromNonzeroFixedPoint_of_valid hP hv]
    cases m; simp_all

/-- **`infer_last_probability` works at every precision** (D8), and only for valid tables -/
theorem C19_contiguous_infer_iff {B P : Nat} {init : List Nat} {m : Contiguous}
    (hP1 : 1 ≤ P) (hP : P ≤ B) (hprobs : ∀ p ∈ init, p < 2 ^ B) :
    Contiguous.fromNonzeroFixedPoint B P init true = some m ↔
      ValidProbs P (init ++ [2 ^ P - init.sum]) ∧
        m.cdf = wrapCdf B P (extOf (init ++ [2 ^ P - init.sum])) := by
  constructor
  · intro h
    obtain ⟨qs, hv, hqs, hm⟩ := Contiguous.fromNonzeroFixedPoint_some hP1 hP hprobs h
    simp at hqs; subst hqs
    exact ⟨hv, hm⟩
  · intro ⟨hv, hm⟩
    rw [Contiguous.fromNonzeroFixedPoint_infer_of_valid hP1 hP hv]
    cases m; simp_all

/-- every accepted contiguous model satisfies the representation invariant -/
theorem C19_contiguous_valid {B P : Nat} {probs : List Nat} {infer : Bool} {m : Contiguous}
    (hP1 : 1 ≤ P) (hP : P ≤ B) (hprobs : ∀ p ∈ probs, p < 2 ^ B)
    (h : Contiguous.fromNonzeroFixedPoint B P probs infer = some m) : ValidCdf B P m.cdf :=
  Contiguous.fromNonzeroFixedPoint_valid hP1 hP hprobs h

/-- **Non-contiguous decoder model**: never panics; accepted ⇒ valid table, as many symbols as
    entries, canonical representation -/
theorem C19_ncdec {Sym : Type} {B P : Nat} {syms : List Sym} {probs : List Nat} {infer : Bool}
    (hP1 : 1 ≤ P) (hP : P ≤ B) (hprobs : ∀ p ∈ probs, p < 2 ^ B) :
    (NcDec.fromSymbolsAndNonzeroFixedPoint B P syms probs infer = .ok none) ∨
    ∃ m qs last, NcDec.fromSymbolsAndNonzeroFixedPoint B P syms probs infer = .ok (some m) ∧
      ValidProbs P qs ∧ qs = (if infer then probs ++ [2 ^ P - probs.sum] else probs) ∧
      syms.length = qs.length ∧ m.cdf = ncCdf B P syms (extOf qs) last ∧
      ValidCdf B P (m.cdf.map (·.1)) := by
  rcases NcDec.fromFixed_some (syms := syms) (infer := infer) hP1 hP hprobs with h | ⟨m, qs, last, h1, h2, h3, h4, h5⟩
  · exact Or.inl h
  · refine Or.inr ⟨m, qs, last, h1, h2, h3, h4, h5, ?_⟩
    rw [h5]
    exact ncCdf_valid (extOf_valid h2) (by rw [extOf_length]; omega)

/-- **Hash-table encoder model**: accepted ⇒ valid table, matching counts, distinct symbols -/
theorem C19_ncenc {Sym : Type} [DecidableEq Sym] [Inhabited Sym] {B P : Nat}
    {syms : List Sym} {probs : List Nat} {infer : Bool} {m : NcEnc Sym}
    (hP1 : 1 ≤ P) (hP : P ≤ B) (hprobs : ∀ p ∈ probs, p < 2 ^ B)
    (h : NcEnc.fromSymbolsAndNonzeroFixedPoint B P syms probs infer = some m) :
    ∃ qs, ValidProbs P qs ∧ qs = (if infer then probs ++ [2 ^ P - probs.sum] else probs) ∧
      syms.length = qs.length ∧ syms.Nodup ∧
      m.tbl = specTable (fun i => syms.getD i default) (extOf qs) :=
  NcEnc.fromFixed_some hP1 hP hprobs h

/-- **Contiguous lookup model**: accepted ⇒ valid table, correct lookup table -/
theorem C19_lookup {B P : Nat} {probs : List Nat} {infer : Bool} {m : Lookup}
    (hP1 : 1 ≤ P) (hP : P ≤ B) (hprobs : ∀ p ∈ probs, p < 2 ^ B)
    (h : Lookup.fromNonzeroFixedPoint B P probs infer = some m) :
    ∃ qs, ValidProbs P qs ∧ qs = (if infer then probs ++ [2 ^ P - probs.sum] else probs) ∧
      m.cdf = wrapCdf B P (extOf qs) ∧ ValidCdf B P m.cdf ∧ LookupOK P (unwrap P m.cdf) m.tbl :=
  Lookup.fromFixed_full hP1 hP hprobs h

/-- **Non-contiguous lookup model**: never panics; accepted ⇒ valid, matching counts -/
theorem C19_nclookup {Sym : Type} [Inhabited Sym] {B P : Nat} {syms : List Sym}
    {probs : List Nat} {infer : Bool} (hP1 : 1 ≤ P) (hP : P ≤ B) (hprobs : ∀ p ∈ probs, p < 2 ^ B) :
    (NcLookup.fromSymbolsAndNonzeroFixedPoint B P syms probs infer = .ok none) ∨
    ∃ m qs last, NcLookup.fromSymbolsAndNonzeroFixedPoint B P syms probs infer = .ok (some m) ∧
      ValidProbs P qs ∧ qs = (if infer then probs ++ [2 ^ P - probs.sum] else probs) ∧
      syms.length = qs.length ∧ m.cdf = ncCdf B P syms (extOf qs) last ∧
      LookupOK P (extOf qs) m.tbl :=
  NcLookup.fromFixed_some hP1 hP hprobs

/-- **acceptance criteria, both directions**, for the remaining fixed-point constructors:
    accepted iff the full table (`fullTable` = input, plus the inferred entry) is valid, the
    number of symbols equals the number of entries (D13) and — encoder only — the symbols are
    pairwise distinct.  In particular `infer_last_probability` works at `P = B` for all of
    them (D8). -/
theorem C19_acceptance_iff {Sym : Type} [DecidableEq Sym] [Inhabited Sym] {B P : Nat}
    {syms : List Sym} {probs : List Nat} {infer : Bool}
    (hP1 : 1 ≤ P) (hP : P ≤ B) (hprobs : ∀ p ∈ probs, p < 2 ^ B) :
    ((∃ m, NcEnc.fromSymbolsAndNonzeroFixedPoint B P syms probs infer = some m) ↔
      ValidProbs P (fullTable P probs infer) ∧ syms.length = (fullTable P probs infer).length ∧
        syms.Nodup) ∧
    ((∃ m, NcDec.fromSymbolsAndNonzeroFixedPoint B P syms probs infer = .ok (some m)) ↔
      ValidProbs P (fullTable P probs infer) ∧ syms.length = (fullTable P probs infer).length) ∧
    ((∃ m, Lookup.fromNonzeroFixedPoint B P probs infer = some m) ↔
      ValidProbs P (fullTable P probs infer)) :=
  ⟨NcEnc.fromFixed_iff hP1 hP hprobs, NcDec.fromFixed_iff hP1 hP hprobs,
   Lookup.fromFixed_iff hP1 hP hprobs⟩

/-- mismatched symbol / weight counts in the `…_fast` constructors (D13) never give a model -/
theorem C19_fast_counts {Sym : Type} [DecidableEq Sym] {B P : Nat} {syms : List Sym}
    {cdf : List Nat} (h : syms.length ≠ cdf.length) :
    NcDec.fromSymbolsAndCdf B P syms cdf = .ok none ∧
    (∀ m, NcEnc.fromSymbolsAndCdf B P syms cdf ≠ .ok (some m)) ∧
    (∀ m, NcLookup.fromSymbolsAndCdf B P syms cdf ≠ .ok (some m)) :=
  ⟨NcDec.fromSymbolsAndCdf_mismatch h,
   fun _ hm => h (NcEnc.fromSymbolsAndCdf_mismatch hm),
   fun _ hm => h (NcLookup.fromSymbolsAndCdf_mismatch hm)⟩

/-- **`UniformModel::new`** returns a model exactly for `2 ≤ range ≤ 2^P` — at every precision,
    `P = B` included — and panics (never UB) otherwise -/
theorem C19_uniform {B P range : Nat} (hP1 : 1 ≤ P) (hP : P ≤ B) (hPU : P ≤ U)
    (hr : range < 2 ^ U) :
    (2 ≤ range ∧ range ≤ 2 ^ P →
      Uniform.new B P range = .ok { ppb := 2 ^ P / range, last := range - 1 }) ∧
    (¬ (2 ≤ range ∧ range ≤ 2 ^ P) → ∃ site, Uniform.new B P range = .error (.panic site)) :=
  ⟨fun h => Uniform.new_ok hP1 hP hPU hr h.1 h.2, Uniform.new_panics hP1 hP⟩

/-! non-vacuity: concrete instances (`u8`, `P = B = 8`) -/

example : Contiguous.fromNonzeroFixedPoint 8 8 [100, 100] true = some { cdf := [0, 100, 200, 0] } := by
  decide
example : Contiguous.fromNonzeroFixedPoint 8 8 [100, 100, 56] false = some { cdf := [0, 100, 200, 0] } := by
  decide
/-- the D6 / D7 / D15 inputs -/
example : Contiguous.fromNonzeroFixedPoint 8 8 [0] false = none := by decide
example : Contiguous.fromNonzeroFixedPoint 8 3 [] true = none := by decide
example : Contiguous.fromNonzeroFixedPoint 8 3 [8] false = none := by decide
example : ValidProbs 8 [100, 100, 56] := ⟨by decide, by decide, by decide⟩
example : ValidProbs 8 (fullTable 8 [100, 100] true) := ⟨by decide, by decide, by decide⟩
example : Uniform.new 8 8 10 = .ok { ppb := 25, last := 9 } := by rfl

#print axioms C19_validator_accepts_only_valid
#print axioms C19_single_symbol_rejected
#print axioms C19_listed_rejections
#print axioms C19_contiguous_iff
#print axioms C19_contiguous_infer_iff
#print axioms C19_contiguous_valid
#print axioms C19_ncdec
#print axioms C19_ncenc
#print axioms C19_lookup
#print axioms C19_nclookup
#print axioms C19_acceptance_iff
#print axioms C19_fast_counts
#print axioms C19_uniform

end CV.Cat
