import CV.Proofs.AnsInverse
import CV.Proofs.AnsBinary
/-!
# C04 — ANS decoding is invertible on arbitrary bits (bits-back / surjectivity)

Property theorems only. Everything is about the Impl model `CV.Ans`, for all `Cfg.Valid`
configurations, all coders satisfying `Inv` (in particular every coder produced by
`from_binary` from arbitrary words) and all well-formed models.
-/
namespace CV.Ans.C04
open CV CV.Ans

variable {Sym : Type}

/-- Decoding is total (never faults, never errors) and is undone exactly by encoding the decoded
    symbol with the same model. -/
theorem encode_decode {c : Cfg} (hc : c.Valid) {m : Model Sym} (hm : m.WellFormed c.P)
    {x : Coder} (hx : Inv c x) (hcap : x.cap = none) :
    ∃ s y, decode c m x = .ok (s, y) ∧ Inv c y ∧ y.cap = none ∧ encode c m s y = .ok x := by
  obtain ⟨hd, _, _⟩ := decode_spec hc hm hx
  obtain ⟨hinv, henc, hback⟩ := encArith_decArith hc hm hx
  have hcap' : (decArith c m x).2.cap = none := by
    simp only [decArith]; split
    · split <;> exact hcap
    · exact hcap
  refine ⟨(decArith c m x).1, (decArith c m x).2, hd, hinv, hcap', ?_⟩
  obtain ⟨hp, hsum, hp1, _⟩ := hm.1 _ _ _ henc
  simp only [encode, henc]
  rw [encodeCP_spec hc hinv hcap' ⟨hp, hsum, hp1⟩, hback]

/-! ## Sequences -/

/-- a model together with the precision / probability type it is used at -/
structure MEntry (Sym : Type) where
  P : Nat
  B : Nat
  m : Model Sym

def MEntry.cfg (W S : Nat) (e : MEntry Sym) : Cfg := { W := W, S := S, P := e.P, B := e.B }
def MEntry.OK (W S : Nat) (e : MEntry Sym) : Prop := (e.cfg W S).Valid ∧ e.m.WellFormed e.P

/-- `decode_symbols`: decode one symbol per model, in order -/
def decodeAll (W S : Nat) : Coder → List (MEntry Sym) → M (List Sym × Coder)
  | x, [] => .ok ([], x)
  | x, e :: es =>
    match decode (e.cfg W S) e.m x with
    | .error f => .error f
    | .ok (s, y) =>
      match decodeAll W S y es with
      | .error f => .error f
      | .ok (ss, z) => .ok (s :: ss, z)

/-- encode a list of (model, symbol) pairs, first element first -/
def encodeSeq (W S : Nat) : Coder → List (MEntry Sym × Sym) → Except EncErr Coder
  | x, [] => .ok x
  | x, (e, s) :: l =>
    match encode (e.cfg W S) e.m s x with
    | .error err => .error err
    | .ok y => encodeSeq W S y l

theorem encodeSeq_append (W S : Nat) (x : Coder) (l₁ l₂ : List (MEntry Sym × Sym)) :
    encodeSeq W S x (l₁ ++ l₂) =
      match encodeSeq W S x l₁ with
      | .error err => .error err
      | .ok y => encodeSeq W S y l₂ := by
  induction l₁ generalizing x with
  | nil => rfl
  | cons a l ih =>
    obtain ⟨e, s⟩ := a
    simp only [List.cons_append, encodeSeq]
    cases encode (e.cfg W S) e.m s x with
    | error err => rfl
    | ok y => exact ih y

/-- **Bits back.** Decoding any number of symbols with any well-formed models never fails, and
    encoding the decoded symbols back in reverse order with the same models restores the
    coder exactly. -/
theorem bits_back {W S : Nat} (es : List (MEntry Sym)) (hes : ∀ e ∈ es, e.OK W S)
    (x : Coder) (hx : ∀ c : Cfg, c.W = W → c.S = S → Inv c x) (hcap : x.cap = none) :
    ∃ ss z, decodeAll W S x es = .ok (ss, z) ∧ ss.length = es.length ∧
      (∀ c : Cfg, c.W = W → c.S = S → Inv c z) ∧
      encodeSeq W S z (es.zip ss).reverse = .ok x := by
  induction es generalizing x with
  | nil => exact ⟨[], x, rfl, rfl, hx, rfl⟩
  | cons e es ih =>
    obtain ⟨hv, hm⟩ := hes e List.mem_cons_self
    obtain ⟨s, y, hd, hinv, hcapy, hback⟩ := encode_decode hv hm (hx (e.cfg W S) rfl rfl) hcap
    have hy : ∀ c : Cfg, c.W = W → c.S = S → Inv c y := by
      intro c hW hS
      unfold Inv at hinv ⊢
      simp only [MEntry.cfg] at hinv
      rw [hW, hS]; exact hinv
    obtain ⟨ss, z, h1, h2, h3, h4⟩ := ih (fun e' he' => hes e' (List.mem_cons_of_mem _ he')) y hy hcapy
    refine ⟨s :: ss, z, ?_, by simp [h2], h3, ?_⟩
    · simp only [decodeAll, hd, h1]
    · simp only [List.zip_cons_cons, List.reverse_cons]
      rw [encodeSeq_append, h4]
      simp only [encodeSeq, hback]

/-- **C04, raw binary data.** Load *any* words (zero words included) with `from_binary`, decode
    any number of symbols with any well-formed models, encode them back in reverse: both the
    borrowing and the consuming raw-binary accessor then return the original words, and the
    reported number of valid bits is exactly the size of the data. -/
theorem binary_bits_back {W S : Nat} (hWS : 1 ≤ W ∧ 2 * W ≤ S)
    (ws : List Nat) (hws : ∀ w ∈ ws, w < 2^W)
    (es : List (MEntry Sym)) (hes : ∀ e ∈ es, e.OK W S) :
    let c0 : Cfg := { W := W, S := S, P := 1, B := 1 }
    numValidBits c0 (fromBinary c0 ws) = W * ws.length ∧
    ∃ ss z, decodeAll W S (fromBinary c0 ws) es = .ok (ss, z) ∧
      ∃ x', encodeSeq W S z (es.zip ss).reverse = .ok x' ∧
        getBinary c0 x' = .ok ws ∧ intoBinary c0 x' = .ok ws := by
  intro c0
  have hv : c0.Valid := by unfold Cfg.Valid; simp only [c0]; omega
  obtain ⟨k, v, hst, hvlt, hinv, hcap, hdig, hlen⟩ := fromBinary_spec hv ws hws
  have hx : ∀ c : Cfg, c.W = W → c.S = S → Inv c (fromBinary c0 ws) := by
    intro c hW hS
    unfold Inv at hinv ⊢
    simp only [c0] at hinv
    rw [hW, hS]; exact hinv
  obtain ⟨ss, z, h1, _, _, h4⟩ := bits_back es hes (fromBinary c0 ws) hx hcap
  exact ⟨numValidBits_fromBinary hv ws hws, ss, z, h1, _, h4, binary_roundtrip hv ws hws⟩

/-! ## Non-vacuity -/

/-- data ending in zero words, the case the pre-repair `into_binary` got wrong (D2) -/
example : intoBinary { W := 8, S := 16, P := 1, B := 1 } (fromBinary { W := 8, S := 16, P := 1, B := 1 } [0, 5])
    = .ok [0, 5] := by rfl

end CV.Ans.C04

#print axioms CV.Ans.C04.encode_decode
#print axioms CV.Ans.C04.bits_back
#print axioms CV.Ans.C04.binary_bits_back
#print axioms CV.Ans.C04.encodeSeq_append
