import CV.Proofs.CatModels
/-!
# C05 (component `cat`): all representations of one integer entropy model are the same model

Structure of the argument: every model family *presents* a table `(lab, ext)` — its
`symbol_table` is `specTable lab ext`, its encoder/decoder methods are those of
`labelledModel (labelsOf lab n) ext` (`specModel ext` for the identity labelling) — and the
three generic conversions applied to `specTable lab ext` return models that present the same
table (`C05_generic_conversions`).  Views (`as_view`) share the fields of their owner and are
not distinguished by the Impl model.  All `1 ≤ P ≤ B`.

**Which statements assume pairwise distinct symbols (`Nodup`).**  Only the *encoder* clause of
`C05_generic_conversions` (hypothesis `(labelsOf lab n).Nodup`) and, through it, the encoder
part of `C05_contiguous_generic` (where the labels `0 … n-1` are distinct by construction).
`C05_contiguous_vs_noncontiguous` takes an accepted hash-table encoder as hypothesis, and that
constructor only accepts distinct symbols (`C19_ncenc`).  All decoder-side statements
(`C05_noncontiguous`, `C05_nclookup_vs_search`, the decoder and lookup clauses of
`C05_generic_conversions`) hold for arbitrary label lists, repeated labels included.
**Open known finding (not covered by any theorem here):** the non-contiguous *decoder*
constructors accept a symbol list with repeated entries (the symbol type is only `Clone`), and
`to_generic_encoder_model` of such a decoder keeps one interval per symbol, so it is *not* the
decoder's model; the harness oracle exercises and reports exactly this case.
-/
namespace CV.Cat
open CV

/-- the table of the specification lists exactly the encoder's answers, in cumulative order -/
theorem mem_specTable_id {ext : List Nat} {s c p : Nat} :
    (s, c, p) ∈ specTable id ext ↔ specEnc ext s = some (c, p) := by
  unfold specTable specEnc
  simp only [List.mem_map, List.mem_range, id, Prod.mk.injEq]
  constructor
  · rintro ⟨i, hi, rfl, rfl, rfl⟩
    rw [if_pos (by omega)]
  · intro h
    by_cases hs : s + 1 < ext.length
    · rw [if_pos hs] at h
      simp only [Option.some.injEq, Prod.mk.injEq] at h
      exact ⟨s, by omega, rfl, h.1, h.2⟩
    · rw [if_neg hs] at h; simp at h

/-- **the generic conversions** (`to_generic_decoder_model`, `to_generic_encoder_model`,
    `to_generic_lookup_decoder_model`, and the non-contiguous `to_lookup_decoder_model`)
    applied to any model whose symbol table is `specTable lab ext`: no fault, same bins, same
    labels, and the converted models list the same symbol table again -/
theorem C05_generic_conversions {Sym : Type} [DecidableEq Sym] [Inhabited Sym] {B P : Nat}
    (lab : Nat → Sym) {ext : List Nat} (h : ValidExt P ext) (hP1 : 1 ≤ P) (hP : P ≤ B) :
    let L := labelledModel (labelsOf lab (ext.length - 1)) ext
    (∃ md, NcDec.fromTable B P (specTable lab ext) = .ok md ∧
      (∀ q, q < 2 ^ P → md.dec B q = .ok (L.dec q)) ∧ md.table B = .ok (specTable lab ext)) ∧
    ((labelsOf lab (ext.length - 1)).Nodup →
      ∀ s, (NcEnc.fromTable (specTable lab ext)).enc s = L.enc s) ∧
    (∃ ml, NcLookup.fromTable B P (specTable lab ext) = .ok ml ∧
      (∀ q, q < 2 ^ P → ml.dec B P q = .ok (L.dec q)) ∧ ml.table B = .ok (specTable lab ext) ∧
      (∀ q, q < 2 ^ P → ml.asNcDec.dec B q = .ok (L.dec q))) := by
  intro L
  obtain ⟨md, d1, d2, d3, _⟩ := generic_decoder (B := B) lab h hP1 hP
  obtain ⟨ml, l1, l2, l3, l4, _⟩ := generic_lookup (B := B) lab h hP
  refine ⟨⟨md, d1, d2, d3⟩, fun hnd s => generic_encoder lab ext hnd s, ml, l1, l2, l3, ?_⟩
  intro q hq
  -- `into_non_contiguous_categorical` keeps the cdf: the searched decoder on it
  obtain ⟨tbl, last, hml, _⟩ := NcLookup.fromTable_specTable (B := B) lab h hP
  rw [hml] at l1
  simp only [Except.ok.injEq] at l1
  subst l1
  have hlen : (labelsOf lab (ext.length - 1)).length + 1 = ext.length := by
    rw [labelsOf_length]; have := h.1; omega
  exact NcDec.dec_canon h hlen hP hq

/-- **contiguous model**: iterated symbol table vs direct queries -/
theorem C05_contiguous_symbol_table {B P : Nat} {m : Contiguous} (h : ValidCdf B P m.cdf)
    (hP : P ≤ B) :
    m.table B = .ok (specTable id (unwrap P m.cdf)) ∧
    (∀ s c p, (s, c, p) ∈ specTable id (unwrap P m.cdf) ↔ m.enc B s = .ok (some (c, p))) ∧
    (∀ s, m.enc B s = .ok ((specModel (unwrap P m.cdf)).enc s)) ∧
    (∀ q, q < 2 ^ P → m.dec B q = .ok ((specModel (unwrap P m.cdf)).dec q)) := by
  refine ⟨Contiguous.table_eq h hP, ?_, fun s => Contiguous.enc_eq h hP s,
    fun q hq => Contiguous.dec_eq h hP hq⟩
  intro s c p
  rw [mem_specTable_id, Contiguous.enc_eq h hP s]
  simp

/-- **contiguous model → lookup model** (`to_lookup_decoder_model`), and back
    (`as_contiguous_categorical` / `into_contiguous_categorical`) -/
theorem C05_contiguous_lookup {B P : Nat} {m : Contiguous} (h : ValidCdf B P m.cdf) (hP : P ≤ B) :
    ∃ l, Lookup.fromContiguous B P m = .ok l ∧ l.asContiguous = m ∧
      (∀ q, q < 2 ^ P → l.dec B P q = m.dec B q) ∧ l.table B = m.table B := by
  obtain ⟨tbl, hl, hok⟩ := Lookup.fromContiguous_ok h hP
  refine ⟨_, hl, rfl, ?_, rfl⟩
  intro q hq
  rw [Lookup.dec_eq (m := { tbl := tbl, cdf := m.cdf }) h hP hok hq, Contiguous.dec_eq h hP hq]

/-- **contiguous model → generic encoder / decoder / lookup model** -/
theorem C05_contiguous_generic {B P : Nat} {m : Contiguous} (h : ValidCdf B P m.cdf) (hP1 : 1 ≤ P)
    (hP : P ≤ B) :
    ∃ t, m.table B = .ok t ∧
      (∃ md, NcDec.fromTable B P t = .ok md ∧ (∀ q, q < 2 ^ P → md.dec B q = m.dec B q) ∧
        md.table B = .ok t) ∧
      (∀ s, m.enc B s = .ok ((NcEnc.fromTable t).enc s)) ∧
      (∃ ml, NcLookup.fromTable B P t = .ok ml ∧ (∀ q, q < 2 ^ P → ml.dec B P q = m.dec B q) ∧
        ml.table B = .ok t) := by
  have hext := h.2
  obtain ⟨⟨md, d1, d2, d3⟩, e1, ml, l1, l2, l3, _⟩ := C05_generic_conversions (B := B) id hext hP1 hP
  refine ⟨_, Contiguous.table_eq h hP, ⟨md, d1, ?_, d3⟩, ?_, ml, l1, ?_, l3⟩
  · intro q hq
    rw [d2 q hq, Contiguous.dec_eq h hP hq, labelled_id_dec hext hq]
  · intro s
    rw [e1 (by simp [labelsOf, List.nodup_range]) s, Contiguous.enc_eq h hP s, labelled_id_enc]
  · intro q hq
    rw [l2 q hq, Contiguous.dec_eq h hP hq, labelled_id_dec hext hq]

/-- **contiguous vs non-contiguous with the identity labelling**: the hash-table encoder and
    the non-contiguous decoder built from the same probabilities and the symbols
    `0, 1, …, n-1` agree with the contiguous model on every symbol and every quantile -/
theorem C05_contiguous_vs_noncontiguous {B P : Nat} {probs : List Nat} {infer : Bool}
    {m : Contiguous} {me : NcEnc Nat} {md : NcDec Nat} {n : Nat}
    (hP1 : 1 ≤ P) (hP : P ≤ B) (hprobs : ∀ p ∈ probs, p < 2 ^ B)
    (hm : Contiguous.fromNonzeroFixedPoint B P probs infer = some m)
    (he : NcEnc.fromSymbolsAndNonzeroFixedPoint B P (List.range n) probs infer = some me)
    (hd : NcDec.fromSymbolsAndNonzeroFixedPoint B P (List.range n) probs infer = .ok (some md)) :
    (∀ s, m.enc B s = .ok (me.enc s)) ∧ (∀ q, q < 2 ^ P → md.dec B q = m.dec B q) := by
  obtain ⟨qs, hv, hqs, hcdf⟩ := Contiguous.fromNonzeroFixedPoint_some hP1 hP hprobs hm
  obtain ⟨qs', _, hqs', hlen, _, htbl⟩ := NcEnc.fromFixed_some hP1 hP hprobs he
  have : qs' = qs := by rw [hqs', hqs]
  subst this
  have hext := extOf_valid hv
  have hne : extOf qs' ≠ [] := by intro hn; have := hext.1; rw [hn] at this; simp at this
  have hvalid : ValidCdf B P m.cdf := by rw [hcdf]; exact wrapCdf_valid hext
  have hun : unwrap P m.cdf = extOf qs' := by rw [hcdf]; exact unwrap_wrapCdf hne hext.2.2.1
  simp only [List.length_range] at hlen
  have hlen' : (List.range n).length + 1 = (extOf qs').length := by
    rw [extOf_length, List.length_range]; omega
  have hlab : labelsOf id ((extOf qs').length - 1) = List.range n := by
    rw [extOf_length]; simp [labelsOf, hlen]
  constructor
  · intro s
    rw [Contiguous.enc_eq hvalid hP s, hun, NcEnc.enc_of_specTable hlen' htbl s,
      ← hlab, labelled_id_enc]
  · intro q hq
    rcases NcDec.fromFixed_some (syms := List.range n) (infer := infer) hP1 hP hprobs with
      h0 | ⟨m', qs'', last, h1, _, hqs'', _, hc⟩
    · rw [h0] at hd; simp at hd
    · rw [h1] at hd
      simp only [Except.ok.injEq, Option.some.injEq] at hd
      subst hd
      have : qs'' = qs' := by rw [hqs'', hqs']
      subst this
      have hdec := NcDec.dec_canon (B := B) (last := last) hext hlen' hP hq
      rw [← hc] at hdec
      rw [hdec, Contiguous.dec_eq hvalid hP hq, hun, ← hlab, labelled_id_dec hext hq]

/-- **non-contiguous decoder model**: symbol table, searched decoder and all its conversions
    present the same labelled table -/
theorem C05_noncontiguous {Sym : Type} [DecidableEq Sym] [Inhabited Sym] {B P : Nat}
    {labels : List Sym} {ext : List Nat} {last : Sym}
    (h : ValidExt P ext) (hlen : labels.length + 1 = ext.length) (hP : P ≤ B) :
    let m : NcDec Sym := { cdf := ncCdf B P labels ext last }
    m.table B = .ok (specTable (fun i => labels.getD i default) ext) ∧
    (∀ q, q < 2 ^ P → m.dec B q = .ok ((labelledModel labels ext).dec q)) ∧
    labelsOf (fun i => labels.getD i default) (ext.length - 1) = labels := by
  refine ⟨NcDec.table_canon h hlen hP, fun q hq => NcDec.dec_canon h hlen hP hq, ?_⟩
  have : ext.length - 1 = labels.length := by omega
  rw [this, labelsOf_getD_self]

/-- **lookup models**: the table lookup and the binary search on the same cdf agree
    (`as_contiguous_categorical`, `as_non_contiguous_categorical`) -/
theorem C05_lookup_vs_search {B P : Nat} {l : Lookup} (h : ValidCdf B P l.cdf) (hP : P ≤ B)
    (hok : LookupOK P (unwrap P l.cdf) l.tbl) :
    (∀ q, q < 2 ^ P → l.dec B P q = l.asContiguous.dec B q) ∧
    l.table B = l.asContiguous.table B := by
  refine ⟨fun q hq => ?_, rfl⟩
  rw [Lookup.dec_eq h hP hok hq]
  exact (Contiguous.dec_eq (m := l.asContiguous) h hP hq).symm

theorem C05_nclookup_vs_search {Sym : Type} [DecidableEq Sym] [Inhabited Sym] {B P : Nat}
    {labels : List Sym} {ext : List Nat} {last : Sym} {tbl : Array Nat}
    (h : ValidExt P ext) (hlen : labels.length + 1 = ext.length) (hP : P ≤ B)
    (hok : LookupOK P ext tbl) :
    let l : NcLookup Sym := { tbl := tbl, cdf := ncCdf B P labels ext last }
    (∀ q, q < 2 ^ P → l.dec B P q = l.asNcDec.dec B q) ∧ l.table B = l.asNcDec.table B := by
  refine ⟨fun q hq => ?_, rfl⟩
  rw [NcLookup.dec_canon h hlen hP hok hq]
  exact (NcDec.dec_canon h hlen hP hq).symm

/-- **uniform model**: `symbol_table` vs the direct formulas, and the table it hands to the
    generic conversions -/
theorem C05_uniform {B P range : Nat} (hP : P ≤ B) (hr : range < 2 ^ U) (h2 : 2 ≤ range)
    (hle : range ≤ 2 ^ P) :
    let u : Uniform := { ppb := 2 ^ P / range, last := range - 1 }
    u.table B P = .ok (specTable id (uniExt P range)) ∧
    (∀ s c p, (s, c, p) ∈ specTable id (uniExt P range) ↔ u.enc B P s = .ok (some (c, p))) ∧
    (∀ q, q < 2 ^ P → u.dec B P q = .ok ((specModel (uniExt P range)).dec q)) ∧
    ValidExt P (uniExt P range) := by
  refine ⟨Uniform.table_eq hP hr h2 hle, ?_, fun q hq => Uniform.dec_eq hP hr h2 hle hq,
    uniExt_valid h2 hle⟩
  intro s c p
  rw [mem_specTable_id, Uniform.enc_eq hP h2 hle s]
  simp

/-- `C05_uniform` for whatever `UniformModel::new` returned -/
theorem C05_uniform_new {B P range : Nat} {u : Uniform} (hP1 : 1 ≤ P) (hP : P ≤ B) (hPU : P ≤ U)
    (hr : range < 2 ^ U) (h : Uniform.new B P range = .ok u) :
    u.table B P = .ok (specTable id (uniExt P range)) ∧
    (∀ s c p, (s, c, p) ∈ specTable id (uniExt P range) ↔ u.enc B P s = .ok (some (c, p))) ∧
    (∀ q, q < 2 ^ P → u.dec B P q = .ok ((specModel (uniExt P range)).dec q)) ∧
    ValidExt P (uniExt P range) := by
  obtain ⟨h2, hle, rfl⟩ := Uniform.new_inv hP1 hP hPU hr h
  exact C05_uniform hP hr h2 hle

/-! non-vacuity -/
example : Uniform.new 8 8 10 = .ok { ppb := 25, last := 9 } := by rfl
example : ValidCdf 8 8 [0, 100, 200, 0] :=
  Contiguous.fromNonzeroFixedPoint_valid (B := 8) (P := 8) (probs := [100, 100]) (infer := true)
    (m := { cdf := [0, 100, 200, 0] }) (by decide) (by decide) (by decide) (by decide)

example : ValidExt 8 [0, 100, 200, 256] := ⟨by decide, by decide, by decide, by decide⟩
/-- a lookup table satisfying `LookupOK` exists (the constructor builds one) -/
example : ∃ m, Lookup.fromNonzeroFixedPoint 8 2 [1, 3] false = some m := ⟨_, rfl⟩

#print axioms mem_specTable_id
#print axioms C05_generic_conversions
#print axioms C05_contiguous_symbol_table
#print axioms C05_contiguous_lookup
#print axioms C05_contiguous_generic
#print axioms C05_contiguous_vs_noncontiguous
#print axioms C05_noncontiguous
#print axioms C05_lookup_vs_search
#print axioms C05_nclookup_vs_search
#print axioms C05_uniform
#print axioms C05_uniform_new

end CV.Cat
