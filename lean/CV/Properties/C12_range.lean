import CV.Proofs.RangeDecTotal
/-!
# C12 — Compressed size of the range encoder (component `range`)

Stated multiplicatively on naturals (`k_i = S − W − P_i`):

  `2^num_bits · ∏ p_i · ∏ 2^k_i  ≤  2^(2W) · ∏ 2^P_i · ∏ (2^k_i + 1)`

which is `num_bits ≤ Σ log2(2^P_i/p_i) + Σ log2(1 + 2^-k_i) + 2W` after taking `log2`
(a constant of `2W`, below the `S + 2W` the property allows).  The conversion to real
logarithms is done in `C12_rangelog.lean` (`C12_range_size_bound_log`).

`MsgFits c n` (`Word::BITS · (n + 2) < 2^64`): the message is short enough for `num_bits()`,
a `usize`, not to overflow — without it `num_bits` panics, so the hypothesis is necessary.
-/
namespace CV.Range

theorem C12_range_size_bound {Sym : Type} {c : Cfg} (hc : RValid c) (msg : List (MStep Sym))
    (hn : MsgFits c msg.length) (hv : ∀ x ∈ msg, x.Valid c) :
    ∃ e nw, encodeMsg c (Encoder.empty c) msg = .ok e ∧
      numWords c e = .ok nw ∧ numBits c e = .ok (c.W * nw) ∧
      nw ≤ msg.length + 2 ∧
      2^(c.W * nw) * sizeA c (msg.map MStep.spec)
        ≤ 2^(2 * c.W) * sizeB c (msg.map MStep.spec) :=
  size_bound hc msg hn hv

/-- the form with the constant `S + 2W` named in the property -/
theorem C12_range_size_bound_S {Sym : Type} {c : Cfg} (hc : RValid c) (msg : List (MStep Sym))
    (hn : MsgFits c msg.length) (hv : ∀ x ∈ msg, x.Valid c) :
    ∃ e nb, encodeMsg c (Encoder.empty c) msg = .ok e ∧ numBits c e = .ok nb ∧
      2^nb * sizeA c (msg.map MStep.spec)
        ≤ 2^(c.S + 2 * c.W) * sizeB c (msg.map MStep.spec) := by
  obtain ⟨e, nw, he, _, hnb, _, hle⟩ := size_bound hc msg hn hv
  refine ⟨e, _, he, hnb, Nat.le_trans hle (Nat.mul_le_mul_right _ ?_)⟩
  exact Nat.pow_le_pow_right (by omega) (by omega)

/-- the per-symbol rounding loss: `R·2^k ≤ ⌊R/2^P⌋·2^P·(2^k + 1)` (finite also at `k = 0`) -/
theorem C12_range_step_loss {c : Cfg} (hc : RValid c) {R : Nat} (hr : 2^(c.S - c.W) ≤ R) :
    R * 2^(c.S - c.W - c.P) ≤ R / 2^c.P * (2^c.P * (2^(c.S - c.W - c.P) + 1)) :=
  step_loss hc hr

example : ∀ x ∈ exMsg, x.Valid exCfg := exMsg_valid
example : MsgFits exCfg exMsg.length := by decide
example : sizeA exCfg (exMsg.map MStep.spec) = 2 * 100 * (7 * 16) * 1 * (1 * 128) := by decide
example : RValid { W := 16, S := 32, P := 16, B := 16 } := by decide  -- k = 0

end CV.Range

#print axioms CV.Range.C12_range_size_bound
#print axioms CV.Range.C12_range_size_bound_S
#print axioms CV.Range.C12_range_step_loss
