import CV.Proofs.BackendSafety
import CV.Proofs.BackendMisc
/-!
# C20 — no safe call sequence causes undefined behaviour (component `backend`)

`src/backends.rs` had two unchecked indexings (`get_unchecked` in
`ReadWords<_, Stack>::read for Cursor`, `get_unchecked_mut` in `WriteWords::write for
Reverse<Cursor>`), both justified by the invariant `pos ≤ buf.len()`.

* Every *trait* method preserves the invariant and, under it, returns normally
  (`C20_cursor_no_fault`), so the two sites were unreachable through the traits.
* `Cursor::buf_mut()` is safe and breaks the invariant for any buffer type
  (`C20_buf_mut_breaks_iff`); the pre-repair code then reached the unchecked index
  (`C20_d12_legacy_reaches_ub`, reproduced on the real code: abort under the checked build,
  out-of-bounds heap write in release).  This was defect D12.
* After the repair (`ca8abce`, checked indexing) the model has no `Fault.ub` branch left:
  for *all* states and all operations including `buf_mut`, a fault is an ordinary panic
  (`C20_cursor_no_ub_site`, `C20_backend_no_ub`), it needs a broken invariant
  (`C20_fault_needs_broken_inv`), and the behaviour in that case is spelled out in
  `C20_broken_behaviour` (index panic / subtraction-overflow panic / `None` / `OutOfSpace`;
  `seek` to a valid position heals the cursor).

Residual, not UB: `space_left`, `Queue`-`remaining` and `into_reversed` compute `len - pos`;
with a broken invariant that is an overflow panic in checked builds (modelled) and wraps to a
huge value in release builds.  The link from these model-level obligations to actual memory
behaviour is the correspondence under the checked build (runtime validation, not proof).
-/
namespace CV.Backend.C20

/-- every history of trait methods from a state satisfying `pos ≤ len` runs to completion
    (no panic, no UB site) and keeps the invariant -/
theorem C20_cursor_no_fault (wr : Bool) (s : Cur) (hI : s.Inv) (ops : List Op)
    (h : ∀ op ∈ ops, ∀ ws, op ≠ .bmSet ws) :
    ∃ outs s', Cur.run wr s ops = (outs, .ok s') ∧ s'.Inv ∧ outs.length = ops.length :=
  Cur.run_inv wr ops s hI h

example := C20_cursor_no_fault true (.rev ⟨⟨[1, 2, 3], 2⟩⟩) (by simp [Cur.Inv, Cur.inner, Cursor.Inv])
  [.readQ, .write 5, .intoReversed, .spaceLeft, .extend [1, 2, 3, 4]] (by simp)

/-- **no UB site is reachable from any state by any operation, `buf_mut` included** -/
theorem C20_cursor_no_ub_site (wr : Bool) (s : Cur) (op : Op) (f : Fault)
    (h : Cur.step wr s op = .error f) : Fault.isUb f = false :=
  Cur.step_fault_not_ub wr s op f h

/-- the failing call sequence of D12 now ends in an ordinary panic -/
example : Cur.run true (.fwd ⟨[1, 2, 3, 4], 4⟩) [.bmSet [], .readS] =
    ([.ok], .error (.panic "cursor.read_stack.index")) := rfl

/-- a fault can only come from a state whose invariant has been broken -/
theorem C20_fault_needs_broken_inv (wr : Bool) (s : Cur) (op : Op) (f : Fault)
    (h : Cur.step wr s op = .error f) : ¬ s.Inv :=
  Cur.step_fault_needs_broken_inv wr s op f h

/-- exactly what `buf_mut` breaks: the invariant, iff the new buffer is shorter than `pos` -/
theorem C20_buf_mut_breaks_iff (c : Cursor) (ws : List Nat) :
    (c.bufMutSet ws).Inv ↔ c.pos ≤ ws.length :=
  Cursor.bufMutSet_inv_iff c ws

/-- behaviour of the repaired code while `pos > len` -/
theorem C20_broken_behaviour (c : Cursor) (h : c.buf.length < c.pos) :
    c.readStack = .error (.panic "cursor.read_stack.index") ∧
    c.readQueue = (none, c) ∧
    (∀ w, c.write w = .error .outOfSpace) ∧
    c.spaceLeft = .error (.overflow "cursor.space_left") ∧
    c.remainingQueue = .error (.overflow "cursor.remaining_queue") ∧
    c.intoReversed = .error (.overflow "cursor.into_reversed") ∧
    (∀ q, q ≤ c.buf.length → c.seek q = some { c with pos := q }) ∧
    (∀ w, (RevCursor.mk c).write w = .error (.fault (.panic "rev_cursor.write.index"))) :=
  let ⟨h1, h2, h3, h4, h5, h6, h7⟩ := Cursor.broken_behaviour c h
  ⟨h1, h2, h3, h4, h5, h6, h7, fun w => RevCursor.broken_write ⟨c⟩ h w⟩

example := C20_broken_behaviour ⟨[1], 3⟩ (by decide)

/-- the pre-repair methods coincide with the repaired ones under the invariant … -/
theorem C20_d12_legacy_same_under_inv (c : Cursor) (hI : c.Inv) (w : Nat) :
    c.readStackLegacy = c.readStack ∧ (RevCursor.mk c).writeLegacy w = (RevCursor.mk c).write w :=
  ⟨Cursor.readStackLegacy_eq c hI, RevCursor.writeLegacy_eq ⟨c⟩ hI w⟩

/-- … and reached the unchecked index as soon as `buf_mut` had made `pos > len` (D12) -/
theorem C20_d12_legacy_reaches_ub (c : Cursor) (h : c.buf.length < c.pos) (w : Nat) :
    c.readStackLegacy = .error (.ub "cursor.read_stack.get_unchecked") ∧
    (RevCursor.mk c).writeLegacy w = .error (.fault (.ub "rev_cursor.write.get_unchecked_mut")) :=
  ⟨Cursor.readStackLegacy_ub c h, RevCursor.writeLegacy_ub ⟨c⟩ h w⟩

/-- the reproducer: `Cursor::new_at_write_end(vec![1,2,3,4])`, `buf_mut().clear()`, stack read -/
theorem C20_d12_legacy_counterexample :
    ((Cursor.newAtWriteEnd [1, 2, 3, 4]).bufMutSet []).readStackLegacy =
      .error (.ub "cursor.read_stack.get_unchecked") := rfl

/-- the other backends (`Vec`, `SmallVec`, iterator and callback adapters) have no fault
    branch at all; over the whole protocol machine a fault is never a UB site -/
theorem C20_backend_no_ub (b : Backend) (op : Op) (f : Fault)
    (h : Backend.step b op = .error f) :
    Fault.isUb f = false ∧ ∃ wr s, b = .cur wr s := by
  cases b with
  | cur wr s =>
    refine ⟨?_, wr, s, rfl⟩
    cases hs : Cur.step wr s op with
    | ok p => simp [Backend.step, hs] at h
    | error e =>
      simp [Backend.step, hs] at h
      subst h
      exact Cur.step_fault_not_ub wr s op e hs
  | vec v =>
    cases op <;> simp [Backend.step] at h
    case seek p => cases hs : v.seek p <;> simp [hs] at h
  | smallvec v =>
    cases op <;> simp [Backend.step] at h
    case seek p => cases hs : v.seek p <;> simp [hs] at h
  | iterF r =>
    cases op <;> simp [Backend.step] at h
    all_goals (cases hr : (r.read).1 <;> simp [hr] at h)
  | iterI r => cases op <;> simp [Backend.step] at h
  | iterFL r =>
    cases op <;> simp [Backend.step] at h
    all_goals (cases hr : (r.read).1 <;> simp [hr] at h)
  | iterIL r => cases op <;> simp [Backend.step] at h
  | cbF cb =>
    cases op <;> simp [Backend.step] at h
    case write w => cases hw : (cb.write w).1 <;> simp [hw] at h
  | cbI cb => cases op <;> simp [Backend.step] at h

end CV.Backend.C20

#print axioms CV.Backend.C20.C20_cursor_no_fault
#print axioms CV.Backend.C20.C20_cursor_no_ub_site
#print axioms CV.Backend.C20.C20_fault_needs_broken_inv
#print axioms CV.Backend.C20.C20_buf_mut_breaks_iff
#print axioms CV.Backend.C20.C20_broken_behaviour
#print axioms CV.Backend.C20.C20_d12_legacy_same_under_inv
#print axioms CV.Backend.C20.C20_d12_legacy_reaches_ub
#print axioms CV.Backend.C20.C20_d12_legacy_counterexample
#print axioms CV.Backend.C20.C20_backend_no_ub
