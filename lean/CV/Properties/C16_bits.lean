import CV.Proofs.BitsIter
/-!
# C16 — bit-level stack and queue coders are faithful LIFO/FIFO containers

Property theorems only (helper lemmas: `CV/Proofs/Bits*.lean`).  All theorems are about the Impl
model `CV.Bits` (`CV/Model/Bits.lean`, `CV/Model/BitsExpGolomb.lean`), for **every** word width
`W ≥ 2` (`ValidW`; the crate's `BitArray` types have 8 … 128 bits), every coder value satisfying
the documented representation invariant `Inv` (every state reachable through the API does:
`inv_reachable`), every bit pattern, every fill level of the current word, every history.
`bits W c : List Bool` is the abstraction (all bits on the coder, first written first).
Exp-Golomb: every symbol width `1 ≤ N < 2^32` (`EG.ValidN`).
-/
set_option linter.unusedSimpArgs false
set_option linter.unusedVariables false
set_option linter.unnecessarySimpa false
namespace CV.Bits.C16
open CV CV.Bits

theorem validW_one {W : Nat} (h : ValidW W) : 1 ≤ W := by unfold ValidW at h; omega

/-- every state reachable from `new()` / `from_compressed` by writes and reads satisfies `Inv` -/
theorem inv_reachable {W : Nat} (hW : ValidW W) :
    Inv W empty ∧
    (∀ c b, Inv W c → Inv W (writeBit W c b)) ∧
    (∀ c, Inv W c → Inv W (readBit W c).2) ∧
    (∀ ws, (∀ w ∈ ws, w < 2^W) → ws.head? ≠ some 0 → ∃ c, Stack.fromCompressed W ws = .ok c ∧ Inv W c) ∧
    (∀ ws, (∀ w ∈ ws, w < 2^W) → Inv W (Queue.fromCompressed ws)) :=
  ⟨inv_empty W, fun _ b h => writeBit_inv (validW_one hW) h b,
   fun _ h => readBit_inv (validW_one hW) h,
   fun _ h hz => stack_import_inv (validW_one hW) h hz,
   fun _ h => (queue_fromCompressed_inv h).1⟩

/-- LIFO, one step: `write_bit(b)` then `read_bit()` returns `b` and restores the content. -/
theorem stack_lifo {W : Nat} (hW : ValidW W) {c : Coder} (hI : Inv W c) (b : Bool) :
    (readBit W (writeBit W c b)).1 = some b ∧ Inv W (readBit W (writeBit W c b)).2 ∧
      bits W (readBit W (writeBit W c b)).2 = bits W c := by
  have h1 := validW_one hW
  have hw := writeBit_spec h1 hI b
  have hr := readBit_spec h1 hw.1
  refine ⟨by rw [hr.1, hw.2]; simp, hr.2.1, by rw [hr.2.2, hw.2]; simp⟩

/-- the abstraction: a write appends, a read removes the last bit (`none` iff there is none,
    and then the coder is untouched) -/
theorem stack_write_read {W : Nat} (hW : ValidW W) {c : Coder} (hI : Inv W c) :
    (∀ b, bits W (writeBit W c b) = bits W c ++ [b]) ∧
    (readBit W c).1 = (bits W c).getLast? ∧ bits W (readBit W c).2 = (bits W c).dropLast ∧
    (bits W c = [] → readBit W c = (none, c)) :=
  ⟨fun b => writeBit_bits (validW_one hW) hI b, readBit_fst (validW_one hW) hI,
   readBit_bits (validW_one hW) hI, readBit_none (validW_one hW) hI⟩

/-- LIFO over arbitrary interleavings: any sequence of `write_bit`, `read_bit`, `len`, `is_empty`,
    `get_compressed` (guard), `iter`, export + re-import, `encode_symbol` (any codebook) and
    `decode_symbol` (any lawful codebook, e.g. Exp-Golomb: `EG.decBook_lawful`) on the Impl model
    produces exactly the outputs of the same sequence on a plain list used as a stack, and ends
    with the same content.  (Induction over the operation list; a panic ends both runs.) -/
theorem stack_lifo_history {W : Nat} (hW : ValidW W) (ops : List SOp)
    (hops : ∀ op ∈ ops, op.Lawful) {c : Coder} (hI : Inv W c) :
    (run (Stack.step W) ops c).1 = (run (Stack.spec W) ops (bits W c)).1 ∧
      Inv W (run (Stack.step W) ops c).2 ∧
      bits W (run (Stack.step W) ops c).2 = (run (Stack.spec W) ops (bits W c)).2 :=
  stack_run_refines (validW_one hW) ops hops hI

/-- FIFO over arbitrary interleavings, encoder side … -/
theorem queue_encoder_history {W : Nat} (hW : ValidW W) (ops : List QOp) {c : Coder}
    (hI : Inv W c) :
    (run (Queue.step W) ops c).1 = (run (Queue.spec W) ops (bits W c)).1 ∧
      Inv W (run (Queue.step W) ops c).2 ∧
      bits W (run (Queue.step W) ops c).2 = (run (Queue.spec W) ops (bits W c)).2 :=
  queue_run_refines (validW_one hW) ops hI

/-- … and the whole life of a queue: any encoder history, `into_decoder`, any decoder history
    (`read_bit`, `decode_symbol`, draining, `clone`) gives the outputs of a plain list used as a
    queue: the decoder sees the written bits first, then zero padding to the word boundary. -/
theorem queue_fifo_history {W : Nat} (hW : ValidW W) (ops : List QOp) (dops : List DOp)
    (hd : ∀ op ∈ dops, op.Lawful) {c : Coder} (hI : Inv W c) :
    (run (Queue.step W) ops c).1 = (run (Queue.spec W) ops (bits W c)).1 ∧
    (run (QDecoder.step W) dops (Queue.intoDecoder (run (Queue.step W) ops c).2)).1 =
      (run QDecoder.spec dops (padTo W (run (Queue.spec W) ops (bits W c)).2)).1 := by
  have h1 := validW_one hW
  have he := queue_run_refines h1 ops hI
  have hdec := queue_intoDecoder_padTo h1 he.2.1
  have hr := qdecoder_run_refines h1 dops hd hdec.1
  refine ⟨he.1, ?_⟩
  rw [hr.1, hdec.2, he.2.2]

/-- FIFO, basic form: the decoder made from an encoder hands out exactly the written bits, in
    order, followed by fewer than `W` zero bits; then it is at its end. -/
theorem queue_fifo {W : Nat} (hW : ValidW W) {c : Coder} (hI : Inv W c) :
    ∃ p d', p < W ∧ ((bits W c).length + p) % W = 0 ∧
      QDecoder.iter W (Queue.intoDecoder c) = .ok (bits W c ++ List.replicate p false, d') ∧
      QDecoder.bits W d' = [] := by
  have h1 := validW_one hW
  obtain ⟨hId, p, hp, hb, hm⟩ := queue_intoDecoder_bits h1 hI
  obtain ⟨d', hit, _, hn⟩ := QDecoder.iter_spec h1 hId
  exact ⟨p, d', hp, hm, by rw [hit, hb], hn⟩

/-- one read of a queue decoder: the head of what is left -/
theorem qdecoder_read {W : Nat} (hW : ValidW W) {d : QDecoder} (hI : QDecoder.Inv W d) :
    (QDecoder.readBit W d).1 = (QDecoder.bits W d).head? ∧
      QDecoder.bits W (QDecoder.readBit W d).2 = (QDecoder.bits W d).tail :=
  ⟨(QDecoder.readBit_spec (validW_one hW) hI).1, (QDecoder.readBit_spec (validW_one hW) hI).2.2⟩

/-- the reported length is exact at every fill level (`usize` overflow is the only failure) -/
theorem len_exact {W : Nat} (c : Coder) (h : (bits W c).length < 2^64) :
    len W c = .ok (bits W c).length :=
  len_spec c h

/-- export → re-import of a stack preserves the content, for every bit pattern and every fill
    level of the last word: no fault, never rejected.  (False before the D5 repair, see
    `stack_export_import_D5_counterexample`.) -/
theorem stack_export_import {W : Nat} (hW : ValidW W) {c : Coder} (hI : Inv W c) :
    ∃ c', Stack.fromCompressed W (Stack.intoCompressed W c) = .ok c' ∧ Inv W c' ∧
      bits W c' = bits W c :=
  stack_export_import_bits (validW_one hW) hI

/-- the failed obligation of the unrepaired code (`trailing_zeros`): the bits `1,0,1,1,0` export
    as `[0x2d]` and re-import as the empty stack -/
theorem stack_export_import_D5_counterexample :
    ∃ c, Inv 8 c ∧ bits 8 c = [true, false, true, true, false] ∧
      Stack.intoCompressed 8 c = [0x2d] ∧
      ∃ c', Stack.fromCompressedD5 8 (Stack.intoCompressed 8 c) = .ok c' ∧ bits 8 c' = [] := by
  have h := writeBits_spec (W := 8) (by decide) [true, false, true, true, false] (inv_empty 8)
  refine ⟨writeBits 8 empty [true, false, true, true, false], h.1, by simpa using h.2, by decide,
    { backend := [], cw := 44, mask := 0 }, by decide, by decide⟩

/-- format of the stack export: payload bits, the terminator `1`, zero padding; no zero last
    word; `len / W + 1` words -/
theorem stack_export_format {W : Nat} (hW : ValidW W) {c : Coder} (hI : Inv W c) :
    ∃ p, p < W ∧
      wordBits W (Stack.intoCompressed W c) = bits W c ++ [true] ++ List.replicate p false ∧
      (∀ w ∈ Stack.intoCompressed W c, w < 2^W) ∧
      (Stack.intoCompressed W c).head? ≠ some 0 ∧ (Stack.intoCompressed W c) ≠ [] ∧
      (Stack.intoCompressed W c).length = (bits W c).length / W + 1 :=
  CV.Bits.stack_export_format (validW_one hW) hI

/-- the queue export is the bit string zero padded to whole words -/
theorem queue_export_zero_padded {W : Nat} (hW : ValidW W) {c : Coder} (hI : Inv W c) :
    wordBits W (Queue.intoCompressed c) = padTo W (bits W c) ∧
      (∀ w ∈ Queue.intoCompressed c, w < 2^W) := by
  obtain ⟨_, _, _, hw, _⟩ := queue_export_format (validW_one hW) hI
  exact ⟨queue_export_padTo (validW_one hW) hI, hw⟩

/-! ## the consuming iterators -/

/-- `StackCoder::into_iterator()` yields exactly the bits on the stack, last written first, then
    ends (no fault, never out of fuel) -/
theorem stack_into_iterator {W : Nat} (hW : ValidW W) {c : Coder} (hI : Inv W c) :
    Stack.intoIterator W c = .ok (bits W c).reverse :=
  Stack.intoIterator_spec (validW_one hW) hI

/-- … and that is what repeated `read_bit()` returns: as many `some`s as the iterator has items,
    the same bits, then `none` -/
theorem stack_into_iterator_eq_reads {W : Nat} (hW : ValidW W) {c : Coder} (hI : Inv W c) :
    ∃ bs, Stack.intoIterator W c = .ok bs ∧
      (run (Stack.step W) (List.replicate bs.length SOp.read) c).1 =
        bs.map (fun b => Out.bit (some b)) ∧
      (readBit W (run (Stack.step W) (List.replicate bs.length SOp.read) c).2).1 = none := by
  have h1 := validW_one hW
  refine ⟨(bits W c).reverse, Stack.intoIterator_spec h1 hI, ?_⟩
  have hr := stack_run_refines h1 (List.replicate (bits W c).reverse.length SOp.read)
    (SOp.read_lawful _) hI
  have hs := stack_spec_reads W (bits W c).reverse.length (bits W c) (by simp)
  rw [hs] at hr
  refine ⟨hr.1, ?_⟩
  rw [readBit_fst h1 hr.2.1, hr.2.2]
  rfl

/-- `QueueEncoder::into_overshooting_iter()` yields the written bits in order, then overshoots
    with exactly the zero padding up to the next word boundary (`padTo`: fewer than `W` zero
    bits, none at a word boundary), then ends -/
theorem queue_overshooting_iter {W : Nat} (hW : ValidW W) {c : Coder} (hI : Inv W c) :
    ∃ d', Queue.intoOvershootingIter W c = .ok (padTo W (bits W c), d') ∧
      QDecoder.bits W d' = [] := by
  obtain ⟨d', h, _, hn⟩ := Queue.intoOvershootingIter_spec (validW_one hW) hI
  exact ⟨d', h, hn⟩

/-- … and that is what repeated `read_bit()` on `into_decoder()` returns, followed by `none` -/
theorem queue_overshooting_iter_eq_reads {W : Nat} (hW : ValidW W) {c : Coder} (hI : Inv W c) :
    ∃ bs d', Queue.intoOvershootingIter W c = .ok (bs, d') ∧
      (run (QDecoder.step W) (List.replicate bs.length DOp.read) (Queue.intoDecoder c)).1 =
        bs.map (fun b => Out.bit (some b)) ∧
      (QDecoder.readBit W
        (run (QDecoder.step W) (List.replicate bs.length DOp.read) (Queue.intoDecoder c)).2).1 = none := by
  have h1 := validW_one hW
  obtain ⟨d', h, _, _⟩ := Queue.intoOvershootingIter_spec h1 hI
  have hd := queue_intoDecoder_padTo h1 hI
  refine ⟨padTo W (bits W c), d', h, ?_⟩
  have hr := qdecoder_run_refines h1 (List.replicate (padTo W (bits W c)).length DOp.read)
    (DOp.read_lawful _) hd.1
  rw [hd.2, qdecoder_spec_reads] at hr
  refine ⟨hr.1, ?_⟩
  rw [(QDecoder.readBit_spec h1 hr.2.1).1, hr.2.2]
  rfl

/-! ## Exp-Golomb, generic in the integer width `N` -/

/-- `decode (prefix v ++ rest) = (v, rest)` for every `v < 2^N` **including** `2^N - 1`
    (whose codeword is `N` zeros, `1`, `N` zeros), with the trailing bits preserved; the suffix
    form is the mirror image of the prefix form. -/
theorem expgolomb_roundtrip {N v : Nat} (hN : EG.ValidN N) (hv : v < 2^N) (rest : List Bool) :
    ∃ p, EG.prefixBits N v = .ok p ∧ EG.suffixBits N v = .ok p.reverse ∧
      ∀ fuel, p.length ≤ fuel → EG.decode N listSrc fuel (p ++ rest) = .ok (rest, .ok v) := by
  refine ⟨EG.code v, EG.prefixBits_spec hN hv, EG.suffixBits_spec hN hv, ?_⟩
  intro fuel hf
  exact EG.decode_code hN hv rest fuel (Nat.lt_of_lt_of_le (log2_lt_length_code v) hf)

theorem expgolomb_max (N : Nat) :
    EG.code (2^N - 1) = List.replicate N false ++ [true] ++ List.replicate N false :=
  EG.code_max N

/-- invalid codewords are rejected: whatever `decode_symbol` accepts starts with the codeword of
    the returned symbol, which fits the integer type; it then stops right behind the codeword -/
theorem expgolomb_rejects_invalid {N : Nat} (hN : EG.ValidN N) {fuel : Nat} {l rest : List Bool}
    {v : Nat} (h : EG.decode N listSrc fuel l = .ok (rest, .ok v)) :
    v < 2^N ∧ l = EG.code v ++ rest :=
  EG.decode_sound hN h

/-- decoding arbitrary bits (fewer than `2^32`) never panics; the only error is `InvalidCodeword` -/
theorem expgolomb_total {N fuel : Nat} {l : List Bool} (hf : l.length < fuel)
    (h32 : l.length < 2^32) :
    ∃ rest r, EG.decode N listSrc fuel l = .ok (rest, r) ∧ r ≠ .error .outOfCompressedData :=
  EG.decode_total hf h32

/-- through the stack coder: `encode_symbol` then `decode_symbol` returns the symbol and restores
    everything below it -/
theorem stack_expgolomb {W N v : Nat} (hW : ValidW W) (hN : EG.ValidN N) (hv : v < 2^N)
    {c : Coder} (hI : Inv W c) :
    ∃ c₁ c₂, Stack.encodeSymbol W (EG.encBook N) v c = .ok c₁ ∧
      bits W c₁ = bits W c ++ (EG.code v).reverse ∧
      Stack.decodeSymbol W (EG.decBook N) c₁ = .ok (c₂, .ok v) ∧ Inv W c₂ ∧
      bits W c₂ = bits W c :=
  stack_expgolomb_roundtrip (validW_one hW) hN hv hI

/-- through the queue coders -/
theorem queue_expgolomb {W N v : Nat} (hW : ValidW W) (hN : EG.ValidN N) (hv : v < 2^N) :
    (∀ {c : Coder}, Inv W c → ∃ c₁, Queue.encodeSymbol W (EG.encBook N) v c = .ok c₁ ∧ Inv W c₁ ∧
      bits W c₁ = bits W c ++ EG.code v) ∧
    (∀ {d : QDecoder} (rest : List Bool), QDecoder.Inv W d →
      QDecoder.bits W d = EG.code v ++ rest →
      ∃ d', QDecoder.decodeSymbol W (EG.decBook N) d = .ok (d', .ok v) ∧ QDecoder.Inv W d' ∧
        QDecoder.bits W d' = rest) :=
  ⟨fun hI => queue_expgolomb_encode (validW_one hW) hN hv hI,
   fun rest hI hb => qdecoder_expgolomb_decode (validW_one hW) hN hv hI rest hb⟩

/-- the default trait methods of `EncoderCodebook` (via `SmallBitStack`) mirror the codeword -/
theorem default_methods_mirror (bs : List Bool) : viaSmallBitStack bs = .ok bs.reverse :=
  viaSmallBitStack_spec bs

/-! ## the hypotheses are satisfiable by non-trivial instances -/

example : ValidW 8 ∧ ValidW 64 ∧ EG.ValidN 8 ∧ EG.ValidN 128 := by decide

/-- a coder with one full word in the backend and a partly filled current word -/
example : Inv 8 (writeBits 8 empty [true, false, true, true, false, false, true, true, true, false, true]) :=
  (writeBits_spec (by decide) _ (inv_empty 8)).1

example : writeBits 8 empty [true, false, true, true, false, false, true, true, true, false, true]
    = { backend := [0xcd], cw := 5, mask := 4 } := by decide

example : Stack.fromCompressed 8 (Stack.intoCompressed 8 (writeBits 8 empty [true, false, true, true, false]))
    = .ok (writeBits 8 empty [true, false, true, true, false]) := by decide

example : EG.prefixBits 8 255 = .ok (List.replicate 8 false ++ [true] ++ List.replicate 8 false) := by
  decide

example : EG.decode 8 listSrc 30 (List.replicate 8 false ++ [true] ++ List.replicate 8 false ++ [true, false])
    = .ok ([true, false], .ok 255) := by decide

/-- an invalid codeword (8 zeros, `1`, then a non-zero tail) is rejected at `u8` -/
example : EG.decode 8 listSrc 30 (List.replicate 8 false ++ [true] ++ List.replicate 7 false ++ [true])
    = .ok ([], .error .invalidCodeword) := by decide

example : (EG.decBook 32).Lawful := EG.decBook_lawful 32

/-- 11 bits in `u8` words: the stack iterator reverses them, the queue iterator overshoots by 5 zeros -/
example : Stack.intoIterator 8 (writeBits 8 empty [true, false, true, true, false, false, true, true, true, false, true])
    = .ok [true, false, true, true, true, false, false, true, true, false, true] := by decide

example : (Queue.intoOvershootingIter 8 (writeBits 8 empty [true, false, true, true, false, false, true, true, true, false, true])).map (·.1)
    = .ok ([true, false, true, true, false, false, true, true, true, false, true] ++ List.replicate 5 false) := by decide

/-- a concrete mixed history (bits, the maximum `u8` symbol, a guard, an export/re-import)
    satisfies the hypotheses of `stack_lifo_history` and produces the expected outputs -/
example :
    (∀ op ∈ [SOp.write true, .encode (EG.suffixBits 8 255), .len, .getCompressed, .reimport,
        .decode (EG.decBook 8), .read, .read], op.Lawful) ∧
    (run (Stack.step 8) [SOp.write true, .encode (EG.suffixBits 8 255), .len, .getCompressed,
        .reimport, .decode (EG.decBook 8), .read, .read] empty).1 =
      [.unit, .unit, .nat 18, .words [4, 2, 1], .words [4, 2, 1], .sym (.ok 255), .bit (some true),
        .bit none] := by
  refine ⟨?_, by decide⟩
  intro op hop
  simp only [List.mem_cons, List.not_mem_nil, or_false] at hop
  rcases hop with rfl | rfl | rfl | rfl | rfl | rfl | rfl | rfl <;>
    first | trivial | exact EG.decBook_lawful 8

end CV.Bits.C16

#print axioms CV.Bits.C16.inv_reachable
#print axioms CV.Bits.C16.stack_lifo
#print axioms CV.Bits.C16.stack_write_read
#print axioms CV.Bits.C16.stack_lifo_history
#print axioms CV.Bits.C16.queue_encoder_history
#print axioms CV.Bits.C16.queue_fifo_history
#print axioms CV.Bits.C16.queue_fifo
#print axioms CV.Bits.C16.qdecoder_read
#print axioms CV.Bits.C16.len_exact
#print axioms CV.Bits.C16.stack_export_import
#print axioms CV.Bits.C16.stack_export_import_D5_counterexample
#print axioms CV.Bits.C16.stack_export_format
#print axioms CV.Bits.C16.queue_export_zero_padded
#print axioms CV.Bits.C16.expgolomb_roundtrip
#print axioms CV.Bits.C16.expgolomb_max
#print axioms CV.Bits.C16.expgolomb_rejects_invalid
#print axioms CV.Bits.C16.expgolomb_total
#print axioms CV.Bits.C16.stack_expgolomb
#print axioms CV.Bits.C16.queue_expgolomb
#print axioms CV.Bits.C16.default_methods_mirror
#print axioms CV.Bits.C16.stack_into_iterator
#print axioms CV.Bits.C16.stack_into_iterator_eq_reads
#print axioms CV.Bits.C16.queue_overshooting_iter
#print axioms CV.Bits.C16.queue_overshooting_iter_eq_reads
