import CV.Proofs.AnsSpec
/-!
# C06 (ANS part) — the stack coder's words are exactly those of the reference rANS specification
-/
namespace CV.Ans.C06
open CV CV.Ans

/-- one encoded symbol, numerically -/
structure Step where
  P : Nat
  B : Nat
  cum : Nat
  p : Nat

def Step.cfg (W S : Nat) (e : Step) : Cfg := { W := W, S := S, P := e.P, B := e.B }
def Step.OK (W S : Nat) (e : Step) : Prop := (e.cfg W S).Valid ∧ CPok e.P e.cum e.p

/-- `encode_symbol` for each step in order, on the Impl model (with faults and errors) -/
def encodeAll (W S : Nat) : Coder → List Step → Except EncErr Coder
  | x, [] => .ok x
  | x, e :: l =>
    match encodeCP (e.cfg W S) x e.cum e.p with
    | .ok y => encodeAll W S y l
    | .error err => .error err

theorem inv_cfg {c c' : Cfg} (hW : c.W = c'.W) (hS : c.S = c'.S) {x : Coder} (h : Inv c x) : Inv c' x := by
  unfold Inv at h ⊢; rw [← hW, ← hS]; exact h

theorem encodeAll_mirrors {W S : Nat} (l : List Step) (hl : ∀ e ∈ l, e.OK W S)
    (x : Coder) (hx : Inv { W := W, S := S, P := 1, B := 1 } x) (hcap : x.cap = none)
    (st : RansSpec.St) (hm : Mirrors st x) :
    ∃ y, encodeAll W S x l = .ok y ∧ Inv { W := W, S := S, P := 1, B := 1 } y ∧ y.cap = none ∧
      Mirrors (l.foldl (fun st e => RansSpec.push W S st (e.P, e.cum, e.p)) st) y := by
  induction l generalizing x st with
  | nil => exact ⟨x, rfl, hx, hcap, hm⟩
  | cons e l ih =>
    obtain ⟨hv, hcp⟩ := hl e List.mem_cons_self
    have hxe : Inv (e.cfg W S) x := inv_cfg rfl rfl hx
    have hspec := encodeCP_spec hv hxe hcap hcp
    have hinv := encArith_inv hv hxe hcp
    have hcap' : (encArith (e.cfg W S) x e.cum e.p).cap = none := by
      simp only [encArith, afterFlush]; split <;> exact hcap
    have hm' := push_mirrors hv hxe (cum := e.cum) hcp.1 hm
    obtain ⟨y, h1, h2, h3, h4⟩ := ih (fun e' he' => hl e' (List.mem_cons_of_mem _ he')) _
      (inv_cfg rfl rfl hinv) hcap' _ hm'
    exact ⟨y, by simp only [encodeAll, hspec]; exact h1, h2, h3, h4⟩

/-- **C06, stack coder.** For every message, encoding it onto an empty ANS coder (Impl model)
    succeeds, and the exported words (in the order of the Rust `Vec`) are exactly the words
    prescribed by the reference specification `RansSpec.words`: flush thresholds, word order and
    the "no trailing zero word" rule included. -/
theorem ans_words_eq_spec {W S : Nat} (hWS : 1 ≤ W ∧ 2 * W ≤ S) (l : List Step) (hl : ∀ e ∈ l, e.OK W S) :
    ∃ y ws, encodeAll W S Ans.empty l = .ok y ∧
      intoCompressed { W := W, S := S, P := 1, B := 1 } y = some ws ∧
      ws.reverse = RansSpec.words W S (l.map (fun e => (e.P, e.cum, e.p))) := by
  have hempty : Inv { W := W, S := S, P := 1, B := 1 } Ans.empty :=
    ⟨Nat.two_pow_pos _, by simp [Ans.empty], by simp [Ans.empty]⟩
  obtain ⟨y, h1, h2, h3, h4, h5⟩ := encodeAll_mirrors l hl Ans.empty hempty rfl RansSpec.init ⟨rfl, rfl⟩
  refine ⟨y, _, h1, intoCompressed_none h3, ?_⟩
  unfold RansSpec.words
  simp only [List.foldl_map]
  rw [h4, h5, digits_eq_chunksLE (by omega) (S + 1) y.state
    (Nat.le_succ_of_le (bitlen_le_of_lt h2.1))]
  simp [chunksBE]

/-- non-vacuity: five symbols onto `AnsCoder<u8,u16>` at `P = 8`, including probabilities of one
    quantum, produce flushed words followed by the state -/
example : RansSpec.words 8 16 [(8, 3, 200), (8, 250, 6), (8, 0, 1), (8, 255, 1), (8, 255, 1)]
    = [0, 255, 255, 253] := by decide

end CV.Ans.C06

#print axioms CV.Ans.C06.encodeAll_mirrors
#print axioms CV.Ans.C06.ans_words_eq_spec
#print axioms CV.Ans.C06.inv_cfg
