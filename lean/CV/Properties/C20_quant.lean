import CV.Proofs.QuantExamples
import CV.Proofs.QuantCatLink
import CV.Proofs.QuantNoUb
import CV.Proofs.QuantPerfect
/-!
# C20 (component `quant`): no unsafe precondition of the float-derived models is reachable

`quantize.rs` no longer contains an `unsafe` block: after D25 (symbol-table iterator) and D27
(`quantile_function`) every conversion to `NonZero` is the checked `into_nonzero().expect(..)`.
A `Distribution` is a *safe* trait and may return anything, so the statements come in two forms:

* **for ARBITRARY distributions** (`gl`, `gr` any functions — non-monotone, outside `[0, 1]`,
  NaN …; any hint, any fuel): the encoder, the decoder and the symbol table never end in a
  `Fault.ub` (`C20_leaky_no_ub_for_any_distribution`).  What a broken CDF *can* reach are the
  documented **panics** ("Invalid underlying continuous probability distribution.", or an
  arithmetic-overflow panic in a checked build) — nowhere UB.  The pre-repair code reached
  `NonZero::new_unchecked(0)` from safe code in both places (D25, D27; reproducers in
  `corpus/quant/repro.txt`).
* **for valid distributions** (`GOk`) and for the categorical models under TB-F1/TB-F2: *no*
  `Fault` of any kind — no overflow of `symbol ± step` or of a probability, no failing
  `assert!`/`expect`/`panic!` (`C20_leaky_dec_no_fault`, `C20_leaky_table_no_fault`,
  `C20_leaky_enc_no_fault`, `C20_eager_enc_no_fault`, `C20_lazy_no_fault`).  The remaining unsafe
  sites on these paths are in `contiguous.rs` (`get_unchecked`, `into_nonzero_unchecked` of the
  eager encoder: `contiguous.enc.*`, discharged by `C20_eager_enc_no_fault` and by `cat`'s
  theorems from `ValidCdf`) and the `pmf.get_unchecked(..symbol)` of the lazy encoder, which is
  guarded by `pmf.get(symbol)?` (the model returns `.ok none` first: `C09_lazy_out_of_support`).

Label: **partial** by nature (DESIGN §6 C20): model-level obligations proved; memory behaviour
validated by the checked build (the invalid-CDF generator/oracle class runs under it).
-/
namespace CV.Quant
open CV

/-- **C20, the leaky quantizer has no reachable UB for ANY distribution**: whatever the two
    external functions return (no `GOk`), whatever the hint, the quantile, the symbol and the
    fuel, neither `left_cumulative_and_probability`, nor `quantile_function`, nor `symbol_table()`
    ends in a `Fault.ub` — only `.ok`, a panic fault, a missing recorded value or exhausted fuel -/
theorem C20_leaky_no_ub_for_any_distribution (m : LQ) (gl gr : Ext) :
    (∀ s site, m.enc gl gr s ≠ .error (.fault (.ub site))) ∧
    (∀ fuel hint q site, m.dec gl gr fuel hint q ≠ .error (.fault (.ub site))) ∧
    (∀ fuel s left site, m.table gl fuel s left ≠ .error (.fault (.ub site))) := by
  refine ⟨fun s site h => ?_, fun fuel hint q site h => ?_, fun fuel s left site h => ?_⟩
  · have := noUb_enc (m := m) (gl := gl) (gr := gr) s _ h; simp [SErr.isUb] at this
  · have := noUb_dec (m := m) (gl := gl) (gr := gr) fuel hint q _ h; simp [SErr.isUb] at this
  · have := noUb_table (m := m) (gl := gl) fuel s left _ h; simp [SErr.isUb] at this

/-- the D27 shape: a CDF that returns `2.0` at `min + 0.5` (`u8` symbols, `u8` probabilities,
    `P = 8`) makes `quantile_function` panic — it used to reach `NonZero::new_unchecked(0)` -/
example : (⟨⟨8, false⟩, 8, 8, 0, 3, 252⟩ : LQ).dec (fun _ => some 255) (fun _ => some 255) 40 0 5
    = .error (.fault (.panic "quant.dec.expect")) := by rfl

/-- **C20, `quantile_function`**: total, for every hint, no `Fault` (in particular the unchecked
    `NonZero` is sound and `symbol ± step` never overflows), and it stays inside the support -/
theorem C20_leaky_dec_no_fault {m : LQ} {g : Int → Nat} (ok : m.Ok) (gk : GOk m g) {q : Nat}
    (hq : q < 2 ^ m.P) (hint : Int) :
    ∃ a c p, m.dec (extL g) (extR g) (searchFuel m.t) hint q = .ok (a, c, p) ∧
      m.min ≤ a ∧ a ≤ m.max ∧ 0 < p := by
  obtain ⟨a, ha, hd⟩ := dec_correct ok gk hq hint (Nat.le_refl _)
  exact ⟨a, _, _, hd, ha.1, ha.2.1, (widthQ_bounds ok gk ha.1 ha.2.1).1⟩

example := C20_leaky_dec_no_fault (m := exLQwide) (g := fun _ => 0) (q := 4000) exLQwide_ok
  ⟨fun _ _ _ => Nat.le_refl _, fun _ _ _ => Nat.zero_le _⟩ (by decide) (-128)

/-- **C20, symbol-table iterator**: every `into_nonzero_unchecked` is sound, `symbol + 1` never
    overflows -/
theorem C20_leaky_table_no_fault {m : LQ} {g : Int → Nat} (ok : m.Ok) (gk : GOk m g) :
    ∃ tbl, m.table (extL g) ((m.max - m.min).toNat + 1) m.min 0 = .ok tbl ∧
      ∀ e ∈ tbl, 0 < e.2.2 := by
  refine ⟨_, table_eq ok gk, ?_⟩
  intro e he
  obtain ⟨h1, h2, _, h4⟩ := tableSpec_mem he
  have hlt := ok.hlt
  rw [h4]
  exact (widthQ_bounds ok gk h1 (by omega)).1

example : ∃ tbl, exLQ.table (extL exG) 7 (-3) 0 = .ok tbl ∧ ∀ e ∈ tbl, 0 < e.2.2 :=
  C20_leaky_table_no_fault exLQ_ok exG_ok

/-- **C20, encoder of the leakily quantised model**: the `expect` cannot fail -/
theorem C20_leaky_enc_no_fault {m : LQ} {g : Int → Nat} (ok : m.Ok) (gk : GOk m g) (s : Int) :
    ∃ r, m.enc (extL g) (extR g) s = .ok r := ⟨_, enc_eq ok gk s⟩

/-- **C20, eager `…_fast` model**: the constructor's plain `+` does not overflow and the
    encoder's `get_unchecked` / `into_nonzero_unchecked` are sound -/
theorem C20_eager_enc_no_fault {B P n : Nat} {h : Nat → Nat} (hP1 : 1 ≤ P) (hPB : P ≤ B)
    (hB : B ≤ 64) (hlen : lenOk P n = true) (tb : TBF1Fast h n) :
    ∃ cdf, fastCdf B P n (freeWeight B P n) h = .ok cdf ∧ ∀ s, ∃ r, eagerEnc B cdf s = .ok r := by
  have ok := FastOk.of_lenOk hP1 hPB hB hlen
  have hf := freeWeight_eq ok
  exact ⟨_, fastCdf_eq ok hf, fun s => ⟨_, eagerEnc_eq ok hf tb.mono s⟩⟩

/-- **C20, lazy model**: neither `expect` can fail, no `+` overflows, for every skip count
    allowed by TB-F2 -/
theorem C20_lazy_no_fault {B P n : Nat} {h : Nat → Nat} {k0 : Nat → Nat} (hP1 : 1 ≤ P)
    (hPB : P ≤ B) (hB : B ≤ 64) (hlen : lenOk P n = true) (tb : TBF1Fast h n)
    (t2 : TBF2 P n (freeWeight B P n) h k0) :
    (∀ s, ∃ r, lazyEnc B P n (freeWeight B P n) h s = .ok r) ∧
    (∀ q, q < 2 ^ P → ∃ s c p, lazyDec B P n (freeWeight B P n) h (k0 q) q = .ok (s, c, p) ∧
      s < n ∧ 0 < p) := by
  have ok := FastOk.of_lenOk hP1 hPB hB hlen
  have hf := freeWeight_eq ok
  refine ⟨fun s => ⟨_, lazyEnc_eq ok hf tb.mono s⟩, ?_⟩
  intro q hq
  obtain ⟨h1, h2, h3⟩ := t2 q hq
  obtain ⟨s, hs, hd⟩ := lazyDec_spec ok hB hf tb.mono hq h1 h2 h3
  exact ⟨s, _, _, hd, hs.1, width_pos ok hf tb.mono hs.1⟩

example := C20_lazy_no_fault (B := 16) (P := 12) (n := 4) (h := exH) (k0 := fun _ => 1)
  (by decide) (by decide) (by decide) (by decide) exTBF1 (by rw [exFree]; exact exTBF2)

/-- **C20, `…_perfect` constructors, first pass**: for every table of at most `2^P` entries (of any
    float type, with any values) the rejection logic and the first distribution pass end in
    `rejected` or `proceeds`, never in an overflow of `current_free_weight + 1` or of the
    subtraction from the remaining free weight — for any float semantics -/
theorem C20_perfect_first_pass_no_fault {F : Type} (o : FOps F) (toF64 : F → Float) {B P : Nat}
    (hPB : P ≤ B) (probs : List F) (hn : probs.length ≤ 2 ^ P) :
    perfectPre o toF64 B P probs = .rejected ∨ perfectPre o toF64 B P probs = .proceeds :=
  perfectPre_no_fault o toF64 hPB probs hn

example : perfectPre f64Ops id 16 12 ([0x3ff0000000000000, 0x4000000000000000].map f64Ops.ofBits)
    = .rejected ∨ perfectPre f64Ops id 16 12 ([0x3ff0000000000000, 0x4000000000000000].map f64Ops.ofBits) = .proceeds :=
  C20_perfect_first_pass_no_fault f64Ops id (by decide) _ (by decide)

end CV.Quant

#print axioms CV.Quant.C20_perfect_first_pass_no_fault
#print axioms CV.Quant.C20_leaky_no_ub_for_any_distribution
#print axioms CV.Quant.C20_leaky_dec_no_fault
#print axioms CV.Quant.C20_leaky_table_no_fault
#print axioms CV.Quant.C20_leaky_enc_no_fault
#print axioms CV.Quant.C20_eager_enc_no_fault
#print axioms CV.Quant.C20_lazy_no_fault
