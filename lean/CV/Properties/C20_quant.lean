import CV.Proofs.QuantExamples
import CV.Proofs.QuantCatLink
/-!
# C20 (component `quant`): the unsafe sites of the float-derived models are unreachable

Each `unsafe` occurrence in `quantize.rs`, `categorical/lazy_contiguous.rs` and on the encoder
path of the eager `…_fast` models is a `Fault.ub site` branch of the model:

| site | Rust | discharged by |
|------|------|---------------|
| `quant.dec.nonzero`   | `into_nonzero_unchecked` at the end of `quantile_function` | `C20_leaky_dec_no_fault` |
| `quant.table.nonzero` | `into_nonzero_unchecked` in the symbol-table iterator      | `C20_leaky_table_no_fault` |
| `contiguous.enc.index`, `contiguous.enc.nonzero` | `get_unchecked`, `into_nonzero_unchecked` in the eager encoder | `C20_eager_enc_no_fault` |
| `pmf.get_unchecked(..symbol)` (lazy encoder) | guarded by `pmf.get(symbol)?`: the model returns `none` first (`C09_lazy_out_of_support`) | — |

More strongly, *no* `Fault` of any kind (overflowing `+`/`-` on symbols or probabilities, the
`assert!`, `expect`, the "invalid distribution" `panic!`) is reachable: every theorem below has
the form "… `= .ok _`".  The hypotheses are those of C03 (`TBF1Fast`, `TBF2`, `GOk`); where they
fail (a distribution whose CDF is not monotone) the documented panics are reachable, which the
crate's documentation states.  Label: **partial** by nature (DESIGN §6 C20): model-level
obligations proved; memory behaviour validated by the checked build.
-/
namespace CV.Quant
open CV

/-- **C20, `quantile_function`**: total, for every hint, no `Fault` (in particular the unchecked
    `NonZero` is sound and `symbol ± step` never overflows), and it stays inside the support -/
theorem C20_leaky_dec_no_fault {m : LQ} {g : Int → Nat} (ok : m.Ok) (gk : GOk m g) {q : Nat}
    (hq : q < 2 ^ m.P) (hint : Int) :
    ∃ a c p, m.dec (extL g) (extR g) (searchFuel m.t) hint q = .ok (a, c, p) ∧
      m.min ≤ a ∧ a ≤ m.max ∧ 0 < p := by
  obtain ⟨a, ha, hd⟩ := dec_correct ok gk hq hint (Nat.le_refl _)
  exact ⟨a, _, _, hd, ha.1, ha.2.1, (widthQ_bounds ok gk ha.1 ha.2.1).1⟩

example := C20_leaky_dec_no_fault (m := exLQwide) (g := fun _ => 0) (q := 4000) exLQwide_ok
  ⟨fun _ _ _ => Nat.le_refl _, fun _ _ _ => Nat.zero_le _⟩ (by decide) (-128)

/-- **C20, symbol-table iterator**: every `into_nonzero_unchecked` is sound, `symbol + 1` never
    overflows -/
theorem C20_leaky_table_no_fault {m : LQ} {g : Int → Nat} (ok : m.Ok) (gk : GOk m g) :
    ∃ tbl, m.table (extL g) ((m.max - m.min).toNat + 1) m.min 0 = .ok tbl ∧
      ∀ e ∈ tbl, 0 < e.2.2 := by
  refine ⟨_, table_eq ok gk, ?_⟩
  intro e he
  obtain ⟨h1, h2, _, h4⟩ := tableSpec_mem he
  have hlt := ok.hlt
  rw [h4]
  exact (widthQ_bounds ok gk h1 (by omega)).1

example : ∃ tbl, exLQ.table (extL exG) 7 (-3) 0 = .ok tbl ∧ ∀ e ∈ tbl, 0 < e.2.2 :=
  C20_leaky_table_no_fault exLQ_ok exG_ok

/-- **C20, encoder of the leakily quantised model**: the `expect` cannot fail -/
theorem C20_leaky_enc_no_fault {m : LQ} {g : Int → Nat} (ok : m.Ok) (gk : GOk m g) (s : Int) :
    ∃ r, m.enc (extL g) (extR g) s = .ok r := ⟨_, enc_eq ok gk s⟩

/-- **C20, eager `…_fast` model**: the constructor's plain `+` does not overflow and the
    encoder's `get_unchecked` / `into_nonzero_unchecked` are sound -/
theorem C20_eager_enc_no_fault {B P n : Nat} {h : Nat → Nat} (hP1 : 1 ≤ P) (hPB : P ≤ B)
    (hB : B ≤ 64) (hlen : lenOk P n = true) (tb : TBF1Fast h n) :
    ∃ cdf, fastCdf B P n (freeWeight B P n) h = .ok cdf ∧ ∀ s, ∃ r, eagerEnc B cdf s = .ok r := by
  have ok := FastOk.of_lenOk hP1 hPB hB hlen
  have hf := freeWeight_eq ok
  exact ⟨_, fastCdf_eq ok hf, fun s => ⟨_, eagerEnc_eq ok hf tb.mono s⟩⟩

/-- **C20, lazy model**: neither `expect` can fail, no `+` overflows, for every skip count
    allowed by TB-F2 -/
theorem C20_lazy_no_fault {B P n : Nat} {h : Nat → Nat} {k0 : Nat → Nat} (hP1 : 1 ≤ P)
    (hPB : P ≤ B) (hB : B ≤ 64) (hlen : lenOk P n = true) (tb : TBF1Fast h n)
    (t2 : TBF2 P n (freeWeight B P n) h k0) :
    (∀ s, ∃ r, lazyEnc B P n (freeWeight B P n) h s = .ok r) ∧
    (∀ q, q < 2 ^ P → ∃ s c p, lazyDec B P n (freeWeight B P n) h (k0 q) q = .ok (s, c, p) ∧
      s < n ∧ 0 < p) := by
  have ok := FastOk.of_lenOk hP1 hPB hB hlen
  have hf := freeWeight_eq ok
  refine ⟨fun s => ⟨_, lazyEnc_eq ok hf tb.mono s⟩, ?_⟩
  intro q hq
  obtain ⟨h1, h2, h3⟩ := t2 q hq
  obtain ⟨s, hs, hd⟩ := lazyDec_spec ok hB hf tb.mono hq h1 h2 h3
  exact ⟨s, _, _, hd, hs.1, width_pos ok hf tb.mono hs.1⟩

example := C20_lazy_no_fault (B := 16) (P := 12) (n := 4) (h := exH) (k0 := fun _ => 1)
  (by decide) (by decide) (by decide) (by decide) exTBF1 (by rw [exFree]; exact exTBF2)

end CV.Quant

#print axioms CV.Quant.C20_leaky_dec_no_fault
#print axioms CV.Quant.C20_leaky_table_no_fault
#print axioms CV.Quant.C20_leaky_enc_no_fault
#print axioms CV.Quant.C20_eager_enc_no_fault
#print axioms CV.Quant.C20_lazy_no_fault
