import CV.Proofs.RangeReject
import CV.Proofs.RangeBatch
/-!
# C09 — Impossible symbols are rejected and leave the range encoder intact (component `range`)

The model functions are pure: `encode` returns *either* a new encoder *or* an error, so an
error result carries no encoder — the caller still holds the encoder it passed in, bit for
bit.  (In the Rust code the model lookup `left_cumulative_and_probability(..).ok_or_else(..)?`
precedes every assignment to `self`; the correspondence runs compare the raw parts after
every `encnone` op and the oracle after every out-of-support attempt.)

**Scope:** "coder intact after a failed call" is about `ImpossibleSymbol` only.  A failed
*backend write* may leave `range` updated (`queue.rs:571` assigns `self.state.range` before the
writes at 591/628); the modelled backend is a `Vec`, whose writes cannot fail, and C09 requires
write-failure atomicity only of the ANS coder.  `Fits`/`MsgFits`: head-room of the 64-bit
`usize` counters (see C02_range).
-/
namespace CV.Range

/-- **C09**: a symbol to which the model assigns probability zero is rejected with
    `ImpossibleSymbol` — for every encoder state whatsoever (any point of any history, also
    while words are held back), every model, every configuration; no new encoder is produced. -/
theorem C09_range_impossible_rejected {Sym : Type} (c : Cfg) (m : Model Sym) (e : Encoder)
    (s : Sym) (hs : m.enc s = none) : encode c m s e = .error .impossible :=
  encode_impossible hs

/-- conversely, on states satisfying the invariant `ImpossibleSymbol` is returned *only* for
    such symbols: the code's second `ImpossibleSymbol` exit (`scale · probability = 0`) is dead -/
theorem C09_range_impossible_iff {Sym : Type} {c : Cfg} (hc : RValid c) {m : Model Sym}
    (hm : m.WellFormed c.P) {e : Encoder} (hI : Inv c e) (hf : Fits c e 1) (s : Sym) :
    encode c m s e = .error .impossible ↔ m.enc s = none :=
  encode_impossible_iff hc hm hI hf s

/-- **history level**: in a history of encode attempts where the caller carries on with the same
    encoder after each rejection, the rejected attempts can be erased: the final encoder is
    that of the history without them. -/
theorem C09_range_attempts_erasure {Sym : Type} {c : Cfg} (xs : List (MStep Sym)) (e : Encoder)
    (hI : Inv c e) (hf : Fits c e (xs.filter MStep.possible).length)
    (hv : ∀ x ∈ xs, x.DecValid c) :
    encodeAttempts c e xs = encodeMsg c e (xs.filter MStep.possible) :=
  attempts_erasure xs e hI hf hv

/-- … hence everything encoded before, between and after rejected attempts still round-trips -/
theorem C09_range_roundtrip_after_rejections {Sym : Type} {c : Cfg} (hc : RValid c)
    (xs : List (MStep Sym)) (hn : MsgFits c (xs.filter MStep.possible).length)
    (hv : ∀ x ∈ xs, x.DecValid c) :
    ∃ e ws d0 d, encodeAttempts c (Encoder.empty c) xs = .ok e ∧
      intoCompressed c e = .ok ws ∧
      Decoder.fromCompressed c ws = .ok d0 ∧
      decodeMsg c d0 (xs.filter MStep.possible)
        = .ok ((xs.filter MStep.possible).map (·.sym), d) ∧
      d.maybeExhausted c = .ok true :=
  roundtrip_after_rejections hc xs hn hv

/-- **batch forms** (`encode_symbols`, `try_encode_symbols`, `encode_iid_symbols`): after a
    successful prefix, an `Err` item of the iterator or an impossible symbol stops the batch,
    the error is reported, and the encoder is exactly the one the prefix left — nothing of the
    failing item or of the rest has touched it -/
theorem C09_range_batch_partway_keeps_prefix {Sym : Type} (c : Cfg) (pre : List (Sym × Model Sym))
    (e ePre : Encoder) (h : encodeSymbols c e (pre.map some) = (ePre, .ok ()))
    (rest : List (Option (Sym × Model Sym))) :
    encodeSymbols c e (pre.map some ++ none :: rest) = (ePre, .error .model) ∧
    ∀ s m, m.enc s = none →
      encodeSymbols c e (pre.map some ++ some (s, m) :: rest)
        = (ePre, .error (.coding .impossible)) :=
  encodeSymbols_partway c pre e ePre h rest

/-! non-vacuity: symbol 0 of `cutModel 0 3 4`-style models has an empty interval; symbol 7 is
outside every `cutModel`; rejected while the encoder holds back a word -/
example : (cutModel 127 129 256).enc 7 = none := rfl
example : (cutModel 0 129 256).enc 0 = none := rfl
example : encode exCfg (cutModel 127 129 256) 7 exInverted = .error .impossible := by decide
example : Inv exCfg exInverted := exInverted_inv
example : ∀ x ∈ (exMsg.take 2 ++ [{ B := 8, P := 8, model := cutModel 0 129 256, sym := 0 }]
    ++ exMsg.drop 2 : List (MStep Nat)), x.DecValid exCfg := by
  intro x hx
  simp only [List.mem_append, List.mem_cons, List.mem_nil_iff, or_false] at hx
  rcases hx with (h | rfl) | h
  · exact ⟨(exMsg_valid x (List.mem_of_mem_take h)).1, (exMsg_valid x (List.mem_of_mem_take h)).2.1⟩
  · exact ⟨by decide, cutModel_wf (P := 8) (by omega) (by omega) (by omega) (by omega) (by omega)⟩
  · exact ⟨(exMsg_valid x (List.mem_of_mem_drop h)).1, (exMsg_valid x (List.mem_of_mem_drop h)).2.1⟩

end CV.Range

#print axioms CV.Range.C09_range_impossible_rejected
#print axioms CV.Range.C09_range_impossible_iff
#print axioms CV.Range.C09_range_attempts_erasure
#print axioms CV.Range.C09_range_roundtrip_after_rejections
#print axioms CV.Range.C09_range_batch_partway_keeps_prefix
