import CV.Proofs.ChainExample
import CV.Proofs.ChainBits
/-!
# C14 — Chain coder decoding is local: symbol `i` depends only on chunk `i` and model `i`

`CV.Chain.quantiles c n hc comp` (in `CV/Proofs/ChainLocal.lean`) lists the first `n`
`PRECISION`-bit chunks that the bit buffer `(hc, comp)` hands out.  It is defined from
`takeChunk` – the compressed half of `decode_symbol` – alone: neither an entropy model nor the
remainders side occurs in it.
-/
namespace CV.Chain.C14
open CV CV.Chain

variable {Sym : Type}

/-- **`locality`**: the symbols returned by `decode_symbols(models)` are exactly
    `zipWith (fun q m => m.quantile_function(q).symbol) (quantiles data) models`; the iterator
    reports an error iff `quantiles` runs out, and then it is `OutOfCompressedData`; the coder
    stays inside the invariant. -/
theorem locality {c : Cfg} (hc : c.Valid) (ms : List (Model Sym)) (x : Coder)
    (hms : ∀ m ∈ ms, m.WellFormed c.P) (hx : Inv c x) :
    (decodeSymbols c ms x).1 =
      List.zipWith (fun q m => (m.dec q).1)
        (quantiles c ms.length x.heads.compressed x.compressed) ms ∧
    ((decodeSymbols c ms x).2.2 = none ↔
      (quantiles c ms.length x.heads.compressed x.compressed).length = ms.length) ∧
    ((decodeSymbols c ms x).2.2 = none ∨ (decodeSymbols c ms x).2.2 = some .outOfData) ∧
    Inv c (decodeSymbols c ms x).2.1 :=
  CV.Chain.locality (CValid.of_valid hc) ms x hms hx

/-- the `i`-th symbol is what the `i`-th model assigns to the `i`-th chunk -/
theorem symbol_i {c : Cfg} (hc : c.Valid) (ms : List (Model Sym)) (x : Coder)
    (hms : ∀ m ∈ ms, m.WellFormed c.P) (hx : Inv c x) (i : Nat) :
    (decodeSymbols c ms x).1[i]? =
      match (quantiles c ms.length x.heads.compressed x.compressed)[i]?, ms[i]? with
      | some q, some m => some (m.dec q).1
      | _, _ => none :=
  locality_get (CValid.of_valid hc) ms x hms hx i

/-- **Replacing the model at one position** changes at most the symbol at that position and
    never whether / when the coder runs out of data. -/
theorem replace_model {c : Cfg} (hc : c.Valid) (ms : List (Model Sym)) (x : Coder)
    (hms : ∀ m ∈ ms, m.WellFormed c.P) (hx : Inv c x) (j : Nat) (m' : Model Sym)
    (hm' : m'.WellFormed c.P) :
    (decodeSymbols c ms x).1.length = (decodeSymbols c (ms.set j m') x).1.length ∧
    (decodeSymbols c ms x).2.2 = (decodeSymbols c (ms.set j m') x).2.2 ∧
    ∀ i : Nat, i ≠ j → (decodeSymbols c ms x).1[i]? = (decodeSymbols c (ms.set j m') x).1[i]? := by
  have hms' : ∀ m ∈ ms.set j m', m.WellFormed c.P := by
    intro m hm
    rcases List.mem_or_eq_of_mem_set hm with h | h
    · exact hms m h
    · rw [h]; exact hm'
  have hlen : ms.length = (ms.set j m').length := by simp
  obtain ⟨h1, h2, h3⟩ := locality_compare (CValid.of_valid hc) ms (ms.set j m') x x hms hms' hx hx hlen rfl
  refine ⟨h1, h2, fun i hij => h3 i ?_ rfl⟩
  rw [List.getElem?_set_ne (Ne.symm hij)]

/-- *(Superseded by `flip_bits_in_chunk` / `flip_bits_in_chunk_schedule`, which state the
    hypothesis on the data's bit positions instead of on the decoder-derived chunk lists; kept
    as the abstract form.)*  **Changing the data inside one chunk** (two coders whose chunk lists have the same length
    and agree everywhere except at position `j` – e.g. after flipping bits that belong to
    chunk `j`): at most the symbol at position `j` changes, and never whether / when the coder
    runs out of data. -/
theorem change_chunk {c : Cfg} (hc : c.Valid) (ms : List (Model Sym)) (x x' : Coder)
    (hms : ∀ m ∈ ms, m.WellFormed c.P) (hx : Inv c x) (hx' : Inv c x') (j : Nat)
    (hlen : (quantiles c ms.length x.heads.compressed x.compressed).length =
            (quantiles c ms.length x'.heads.compressed x'.compressed).length)
    (hsame : ∀ i : Nat, i ≠ j →
      (quantiles c ms.length x.heads.compressed x.compressed)[i]? =
      (quantiles c ms.length x'.heads.compressed x'.compressed)[i]?) :
    (decodeSymbols c ms x).1.length = (decodeSymbols c ms x').1.length ∧
    (decodeSymbols c ms x).2.2 = (decodeSymbols c ms x').2.2 ∧
    ∀ i : Nat, i ≠ j → (decodeSymbols c ms x).1[i]? = (decodeSymbols c ms x').1[i]? := by
  obtain ⟨h1, h2, h3⟩ := locality_compare (CValid.of_valid hc) ms ms x x' hms hms hx hx' rfl hlen
  exact ⟨h1, h2, fun i hij => h3 i rfl (hsame i hij)⟩

/-- **Changing the contents of the data arbitrarily** (same number of words on the compressed
    stack, same number of leftover bits in the head – in particular two coders freshly built
    by the same constructor from equally long data): whether and when the coder runs out of
    data is unchanged – unconditionally –, and the symbol at every position whose chunk is
    unchanged is unchanged.  Flipping bits that belong to chunk `j` therefore changes at most
    symbol `j`. -/
theorem change_data {c : Cfg} (hc : c.Valid) (ms : List (Model Sym)) (x x' : Coder)
    (hms : ∀ m ∈ ms, m.WellFormed c.P) (hx : Inv c x) (hx' : Inv c x')
    (hs : SameShape x.heads.compressed x'.heads.compressed)
    (hl : x.compressed.length = x'.compressed.length) :
    (decodeSymbols c ms x).1.length = (decodeSymbols c ms x').1.length ∧
    (decodeSymbols c ms x).2.2 = (decodeSymbols c ms x').2.2 ∧
    ∀ i : Nat,
      (quantiles c ms.length x.heads.compressed x.compressed)[i]? =
        (quantiles c ms.length x'.heads.compressed x'.compressed)[i]? →
      (decodeSymbols c ms x).1[i]? = (decodeSymbols c ms x').1[i]? := by
  have hv := CValid.of_valid hc
  have hlen := quantiles_length_shape hv ms.length x.heads.compressed x'.heads.compressed
    x.compressed x'.compressed hx.1.1 hx.1.2.1 hx'.1.1 hx'.1.2.1 hx.2.1 hx'.2.1 hs hl
  obtain ⟨h1, h2, h3⟩ := locality_compare hv ms ms x x' hms hms hx hx' rfl hlen
  exact ⟨h1, h2, fun i hq => h3 i rfl hq⟩

/-! ## literal form: which bits of the data make up chunk `i`

`Pos`, `bitOf`, `valOf`, `chunkPosV` are defined in `CV/Proofs/ChainBits.lean` on lists of bit
positions only (no coder arithmetic, no model, no remainders): `Pos.word i b` is bit `b` of the
`i`-th word of the compressed stack from the top, `Pos.head b` a leftover bit of the head below
its marker bit; `chunkPosV W Ps L idx m` lists the positions of the successive chunks, most
significant bit first, for per-symbol precisions `Ps`.  The bit string is *not* cut into
consecutive groups: the low `P` bits of a freshly read word are used first, its upper `W - P`
bits are kept below older leftover bits and used up in groups of `P` from the low end, a group
straddling into the older leftover bits when they run short. -/

/-- the chunk positions for `n` symbols at the coder's constant precision, for a coder with `k`
    leftover bits in its head and `m` words on the compressed stack -/
def chunkPos (c : Cfg) (n k m : Nat) : List (List Pos) :=
  chunkPosV c.W (List.replicate n c.P) (headPos k) 0 m

/-- **`symbol_i`, literally**: the `i`-th decoded symbol is what the `i`-th model assigns to the
    number spelled by the data bits at the positions `chunkPos …[i]`; the coder reports
    `OutOfCompressedData` exactly when there are fewer position lists than models. -/
theorem symbol_i_literal {c : Cfg} (hc : c.Valid) (ms : List (Model Sym)) (x : Coder)
    (hms : ∀ m ∈ ms, m.WellFormed c.P) (hx : Inv c x) {k : Nat}
    (hlo : 2^k ≤ x.heads.compressed) (hhi : x.heads.compressed < 2^(k + 1)) :
    (∀ i : Nat, (decodeSymbols c ms x).1[i]? =
      match (chunkPos c ms.length k x.compressed.length)[i]?, ms[i]? with
      | some ps, some m => some (m.dec (valOf (bitOf x.heads.compressed x.compressed) ps)).1
      | _, _ => none) ∧
    ((decodeSymbols c ms x).2.2 = none ↔
      (chunkPos c ms.length k x.compressed.length).length = ms.length) := by
  have hv := CValid.of_valid hc
  have hq := quantiles_eq_chunks hv hlo hhi hx.1.2.1 hx.2.1 ms.length
  refine ⟨fun i => ?_, ?_⟩
  · rw [locality_get hv ms x hms hx i, hq, List.getElem?_map]
    unfold chunkPos
    cases (chunkPosV c.W (List.replicate ms.length c.P) (headPos k) 0 x.compressed.length)[i]? <;>
      cases ms[i]? <;> rfl
  · rw [(CV.Chain.locality hv ms x hms hx).2.1, hq]
    simp [chunkPos]

/-- **Structure of the chunks**: chunk `i` consists of exactly `P` bit positions, each of them
    a real bit of the data (a leftover bit of the head or bit `t < W` of one of the words on the
    stack), none occurring twice, and no data bit belongs to two chunks. -/
theorem chunk_structure {c : Cfg} (hc : c.Valid) (n k m : Nat) :
    (∀ (i : Nat) (ps : List Pos), (chunkPos c n k m)[i]? = some ps → ps.length = c.P ∧ ps.Nodup ∧
      ∀ q ∈ ps, (∃ b, q = .head b ∧ b < k) ∨ ∃ j t, q = .word j t ∧ j < m ∧ t < c.W) ∧
    (∀ (i j : Nat) (a b : List Pos), i ≠ j → (chunkPos c n k m)[i]? = some a →
      (chunkPos c n k m)[j]? = some b → ∀ q ∈ a, q ∉ b) := by
  have hPs : ∀ P ∈ List.replicate n c.P, P ≤ c.W := by
    intro P hP
    obtain ⟨_, rfl⟩ := List.mem_replicate.mp hP
    obtain ⟨_, b, d, _⟩ := hc; omega
  refine ⟨?_, ?_⟩
  · intro i ps hps
    have hmem : ps ∈ chunkPos c n k m := List.mem_of_getElem? hps
    refine ⟨?_, (chunkPosV_pairwise c.W _ _ 0 m hPs (headPos_ok k 0).1 (headPos_ok k 0).2).2 ps hmem, ?_⟩
    · have := chunkPosV_length c.W _ _ 0 m hPs i ps hps
      rw [List.getElem?_replicate] at this
      split at this
      · injection this with h; exact h.symm
      · cases this
    · intro q hq
      rcases chunkPosV_valid c.W _ _ 0 m hPs ps hmem q hq with h | ⟨j, t, rfl, _, h2, h3⟩
      · obtain ⟨t, ht, rfl⟩ := mem_seg.mp h
        exact Or.inl ⟨0 + t, rfl, by omega⟩
      · exact Or.inr ⟨j, t, rfl, by omega, h3⟩
  · intro i j a b hij ha hb
    exact chunkPosV_disjoint hPs (headPos_ok k 0).1 (headPos_ok k 0).2 hij ha hb

/-- **Flipping bits inside chunk `j`**: two coders with the same amount of data (same number
    of leftover bits `k` in the head, equally many words on the stack) whose data agree on
    every bit position outside `chunkPos …[j]` decode – with the same models – the same symbols
    at every position `i ≠ j`, equally many of them, and report the same error (or none): at
    most symbol `j` changes and never whether or when the coder runs out of data. -/
theorem flip_bits_in_chunk {c : Cfg} (hc : c.Valid) (ms : List (Model Sym)) (x x' : Coder)
    (hms : ∀ m ∈ ms, m.WellFormed c.P) (hx : Inv c x) (hx' : Inv c x') {k : Nat}
    (hlo : 2^k ≤ x.heads.compressed) (hhi : x.heads.compressed < 2^(k + 1))
    (hlo' : 2^k ≤ x'.heads.compressed) (hhi' : x'.heads.compressed < 2^(k + 1))
    (hlen : x.compressed.length = x'.compressed.length) (j : Nat)
    (hsame : ∀ q, q ∉ ((chunkPos c ms.length k x.compressed.length)[j]?).getD [] →
      bitOf x.heads.compressed x.compressed q = bitOf x'.heads.compressed x'.compressed q) :
    (decodeSymbols c ms x).1.length = (decodeSymbols c ms x').1.length ∧
    (decodeSymbols c ms x).2.2 = (decodeSymbols c ms x').2.2 ∧
    ∀ i : Nat, i ≠ j → (decodeSymbols c ms x).1[i]? = (decodeSymbols c ms x').1[i]? := by
  have hv := CValid.of_valid hc
  obtain ⟨hql, hqi⟩ := quantiles_flip hv hlo hhi hx.1.2.1 hx.2.1 hlo' hhi' hx'.1.2.1 hx'.2.1 hlen
    ms.length j hsame
  obtain ⟨h1, h2, h3⟩ := locality_compare hv ms ms x x' hms hms hx hx' rfl hql
  exact ⟨h1, h2, fun i hij => h3 i rfl (hqi i hij)⟩

/-- A coder fresh from `from_binary` / `from_compressed` has an empty bit buffer (`k = 0`: all
    chunk positions are bits of words) and its compressed stack is the bottom part of the
    data, `data = D ++ compressed`: the top words `D` went into the remainders head.
    `from_binary` (which supplies a leading 1 itself) takes exactly `⌈(S-W-P)/W⌉` words;
    `from_compressed` (whose topmost word carries the marker bit and must be non-zero) takes at
    least one and at most `1 + ⌈(S-W-P)/W⌉`.  So `Pos.word i b` of a fresh coder is bit `b` of
    the data word number `D.length + i` from the top. -/
theorem fresh_coder_data {c : Cfg} (hc : c.Valid) (data : List Nat) (hd : Words c.W data) (x : Coder) :
    (fromBinary c data = some x →
      Inv c x ∧ 2^0 ≤ x.heads.compressed ∧ x.heads.compressed < 2^(0 + 1) ∧
      ∃ D, data = D ++ x.compressed ∧ c.S - c.W - c.P ≤ c.W * D.length ∧
        (D.length ≠ 0 → c.W * (D.length - 1) < c.S - c.W - c.P)) ∧
    (fromCompressed c data = some x →
      Inv c x ∧ 2^0 ≤ x.heads.compressed ∧ x.heads.compressed < 2^(0 + 1) ∧
      ∃ D, data = D ++ x.compressed ∧ 1 ≤ D.length ∧
        (2 ≤ D.length → c.W * (D.length - 2) < c.S - c.W - c.P)) := by
  have hP := (CValid.of_valid hc).precOk
  refine ⟨fun h => ?_, fun h => ?_⟩
  · obtain ⟨hI, _, _, _, hfin⟩ := fromBinary_spec hP hd h
    have h1 : x.heads.compressed = 1 := by
      by_cases h1 : x.heads.compressed = 1
      · exact h1
      · have := hfin [] []; simp [intoBinary, h1] at this
    exact ⟨hI, by rw [h1]; decide, by rw [h1]; decide, fromBinary_consumed hP hd h⟩
  · obtain ⟨hI, _, _, _, hfin⟩ := fromCompressed_spec hP hd h
    have h1 : x.heads.compressed = 1 := by
      by_cases h1 : x.heads.compressed = 1
      · exact h1
      · have := hfin [] []; simp [intoCompressed, h1] at this
    exact ⟨hI, by rw [h1]; decide, by rw [h1]; decide, fromCompressed_consumed hP hd h⟩

/-- **Structure of the chunks, per-symbol precisions**: for any precisions `Ps` (each `≤ W`),
    chunk `i` consists of exactly `Ps[i]` bit positions, all of them real bits of the data, none
    twice, and no data bit belongs to two chunks. -/
theorem chunk_structureV (W : Nat) (Ps : List Nat) (hPs : ∀ P ∈ Ps, P ≤ W) (k m : Nat) :
    (∀ (i : Nat) (ps : List Pos), (chunkPosV W Ps (headPos k) 0 m)[i]? = some ps →
      Ps[i]? = some ps.length ∧ ps.Nodup ∧
      ∀ q ∈ ps, (∃ b, q = .head b ∧ b < k) ∨ ∃ j t, q = .word j t ∧ j < m ∧ t < W) ∧
    (∀ (i j : Nat) (a b : List Pos), i ≠ j → (chunkPosV W Ps (headPos k) 0 m)[i]? = some a →
      (chunkPosV W Ps (headPos k) 0 m)[j]? = some b → ∀ q ∈ a, q ∉ b) := by
  refine ⟨?_, ?_⟩
  · intro i ps hps
    have hmem : ps ∈ chunkPosV W Ps (headPos k) 0 m := List.mem_of_getElem? hps
    refine ⟨chunkPosV_length W Ps _ 0 m hPs i ps hps,
      (chunkPosV_pairwise W Ps _ 0 m hPs (headPos_ok k 0).1 (headPos_ok k 0).2).2 ps hmem, ?_⟩
    intro q hq
    rcases chunkPosV_valid W Ps _ 0 m hPs ps hmem q hq with h | ⟨j, t, rfl, _, h2, h3⟩
    · obtain ⟨t, ht, rfl⟩ := mem_seg.mp h
      exact Or.inl ⟨0 + t, rfl, by omega⟩
    · exact Or.inr ⟨j, t, rfl, by omega, h3⟩
  · intro i j a b hij ha hb
    exact chunkPosV_disjoint hPs (headPos_ok k 0).1 (headPos_ok k 0).2 hij ha hb

/-- **Schedules that stop early, and where they stop.**  Run any schedule of decode steps and
    precision changes (`runDecE`: log of what was done + the error of the first failing step).
    The decoded symbols are a prefix of `zipWith (m.dec ·).1 chunks models`, the chunks being
    spelled by the data bits at `chunkPosV W Ps (headPos k) 0 m`; a decode step fails only
    with `OutOfCompressedData`, and exactly after `(chunkPosV …).length` symbols – a number
    that depends on the data only through its shape `(k, m)`; a precision change fails only
    with `OutOfRemainders`. -/
theorem schedule_runs_out {c : Cfg} (hc : c.Valid) (steps : List (Step Sym)) (x : Coder)
    (hs : StepsOk c steps) (hx : Inv c x) {k : Nat}
    (hlo : 2^k ≤ x.heads.compressed) (hhi : x.heads.compressed < 2^(k + 1)) :
    logSyms (runDecE c steps x).1 =
      (List.zipWith (fun q m => (m.dec q).1)
        ((chunkPosV c.W (decPrecs c.P steps) (headPos k) 0 x.compressed.length).map
          (valOf (bitOf x.heads.compressed x.compressed)))
        (decModels steps)).take (logSyms (runDecE c steps x).1).length ∧
    (∀ e, (runDecE c steps x).2.2.2 = some (.inl e) → e = .outOfData ∧
      (logSyms (runDecE c steps x).1).length =
        (chunkPosV c.W (decPrecs c.P steps) (headPos k) 0 x.compressed.length).length) ∧
    (∀ e, (runDecE c steps x).2.2.2 = some (.inr e) → e = .outOfRemainders) ∧
    ((runDecE c steps x).2.2.2 = none →
      (logSyms (runDecE c steps x).1).length = (decModels steps).length) := by
  have hP := (CValid.of_valid hc).precOk
  obtain ⟨h1, h2, h3, h4⟩ := locality_scheduleE steps c x hP hs hx
  obtain ⟨e1, _, _⟩ := quantilesV_flip (c := c) (decPrecs c.P steps) (decPrecs_ok steps c hs)
    hlo hhi hx.1.2.1 hx.2.1 hlo hhi hx.1.2.1 hx.2.1 rfl 0 (fun _ _ => rfl)
  rw [e1] at h1 h2
  refine ⟨h1, ?_, h3, fun h => (h4 h).2⟩
  intro e he
  obtain ⟨a, b, _⟩ := h2 e he
  exact ⟨a, by simpa using b⟩

/-- **Flipping bits inside chunk `j`, per-symbol precisions.**  Two coders with data of the same
    shape that agree on every bit outside `chunkPosV …[j]`, run through the same schedule: every
    symbol at a position `i ≠ j` that both runs reach is the same, and if either run stops
    with `OutOfCompressedData` it does so after the same number of symbols as the other would. -/
theorem flip_bits_in_chunk_schedule {c : Cfg} (hc : c.Valid) (steps : List (Step Sym)) (x x' : Coder)
    (hs : StepsOk c steps) (hx : Inv c x) (hx' : Inv c x') {k : Nat}
    (hlo : 2^k ≤ x.heads.compressed) (hhi : x.heads.compressed < 2^(k + 1))
    (hlo' : 2^k ≤ x'.heads.compressed) (hhi' : x'.heads.compressed < 2^(k + 1))
    (hlen : x.compressed.length = x'.compressed.length) (j : Nat)
    (hsame : ∀ q,
      q ∉ ((chunkPosV c.W (decPrecs c.P steps) (headPos k) 0 x.compressed.length)[j]?).getD [] →
      bitOf x.heads.compressed x.compressed q = bitOf x'.heads.compressed x'.compressed q) :
    (∀ (i : Nat) (s s' : Sym), i ≠ j → (logSyms (runDecE c steps x).1)[i]? = some s →
      (logSyms (runDecE c steps x').1)[i]? = some s' → s = s') ∧
    (∀ e e', (runDecE c steps x).2.2.2 = some (.inl e) → (runDecE c steps x').2.2.2 = some (.inl e') →
      (logSyms (runDecE c steps x).1).length = (logSyms (runDecE c steps x').1).length) := by
  have hP := (CValid.of_valid hc).precOk
  obtain ⟨a1, a2, _, _⟩ := locality_scheduleE steps c x hP hs hx
  obtain ⟨b1, b2, _, _⟩ := locality_scheduleE steps c x' hP hs hx'
  obtain ⟨e1, e2, hq⟩ := quantilesV_flip (c := c) (decPrecs c.P steps) (decPrecs_ok steps c hs)
    hlo hhi hx.1.2.1 hx.2.1 hlo' hhi' hx'.1.2.1 hx'.2.1 hlen j hsame
  refine ⟨?_, ?_⟩
  · intro i s s' hij hs1 hs2
    rw [a1] at hs1
    rw [b1] at hs2
    -- both are entries of the `zipWith` lists, which agree at `i`
    have t1 : ∀ {l : List Sym} {n : Nat} {v : Sym}, (l.take n)[i]? = some v → l[i]? = some v := by
      intro l n v h
      rw [List.getElem?_take] at h
      split at h
      · exact h
      · cases h
    have z1 := t1 hs1
    have z2 := t1 hs2
    rw [List.getElem?_zipWith] at z1 z2
    rw [hq i hij] at z1
    rw [z1] at z2
    injection z2
  · intro e e' he he'
    rw [(a2 e he).2.1, (b2 e' he').2.1, e1, e2]
    simp

/-- **Per-symbol precision.**  For a schedule of decode steps and `change_precision` calls that
    runs to completion, the decoded symbols are
    `zipWith (fun q m => m.dec q).1 chunks models`, where the chunks are the numbers spelled by
    the data bits at the positions `chunkPosV W Ps …` for the per-symbol precisions `Ps` –
    the same bit-position machine, now taking `Ps[i]` bits for chunk `i`.  Neither the
    remainders side nor the precision changes enter. -/
theorem locality_schedule_literal {c : Cfg} (hc : c.Valid) (steps : List (Step Sym)) (x : Coder)
    (hs : StepsOk c steps) (hx : Inv c x) {k : Nat}
    (hlo : 2^k ≤ x.heads.compressed) (hhi : x.heads.compressed < 2^(k + 1))
    {log : List (Done Sym)} {c' : Cfg} {y : Coder} (hrun : runDec c steps x = some (log, c', y)) :
    logSyms log = List.zipWith (fun q m => (m.dec q).1)
      ((chunkPosV c.W (decPrecs c.P steps) (headPos k) 0 x.compressed.length).map
        (valOf (bitOf x.heads.compressed x.compressed)))
      (decModels steps) := by
  have hP := (CValid.of_valid hc).precOk
  obtain ⟨h1, _⟩ := CV.Chain.locality_schedule steps c x hP hs hx log c' y hrun
  have hval : x.heads.compressed = 2^(headPos k).length +
      valOf (bitOf x.heads.compressed x.compressed) (headPos k) := by
    have hf : ∀ b, bitOf x.heads.compressed x.compressed (.head b) = x.heads.compressed / 2^b % 2 :=
      fun b => rfl
    rw [headPos, seg_length, valOf_seg hf 0 k]
    simp only [Nat.pow_zero, Nat.div_one]
    rw [Nat.pow_succ] at hhi
    have := Nat.div_add_mod x.heads.compressed (2^k)
    have hd : x.heads.compressed / 2^k = 1 := by
      apply Nat.div_eq_of_lt_le
      · rw [Nat.one_mul]; exact hlo
      · omega
    rw [hd] at this
    omega
  have := quantilesV_eq_chunks x.heads.compressed x.compressed hx.2.1 (decPrecs c.P steps)
    (headPos k) 0 x.heads.compressed (decPrecs_ok steps c hs) hval hx.1.2.1
  rw [h1]
  simp only [List.drop_zero, Nat.sub_zero] at this
  rw [this]

/-- For `PRECISION == Word::BITS` the chunks are the words of the compressed stack themselves,
    so "bits inside chunk `j`" are literally the bits of word `j`. -/
theorem chunks_word_aligned {c : Cfg} (hc : c.Valid) (hPW : c.P = c.W) (n hc' : Nat)
    (comp : List Nat) (hw : Words c.W comp) :
    quantiles c n hc' comp = comp.take n :=
  quantiles_word_aligned (CValid.of_valid hc) hPW n hc' comp hw

/-- the remainders side does not enter `quantiles` at all (by its type), and the chunk list only
    ever gets shorter by running out of data -/
theorem chunks_bounded (c : Cfg) (n hc : Nat) (comp : List Nat) :
    (quantiles c n hc comp).length ≤ n :=
  quantiles_length_le c n hc comp

/-! ## non-vacuity -/

example : exCfg.Valid ∧ Inv exCfg exCoder ∧
    (∀ m ∈ [tableModel [0, 1, 8], tableModel [0, 7, 8], tableModel [0, 4, 8]],
      m.WellFormed exCfg.P) := by
  refine ⟨exCfg_valid, exCoder_inv, ?_⟩
  intro m hm
  simp at hm
  rcases hm with rfl | rfl | rfl <;> exact wf_two (P := 3) (by decide) (by decide)

/-- the example coder (3 leftover bits in the head, two words on the stack) hands out six
    chunks and runs dry on the seventh request -/
example : quantiles exCfg 8 exCoder.heads.compressed exCoder.compressed = [0, 2, 2, 0, 0, 0] := by
  decide

/-- the chunk positions of the example coder (`W = 8`, `P = 3`, 3 leftover bits in the head, two
    words): chunk 0 is the head's three leftover bits, chunk 1 the low three bits of word 0,
    chunk 2 its bits 5…3, then word 1 is read; chunk 4 straddles: two old bits of word 0
    followed by … – and the data at these positions spell the chunks `[0, 2, 2, 0, 0, 0]` -/
example : chunkPos exCfg 8 3 2 =
    [[.head 2, .head 1, .head 0], [.word 0 2, .word 0 1, .word 0 0],
     [.word 0 5, .word 0 4, .word 0 3], [.word 1 2, .word 1 1, .word 1 0],
     [.word 1 5, .word 1 4, .word 1 3], [.word 0 6, .word 1 7, .word 1 6]] := by decide

example : 2^3 ≤ exCoder.heads.compressed ∧ exCoder.heads.compressed < 2^(3 + 1) := by decide

end CV.Chain.C14

#print axioms CV.Chain.C14.locality
#print axioms CV.Chain.C14.symbol_i
#print axioms CV.Chain.C14.replace_model
#print axioms CV.Chain.C14.change_chunk
#print axioms CV.Chain.C14.change_data
#print axioms CV.Chain.C14.symbol_i_literal
#print axioms CV.Chain.C14.chunk_structure
#print axioms CV.Chain.C14.flip_bits_in_chunk
#print axioms CV.Chain.C14.fresh_coder_data
#print axioms CV.Chain.C14.locality_schedule_literal
#print axioms CV.Chain.C14.chunk_structureV
#print axioms CV.Chain.C14.schedule_runs_out
#print axioms CV.Chain.C14.flip_bits_in_chunk_schedule
#print axioms CV.Chain.C14.chunks_word_aligned
#print axioms CV.Chain.C14.chunks_bounded
