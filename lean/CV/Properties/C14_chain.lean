import CV.Proofs.ChainExample
/-!
# C14 — Chain coder decoding is local: symbol `i` depends only on chunk `i` and model `i`

`CV.Chain.quantiles c n hc comp` (in `CV/Proofs/ChainLocal.lean`) lists the first `n`
`PRECISION`-bit chunks that the bit buffer `(hc, comp)` hands out.  It is defined from
`takeChunk` – the compressed half of `decode_symbol` – alone: neither an entropy model nor the
remainders side occurs in it.
-/
namespace CV.Chain.C14
open CV CV.Chain

variable {Sym : Type}

/-- **`locality`**: the symbols returned by `decode_symbols(models)` are exactly
    `zipWith (fun q m => m.quantile_function(q).symbol) (quantiles data) models`; the iterator
    reports an error iff `quantiles` runs out, and then it is `OutOfCompressedData`; the coder
    stays inside the invariant. -/
theorem locality {c : Cfg} (hc : c.Valid) (ms : List (Model Sym)) (x : Coder)
    (hms : ∀ m ∈ ms, m.WellFormed c.P) (hx : Inv c x) :
    (decodeSymbols c ms x).1 =
      List.zipWith (fun q m => (m.dec q).1)
        (quantiles c ms.length x.heads.compressed x.compressed) ms ∧
    ((decodeSymbols c ms x).2.2 = none ↔
      (quantiles c ms.length x.heads.compressed x.compressed).length = ms.length) ∧
    ((decodeSymbols c ms x).2.2 = none ∨ (decodeSymbols c ms x).2.2 = some .outOfData) ∧
    Inv c (decodeSymbols c ms x).2.1 :=
  CV.Chain.locality (CValid.of_valid hc) ms x hms hx

/-- the `i`-th symbol is what the `i`-th model assigns to the `i`-th chunk -/
theorem symbol_i {c : Cfg} (hc : c.Valid) (ms : List (Model Sym)) (x : Coder)
    (hms : ∀ m ∈ ms, m.WellFormed c.P) (hx : Inv c x) (i : Nat) :
    (decodeSymbols c ms x).1[i]? =
      match (quantiles c ms.length x.heads.compressed x.compressed)[i]?, ms[i]? with
      | some q, some m => some (m.dec q).1
      | _, _ => none :=
  locality_get (CValid.of_valid hc) ms x hms hx i

/-- **Replacing the model at one position** changes at most the symbol at that position and
    never whether / when the coder runs out of data. -/
theorem replace_model {c : Cfg} (hc : c.Valid) (ms : List (Model Sym)) (x : Coder)
    (hms : ∀ m ∈ ms, m.WellFormed c.P) (hx : Inv c x) (j : Nat) (m' : Model Sym)
    (hm' : m'.WellFormed c.P) :
    (decodeSymbols c ms x).1.length = (decodeSymbols c (ms.set j m') x).1.length ∧
    (decodeSymbols c ms x).2.2 = (decodeSymbols c (ms.set j m') x).2.2 ∧
    ∀ i : Nat, i ≠ j → (decodeSymbols c ms x).1[i]? = (decodeSymbols c (ms.set j m') x).1[i]? := by
  have hms' : ∀ m ∈ ms.set j m', m.WellFormed c.P := by
    intro m hm
    rcases List.mem_or_eq_of_mem_set hm with h | h
    · exact hms m h
    · rw [h]; exact hm'
  have hlen : ms.length = (ms.set j m').length := by simp
  obtain ⟨h1, h2, h3⟩ := locality_compare (CValid.of_valid hc) ms (ms.set j m') x x hms hms' hx hx hlen rfl
  refine ⟨h1, h2, fun i hij => h3 i ?_ rfl⟩
  rw [List.getElem?_set_ne (Ne.symm hij)]

/-- **Changing the data inside one chunk** (two coders whose chunk lists have the same length
    and agree everywhere except at position `j` – e.g. after flipping bits that belong to
    chunk `j`): at most the symbol at position `j` changes, and never whether / when the coder
    runs out of data. -/
theorem change_chunk {c : Cfg} (hc : c.Valid) (ms : List (Model Sym)) (x x' : Coder)
    (hms : ∀ m ∈ ms, m.WellFormed c.P) (hx : Inv c x) (hx' : Inv c x') (j : Nat)
    (hlen : (quantiles c ms.length x.heads.compressed x.compressed).length =
            (quantiles c ms.length x'.heads.compressed x'.compressed).length)
    (hsame : ∀ i : Nat, i ≠ j →
      (quantiles c ms.length x.heads.compressed x.compressed)[i]? =
      (quantiles c ms.length x'.heads.compressed x'.compressed)[i]?) :
    (decodeSymbols c ms x).1.length = (decodeSymbols c ms x').1.length ∧
    (decodeSymbols c ms x).2.2 = (decodeSymbols c ms x').2.2 ∧
    ∀ i : Nat, i ≠ j → (decodeSymbols c ms x).1[i]? = (decodeSymbols c ms x').1[i]? := by
  obtain ⟨h1, h2, h3⟩ := locality_compare (CValid.of_valid hc) ms ms x x' hms hms hx hx' rfl hlen
  exact ⟨h1, h2, fun i hij => h3 i rfl (hsame i hij)⟩

/-- **Changing the contents of the data arbitrarily** (same number of words on the compressed
    stack, same number of leftover bits in the head – in particular two coders freshly built
    by the same constructor from equally long data): whether and when the coder runs out of
    data is unchanged – unconditionally –, and the symbol at every position whose chunk is
    unchanged is unchanged.  Flipping bits that belong to chunk `j` therefore changes at most
    symbol `j`. -/
theorem change_data {c : Cfg} (hc : c.Valid) (ms : List (Model Sym)) (x x' : Coder)
    (hms : ∀ m ∈ ms, m.WellFormed c.P) (hx : Inv c x) (hx' : Inv c x')
    (hs : SameShape x.heads.compressed x'.heads.compressed)
    (hl : x.compressed.length = x'.compressed.length) :
    (decodeSymbols c ms x).1.length = (decodeSymbols c ms x').1.length ∧
    (decodeSymbols c ms x).2.2 = (decodeSymbols c ms x').2.2 ∧
    ∀ i : Nat,
      (quantiles c ms.length x.heads.compressed x.compressed)[i]? =
        (quantiles c ms.length x'.heads.compressed x'.compressed)[i]? →
      (decodeSymbols c ms x).1[i]? = (decodeSymbols c ms x').1[i]? := by
  have hv := CValid.of_valid hc
  have hlen := quantiles_length_shape hv ms.length x.heads.compressed x'.heads.compressed
    x.compressed x'.compressed hx.1.1 hx.1.2.1 hx'.1.1 hx'.1.2.1 hx.2.1 hx'.2.1 hs hl
  obtain ⟨h1, h2, h3⟩ := locality_compare hv ms ms x x' hms hms hx hx' rfl hlen
  exact ⟨h1, h2, fun i hq => h3 i rfl hq⟩

/-- For `PRECISION == Word::BITS` the chunks are the words of the compressed stack themselves,
    so "bits inside chunk `j`" are literally the bits of word `j`. -/
theorem chunks_word_aligned {c : Cfg} (hc : c.Valid) (hPW : c.P = c.W) (n hc' : Nat)
    (comp : List Nat) (hw : Words c.W comp) :
    quantiles c n hc' comp = comp.take n :=
  quantiles_word_aligned (CValid.of_valid hc) hPW n hc' comp hw

/-- the remainders side does not enter `quantiles` at all (by its type), and the chunk list only
    ever gets shorter by running out of data -/
theorem chunks_bounded (c : Cfg) (n hc : Nat) (comp : List Nat) :
    (quantiles c n hc comp).length ≤ n :=
  quantiles_length_le c n hc comp

/-! ## non-vacuity -/

example : exCfg.Valid ∧ Inv exCfg exCoder ∧
    (∀ m ∈ [tableModel [0, 1, 8], tableModel [0, 7, 8], tableModel [0, 4, 8]],
      m.WellFormed exCfg.P) := by
  refine ⟨exCfg_valid, exCoder_inv, ?_⟩
  intro m hm
  simp at hm
  rcases hm with rfl | rfl | rfl <;> exact wf_two (P := 3) (by decide) (by decide)

/-- the example coder (3 leftover bits in the head, two words on the stack) hands out six
    chunks and runs dry on the seventh request -/
example : quantiles exCfg 8 exCoder.heads.compressed exCoder.compressed = [0, 2, 2, 0, 0, 0] := by
  decide

end CV.Chain.C14

#print axioms CV.Chain.C14.locality
#print axioms CV.Chain.C14.symbol_i
#print axioms CV.Chain.C14.replace_model
#print axioms CV.Chain.C14.change_chunk
#print axioms CV.Chain.C14.change_data
#print axioms CV.Chain.C14.chunks_word_aligned
#print axioms CV.Chain.C14.chunks_bounded
