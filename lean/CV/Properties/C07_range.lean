import CV.Proofs.RangeDecTotal
/-!
# C07 — Random access for the range coder (component `range`)
-/
namespace CV.Range

/-- **C07**: split any message as `pre ++ post`; take the encoder's `pos()` after `pre` (also
    while words are held back: `pos` counts them), finish and seal.  *Any* decoder over the
    sealed words (whatever its current position/state, however often it has sought before —
    `seek` is a function of its argument) that seeks to the snapshot decodes exactly `post` and
    is then possibly exhausted.  `post = []` is "seeking to the final position". -/
theorem C07_range_seek_resumes {Sym : Type} {c : Cfg} (hc : RValid c)
    (pre' post : List (MStep Sym)) (hn : MsgFits c (pre' ++ post).length)
    (hv : ∀ x ∈ pre' ++ post, x.Valid c) :
    ∃ ei e ws snap, encodeMsg c (Encoder.empty c) pre' = .ok ei ∧ ei.pos = .ok snap ∧
      encodeMsg c ei post = .ok e ∧ intoCompressed c e = .ok ws ∧
      ∀ d : Decoder, d.data = ws →
        ∃ d' d'', d.seek c snap.1 snap.2.1 snap.2.2 = .ok d' ∧
          decodeMsg c d' post = .ok (post.map (·.sym), d'') ∧
          d''.maybeExhausted c = .ok true :=
  seek_resumes hc pre' post hn hv

/-- positions beyond the data are rejected (and, the function being pure, nothing changes) -/
theorem C07_range_seek_beyond_rejected {c : Cfg} {d : Decoder} {pos lower range : Nat}
    (h : d.data.length < pos) : d.seek c pos lower range = .error .rejected :=
  seek_beyond h

/-- `seek` to a position inside the data constructs exactly the state a sequential decoder has
    at the reference state with that scale and those registers -/
theorem C07_range_seek_eq_sequential {c : Cfg} (hc : RValid c) {ws : List Nat}
    (hw : WordsOK c ws) {d : Decoder} (hd : d.data = ws) {st : RangeSpec.St}
    {pos lower range : Nat} (hpos : pos ≤ ws.length) (hm : st.m = pos)
    (hl : lower = st.Lo % 2^c.S) (hr : range = st.R) :
    ∃ d', d.seek c pos lower range = .ok d' ∧ DRel c st ws d' :=
  seek_eq hc hw hd hpos hm hl hr

/-! non-vacuity: the snapshot after two symbols of `exMsg` is taken in the inverted situation -/
example : ∀ x ∈ exMsg.take 2 ++ exMsg.drop 2, x.Valid exCfg := by
  rw [List.take_append_drop]; exact exMsg_valid
example : encodeMsg exCfg (Encoder.empty exCfg) (exMsg.take 2) = .ok exInverted := ex_prefix
example : exInverted.pos = .ok (1, 58624, 25600) := by decide
example : MsgFits exCfg (exMsg.take 2 ++ exMsg.drop 2).length := by decide

/-! ## Sinks that write back to front: open finding D33

`C07_range_seek_resumes` is about a sink whose position grows (the model's `bulk` list; `Vec`,
`SmallVec`, `Cursor`).  `Reverse<Cursor>` over a buffer of `L` words stores the `j`-th written word
at index `L - 1 - j` and reports the position `L - k` after `k` writes; a reversed decoder at
position `p` reads the word that was written `(L - p)`-th next.  So the forward position
`bulk.len() + held` of the theorem corresponds to the reversed position `L - (bulk.len() + held)`,
whereas `RangeEncoder::pos` computes `bulk.pos() + held = (L - bulk.len()) + held`. -/

/-- what `RangeEncoder::pos` reports over `Reverse<Cursor>` with a buffer of `L` words -/
def Encoder.posReverseSink (L : Nat) (e : Encoder) : Nat := (L - e.bulk.length) + e.situation.held

/-- the reversed position that corresponds to the forward snapshot of `C07_range_seek_resumes` -/
def Encoder.correctReversePos (L : Nat) (e : Encoder) : Nat := L - (e.bulk.length + e.situation.held)

/-- **D33**: the reported position is right iff no word is held back; otherwise it is off by twice
    the number of held words -/
theorem D33_reverse_sink_pos (L : Nat) (e : Encoder) (h : e.bulk.length + e.situation.held ≤ L) :
    e.posReverseSink L = e.correctReversePos L + 2 * e.situation.held ∧
    (e.posReverseSink L = e.correctReversePos L ↔ e.situation.held = 0) := by
  unfold Encoder.posReverseSink Encoder.correctReversePos
  constructor <;> omega

/-- the inverted example: a buffer of 4 words, nothing written yet, one word held — the encoder
    reports position 5, beyond the buffer (the reversed decoder rejects the seek); 3 is correct -/
example : exInverted.posReverseSink 4 = 5 ∧ exInverted.correctReversePos 4 = 3 := by decide

end CV.Range

#print axioms CV.Range.D33_reverse_sink_pos
#print axioms CV.Range.C07_range_seek_resumes
#print axioms CV.Range.C07_range_seek_beyond_rejected
#print axioms CV.Range.C07_range_seek_eq_sequential
