import CV.Proofs.CatModels
/-!
# C09 (component `cat`): symbols outside the support are rejected before any narrowing

The Impl models take the symbol as an unbounded `Nat` (a `usize`, or any label type), so "for
every symbol value, however large" is literal.  The coder half of C09 (a failed encode leaves
the coder intact) belongs to the coder components and rests only on `enc s = none`.
`C09_generic_encoder` assumes pairwise distinct labels (`Nodup`); a generic encoder built from
a non-contiguous decoder with repeated symbols is the open known finding described in
`C05_cat.lean` (it still answers `None` outside the label list, but is not the decoder's model).
-/
namespace CV.Cat
open CV

/-- contiguous model: every index `≥ support_size` — `2^16`, `2^32 + 3`, `usize::MAX`, … — gives
    `None`; the comparison happens in `usize` -/
theorem C09_contiguous {B P : Nat} {m : Contiguous} (h : ValidCdf B P m.cdf) (hP : P ≤ B)
    (s : Nat) (hs : m.cdf.length - 1 ≤ s) : m.enc B s = .ok none := by
  have hl := h.length_eq
  rw [Contiguous.enc_eq h hP s, specEnc_none (by omega)]

/-- uniform model (after the D9 repair): every symbol `≥ range` gives `None`, in particular one
    that would alias an in-range symbol after truncation to `Probability` -/
theorem C09_uniform {B P range : Nat} (hP : P ≤ B) (h2 : 2 ≤ range) (hle : range ≤ 2 ^ P)
    (s : Nat) (hs : range ≤ s) :
    Uniform.enc B P { ppb := 2 ^ P / range, last := range - 1 } s = .ok none := by
  rw [Uniform.enc_eq hP h2 hle s, specEnc_none (by rw [uniExt_length]; omega)]

theorem C09_uniform_alias {B P range : Nat} (hP : P ≤ B) (h2 : 2 ≤ range) (hle : range ≤ 2 ^ P)
    (s : Nat) (hbig : 2 ^ B ≤ s) (_halias : s % 2 ^ B < range) :
    Uniform.enc B P { ppb := 2 ^ P / range, last := range - 1 } s = .ok none :=
  C09_uniform hP h2 hle s (by have := pow_le_pow_of_le hP; omega)

/-- the same for whatever `UniformModel::new` returned -/
theorem C09_uniform_new {B P range : Nat} {u : Uniform} (hP1 : 1 ≤ P) (hP : P ≤ B) (hPU : P ≤ U)
    (hr : range < 2 ^ U) (h : Uniform.new B P range = .ok u) (s : Nat) (hs : range ≤ s) :
    u.enc B P s = .ok none := by
  obtain ⟨h2, hle, rfl⟩ := Uniform.new_inv hP1 hP hPU hr h
  exact C09_uniform hP h2 hle s hs

/-- hash-table encoder: a symbol that is not one of the constructor's symbols gives `None` -/
theorem C09_ncenc {Sym : Type} [DecidableEq Sym] [Inhabited Sym] {B P : Nat}
    {syms : List Sym} {probs : List Nat} {infer : Bool} {m : NcEnc Sym}
    (hP1 : 1 ≤ P) (hP : P ≤ B) (hprobs : ∀ p ∈ probs, p < 2 ^ B)
    (h : NcEnc.fromSymbolsAndNonzeroFixedPoint B P syms probs infer = some m)
    (s : Sym) (hs : s ∉ syms) : m.enc s = none := by
  obtain ⟨qs, _, _, hlen, _, htbl⟩ := NcEnc.fromFixed_some hP1 hP hprobs h
  rw [NcEnc.enc_of_specTable (ext := extOf qs) (by rw [extOf_length]; omega) htbl s]
  simp only [labelledModel, if_neg hs]

/-- generic encoder (`to_generic_encoder_model`) of any model with table `specTable lab ext` -/
theorem C09_generic_encoder {Sym : Type} [DecidableEq Sym] [Inhabited Sym]
    (lab : Nat → Sym) (ext : List Nat) (hnd : (labelsOf lab (ext.length - 1)).Nodup)
    (s : Sym) (hs : s ∉ labelsOf lab (ext.length - 1)) :
    (NcEnc.fromTable (specTable lab ext)).enc s = none := by
  rw [generic_encoder lab ext hnd s]
  simp only [labelledModel, if_neg hs]

/-! non-vacuity: `UniformModel::<u8, 8>::new(10)` and the symbol `259 = 256 + 3` -/
example : Uniform.new 8 8 10 = .ok { ppb := 25, last := 9 } := by rfl
example : Uniform.enc 8 8 { ppb := 25, last := 9 } 259 = .ok none := by rfl
example : Uniform.enc 8 8 { ppb := 25, last := 9 } 3 = .ok (some (75, 25)) := by rfl
example : Contiguous.enc 8 { cdf := [0, 100, 200, 0] } (2 ^ 32 + 1) = .ok none := by rfl

#print axioms C09_contiguous
#print axioms C09_uniform
#print axioms C09_uniform_alias
#print axioms C09_uniform_new
#print axioms C09_ncenc
#print axioms C09_generic_encoder

end CV.Cat
