import CV.Properties.C01_ans
import CV.Proofs.AnsMisc
/-!
# C07 (ANS part) — seeking to a recorded position resumes decoding exactly there
-/
namespace CV.Ans.C07
open CV CV.Ans

variable {Sym : Type}

/-- pushing any entries onto `x` only prepends words to the bulk (`Vec` order: appends) -/
theorem replay_bulk_suffix (W S : Nat) (x : Coder) (g : List (C01.Entry Sym)) :
    ∃ pre, (C01.replay W S x g).bulk = pre ++ x.bulk ∧ (C01.replay W S x g).cap = x.cap := by
  induction g with
  | nil => exact ⟨[], rfl, rfl⟩
  | cons e g ih =>
    obtain ⟨pre, h1, h2⟩ := ih
    simp only [C01.replay]
    split
    · rename_i cum p _
      obtain ⟨pre', h'⟩ := encArith_bulk_suffix (c := e.cfg W S) (C01.replay W S x g) cum p
      refine ⟨pre' ++ pre, ?_, ?_⟩
      · rw [h', h1, List.append_assoc]
      · rw [C01.encArith_cap, h2]
    · exact ⟨pre, h1, h2⟩

/-- **Random access (stack coder).** Take a snapshot `(pos, state)` of the coder at any symbol
    boundary, keep encoding anything, and later `seek` a decoder over the finished data to the
    snapshot — from wherever it was, any number of times: the coder is *exactly* the
    coder at the time of the snapshot, so (C01) decoding yields the symbols encoded before it.
    Positions beyond the data are refused. -/
theorem seek_restores_snapshot (W S : Nat) (x : Coder) (later : List (C01.Entry Sym)) :
    seek (C01.replay W S x later) (pos x) = some x := by
  obtain ⟨pre, h1, h2⟩ := replay_bulk_suffix W S x later
  exact seek_snapshot x _ h2 pre h1


/-- `Seek::seek` of a decoder over a `Cursor` holding the finished data (what
    `as_seekable_decoder` / `into_seekable_decoder` give; `Cursor::seek` only moves the position;
    `C17_ans_cursor_seek` shows this is the image of the backend model) -/
def seekCursor (data : List Nat) (p : Nat × Nat) : Option Coder :=
  if p.1 ≤ data.length then
    some { bulk := (data.take p.1).reverse, state := p.2, cap := some data.length }
  else none

/-- **Random access through a cursor, from wherever the decoder is.** `data` is the finished
    bulk of the encoder (in `Vec` order) after anything was encoded on top of `x`; seeking a
    cursor-backed decoder over `data` to the snapshot taken from `x` — independently of the
    decoder's current position and state, which `seekCursor` does not even read — yields
    exactly the coder `x` (up to the backend's capacity field). -/
theorem seek_cursor_restores_snapshot (W S : Nat) (x : Coder) (later : List (C01.Entry Sym)) :
    seekCursor (C01.replay W S x later).bulk.reverse (pos x)
      = some { x with cap := some (C01.replay W S x later).bulk.length } := by
  obtain ⟨pre, h1, _⟩ := replay_bulk_suffix W S x later
  unfold seekCursor pos
  simp only [h1, List.reverse_append, List.length_append, List.length_reverse]
  have hle : x.bulk.length ≤ x.bulk.length + pre.length := Nat.le_add_right _ _
  rw [Nat.add_comm pre.length] 
  simp only [hle, if_true]
  have : ((x.bulk.reverse ++ pre.reverse).take x.bulk.length).reverse = x.bulk := by
    rw [← List.length_reverse, List.take_left, List.reverse_reverse]
  rw [this]

theorem seek_cursor_out_of_range (data : List Nat) (p : Nat × Nat) (h : data.length < p.1) :
    seekCursor data p = none := by
  unfold seekCursor
  have : ¬ p.1 ≤ data.length := by omega
  simp only [this, if_false]

theorem seek_is_idempotent (x y : Coder) (hcap : y.cap = x.cap) (pre : List Nat)
    (h : y.bulk = pre ++ x.bulk) :
    (seek y (pos x)).bind (fun z => seek z (pos x)) = some x := by
  rw [seek_snapshot x y hcap pre h]
  exact seek_snapshot x x rfl [] rfl

theorem seek_out_of_range_rejected (y : Coder) (p : Nat × Nat) (h : y.bulk.length < p.1) :
    seek y p = none :=
  seek_beyond y p h

end CV.Ans.C07

#print axioms CV.Ans.C07.replay_bulk_suffix
#print axioms CV.Ans.C07.seek_restores_snapshot
#print axioms CV.Ans.C07.seek_is_idempotent
#print axioms CV.Ans.C07.seek_cursor_restores_snapshot
#print axioms CV.Ans.C07.seek_cursor_out_of_range
#print axioms CV.Ans.C07.seek_out_of_range_rejected
