import CV.Proofs.ChainExample
import CV.Proofs.ChainTotal
/-!
# C13 — Chain coder: decoding then re-encoding restores the original data exactly

All statements are about the Impl model `CV.Chain` (`CV/Model/Chain.lean`), for every
`Cfg` the crate allows.  `CValid c` (`1 ≤ P ≤ B ≤ W`, `W + P ≤ S`) is what the chain coder's own
static assertions and trait bounds require; it is implied by `Cfg.Valid` (`CValid.of_valid`),
so every theorem below holds in particular for all `c.Valid`.  `PrecOk W S q` is the part that
does not involve an entropy model.  Stacks are lists with the top of the stack first.
-/
namespace CV.Chain.C13
open CV CV.Chain

variable {Sym : Type}

/-- Every `Cfg.Valid` configuration is one the theorems of this file cover. -/
theorem covers_all_valid {c : Cfg} (h : c.Valid) : CValid c ∧ PrecOk c.W c.S c.P :=
  ⟨CValid.of_valid h, (CValid.of_valid h).precOk⟩

/-- **Head invariants are preserved** by every operation: the three constructors establish
    them on any word list, `decode`, `encode` and `change_precision` preserve them. -/
theorem head_invariants_preserved {c : Cfg} (hc : c.Valid) :
    (∀ data x, Words c.W data → fromBinary c data = some x → Inv c x) ∧
    (∀ data x, Words c.W data → fromCompressed c data = some x → Inv c x) ∧
    (∀ data x, Words c.W data → fromRemainders c data = some x → Inv c x) ∧
    (∀ (m : Model Sym) x s y, m.WellFormed c.P → Inv c x → decode c m x = .ok (s, y) → Inv c y) ∧
    (∀ (m : Model Sym) x s y, m.WellFormed c.P → Inv c x → encode c m s x = .ok y → Inv c y) ∧
    (∀ q x y, PrecOk c.W c.S q → Inv c x → changePrecision c q x = .ok y → Inv (withP c q) y) := by
  have hv := CValid.of_valid hc
  have hP := hv.precOk
  refine ⟨fun data x hd h => (fromBinary_spec hP hd h).1,
    fun data x hd h => (fromCompressed_spec hP hd h).1,
    fun data x hd h => (fromRemainders_inv hP hd h).1, ?_, ?_, ?_⟩
  · intro m x s y hm hx hd
    rcases decode_spec hv hm hx with ⟨herr, _⟩ | ⟨s', y', _, hdec, hy, _⟩
    · rw [herr] at hd; cases hd
    · rw [hdec] at hd; cases hd; exact hy
  · intro m x s y hm hx he
    cases hs : m.enc s with
    | none => simp [encode, hs] at he
    | some cp =>
      obtain ⟨cum, p⟩ := cp
      rcases encode_spec hv hm hx hs with ⟨herr, _⟩ | ⟨y', henc, hy, _⟩
      · rw [herr] at he; cases he
      · rw [henc] at he; cases he; exact hy
  · intro q x y hq hx hcp
    rcases changePrecision_spec hP hq hx with ⟨herr, _⟩ | ⟨y', h, hy, _⟩
    · rw [herr] at hcp; cases hcp
    · rw [h] at hcp; cases hcp; exact hy

/-- **`enc_dec_step`**: decoding a symbol and encoding it back with the same model restores the
    coder exactly – heads and both stacks (bit-buffer branch agreement and remainders branch
    agreement are inside `takeChunk_ok` / `absorb_ok`). -/
theorem enc_dec_step {c : Cfg} (hc : c.Valid) {m : Model Sym} (hm : m.WellFormed c.P)
    {x : Coder} (hx : Inv c x) {s : Sym} {y : Coder} (h : decode c m x = .ok (s, y)) :
    Inv c y ∧ encode c m s y = .ok x := by
  rcases decode_spec (CValid.of_valid hc) hm hx with ⟨herr, _⟩ | ⟨s', y', _, hdec, hy, _, _, _, D, hD, henc⟩
  · rw [herr] at h; cases h
  · rw [hdec] at h; cases h
    refine ⟨hy, ?_⟩
    have := henc y.compressed []
    simpa [← hD] using this

/-- the converse step: what was encoded decodes again and the coder is restored -/
theorem dec_enc_step {c : Cfg} (hc : c.Valid) {m : Model Sym} (hm : m.WellFormed c.P)
    {x : Coder} (hx : Inv c x) {s : Sym} {y : Coder} (h : encode c m s x = .ok y) :
    Inv c y ∧ decode c m y = .ok (s, x) := by
  cases hs : m.enc s with
  | none => simp [encode, hs] at h
  | some cp =>
    obtain ⟨cum, p⟩ := cp
    rcases encode_spec (CValid.of_valid hc) hm hx hs with ⟨herr, _⟩ | ⟨y', henc, hy, hdec⟩
    · rw [herr] at h; cases h
    · rw [henc] at h; cases h; exact ⟨hy, hdec⟩

/-- **`precision_inverse`**: a successful `change_precision::<q>()` followed by
    `change_precision::<P>()` is the identity (all four threshold cases: flush ↔ refill,
    nothing ↔ nothing, in both directions), and the intermediate coder satisfies the invariant
    of precision `q`. -/
theorem precision_inverse {c : Cfg} {q : Nat} (hP : PrecOk c.W c.S c.P) (hQ : PrecOk c.W c.S q)
    {x : Coder} (hx : Inv c x) {y : Coder} (h : changePrecision c q x = .ok y) :
    Inv (withP c q) y ∧ changePrecision (withP c q) c.P y = .ok x := by
  rcases changePrecision_spec hP hQ hx with ⟨herr, _⟩ | ⟨y', h', hy, hcomp, _, hback⟩
  · rw [herr] at h; cases h
  · rw [h'] at h; cases h
    refine ⟨hy, ?_⟩
    have := hback y.compressed []
    have e1 : ({ compressed := y.compressed, remainders := y.remainders ++ [], heads := y.heads } : Coder)
        = y := by cases y; simp
    have e2 : ({ compressed := y.compressed, remainders := x.remainders ++ [], heads := x.heads } : Coder)
        = x := by rw [hcomp]; cases x; simp
    rw [e1, e2] at this
    exact this

/-- **`remainders_export_import`**: `from_remainders(into_remainders(x).suffix)` has the heads
    and the remainders stack of `x` (and an empty compressed stack); the same holds with the
    unused prefix – or any other words `T` – below the suffix, which then stay below the
    remainders stack untouched: the refill loop stops after exactly the flushed words. -/
theorem remainders_export_import {c : Cfg} (hP : PrecOk c.W c.S c.P) {x : Coder} (hx : Inv c x) :
    ∃ suf, intoRemainders c x = .ok (x.compressed, suf) ∧
      ∀ T, fromRemainders c (suf ++ T)
        = some { compressed := [], remainders := x.remainders ++ T, heads := x.heads } := by
  obtain ⟨F, _, h1, h2⟩ := intoRemainders_spec hP hx
  refine ⟨_, h1, fun T => ?_⟩
  have := h2 T
  simpa using this

/-- **History-level inverse.**  See `CV.Chain.undo_restores`. -/
theorem undo_restores (steps : List (Step Sym)) (c : Cfg) (x : Coder)
    (hP : PrecOk c.W c.S c.P) (hs : StepsOk c steps) (hx : Inv c x)
    (log : List (Done Sym)) (c' : Cfg) (y : Coder) (hrun : runDec c steps x = some (log, c', y)) :
    Inv c' y ∧ ∃ D, x.compressed = D ++ y.compressed ∧
      ∀ K T, runUndo c' log.reverse
          { compressed := K, remainders := y.remainders ++ T, heads := y.heads }
        = some (c, { compressed := D ++ K, remainders := x.remainders ++ T, heads := x.heads }) := by
  obtain ⟨h1, _, _, D, h2, h3⟩ := CV.Chain.undo_restores steps c x hP hs hx log c' y hrun
  exact ⟨h1, D, h2, h3⟩

/-- **`restore_binary`**: arbitrary data (zero words included), any schedule of decode steps and
    precision changes, all three documented ways of re-importing the remainders, undone in
    reverse, `into_binary` ⇒ the original words. -/
theorem restore_binary {c : Cfg} (hc : c.Valid) {data : List Nat}
    (hd : Words c.W data) {x0 : Coder} (h0 : fromBinary c data = some x0)
    {steps : List (Step Sym)} (hs : StepsOk c steps) {log : List (Done Sym)} {c' : Cfg} {y : Coder}
    (hrun : runDec c steps x0 = some (log, c', y)) :
    RestoresAll intoBinary c c' log y data :=
  CV.Chain.restore_binary (CValid.of_valid hc).precOk hd h0 hs hrun

/-- **`restore_compressed`**: the same for data accepted by `from_compressed` (last word
    non-zero) and `into_compressed`. -/
theorem restore_compressed {c : Cfg} (hc : c.Valid) {data : List Nat}
    (hd : Words c.W data) {x0 : Coder} (h0 : fromCompressed c data = some x0)
    {steps : List (Step Sym)} (hs : StepsOk c steps) {log : List (Done Sym)} {c' : Cfg} {y : Coder}
    (hrun : runDec c steps x0 = some (log, c', y)) :
    RestoresAll intoCompressed c c' log y data :=
  CV.Chain.restore_compressed (CValid.of_valid hc).precOk hd h0 hs hrun

/-- `from_compressed` rejects a zero word on top and the empty list (so that
    `restore_compressed` speaks about exactly the documented inputs). -/
theorem fromCompressed_rejects (c : Cfg) (rest : List Nat) :
    fromCompressed c [] = none ∧ fromCompressed c (0 :: rest) = none := by
  simp [fromCompressed, headsNew]

/-- **`errors_not_garbage`** (single step): on a coder satisfying the invariant, with
    well-formed models, each operation either succeeds or reports exactly its documented
    error, raised before anything was changed (the model is functional: the caller still holds
    `x`) and for the documented reason – never a fault, never a wrong result:
    * `decode`: `OutOfCompressedData`, iff a word was needed and the compressed stack is empty;
    * `encode` of an in-support symbol: `OutOfRemainders`, iff a refill was needed and the
      remainders stack is empty;
    * `change_precision`: `OutOfRemainders`, only when decreasing with an empty stack. -/
theorem errors_not_garbage {c : Cfg} (hc : c.Valid) {m : Model Sym} (hm : m.WellFormed c.P)
    {x : Coder} (hx : Inv c x) :
    (∀ e, decode c m x = .error e →
        e = .outOfData ∧ x.compressed = [] ∧ (c.P = c.W ∨ x.heads.compressed < 2^c.P)) ∧
    (∀ s cum p e, m.enc s = some (cum, p) → encode c m s x = .error e →
        e = .outOfRemainders ∧ x.remainders = [] ∧
          x.heads.remainders < p * 2^(c.S - c.W - c.P)) ∧
    (∀ q e, PrecOk c.W c.S q → changePrecision c q x = .error e →
        e = .outOfRemainders ∧ x.remainders = [] ∧ q < c.P) := by
  have hv := CValid.of_valid hc
  refine ⟨?_, ?_, ?_⟩
  · intro e he
    rcases decode_spec hv hm hx with ⟨herr, h1, h2, _⟩ | ⟨s, y, _, hdec, _⟩
    · rw [herr] at he; cases he; exact ⟨rfl, h1, h2⟩
    · rw [hdec] at he; cases he
  · intro s cum p e hs he
    rcases encode_spec hv hm hx hs with ⟨herr, h1, h2⟩ | ⟨y, henc, _⟩
    · rw [herr] at he; cases he; exact ⟨rfl, h1, h2⟩
    · rw [henc] at he; cases he
  · intro q e hq he
    rcases changePrecision_spec hv.precOk hq hx with ⟨herr, h1, h2, _⟩ | ⟨y, h, _⟩
    · rw [herr] at he; cases he; exact ⟨rfl, h1, h2⟩
    · rw [h] at he; cases he

/-- **`errors_not_garbage`** (history level).  See `CV.Chain.runDec_error`. -/
theorem errors_not_garbage_history (steps : List (Step Sym)) (c : Cfg) (x : Coder)
    (hP : PrecOk c.W c.S c.P) (hs : StepsOk c steps) (hx : Inv c x)
    (h : runDec c steps x = none) :
    ∃ pre st post log c1 y1, steps = pre ++ st :: post ∧
      runDec c pre x = some (log, c1, y1) ∧ Inv c1 y1 ∧
      ((∃ B m, st = .dec B m ∧ decode (withB c1 B) m y1 = .error .outOfData ∧
          y1.compressed = []) ∨
       (∃ q, st = .prec q ∧ changePrecision c1 q y1 = .error .outOfRemainders ∧
          y1.remainders = [] ∧ q < c1.P)) :=
  runDec_error steps c x hP hs hx h

/-- the exporters never fault on a coder satisfying the invariant (loops terminate, the
    subtraction and the `debug_assert!` in `into_binary` never fire) -/
theorem exporters_no_fault {c : Cfg} (hP : PrecOk c.W c.S c.P) {x : Coder} (hx : Inv c x) :
    (∃ r, intoRemainders c x = .ok r) ∧
    (intoCompressed c x = .error .notWhole ∨ ∃ r, intoCompressed c x = .ok r) ∧
    (intoBinary c x = .error .notWhole ∨ ∃ r, intoBinary c x = .ok r) := by
  have hW : 1 ≤ c.W := by obtain ⟨h1, h2, _⟩ := hP; omega
  have hr : x.heads.remainders ≠ 0 := by
    have := hx.1.2.2.1; have := pow_pos2 (c.S - c.W - c.P); omega
  refine ⟨intoRemainders_no_fault hW x, ?_, intoBinary_no_fault hW hr⟩
  rcases intoCompressed_no_fault hW x with ⟨h, _⟩ | h
  · exact Or.inl h
  · exact Or.inr h

/-! ## non-vacuity: concrete instances satisfying the hypotheses -/

/-- a valid configuration, data with zero words, a schedule with precision changes
    3 → 5 → 2 → 8 and models with probabilities of 1 and `2^P - 1` quanta, `P = B = W = 8` at
    the end: `from_binary` succeeds and the schedule runs to completion … -/
example : ∃ x0 log c' y, exCfg.Valid ∧ Words exCfg.W exData ∧ StepsOk exCfg exSteps ∧
    fromBinary exCfg exData = some x0 ∧ runDec exCfg exSteps x0 = some (log, c', y) := by
  obtain ⟨x0, log, c', y, h1, h2, _⟩ := exRun_binary
  exact ⟨x0, log, c', y, exCfg_valid, exData_words, exSteps_ok, h1, h2⟩

/-- … hence `restore_binary` applies to it -/
example : ∃ x0 log c' y, fromBinary exCfg exData = some x0 ∧
    runDec exCfg exSteps x0 = some (log, c', y) ∧ RestoresAll intoBinary exCfg c' log y exData := by
  obtain ⟨x0, log, c', y, h1, h2, _⟩ := exRun_binary
  exact ⟨x0, log, c', y, h1, h2, restore_binary exCfg_valid exData_words h1 exSteps_ok h2⟩

example : ∃ x0 log c' y, fromCompressed exCfg exData = some x0 ∧
    runDec exCfg exSteps x0 = some (log, c', y) ∧
    RestoresAll intoCompressed exCfg c' log y exData := by
  obtain ⟨x0, log, c', y, h1, h2, _⟩ := exRun_compressed
  exact ⟨x0, log, c', y, h1, h2, restore_compressed exCfg_valid exData_words h1 exSteps_ok h2⟩

/-- a coder with both heads exactly on their thresholds satisfies the invariant, and a model
    with a one-quantum symbol is well-formed -/
example : Inv exCfg exCoder ∧ (tableModel [0, 1, 8]).WellFormed exCfg.P :=
  ⟨exCoder_inv, wf_two (by decide) (by decide)⟩

/-- hypotheses of `enc_dec_step` / `dec_enc_step`: the example coder decodes (its compressed
    head is exactly `2^P`, so the buffer branch is taken) and encodes (refill branch, since its
    remainders head is exactly `2^(S-W-P)`) -/
example : (∃ s y, decode exCfg (tableModel [0, 1, 8]) exCoder = .ok (s, y)) ∧
    (∃ y, encode exCfg (tableModel [0, 1, 8]) 1 exCoder = .ok y) :=
  ⟨⟨_, _, rfl⟩, ⟨_, rfl⟩⟩

/-- hypotheses of `precision_inverse`, increasing (3 → 8) and decreasing (3 → 1, with refill) -/
example : PrecOk exCfg.W exCfg.S 8 ∧ PrecOk exCfg.W exCfg.S 1 ∧
    (∃ y, changePrecision exCfg 8 exCoder = .ok y) ∧
    (∃ y, changePrecision exCfg 1 exCoder = .ok y ∧ y.remainders = []) :=
  ⟨by decide, by decide, ⟨_, rfl⟩, ⟨_, rfl, rfl⟩⟩

/-- `errors_not_garbage` is not vacuous either: an exhausted coder reports `outOfData`, a
    coder without remainders refuses to decrease the precision -/
example : decode exCfg (tableModel [0, 1, 8])
      { compressed := [], remainders := [], heads := { compressed := 1, remainders := 32 } }
      = .error .outOfData ∧
    changePrecision exCfg 1
      { compressed := [], remainders := [], heads := { compressed := 1, remainders := 32 } }
      = .error .outOfRemainders :=
  ⟨rfl, rfl⟩

example : ({ W := 8, S := 16, P := 8, B := 8 } : Cfg).Valid := by decide
example : ({ W := 64, S := 128, P := 32, B := 32 } : Cfg).Valid := by decide

end CV.Chain.C13

#print axioms CV.Chain.C13.covers_all_valid
#print axioms CV.Chain.C13.head_invariants_preserved
#print axioms CV.Chain.C13.enc_dec_step
#print axioms CV.Chain.C13.dec_enc_step
#print axioms CV.Chain.C13.precision_inverse
#print axioms CV.Chain.C13.remainders_export_import
#print axioms CV.Chain.C13.undo_restores
#print axioms CV.Chain.C13.restore_binary
#print axioms CV.Chain.C13.restore_compressed
#print axioms CV.Chain.C13.fromCompressed_rejects
#print axioms CV.Chain.C13.errors_not_garbage
#print axioms CV.Chain.C13.errors_not_garbage_history
#print axioms CV.Chain.C13.exporters_no_fault
