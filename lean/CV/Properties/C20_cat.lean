import CV.Proofs.CatArbitrary
/-!
# C20 (component `cat`): no `Fault.ub` site is reachable for constructed models

Each `unsafe` precondition of the integer entropy models (`get_unchecked` bounds,
`into_nonzero_unchecked`, `unreachable_unchecked` after `binary_search_by`) is a
`Fault.ub "<site>"` branch of the Impl model.  For every model a constructor or conversion
can return, every query returns `.ok _` — or, for the lookup decoders at `P < B` and an
out-of-contract quantile `≥ 2^P` (a `Probability` value, `< 2^B`), the documented `assert!` panic.  Constructors and
conversions themselves return `.ok` or a clean rejection / panic.
-/
namespace CV.Cat
open CV

/-- the transcribed `slice::binary_search_by` on a sorted slice: no out-of-bounds access -/
theorem C20_binary_search {a : List Nat} (h : a.Pairwise (· < ·)) (q : Nat) :
    ∃ k, bsearch a q = .ok k ∧ k ≤ a.length := by
  obtain ⟨k, hk, hle, _, _⟩ := bsearch_spec q (MonoIdx.of_pairwise h)
  exact ⟨k, hk, hle⟩

/-- contiguous model (also as a view): encoder lookup for every `usize`, quantile function for
    every `Probability` value, symbol table -/
theorem C20_contiguous {B P : Nat} {m : Contiguous} (h : ValidCdf B P m.cdf) (hP : P ≤ B) :
    (∀ s, ∃ r, m.enc B s = .ok r) ∧ (∀ q, ∃ r, m.dec B q = .ok r) ∧ (∃ t, m.table B = .ok t) ∧
    (∃ n, m.supportSize = .ok n) :=
  ⟨fun s => ⟨_, Contiguous.enc_eq h hP s⟩, fun q => cdfQuantile_total h hP q,
   ⟨_, Contiguous.table_eq h hP⟩,
   ⟨m.cdf.length - 1, by unfold Contiguous.supportSize csub; rw [if_pos (by have := h.three_le; omega)]⟩⟩

/-- non-contiguous decoder model -/
theorem C20_ncdec {Sym : Type} [Inhabited Sym] {B P : Nat} {m : NcDec Sym}
    (h : ValidCdf B P (m.cdf.map (·.1))) (hP : P ≤ B) :
    (∀ q, ∃ r, m.dec B q = .ok r) ∧ (∃ t, m.table B = .ok t) :=
  ⟨fun q => NcDec.dec_total h hP q, ⟨_, NcDec.table_eq h hP⟩⟩

/-- lookup decoders: in range ⇒ `.ok`; out of range ⇒ the `assert!` (only possible if
    `P < B`); never an unchecked out-of-bounds index or a zero `NonZero` -/
theorem C20_lookup {B P : Nat} {tbl : Array Nat} {cs : List Nat} (h : ValidCdf B P cs) (hP : P ≤ B)
    (hok : LookupOK P (unwrap P cs) tbl) (q : Nat) (hqB : q < 2 ^ B) :
    (q < 2 ^ P ∧ ∃ r, lookupQuantile B P tbl cs q = .ok r) ∨
    (2 ^ P ≤ q ∧ P < B ∧
      lookupQuantile B P tbl cs q = .error (.panic "lookup.quantile_function.assert")) := by
  rcases Nat.lt_or_ge q (2 ^ P) with hq | hq
  · exact Or.inl ⟨hq, _, lookupQuantile_eq h hP hok hq⟩
  · rcases Nat.lt_or_ge P B with hlt | hge
    · exact Or.inr ⟨hq, hlt, lookupQuantile_out_of_range (by omega) (by omega)⟩
    · have : P = B := by omega
      subst this
      omega

/-- non-contiguous lookup decoder (the extra unchecked access to the symbol) -/
theorem C20_nclookup {Sym : Type} [DecidableEq Sym] [Inhabited Sym] {B P : Nat}
    {labels : List Sym} {ext : List Nat} {last : Sym} {tbl : Array Nat}
    (h : ValidExt P ext) (hlen : labels.length + 1 = ext.length) (hP : P ≤ B)
    (hok : LookupOK P ext tbl) (q : Nat) (hqB : q < 2 ^ B) :
    let l : NcLookup Sym := { tbl := tbl, cdf := ncCdf B P labels ext last }
    (q < 2 ^ P ∧ ∃ r, l.dec B P q = .ok r) ∨
    (2 ^ P ≤ q ∧ P < B ∧ l.dec B P q = .error (.panic "lookup.quantile_function.assert")) := by
  intro l
  rcases Nat.lt_or_ge q (2 ^ P) with hq | hq
  · exact Or.inl ⟨hq, _, NcLookup.dec_canon h hlen hP hok hq⟩
  · rcases Nat.lt_or_ge P B with hlt | hge
    · refine Or.inr ⟨hq, hlt, ?_⟩
      simp only [l, NcLookup.dec]
      rw [lookupQuantile_out_of_range (by omega) (by omega)]
    · have : P = B := by omega
      subst this
      omega

/-- uniform model: constructor, encoder lookup, quantile function (any `Probability` value),
    symbol table -/
theorem C20_uniform {B P range : Nat} (hP1 : 1 ≤ P) (hP : P ≤ B) (hPU : P ≤ U)
    (hr : range < 2 ^ U) :
    (∀ site, Uniform.new B P range ≠ .error (.ub site)) ∧
    (∀ u, Uniform.new B P range = .ok u →
      (∀ s, ∃ r, u.enc B P s = .ok r) ∧ (∀ q, ∃ r, u.dec B P q = .ok r) ∧
      (∃ t, u.table B P = .ok t)) := by
  by_cases hv : 2 ≤ range ∧ range ≤ 2 ^ P
  · have hnew := Uniform.new_ok hP1 hP hPU hr hv.1 hv.2
    refine ⟨fun site => by rw [hnew]; simp, ?_⟩
    intro u hu
    rw [hnew] at hu
    simp only [Except.ok.injEq] at hu
    subst hu
    exact ⟨fun s => ⟨_, Uniform.enc_eq hP hv.1 hv.2 s⟩, fun q => Uniform.dec_total hP hv.1 hv.2 q,
      ⟨_, Uniform.table_eq hP hr hv.1 hv.2⟩⟩
  · obtain ⟨site, hs⟩ := Uniform.new_panics hP1 hP hv
    refine ⟨fun site' => by rw [hs]; simp, ?_⟩
    intro u hu; rw [hs] at hu; simp at hu

/-- constructors and conversions never fault on what they are given by other constructors -/
theorem C20_constructors {Sym : Type} [DecidableEq Sym] [Inhabited Sym] {B P : Nat}
    (hP1 : 1 ≤ P) (hP : P ≤ B) :
    (∀ (syms : List Sym) (probs : List Nat) (infer : Bool), (∀ p ∈ probs, p < 2 ^ B) →
      ∃ r, NcDec.fromSymbolsAndNonzeroFixedPoint B P syms probs infer = .ok r) ∧
    (∀ (syms : List Sym) (probs : List Nat) (infer : Bool), (∀ p ∈ probs, p < 2 ^ B) →
      ∃ r, NcLookup.fromSymbolsAndNonzeroFixedPoint B P syms probs infer = .ok r) ∧
    (∀ (m : Contiguous), ValidCdf B P m.cdf → ∃ l, Lookup.fromContiguous B P m = .ok l) ∧
    (∀ (lab : Nat → Sym) (ext : List Nat), ValidExt P ext →
      (∃ md, NcDec.fromTable B P (specTable lab ext) = .ok md) ∧
      (∃ ml, NcLookup.fromTable B P (specTable lab ext) = .ok ml)) := by
  refine ⟨?_, ?_, ?_, ?_⟩
  · intro syms probs infer hprobs
    rcases NcDec.fromFixed_some (syms := syms) (infer := infer) hP1 hP hprobs with h | ⟨m, _, _, h, _⟩
    · exact ⟨_, h⟩
    · exact ⟨_, h⟩
  · intro syms probs infer hprobs
    rcases NcLookup.fromFixed_some (syms := syms) (infer := infer) hP1 hP hprobs with h | ⟨m, _, _, h, _⟩
    · exact ⟨_, h⟩
    · exact ⟨_, h⟩
  · intro m h
    obtain ⟨tbl, hl, _⟩ := Lookup.fromContiguous_ok h hP
    exact ⟨_, hl⟩
  · intro lab ext h
    obtain ⟨md, d1, _⟩ := generic_decoder (B := B) lab h hP1 hP
    obtain ⟨ml, l1, _⟩ := generic_lookup (B := B) lab h hP
    exact ⟨⟨md, d1⟩, ⟨ml, l1⟩⟩

/-- **No UB for ANY symbol table (D31, D32).**  `IterableEntropyModel` is a safe trait, so the
    table handed to `from_iterable_entropy_model` / `to_generic_decoder_model` /
    `to_generic_lookup_decoder_model` can be an arbitrary list of `(symbol, left, probability)`
    entries of the right type (`Typed B t`: probabilities are `NonZero`, values `< 2^B`) — not
    starting at zero, with gaps, overlaps, too little or too much mass, repeated symbols, empty.
    The decoder constructor then either panics cleanly or returns a model whose
    `quantile_function` returns normally for EVERY `Probability` value; the lookup constructor
    (with or without debug assertions) either panics cleanly or returns a model whose
    `quantile_function` returns normally below `2^P` and hits the documented `assert!` above.
    No `Fault.ub` site is reachable.  (The hash-table encoder's `from_iterable_entropy_model`
    and lookup are total functions without unsafe code: `NcEnc.fromTable`, `NcEnc.enc`.) -/
theorem C20_noncontiguous_no_ub_for_any_symbol_table {Sym : Type} [DecidableEq Sym] [Inhabited Sym]
    {B P : Nat} (hP1 : 1 ≤ P) (hP : P ≤ B) (t : List (Sym × Nat × Nat)) (ht : Typed B t) :
    ((∃ site, NcDec.fromTable B P t = .error (.panic site)) ∨
      (∃ m, NcDec.fromTable B P t = .ok m ∧ ∀ q, ∃ r, m.dec B q = .ok r)) ∧
    (∀ dbg, (∃ site, NcLookup.fromTableWith B P dbg t = .error (.panic site)) ∨
      (∃ m, NcLookup.fromTableWith B P dbg t = .ok m ∧
        (∀ q, q < 2 ^ P → ∃ r, m.dec B P q = .ok r) ∧
        (∀ q, 2 ^ P ≤ q → q < 2 ^ B →
          m.dec B P q = .error (.panic "lookup.quantile_function.assert")))) := by
  refine ⟨NcDec.fromTable_arbitrary hP1 hP ht, fun dbg => ?_⟩
  rcases NcLookup.fromTableWith_arbitrary hP dbg ht with h | ⟨m, hm, hq⟩
  · exact Or.inl h
  · refine Or.inr ⟨m, hm, hq, ?_⟩
    intro q hq1 hq2
    have hne : B ≠ P := by
      intro e; subst e; omega
    simp only [NcLookup.dec]
    rw [lookupQuantile_out_of_range hne (by omega)]

/-- the same, phrased as "never `Fault.ub`" -/
theorem C20_noncontiguous_never_ub {Sym : Type} [DecidableEq Sym] [Inhabited Sym]
    {B P : Nat} (hP1 : 1 ≤ P) (hP : P ≤ B) (t : List (Sym × Nat × Nat)) (ht : Typed B t)
    (site : String) :
    NcDec.fromTable B P t ≠ .error (.ub site) ∧
    (∀ m q, NcDec.fromTable B P t = .ok m → m.dec B q ≠ .error (.ub site)) ∧
    (∀ dbg, NcLookup.fromTableWith B P dbg t ≠ .error (.ub site)) ∧
    (∀ dbg m q, q < 2 ^ B → NcLookup.fromTableWith B P dbg t = .ok m →
      m.dec B P q ≠ .error (.ub site)) := by
  obtain ⟨hd, hl⟩ := C20_noncontiguous_no_ub_for_any_symbol_table hP1 hP t ht
  refine ⟨?_, ?_, ?_, ?_⟩
  · rcases hd with ⟨s, h⟩ | ⟨m, h, _⟩ <;> rw [h] <;> simp
  · intro m q hm
    rcases hd with ⟨s, h⟩ | ⟨m', h, hq⟩
    · rw [h] at hm; simp at hm
    · rw [h] at hm
      simp only [Except.ok.injEq] at hm
      subst hm
      obtain ⟨r, hr⟩ := hq q
      rw [hr]; simp
  · intro dbg
    rcases hl dbg with ⟨s, h⟩ | ⟨m, h, _⟩ <;> rw [h] <;> simp
  · intro dbg m q hqB hm
    rcases hl dbg with ⟨s, h⟩ | ⟨m', h, hlo, hhi⟩
    · rw [h] at hm; simp at hm
    · rw [h] at hm
      simp only [Except.ok.injEq] at hm
      subst hm
      rcases Nat.lt_or_ge q (2 ^ P) with hq | hq
      · obtain ⟨r, hr⟩ := hlo q hq
        rw [hr]; simp
      · rw [hhi q hq hqB]; simp

/-! non-vacuity -/
/-- a lying table (starts at 5, leaves a gap, too little mass) is of the right type -/
example : Typed 8 [((7 : Nat), (5 : Nat), (3 : Nat)), (9, 20, 1)] := by
  intro e he
  simp at he
  rcases he with rfl | rfl <;> decide
example : ValidCdf 8 8 [0, 100, 200, 0] :=
  Contiguous.fromNonzeroFixedPoint_valid (B := 8) (P := 8) (probs := [100, 100]) (infer := true)
    (m := { cdf := [0, 100, 200, 0] }) (by decide) (by decide) (by decide) (by decide)

example : ∃ m, Lookup.fromNonzeroFixedPoint 8 2 [1, 3] false = some m := ⟨_, rfl⟩
example : ValidExt 8 [0, 100, 200, 256] := ⟨by decide, by decide, by decide, by decide⟩

#print axioms C20_binary_search
#print axioms C20_contiguous
#print axioms C20_ncdec
#print axioms C20_lookup
#print axioms C20_nclookup
#print axioms C20_uniform
#print axioms C20_constructors
#print axioms C20_noncontiguous_no_ub_for_any_symbol_table
#print axioms C20_noncontiguous_never_ub

end CV.Cat
