import CV.Proofs.RangeDecTotal
/-!
# C08 — Inspecting a range encoder is a no-op (component `range`)

`Fits c e k`: the 64-bit `usize` counters have room for `k` more symbols (see C02_range).

`clear()` puts the encoder into the state of `new()` (`C02_range_clear_eq_new`), which satisfies
`Inv`, so histories may contain it at any point (also while words are held back).
-/
namespace CV.Range

/-- `get_compressed()` + drop of the guard: the view is exactly what `into_compressed()` would
    return at that moment, and the encoder afterwards is exactly the encoder before — for
    every state satisfying the invariant (empty, right after a word boundary, with a non-empty
    sink, while words are held back). -/
theorem C08_range_guard_noop {c : Cfg} (hc : RValid c) {e : Encoder} (hI : Inv c e)
    (hf : Fits c e 0) :
    ∃ ws, intoCompressed c e = .ok ws ∧ getCompressed c e = .ok (ws, e) :=
  ⟨_, intoCompressed_eq hc hI, getCompressed_eq hc hI hf⟩

/-- `decoder()`: a decoder over what sealing now would return; the encoder is untouched -/
theorem C08_range_decoder_noop {c : Cfg} (hc : RValid c) {e : Encoder} (hI : Inv c e)
    (hf : Fits c e 0) :
    ∃ ws d, intoCompressed c e = .ok ws ∧ Decoder.fromCompressed c ws = .ok d ∧
      tempDecoder c e = .ok (d, e) := by
  obtain ⟨d, hd, hfc⟩ := tempDecoder_eq hc hI hf
  exact ⟨_, d, intoCompressed_eq hc hI, hfc, hd⟩

/-- `num_seal_words()` is the number of words `seal` appends, `unseal ∘ seal = id` -/
theorem C08_range_unseal_seal {c : Cfg} (hc : RValid c) {e : Encoder} (hI : Inv c e)
    (hf : Fits c e 0) :
    ∃ e', sealEnc c e = .ok e' ∧ numSealWords c e = .ok (e'.bulk.length - e.bulk.length) ∧
      unsealEnc c e' = .ok e := by
  refine ⟨_, sealEnc_eq hc hI, ?_, unseal_seal hc hI hf⟩
  rw [numSealWords_eq hc hI hf]
  simp

/-- **inspect erasure**: in any history of encodes with inspections (`get_compressed`,
    `decoder`, `num_words`, `num_bits`, `is_empty`, `pos`, `clone`) inserted anywhere, any
    number of times, the final encoder — hence everything it will ever output — is that of the
    history without the inspections. -/
theorem C08_range_inspect_erasure {Sym : Type} {c : Cfg} (hc : RValid c) (ops : List (Op Sym))
    (e : Encoder) (hI : Inv c e) (hf : Fits c e (encSteps ops).length)
    (hv : ∀ x ∈ encSteps ops, x.Valid c) :
    runOps c e ops = encodeMsg c e (encSteps ops) :=
  inspect_erasure hc ops e hI hf hv

example : Inv exCfg exInverted := exInverted_inv
example : Fits exCfg exInverted 3 := by decide
example : getCompressed exCfg exInverted = .ok ([126, 229], exInverted) := by decide
example : ∀ x ∈ encSteps [Op.getCompressed, Op.enc exMsg[0], Op.decoder, Op.enc exMsg[1], Op.numWords],
    x.Valid exCfg := by
  intro x hx
  simp only [encSteps, List.mem_cons, List.mem_nil_iff, or_false] at hx
  rcases hx with rfl | rfl
  · exact exMsg_valid _ (List.getElem_mem _)
  · exact exMsg_valid _ (List.getElem_mem _)

end CV.Range

#print axioms CV.Range.C08_range_guard_noop
#print axioms CV.Range.C08_range_decoder_noop
#print axioms CV.Range.C08_range_unseal_seal
#print axioms CV.Range.C08_range_inspect_erasure
