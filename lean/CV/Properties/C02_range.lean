import CV.Proofs.RangeDecTotal
import CV.Proofs.RangeTableModel
import CV.Proofs.RangeBatch
/-!
# C02 — Range coder round trip (component `range`)

All statements are about the Impl model `CV.Range` (transcription of src/stream/queue.rs), for
every configuration allowed by the crate's static assertions (`RValid`: `1 ≤ P ≤ B ≤ W`,
`2W ≤ S`, `W ∣ S` — not only `u8 … u128`), with per-symbol `PRECISION`/probability type,
arbitrary well-formed models, all messages.

`usize` is a 64-bit machine integer in the model (`usizeBits`): `num_inverted + 1`,
`bulk.len() + num_inverted`, `num_words`, `num_bits` are checked operations.  `Fits c e k`
(`Word::BITS · (bulk.len() + num_inverted + k + 2) < 2^64`) says the counters have room for `k`
more symbols; for histories from `new()` it is `MsgFits c n` (`Word::BITS · (n + 2) < 2^64`,
`n` = number of symbols), stated as an explicit hypothesis.  Without it the theorems are false:
`from_raw_parts` with `num_inverted = usize::MAX` panics in `pos()` / `num_words()`.
-/
namespace CV.Range

/-- **(a)** `encode_symbol` on any state satisfying the invariant, with any in-support symbol
    of any well-formed model: returns `Ok`, i.e. no `Fault` (`scale·p ≠ 0`, no multiplication
    overflows, `first_inverted_lower_word + 1` fits, the unchecked non-zero shift is sound), and
    the invariant is preserved.  The invariant holds for `new()` and `with_backend(..)`. -/
theorem C02_range_encode_total {Sym : Type} {c : Cfg} (hc : RValid c) {m : Model Sym}
    (hm : m.WellFormed c.P) {e : Encoder} (hI : Inv c e) (hf : Fits c e 1) {s : Sym}
    {cum p : Nat} (hs : m.enc s = some (cum, p)) :
    ∃ e', encode c m s e = .ok e' ∧ Inv c e' ∧ Fits c e' 0 := by
  obtain ⟨hp, hcp, _, _⟩ := hm.1 s cum p hs
  refine ⟨encPure c e cum p, ?_, encPure_inv hc hI hp hcp, encPure_fits hc hI hp hcp hf⟩
  unfold encode; rw [hs]; exact encodeCP_eq_pure hc hI hf hp hcp

theorem C02_range_inv_new {c : Cfg} (hc : RValid c) : Inv c (Encoder.empty c) := inv_empty hc

/-- **(c)** one `encode_symbol` is one step of the arbitrary-precision reference coder on the
    abstraction `absE` (finalised words ++ held-back words ++ register as one big number):
    carries into held-back words are ordinary addition there. -/
theorem C02_range_encode_refines {c : Cfg} (hc : RValid c) {e : Encoder} (hI : Inv c e)
    (hf : Fits c e 1) {cum p : Nat} (hp : 0 < p) (hcp : cum + p ≤ 2^c.P) :
    ∃ e', encodeCP c e cum p = .ok e' ∧
      absE c e' = RangeSpec.step c.W c.S (absE c e) c.P cum p :=
  ⟨_, encodeCP_eq_pure hc hI hf hp hcp, encPure_abs hc hI hp hcp⟩

/-- **(d) round trip**: encode any message from an empty encoder, seal, construct a decoder
    over the returned words and decode with the same models: exactly the message comes back
    (FIFO), the decoder then reports `maybe_exhausted`, and the empty message produces no words. -/
theorem C02_range_roundtrip {Sym : Type} {c : Cfg} (hc : RValid c) (msg : List (MStep Sym))
    (hn : MsgFits c msg.length) (hv : ∀ x ∈ msg, x.Valid c) :
    ∃ e ws d0 d, encodeMsg c (Encoder.empty c) msg = .ok e ∧
      intoCompressed c e = .ok ws ∧
      Decoder.fromCompressed c ws = .ok d0 ∧
      decodeMsg c d0 msg = .ok (msg.map (·.sym), d) ∧
      d.maybeExhausted c = .ok true ∧
      (msg = [] → ws = []) :=
  roundtrip hc msg hn hv

/-- the round trip for exactly the kind of input the correspondence runs feed to the real
    coders: per symbol a probability type `B`, a precision `P`, a strictly increasing table
    `cdf` from `0` to `2^P` (checked executably by `strictCdfB`) and a symbol of the table -/
theorem C02_range_roundtrip_tables {c : Cfg} (hc : RValid c)
    (tbl : List (Nat × Nat × List Nat × Nat)) (hn : MsgFits c tbl.length)
    (hv : ∀ t ∈ tbl, RValid (cfgAt c t.1 t.2.1) ∧ strictCdfB t.2.1 t.2.2.1 = true ∧
      t.2.2.2 + 1 < t.2.2.1.length) :
    ∃ e ws d0 d,
      encodeMsg c (Encoder.empty c)
        (tbl.map (fun t => { B := t.1, P := t.2.1, model := tableModel t.2.2.1, sym := t.2.2.2 }))
        = .ok e ∧
      intoCompressed c e = .ok ws ∧ Decoder.fromCompressed c ws = .ok d0 ∧
      decodeMsg c d0
        (tbl.map (fun t => { B := t.1, P := t.2.1, model := tableModel t.2.2.1, sym := t.2.2.2 }))
        = .ok (tbl.map (·.2.2.2), d) ∧
      d.maybeExhausted c = .ok true := by
  have hvalid : ∀ x ∈ tbl.map (fun t =>
      ({ B := t.1, P := t.2.1, model := tableModel t.2.2.1, sym := t.2.2.2 } : MStep Nat)),
      x.Valid c := by
    intro x hx
    obtain ⟨t, ht, rfl⟩ := List.mem_map.mp hx
    obtain ⟨h1, h2, h3⟩ := hv t ht
    exact MStep.valid_of_table h1 (strictCdf_of_check h2) h3
  obtain ⟨e, ws, d0, d, h1, h2, h3, h4, h5, _⟩ :=
    roundtrip hc _ (by rw [List.length_map]; exact hn) hvalid
  refine ⟨e, ws, d0, d, h1, h2, h3, ?_, h5⟩
  rw [h4, List.map_map]
  rfl

/-- the sealed words lie in the final interval of the reference coder, within `2^(S-W) − 1` of
    its lower end (`seal_point`) -/
theorem C02_range_seal_point {c : Cfg} (hc : RValid c) {st : RangeSpec.St} (hI : SpecInv c st) :
    Contains c st (RangeSpec.sealWords c.W c.S st) ∧
    pre c.W (RangeSpec.sealWords c.W c.S st) (st.m + nW c) - st.Lo < 2^(c.S - c.W) :=
  seal_contains hc hI

/-- **`clear()` gives the state of `new()`**, whatever the encoder was before — in the middle of
    a message, with words held back (`Inverted`), with a non-empty sink, or outside `Inv`. -/
theorem C02_range_clear_eq_new (c : Cfg) (e : Encoder) : clear c e = Encoder.empty c := rfl

/-- … so a cleared and reused encoder satisfies the invariant, has the full head-room, abstracts
    to the reference coder's initial state, and every encode history from it is the history from
    `new()`: -/
theorem C02_range_clear_inv {c : Cfg} (hc : RValid c) (e : Encoder) {n : Nat} (hn : MsgFits c n) :
    Inv c (clear c e) ∧ Fits c (clear c e) n ∧ absE c (clear c e) = RangeSpec.init c.S :=
  ⟨inv_empty hc, fits_empty hn, absE_empty c⟩

/-- the words of any message encoded after `clear()` are the reference coder's words for that
    message alone (C06 for a reused encoder) … -/
theorem C02_range_clear_words_eq_spec {Sym : Type} {c : Cfg} (hc : RValid c) (e0 : Encoder)
    (msg : List (MStep Sym)) (hn : MsgFits c msg.length) (hv : ∀ x ∈ msg, x.Valid c) :
    ∃ e, encodeMsg c (clear c e0) msg = .ok e ∧
      intoCompressed c e = .ok (RangeSpec.words c.W c.S (msg.map MStep.spec)) := by
  obtain ⟨e, he, _, _, hw⟩ := words_eq_spec hc msg hn hv
  exact ⟨e, he, hw⟩

/-- … and they round-trip (C02 for a reused encoder) -/
theorem C02_range_clear_roundtrip {Sym : Type} {c : Cfg} (hc : RValid c) (e0 : Encoder)
    (msg : List (MStep Sym)) (hn : MsgFits c msg.length) (hv : ∀ x ∈ msg, x.Valid c) :
    ∃ e ws d0 d, encodeMsg c (clear c e0) msg = .ok e ∧
      intoCompressed c e = .ok ws ∧
      Decoder.fromCompressed c ws = .ok d0 ∧
      decodeMsg c d0 msg = .ok (msg.map (·.sym), d) ∧
      d.maybeExhausted c = .ok true ∧
      (msg = [] → ws = []) :=
  roundtrip hc msg hn hv

/-- **batch form = per-symbol loop** (`encode_symbols`, `try_encode_symbols` on `Ok` items): same
    encoder afterwards, same result — for every encoder state and every list of pairs, including
    lists on which some symbol is impossible -/
theorem C02_range_encodeSymbols_batch_eq_perSymbolLoop {Sym : Type} (c : Cfg)
    (items : List (Sym × Model Sym)) (e : Encoder) :
    encodeSymbols c e (items.map some) =
      ((perSymbolLoop c e items).1,
        match (perSymbolLoop c e items).2 with
        | .ok () => .ok ()
        | .error err => .error (.coding err)) :=
  encodeSymbols_eq_perSymbolLoop c items e

/-- `encode_iid_symbols` likewise -/
theorem C02_range_encodeIidSymbols_batch_eq_perSymbolLoop {Sym : Type} (c : Cfg) (m : Model Sym)
    (syms : List Sym) (e : Encoder) :
    encodeIidSymbols c e m syms =
      ((perSymbolLoop c e (syms.map (fun s => (s, m)))).1,
        match (perSymbolLoop c e (syms.map (fun s => (s, m)))).2 with
        | .ok () => .ok ()
        | .error err => .error (.coding err)) :=
  encodeIidSymbols_eq_perSymbolLoop c m syms e

/-- `decode_symbols` / `try_decode_symbols` (on `Ok` items) / `decode_iid_symbols`: the symbols
    obtained, the decoder afterwards and the result are those of the per-symbol loop -/
theorem C02_range_decodeSymbols_batch_eq_perSymbolLoop {Sym : Type} (c : Cfg)
    (models : List (Model Sym)) (d : Decoder) :
    decodeSymbols c d (models.map some) [] =
      ((perSymbolDecLoop c d models []).1, (perSymbolDecLoop c d models []).2.1,
        match (perSymbolDecLoop c d models []).2.2 with
        | .ok () => .ok ()
        | .error err => .error (.coding err)) :=
  decodeSymbols_eq_perSymbolLoop c models d []

/-- a batch on which every call succeeds is the message-level encoder of the round-trip theorem -/
theorem C02_range_batch_eq_encodeMsg {Sym : Type} (c : Cfg) (items : List (Sym × Model Sym))
    (e : Encoder) (h : (perSymbolLoop c e items).2 = .ok ()) :
    encodeMsg (cfgAt c c.B c.P) e
        (items.map (fun x => { B := c.B, P := c.P, model := x.2, sym := x.1 }))
      = .ok (perSymbolLoop c e items).1 :=
  encodeSymbols_eq_encodeMsg c items e h

/-! non-vacuity: `RangeEncoder<u8,u16>`, a five-symbol message with four different models and
three different precisions that passes through the inverted situation and resolves it with a
carry (`126 → 127`) -/
example : RValid exCfg := exCfg_valid
example : MsgFits exCfg exMsg.length := by decide
example : Fits exCfg exInverted 1 := by decide
example : ∀ x ∈ exMsg, x.Valid exCfg := exMsg_valid
example : encodeMsg exCfg (Encoder.empty exCfg) (exMsg.take 2) = .ok exInverted := ex_prefix
example : Inv exCfg exInverted := exInverted_inv
example : clear exCfg exInverted = Encoder.empty exCfg := rfl  -- cleared while a word is held back
example : sealedWords exCfg exMsg = some [127, 29, 86] := ex_sealed
example : decodedSyms exCfg [127, 29, 86] exMsg = some [1, 1, 2, 0, 1] := ex_decoded
example : (encodeSymbols exCfg (Encoder.empty exCfg)
    [some (1, cutModel 127 129 256), some (7, cutModel 127 129 256), some (1, cutModel 100 200 256)]).2
    = .error (.coding .impossible) := by decide

end CV.Range

#print axioms CV.Range.C02_range_encode_total
#print axioms CV.Range.C02_range_inv_new
#print axioms CV.Range.C02_range_encode_refines
#print axioms CV.Range.C02_range_roundtrip
#print axioms CV.Range.C02_range_roundtrip_tables
#print axioms CV.Range.C02_range_seal_point
#print axioms CV.Range.C02_range_clear_eq_new
#print axioms CV.Range.C02_range_clear_inv
#print axioms CV.Range.C02_range_clear_words_eq_spec
#print axioms CV.Range.C02_range_clear_roundtrip
#print axioms CV.Range.C02_range_encodeSymbols_batch_eq_perSymbolLoop
#print axioms CV.Range.C02_range_encodeIidSymbols_batch_eq_perSymbolLoop
#print axioms CV.Range.C02_range_decodeSymbols_batch_eq_perSymbolLoop
#print axioms CV.Range.C02_range_batch_eq_encodeMsg
