import CV.Proofs.HuffSpec
/-!
# C09 (Huffman part) — symbols outside the alphabet are rejected

Property theorems only.  `encode_symbol_suffix` compares the `usize` symbol with
`nodes.len() / 2` before anything else, without any narrowing; so every symbol value `≥ n`
(including `2^32 + k`, `usize::MAX`) yields `ImpossibleSymbol` and no bit is emitted — in both
the suffix and the (default, `SmallBitStack`-based) prefix form.  Proved for every weight type
(`WeightOps`: integer, wrapping, rounding float sums), for every tree a constructor returns.
The codebook is immutable, so "everything encoded before still decodes" is the bit-coder's
statement (C16).
-/
namespace CV.Huff.C09
open CV CV.Huff

variable {α : Type} {ops : WeightOps α} {ws : List α} {en : List Nat}

/-- every symbol `≥ n` is rejected by both forms -/
theorem out_of_alphabet_rejected (hen : encTree ops ws = .ok en) {s : Nat} (hs : ws.length ≤ s) :
    encodeSuffix en s = .error .impossible ∧ encodePrefix en s = .error .impossible := by
  obtain ⟨dn, T, _, _, B⟩ := built_of_enc hen
  exact ⟨B.suffix_reject hs, B.prefix_reject hs⟩

/-- … and a failing `emit` observes nothing (no bit is emitted before the rejection) -/
theorem rejected_emits_nothing (hen : encTree ops ws = .ok en) {s : Nat} (hs : ws.length ≤ s) :
    ¬ ∃ w, encodeSuffix en s = .ok w ∨ encodePrefix en s = .ok w := by
  obtain ⟨h1, h2⟩ := out_of_alphabet_rejected hen hs
  rintro ⟨w, hw | hw⟩
  · rw [h1] at hw; cases hw
  · rw [h2] at hw; cases hw

/-- conversely every symbol of the alphabet is accepted (the rejection is exact) -/
theorem in_alphabet_accepted (hen : encTree ops ws = .ok en) {s : Nat} (hs : s < ws.length) :
    ∃ w, encodePrefix en s = .ok w ∧ encodeSuffix en s = .ok w.reverse := by
  obtain ⟨dn, T, _, _, B⟩ := built_of_enc hen
  obtain ⟨p, hp⟩ := B.code_of_lt hs
  exact ⟨p, B.prefix hp, B.suffix hp⟩

/-- non-vacuity: a concrete codebook, a symbol aliasing symbol 3 modulo `2^32` -/
example : encTree (checkedOps 32) [2, 2, 4, 1, 1] = .ok [12, 13, 15, 10, 11, 14, 16, 17, 0] := by
  rfl
example : encodePrefix [12, 13, 15, 10, 11, 14, 16, 17, 0] (2^32 + 3) = .error .impossible := by
  rfl
example : encodePrefix [12, 13, 15, 10, 11, 14, 16, 17, 0] 3 = .ok [true, false, false] := by
  rfl

end CV.Huff.C09

#print axioms CV.Huff.C09.out_of_alphabet_rejected
#print axioms CV.Huff.C09.rejected_emits_nothing
#print axioms CV.Huff.C09.in_alphabet_accepted
