import CV.Proofs.BackendAns
import CV.Proofs.BackendAnsStep
/-!
# C17 ∘ C01/C07/C09 — the ANS model's abstract backend is a faithful image of the backends

`CV.Ans.Coder` (`Model/Ans.lean`) keeps its backend as `bulk` (top first) and `cap`.  These
theorems tie that abstraction to the backend Impl models of `Model/Backend.lean`, so the ANS
theorems (C01 stack discipline, C07 seek, C09 failed encode on a full backend) speak about
`AnsCoder<_, _, Vec<_>>`, `AnsCoder<_, _, Cursor<_, _>>` and the `Reverse<Cursor>` decoders
through proved simulations instead of prose:

* `absVec v st` : `bulk = v.data.reverse`, `cap = none`
* `absCur c st` : `bulk = (c.buf.take c.pos).reverse`, `cap = some c.buf.length` (needs `pos ≤ len`)
* `absRev r st` : `bulk = r.inner.buf.drop r.inner.pos` (`from_reversed_compressed`)

`ansWrite x w = Ans.pushAll x [w]` and `ansRead x = (x.bulk.head?, Ans.dropReads x 1)` are the
ANS model's own backend write / stack read.
-/
namespace CV.Backend.AnsAbs.C17

/-! ## (1) `Vec` -/

theorem C17_ans_vec_write (v : VecB) (st w : Nat) :
    ansWrite (absVec v st) w = some (absVec (v.write w) st) := vec_write v st w

theorem C17_ans_vec_read (v : VecB) (st : Nat) :
    ((v.read).1, absVec (v.read).2 st) = ansRead (absVec v st) := vec_read v st

theorem C17_ans_vec_seek (v : VecB) (st p st' : Nat) :
    Ans.seek (absVec v st) (p, st') = (v.seek p).map (fun v' => absVec v' st') :=
  vec_seek v st p st'

theorem C17_ans_vec_pos_remaining (v : VecB) (st : Nat) :
    (Ans.pos (absVec v st)).1 = v.pos ∧ (absVec v st).bulk.length = v.remaining :=
  ⟨vec_pos v st, vec_remaining v st⟩

/-- lifted to every history over {write, stack read, seek, pos, remaining} -/
theorem C17_ans_vec_run (ops : List Op) (v : VecB) (st : Nat) (h : ∀ op ∈ ops, AnsOp op = true) :
    ∃ v', Backend.run (.vec v) ops = ((absRunVec (absVec v st) ops).1, .ok (.vec v')) ∧
      absVec v' st = (absRunVec (absVec v st) ops).2 :=
  vec_run_sim ops v st h

example := C17_ans_vec_run [.write 5, .readS, .seek 1, .pos, .remS, .readS, .readS] ⟨[1, 2]⟩ 77
  (by decide)

/-! ## (2) `Cursor` used as a stack (`AnsCoder<_, _, Cursor<_, _>>`), under `pos ≤ len` -/

/-- a write succeeds iff `Ans.canWrite`, and then the new abstraction is `w :: bulk` -/
theorem C17_ans_cursor_write (c : Cursor) (hI : c.Inv) (st w : Nat) :
    (Ans.canWrite (absCur c st) = true ↔ ∃ c', c.write w = .ok c') ∧
    ansWrite (absCur c st) w =
      (match c.write w with
       | .ok c' => some (absCur c' st)
       | .error _ => none) ∧
    ansWrite (absCur c st) w =
      (if Ans.canWrite (absCur c st) then some { absCur c st with bulk := w :: (absCur c st).bulk }
       else none) :=
  ⟨cur_canWrite_iff c hI st w, cur_write c hI st w, ansWrite_eq _ w⟩

/-- a stack read returns the head of `bulk` and pops it; it never faults -/
theorem C17_ans_cursor_read (c : Cursor) (hI : c.Inv) (st : Nat) :
    ∃ c', c.readStack = .ok ((ansRead (absCur c st)).1, c') ∧
      absCur c' st = (ansRead (absCur c st)).2 ∧ c'.Inv :=
  cur_read c hI st

/-- `seek p` is allowed iff `p ≤ len` and yields `bulk = (buf.take p).reverse` (the `ansd` rule) -/
theorem C17_ans_cursor_seek (c : Cursor) (st p st' : Nat) :
    (c.seek p).map (fun c' => absCur c' st') =
      (if p ≤ c.buf.length then
        some { absCur c st with bulk := (c.buf.take p).reverse, state := st' }
       else none) ∧
    (∀ c', c.seek p = some c' → c'.Inv ∧ c'.buf = c.buf) :=
  ⟨cur_seek c st p st', fun c' h => cur_seek_inv c c' p h⟩

theorem C17_ans_cursor_pos_remaining (c : Cursor) (hI : c.Inv) (st : Nat) :
    c.getPos = (absCur c st).bulk.length ∧ c.remainingStack = (absCur c st).bulk.length :=
  cur_pos c hI st

/-- lifted to every history over {write, stack read, seek, pos, remaining}; the abstract side
    carries the buffer because `Cursor::seek` can move back up over written words -/
theorem C17_ans_cursor_run (ops : List Op) (c : Cursor) (st : Nat) (hI : c.Inv)
    (h : ∀ op ∈ ops, AnsOp op = true) :
    ∃ c', Cur.run true (.fwd c) ops = ((absRunCur (absCur c st) c.buf ops).1, .ok (.fwd c')) ∧
      c'.Inv ∧ absCur c' st = (absRunCur (absCur c st) c.buf ops).2.1 ∧
      c'.buf = (absRunCur (absCur c st) c.buf ops).2.2 :=
  cur_run_sim ops c st hI h

example := C17_ans_cursor_run [.write 5, .write 6, .write 7, .readS, .seek 3, .readS, .pos, .remS]
  ⟨[1, 2, 3, 4], 2⟩ 77 (by simp [Cursor.Inv]) (by decide)

/-! ## (3) `Reverse<Cursor>` as a stack source (`from_reversed_compressed`) -/

/-- stack reads consume the buffer front to back (holds in every state) -/
theorem C17_ans_rev_read (r : RevCursor) (st : Nat) :
    ((r.readStack).1, absRev (r.readStack).2 st) = ansRead (absRev r st) := rev_read r st

/-- `pos` counts consumed words; `remaining` is `bulk.length` -/
theorem C17_ans_rev_pos_remaining (r : RevCursor) (hI : r.inner.Inv) (st : Nat) :
    r.getPos = r.inner.buf.length - (absRev r st).bulk.length ∧
    r.remainingStack = .ok (absRev r st).bulk.length :=
  rev_pos r hI st

/-- `seek` passes through: `bulk = buf.drop p`, allowed iff `p ≤ len` (the `ansr` rule) -/
theorem C17_ans_rev_seek (r : RevCursor) (st p st' : Nat) :
    (r.seek p).map (fun r' => absRev r' st') =
      if p ≤ r.inner.buf.length then
        some { absRev r st with bulk := r.inner.buf.drop p, state := st' }
      else none :=
  rev_seek r st p st'

/-- a write to a `Reverse<Cursor>` is the abstract push with `cap = some len` too -/
theorem C17_ans_rev_write (r : RevCursor) (hI : r.inner.Inv) (st w : Nat) :
    ansWrite (absRev r st) w =
      match r.write w with
      | .ok r' => some (absRev r' st)
      | .error _ => none :=
  rev_write r hI st w

example : ansRead (absRev ⟨⟨[9, 8, 7], 1⟩⟩ 5) = (some 8, absRev ⟨⟨[9, 8, 7], 2⟩⟩ 5) :=
  (C17_ans_rev_read ⟨⟨[9, 8, 7], 1⟩⟩ 5).symm

/-! ## composition with the ANS theorems

`encodeCPOn`/`encodeOn`/`decodeOn` (`Model/BackendAns.lean`) are `encode_symbol` /
`decode_symbol` of `stack.rs` written over an explicit backend (`cursorOps`: `Cursor.write` /
`Cursor.readStack`; `revCursorOps`; `vecOps`).  They are the image of `Ans.encodeCP` /
`Ans.encode` / `Ans.decode` under the abstractions, so every theorem about `CV.Ans` is a
theorem about the coder running on the backend models. -/

/-- `encode_symbol` over a `Cursor` (`pos ≤ len`) = `Ans.encodeCP` on `absCur`; in particular
    `Err(backendFull)` ⇔ the cursor's write is refused, and then nothing has changed -/
theorem C17_ans_cursor_encode (c : Cfg) (cur : Cursor) (hI : cur.Inv) (st cum p : Nat) :
    Ans.encodeCP c (absCur cur st) cum p = liftEnc absCur (encodeCPOn cursorOps c cur st cum p) :=
  encodeCPOn_sim sim_cursor c cur hI st cum p

/-- `decode_symbol` over a `Cursor` = `Ans.decode` on `absCur` -/
theorem C17_ans_cursor_decode {Sym : Type} (c : Cfg) (m : Model Sym) (cur : Cursor) (hI : cur.Inv)
    (st : Nat) :
    Ans.decode c m (absCur cur st) = liftDec absCur (decodeOn cursorOps c m cur st) :=
  decodeOn_sim sim_cursor c m cur hI st

/-- the same for `Vec` and for `Reverse<Cursor>` -/
theorem C17_ans_vec_rev_steps {Sym : Type} (c : Cfg) (m : Model Sym) (v : VecB) (r : RevCursor)
    (hI : r.inner.Inv) (st cum p : Nat) :
    Ans.encodeCP c (absVec v st) cum p = liftEnc absVec (encodeCPOn vecOps c v st cum p) ∧
    Ans.decode c m (absVec v st) = liftDec absVec (decodeOn vecOps c m v st) ∧
    Ans.encodeCP c (absRev r st) cum p = liftEnc absRev (encodeCPOn revCursorOps c r st cum p) ∧
    Ans.decode c m (absRev r st) = liftDec absRev (decodeOn revCursorOps c m r st) :=
  ⟨encodeCPOn_sim sim_vec c v trivial st cum p, decodeOn_sim sim_vec c m v trivial st,
    encodeCPOn_sim sim_revCursor c r hI st cum p, decodeOn_sim sim_revCursor c m r hI st⟩

/-- a refused encode happens only when the cursor is full (`pos = len`) -/
theorem C17_ans_cursor_full_only_when_full (c : Cfg) (cur : Cursor) (hI : cur.Inv) (st cum p : Nat)
    (he : encodeCPOn cursorOps c cur st cum p = .error .backendFull) : cur.pos = cur.buf.length := by
  have h := sim_full_only_when_full sim_cursor c cur hI st cum p he
  have hI' : cur.pos ≤ cur.buf.length := hI
  simp [Ans.canWrite, absCur, Nat.min_eq_left hI'] at h
  omega

/-- **`CV.Ans.C01.decode_encode` transported to the cursor-backed coder**
    (`AnsCoder<Word, State, Cursor<Word, Buf>>`, all valid `Cfg`, all well-formed models, all
    coder states satisfying the ANS invariant): with room for one word the encode succeeds;
    whenever it succeeds, the following decode with the same model returns the symbol and the
    old `state`, and the cursor is back at the old position with the same stack contents. -/
theorem C17_ans_cursor_decode_encode {Sym : Type} {c : Cfg} (hc : c.Valid) {m : Model Sym}
    (hm : m.WellFormed c.P) (cur : Cursor) (hI : cur.Inv) (st : Nat)
    (hx : Ans.Inv c (absCur cur st)) {s : Sym} {cp : Nat × Nat} (henc : m.enc s = some cp) :
    (cur.pos < cur.buf.length → ∃ cur' st', encodeOn cursorOps c m s cur st = .ok (cur', st')) ∧
    (∀ cur' st', encodeOn cursorOps c m s cur st = .ok (cur', st') →
      cur'.Inv ∧ Ans.Inv c (absCur cur' st') ∧
      ∃ cur'', decodeOn cursorOps c m cur' st' = .ok (s, cur'', st) ∧ cur''.Inv ∧
        absCur cur'' st = absCur cur st ∧ cur''.pos = cur.pos) := by
  have hI' : cur.pos ≤ cur.buf.length := hI
  refine ⟨fun hroom => ?_, fun cur' st' hok => ?_⟩
  · exact sim_encode_succeeds sim_cursor hc hm cur hI st hx henc
      (by simp [Ans.canWrite, absCur, Nat.min_eq_left hI']; exact hroom)
  · obtain ⟨h1, h2, cur'', h3, h4, h5⟩ := sim_decode_encode sim_cursor hc hm cur hI st hx henc cur' st' hok
    refine ⟨h1, h2, cur'', h3, h4, h5, ?_⟩
    have h4' : cur''.pos ≤ cur''.buf.length := h4
    have := congrArg (fun x => x.bulk.length) h5
    simpa [absCur, Nat.min_eq_left hI', Nat.min_eq_left h4'] using this

/-- the generic form (any backend simulated by the abstract one: `Vec`, `Reverse<Cursor>`, …) -/
theorem C17_ans_sim_decode_encode {β Sym : Type} {B : BackendOps β} {good : β → Prop}
    {abs : β → Nat → Ans.Coder} (h : Sim B good abs) {c : Cfg} (hc : c.Valid)
    {m : Model Sym} (hm : m.WellFormed c.P) (b : β) (hg : good b) (st : Nat)
    (hx : Ans.Inv c (abs b st)) {s : Sym} {cp : Nat × Nat} (henc : m.enc s = some cp)
    (b' : β) (st' : Nat) (hok : encodeOn B c m s b st = .ok (b', st')) :
    good b' ∧ Ans.Inv c (abs b' st') ∧
    ∃ b'', decodeOn B c m b' st' = .ok (s, b'', st) ∧ good b'' ∧ abs b'' st = abs b st :=
  sim_decode_encode h hc hm b hg st hx henc b' st' hok

/-- non-vacuity: `Word = u8`, `State = u16`, `P = 4`, a cursor over 4 words at position 1
    holding a valid coder state; encode then decode of a table-model symbol -/
example : (encodeCPOn cursorOps ⟨8, 16, 4, 8⟩ ⟨[0x12, 0, 0, 0], 1⟩ 0xf234 3 2).toOption.isSome = true := by
  decide

end CV.Backend.AnsAbs.C17

#print axioms CV.Backend.AnsAbs.C17.C17_ans_cursor_encode
#print axioms CV.Backend.AnsAbs.C17.C17_ans_cursor_decode
#print axioms CV.Backend.AnsAbs.C17.C17_ans_vec_rev_steps
#print axioms CV.Backend.AnsAbs.C17.C17_ans_cursor_full_only_when_full
#print axioms CV.Backend.AnsAbs.C17.C17_ans_cursor_decode_encode
#print axioms CV.Backend.AnsAbs.C17.C17_ans_sim_decode_encode
#print axioms CV.Backend.AnsAbs.C17.C17_ans_vec_write
#print axioms CV.Backend.AnsAbs.C17.C17_ans_vec_read
#print axioms CV.Backend.AnsAbs.C17.C17_ans_vec_seek
#print axioms CV.Backend.AnsAbs.C17.C17_ans_vec_pos_remaining
#print axioms CV.Backend.AnsAbs.C17.C17_ans_vec_run
#print axioms CV.Backend.AnsAbs.C17.C17_ans_cursor_write
#print axioms CV.Backend.AnsAbs.C17.C17_ans_cursor_read
#print axioms CV.Backend.AnsAbs.C17.C17_ans_cursor_seek
#print axioms CV.Backend.AnsAbs.C17.C17_ans_cursor_pos_remaining
#print axioms CV.Backend.AnsAbs.C17.C17_ans_cursor_run
#print axioms CV.Backend.AnsAbs.C17.C17_ans_rev_read
#print axioms CV.Backend.AnsAbs.C17.C17_ans_rev_pos_remaining
#print axioms CV.Backend.AnsAbs.C17.C17_ans_rev_seek
#print axioms CV.Backend.AnsAbs.C17.C17_ans_rev_write
