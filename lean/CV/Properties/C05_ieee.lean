import CV.Proofs.SoftFloatMono
import CV.Properties.C05_quant
import CV.Properties.C19_quant
/-!
# C05 (component `quant`): eager and lazy `…_fast` models are the same model — float layer inside the logic

`C05_eager_enc_eq_lazy_enc` compares the eager and the lazy encoder over *one* integer sequence
`h`; that the two constructors really produce the same sequence (the eager one sums the table
from `+0.0` inside `fast_quantized_cdf`, the lazy encoder with `iter().sum()`, i.e. from `-0.0`)
was run-time evidence only (`mono=` certificate, `d4_hL_eq_hE` by `decide`).  On the software
IEEE model it is a theorem for every table, normalisation, format, `B`, `P`:

* `C05_ieee_same_sequence`          — `hL i = hE i` for every index;
* `C05_ieee_eager_enc_eq_lazy_enc`  — hence the eager encoder (over `hE`) and the lazy encoder
  (over `hL`) return the same answer for every symbol, neither faults — with no float hypothesis.

(The lazy *decoder*'s float-only skip phase, TB-F2, stays a hypothesis: `C05_lazy_dec_eq_spec`.)
-/
namespace CV.Quant
open CV

/-- **both constructors hand the same integers to the fixed-point layer** -/
theorem C05_ieee_same_sequence (f : Fmt) {B P : Nat} {probs : List SF} {norm : Option SF}
    {ctx : FastCtx SF} (h : fastSetup f.ops B P probs norm = some ctx) (i : Nat) :
    ctx.hL f.ops B i = ctx.hE f.ops B i :=
  soft_hL_eq_hE f h i

/-- **C05, eager.enc = lazy.enc on IEEE floats, unconditionally** -/
theorem C05_ieee_eager_enc_eq_lazy_enc (f : Fmt) (hp : 1 ≤ f.p) {B P : Nat} {probs : List SF}
    {norm : Option SF} {ctx : FastCtx SF} (hP1 : 1 ≤ P) (hPB : P ≤ B) (hB : B ≤ 64)
    (hacc : fastSetup f.ops B P probs norm = some ctx) :
    ∃ cdf, fastCdf B P ctx.n ctx.free (ctx.hE f.ops B) = .ok cdf ∧
      ∀ s, eagerEnc B cdf s = lazyEnc B P ctx.n ctx.free (ctx.hL f.ops B) s ∧
        ∃ r, lazyEnc B P ctx.n ctx.free (ctx.hL f.ops B) s = .ok r := by
  have hfun : ctx.hL f.ops B = ctx.hE f.ops B := funext (soft_hL_eq_hE f hacc)
  rw [hfun]
  have tb := soft_tbf1 f hp hacc
  have hlen : lenOk P probs.length = true := by
    by_cases hl : lenOk P probs.length = true
    · exact hl
    · exfalso
      have := C19_fast_rejects f.ops B P probs norm (Or.inl (by simpa using hl))
      rw [this] at hacc; cases hacc
  obtain ⟨_, hn, _⟩ := fastSetup_some f.ops hacc
  have hfree : ctx.free = freeWeight B P probs.length := by
    unfold fastSetup at hacc
    simp only at hacc
    repeat' (split at hacc)
    all_goals first
      | (injection hacc with hacc; subst hacc; rfl)
      | cases hacc
  rw [hn, hfree]
  exact C05_eager_enc_eq_lazy_enc hP1 hPB hB hlen (hn ▸ tb)

/-- non-vacuity: the D4 `f32` table is accepted by the software model (`d4soft_accepted`) -/
example : ∃ ctx, fastSetup sf32Ops 32 24
    ([0x428d2ec2, 0x3ee93b54, 0x42466cd6, 0x3ee98848, 0].map binary32.ofBits) none = some ctx ∧
    ∀ i, ctx.hL sf32Ops 32 i = ctx.hE sf32Ops 32 i := by
  have h : (fastSetup sf32Ops 32 24
    ([0x428d2ec2, 0x3ee93b54, 0x42466cd6, 0x3ee98848, 0].map binary32.ofBits) none).isSome = true := by
    decide +kernel
  obtain ⟨ctx, hctx⟩ := Option.isSome_iff_exists.1 h
  exact ⟨ctx, hctx, C05_ieee_same_sequence binary32 hctx⟩

end CV.Quant

#print axioms CV.Quant.C05_ieee_same_sequence
#print axioms CV.Quant.C05_ieee_eager_enc_eq_lazy_enc
