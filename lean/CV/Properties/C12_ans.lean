import CV.Proofs.AnsSize
import CV.Proofs.LogBound
/-!
# C12 (ANS part) — compressed size stays within a proven overhead of the information content
-/
namespace CV.Ans.C12
open CV CV.Ans CV.LogBound

/-- one encoded symbol, numerically: precision, probability type width, left cumulative, probability -/
structure Step where
  P : Nat
  B : Nat
  cum : Nat
  p : Nat

def Step.cfg (W S : Nat) (e : Step) : Cfg := { W := W, S := S, P := e.P, B := e.B }
def Step.OK (W S : Nat) (e : Step) : Prop := (e.cfg W S).Valid ∧ CPok e.P e.cum e.p
/-- `(p, P, k)` with `k = S - W - P` -/
def Step.summary (W S : Nat) (e : Step) : ℕ × ℕ × ℕ := (e.p, e.P, S - W - e.P)

/-- encode the steps in order (each step is `encode_symbol` in arithmetic form, which
    `encodeCP_spec` proves equal to the Impl model's `encodeCP`) -/
def encodeAll (W S : Nat) : Coder → List Step → Coder
  | x, [] => x
  | x, e :: l => encodeAll W S (encArith (e.cfg W S) x e.cum e.p) l

theorem inv_cfg {c c' : Cfg} (hW : c.W = c'.W) (hS : c.S = c'.S) {x : Coder} (h : Inv c x) : Inv c' x := by
  unfold Inv at h ⊢; rw [← hW, ← hS]; exact h

theorem Q_cfg {c c' : Cfg} (hW : c.W = c'.W) (hS : c.S = c'.S) (x : Coder) : Q c x = Q c' x := by
  unfold Q; rw [hW, hS]

/-- **Multiplicative size bound** for any sequence of symbols encoded onto any coder:
    `Q_n · ∏ p_i · ∏ 2^k_i ≤ Q_0 · ∏ 2^P_i · ∏ (2^k_i + 1)`, and the bulk grows by at most one
    word per symbol. -/
theorem potential_seq {W S : Nat} (l : List Step) (hl : ∀ e ∈ l, e.OK W S) (x : Coder)
    (hx : Inv { W := W, S := S, P := 1, B := 1 } x) :
    let c0 : Cfg := { W := W, S := S, P := 1, B := 1 }
    Inv c0 (encodeAll W S x l) ∧
    Q c0 (encodeAll W S x l) * prodP (l.map (·.summary W S)) * prodK (l.map (·.summary W S))
      ≤ Q c0 x * prodPrec (l.map (·.summary W S)) * prodK1 (l.map (·.summary W S)) ∧
    (encodeAll W S x l).bulk.length ≤ x.bulk.length + l.length := by
  intro c0
  induction l generalizing x with
  | nil => simp [encodeAll, prodP, prodK, prodPrec, prodK1]; exact hx
  | cons e l ih =>
    obtain ⟨hv, hcp⟩ := hl e List.mem_cons_self
    have hxe : Inv (e.cfg W S) x := inv_cfg rfl rfl hx
    have hstep := potential_step hv hxe hcp
    have hinv' : Inv c0 (encArith (e.cfg W S) x e.cum e.p) := inv_cfg rfl rfl (encArith_inv hv hxe hcp)
    obtain ⟨h1, h2, h3⟩ := ih (fun e' he' => hl e' (List.mem_cons_of_mem _ he')) _ hinv'
    refine ⟨h1, ?_, ?_⟩
    · simp only [encodeAll, List.map_cons, prodP, prodK, prodPrec, prodK1]
      have hs1 : (e.summary W S).1 = e.p := rfl
      have hs2 : (e.summary W S).2.1 = e.P := rfl
      have hs3 : (e.summary W S).2.2 = S - W - e.P := rfl
      rw [hs1, hs2, hs3]
      rw [Q_cfg (c := e.cfg W S) (c' := c0) rfl rfl] at hstep
      rw [Q_cfg (c := e.cfg W S) (c' := c0) rfl rfl] at hstep
      have hcP : (e.cfg W S).P = e.P := rfl
      have hcS : (e.cfg W S).S = S := rfl
      have hcW : (e.cfg W S).W = W := rfl
      rw [hcP, hcS, hcW] at hstep
      generalize Q c0 (encodeAll W S (encArith (e.cfg W S) x e.cum e.p) l) = Qn at h2 ⊢
      generalize Q c0 (encArith (e.cfg W S) x e.cum e.p) = Q1 at h2 hstep
      generalize prodP (l.map (·.summary W S)) = A at h2 ⊢
      generalize prodK (l.map (·.summary W S)) = Bk at h2 ⊢
      generalize prodPrec (l.map (·.summary W S)) = Cp at h2 ⊢
      generalize prodK1 (l.map (·.summary W S)) = D at h2 ⊢
      generalize Q c0 x = Q0 at hstep ⊢
      -- Qn*A*Bk ≤ Q1*Cp*D ; Q1*p*K ≤ Q0*P2*(K+1)
      calc Qn * (e.p * A) * (2^(S - W - e.P) * Bk)
          = (Qn * A * Bk) * (e.p * 2^(S - W - e.P)) := by ring
        _ ≤ (Q1 * Cp * D) * (e.p * 2^(S - W - e.P)) := Nat.mul_le_mul_right _ h2
        _ = (Q1 * e.p * 2^(S - W - e.P)) * (Cp * D) := by ring
        _ ≤ (Q0 * 2^e.P * (2^(S - W - e.P) + 1)) * (Cp * D) := Nat.mul_le_mul_right _ hstep
        _ = Q0 * (2^e.P * Cp) * ((2^(S - W - e.P) + 1) * D) := by ring
    · simp only [encodeAll, List.length_cons]
      have := numWords_step (c := e.cfg W S) x e.cum e.p
      omega

/-- **C12, stack coder, multiplicative form.** Starting from an empty coder, after encoding any
    symbols: `2^num_bits · ∏ p_i · ∏ 2^k_i ≤ 2^S · ∏ 2^P_i · ∏ (2^k_i + 1)` and
    `num_words ≤ n + ⌈S/W⌉`. -/
theorem size_bound_mul {W S : Nat} (hWS : 1 ≤ W ∧ 2 * W ≤ S) (l : List Step) (hl : ∀ e ∈ l, e.OK W S) :
    let c0 : Cfg := { W := W, S := S, P := 1, B := 1 }
    2^(numBits c0 (encodeAll W S Ans.empty l)) * prodP (l.map (·.summary W S)) * prodK (l.map (·.summary W S))
      ≤ 2^S * prodPrec (l.map (·.summary W S)) * prodK1 (l.map (·.summary W S)) ∧
    numWords c0 (encodeAll W S Ans.empty l) ≤ l.length + (S + W - 1) / W := by
  intro c0
  have hv : c0.Valid := by unfold Cfg.Valid; simp only [c0]; omega
  have hempty : Inv c0 Ans.empty := ⟨Nat.two_pow_pos _, by simp [Ans.empty], by simp [Ans.empty]⟩
  obtain ⟨hinv, hq, hlen⟩ := potential_seq l hl Ans.empty hempty
  have hbits := two_pow_numBits_le hv hinv
  have hQ0 : Q c0 Ans.empty = 2^(S - W) := by
    simp [Q, Ans.empty, c0]
  refine ⟨?_, ?_⟩
  · rw [hQ0] at hq
    have hS : 2^S = 2^(S - W) * 2^W := pow_split (by omega)
    generalize prodP (l.map (·.summary W S)) = A at hq ⊢
    generalize prodK (l.map (·.summary W S)) = Bk at hq ⊢
    generalize prodPrec (l.map (·.summary W S)) = Cp at hq ⊢
    generalize prodK1 (l.map (·.summary W S)) = D at hq ⊢
    calc 2^(numBits c0 (encodeAll W S Ans.empty l)) * A * Bk
        ≤ (Q c0 (encodeAll W S Ans.empty l) * 2^W) * A * Bk :=
          Nat.mul_le_mul_right _ (Nat.mul_le_mul_right _ hbits)
      _ = (Q c0 (encodeAll W S Ans.empty l) * A * Bk) * 2^W := by ring
      _ ≤ (2^(S - W) * Cp * D) * 2^W := Nat.mul_le_mul_right _ hq
      _ = 2^S * Cp * D := by rw [hS]; ring
  · unfold numWords
    rw [chunksLE_length]
    have h1 : nchunks W (encodeAll W S Ans.empty l).state ≤ (S + W - 1) / W :=
      nchunks_le_of_lt (W := W) (S := S) (by omega) hinv.1
    have h2 : (encodeAll W S Ans.empty l).bulk.length ≤ l.length := by
      simpa [Ans.empty] using hlen
    exact Nat.add_le_add h2 h1

/-- **C12, stack coder, logarithmic form.** `num_bits ≤ Σ log2(2^P_i / p_i) + Σ log2(1 + 2^-k_i) + S`
    (the constant `S` is within the property's "at most StateBits plus two words"). -/
theorem size_bound_log {W S : Nat} (hWS : 1 ≤ W ∧ 2 * W ≤ S) (l : List Step) (hl : ∀ e ∈ l, e.OK W S) :
    ((numBits { W := W, S := S, P := 1, B := 1 } (encodeAll W S Ans.empty l) : ℕ) : ℝ)
      ≤ info (l.map (·.summary W S)) + rounding (l.map (·.summary W S)) + S := by
  obtain ⟨hmul, _⟩ := size_bound_mul hWS l hl
  have hp : ∀ e ∈ l.map (·.summary W S), 0 < e.1 := by
    intro e he
    simp only [List.mem_map] at he
    obtain ⟨s, hs, rfl⟩ := he
    exact (hl s hs).2.1
  have := log_bound _ _ _ hp (Nat.two_pow_pos _) (Nat.two_pow_pos S) hmul
  simp only [Nat.cast_pow, Nat.cast_ofNat, logb_two_pow] at this
  linarith


/-- the same steps on the Impl model (`encodeCP`, with faults and errors) -/
def encodeAllImpl (W S : Nat) : Coder → List Step → Except EncErr Coder
  | x, [] => .ok x
  | x, e :: l =>
    match encodeCP (e.cfg W S) x e.cum e.p with
    | .ok y => encodeAllImpl W S y l
    | .error err => .error err

/-- the Impl model never fails on valid steps and computes exactly the arithmetic fold the size
    bounds are stated for -/
theorem encodeAllImpl_eq {W S : Nat} (l : List Step) (hl : ∀ e ∈ l, e.OK W S) (x : Coder)
    (hx : Inv { W := W, S := S, P := 1, B := 1 } x) (hcap : x.cap = none) :
    encodeAllImpl W S x l = .ok (encodeAll W S x l) := by
  induction l generalizing x with
  | nil => rfl
  | cons e l ih =>
    obtain ⟨hv, hcp⟩ := hl e List.mem_cons_self
    have hxe : Inv (e.cfg W S) x := inv_cfg rfl rfl hx
    simp only [encodeAllImpl, encodeAll, encodeCP_spec hv hxe hcap hcp]
    apply ih (fun e' he' => hl e' (List.mem_cons_of_mem _ he'))
    · exact inv_cfg rfl rfl (encArith_inv hv hxe hcp)
    · simp only [encArith, afterFlush]; split <;> exact hcap

/-- **C12 on the Impl model**: `encode_symbol` for each step on `AnsCoder::new()` succeeds and the
    resulting coder satisfies the logarithmic size bound -/
theorem size_bound_log_impl {W S : Nat} (hWS : 1 ≤ W ∧ 2 * W ≤ S) (l : List Step) (hl : ∀ e ∈ l, e.OK W S) :
    ∃ y, encodeAllImpl W S Ans.empty l = .ok y ∧
      ((numBits { W := W, S := S, P := 1, B := 1 } y : ℕ) : ℝ)
        ≤ info (l.map (·.summary W S)) + rounding (l.map (·.summary W S)) + S ∧
      numWords { W := W, S := S, P := 1, B := 1 } y ≤ l.length + (S + W - 1) / W := by
  have hempty : Inv { W := W, S := S, P := 1, B := 1 } Ans.empty :=
    ⟨Nat.two_pow_pos _, by simp [Ans.empty], by simp [Ans.empty]⟩
  exact ⟨_, encodeAllImpl_eq l hl Ans.empty hempty rfl, size_bound_log hWS l hl,
    (size_bound_mul hWS l hl).2⟩

/-- default preset (`u32` words, `u64` state, `P = 24`, so `k = 8`): below 0.006 bit per symbol -/
theorem default_preset_overhead : Real.logb 2 (1 + (2 : ℝ)^(-((64 - 32 - 24 : ℕ) : ℤ))) < 0.006 := by
  have := rounding_default_lt
  norm_num at this ⊢
  exact this

example : Step.OK 32 64 { P := 24, B := 32, cum := 0, p := 1 } := by
  refine ⟨by decide, ?_⟩
  unfold CPok; decide

end CV.Ans.C12

#print axioms CV.Ans.C12.potential_seq
#print axioms CV.Ans.C12.size_bound_mul
#print axioms CV.Ans.C12.size_bound_log
#print axioms CV.Ans.C12.default_preset_overhead
#print axioms CV.Ans.C12.inv_cfg
#print axioms CV.Ans.C12.Q_cfg
#print axioms CV.Ans.C12.encodeAllImpl_eq
#print axioms CV.Ans.C12.size_bound_log_impl
