import CV.Proofs.ChainExample
import CV.Proofs.ChainTotal
/-!
# C09 (chain coder part) — impossible symbols are rejected, a failed encode leaves the coder intact

Scope.  "The coder is intact after a failure" is proved here for the failure the property is
about for the chain coder: **`ImpossibleSymbol`** (`impossible_rejected`,
`encodeSymbols_stops`, `failed_encode_harmless`).  The other frontend error of `encode_symbol`,
`OutOfRemainders`, is likewise raised before any change (`CV.Chain.C13.errors_not_garbage`).

A failing **backend** (`CoderError::Backend(BackendError::Compressed | Remainders)`) is *not*
modelled: the model's backends are `Vec<Word>`, whose writes cannot fail and whose reads
report exhaustion as `None`.  With a fallible backend the chain coder is in fact not atomic:
`decode_symbol` (`chain.rs:1060-1118`) has already replaced `heads.compressed` and
`heads.remainders` when `flush_remainders_head()?` can fail, and `encode_symbol`
(`chain.rs:1174-1205`) has updated both heads before `self.compressed.write(word)?`.  C09
demands write-failure atomicity only of the ANS coder (see `C09_ans.lean`), so this is a
stated limit of the model, not a claimed property.
-/
namespace CV.Chain.C09
open CV CV.Chain

variable {Sym : Type}

/-- A symbol the model gives probability zero is rejected with `ImpossibleSymbol`, whatever the
    state of the coder (no invariant needed), and *only* such a symbol is: the lookup precedes
    every other step of `encode_symbol`.  The model is functional, so "the coder is left
    intact" is the statement that no new coder is produced – the caller still holds `x`
    (the correspondence check inspects the raw heads and both stacks of the real coder after
    every failed call, and the C09 oracle compares them). -/
theorem impossible_rejected (c : Cfg) (m : Model Sym) (s : Sym) (x : Coder) :
    (m.enc s = none → encode c m s x = .error .impossible) ∧
    (encode c m s x = .error .impossible → m.enc s = none) := by
  refine ⟨fun h => by simp [encode, h], fun h => ?_⟩
  cases hs : m.enc s with
  | none => rfl
  | some cp =>
    exfalso
    obtain ⟨cum, p⟩ := cp
    simp only [encode, hs, encodeCP] at h
    by_cases hp : p = 0
    · simp [hp] at h
    · simp only [hp, if_false] at h
      cases hrel : release c x.heads.remainders x.remainders p with
      | error e =>
        have : e = .outOfRemainders := by
          unfold release at hrel
          by_cases hlt : x.heads.remainders < shlT c.S p (c.S - c.W - c.P)
          · simp only [hlt, if_true] at hrel
            cases hrf : refillHead c x.heads.remainders x.remainders with
            | none => simp [hrf] at hrel; exact hrel.symm
            | some r => simp [hrf] at hrel
          · simp [hlt] at hrel
        subst this
        simp [hrel] at h
      | ok r =>
        obtain ⟨rmd, hr, rems⟩ := r
        simp only [hrel] at h
        cases hq : cadd "chain.enc.quantile" c.B cum (narrow c.B (narrow c.W rmd)) with
        | error f => simp [hq] at h
        | ok q =>
          simp only [hq] at h
          cases hpc : putChunk c x.heads.compressed x.compressed q with
          | error f => simp [hpc] at h
          | ok r2 => simp [hpc] at h

/-- `encode_symbols` stops at the first impossible symbol: everything before it has been
    encoded (the coder returned is the one after the prefix), the error is
    `ImpossibleSymbol`, nothing of the rest is touched. -/
theorem encodeSymbols_stops (c : Cfg) (pre post : List (Sym × Model Sym)) (bad : Sym × Model Sym)
    (x y : Coder) (hpre : encodeSymbols c pre x = (y, none)) (hbad : bad.2.enc bad.1 = none) :
    encodeSymbols c (pre ++ bad :: post) x = (y, some .impossible) := by
  induction pre generalizing x with
  | nil =>
    simp only [encodeSymbols, Prod.mk.injEq, and_true] at hpre
    subst hpre
    obtain ⟨s, m⟩ := bad
    simp only at hbad
    simp [encodeSymbols, encode, hbad]
  | cons e pre ih =>
    obtain ⟨s, m⟩ := e
    simp only [List.cons_append, encodeSymbols] at hpre ⊢
    cases he : encode c m s x with
    | error e => simp [he] at hpre
    | ok x1 =>
      simp only [he] at hpre ⊢
      exact ih x1 hpre

/-- After the failure, everything encoded before still decodes correctly (the symbols come back
    in reverse order and the coder returns to where it started) and encoding can continue –
    the coder after the failed call is the coder `y` before it, which satisfies the invariant,
    so `encode_spec` / `dec_enc_step` apply to it again. -/
theorem failed_encode_harmless {c : Cfg} (hc : c.Valid) (pre post : List (Sym × Model Sym))
    (bad : Sym × Model Sym) (x y : Coder) (hx : Inv c x)
    (hl : ∀ e ∈ pre, e.2.WellFormed c.P ∧ ∃ cp, e.2.enc e.1 = some cp)
    (hpre : encodeSymbols c pre x = (y, none)) (hbad : bad.2.enc bad.1 = none) :
    encodeSymbols c (pre ++ bad :: post) x = (y, some .impossible) ∧ Inv c y ∧
    decodeSymbols c (pre.reverse.map (·.2)) y = (pre.reverse.map (·.1), x, none) ∧
    encodeSymbols c post y = encodeSymbols c post (encodeSymbols c pre x).1 := by
  obtain ⟨hy, hd⟩ := encodeSymbols_decodeSymbols (CValid.of_valid hc) pre x y hl hx hpre
  exact ⟨encodeSymbols_stops c pre post bad x y hpre hbad, hy, hd, by rw [hpre]⟩

/-! ## non-vacuity -/

/-- the table model `[0, 1, 8]` has exactly two symbols; symbol 2, and symbols far beyond the
    probability type's range, are impossible -/
example : (tableModel [0, 1, 8]).enc 2 = none ∧ (tableModel [0, 1, 8]).enc (2^32 + 1) = none ∧
    (tableModel [0, 1, 8]).enc 1 = some (1, 7) := by decide

example : exCfg.Valid ∧ Inv exCfg exCoder ∧ (tableModel [0, 1, 8]).WellFormed exCfg.P :=
  ⟨exCfg_valid, exCoder_inv, wf_two (by decide) (by decide)⟩

end CV.Chain.C09

#print axioms CV.Chain.C09.impossible_rejected
#print axioms CV.Chain.C09.encodeSymbols_stops
#print axioms CV.Chain.C09.failed_encode_harmless
