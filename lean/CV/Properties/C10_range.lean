import CV.Proofs.RangeDecTotal
/-!
# C10 — Decoding arbitrary data with the range decoder is total (component `range`)
-/
namespace CV.Range

/-- a decoder can be constructed over any sequence of words (`from_compressed` never fails),
    and the result satisfies the register bounds `decode_symbol` relies on -/
theorem C10_range_from_any_words {c : Cfg} (hc : RValid c) {ws : List Nat} (hw : WordsOK c ws) :
    ∃ d, Decoder.fromCompressed c ws = .ok d ∧ DReg c d :=
  fromCompressed_total hc hw

/-- **one `decode_symbol` on arbitrary data** (no assumption that the data came from an
    encoder): either `InvalidData` — exactly when the quantile is `≥ 2^P`, decided before
    anything is modified — or a symbol of the model's support and a decoder satisfying the
    documented invariant `point ⊖ lower < range`.  No `Fault`: `scale ≠ 0`, no multiplication
    overflows, `scale·p ≠ 0`, the unchecked non-zero shift is sound. -/
theorem C10_range_decode_total {Sym : Type} {c : Cfg} (hc : RValid c) {m : Model Sym}
    (hm : m.WellFormed c.P) {d : Decoder} (hI : DReg c d) :
    (decode c m d = .error .invalidData ∧ quantileOf c d ≥ 2^c.P) ∨
    (∃ s d', decode c m d = .ok (s, d') ∧ DInv c d' ∧ (m.enc s).isSome ∧
      quantileOf c d < 2^c.P) :=
  decode_total hc hm hI

/-- **any number of symbols with any sequence of well-formed models** (per-symbol
    `PRECISION`): a list of in-support symbols or `InvalidData`, never a `Fault`. -/
theorem C10_range_decode_many_total {Sym : Type} {c : Cfg} (hc : RValid c) {ws : List Nat}
    (hw : WordsOK c ws) (msg : List (MStep Sym)) (hv : ∀ x ∈ msg, x.DecValid c) :
    ∃ d0, Decoder.fromCompressed c ws = .ok d0 ∧
      ((∃ ss d', decodeMsg c d0 msg = .ok (ss, d') ∧ DReg c d' ∧ InSupport ss msg) ∨
       decodeMsg c d0 msg = .error .invalidData) := by
  obtain ⟨d0, hd0, hreg⟩ := fromCompressed_total hc hw
  exact ⟨d0, hd0, decodeMsg_total msg d0 hreg hv⟩

/-! non-vacuity: all-ones data (which violates `point ⊖ lower < range` initially) and garbage -/
example : RValid exCfg := exCfg_valid
example : WordsOK exCfg [255, 255, 255] := wordsOK_of_all (by decide)
example : ∀ x ∈ exMsg, x.DecValid exCfg := fun x hx => ⟨(exMsg_valid x hx).1, (exMsg_valid x hx).2.1⟩
example : decodedSyms exCfg [255, 255, 255] exMsg = none := by decide
example : decodedSyms exCfg [18, 52, 86, 120] exMsg = some [0, 0, 1, 1, 0] := by decide

end CV.Range

#print axioms CV.Range.C10_range_from_any_words
#print axioms CV.Range.C10_range_decode_total
#print axioms CV.Range.C10_range_decode_many_total
