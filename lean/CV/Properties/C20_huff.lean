import CV.Proofs.HuffSpec
/-!
# C20 (Huffman part) — the unsafe-block obligations of `src/symbol/huffman.rs`

Property theorems only.  The file has four `get_unchecked` sites; each is a `Fault.ub` branch of
the Impl model (`CV/Model/Huff.lean`):

* `huff.enc.new.index0`, `huff.enc.new.index1` — `nodes.get_unchecked_mut(index0/1)` in
  `EncoderHuffmanTree::try_from_probabilities`;
* `huff.suffix.get_unchecked` — `self.nodes.get_unchecked(node_index)` in `encode_symbol_suffix`;
* `huff.decode.get_unchecked` — `self.nodes.get_unchecked(node_index - num_symbols)` in
  `decode_symbol`.

The theorems say that no input reaches them, for **every** weight type (`WeightOps`: any order,
any addition): checked integers (sums that overflow panic before indexing), **wrapping**
integers (`wrappingOps n`: a release build, where `prob0 + prob1` wraps silently — nothing here
is "only correct because release wraps", and nothing becomes unsafe when it does), floats whose
sums round or become infinite.  The constructors are total functions of every weight list
(empty, too long); the walks are stated for every tree a constructor can return, every symbol
value and every bit source.  (`EncoderHuffmanTree`/`DecoderHuffmanTree` have private fields and
no other constructor, so "every tree a constructor can return" is every tree safe code can hold.)
-/
namespace CV.Huff.C20
open CV CV.Huff

variable {α : Type} (ops : WeightOps α)

/-- constructor sites: unreachable for every weight list and every weight type -/
theorem constructors_no_ub (ws : List α) (site : String) :
    encTree ops ws ≠ .error (.ub site) ∧ decTree ops ws ≠ .error (.ub site) :=
  ⟨encTree_no_ub ops ws site, decTree_no_ub ops ws site⟩

/-- the same through `try_from_probabilities` / `from_float_probabilities` (NaN / `Err` items) -/
theorem try_constructors_no_ub (ws : List (Option α)) (site : String) :
    tryEncTree ops ws ≠ .error (.fault (.ub site)) ∧
      tryDecTree ops ws ≠ .error (.fault (.ub site)) := by
  constructor
  · simp only [tryEncTree]
    split
    · simp
    · next v _ =>
      split
      · simp
      · next f hf =>
        intro h; injection h with h; injection h with h; subst h
        exact encTree_no_ub ops v site hf
  · simp only [tryDecTree]
    split
    · simp
    · next v _ =>
      split
      · simp
      · next f hf =>
        intro h; injection h with h; injection h with h; subst h
        exact decTree_no_ub ops v site hf

variable {ops}

/-- `encode_symbol_suffix` / `encode_symbol_prefix` on a constructed tree: for *every* symbol
value the result is a codeword or `ImpossibleSymbol` — never a fault (no out-of-bounds index,
and the unbounded `loop` terminates) -/
theorem encode_no_fault {ws : List α} {en : List Nat} (hen : encTree ops ws = .ok en)
    (s : Nat) (f : Fault) :
    encodeSuffix en s ≠ .error (.fault f) ∧ encodePrefix en s ≠ .error (.fault f) := by
  obtain ⟨dn, T, _, _, B⟩ := built_of_enc hen
  by_cases hs : s < ws.length
  · obtain ⟨p, hp⟩ := B.code_of_lt hs
    rw [B.suffix hp, B.prefix hp]; simp
  · rw [B.suffix_reject (by omega), B.prefix_reject (by omega)]; simp

/-- `decode_symbol` on a constructed tree, for *every* bit source (arbitrary bits, truncated,
failing): a symbol of the alphabet, `OutOfCompressedData`, or the source's error — never a
fault.  (`ws.length ≤ usize::MAX / 4`: a `Vec` of more elements cannot exist.) -/
theorem decode_no_fault {ws : List α} {dn : List (Nat × Nat)} (hdn : decTree ops ws = .ok dn)
    (hmax : ws.length ≤ usizeMax / 4) (src : List (Option Bool)) :
    (∃ s rest, decode dn src = .ok (s, rest) ∧ s < ws.length) ∨
      decode dn src = .error .outOfData ∨ decode dn src = .error .backend := by
  obtain ⟨en, T, _, _, B⟩ := built_of_dec hdn hmax
  rcases B.decode_total src with ⟨s, p, rest, h1, h2, _, _⟩ | h | h
  · exact Or.inl ⟨s, rest, h1, h2⟩
  · exact Or.inr (Or.inl h)
  · exact Or.inr (Or.inr h)

/-- non-vacuity -/
example : decTree (checkedOps 32) [2, 2, 4, 1, 1] = .ok [(3, 4), (0, 1), (5, 2), (6, 7)] := by rfl
example : encTree (checkedOps 8) [200, 100] = .error (.overflow "huff.add") := by rfl
example : encTree (wrappingOps 8) [200, 100] = .ok [5, 4, 0] := by rfl
example : decode [(3, 4), (0, 1), (5, 2), (6, 7)] [some true, some false] = .error .outOfData := by
  rfl

end CV.Huff.C20

#print axioms CV.Huff.C20.constructors_no_ub
#print axioms CV.Huff.C20.try_constructors_no_ub
#print axioms CV.Huff.C20.encode_no_fault
#print axioms CV.Huff.C20.decode_no_fault
