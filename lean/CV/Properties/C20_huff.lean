import CV.Proofs.HuffSpec
/-!
# C20 (Huffman part) — the unsafe-block obligations of `src/symbol/huffman.rs`

Property theorems only.  The file has four `get_unchecked` sites; each is a `Fault.ub` branch of
the Impl model (`CV/Model/Huff.lean`):

* `huff.enc.new.index0`, `huff.enc.new.index1` — `nodes.get_unchecked_mut(index0/1)` in
  `EncoderHuffmanTree::try_from_probabilities`;
* `huff.suffix.get_unchecked` — `self.nodes.get_unchecked(node_index)` in `encode_symbol_suffix`;
* `huff.decode.get_unchecked` — `self.nodes.get_unchecked(node_index - num_symbols)` in
  `decode_symbol`.

The theorems say that no input reaches them.  The constructors are total functions of *every*
weight list (empty, too long, overflowing sums: those panic, they do not index); the walks are
stated for every tree a constructor can return, every symbol value and every bit source.
(`EncoderHuffmanTree`/`DecoderHuffmanTree` have private fields and no other constructor, so
"every tree a constructor can return" is every tree safe code can hold.)
-/
namespace CV.Huff.C20
open CV CV.Huff

/-- constructor sites: unreachable for every weight list and every weight type, including
lists whose weight sum overflows -/
theorem constructors_no_ub (wb : Option Nat) (ws : List Nat) (site : String) :
    encTree wb ws ≠ .error (.ub site) ∧ decTree wb ws ≠ .error (.ub site) :=
  ⟨encTree_no_ub wb ws site, decTree_no_ub wb ws site⟩

/-- the same through `try_from_probabilities` / `from_float_probabilities` (NaN / `Err` items) -/
theorem try_constructors_no_ub (wb : Option Nat) (ws : List (Option Nat)) (site : String) :
    tryEncTree wb ws ≠ .error (.fault (.ub site)) ∧ tryDecTree wb ws ≠ .error (.fault (.ub site)) := by
  constructor
  · simp only [tryEncTree]
    split
    · simp
    · next v _ =>
      split
      · simp
      · next f hf =>
        intro h; injection h with h; injection h with h; subst h
        exact encTree_no_ub wb v site hf
  · simp only [tryDecTree]
    split
    · simp
    · next v _ =>
      split
      · simp
      · next f hf =>
        intro h; injection h with h; injection h with h; subst h
        exact decTree_no_ub wb v site hf

/-- `encode_symbol_suffix` / `encode_symbol_prefix` on a constructed tree: for *every* symbol
value the result is a codeword or `ImpossibleSymbol` — never a fault (no out-of-bounds index,
and the unbounded `loop` terminates) -/
theorem encode_no_fault {wb : Option Nat} {ws : List Nat} {en : List Nat}
    (hen : encTree wb ws = .ok en) (hfit : WeightsFit wb ws) (s : Nat) (f : Fault) :
    encodeSuffix en s ≠ .error (.fault f) ∧ encodePrefix en s ≠ .error (.fault f) := by
  have hadm : Admissible wb ws := by
    refine ⟨?_, ?_, hfit⟩
    · cases ws with
      | nil => simp [encTree] at hen
      | cons _ _ => simp
    · by_cases h : ws.length ≤ usizeMax / 4
      · exact h
      · simp only [encTree, List.length_zipIdx] at hen
        rw [if_pos (Or.inr (by omega))] at hen
        cases hen
  obtain ⟨en', dn, T, he, _, _, B⟩ := admissible_build hadm
  rw [hen] at he; injection he with he; subst he
  by_cases hs : s < ws.length
  · obtain ⟨p, hp⟩ := B.code_of_lt hs
    rw [B.suffix hp, B.prefix hp]; simp
  · rw [B.suffix_reject (by omega), B.prefix_reject (by omega)]; simp

/-- `decode_symbol` on a constructed tree, for *every* bit source (arbitrary bits, truncated,
failing): a symbol of the alphabet, `OutOfCompressedData`, or the source's error — never a fault -/
theorem decode_no_fault {wb : Option Nat} {ws : List Nat} {dn : List (Nat × Nat)}
    (hdn : decTree wb ws = .ok dn) (hfit : WeightsFit wb ws) (hmax : ws.length ≤ usizeMax / 4)
    (src : List (Option Bool)) :
    (∃ s rest, decode dn src = .ok (s, rest) ∧ s < ws.length) ∨
      decode dn src = .error .outOfData ∨ decode dn src = .error .backend := by
  have hadm : Admissible wb ws := by
    refine ⟨?_, hmax, hfit⟩
    cases ws with
    | nil => simp [decTree] at hdn
    | cons _ _ => simp
  obtain ⟨en, dn', T, _, hd, _, B⟩ := admissible_build hadm
  rw [hdn] at hd; injection hd with hd; subst hd
  rcases B.decode_total src with ⟨s, p, rest, h1, h2, _, _⟩ | h | h
  · exact Or.inl ⟨s, rest, h1, h2⟩
  · exact Or.inr (Or.inl h)
  · exact Or.inr (Or.inr h)

/-- non-vacuity -/
example : decTree (some 32) [2, 2, 4, 1, 1] = .ok [(3, 4), (0, 1), (5, 2), (6, 7)] := by
  rfl
example : encTree (some 8) [200, 100] = .error (.overflow "huff.add") := by rfl
example : decode [(3, 4), (0, 1), (5, 2), (6, 7)] [some true, some false] = .error .outOfData := by
  rfl

end CV.Huff.C20

#print axioms CV.Huff.C20.constructors_no_ub
#print axioms CV.Huff.C20.try_constructors_no_ub
#print axioms CV.Huff.C20.encode_no_fault
#print axioms CV.Huff.C20.decode_no_fault
