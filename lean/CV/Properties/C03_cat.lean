import CV.Proofs.CatModels
/-!
# C03 (component `cat`): every constructible integer entropy model is valid and exactly
invertible

For each model family the two trait methods, packaged as a `Model` (`okEnc`/`okDec` turn a
`Fault` into `none` / the triple `(default, 0, 0)`, neither of which can satisfy
`WellFormed`), form a `Model.WellFormed P` model: non-empty bins tiling `[0, 2^P)`, no bin of
probability one, `quantile_function` the exact inverse of `left_cumulative_and_probability`;
symbols outside the support have probability zero.  All `1 ≤ P ≤ B`, `P = B` included.

**Distinct symbols.**  `C03_noncontiguous` and `C03_nclookup` take an *accepted hash-table
encoder* for the same `(symbols, probabilities)` as hypothesis; that constructor accepts only
pairwise distinct symbols (`C19_ncenc`), which is what `labelledModel_wellFormed` needs
(`Nodup`).  For a non-contiguous decoder / lookup decoder on its own the proved statement is
bin-level (`C19_ncdec`, `C19_nclookup`, `C05_noncontiguous`: valid cdf, quantile function =
specification with the given labels); it is **not** claimed that its symbols form a support
with one interval each, because the decoder constructors accept repeated symbols — the open
known finding described in `C05_cat.lean`.
-/
namespace CV.Cat
open CV

/-- the contiguous model as the coders see it -/
def Contiguous.toModel (B : Nat) (m : Contiguous) : Model Nat :=
  { enc := okEnc (m.enc B), dec := okDec (m.dec B) }

/-- **Representation invariant ⇒ C03** (used by every conversion that yields a contiguous
    model, e.g. `as_contiguous_categorical`) -/
theorem C03_contiguous_of_validCdf {B P : Nat} {m : Contiguous} (h : ValidCdf B P m.cdf)
    (hP : P ≤ B) :
    (m.toModel B).WellFormed P ∧
    (∀ s, m.cdf.length - 1 ≤ s → m.enc B s = .ok none) ∧
    (∀ s, s < m.cdf.length - 1 → ∃ c p, m.enc B s = .ok (some (c, p)) ∧ 0 < p ∧ p < 2 ^ P) := by
  have hl := h.length_eq
  refine ⟨?_, ?_, ?_⟩
  · apply WellFormed.congr (m2 := specModel (unwrap P m.cdf)) _ _ (specModel_wellFormed h.2)
    · intro s; simp only [Contiguous.toModel, okEnc, Contiguous.enc_eq h hP s, specModel]
    · intro q hq; simp only [Contiguous.toModel, okDec, Contiguous.dec_eq h hP hq, specModel]
  · intro s hs
    rw [Contiguous.enc_eq h hP s, specEnc_none (by omega)]
  · intro s hs
    rw [Contiguous.enc_eq h hP s]
    unfold specEnc
    rw [if_pos (by omega)]
    obtain ⟨b1, b2, b3⟩ := h.2.bin (s := s) (by omega)
    exact ⟨_, _, rfl, by omega, b3⟩

/-- **C03, `ContiguousCategoricalEntropyModel::from_nonzero_fixed_point_probabilities`** (with
    and without `infer_last_probability`) -/
theorem C03_contiguous {B P : Nat} {probs : List Nat} {infer : Bool} {m : Contiguous}
    (hP1 : 1 ≤ P) (hP : P ≤ B) (hprobs : ∀ p ∈ probs, p < 2 ^ B)
    (h : Contiguous.fromNonzeroFixedPoint B P probs infer = some m) :
    (m.toModel B).WellFormed P ∧
    (∀ s, m.cdf.length - 1 ≤ s → m.enc B s = .ok none) ∧
    (∀ s, s < m.cdf.length - 1 → ∃ c p, m.enc B s = .ok (some (c, p)) ∧ 0 < p ∧ p < 2 ^ P) :=
  C03_contiguous_of_validCdf (Contiguous.fromNonzeroFixedPoint_valid hP1 hP hprobs h) hP

/-- **C03, non-contiguous encoder + decoder model built from the same input**: the hash-table
    encoder and the searched decoder together are a well-formed model over the symbol type;
    symbols not in the list have probability zero -/
theorem C03_noncontiguous {Sym : Type} [DecidableEq Sym] [Inhabited Sym] {B P : Nat}
    {syms : List Sym} {probs : List Nat} {infer : Bool} {me : NcEnc Sym} {md : NcDec Sym}
    (hP1 : 1 ≤ P) (hP : P ≤ B) (hprobs : ∀ p ∈ probs, p < 2 ^ B)
    (he : NcEnc.fromSymbolsAndNonzeroFixedPoint B P syms probs infer = some me)
    (hd : NcDec.fromSymbolsAndNonzeroFixedPoint B P syms probs infer = .ok (some md)) :
    ({ enc := me.enc, dec := okDec (md.dec B) } : Model Sym).WellFormed P ∧
    (∀ s, s ∉ syms → me.enc s = none) := by
  obtain ⟨qs, hv, hqs, hlen, hnd, htbl⟩ := NcEnc.fromFixed_some hP1 hP hprobs he
  have hext := extOf_valid hv
  have hlen' : syms.length + 1 = (extOf qs).length := by rw [extOf_length]; omega
  rcases NcDec.fromFixed_some (syms := syms) (infer := infer) hP1 hP hprobs with h0 | ⟨m', qs', last, h1, _, hqs', _, hcdf⟩
  · rw [h0] at hd; simp at hd
  · rw [h1] at hd
    simp only [Except.ok.injEq, Option.some.injEq] at hd
    subst hd
    have : qs' = qs := by rw [hqs', hqs]
    subst this
    constructor
    · apply WellFormed.congr (m2 := labelledModel syms (extOf qs')) _ _
        (labelledModel_wellFormed hext hlen' hnd)
      · intro s; exact NcEnc.enc_of_specTable hlen' htbl s
      · intro q hq
        simp only [okDec]
        have := NcDec.dec_canon (B := B) (last := last) hext hlen' hP hq
        rw [← hcdf] at this
        rw [this]
    · intro s hs
      rw [NcEnc.enc_of_specTable hlen' htbl s]
      simp only [labelledModel, if_neg hs]

/-- **C03, `ContiguousLookupDecoderModel`** (its encoder side is `as_contiguous_categorical`) -/
theorem C03_lookup {B P : Nat} {probs : List Nat} {infer : Bool} {m : Lookup}
    (hP1 : 1 ≤ P) (hP : P ≤ B) (hprobs : ∀ p ∈ probs, p < 2 ^ B)
    (h : Lookup.fromNonzeroFixedPoint B P probs infer = some m) :
    ({ enc := okEnc (m.asContiguous.enc B), dec := okDec (m.dec B P) } : Model Nat).WellFormed P := by
  obtain ⟨qs, h1, h2, h3, hv, hok⟩ := Lookup.fromFixed_full hP1 hP hprobs h
  apply WellFormed.congr (m2 := specModel (unwrap P m.cdf)) _ _ (specModel_wellFormed hv.2)
  · intro s
    simp only [okEnc, Lookup.asContiguous]
    rw [Contiguous.enc_eq (m := { cdf := m.cdf }) hv hP s]
    rfl
  · intro q hq
    simp only [okDec, Lookup.dec_eq hv hP hok hq, specModel]

/-- **C03, `NonContiguousLookupDecoderModel`** together with the hash-table encoder built from
    the same input -/
theorem C03_nclookup {Sym : Type} [DecidableEq Sym] [Inhabited Sym] {B P : Nat}
    {syms : List Sym} {probs : List Nat} {infer : Bool} {me : NcEnc Sym} {ml : NcLookup Sym}
    (hP1 : 1 ≤ P) (hP : P ≤ B) (hprobs : ∀ p ∈ probs, p < 2 ^ B)
    (he : NcEnc.fromSymbolsAndNonzeroFixedPoint B P syms probs infer = some me)
    (hl : NcLookup.fromSymbolsAndNonzeroFixedPoint B P syms probs infer = .ok (some ml)) :
    ({ enc := me.enc, dec := okDec (ml.dec B P) } : Model Sym).WellFormed P := by
  obtain ⟨qs, hv, hqs, hlen, hnd, htbl⟩ := NcEnc.fromFixed_some hP1 hP hprobs he
  have hext := extOf_valid hv
  have hlen' : syms.length + 1 = (extOf qs).length := by rw [extOf_length]; omega
  rcases NcLookup.fromFixed_some (syms := syms) (infer := infer) hP1 hP hprobs with h0 | ⟨m', qs', last, h1, _, hqs', _, hcdf, hok⟩
  · rw [h0] at hl; simp at hl
  · rw [h1] at hl
    simp only [Except.ok.injEq, Option.some.injEq] at hl
    subst hl
    have : qs' = qs := by rw [hqs', hqs]
    subst this
    apply WellFormed.congr (m2 := labelledModel syms (extOf qs')) _ _
      (labelledModel_wellFormed hext hlen' hnd)
    · intro s; exact NcEnc.enc_of_specTable hlen' htbl s
    · intro q hq
      simp only [okDec]
      have := NcLookup.dec_canon (B := B) (last := last) (tbl := m'.tbl) hext hlen' hP hok hq
      have hm : m' = { tbl := m'.tbl, cdf := ncCdf B P syms (extOf qs') last } := by
        cases m'; simp_all
      rw [← hm] at this
      rw [this]

/-- **C03, `UniformModel::new(range)`** for every representable range, including the
    `PRECISION == Probability::BITS` branch -/
theorem C03_uniform {B P range : Nat} (hP1 : 1 ≤ P) (hP : P ≤ B) (hPU : P ≤ U)
    (hr : range < 2 ^ U) (h2 : 2 ≤ range) (hle : range ≤ 2 ^ P) :
    ∃ u, Uniform.new B P range = .ok u ∧
      ({ enc := okEnc (u.enc B P), dec := okDec (u.dec B P) } : Model Nat).WellFormed P ∧
      (∀ s, range ≤ s → u.enc B P s = .ok none) := by
  refine ⟨_, Uniform.new_ok hP1 hP hPU hr h2 hle, ?_, ?_⟩
  · apply WellFormed.congr (m2 := specModel (uniExt P range)) _ _
      (specModel_wellFormed (uniExt_valid h2 hle))
    · intro s; simp only [okEnc, Uniform.enc_eq hP h2 hle s, specModel]
    · intro q hq; simp only [okDec, Uniform.dec_eq hP hr h2 hle hq, specModel]
  · intro s hs
    rw [Uniform.enc_eq hP h2 hle s, specEnc_none (by rw [uniExt_length]; omega)]

/-! non-vacuity -/

example : Contiguous.fromNonzeroFixedPoint 8 8 [100, 100] true = some { cdf := [0, 100, 200, 0] } := by
  decide
example : (Contiguous.dec 8 { cdf := [0, 100, 200, 0] } 255) = .ok (2, 200, 56) := by
  simp [Contiguous.dec, cdfQuantile, bsearch, bsearchLoop, csub, wsub]
example : (Contiguous.enc 8 { cdf := [0, 100, 200, 0] } 2) = .ok (some (200, 56)) := by rfl

/-- the hypotheses of `C03_noncontiguous`, `C03_lookup`, `C03_nclookup`, `C03_uniform` are
    satisfiable: -/
example : (NcEnc.fromSymbolsAndNonzeroFixedPoint 8 8 [7, 9, 4] [100, 100] true).isSome = true := by
  decide
example : ∃ m, NcDec.fromSymbolsAndNonzeroFixedPoint 8 8 [7, 9, 4] [100, 100] true = .ok (some m) :=
  ⟨_, rfl⟩
example : ∃ m, Lookup.fromNonzeroFixedPoint 8 2 [1, 3] false = some m := ⟨_, rfl⟩
example : ∃ m, NcLookup.fromSymbolsAndNonzeroFixedPoint 8 2 [7, 9] [1] true = .ok (some m) := ⟨_, rfl⟩
example : ValidExt 3 (uniExt 3 3) := uniExt_valid (by decide) (by decide)

#print axioms C03_contiguous_of_validCdf
#print axioms C03_contiguous
#print axioms C03_noncontiguous
#print axioms C03_lookup
#print axioms C03_nclookup
#print axioms C03_uniform

end CV.Cat
