import CV.Model.QuantFloatReplica
import CV.Proofs.QuantExamples
import CV.Proofs.QuantCatLink
import CV.Proofs.QuantFloatInstances
/-!
# C03 (component `quant`): every float-derived entropy model is valid and exactly invertible

Float-dependent layer.  The general theorems do not reason about IEEE arithmetic: it enters
through the integer sequences it produces, with the trusted-base assumptions stated as explicit,
decidable **hypotheses** (`TBF1Fast`, `TBF2`, `GOk` — see `CV.Proofs.QuantModels`; never axioms),
which the driver evaluates on every sampled instance, and which are *proved* by `decide` (the
Lean 4.33 kernel reduces closed `Float`/`Float32` terms) on realistic instances in
`CV.Proofs.QuantFloatInstances` — the `example`s below use those next to synthetic ones.  From them, for all `1 ≤ P ≤ B ≤ 64`
(`P = B` included) and every integer symbol type (signed/unsigned, narrower/wider than
`Probability`):

* `C03_fast_cdf_valid`   — `fast_quantized_cdf` + `from_fixed_point_cdf` yield a `ValidCdf`
  (component `cat`'s representation invariant), hence a `WellFormed` contiguous model;
  `C03_ncdec_fast`, `C03_ncenc_fast`, `C03_lookup_fast`, `C03_nclookup_fast` — the other four
  `…_fast` constructors (glue over the same `fast_quantized_cdf`) yield the canonical models of
  the same table: no `Fault`, decoder/encoder of the labelled specification model;
* `C03_lazy_wellFormed`  — the lazy model is `WellFormed`;
* `C03_leaky_wellFormed` — the leakily quantised model is `WellFormed` **for every hint
  function**; `C03_leaky_search_every_hint` is the underlying statement about the search
  (unique owner, no `Fault`, at most `4 * bits + 8` probes), `C03_leaky_tiling` the tiling.

Label: **partial** only in the step from the documented float preconditions to the three
hypotheses (TB-F1/TB-F2, certificate-checked per instance); the integer layer and the search
algorithm are full.  `perfectly_quantized_probabilities`: only its output contract is modelled;
validity of every `…_perfect` result comes from component `cat`'s validator theorem
(`C19_validator_accepts_only_valid` in `C19_cat`: the weights are passed through
`from_nonzero_fixed_point_probabilities`), **not** from `C03_perfect_contract` below, which merely
unfolds the contract the driver checks; termination is not claimed.
-/
namespace CV.Quant
open CV

/-- the contiguous model over a cdf table as the coders see it (component `cat`'s encoder lookup
    and binary-search decoder) -/
def contiguousModel (B : Nat) (cdf : List Nat) : Model Nat :=
  { enc := Cat.okEnc ((⟨cdf⟩ : Cat.Contiguous).enc B),
    dec := Cat.okDec ((⟨cdf⟩ : Cat.Contiguous).dec B) }

/-- **C03, eager `from_floating_point_probabilities_fast`** (all five constructors share
    `fast_quantized_cdf`): the constructor does not fault and its cdf satisfies `ValidCdf`;
    consequently the contiguous model over it is `WellFormed` -/
theorem C03_fast_cdf_valid {B P n : Nat} {h : Nat → Nat} (hP1 : 1 ≤ P) (hPB : P ≤ B) (hB : B ≤ 64)
    (hlen : lenOk P n = true) (tb : TBF1Fast h n) :
    ∃ cdf, fastCdf B P n (freeWeight B P n) h = .ok cdf ∧ Cat.ValidCdf B P cdf ∧
      (contiguousModel B cdf).WellFormed P := by
  have ok := FastOk.of_lenOk hP1 hPB hB hlen
  have hf := freeWeight_eq ok
  have hv := cdfList_valid (h := h) ok hf tb
  refine ⟨_, fastCdf_eq ok hf, hv, ?_⟩
  apply Cat.WellFormed.congr (m2 := Cat.specModel (Cat.unwrap P _)) _ _
    (Cat.specModel_wellFormed hv.2)
  · intro s
    show Cat.okEnc _ s = _
    unfold Cat.okEnc
    rw [Cat.Contiguous.enc_eq (m := ⟨cdfList B P n (freeWeight B P n) h⟩) hv hPB s]; rfl
  · intro q hq
    show Cat.okDec _ q = _
    unfold Cat.okDec
    rw [Cat.Contiguous.dec_eq (m := ⟨cdfList B P n (freeWeight B P n) h⟩) hv hPB hq]; rfl

example : ∃ cdf, fastCdf 16 12 4 (freeWeight 16 12 4) exH = .ok cdf ∧ Cat.ValidCdf 16 12 cdf ∧
    (contiguousModel 16 cdf).WellFormed 12 :=
  C03_fast_cdf_valid (by decide) (by decide) (by decide) (by decide) exTBF1

/-- the same on a real `f32` table: the D4 reproducer at `u32` / `P = 24`, hypotheses by `decide` -/
example : ∃ cdf, fastCdf 32 24 5 (freeWeight 32 24 5) (d4.hE f32Ops 32) = .ok cdf ∧
    Cat.ValidCdf 32 24 cdf ∧ (contiguousModel 32 cdf).WellFormed 24 :=
  C03_fast_cdf_valid (by decide) (by decide) (by decide) (by decide) (d4_n ▸ d4_tbf1)

/-- **C03, `LazyContiguousCategoricalEntropyModel`**; the out-of-support clause is stated on the
    model function itself (`.ok none`: a `Fault` does not count as "impossible symbol") -/
theorem C03_lazy_wellFormed {B P n : Nat} {h : Nat → Nat} {k0 : Nat → Nat} (hP1 : 1 ≤ P)
    (hPB : P ≤ B) (hB : B ≤ 64) (hlen : lenOk P n = true) (tb : TBF1Fast h n)
    (t2 : TBF2 P n (freeWeight B P n) h k0) :
    (lazyModel B P n (freeWeight B P n) h k0).WellFormed P ∧
    (∀ s, n ≤ s → lazyEnc B P n (freeWeight B P n) h s = .ok none) ∧
    (∀ s, s < n → ∃ c p, lazyEnc B P n (freeWeight B P n) h s = .ok (some (c, p)) ∧
      0 < p ∧ p < 2 ^ P) := by
  have ok := FastOk.of_lenOk hP1 hPB hB hlen
  have hf := freeWeight_eq ok
  refine ⟨lazyModel_wellFormed ok hB hf tb t2, fun s hs => ?_, ?_⟩
  · rw [lazyEnc_eq ok hf tb.mono]; unfold encF; rw [if_neg (by omega)]
  intro s hs
  refine ⟨cumF P n (freeWeight B P n) h s, widthF P n (freeWeight B P n) h s, ?_,
    width_pos ok hf tb.mono hs, width_lt ok hf tb.mono hs⟩
  rw [lazyEnc_eq ok hf tb.mono]; unfold encF; rw [if_pos hs]

example : (lazyModel 16 12 4 (freeWeight 16 12 4) exH (fun _ => 1)).WellFormed 12 :=
  (C03_lazy_wellFormed (by decide) (by decide) (by decide) (by decide) exTBF1
    (by rw [exFree]; exact exTBF2)).1

/-- the same on a real `f32` model at `u8` / `P = 6` whose skip phase skips (`lz_skips`);
    TB-F1 and TB-F2 for *all* 64 quantiles by `decide` -/
example : (lazyModel 8 6 6 (freeWeight 8 6 6) (lz.hE f32Ops 8) (lz.k0 f32Ops 8)).WellFormed 6 :=
  (C03_lazy_wellFormed (by decide) (by decide) (by decide) (by decide) lz_tbf1 lz_tbf2).1

/-- **C03, `LeakilyQuantizedDistribution`: tiling, non-empty bins, none of probability one** -/
theorem C03_leaky_tiling {m : LQ} {g : Int → Nat} (ok : m.Ok) (gk : GOk m g) :
    leftQ m g m.min = 0 ∧ rightQ m g m.max = 2 ^ m.P ∧
    (∀ s, m.min ≤ s → s < m.max → rightQ m g s = leftQ m g (s + 1)) ∧
    (∀ s, m.min ≤ s → s ≤ m.max → 0 < widthQ m g s ∧ widthQ m g s < 2 ^ m.P) := by
  refine ⟨leftQ_min, by unfold rightQ; rw [if_pos rfl], ?_, ?_⟩
  · intro s h1 h2; exact rightQ_eq_left_succ h1 h2
  · intro s h1 h2; exact widthQ_bounds ok gk h1 h2

example : leftQ exLQ exG exLQ.min = 0 ∧ rightQ exLQ exG exLQ.max = 2 ^ exLQ.P :=
  ⟨(C03_leaky_tiling exLQ_ok exG_ok).1, (C03_leaky_tiling exLQ_ok exG_ok).2.1⟩

/-- **C03, the search of `quantile_function` is correct for every hint value**: it returns the
    unique symbol `a` with `left a ≤ q < right a`, its left cumulative and probability, never a
    `Fault`, within `searchFuel t = 4 * bits + 8` probes — "the hint only seeds the search" -/
theorem C03_leaky_search_every_hint {m : LQ} {g : Int → Nat} (ok : m.Ok) (gk : GOk m g)
    {q : Nat} (hq : q < 2 ^ m.P) (hint : Int) {fuel : Nat} (hf : searchFuel m.t ≤ fuel) :
    ∃ a, (m.min ≤ a ∧ a ≤ m.max ∧ leftQ m g a ≤ q ∧ q < rightQ m g a) ∧
      (∀ b, Bin m g q b → b = a) ∧
      m.dec (extL g) (extR g) fuel hint q = .ok (a, leftQ m g a, widthQ m g a) := by
  obtain ⟨a, ha, hd⟩ := dec_correct ok gk hq hint hf
  exact ⟨a, ha, fun b hb => bin_unique_q ok gk hb ha, hd⟩

example : ∃ a, exLQ.dec (extL exG) (extR exG) (searchFuel exLQ.t) 1000000000 2000
    = .ok (a, leftQ exLQ exG a, widthQ exLQ exG a) := by
  obtain ⟨a, _, _, h⟩ := C03_leaky_search_every_hint exLQ_ok exG_ok (q := 2000) (by decide)
    1000000000 (Nat.le_refl (searchFuel exLQ.t))
  exact ⟨a, h⟩

/-- **C03, `LeakilyQuantizedDistribution` is `WellFormed` for every hint function** (any
    `Inverse::inverse`, however wrong), and the decoder does not depend on the hints -/
theorem C03_leaky_wellFormed {m : LQ} {g : Int → Nat} (ok : m.Ok) (gk : GOk m g)
    (hint : Nat → Int) :
    (leakyModel m g hint).WellFormed m.P ∧
    (∀ hint' q, q < 2 ^ m.P → (leakyModel m g hint).dec q = (leakyModel m g hint').dec q) ∧
    (∀ s, s < m.min ∨ m.max < s → m.enc (extL g) (extR g) s = .ok none) :=
  ⟨leakyModel_wellFormed ok gk, fun hint' _ hq => leakyModel_dec_hint_irrelevant ok gk hint hint' hq,
    fun s hs => by rw [enc_eq ok gk]; unfold encQ; rw [if_neg (by omega)]⟩

example : (leakyModel exLQ exG (fun _ => -100)).WellFormed 12 :=
  (C03_leaky_wellFormed exLQ_ok exG_ok _).1
example : (leakyModel exLQfull (fun _ => 0) (fun q => q)).WellFormed 8 :=
  (C03_leaky_wellFormed exLQfull_ok exGfull_ok _).1
/-- the real quantised standard Gaussian on `-5..=5` (`GOk` by `decide` from the recorded CDF) -/
example : (leakyModel gaussLQ gaussG (fun _ => 1000000)).WellFormed 24 :=
  (C03_leaky_wellFormed gaussLQ_ok gauss_gok _).1

/-! ### the four glue constructors over `fast_quantized_cdf` -/

/-- **C03, `NonContiguousCategoricalDecoderModel::…_fast`**: with as many (pairwise distinct)
    symbols as weights the constructor succeeds and the decoder is the labelled specification
    model of the shared table, which is `WellFormed` -/
theorem C03_ncdec_fast {Sym : Type} [DecidableEq Sym] [Inhabited Sym] {B P n : Nat} {h : Nat → Nat}
    (hP1 : 1 ≤ P) (hPB : P ≤ B) (hB : B ≤ 64) (hlen : lenOk P n = true) (tb : TBF1Fast h n)
    {syms : List Sym} (hs : syms.length = n) (hnd : syms.Nodup) :
    ∃ m, Cat.NcDec.fromSymbolsAndCdf B P syms (innerList P n (freeWeight B P n) h) = .ok (some m) ∧
      (∀ q, q < 2 ^ P → m.dec B q
        = .ok ((Cat.labelledModel syms (extList P n (freeWeight B P n) h)).dec q)) ∧
      (Cat.labelledModel syms (extList P n (freeWeight B P n) h)).WellFormed P := by
  have ok := FastOk.of_lenOk hP1 hPB hB hlen
  have hf := freeWeight_eq ok
  have hv := extList_valid (h := h) ok hf tb
  have hl : syms.length + 1 = (extList P n (freeWeight B P n) h).length := by
    rw [extList_length]; omega
  obtain ⟨last, hm⟩ := ncdec_fast (free := freeWeight B P n) (h := h) ok hs
  exact ⟨_, hm, fun q hq => Cat.NcDec.dec_canon hv hl hPB hq, Cat.labelledModel_wellFormed hv hl hnd⟩

/-- **C03, `NonContiguousCategoricalEncoderModel::…_fast`** -/
theorem C03_ncenc_fast {Sym : Type} [DecidableEq Sym] [Inhabited Sym] {B P n : Nat} {h : Nat → Nat}
    (hP1 : 1 ≤ P) (hPB : P ≤ B) (hB : B ≤ 64) (hlen : lenOk P n = true) (tb : TBF1Fast h n)
    {syms : List Sym} (hs : syms.length = n) (hnd : syms.Nodup) :
    ∃ m, Cat.NcEnc.fromSymbolsAndCdf B P syms (innerList P n (freeWeight B P n) h) = .ok (some m) ∧
      ∀ s, m.enc s = (Cat.labelledModel syms (extList P n (freeWeight B P n) h)).enc s := by
  have ok := FastOk.of_lenOk hP1 hPB hB hlen
  obtain ⟨m, h1, _, h3⟩ := ncenc_fast ok (freeWeight_eq ok) tb hs hnd
  exact ⟨m, h1, h3⟩

/-- **C03, `ContiguousLookupDecoderModel::…_fast`**: the lookup table is correct — the decoder
    returns the bin of the specification for every quantile -/
theorem C03_lookup_fast {B P n : Nat} {h : Nat → Nat} (hP1 : 1 ≤ P) (hPB : P ≤ B) (hB : B ≤ 64)
    (hlen : lenOk P n = true) (tb : TBF1Fast h n) :
    ∃ lk, Cat.Lookup.fromContiguous B P ⟨cdfList B P n (freeWeight B P n) h⟩ = .ok lk ∧
      ∀ q, q < 2 ^ P → lk.dec B P q = .ok (Cat.specDec (extList P n (freeWeight B P n) h) q) := by
  have ok := FastOk.of_lenOk hP1 hPB hB hlen
  have hf := freeWeight_eq ok
  obtain ⟨tbl, h1, h2⟩ := lookup_fast (h := h) ok hf tb
  refine ⟨_, h1, fun q hq => ?_⟩
  have hv := cdfList_valid (h := h) ok hf tb
  have := Cat.Lookup.dec_eq (m := { tbl := tbl, cdf := cdfList B P n (freeWeight B P n) h }) hv hPB
    (by rw [unwrap_cdfList]; exact h2) hq
  rw [unwrap_cdfList] at this; exact this

/-- **C03, `NonContiguousLookupDecoderModel::…_fast`** -/
theorem C03_nclookup_fast {Sym : Type} [DecidableEq Sym] [Inhabited Sym] {B P n : Nat}
    {h : Nat → Nat} (hP1 : 1 ≤ P) (hPB : P ≤ B) (hB : B ≤ 64) (hlen : lenOk P n = true)
    (tb : TBF1Fast h n) {syms : List Sym} (hs : syms.length = n) :
    ∃ m, Cat.NcLookup.fromSymbolsAndCdf B P syms (innerList P n (freeWeight B P n) h) = .ok (some m) ∧
      ∀ q, q < 2 ^ P → m.dec B P q
        = .ok ((Cat.labelledModel syms (extList P n (freeWeight B P n) h)).dec q) := by
  have ok := FastOk.of_lenOk hP1 hPB hB hlen
  have hf := freeWeight_eq ok
  have hv := extList_valid (h := h) ok hf tb
  have hl : syms.length + 1 = (extList P n (freeWeight B P n) h).length := by
    rw [extList_length]; omega
  obtain ⟨tbl, last, hm, hok⟩ := nclookup_fast (h := h) ok hf tb hs
  exact ⟨_, hm, fun q hq => Cat.NcLookup.dec_canon hv hl hPB hok hq⟩

example := C03_ncdec_fast (B := 32) (P := 24) (n := 5) (h := d4.hE f32Ops 32)
  (syms := [10, 20, 30, 40, 50]) (by decide) (by decide) (by decide) (by decide)
  (d4_n ▸ d4_tbf1) rfl (by decide)

/-- **C03, `…_perfect` constructors** (output contract only — see the file header: validity of
    `…_perfect` results is `cat`'s `C19_validator_accepts_only_valid`): weights that satisfy the
    contract are non-zero and sum to `2^P` -/
theorem C03_perfect_contract {P n : Nat} {w : List Nat} (h : perfectContract P n w = true) :
    w.length = n ∧ (∀ x ∈ w, 0 < x) ∧ w.foldl (· + ·) 0 = 2 ^ P := by
  unfold perfectContract at h
  simp only [Bool.and_eq_true, beq_iff_eq, List.all_eq_true, decide_eq_true_eq] at h
  exact ⟨h.1.1, h.1.2, h.2⟩

example : perfectContract 3 3 [5, 1, 2] = true := by decide

/-- the obligation fails for the code before D4 (no clamp) -/
theorem C03_D4_counterexample :
    let h : Nat → Nat := fun i => i * 3
    Mono h 3 ∧ h 0 = 0 ∧ (List.range 3).map (fun i => h i + i) ++ [2 ^ 3] = [0, 4, 8, 8] :=
  D4_counterexample

/-- … and before D16 (`step << 1 != 0`): an `i8` step of 64 doubles to `-128` -/
theorem C03_D16_counterexample :
    (⟨8, true⟩ : SymTy).wrap (64 * 2) = -128 ∧ (⟨8, true⟩ : SymTy).wrap (64 * 2) ≠ 0 ∧
    exLQ.dbl 64 = 64 := D16_counterexample

end CV.Quant

#print axioms CV.Quant.C03_fast_cdf_valid
#print axioms CV.Quant.C03_lazy_wellFormed
#print axioms CV.Quant.C03_leaky_tiling
#print axioms CV.Quant.C03_leaky_search_every_hint
#print axioms CV.Quant.C03_leaky_wellFormed
#print axioms CV.Quant.C03_ncdec_fast
#print axioms CV.Quant.C03_ncenc_fast
#print axioms CV.Quant.C03_lookup_fast
#print axioms CV.Quant.C03_nclookup_fast
#print axioms CV.Quant.C03_perfect_contract
#print axioms CV.Quant.C03_D4_counterexample
#print axioms CV.Quant.C03_D16_counterexample
