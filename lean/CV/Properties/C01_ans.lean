import CV.Proofs.AnsInverse
import CV.Proofs.AnsExport
import CV.Proofs.AnsAtomic
import CV.Proofs.RangeTableModel
/-!
# C01 — the ANS coder is a lossless stack under any history

Property theorems only (helper lemmas live in `CV/Proofs/Ans*.lean`).
All theorems are about the Impl model `CV.Ans` (`CV/Model/Ans.lean`), for **all** word/state
widths and precisions admitted by the crate (`Cfg.Valid`), all coders satisfying the
documented representation invariant `Inv`, all well-formed entropy models.
-/
namespace CV.Ans.C01
open CV CV.Ans

variable {Sym : Type}

/-- Push then pop: `encode` succeeds (no fault, no truncation), preserves the invariant, and a
    following `decode` with the same model returns the pushed symbol and **exactly** the
    previous coder. -/
theorem decode_encode {c : Cfg} (hc : c.Valid) {m : Model Sym} (hm : m.WellFormed c.P)
    {x : Coder} (hx : Inv c x) (hcap : x.cap = none) {s : Sym} {cp : Nat × Nat}
    (henc : m.enc s = some cp) :
    ∃ y, encode c m s x = .ok y ∧ Inv c y ∧ y.cap = none ∧ decode c m y = .ok (s, x) := by
  obtain ⟨cum, p⟩ := cp
  obtain ⟨hp, hsum, hp1, _⟩ := hm.1 _ _ _ henc
  have hcp : CPok c.P cum p := ⟨hp, hsum, hp1⟩
  refine ⟨encArith c x cum p, ?_, encArith_inv hc hx hcp, ?_, ?_⟩
  · simp only [encode, henc]; exact encodeCP_spec hc hx hcap hcp
  · simp only [encArith, afterFlush]; split <;> exact hcap
  · rw [(decode_spec hc hm (encArith_inv hc hx hcp)).1, decArith_encArith hc hm hx henc]

/-- Export then re-import is the identity on coders (hence on all later behaviour). -/
theorem import_export {c : Cfg} (hc : c.Valid) {x : Coder} (hx : Inv c x) (hcap : x.cap = none) :
    ∃ ws, intoCompressed c x = some ws ∧ fromCompressed c ws = some x :=
  fromCompressed_intoCompressed hc hx hcap

/-- `into_compressed` never returns data with a trailing zero word. -/
theorem no_trailing_zero {c : Cfg} (hc : c.Valid) {x : Coder} (hx : Inv c x) (hcap : x.cap = none)
    {w : Nat} {rest : List Nat} (h : intoCompressed c x = some (w :: rest)) : w ≠ 0 :=
  intoCompressed_head_ne_zero hc hx hcap h

/-! ## Histories -/

/-- one pushed symbol together with the model and precision it was pushed with -/
structure Entry (Sym : Type) where
  P : Nat
  B : Nat
  m : Model Sym
  s : Sym

def Entry.cfg (W S : Nat) (e : Entry Sym) : Cfg := { W := W, S := S, P := e.P, B := e.B }

/-- the precision is admitted by the crate, the model is well-formed, the symbol is in its support -/
def Entry.OK (W S : Nat) (e : Entry Sym) : Prop :=
  (e.cfg W S).Valid ∧ e.m.WellFormed e.P ∧ ∃ cp, e.m.enc e.s = some cp

inductive Op (Sym : Type) where
  /-- `encode_symbol(e.s, e.m)` at precision `e.P` -/
  | push (e : Entry Sym)
  /-- `decode_symbol` with the model of the most recent not-yet-popped push (no-op if none) -/
  | pop
  /-- `decode_symbol(e.m)` while nothing pushed is left: moves the base (no-op otherwise) -/
  | popBelow (e : Entry Sym)
  /-- `into_compressed` followed by `from_compressed` -/
  | reload
  /-- continue with a clone -/
  | clone

def Op.OK (W S : Nat) : Op Sym → Prop
  | .push e => e.OK W S
  | .popBelow e => (e.cfg W S).Valid ∧ e.m.WellFormed e.P
  | _ => True

structure RunState (Sym : Type) where
  coder : Coder
  /-- ghost: the coder as it was when the oldest not-yet-popped push was made -/
  base : Coder
  /-- ghost: not-yet-popped pushes, most recent first -/
  ghost : List (Entry Sym)
  /-- symbols returned by `pop`, most recent first -/
  outs : List Sym

inductive RunErr where
  | enc (e : EncErr)
  | fault (f : Fault)
  | importFailed

/-- one operation on the Impl model -/
def step (W S : Nat) (st : RunState Sym) : Op Sym → Except RunErr (RunState Sym)
  | .push e =>
    match encode (e.cfg W S) e.m e.s st.coder with
    | .ok y => .ok { st with coder := y, ghost := e :: st.ghost }
    | .error err => .error (.enc err)
  | .pop =>
    match st.ghost with
    | [] => .ok st
    | e :: g =>
      match decode (e.cfg W S) e.m st.coder with
      | .ok (s, y) => .ok { st with coder := y, ghost := g, outs := s :: st.outs }
      | .error f => .error (.fault f)
  | .popBelow e =>
    match st.ghost with
    | [] =>
      match decode (e.cfg W S) e.m st.coder with
      | .ok (_, y) => .ok { st with coder := y, base := y }
      | .error f => .error (.fault f)
    | _ :: _ => .ok st
  | .reload =>
    match intoCompressed { W := W, S := S, P := 1, B := 1 } st.coder with
    | some ws =>
      match fromCompressed { W := W, S := S, P := 1, B := 1 } ws with
      | some y => .ok { st with coder := y }
      | none => .error .importFailed
    | none => .error .importFailed
  | .clone => .ok st

def run (W S : Nat) : RunState Sym → List (Op Sym) → Except RunErr (RunState Sym)
  | st, [] => .ok st
  | st, op :: ops =>
    match step W S st op with
    | .ok st' => run W S st' ops
    | .error e => .error e

/-- the specification: a plain stack of symbols -/
def specRun : List Sym → List (Op Sym) → List Sym → List Sym × List Sym
  | g, [], outs => (g, outs)
  | g, .push e :: ops, outs => specRun (e.s :: g) ops outs
  | s :: g, .pop :: ops, outs => specRun g ops (s :: outs)
  | [], .pop :: ops, outs => specRun [] ops outs
  | g, _ :: ops, outs => specRun g ops outs

/-- the coder obtained from `base` by pushing the entries of `g` (most recent first) -/
def replay (W S : Nat) (base : Coder) : List (Entry Sym) → Coder
  | [] => base
  | e :: g =>
    match e.m.enc e.s with
    | some (cum, p) => encArith (e.cfg W S) (replay W S base g) cum p
    | none => replay W S base g

theorem encArith_cap (c : Cfg) (x : Coder) (cum p : Nat) : (encArith c x cum p).cap = x.cap := by
  simp only [encArith, afterFlush]; split <;> rfl

theorem decArith_cap (c : Cfg) (m : Model Sym) (x : Coder) : (decArith c m x).2.cap = x.cap := by
  simp only [decArith]
  split
  · split <;> rfl
  · rfl

theorem replay_inv {W S : Nat} {base : Coder} (hb : ∀ c : Cfg, c.W = W → c.S = S → Inv c base)
    (hcap : base.cap = none) (g : List (Entry Sym)) (hg : ∀ e ∈ g, e.OK W S) :
    (∀ c : Cfg, c.W = W → c.S = S → Inv c (replay W S base g)) ∧ (replay W S base g).cap = none := by
  induction g with
  | nil => exact ⟨hb, hcap⟩
  | cons e g ih =>
    have ⟨ih1, ih2⟩ := ih (fun e he => hg e (List.mem_cons_of_mem _ he))
    obtain ⟨hv, hm, cp, henc⟩ := hg e List.mem_cons_self
    obtain ⟨cum, p⟩ := cp
    obtain ⟨hp, hsum, hp1, _⟩ := hm.1 _ _ _ henc
    simp only [replay, henc]
    refine ⟨?_, by rw [encArith_cap]; exact ih2⟩
    intro c hW hS
    have := encArith_inv hv (ih1 (e.cfg W S) rfl rfl) (cum := cum) (p := p) ⟨hp, hsum, hp1⟩
    -- `Inv` only depends on `W` and `S`
    unfold Inv at this ⊢
    simp only [Entry.cfg] at this
    rw [hW, hS]
    exact this

/-- `Inv` depends on the configuration only through `W` and `S`. -/
theorem inv_congr {c c' : Cfg} (hW : c.W = c'.W) (hS : c.S = c'.S) {x : Coder} (h : Inv c x) :
    Inv c' x := by
  unfold Inv at h ⊢; rw [← hW, ← hS]; exact h

/-- **C01 (history form).** For every finite history of pushes, pops, pops below the base,
    export/re-import round trips and clones — with any per-symbol precision and model — the
    Impl model never faults, every `pop` returns exactly the symbol of the most recent
    not-yet-popped push (`outs` equals the output of a plain symbol stack), the coder always
    equals "base plus the un-popped pushes", and once everything pushed has been popped the
    coder *is* the base coder again (so its exported words are what they were). -/
theorem run_refines_stack {W S : Nat} (hWS : 1 ≤ W ∧ 2 * W ≤ S)
    (ops : List (Op Sym)) (hops : ∀ op ∈ ops, op.OK W S)
    (st : RunState Sym)
    (hbase : Inv { W := W, S := S, P := 1, B := 1 } st.base) (hcap : st.base.cap = none)
    (hghost : ∀ e ∈ st.ghost, e.OK W S)
    (hcoder : st.coder = replay W S st.base st.ghost) :
    ∃ fin, run W S st ops = .ok fin ∧
      Inv { W := W, S := S, P := 1, B := 1 } fin.coder ∧
      fin.coder = replay W S fin.base fin.ghost ∧
      (fin.ghost.map (·.s), fin.outs) = specRun (st.ghost.map (·.s)) ops st.outs ∧
      (fin.ghost = [] → fin.coder = fin.base) := by
  induction ops generalizing st with
  | nil =>
    refine ⟨st, rfl, ?_, hcoder, rfl, ?_⟩
    · rw [hcoder]
      exact (replay_inv (fun c hW hS => inv_congr hW.symm hS.symm hbase) hcap _ hghost).1 _ rfl rfl
    · intro h; rw [hcoder, h]; rfl
  | cons op ops ih =>
    have hrest : ∀ op ∈ ops, op.OK W S := fun o ho => hops o (List.mem_cons_of_mem _ ho)
    have hop := hops op List.mem_cons_self
    have hbase' : ∀ c : Cfg, c.W = W → c.S = S → Inv c st.base :=
      fun c hW hS => inv_congr hW.symm hS.symm hbase
    have ⟨hinv, hcap'⟩ := replay_inv hbase' hcap _ hghost
    cases op with
    | push e =>
      obtain ⟨hv, hm, cp, henc⟩ := hop
      obtain ⟨cum, p⟩ := cp
      obtain ⟨y, hy, _, _, _⟩ := decode_encode hv hm
        (hcoder ▸ hinv (e.cfg W S) rfl rfl) (hcoder ▸ hcap') henc
      have hy' : y = encArith (e.cfg W S) st.coder cum p := by
        obtain ⟨hp, hsum, hp1, _⟩ := hm.1 _ _ _ henc
        have := encodeCP_spec hv (hcoder ▸ hinv (e.cfg W S) rfl rfl) (hcoder ▸ hcap')
          (cum := cum) (p := p) ⟨hp, hsum, hp1⟩
        simp only [encode, henc] at hy
        rw [this] at hy
        exact (Except.ok.inj hy).symm
      obtain ⟨fin, h1, h2, h3, h4, h5⟩ := ih hrest
        { st with coder := y, ghost := e :: st.ghost } hbase hcap
        (fun e' he' => by
          rcases List.mem_cons.mp he' with h | h
          · rw [h]; exact ⟨hv, hm, _, henc⟩
          · exact hghost e' h)
        (by simp only [replay, henc]; rw [hy', hcoder])
      refine ⟨fin, ?_, h2, h3, ?_, h5⟩
      · simp only [run, step, hy]; exact h1
      · simpa [specRun] using h4
    | pop =>
      cases hg : st.ghost with
      | nil =>
        obtain ⟨fin, h1, h2, h3, h4, h5⟩ := ih hrest st hbase hcap hghost hcoder
        refine ⟨fin, ?_, h2, h3, ?_, h5⟩
        · simp only [run, step, hg]; exact h1
        · simpa [specRun, hg] using h4
      | cons e g =>
        have heOK : e.OK W S := hghost e (by rw [hg]; exact List.mem_cons_self)
        obtain ⟨hv, hm, cp, henc⟩ := heOK
        obtain ⟨cum, p⟩ := cp
        have hgOK : ∀ e' ∈ g, e'.OK W S :=
          fun e' he' => hghost e' (by rw [hg]; exact List.mem_cons_of_mem _ he')
        have ⟨hinvg, hcapg⟩ := replay_inv hbase' hcap g hgOK
        obtain ⟨y, hy, _, _, hdec⟩ := decode_encode hv hm (hinvg (e.cfg W S) rfl rfl) hcapg henc
        have hyc : y = st.coder := by
          obtain ⟨hp, hsum, hp1, _⟩ := hm.1 _ _ _ henc
          have := encodeCP_spec hv (hinvg (e.cfg W S) rfl rfl) hcapg (cum := cum) (p := p)
            ⟨hp, hsum, hp1⟩
          simp only [encode, henc] at hy
          rw [this] at hy
          rw [hcoder, hg]
          simp only [replay, henc]
          exact (Except.ok.inj hy).symm
        rw [hyc] at hdec
        obtain ⟨fin, h1, h2, h3, h4, h5⟩ := ih hrest
          { st with coder := replay W S st.base g, ghost := g, outs := e.s :: st.outs }
          hbase hcap hgOK rfl
        refine ⟨fin, ?_, h2, h3, ?_, h5⟩
        · simp only [run, step, hg, hdec]; exact h1
        · simpa [specRun, hg] using h4
    | popBelow e =>
      cases hg : st.ghost with
      | nil =>
        obtain ⟨hv, hm⟩ := hop
        have hcb : st.coder = st.base := by rw [hcoder, hg]; rfl
        have hinvc : Inv (e.cfg W S) st.coder := hcb ▸ hbase' (e.cfg W S) rfl rfl
        obtain ⟨hd1, _, _⟩ := decode_spec hv hm hinvc
        obtain ⟨hi1, _, _⟩ := encArith_decArith hv hm hinvc
        obtain ⟨fin, h1, h2, h3, h4, h5⟩ := ih hrest
          { st with coder := (decArith (e.cfg W S) e.m st.coder).2,
                    base := (decArith (e.cfg W S) e.m st.coder).2 }
          (inv_congr rfl rfl hi1) (by rw [decArith_cap, hcb]; exact hcap)
          hghost (by simp only [hg]; rfl)
        simp only [hg] at h1
        refine ⟨fin, ?_, h2, h3, ?_, h5⟩
        · simp only [run, step, hg, hd1]; exact h1
        · simpa [specRun, hg] using h4
      | cons e' g =>
        obtain ⟨fin, h1, h2, h3, h4, h5⟩ := ih hrest st hbase hcap hghost hcoder
        refine ⟨fin, ?_, h2, h3, ?_, h5⟩
        · simp only [run, step, hg]; exact h1
        · simpa [specRun, hg] using h4
    | reload =>
      have hv : ({ W := W, S := S, P := 1, B := 1 } : Cfg).Valid := by
        unfold Cfg.Valid; simp only; omega
      obtain ⟨ws, hw1, hw2⟩ := import_export hv (hcoder ▸ hinv _ rfl rfl) (hcoder ▸ hcap')
      obtain ⟨fin, h1, h2, h3, h4, h5⟩ := ih hrest st hbase hcap hghost hcoder
      refine ⟨fin, ?_, h2, h3, ?_, h5⟩
      · simp only [run, step, hw1, hw2]; exact h1
      · simpa [specRun] using h4
    | clone =>
      obtain ⟨fin, h1, h2, h3, h4, h5⟩ := ih hrest st hbase hcap hghost hcoder
      refine ⟨fin, ?_, h2, h3, ?_, h5⟩
      · simp only [run, step]; exact h1
      · simpa [specRun] using h4


/-! ## Batch / reverse / fallible-iterator forms

`Model/Ans.lean` transcribes the default trait methods (`encode_symbols`, `try_encode_symbols`,
`encode_iid_symbols` and the `_reverse` helpers) as the loop they are, over items that may be `Err`
(`none`); the driver answers every `encs` line with these functions.  On the model side "the
batch form equals the per-symbol loop" is the recursion equations below; that the *real* batch
methods equal them is what the correspondence and the twin-coder oracle check. -/

/-- the caller's per-symbol loop: call `encode_symbol` for each pair, stop at the first error -/
def perSymbolLoop (c : Cfg) : Coder → List (Sym × Model Sym) → Coder × Except EncErr Unit
  | x, [] => (x, .ok ())
  | x, (s, m) :: rest =>
    match encodeSymbolM c m s x with
    | (y, .ok ()) => perSymbolLoop c y rest
    | (y, .error e) => (y, .error e)

/-- **batch form = per-symbol loop** (same coder, same result), for every coder and every list of
    pairs, including lists on which some symbol is impossible or the backend fills up -/
theorem encodeSymbols_eq_perSymbolLoop (c : Cfg) (items : List (Sym × Model Sym)) (x : Coder) :
    encodeSymbols c x (items.map some) =
      ((perSymbolLoop c x items).1,
        match (perSymbolLoop c x items).2 with
        | .ok () => .ok ()
        | .error e => .error (.coding e)) := by
  induction items generalizing x with
  | nil => rfl
  | cons a rest ih =>
    obtain ⟨s, m⟩ := a
    simp only [List.map_cons, encodeSymbols, perSymbolLoop]
    cases h : encodeSymbolM c m s x with
    | mk y r =>
      cases r with
      | ok u => cases u; simp only; exact ih y
      | error e => rfl

/-- all calls succeed ⇒ the batch form leaves exactly the coder of the successive `encode`s -/
theorem encodeSymbols_step_ok (c : Cfg) (x y : Coder) (s : Sym) (m : Model Sym)
    (rest : List (Option (Sym × Model Sym))) (h : encode c m s x = .ok y) :
    encodeSymbols c x (some (s, m) :: rest) = encodeSymbols c y rest :=
  encodeSymbols_cons_ok c x y s m rest h

/-- the reverse forms are the forward form on the reversed items -/
theorem encodeSymbolsReverse_def {c : Cfg} (x : Coder) (items : List (Option (Sym × Model Sym))) :
    encodeSymbolsReverse c x items = encodeSymbols c x items.reverse := rfl

/-- an `Err` item (fallible forms) stops the loop and leaves the coder as the successful prefix left it -/
theorem tryEncode_stops_at_err {c : Cfg} (x : Coder) (rest : List (Option (Sym × Model Sym))) :
    encodeSymbols c x (none :: rest) = (x, .error .model) := rfl

/-! ## Non-vacuity: the hypotheses are satisfiable by non-trivial instances -/

/-- `AnsCoder<u8,u16>` at `P = 8` with a non-empty bulk and the state exactly on the
    normalisation threshold satisfies the invariant. -/
example : Inv { W := 8, S := 16, P := 8, B := 8 } { bulk := [0x3f, 0], state := 256 } := by
  refine ⟨by decide, ?_, fun _ => by decide⟩
  intro w hw; simp at hw; rcases hw with h | h <;> subst h <;> decide

example : ({ W := 8, S := 16, P := 8, B := 8 } : Cfg).Valid := by decide
/-- `P = W = B` with a 128-bit state is admitted -/
example : ({ W := 32, S := 128, P := 32, B := 32 } : Cfg).Valid := by decide


/-- a well-formed model at `P = W = B = 8` with a symbol of one quantum and one of `2^P - 1` quanta
    (the harness's table model `[0, 255, 256]`) -/
example : (tableModel [0, 255, 256]).WellFormed 8 :=
  CV.tableModel_wf (CV.strictCdf_of_check (by decide))

/-- the hypotheses of `run_refines_stack` hold for a concrete non-trivial history on
    `AnsCoder<u8,u16>`: push the 1-quantum symbol, push the 255-quanta symbol, reload, pop, pop -/
example : ∀ op ∈ ([.push ⟨8, 8, tableModel [0, 255, 256], 1⟩, .push ⟨8, 8, tableModel [0, 255, 256], 0⟩,
      .reload, .pop, .pop] : List (Op Nat)), op.OK 8 16 := by
  have hwf : (tableModel [0, 255, 256]).WellFormed 8 :=
    CV.tableModel_wf (CV.strictCdf_of_check (by decide))
  intro op hop
  simp only [List.mem_cons, List.mem_nil_iff, or_false] at hop
  rcases hop with h | h | h | h | h <;> subst h
  · exact ⟨by decide, hwf, (255, 1), by decide⟩
  · exact ⟨by decide, hwf, (0, 255), by decide⟩
  · trivial
  · trivial
  · trivial

end CV.Ans.C01

#print axioms CV.Ans.C01.decode_encode
#print axioms CV.Ans.C01.import_export
#print axioms CV.Ans.C01.no_trailing_zero
#print axioms CV.Ans.C01.run_refines_stack
#print axioms CV.Ans.C01.encArith_cap
#print axioms CV.Ans.C01.decArith_cap
#print axioms CV.Ans.C01.replay_inv
#print axioms CV.Ans.C01.inv_congr
#print axioms CV.Ans.C01.encodeSymbols_eq_perSymbolLoop
#print axioms CV.Ans.C01.encodeSymbols_step_ok
#print axioms CV.Ans.C01.encodeSymbolsReverse_def
#print axioms CV.Ans.C01.tryEncode_stops_at_err
