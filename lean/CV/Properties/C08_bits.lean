import CV.Proofs.BitsInspect
/-!
# C08 (bit-level coders) — inspecting a coder never changes what it will output

The inspections of the bit coders are `get_compressed()` (`StackCoderGuard` /
`QueueEncoderGuard`: seal temporarily, show the words, restore on drop), `iter()` /
`as_decoder()`, `len()`, `is_empty()`.  (`StackCoder` / `QueueEncoder` are not `Clone`: the
derive needs `Stack: Clone`; `QueueDecoder::clone` is the identity on the model value.)

Dropping a `StackCoderGuard` may change the *representation* (a full current word moves to the
backend), so the theorems are stated on the abstraction `bits`: `bits` is unchanged and every
observer factors through `bits`.  All `W ≥ 2`, all states satisfying `Inv`, all histories.
-/
set_option linter.unusedSimpArgs false
set_option linter.unusedVariables false
set_option linter.unnecessarySimpa false
namespace CV.Bits.C08
open CV CV.Bits

theorem validW_one {W : Nat} (h : ValidW W) : 1 ≤ W := by unfold ValidW at h; omega

/-- `StackCoderGuard`: the view is exactly what `into_compressed()` would return at that moment,
    the drop cannot panic, and afterwards the coder holds the same bits (also on an empty coder
    and with a full current word: no side condition). -/
theorem stack_guard_noop {W : Nat} (hW : ValidW W) {c : Coder} (hI : Inv W c) :
    ∃ c', Stack.getCompressed W c = .ok (Stack.intoCompressed W c, c') ∧ Inv W c' ∧
      bits W c' = bits W c :=
  CV.Bits.stack_guard_noop (validW_one hW) hI

/-- `QueueEncoderGuard`: the view is what `into_compressed()` would return and the drop restores
    the coder *identically* — for every coder value, no invariant needed. -/
theorem queue_guard_noop (c : Coder) : Queue.getCompressed c = (Queue.intoCompressed c, c) :=
  CV.Bits.queue_guard_noop c

/-- `iter()` / `as_decoder()`: yields the bits in pop order and (being a function of the coder
    value that returns no new coder) leaves the coder untouched; never runs out of fuel. -/
theorem iter_pure {W : Nat} (hW : ValidW W) {c : Coder} (hI : Inv W c) :
    Stack.iter W c = .ok (bits W c).reverse :=
  iter_spec (validW_one hW) hI

/-- every observer factors through `bits`: two coders holding the same bits (whatever their
    representation) are indistinguishable by `len`, `is_empty`, `read_bit`, `write_bit`,
    `into_compressed`, `get_compressed`, `iter` -/
theorem observers_factor_through_bits {W : Nat} (hW : ValidW W) {c₁ c₂ : Coder}
    (h₁ : Inv W c₁) (h₂ : Inv W c₂) (h : bits W c₁ = bits W c₂) :
    ((bits W c₁).length < 2^64 → len W c₁ = len W c₂) ∧
    isEmpty c₁ = isEmpty c₂ ∧
    (readBit W c₁).1 = (readBit W c₂).1 ∧ bits W (readBit W c₁).2 = bits W (readBit W c₂).2 ∧
    (∀ b, bits W (writeBit W c₁ b) = bits W (writeBit W c₂ b)) ∧
    Stack.intoCompressed W c₁ = Stack.intoCompressed W c₂ ∧
    Queue.intoCompressed c₁ = Queue.intoCompressed c₂ ∧
    Stack.iter W c₁ = Stack.iter W c₂ := by
  have h1 := validW_one hW
  refine ⟨?_, ?_, ?_, ?_, ?_, ?_, ?_, ?_⟩
  · intro hl
    rw [len_spec c₁ hl, len_spec c₂ (by rw [← h]; exact hl), h]
  · have e₁ := isEmpty_iff h1 h₁
    have e₂ := isEmpty_iff h1 h₂
    rw [h] at e₁
    cases ha : isEmpty c₁ <;> cases hb : isEmpty c₂ <;> simp_all
  · rw [readBit_fst h1 h₁, readBit_fst h1 h₂, h]
  · rw [readBit_bits h1 h₁, readBit_bits h1 h₂, h]
  · intro b
    rw [writeBit_bits h1 h₁, writeBit_bits h1 h₂, h]
  · exact stack_export_factors h1 h₁ h₂ h
  · exact queue_export_factors h1 h₁ h₂ h
  · rw [iter_spec h1 h₁, iter_spec h1 h₂, h]

/-- the same for whole operations, including symbol encode / decode with any lawful codebook -/
theorem step_factors_through_bits {W : Nat} (hW : ValidW W) (op : SOp) (hop : op.Lawful)
    {c₁ c₂ : Coder} (h₁ : Inv W c₁) (h₂ : Inv W c₂) (h : bits W c₁ = bits W c₂) :
    (Stack.step W op c₁).1 = (Stack.step W op c₂).1 ∧
      bits W (Stack.step W op c₁).2 = bits W (Stack.step W op c₂).2 :=
  Stack.step_congr (validW_one hW) op hop h₁ h₂ h

/-- `inspect_erasure`: take any history (writes, reads, symbol encodes / decodes, export +
    re-import) with inspections (`len`, `is_empty`, `get_compressed`, `iter`) inserted at
    arbitrary points, any number of times.  Deleting all inspections leaves the outputs of the
    remaining operations and the bits the coder ends up with — hence, by
    `observers_factor_through_bits`, its final export — unchanged.  (`noFault`: a `len` on more
    than `2^64` bits panics and would end the history.) -/
theorem inspect_erasure {W : Nat} (hW : ValidW W) (ops : List SOp) (hops : ∀ op ∈ ops, op.Lawful)
    {c : Coder} (hI : Inv W c) (hnf : noFault (run (Stack.step W) ops c).1) :
    (run (Stack.step W) (ops.filter (fun o => !o.isInspection)) c).1 = (runObs W ops c).1 ∧
      bits W (run (Stack.step W) (ops.filter (fun o => !o.isInspection)) c).2 =
        bits W (run (Stack.step W) ops c).2 ∧
      Stack.intoCompressed W (run (Stack.step W) (ops.filter (fun o => !o.isInspection)) c).2 =
        Stack.intoCompressed W (run (Stack.step W) ops c).2 := by
  have h1 := validW_one hW
  have h := inspect_erasure_aux h1 ops hops c c hI hI rfl hnf
  have hb : bits W (run (Stack.step W) (ops.filter (fun o => !o.isInspection)) c).2 =
      bits W (run (Stack.step W) ops c).2 := by rw [h.2.1, h.2.2]
  have hops' : ∀ op ∈ ops.filter (fun o => !o.isInspection), op.Lawful :=
    fun op hop => hops op (List.mem_filter.mp hop).1
  exact ⟨h.1, hb, stack_export_factors h1 (stack_run_refines h1 _ hops' hI).2.1
    (stack_run_refines h1 ops hops hI).2.1 hb⟩

/-- the queue encoder's inspections: the guard restores the coder identically and `len`,
    `is_empty` return no new coder, so any number of inspections is literally the identity -/
def inspectQ : Nat → Coder → Coder
  | 0, c => c
  | n + 1, c => inspectQ n (Queue.getCompressed c).2

theorem queue_inspect_erasure (n : Nat) (c : Coder) : inspectQ n c = c := by
  induction n with
  | zero => rfl
  | succ n ih => simp only [inspectQ, CV.Bits.queue_guard_noop]; exact ih

/-! ## non-vacuity -/

/-- a coder with a *full* current word: the guard changes the representation, not the bits -/
example : Stack.getCompressed 8 (writeBits 8 empty (List.replicate 8 true)) =
    .ok ([1, 255], { backend := [255], cw := 0, mask := 0 }) := by decide

example : writeBits 8 empty (List.replicate 8 true) = { backend := [], cw := 255, mask := 128 } := by
  decide

example : Inv 8 (writeBits 8 empty (List.replicate 8 true)) :=
  (writeBits_spec (by decide) _ (inv_empty 8)).1

/-- a history with inspections directly after a word boundary and on the empty coder -/
example :
    noFault (run (Stack.step 8) [SOp.len, .getCompressed, .encode (.ok (List.replicate 8 true)),
      .getCompressed, .iter, .write false, .isEmpty, .read, .read] empty).1 := by
  unfold noFault
  decide

end CV.Bits.C08

#print axioms CV.Bits.C08.stack_guard_noop
#print axioms CV.Bits.C08.queue_guard_noop
#print axioms CV.Bits.C08.iter_pure
#print axioms CV.Bits.C08.observers_factor_through_bits
#print axioms CV.Bits.C08.step_factors_through_bits
#print axioms CV.Bits.C08.inspect_erasure
#print axioms CV.Bits.C08.queue_inspect_erasure
