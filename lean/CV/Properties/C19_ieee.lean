import CV.Properties.C03_ieee
/-!
# C19 (component `quant`): `…_fast` float constructors, accepted ⇒ valid, with no float hypothesis

`C19_fast_accepted_valid` needs TB-F1 as a hypothesis.  On the software IEEE model
(`CV.Model.SoftFloat`) TB-F1 is `soft_tbf1`, so for **every** input table (NaN, negative,
infinite, subnormal entries and every caller-supplied normalisation included) the constructor
either rejects (`fastSetup = none`; which inputs: `C19_fast_rejects`) or returns, without a
`Fault`, a cdf that satisfies `ValidCdf` — never a model with a zero or wrapped probability.
-/
namespace CV.Quant
open CV

/-- **C19, `…_fast` on IEEE floats: reject, or a valid model — nothing else** -/
theorem C19_ieee_fast_reject_or_valid (f : Fmt) (hp : 1 ≤ f.p) {B P : Nat} (hP1 : 1 ≤ P)
    (hPB : P ≤ B) (hB : B ≤ 64) (probs : List SF) (norm : Option SF) :
    fastSetup f.ops B P probs norm = none ∨
    ∃ ctx cdf, fastSetup f.ops B P probs norm = some ctx ∧
      fastCdf B P ctx.n ctx.free (ctx.hE f.ops B) = .ok cdf ∧ Cat.ValidCdf B P cdf := by
  cases h : fastSetup f.ops B P probs norm with
  | none => exact Or.inl rfl
  | some ctx =>
    obtain ⟨cdf, h1, h2, _⟩ := C03_ieee_fast_cdf_valid f hp hP1 hPB hB h
    exact Or.inr ⟨ctx, cdf, rfl, h1, h2⟩

/-- entries the `>= 0` test lets through are exactly: `+x`, `+0`, `-0`, `+inf` — never NaN, never
    a negative number -/
theorem C19_ieee_admissible (f : Fmt) {p : SF} (h : f.le (.fin false 0) p = true) :
    p = .inf false ∨ (∃ k, p = .fin false k) ∨ p = .fin true 0 :=
  admissible_cases f h

end CV.Quant

#print axioms CV.Quant.C19_ieee_fast_reject_or_valid
#print axioms CV.Quant.C19_ieee_admissible
