import CV.Proofs.BitsInspect
/-!
# C18 (bit-level coders) — size, emptiness and exhaustion queries report exactly what is there

`len` is the exact number of bits; the number of exported words is determined by it
(`⌈len / W⌉` for the queue, `⌊len / W⌋ + 1` for the stack, whose export carries the terminator
bit); `is_empty` ⇔ no bits ⇔ the export carries no payload.  For the **queue** "no payload"
is the empty word list; for the **stack** it is the single word `1` (the terminator alone) —
`StackCoder::new().into_compressed()` is `[1]`, never `[]`, by design of the sealed format.
`QueueDecoder::maybe_exhausted` is `true` once only zero padding of the current word is left and
`false` while whole words remain.  All `W ≥ 2`, all states satisfying `Inv` — hence at every
step of every history (`sizes_after_history`).
-/
set_option linter.unusedSimpArgs false
set_option linter.unusedVariables false
set_option linter.unnecessarySimpa false
namespace CV.Bits.C18
open CV CV.Bits

theorem validW_one {W : Nat} (h : ValidW W) : 1 ≤ W := by unfold ValidW at h; omega

/-- `len` is exact (the only failure is `usize` overflow of the bit count) -/
theorem len_eq_bits_length {W : Nat} (c : Coder) (h : (bits W c).length < 2^64) :
    len W c = .ok (bits W c).length :=
  len_spec c h

/-- `len` agrees with what the stack export returns: `len / W + 1` words (never none), which
    hold exactly `len` payload bits below the terminator -/
theorem stack_len_vs_export {W : Nat} (hW : ValidW W) {c : Coder} (hI : Inv W c) {n : Nat}
    (hn : len W c = .ok n) :
    (Stack.intoCompressed W c).length = n / W + 1 ∧
    ∃ p, p < W ∧ wordBits W (Stack.intoCompressed W c) = bits W c ++ [true] ++ List.replicate p false ∧
      (bits W c).length = n := by
  have hlen : (bits W c).length = n := by
    by_cases h : (bits W c).length < 2^64
    · rw [len_spec c h] at hn
      exact Except.ok.inj hn
    · obtain ⟨f, hf⟩ := len_overflow c h
      rw [hf] at hn; cases hn
  obtain ⟨p, hp, hf, _, _, _, hl⟩ := stack_export_format (validW_one hW) hI
  exact ⟨by rw [hl, hlen], p, hp, hf, hlen⟩

/-- `len` agrees with what the queue export returns: `⌈len / W⌉` words -/
theorem queue_len_vs_export {W : Nat} (hW : ValidW W) {c : Coder} (hI : Inv W c) {n : Nat}
    (hn : len W c = .ok n) :
    (Queue.intoCompressed c).length = (n + W - 1) / W ∧
      wordBits W (Queue.intoCompressed c) = padTo W (bits W c) ∧ (bits W c).length = n := by
  have hlen : (bits W c).length = n := by
    by_cases h : (bits W c).length < 2^64
    · rw [len_spec c h] at hn
      exact Except.ok.inj hn
    · obtain ⟨f, hf⟩ := len_overflow c h
      rw [hf] at hn; cases hn
  obtain ⟨_, _, _, _, hl⟩ := queue_export_format (validW_one hW) hI
  exact ⟨by rw [hl, hlen], queue_export_padTo (validW_one hW) hI, hlen⟩

/-- `is_empty` ⇔ there are no bits ⇔ `len = 0` -/
theorem isEmpty_iff_no_bits {W : Nat} (hW : ValidW W) {c : Coder} (hI : Inv W c) :
    (isEmpty c = true ↔ bits W c = []) ∧ (isEmpty c = true ↔ len W c = .ok 0) := by
  have h1 := isEmpty_iff (validW_one hW) hI
  refine ⟨h1, ?_⟩
  rw [h1]
  constructor
  · intro h
    have := len_spec (W := W) c (by rw [h]; simp)
    rw [this, h]; rfl
  · intro h
    by_cases hl : (bits W c).length < 2^64
    · rw [len_spec c hl] at h
      have := Except.ok.inj h
      exact List.length_eq_zero_iff.mp this
    · obtain ⟨f, hf⟩ := len_overflow c hl
      rw [hf] at h; cases h

/-- queue: a coder reports empty exactly when exporting it returns nothing -/
theorem queue_isEmpty_iff_export_nil {W : Nat} (hW : ValidW W) {c : Coder} (hI : Inv W c) :
    isEmpty c = true ↔ Queue.intoCompressed c = [] := by
  obtain ⟨p, _, hf, _, hl⟩ := queue_export_format (validW_one hW) hI
  rw [isEmpty_iff (validW_one hW) hI]
  constructor
  · intro h
    rw [h] at hl
    have h0 : (0 + W - 1) / W = 0 := by
      rw [Nat.zero_add]
      exact Nat.div_eq_of_lt (by have := validW_one hW; omega)
    simp only [List.length_nil] at hl
    rw [h0] at hl
    exact List.length_eq_zero_iff.mp hl
  · intro h
    rw [h] at hf
    have := congrArg List.length hf
    simp only [wordBits_nil, List.length_nil, List.length_append, List.length_replicate] at this
    exact List.length_eq_zero_iff.mp (by omega)

theorem stack_export_empty {W : Nat} (hW : ValidW W) : Stack.intoCompressed W empty = [1] := by
  have h1 : (0 <<< 1) % 2^W = 0 := by simp
  simp [Stack.intoCompressed, writeBit, empty, h1]

/-- stack: a coder reports empty exactly when its export carries no payload, i.e. is the single
    terminator word `[1]` (the sealed format never exports `[]`) -/
theorem stack_isEmpty_iff_export_terminator {W : Nat} (hW : ValidW W) {c : Coder} (hI : Inv W c) :
    isEmpty c = true ↔ Stack.intoCompressed W c = [1] := by
  have h1 := validW_one hW
  rw [isEmpty_iff h1 hI, ← stack_export_empty hW]
  constructor
  · intro h
    exact stack_export_factors h1 hI (inv_empty W) (by rw [h, bits_empty])
  · intro h
    obtain ⟨c', hc', _, hb'⟩ := stack_export_import_bits h1 hI
    obtain ⟨e', he', _, hbe'⟩ := stack_export_import_bits h1 (inv_empty W)
    rw [h, he'] at hc'
    have : e' = c' := Except.ok.inj hc'
    rw [← hb', ← this, hbe', bits_empty]

/-- at every step of every history: the state after any operation sequence satisfies the
    invariant, so all of the above applies to it; in particular `len` is then the length of
    the Spec list -/
theorem sizes_after_history {W : Nat} (hW : ValidW W) (ops : List SOp)
    (hops : ∀ op ∈ ops, op.Lawful) {c : Coder} (hI : Inv W c) :
    Inv W (run (Stack.step W) ops c).2 ∧
    (((run (Stack.spec W) ops (bits W c)).2).length < 2^64 →
      len W (run (Stack.step W) ops c).2 = .ok ((run (Stack.spec W) ops (bits W c)).2).length) := by
  have h := stack_run_refines (validW_one hW) ops hops hI
  refine ⟨h.2.1, ?_⟩
  intro hl
  rw [← h.2.2] at hl ⊢
  exact len_spec _ hl

/-- a queue decoder that has consumed exactly the payload — only zero padding of the current
    word is left — reports that it may be exhausted … -/
theorem maybe_exhausted_after_payload {W : Nat} (hW : ValidW W) {d : QDecoder}
    (hI : QDecoder.Inv W d) {p : Nat} (hp : p < W)
    (hb : QDecoder.bits W d = List.replicate p false) :
    QDecoder.maybeExhausted W d = true := by
  have h1 := validW_one hW
  apply maybeExhausted_of_zero_tail h1 hI
  · -- fewer than `W` bits are left, so no whole word is
    cases hr : d.rest with
    | nil => rfl
    | cons w r =>
      have := congrArg List.length hb
      simp [QDecoder.bits, hr] at this
      omega
  · intro b hbm
    rw [hb] at hbm
    exact (List.mem_replicate.mp hbm).2

/-- … in particular directly after `into_decoder()` of an encoder followed by reading exactly the
    written bits; and one with whole words left reports that it is not exhausted -/
theorem maybe_exhausted_false_with_words {W : Nat} {d : QDecoder} (h : d.rest ≠ []) :
    QDecoder.maybeExhausted W d = false :=
  maybeExhausted_false_of_rest h

/-! ## non-vacuity -/

example : len 8 (writeBits 8 empty [true, false, true, true, false, false, true, true, true, false, true])
    = .ok 11 := by decide

example : Stack.intoCompressed 8 (writeBits 8 empty (List.replicate 16 false)) = [1, 0, 0] := by
  decide

example : Queue.intoCompressed (writeBits 8 empty (List.replicate 16 false)) = [0, 0] := by decide

example : isEmpty (writeBits 8 empty [false]) = false ∧ isEmpty (empty) = true := by decide

/-- a decoder that has read the 3 payload bits of a one-word queue: 5 padding zeros are left -/
example :
    let d := (QDecoder.readBit 8 (QDecoder.readBit 8 (QDecoder.readBit 8
      (Queue.intoDecoder (writeBits 8 empty [true, true, false]))).2).2).2
    QDecoder.bits 8 d = List.replicate 5 false ∧ QDecoder.maybeExhausted 8 d = true := by
  decide

end CV.Bits.C18

#print axioms CV.Bits.C18.len_eq_bits_length
#print axioms CV.Bits.C18.stack_len_vs_export
#print axioms CV.Bits.C18.queue_len_vs_export
#print axioms CV.Bits.C18.isEmpty_iff_no_bits
#print axioms CV.Bits.C18.queue_isEmpty_iff_export_nil
#print axioms CV.Bits.C18.stack_export_empty
#print axioms CV.Bits.C18.stack_isEmpty_iff_export_terminator
#print axioms CV.Bits.C18.sizes_after_history
#print axioms CV.Bits.C18.maybe_exhausted_after_payload
#print axioms CV.Bits.C18.maybe_exhausted_false_with_words
