import CV.Proofs.RangeConcat
/-!
# C11 — Range-coded data is unaffected by what follows (component `range`)

Full for `State = 2·Word` (which includes `DefaultRangeEncoder` and `SmallRangeEncoder`).
For `State > 2·Word` the property is **false** of the code and of the documented sealing rule
(defect D3): `C11_range_suffix_counterexample`.  What remains true for every width is
`C11_range_suffix_immune_partial`.  The property's second clause (an encoder started on a sink
that already holds data; sealed messages stored back to back) is
`C11_range_with_backend_words`, `C11_range_back_to_back_2W`, `C11_range_back_to_back_partial`.
`MsgFits c n`: the message is short enough for the 64-bit `usize` counters (see C02_range).
-/
namespace CV.Range

/-- the full statement of the property at one configuration -/
def C11_range_SuffixImmune (c : Cfg) : Prop :=
  ∀ (msg : List (MStep Nat)), MsgFits c msg.length → (∀ x ∈ msg, x.Valid c) →
  ∀ (suffix : List Nat), WordsOK c suffix →
    ∃ e ws d0 d, encodeMsg c (Encoder.empty c) msg = .ok e ∧
      intoCompressed c e = .ok ws ∧
      Decoder.fromCompressed c (ws ++ suffix) = .ok d0 ∧
      decodeMsg c d0 msg = .ok (msg.map (·.sym), d)

/-- **C11 for `State = 2·Word`**: any suffix (any length, any content) leaves decoding
    unchanged — for all symbol types, messages and models. -/
theorem C11_range_suffix_immune_2W {Sym : Type} {c : Cfg} (hc : RValid c) (h2 : c.S = 2 * c.W)
    (msg : List (MStep Sym)) (hn : MsgFits c msg.length) (hv : ∀ x ∈ msg, x.Valid c)
    (suffix : List Nat) (hs : WordsOK c suffix) :
    ∃ e ws d0 d, encodeMsg c (Encoder.empty c) msg = .ok e ∧
      intoCompressed c e = .ok ws ∧
      Decoder.fromCompressed c (ws ++ suffix) = .ok d0 ∧
      decodeMsg c d0 msg = .ok (msg.map (·.sym), d) :=
  suffix_immune_2W hc h2 msg hn hv suffix hs

theorem C11_range_SuffixImmune_2W {c : Cfg} (hc : RValid c) (h2 : c.S = 2 * c.W) :
    C11_range_SuffixImmune c :=
  fun msg hn hv suffix hs => suffix_immune_2W hc h2 msg hn hv suffix hs

/-- **partial, every width**: if sealing emits one word, or emits two and the interval's upper
    end is at least `2^(S-2W)` above the point (`D3Safe`), any suffix leaves decoding
    unchanged.  Missing for the full statement at `S > 2W`: the case of two seal words with
    `upper − point_word·2^(S-W) < 2^(S-2W)`, where the statement is false (below). -/
theorem C11_range_suffix_immune_partial {Sym : Type} {c : Cfg} (hc : RValid c)
    (msg : List (MStep Sym)) (hn : MsgFits c msg.length) (hv : ∀ x ∈ msg, x.Valid c)
    (hsafe : D3Safe c (RangeSpec.run c.W c.S (RangeSpec.init c.S) (msg.map MStep.spec)))
    (suffix : List Nat) (hs : WordsOK c suffix) :
    ∃ e ws d0 d, encodeMsg c (Encoder.empty c) msg = .ok e ∧
      intoCompressed c e = .ok ws ∧
      Decoder.fromCompressed c (ws ++ suffix) = .ok d0 ∧
      decodeMsg c d0 msg = .ok (msg.map (·.sym), d) :=
  suffix_immune_of_safe hc msg hn hv hsafe suffix hs

/-- **the failed obligation, kept visible**: at `Word` = 2 bits, `State` = 6 bits the message
    `d3Msg` seals to `[2, 0]`; followed by all-ones words its last symbol decodes as 2, not 1. -/
theorem C11_range_suffix_counterexample : ¬ C11_range_SuffixImmune d3Cfg := by
  intro h
  obtain ⟨e, ws, d0, d, he, hws, hd0, hd⟩ := h d3Msg (by decide) d3Msg_valid [3, 3, 3] (wordsOK_of_all (by decide))
  have h1 := d3_sealed
  unfold sealedWords at h1
  rw [he] at h1
  simp only [hws] at h1
  have hw : ws = [2, 0] := by injection h1
  have h2 := d3_suffix
  unfold decodedSyms at h2
  rw [← hw, hd0] at h2
  simp only [hd] at h2
  revert h2
  decide

/-- **second clause, part 1**: an encoder started with `with_backend` on a sink that already
    holds the words `pre` seals to `pre` followed by exactly the words the message has on its
    own (`RangeSpec.words`); nothing already on the sink is touched. -/
theorem C11_range_with_backend_words {Sym : Type} {c : Cfg} (hc : RValid c) {pre : List Nat}
    (hpre : WordsOK c pre) (msg : List (MStep Sym)) (hn : MsgFits c (pre.length + msg.length))
    (hv : ∀ x ∈ msg, x.Valid c) :
    ∃ e, encodeMsg c (Encoder.withBackend c pre) msg = .ok e ∧
      intoCompressed c e = .ok (pre ++ RangeSpec.words c.W c.S (msg.map MStep.spec)) := by
  obtain ⟨e, he, _, hw⟩ := with_backend_words hc hpre msg hn hv
  exact ⟨e, he, hw⟩

/-- **second clause, part 2, `State = 2·Word`**: two sealed messages stored back to back: the
    first decodes from the concatenation, and any decoder over the concatenation that seeks to
    the end of the first message's words (with the initial coder state) decodes the second. -/
theorem C11_range_back_to_back_2W {Sym : Type} {c : Cfg} (hc : RValid c) (h2 : c.S = 2 * c.W)
    (msg1 msg2 : List (MStep Sym)) (hn1 : MsgFits c msg1.length) (hn2 : MsgFits c msg2.length)
    (hv1 : ∀ x ∈ msg1, x.Valid c) (hv2 : ∀ x ∈ msg2, x.Valid c) :
    ∃ ws1 ws2, ws1 = RangeSpec.words c.W c.S (msg1.map MStep.spec) ∧
      ws2 = RangeSpec.words c.W c.S (msg2.map MStep.spec) ∧
      (∃ d0 d, Decoder.fromCompressed c (ws1 ++ ws2) = .ok d0 ∧
        decodeMsg c d0 msg1 = .ok (msg1.map (·.sym), d)) ∧
      (∀ dd : Decoder, dd.data = ws1 ++ ws2 →
        ∃ d' d'', dd.seek c ws1.length 0 (maxState c) = .ok d' ∧
          decodeMsg c d' msg2 = .ok (msg2.map (·.sym), d'')) :=
  back_to_back_2W hc h2 msg1 msg2 hn1 hn2 hv1 hv2

/-- the same for every width under `D3Safe` of the first message's final state (partial: the
    unsafe case is the open defect D3) -/
theorem C11_range_back_to_back_partial {Sym : Type} {c : Cfg} (hc : RValid c)
    (msg1 msg2 : List (MStep Sym)) (hn1 : MsgFits c msg1.length) (hn2 : MsgFits c msg2.length)
    (hv1 : ∀ x ∈ msg1, x.Valid c) (hv2 : ∀ x ∈ msg2, x.Valid c)
    (hsafe : D3Safe c (RangeSpec.run c.W c.S (RangeSpec.init c.S) (msg1.map MStep.spec))) :
    ∃ ws1 ws2, ws1 = RangeSpec.words c.W c.S (msg1.map MStep.spec) ∧
      ws2 = RangeSpec.words c.W c.S (msg2.map MStep.spec) ∧
      (∃ d0 d, Decoder.fromCompressed c (ws1 ++ ws2) = .ok d0 ∧
        decodeMsg c d0 msg1 = .ok (msg1.map (·.sym), d)) ∧
      (∀ dd : Decoder, dd.data = ws1 ++ ws2 →
        ∃ d' d'', dd.seek c ws1.length 0 (maxState c) = .ok d' ∧
          decodeMsg c d' msg2 = .ok (msg2.map (·.sym), d'')) :=
  back_to_back_of_safe hc msg1 msg2 hn1 hn2 hv1 hv2 hsafe

example : WordsOK exCfg [1, 2, 3] ∧ MsgFits exCfg ([1, 2, 3].length + exMsg.length) :=
  ⟨wordsOK_of_all (by decide), by decide⟩
example : RValid exCfg ∧ exCfg.S = 2 * exCfg.W := ⟨exCfg_valid, rfl⟩
example : ∀ x ∈ exMsg, x.Valid exCfg := exMsg_valid
example : decodedSyms exCfg ([127, 29, 86] ++ [255, 255, 255]) exMsg = some [1, 1, 2, 0, 1] := by
  decide
example : RValid d3Cfg := d3Cfg_valid

end CV.Range

#print axioms CV.Range.C11_range_suffix_immune_2W
#print axioms CV.Range.C11_range_SuffixImmune_2W
#print axioms CV.Range.C11_range_suffix_immune_partial
#print axioms CV.Range.C11_range_suffix_counterexample
#print axioms CV.Range.C11_range_with_backend_words
#print axioms CV.Range.C11_range_back_to_back_2W
#print axioms CV.Range.C11_range_back_to_back_partial
