import CV.Proofs.RangeDecTotal
/-!
# C11 — Range-coded data is unaffected by what follows (component `range`)

Full for `State = 2·Word` (which includes `DefaultRangeEncoder` and `SmallRangeEncoder`).
For `State > 2·Word` the property is **false** of the code and of the documented sealing rule
(defect D3): `C11_range_suffix_counterexample`.  What remains true for every width is
`C11_range_suffix_immune_partial`.
-/
namespace CV.Range

/-- the full statement of the property at one configuration -/
def C11_range_SuffixImmune (c : Cfg) : Prop :=
  ∀ (msg : List (MStep Nat)), (∀ x ∈ msg, x.Valid c) →
  ∀ (suffix : List Nat), WordsOK c suffix →
    ∃ e ws d0 d, encodeMsg c (Encoder.empty c) msg = .ok e ∧
      intoCompressed c e = .ok ws ∧
      Decoder.fromCompressed c (ws ++ suffix) = .ok d0 ∧
      decodeMsg c d0 msg = .ok (msg.map (·.sym), d)

/-- **C11 for `State = 2·Word`**: any suffix (any length, any content) leaves decoding
    unchanged — for all symbol types, messages and models. -/
theorem C11_range_suffix_immune_2W {Sym : Type} {c : Cfg} (hc : RValid c) (h2 : c.S = 2 * c.W)
    (msg : List (MStep Sym)) (hv : ∀ x ∈ msg, x.Valid c)
    (suffix : List Nat) (hs : WordsOK c suffix) :
    ∃ e ws d0 d, encodeMsg c (Encoder.empty c) msg = .ok e ∧
      intoCompressed c e = .ok ws ∧
      Decoder.fromCompressed c (ws ++ suffix) = .ok d0 ∧
      decodeMsg c d0 msg = .ok (msg.map (·.sym), d) :=
  suffix_immune_2W hc h2 msg hv suffix hs

theorem C11_range_SuffixImmune_2W {c : Cfg} (hc : RValid c) (h2 : c.S = 2 * c.W) :
    C11_range_SuffixImmune c :=
  fun msg hv suffix hs => suffix_immune_2W hc h2 msg hv suffix hs

/-- **partial, every width**: if sealing emits one word, or emits two and the interval's upper
    end is at least `2^(S-2W)` above the point (`D3Safe`), any suffix leaves decoding
    unchanged.  Missing for the full statement at `S > 2W`: the case of two seal words with
    `upper − point_word·2^(S-W) < 2^(S-2W)`, where the statement is false (below). -/
theorem C11_range_suffix_immune_partial {Sym : Type} {c : Cfg} (hc : RValid c)
    (msg : List (MStep Sym)) (hv : ∀ x ∈ msg, x.Valid c)
    (hsafe : D3Safe c (RangeSpec.run c.W c.S (RangeSpec.init c.S) (msg.map MStep.spec)))
    (suffix : List Nat) (hs : WordsOK c suffix) :
    ∃ e ws d0 d, encodeMsg c (Encoder.empty c) msg = .ok e ∧
      intoCompressed c e = .ok ws ∧
      Decoder.fromCompressed c (ws ++ suffix) = .ok d0 ∧
      decodeMsg c d0 msg = .ok (msg.map (·.sym), d) :=
  suffix_immune_of_safe hc msg hv hsafe suffix hs

/-- **the failed obligation, kept visible**: at `Word` = 2 bits, `State` = 6 bits the message
    `d3Msg` seals to `[2, 0]`; followed by all-ones words its last symbol decodes as 2, not 1. -/
theorem C11_range_suffix_counterexample : ¬ C11_range_SuffixImmune d3Cfg := by
  intro h
  obtain ⟨e, ws, d0, d, he, hws, hd0, hd⟩ := h d3Msg d3Msg_valid [3, 3, 3] (wordsOK_of_all (by decide))
  have h1 := d3_sealed
  unfold sealedWords at h1
  rw [he] at h1
  simp only [hws] at h1
  have hw : ws = [2, 0] := by injection h1
  have h2 := d3_suffix
  unfold decodedSyms at h2
  rw [← hw, hd0] at h2
  simp only [hd] at h2
  revert h2
  decide

example : RValid exCfg ∧ exCfg.S = 2 * exCfg.W := ⟨exCfg_valid, rfl⟩
example : ∀ x ∈ exMsg, x.Valid exCfg := exMsg_valid
example : decodedSyms exCfg ([127, 29, 86] ++ [255, 255, 255]) exMsg = some [1, 1, 2, 0, 1] := by
  decide
example : RValid d3Cfg := d3Cfg_valid

end CV.Range

#print axioms CV.Range.C11_range_suffix_immune_2W
#print axioms CV.Range.C11_range_SuffixImmune_2W
#print axioms CV.Range.C11_range_suffix_immune_partial
#print axioms CV.Range.C11_range_suffix_counterexample
