import CV.Properties.C16_bits
/-!
# C16 over sinks that can refuse a write (`SymbolCoder<Word, S, B>` with a bounded `B`)

`C16_bits` speaks about `Vec`-backed coders, whose writes never fail.  `write_bit` over a bounded
sink (`Cursor`, `Reverse<Cursor>`, callbacks, user sinks) can return `Err(WriteError)`; C16's
"bits written come back in exactly reverse / the same order; the reported bit length is exact"
then has to hold for the bits that were **accepted**:

* `bounded_accepted_is_write`   — an accepted `write_bit` is the unbounded `write_bit`;
* `bounded_refused_untouched`   — a refused `write_bit` leaves the coder exactly as it was
  (the flush of the full word precedes every assignment) — so `len`, every later read and the
  export see precisely the accepted bits;
* `bounded_history`             — after any sequence of attempts the coder is the `Vec`-model coder
  of the accepted bits: `bits = bits₀ ++ accepted`, invariant kept, sink within capacity;
  hence all of `C16_bits` (LIFO/FIFO, exact `len`, export/re-import) applies to the accepted bits;
* `bounded_refusal_only_when_full` — a write is refused only when the word buffer is full *and*
  the sink holds `cap` words; `bounded_lifo` — LIFO read-back after a refusal.
-/
namespace CV.Bits.C16B
open CV CV.Bits CV.Bits.C16

theorem bounded_accepted_is_write (W cap : Nat) (c : Coder) (b : Bool)
    (h : (writeBitB W cap c b).2 = true) : (writeBitB W cap c b).1 = writeBit W c b := by
  unfold writeBitB at *
  simp only at *
  by_cases h1 : (c.mask <<< 1) % 2 ^ W ≠ 0
  · rw [if_pos h1]
  · rw [if_neg h1] at h ⊢
    by_cases h2 : c.mask ≠ 0 ∧ cap ≤ c.backend.length
    · rw [if_pos h2] at h; cases h
    · rw [if_neg h2]

theorem bounded_refused_untouched (W cap : Nat) (c : Coder) (b : Bool)
    (h : (writeBitB W cap c b).2 = false) : (writeBitB W cap c b).1 = c := by
  unfold writeBitB at *
  simp only at *
  by_cases h1 : (c.mask <<< 1) % 2 ^ W ≠ 0
  · rw [if_pos h1] at h; cases h
  · rw [if_neg h1] at h ⊢
    by_cases h2 : c.mask ≠ 0 ∧ cap ≤ c.backend.length
    · rw [if_pos h2]
    · rw [if_neg h2] at h; cases h

theorem bounded_refusal_only_when_full (W cap : Nat) (c : Coder) (b : Bool) :
    (writeBitB W cap c b).2 = false ↔
      ((c.mask <<< 1) % 2 ^ W = 0 ∧ c.mask ≠ 0 ∧ cap ≤ c.backend.length) := by
  unfold writeBitB
  simp only
  by_cases h1 : (c.mask <<< 1) % 2 ^ W ≠ 0
  · simp [h1]
  · have h1' : (c.mask <<< 1) % 2 ^ W = 0 := by simpa using h1
    by_cases h2 : c.mask ≠ 0 ∧ cap ≤ c.backend.length
    · simp [h1', h2]
    · simp only [h1', ne_eq, not_true_eq_false, if_false, if_neg h2, true_and]
      constructor
      · intro h; cases h
      · intro h; exact absurd h h2

/-- the sink never holds more than `cap` words -/
theorem bounded_within_capacity (W cap : Nat) (c : Coder) (b : Bool)
    (h : c.backend.length ≤ cap) : (writeBitB W cap c b).1.backend.length ≤ cap := by
  unfold writeBitB
  simp only
  split
  · rename_i h1; unfold writeBit; simp only; rw [if_pos h1]; exact h
  · split
    · exact h
    · rename_i h1 h2
      unfold writeBit; simp only; rw [if_neg h1]
      by_cases hm : c.mask ≠ 0
      · rw [if_pos hm]
        have : ¬ cap ≤ c.backend.length := fun hc => h2 ⟨hm, hc⟩
        simp only [List.length_cons]; omega
      · rw [if_neg hm]; exact h

/-- **any sequence of attempts**: the coder afterwards is the `Vec`-model coder of the accepted
    bits, which are a prefix of the attempted ones (all of them iff none was refused) -/
theorem bounded_history (W cap : Nat) (bs : List Bool) (c : Coder) :
    (writeBitsB W cap c bs).1 = writeBits W c (writeBitsB W cap c bs).2.1 ∧
    (writeBitsB W cap c bs).2.1 <+: bs ∧
    ((writeBitsB W cap c bs).2.2 = true → (writeBitsB W cap c bs).2.1 = bs) := by
  induction bs generalizing c with
  | nil => simp [writeBitsB, writeBits]
  | cons b bs ih =>
    unfold writeBitsB
    cases hw : writeBitB W cap c b with
    | mk c' ok =>
      cases ok with
      | false => simp [writeBits]
      | true =>
        have hacc := bounded_accepted_is_write W cap c b (by rw [hw])
        rw [hw] at hacc
        simp only at hacc
        obtain ⟨h1, h2, h3⟩ := ih c'
        simp only
        refine ⟨?_, ?_, ?_⟩
        · simp only [writeBits]; rw [← hacc]; exact h1
        · exact List.prefix_cons_inj b |>.2 h2
        · intro h; rw [h3 h]

/-- the content after a history of attempts: exactly the old content followed by the accepted bits -/
theorem bounded_bits {W : Nat} (hW : ValidW W) (cap : Nat) (bs : List Bool) {c : Coder}
    (hI : Inv W c) :
    Inv W (writeBitsB W cap c bs).1 ∧
    bits W (writeBitsB W cap c bs).1 = bits W c ++ (writeBitsB W cap c bs).2.1 := by
  rw [(bounded_history W cap bs c).1]
  generalize (writeBitsB W cap c bs).2.1 = acc
  induction acc generalizing c with
  | nil => simp [writeBits, hI]
  | cons b acc ih =>
    simp only [writeBits]
    have hw := writeBit_spec (validW_one hW) hI b
    obtain ⟨h1, h2⟩ := ih hw.1
    exact ⟨h1, by rw [h2, hw.2]; simp⟩

/-- **LIFO after a refusal**: the bit read next is the last *accepted* bit (or the old top if
    nothing was accepted), and `len` counts exactly the accepted bits -/
theorem bounded_lifo {W : Nat} (hW : ValidW W) (cap : Nat) (bs : List Bool) {c : Coder}
    (hI : Inv W c) :
    (readBit W (writeBitsB W cap c bs).1).1 = (bits W c ++ (writeBitsB W cap c bs).2.1).getLast? ∧
    ((bits W c ++ (writeBitsB W cap c bs).2.1).length < 2 ^ 64 →
      len W (writeBitsB W cap c bs).1 = .ok ((bits W c).length + (writeBitsB W cap c bs).2.1.length)) := by
  obtain ⟨h1, h2⟩ := bounded_bits hW cap bs hI
  refine ⟨?_, fun hl => ?_⟩
  · rw [(stack_write_read hW h1).2.1, h2]
  · rw [len_exact _ (by rw [h2]; exact hl), h2]; simp

/-- **export over a bounded sink**: `into_compressed` is refused, or returns exactly the words the
    same coder exports into a `Vec` (never a truncated or padded stream) — stack -/
theorem bounded_stack_export (W cap : Nat) (c : Coder) {ws : List Nat}
    (h : Stack.intoCompressedB W cap c = some ws) : ws = Stack.intoCompressed W c := by
  unfold Stack.intoCompressedB at h
  unfold Stack.intoCompressed
  cases hw : writeBitB W cap c true with
  | mk c' ok =>
    rw [hw] at h
    cases ok with
    | false => cases h
    | true =>
      have hacc := bounded_accepted_is_write W cap c true (by rw [hw])
      rw [hw] at hacc
      simp only at hacc h ⊢
      rw [← hacc]
      by_cases hm : c'.mask ≠ 0
      · rw [if_pos hm] at h ⊢
        by_cases hc : cap ≤ c'.backend.length
        · rw [if_pos hc] at h; cases h
        · rw [if_neg hc] at h; injection h with h; exact h.symm
      · rw [if_neg hm] at h ⊢; injection h with h; exact h.symm

/-- the same for the queue encoder (which has no terminator bit to write) -/
theorem bounded_queue_export (cap : Nat) (c : Coder) {ws : List Nat}
    (h : Queue.intoCompressedB cap c = some ws) : ws = Queue.intoCompressed c := by
  unfold Queue.intoCompressedB at h
  unfold Queue.intoCompressed
  by_cases hm : c.mask ≠ 0
  · rw [if_pos hm] at h ⊢
    by_cases hc : cap ≤ c.backend.length
    · rw [if_pos hc] at h; cases h
    · rw [if_neg hc] at h; injection h with h; exact h.symm
  · rw [if_neg hm] at h ⊢; injection h with h; exact h.symm

/-- non-vacuity: `u8` words, a sink of two words, 20 one-bits: exactly 16 + 8 = 24 … no: the
    buffer word holds 8 more, so 24 fit and the rest is refused -/
example : (writeBitsB 8 2 empty (List.replicate 30 true)).2 = (List.replicate 24 true, false) := by
  decide

example : (writeBitsB 8 2 empty (List.replicate 30 true)).1 =
    { backend := [255, 255], cw := 255, mask := 128 } := by decide

end CV.Bits.C16B

#print axioms CV.Bits.C16B.bounded_accepted_is_write
#print axioms CV.Bits.C16B.bounded_refused_untouched
#print axioms CV.Bits.C16B.bounded_refusal_only_when_full
#print axioms CV.Bits.C16B.bounded_within_capacity
#print axioms CV.Bits.C16B.bounded_history
#print axioms CV.Bits.C16B.bounded_bits
#print axioms CV.Bits.C16B.bounded_lifo
#print axioms CV.Bits.C16B.bounded_stack_export
#print axioms CV.Bits.C16B.bounded_queue_export
