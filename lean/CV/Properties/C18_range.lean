import CV.Proofs.RangeDecTotal
/-!
# C18 — Size, emptiness and exhaustion queries of the range coder (component `range`)

`Fits c e 0` / `MsgFits c n`: the 64-bit `usize` results do not overflow (necessary:
`num_words()` panics on `from_raw_parts(.., Inverted(usize::MAX, _))`).
Histories may contain `clear()` at any point: it yields the state of `new()`
(`C02_range_clear_eq_new`), which satisfies `Inv`; right after it `is_empty`, `num_words = 0`.
-/
namespace CV.Range

/-- at every moment (every state satisfying the invariant — any history, also while words are
    held back, also an encoder started `with_backend` on a non-empty sink): `num_words` is the
    length of what `into_compressed` returns now, `num_bits = Word::BITS · num_words`, and
    `is_empty` holds exactly when that export is empty. -/
theorem C18_range_sizes_exact {c : Cfg} (hc : RValid c) {e : Encoder} (hI : Inv c e)
    (hf : Fits c e 0) :
    ∃ ws, intoCompressed c e = .ok ws ∧ numWords c e = .ok ws.length ∧
      numBits c e = .ok (c.W * ws.length) ∧ (isEmpty c e = true ↔ ws = []) :=
  ⟨_, intoCompressed_eq hc hI, numWords_eq hc hI hf, numBits_eq hc hI hf, isEmpty_iff_export_nil⟩

/-- the invariant holds for an encoder started on a sink that already holds words -/
theorem C18_range_with_backend_inv {c : Cfg} (hc : RValid c) {ws : List Nat} (hw : WordsOK c ws) :
    Inv c (Encoder.withBackend c ws) := inv_withBackend hc hw

/-- … and along every history -/
theorem C18_range_history_inv {Sym : Type} {c : Cfg} (msg : List (MStep Sym)) (e : Encoder)
    (hI : Inv c e) (hf : Fits c e msg.length) (hv : ∀ x ∈ msg, x.Valid c) :
    ∃ e', encodeMsg c e msg = .ok e' ∧ Inv c e' ∧ Fits c e' 0 := by
  obtain ⟨e', he, hI', hf', _⟩ := encodeMsg_ok msg e hI hf hv
  exact ⟨e', he, hI', hf'⟩

/-- head-room of an encoder started with `new()` / `with_backend(ws)` -/
theorem C18_range_fits_new {c : Cfg} {n : Nat} (h : MsgFits c n) : Fits c (Encoder.empty c) n :=
  fits_empty h

theorem C18_range_fits_with_backend {c : Cfg} {n : Nat} {ws : List Nat}
    (h : MsgFits c (ws.length + n)) : Fits c (Encoder.withBackend c ws) n :=
  fits_withBackend h

/-- a decoder that has consumed precisely the encoded symbols of an untouched stream reports
    `maybe_exhausted` -/
theorem C18_range_exhausted_after_message {Sym : Type} {c : Cfg} (hc : RValid c)
    (msg : List (MStep Sym)) (hn : MsgFits c msg.length) (hv : ∀ x ∈ msg, x.Valid c) :
    ∃ e ws d0 d, encodeMsg c (Encoder.empty c) msg = .ok e ∧ intoCompressed c e = .ok ws ∧
      Decoder.fromCompressed c ws = .ok d0 ∧
      decodeMsg c d0 msg = .ok (msg.map (·.sym), d) ∧ d.maybeExhausted c = .ok true := by
  obtain ⟨e, ws, d0, d, h1, h2, h3, h4, h5, _⟩ := roundtrip hc msg hn hv
  exact ⟨e, ws, d0, d, h1, h2, h3, h4, h5⟩

/-- a decoder with whole words left reports that it is not exhausted -/
theorem C18_range_not_exhausted_while_words_remain {c : Cfg} (hc : RValid c) {d : Decoder}
    (h : d.pos < d.data.length) : d.maybeExhausted c = .ok false :=
  not_exhausted_of_words_left hc h

example : Inv exCfg exInverted := exInverted_inv
example : Fits exCfg exInverted 0 := by decide
example : numWords exCfg exInverted = .ok 2 ∧ isEmpty exCfg exInverted = false := by decide
example : WordsOK exCfg [1, 2, 3] := wordsOK_of_all (by decide)
example : numWords exCfg (Encoder.withBackend exCfg [1, 2, 3]) = .ok 3 := by decide

end CV.Range

#print axioms CV.Range.C18_range_sizes_exact
#print axioms CV.Range.C18_range_with_backend_inv
#print axioms CV.Range.C18_range_history_inv
#print axioms CV.Range.C18_range_fits_new
#print axioms CV.Range.C18_range_fits_with_backend
#print axioms CV.Range.C18_range_exhausted_after_message
#print axioms CV.Range.C18_range_not_exhausted_while_words_remain
