import CV.Proofs.RangeReject
/-!
# C20 — No safe call sequence on the range coder reaches an unchecked precondition or a panic
(component `range`)

`src/stream/queue.rs` contains two `unsafe` blocks.  Each is a `Fault.ub` branch of the Impl
model; every plain `* + - << >> /`, `expect`, and `debug_assert!` is a checked operation
returning another `Fault`:

| source (queue.rs)                                            | model site (`CV.Range`)                    |
|--------------------------------------------------------------|--------------------------------------------|
| 611–617 `(range << Word::BITS).into_nonzero_unchecked()` in `encode_symbol` | `renorm`: `Fault.ub "range.enc.nonzero"` |
| 950–956 `(range << Word::BITS).into_nonzero_unchecked()` in `decode_symbol` | `decodeStep`: `Fault.ub "range.dec.nonzero"` |
| 569 `range >> PRECISION`, 602/619/620 shifts                 | `shr`/`shl` sites `range.enc.*` (`Fault.shift`) |
| 571, 577 `scale * probability`, `scale * left_cumulative`    | `cmul "range.enc.scale*p"`, `"range.enc.scale*cum"` (`Fault.overflow`) |
| 340, 586 `first_inverted_lower_word + Word::one()`           | `cadd "range.first+1"` (`Fault.overflow`)  |
| 334, 373 `(1 << (S−W)) − 1`                                  | `shl "range.seal.one"`, `csub "range.seal.one-1"` |
| 514–515 `debug_assert!(word.is_some())` in `unseal`          | `Fault.panic "range.unseal.debug_assert"`  |
| 923 `(point − lower) / scale`                                | `cdiv "range.dec.div"` (`Fault.panic`)     |
| 935–938 `scale * cum`, `scale * p`, `.expect("TODO")`        | `cmul "range.dec.scale*cum"`, `"range.dec.scale*p"`, `Fault.panic "range.dec.expect"` |
| 783, 793 shifts in `read_point`                              | `shl "range.readpoint.shl"`, `"range.readpoint.pad"`, `csub "range.readpoint.sub"` |

The theorems below say that none of these is reachable: through the safe API an encoder is
always in a state satisfying `Inv` (`new`, `with_backend`, and `Inv` is preserved), a decoder
over any words satisfies `DReg` (`from_compressed`, preserved by `decode`/`seek`), and on such
states every operation returns a value or one of the documented errors, never a `Fault`.
(`from_raw_parts` can build encoder states outside `Inv`; there the checked build panics with
an arithmetic overflow in some cases — a panic, which C20 permits — and the correspondence
runs and the oracle's malformed campaign cover those under std's UB precondition checks.)

`usize` counters (64 bit, `usizeBits`) are checked operations as well:

| 198 `self.bulk.pos() + num_inverted` (`pos`)                 | `cadd "range.pos.len+n"`                   |
| 381 `count += num_inverted.get()` (`num_seal_words`)         | `cadd "range.nsw.count+n"`                 |
| 406 `remaining() + num_seal_words()` (`num_words`)           | `cadd "range.nw.remaining+seal"`           |
| 421 `Word::BITS * self.num_words()` (`num_bits`)             | `cmul "range.nb.W*nw"`                     |
| 624–625 `NonZeroUsize::new(n.wrapping_add(1)).expect(..)`    | `Fault.panic "range.enc.num_inverted"`     |

They are unreachable under `Fits c e k` (`Word::BITS · (bulk.len() + num_inverted + k + 2) <
2^64`, room for `k` more symbols), which holds along every history from `new()` of fewer than
`2^64 / Word::BITS − 2` symbols (`MsgFits`); the hypothesis is necessary (`from_raw_parts` with
`num_inverted = usize::MAX`: `pos()` and `num_words()` panic with an overflow — a panic, not UB).
-/
namespace CV.Range

/-- the SAFETY argument of the first block (queue.rs 611–617), for *every* register content:
    whenever `lower` fits the state type and `range ≠ 0` — which `State::NonZero` guarantees —
    the renormalisation step returns normally; in particular `Fault.ub "range.enc.nonzero"`
    is unreachable, whatever the situation and the backend contents. -/
theorem C20_range_enc_nonzero_safe {c : Cfg} (hc : RValid c) (bulk : List Nat) (sit : Situation)
    {lower range : Nat} (hl : lower < 2^c.S) (hr : 0 < range)
    (hn : sit.held + 1 < 2^usizeBits) :
    ∃ e', renorm c bulk sit lower range = .ok e' :=
  ⟨_, renorm_eq hc hl hr hn⟩

/-- `encode_symbol` on any state satisfying the invariant, any well-formed model, any symbol
    (in the support or not): a new encoder satisfying the invariant, or `ImpossibleSymbol` —
    never a `Fault` of any kind (no UB site, no overflow, no shift, no panic). -/
theorem C20_range_encode_no_fault {Sym : Type} {c : Cfg} (hc : RValid c) {m : Model Sym}
    (hm : m.WellFormed c.P) {e : Encoder} (hI : Inv c e) (hf : Fits c e 1) (s : Sym) :
    (∃ e', encode c m s e = .ok e' ∧ Inv c e') ∨ encode c m s e = .error .impossible :=
  encode_no_fault hc hm hI hf s

theorem C20_range_encode_ub_unreachable {Sym : Type} {c : Cfg} (hc : RValid c) {m : Model Sym}
    (hm : m.WellFormed c.P) {e : Encoder} (hI : Inv c e) (hf : Fits c e 1) (s : Sym)
    (f : Fault) :
    encode c m s e ≠ .error (.fault f) := by
  intro h
  rcases encode_no_fault hc hm hI hf s with ⟨e', he', _⟩ | he'
  · rw [he'] at h; cases h
  · rw [he'] at h; cases h

/-- `decode_symbol` on a decoder over **arbitrary words** (second block, queue.rs 950–956, and
    every other checked operation of the function): a symbol and a decoder satisfying the
    documented invariant, or `InvalidData` — never a `Fault`. -/
theorem C20_range_decode_no_fault {Sym : Type} {c : Cfg} (hc : RValid c) {m : Model Sym}
    (hm : m.WellFormed c.P) {d : Decoder} (hI : DReg c d) :
    (∃ s d', decode c m d = .ok (s, d') ∧ DInv c d') ∨ decode c m d = .error .invalidData :=
  decode_no_fault hc hm hI

theorem C20_range_decode_ub_unreachable {Sym : Type} {c : Cfg} (hc : RValid c) {m : Model Sym}
    (hm : m.WellFormed c.P) {d : Decoder} (hI : DReg c d) (f : Fault) :
    decode c m d ≠ .error (.fault f) := by
  intro h
  rcases decode_no_fault hc hm hI with ⟨s, d', hd, _⟩ | hd
  · rw [hd] at h; cases h
  · rw [hd] at h; cases h

/-- any number of `decode_symbol` calls with any well-formed models on any words -/
theorem C20_range_decode_many_no_fault {Sym : Type} {c : Cfg} (hc : RValid c) {ws : List Nat}
    (hw : WordsOK c ws) (msg : List (MStep Sym)) (hv : ∀ x ∈ msg, x.DecValid c) :
    ∃ d0, Decoder.fromCompressed c ws = .ok d0 ∧
      ((∃ ss d', decodeMsg c d0 msg = .ok (ss, d') ∧ DReg c d') ∨
       decodeMsg c d0 msg = .error .invalidData) := by
  obtain ⟨d0, hd0, hreg⟩ := fromCompressed_total hc hw
  refine ⟨d0, hd0, ?_⟩
  rcases decodeMsg_total msg d0 hreg hv with ⟨ss, d', h, hr, _⟩ | h
  · left; exact ⟨ss, d', h, hr⟩
  · right; exact h

/-- whole encoder histories with inspections: `encode_symbol`, `get_compressed` (seal, view,
    `unseal` with its `debug_assert!`), `decoder()`, `num_words`, `num_bits`, `is_empty`, `pos`
    in any order never fault; the result is `Ok` (all symbols of the history are valid steps) -/
theorem C20_range_history_no_fault {Sym : Type} {c : Cfg} (hc : RValid c) (ops : List (Op Sym))
    (hn : MsgFits c (encSteps ops).length) (hv : ∀ x ∈ encSteps ops, x.Valid c) :
    ∃ e, runOps c (Encoder.empty c) ops = .ok e ∧ Inv c e := by
  rw [inspect_erasure hc ops _ (inv_empty hc) (fits_empty hn) hv]
  obtain ⟨e, he, hI, _⟩ :=
    encodeMsg_ok (encSteps ops) (Encoder.empty c) (inv_empty hc) (fits_empty hn) hv
  exact ⟨e, he, hI⟩

/-- sealing / exporting and the size queries on any state satisfying the invariant -/
theorem C20_range_seal_no_fault {c : Cfg} (hc : RValid c) {e : Encoder} (hI : Inv c e)
    (hf : Fits c e 0) :
    (∃ ws, intoCompressed c e = .ok ws) ∧ (∃ v, getCompressed c e = .ok v) ∧
    (∃ k, numWords c e = .ok k) ∧ (∃ k, numBits c e = .ok k) ∧ (∃ p, e.pos = .ok p) ∧
    (∃ d, intoDecoder c e = .ok d) := by
  refine ⟨⟨_, intoCompressed_eq hc hI⟩, ⟨_, getCompressed_eq hc hI hf⟩,
    ⟨_, numWords_eq hc hI hf⟩, ⟨_, numBits_eq hc hI hf⟩, ⟨_, pos_eq hc hf⟩, ?_⟩
  obtain ⟨d, _, hfc⟩ := tempDecoder_eq hc hI hf
  exact ⟨d, by unfold intoDecoder; rw [intoCompressed_eq hc hI]; exact hfc⟩

/-- constructing, seeking and querying a decoder over any words -/
theorem C20_range_decoder_glue_no_fault {c : Cfg} (hc : RValid c) {ws : List Nat}
    (hw : WordsOK c ws) :
    (∃ d, Decoder.fromCompressed c ws = .ok d ∧ DReg c d) ∧
    (∀ d : Decoder, d.data = ws → ∀ pos lower range,
      (∃ d', d.seek c pos lower range = .ok d') ∨ d.seek c pos lower range = .error .rejected) ∧
    (∀ d : Decoder, ∃ b, d.maybeExhausted c = .ok b) := by
  refine ⟨fromCompressed_total hc hw, ?_, fun d => ⟨_, maybeExhausted_eq hc d⟩⟩
  intro d hd pos lower range
  exact seek_no_fault hc (by rw [hd]; exact hw) pos lower range

example : Inv exCfg exInverted := exInverted_inv
example : Fits exCfg exInverted 1 := by decide
example : RValid exCfg := exCfg_valid
example : (cutModel 1 255 256).WellFormed 8 :=
  cutModel_wf (P := 8) (by omega) (by omega) (by omega) (by omega) (by omega)
example : WordsOK exCfg [255, 255, 255, 0, 17] := wordsOK_of_all (by decide)

end CV.Range

#print axioms CV.Range.C20_range_enc_nonzero_safe
#print axioms CV.Range.C20_range_encode_no_fault
#print axioms CV.Range.C20_range_encode_ub_unreachable
#print axioms CV.Range.C20_range_decode_no_fault
#print axioms CV.Range.C20_range_decode_ub_unreachable
#print axioms CV.Range.C20_range_decode_many_no_fault
#print axioms CV.Range.C20_range_history_no_fault
#print axioms CV.Range.C20_range_seal_no_fault
#print axioms CV.Range.C20_range_decoder_glue_no_fault
