import CV.Proofs.HuffTies
/-!
# C15 — Huffman codebooks are prefix-free, complete, optimal and mutually consistent

Property theorems only (helper lemmas: `CV/Proofs/Huff*.lean`).  All theorems are about the
Impl model `CV.Huff` (`CV/Model/Huff.lean`): `encTree`/`decTree` are the two constructors
(`EncoderHuffmanTree` / `DecoderHuffmanTree :: try_from_probabilities`), `encodeSuffix`,
`encodePrefix`, `decode` the codebook methods.

**Scope.**  The constructors are generic in the weight type; so is the model (`WeightOps α`:
an order `lt`, an addition `add` that may panic, a predicate for unorderable sums).

* The *structural* theorems (§1: both arrays describe one tree, prefix-freeness, Kraft equality,
  `prefix = reverse suffix`, `decode ∘ prefix`, completeness, truncation, single symbol,
  out-of-alphabet rejection) are proved for **every** `WeightOps` — arbitrary order, arbitrary
  addition — hence for integer weights in checked and in wrapping (release) builds and for
  `f32`/`f64` weights whose sums **round** (`f32Ops`, `f64Ops`: native IEEE arithmetic, the
  instances the correspondence check runs), including zeros, `-0.0`, negative weights,
  infinities, denormals.  Their only hypothesis is that the constructor returned a tree; §2
  says when it does.  None of them depends on the weight values, only on "pop two entries,
  push a combined one".
* *Optimality* (§4) and the tie-breaking consequence "codeword lengths are monotone in
  `(weight, index)`" (§3) are statements about sums and are proved for **exact addition**
  (`exactOps`: naturals) and for checked integer weights whose total fits the type (which
  coincide with `exactOps`, `independent_of_weight_type`).  For float weights whose sums round
  optimality holds only up to rounding and is not claimed (DESIGN §6 C15, §10).
-/
namespace CV.Huff.C15
open CV CV.Huff

variable {α : Type} {ops : WeightOps α} {ws : List α} {en : List Nat} {dn : List (Nat × Nat)}

/-! ## 1. Structure — every weight type -/

/-- the two constructors succeed together and report the right alphabet size -/
theorem constructors_agree (hen : encTree ops ws = .ok en) :
    ∃ dn, decTree ops ws = .ok dn ∧
      encNumSymbols en = ws.length ∧ decNumSymbols dn = ws.length := by
  obtain ⟨dn, T, hd, _, B⟩ := built_of_enc hen
  refine ⟨dn, hd, ?_, ?_⟩
  · have := B.en_len; have := B.n_pos; simp only [encNumSymbols]; omega
  · have := B.dn_len; simp only [decNumSymbols]; omega

/-- … and conversely (`usize::MAX / 4` is the encoder's size guard, the decoder's is laxer) -/
theorem constructors_agree_conv (hdn : decTree ops ws = .ok dn) (hmax : ws.length ≤ usizeMax / 4) :
    ∃ en, encTree ops ws = .ok en := by
  obtain ⟨en, T, he, _, _⟩ := built_of_dec hdn hmax
  exact ⟨en, he⟩

/-- **same tree**: there is one binary tree `T` whose leaves are exactly the symbols
`0 … n-1` such that the encoder's parent array and the decoder's child table both describe `T`
(`EncDesc`: entry of child = `parent << 1 | bit`, root entry `0`; `DecDesc`: entry `i - n` =
the two children of internal node `i`), and every codeword is the root-to-leaf path in `T`. -/
theorem same_tree (hen : encTree ops ws = .ok en) (hdn : decTree ops ws = .ok dn) :
    ∃ T : Tree, T.IsCodeTree ws.length ∧
      EncDesc en T ∧ en[T.rootId]? = some 0 ∧ DecDesc dn ws.length T ∧
      ∀ s, s < ws.length → ∃ p, T.code s = some p ∧ encodePrefix en s = .ok p := by
  obtain ⟨dn', T, hd, _, B⟩ := built_of_enc hen
  rw [hdn] at hd; injection hd with hd; subst hd
  refine ⟨T, B.leaves, B.encDesc, B.root0, B.decDesc, ?_⟩
  intro s hs
  obtain ⟨p, hp⟩ := B.code_of_lt hs
  exact ⟨p, hp, B.prefix hp⟩

/-- `encode_symbol_prefix` emits the reverse of what `encode_symbol_suffix` emits -/
theorem prefix_eq_reverse_suffix (hen : encTree ops ws = .ok en) {s : Nat} (hs : s < ws.length) :
    ∃ w, encodePrefix en s = .ok w ∧ encodeSuffix en s = .ok w.reverse := by
  obtain ⟨dn', T, _, _, B⟩ := built_of_enc hen
  obtain ⟨p, hp⟩ := B.code_of_lt hs
  exact ⟨p, B.prefix hp, B.suffix hp⟩

/-- the decoder tree inverts the encoder tree, whatever follows the codeword:
`decode (prefix s ++ rest) = (s, rest)` -/
theorem decode_prefix (hen : encTree ops ws = .ok en) (hdn : decTree ops ws = .ok dn)
    {s : Nat} (hs : s < ws.length) :
    ∃ w, encodePrefix en s = .ok w ∧
      ∀ rest, decode dn (w.map some ++ rest) = .ok (s, rest) := by
  obtain ⟨dn', T, hd, _, B⟩ := built_of_enc hen
  rw [hdn] at hd; injection hd with hd; subst hd
  obtain ⟨p, hp⟩ := B.code_of_lt hs
  exact ⟨p, B.prefix hp, fun rest => B.dec_word hp rest⟩

/-- conversely, whatever `decode` returns on arbitrary bits is a symbol of the alphabet whose
codeword is exactly what was consumed (the code is complete: arbitrary bits never get stuck
other than by running out) -/
theorem decode_sound (hen : encTree ops ws = .ok en) (hdn : decTree ops ws = .ok dn)
    (src : List (Option Bool)) :
    (∃ s w rest, decode dn src = .ok (s, rest) ∧ s < ws.length ∧ encodePrefix en s = .ok w ∧
        src = w.map some ++ rest) ∨
      decode dn src = .error .outOfData ∨ decode dn src = .error .backend := by
  obtain ⟨dn', T, hd, _, B⟩ := built_of_enc hen
  rw [hdn] at hd; injection hd with hd; subst hd
  exact B.decode_total src

/-- a source that ends strictly inside a codeword gives `OutOfCompressedData` -/
theorem decode_truncated (hen : encTree ops ws = .ok en) (hdn : decTree ops ws = .ok dn)
    {s : Nat} {p q : List Bool} (hw : encodePrefix en s = .ok (p ++ q)) (hq : q ≠ []) :
    decode dn (p.map some) = .error .outOfData := by
  obtain ⟨dn', T, hd, _, B⟩ := built_of_enc hen
  rw [hdn] at hd; injection hd with hd; subst hd
  by_cases hs : s < ws.length
  · obtain ⟨w, hwc⟩ := B.code_of_lt hs
    have := B.prefix hwc
    rw [hw] at this; injection this with this; subst this
    exact B.dec_truncated hwc hq
  · rw [B.prefix_reject (by omega)] at hw; cases hw

/-- the code is prefix-free -/
theorem prefix_free (hen : encTree ops ws = .ok en) {s1 s2 : Nat}
    {w1 w2 : List Bool} (h1 : encodePrefix en s1 = .ok w1) (h2 : encodePrefix en s2 = .ok w2)
    (hp : w1 <+: w2) : s1 = s2 := by
  obtain ⟨dn', T, _, _, B⟩ := built_of_enc hen
  have hs1 : s1 < ws.length := by
    by_cases hs : s1 < ws.length
    · exact hs
    · rw [B.prefix_reject (by omega)] at h1; cases h1
  have hs2 : s2 < ws.length := by
    by_cases hs : s2 < ws.length
    · exact hs
    · rw [B.prefix_reject (by omega)] at h2; cases h2
  obtain ⟨p1, hp1⟩ := B.code_of_lt hs1
  obtain ⟨p2, hp2⟩ := B.code_of_lt hs2
  have e1 := B.prefix hp1; rw [h1] at e1; injection e1 with e1; subst e1
  have e2 := B.prefix hp2; rw [h2] at e2; injection e2 with e2; subst e2
  exact Tree.code_prefix_free T s1 s2 _ _ hp1 hp2 hp

/-- **Kraft equality** `Σ_s 2^(-len s) = 1`, stated on naturals with the common denominator
`2^n` (every codeword is shorter than `n`): the code is complete.  (For `n = 1` the single
codeword is empty and the equality reads `2^1 = 2^1`.) -/
theorem kraft_equality (hen : encTree ops ws = .ok en) :
    (∀ s, s < ws.length → wordLen en s < ws.length) ∧
    ((List.range ws.length).map (fun s => 2^(ws.length - wordLen en s))).sum = 2^ws.length := by
  obtain ⟨dn', T, _, _, B⟩ := built_of_enc hen
  constructor
  · intro s hs
    obtain ⟨p, hp⟩ := B.code_of_lt hs
    have := B.code_len hp
    rw [B.wordLen_eq hs]; simp only [Tree.depth, hp]; omega
  · rw [← B.kraft]
    congr 1
    apply List.map_congr_left
    intro s hs
    rw [B.wordLen_eq (by simpa using hs)]

/-- a single symbol gets the empty codeword (and decoding consumes nothing) -/
theorem single_symbol (w : α) (hen : encTree ops [w] = .ok en) (hdn : decTree ops [w] = .ok dn) :
    encodePrefix en 0 = .ok [] ∧ encodeSuffix en 0 = .ok [] ∧
      ∀ src, decode dn src = .ok (0, src) := by
  obtain ⟨dn', T, hd, _, B⟩ := built_of_enc hen
  rw [hdn] at hd; injection hd with hd; subst hd
  obtain ⟨p, hp⟩ := B.code_of_lt (s := 0) (by simp)
  have hlen := B.code_len hp
  have hp0 : p = [] := List.eq_nil_of_length_eq_zero (by
    have : [w].length = 1 := rfl
    omega)
  subst hp0
  refine ⟨B.prefix hp, by simpa using B.suffix hp, ?_⟩
  intro src
  simpa using B.dec_word hp src

/-- symbols outside the alphabet are rejected (see also `C09_huff`) -/
theorem out_of_alphabet (hen : encTree ops ws = .ok en) {s : Nat} (hs : ws.length ≤ s) :
    encodeSuffix en s = .error .impossible ∧ encodePrefix en s = .error .impossible := by
  obtain ⟨dn', T, _, _, B⟩ := built_of_enc hen
  exact ⟨B.suffix_reject hs, B.prefix_reject hs⟩

/-! ## 2. When the constructors succeed -/

/-- a weight type whose `+` never panics (`exactOps`, `wrappingOps n`, and the float instances
as long as no `inf + -inf` occurs): both constructors succeed for 1 … `usize::MAX/4` symbols -/
theorem constructors_ok_total (ht : Total ops) (hs : SizeOK ws) :
    ∃ en dn, encTree ops ws = .ok en ∧ decTree ops ws = .ok dn := by
  obtain ⟨en, dn, _, he, hd, _, _⟩ := total_build ht hs
  exact ⟨en, dn, he, hd⟩

/-- checked `n`-bit integer weights: both constructors succeed whenever the total weight fits
(no panic, no overflow, no unchecked index out of bounds) and report the right alphabet size -/
theorem constructors_ok {n : Nat} {ws : List Nat} (hs : SizeOK ws) (hfit : WeightsFit n ws) :
    ∃ en dn, encTree (checkedOps n) ws = .ok en ∧ decTree (checkedOps n) ws = .ok dn ∧
      encNumSymbols en = ws.length ∧ decNumSymbols dn = ws.length := by
  obtain ⟨he, hd, _⟩ := checked_eq_exact hfit
  obtain ⟨en, dn, he', hd'⟩ := constructors_ok_total total_exact hs
  rw [← he] at he'
  obtain ⟨dn', hd'', h1, h2⟩ := constructors_agree he'
  exact ⟨en, dn', he', hd'', h1, h2⟩

/-- the weight type does not matter as long as the sums fit: checked integer types of any
width build the same arrays as exact arithmetic -/
theorem independent_of_weight_type {n : Nat} {ws : List Nat} (hfit : WeightsFit n ws) :
    encTree (checkedOps n) ws = encTree exactOps ws ∧
      decTree (checkedOps n) ws = decTree exactOps ws :=
  ⟨(checked_eq_exact hfit).1, (checked_eq_exact hfit).2.1⟩

/-! ## 3. Determinism and tie-breaking by index (weights ordered like the naturals) -/

/-- `pop` returns the minimum of the lexicographic order on `(weight, index)` — among equal
weights the smaller index — and this does not depend on the layout of the heap -/
theorem pop_is_lexicographic_min {ops : WeightOps Nat} (hlt : NatOrder ops)
    {heap heap' : List (Nat × Nat)} (hp : heap.Perm heap') {m r m' r'}
    (e : popMin ops heap = some (m, r)) (e' : popMin ops heap' = some (m', r')) :
    m = m' ∧ r.Perm r' ∧
    ∀ x ∈ heap, m.1 < x.1 ∨ (m.1 = x.1 ∧ m.2 ≤ x.2) := by
  obtain ⟨h1, h2⟩ := popMin_layout hlt hp e e'
  refine ⟨h1, h2, ?_⟩
  intro x hx
  rcases List.mem_cons.mp ((popMin_perm e).mem_iff.mp hx) with rfl | hxr
  · right; exact ⟨rfl, Nat.le_refl _⟩
  · exact popMin_min hlt e x hxr

/-- **determinism**: the construction is a function of the weight list alone — modelling
`BinaryHeap` by a list loses nothing, because both loops return the same arrays for every
arrangement of the heap's entries -/
theorem deterministic {ops : WeightOps Nat} (hlt : NatOrder ops) {heap heap' : List (Nat × Nat)}
    (hp : heap.Perm heap') (fuel next : Nat) (arr : List Nat) (acc : List (Nat × Nat)) :
    encLoop ops fuel heap arr next = encLoop ops fuel heap' arr next ∧
    decLoop ops fuel heap acc next = decLoop ops fuel heap' acc next :=
  ⟨encLoop_layout hlt fuel heap heap' arr next hp, decLoop_layout hlt fuel heap heap' acc next hp⟩

/-- **tie-breaking by index** (exact sums): codeword lengths are monotone in `(weight, index)`.
If symbol `i` is lighter than symbol `j`, or equally heavy with `i ≤ j`, then `j`'s codeword is
not longer than `i`'s.  In particular among symbols of equal weight the codeword length is
non-increasing in the index. -/
theorem ties_by_index {ws : List Nat} (hen : encTree exactOps ws = .ok en)
    {i j wi wj : Nat} (hi : ws[i]? = some wi) (hj : ws[j]? = some wj)
    (hle : wi < wj ∨ (wi = wj ∧ i ≤ j)) : wordLen en j ≤ wordLen en i := by
  obtain ⟨dn', T, _, hT, B⟩ := built_of_enc hen
  have hi' : i < ws.length := by
    rcases Nat.lt_or_ge i ws.length with h | h
    · exact h
    · rw [List.getElem?_eq_none h] at hi; cases hi
  have hj' : j < ws.length := by
    rcases Nat.lt_or_ge j ws.length with h | h
    · exact h
    · rw [List.getElem?_eq_none h] at hj; cases hj
  rw [B.wordLen_eq hi', B.wordLen_eq hj']
  exact huffTree_ties hT hi hj hle

/-- the same for checked integer weights whose total fits the type -/
theorem ties_by_index_checked {n : Nat} {ws : List Nat} (hfit : WeightsFit n ws)
    (hen : encTree (checkedOps n) ws = .ok en)
    {i j wi wj : Nat} (hi : ws[i]? = some wi) (hj : ws[j]? = some wj)
    (hle : wi < wj ∨ (wi = wj ∧ i ≤ j)) : wordLen en j ≤ wordLen en i := by
  rw [(checked_eq_exact hfit).1] at hen
  exact ties_by_index hen hi hj hle

/-! ## 4. Optimality (exact sums) -/

/-- the full optimality statement: whenever the constructor returns (exact weights, or checked
integer weights whose total fits), the code emitted through the encoder array has minimum
total weighted length `Σ_s w_s · |codeword_s|` among **all** prefix-free assignments of bit
strings to the symbols `0 … n-1` — in particular among the root-to-leaf codes of all binary
trees with these leaves. -/
def HuffmanOptimal : Prop :=
  (∀ (ws : List Nat) (en : List Nat), encTree exactOps ws = .ok en →
    ∀ c : Nat → List Bool, PrefixFree ws.length c → codeCost ws en ≤ assignCost ws c) ∧
  (∀ (n : Nat) (ws : List Nat) (en : List Nat), WeightsFit n ws →
    encTree (checkedOps n) ws = .ok en →
    ∀ c : Nat → List Bool, PrefixFree ws.length c → codeCost ws en ≤ assignCost ws c)

/-- optimality among all code trees (full binary or not) on the same alphabet -/
theorem optimal_among_trees {ws : List Nat} (hen : encTree exactOps ws = .ok en)
    {U : Tree} (hU : U.IsCodeTree ws.length) : codeCost ws en ≤ U.wcost ws := by
  obtain ⟨dn', T, _, hT, B⟩ := built_of_enc hen
  rw [B.codeCost_eq]
  exact huffTree_optimal hT hU

/-- **optimality** (the classical exchange argument: sibling lemma + induction over the merge
loop, after Blanchette's Isabelle proof), closed in full: `HuffmanOptimal` holds. -/
theorem huffman_optimal : HuffmanOptimal := by
  have main : ∀ (ws : List Nat) (en : List Nat), encTree exactOps ws = .ok en →
      ∀ c : Nat → List Bool, PrefixFree ws.length c → codeCost ws en ≤ assignCost ws c := by
    intro ws en hen c hc
    obtain ⟨dn', T, _, hT, B⟩ := built_of_enc hen
    rw [B.codeCost_eq]
    exact huffTree_optimal_codes B.n_pos hT hc
  refine ⟨main, ?_⟩
  intro n ws en hfit hen c hc
  rw [(checked_eq_exact hfit).1] at hen
  exact main ws en hen c hc

/-- the cost the theorems speak about is that of the emitted codewords and, equivalently, the
weighted path length of the common tree of `same_tree` -/
theorem cost_is_tree_cost {ws : List Nat} (hen : encTree exactOps ws = .ok en) :
    ∃ T : Tree, huffTree exactOps ws = some T ∧ T.IsCodeTree ws.length ∧
      codeCost ws en = T.wcost ws := by
  obtain ⟨dn', T, _, hT, B⟩ := built_of_enc hen
  exact ⟨T, hT, B.leaves, B.codeCost_eq⟩

/-! ## Non-vacuity: concrete instances satisfy the hypotheses -/

example : SizeOK [2, 2, 4, 1, 1] := ⟨by decide, by decide⟩
example : WeightsFit 32 [2, 2, 4, 1, 1] := by simp [WeightsFit]
example : Total exactOps := total_exact
example : Total (wrappingOps 8) := total_wrapping 8
example : NatOrder (checkedOps 16) := natOrder_checked 16
example : encTree (checkedOps 32) [2, 2, 4, 1, 1] = .ok [12, 13, 15, 10, 11, 14, 16, 17, 0] := by rfl
example : decTree (checkedOps 32) [2, 2, 4, 1, 1] = .ok [(3, 4), (0, 1), (5, 2), (6, 7)] := by rfl
example : encTree exactOps [2, 2, 4, 1, 1] = .ok [12, 13, 15, 10, 11, 14, 16, 17, 0] := by rfl
/-- a wrapping (release-build) `u8` sum: `150 + 150` wraps to `44` and is popped before `200`;
still a valid (no longer optimal) code tree, covered by the structural theorems -/
example : encTree (wrappingOps 8) [150, 150, 100, 100] = .ok [10, 11, 8, 9, 13, 12, 0] := by rfl
example : encTree exactOps [150, 150, 100, 100] = .ok [10, 11, 8, 9, 12, 13, 0] := by rfl
example : encTree (checkedOps 8) [150, 150, 100, 100] = .error (.overflow "huff.add") := by rfl
example : encodePrefix [12, 13, 15, 10, 11, 14, 16, 17, 0] 4 = .ok [true, false, true] := by rfl
example : encodeSuffix [12, 13, 15, 10, 11, 14, 16, 17, 0] 3 = .ok [false, false, true] := by rfl
example : decode [(3, 4), (0, 1), (5, 2), (6, 7)] [some true, some false, some true, none] =
    .ok (4, [none]) := by rfl
example : codeCost [2, 2, 4, 1, 1] [12, 13, 15, 10, 11, 14, 16, 17, 0] = 22 := by rfl
/-- ties are broken by index: `[1, 1]` gives symbol 0 the bit 0 -/
example : encTree (checkedOps 32) [1, 1] = .ok [4, 5, 0] := by rfl
example : ([2, 2, 4, 1, 1] : List Nat)[3]? = some 1 ∧ ([2, 2, 4, 1, 1] : List Nat)[4]? = some 1 := by
  decide
example : PrefixFree 2 (fun s => if s = 0 then [false] else [true]) := by
  intro s1 s2 h1 h2 hp
  have : s1 = 0 ∨ s1 = 1 := by omega
  have : s2 = 0 ∨ s2 = 1 := by omega
  rcases ‹s1 = 0 ∨ s1 = 1› with rfl | rfl <;> rcases ‹s2 = 0 ∨ s2 = 1› with rfl | rfl <;>
    simp_all
example : (Tree.node 9 (.leaf 0) (.node 8 (.leaf 2) (.leaf 1))).IsCodeTree 3 := by
  unfold Tree.IsCodeTree
  decide

/-! ## 5. Outside `WeightsFit`: open finding D34

Integer weights whose total does not fit the weight type: with overflow checks the constructor
panics (`checkedOps`), without them the sums wrap (`wrappingOps`) and the code need not be
optimal.  `from_probabilities` is generic in `P : Ord + Clone + Add`, so it cannot detect the
overflow without an API change; recorded as an open known finding, not repaired. -/

/-- `u8` weights `[200, 100, 60, 250, 120]`: a checked build panics, a release build returns a
    code of cost 1650 while the optimum (what the same weights give as `u32`) costs 1620 -/
theorem D34_weight_total_overflow_counterexample :
    encTree (checkedOps 8) [200, 100, 60, 250, 120] = .error (.overflow "huff.add") ∧
    (∃ en, encTree (wrappingOps 8) [200, 100, 60, 250, 120] = .ok en ∧
      codeCost [200, 100, 60, 250, 120] en = 1650) ∧
    (∃ en, encTree (checkedOps 32) [200, 100, 60, 250, 120] = .ok en ∧
      codeCost [200, 100, 60, 250, 120] en = 1620) := by
  refine ⟨by rfl, ⟨_, rfl, by decide⟩, ⟨_, rfl, by decide⟩⟩

end CV.Huff.C15

#print axioms CV.Huff.C15.D34_weight_total_overflow_counterexample
#print axioms CV.Huff.C15.constructors_agree
#print axioms CV.Huff.C15.constructors_agree_conv
#print axioms CV.Huff.C15.same_tree
#print axioms CV.Huff.C15.prefix_eq_reverse_suffix
#print axioms CV.Huff.C15.decode_prefix
#print axioms CV.Huff.C15.decode_sound
#print axioms CV.Huff.C15.decode_truncated
#print axioms CV.Huff.C15.prefix_free
#print axioms CV.Huff.C15.kraft_equality
#print axioms CV.Huff.C15.single_symbol
#print axioms CV.Huff.C15.out_of_alphabet
#print axioms CV.Huff.C15.constructors_ok_total
#print axioms CV.Huff.C15.constructors_ok
#print axioms CV.Huff.C15.independent_of_weight_type
#print axioms CV.Huff.C15.pop_is_lexicographic_min
#print axioms CV.Huff.C15.deterministic
#print axioms CV.Huff.C15.ties_by_index
#print axioms CV.Huff.C15.ties_by_index_checked
#print axioms CV.Huff.C15.optimal_among_trees
#print axioms CV.Huff.C15.huffman_optimal
#print axioms CV.Huff.C15.cost_is_tree_cost
