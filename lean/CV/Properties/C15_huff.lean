import CV.Proofs.HuffOptMain
/-!
# C15 — Huffman codebooks are prefix-free, complete, optimal and mutually consistent

Property theorems only (helper lemmas: `CV/Proofs/Huff*.lean`).  All theorems are about the
Impl model `CV.Huff` (`CV/Model/Huff.lean`): `encTree`/`decTree` are the two constructors
(`EncoderHuffmanTree` / `DecoderHuffmanTree :: try_from_probabilities`), `encodeSuffix`,
`encodePrefix`, `decode` the codebook methods.  They hold for **every** `Admissible` weight list:
non-empty, at most `usize::MAX / 4` entries (the constructor's guard), weight sum representable in
the weight type (`wb = some bits`; `wb = none`: float weights whose sums are exact) — zeros,
repeated weights, one symbol, many symbols.
-/
namespace CV.Huff.C15
open CV CV.Huff

variable {wb : Option Nat} {ws : List Nat} {en : List Nat} {dn : List (Nat × Nat)}

/-- both constructors succeed (no panic, no overflow, no unchecked index out of bounds) and
report the right alphabet size -/
theorem constructors_ok (h : Admissible wb ws) :
    ∃ en dn, encTree wb ws = .ok en ∧ decTree wb ws = .ok dn ∧
      encNumSymbols en = ws.length ∧ decNumSymbols dn = ws.length := by
  obtain ⟨en, dn, T, he, hd, _, B⟩ := admissible_build h
  refine ⟨en, dn, he, hd, ?_, ?_⟩
  · have := B.en_len; have := B.n_pos; simp only [encNumSymbols]; omega
  · have := B.dn_len; simp only [decNumSymbols]; omega

/-- **same tree**: there is one binary tree `T` whose leaves are exactly the symbols
`0 … n-1` such that the encoder's parent array and the decoder's child table both describe `T`
(`EncDesc`: entry of child = `parent << 1 | bit`, root entry `0`; `DecDesc`: entry `i - n` =
the two children of internal node `i`), and every codeword is the root-to-leaf path in `T`. -/
theorem same_tree (h : Admissible wb ws) (hen : encTree wb ws = .ok en)
    (hdn : decTree wb ws = .ok dn) :
    ∃ T : Tree, T.IsCodeTree ws.length ∧
      EncDesc en T ∧ en[T.rootId]? = some 0 ∧ DecDesc dn ws.length T ∧
      ∀ s, s < ws.length → ∃ p, T.code s = some p ∧ encodePrefix en s = .ok p := by
  obtain ⟨en', dn', T, he, hd, _, B⟩ := admissible_build h
  rw [hen] at he; injection he with he; subst he
  rw [hdn] at hd; injection hd with hd; subst hd
  refine ⟨T, B.leaves, B.encDesc, B.root0, B.decDesc, ?_⟩
  intro s hs
  obtain ⟨p, hp⟩ := B.code_of_lt hs
  exact ⟨p, hp, B.prefix hp⟩

/-- `encode_symbol_prefix` emits the reverse of what `encode_symbol_suffix` emits -/
theorem prefix_eq_reverse_suffix (h : Admissible wb ws) (hen : encTree wb ws = .ok en)
    {s : Nat} (hs : s < ws.length) :
    ∃ w, encodePrefix en s = .ok w ∧ encodeSuffix en s = .ok w.reverse := by
  obtain ⟨en', dn', T, he, _, _, B⟩ := admissible_build h
  rw [hen] at he; injection he with he; subst he
  obtain ⟨p, hp⟩ := B.code_of_lt hs
  exact ⟨p, B.prefix hp, B.suffix hp⟩

/-- the decoder tree inverts the encoder tree, whatever follows the codeword:
`decode (prefix s ++ rest) = (s, rest)` -/
theorem decode_prefix (h : Admissible wb ws) (hen : encTree wb ws = .ok en)
    (hdn : decTree wb ws = .ok dn) {s : Nat} (hs : s < ws.length) :
    ∃ w, encodePrefix en s = .ok w ∧
      ∀ rest, decode dn (w.map some ++ rest) = .ok (s, rest) := by
  obtain ⟨en', dn', T, he, hd, _, B⟩ := admissible_build h
  rw [hen] at he; injection he with he; subst he
  rw [hdn] at hd; injection hd with hd; subst hd
  obtain ⟨p, hp⟩ := B.code_of_lt hs
  exact ⟨p, B.prefix hp, fun rest => B.dec_word hp rest⟩

/-- conversely, whatever `decode` returns on arbitrary bits is a symbol of the alphabet whose
codeword is exactly what was consumed (the code is complete: arbitrary bits never get stuck
other than by running out) -/
theorem decode_sound (h : Admissible wb ws) (hen : encTree wb ws = .ok en)
    (hdn : decTree wb ws = .ok dn) (src : List (Option Bool)) :
    (∃ s w rest, decode dn src = .ok (s, rest) ∧ s < ws.length ∧ encodePrefix en s = .ok w ∧
        src = w.map some ++ rest) ∨
      decode dn src = .error .outOfData ∨ decode dn src = .error .backend := by
  obtain ⟨en', dn', T, he, hd, _, B⟩ := admissible_build h
  rw [hen] at he; injection he with he; subst he
  rw [hdn] at hd; injection hd with hd; subst hd
  exact B.decode_total src

/-- a source that ends strictly inside a codeword gives `OutOfCompressedData` -/
theorem decode_truncated (h : Admissible wb ws) (hen : encTree wb ws = .ok en)
    (hdn : decTree wb ws = .ok dn) {s : Nat} {p q : List Bool}
    (hw : encodePrefix en s = .ok (p ++ q)) (hq : q ≠ []) :
    decode dn (p.map some) = .error .outOfData := by
  obtain ⟨en', dn', T, he, hd, _, B⟩ := admissible_build h
  rw [hen] at he; injection he with he; subst he
  rw [hdn] at hd; injection hd with hd; subst hd
  by_cases hs : s < ws.length
  · obtain ⟨w, hwc⟩ := B.code_of_lt hs
    have := B.prefix hwc
    rw [hw] at this; injection this with this; subst this
    exact B.dec_truncated hwc hq
  · rw [B.prefix_reject (by omega)] at hw; cases hw

/-- the code is prefix-free -/
theorem prefix_free (h : Admissible wb ws) (hen : encTree wb ws = .ok en) {s1 s2 : Nat}
    {w1 w2 : List Bool} (h1 : encodePrefix en s1 = .ok w1) (h2 : encodePrefix en s2 = .ok w2)
    (hp : w1 <+: w2) : s1 = s2 := by
  obtain ⟨en', dn', T, he, _, _, B⟩ := admissible_build h
  rw [hen] at he; injection he with he; subst he
  have hs1 : s1 < ws.length := by
    by_cases hs : s1 < ws.length
    · exact hs
    · rw [B.prefix_reject (by omega)] at h1; cases h1
  have hs2 : s2 < ws.length := by
    by_cases hs : s2 < ws.length
    · exact hs
    · rw [B.prefix_reject (by omega)] at h2; cases h2
  obtain ⟨p1, hp1⟩ := B.code_of_lt hs1
  obtain ⟨p2, hp2⟩ := B.code_of_lt hs2
  have e1 := B.prefix hp1; rw [h1] at e1; injection e1 with e1; subst e1
  have e2 := B.prefix hp2; rw [h2] at e2; injection e2 with e2; subst e2
  exact Tree.code_prefix_free T s1 s2 _ _ hp1 hp2 hp

/-- **Kraft equality** `Σ_s 2^(-len s) = 1`, stated on naturals with the common denominator
`2^n` (every codeword is shorter than `n`): the code is complete.  (For `n = 1` the single
codeword is empty and the equality reads `2^1 = 2^1`.) -/
theorem kraft_equality (h : Admissible wb ws) (hen : encTree wb ws = .ok en) :
    (∀ s, s < ws.length → wordLen en s < ws.length) ∧
    ((List.range ws.length).map (fun s => 2^(ws.length - wordLen en s))).sum = 2^ws.length := by
  obtain ⟨en', dn', T, he, _, _, B⟩ := admissible_build h
  rw [hen] at he; injection he with he; subst he
  constructor
  · intro s hs
    obtain ⟨p, hp⟩ := B.code_of_lt hs
    have := B.code_len hp
    rw [B.wordLen_eq hs]; simp only [Tree.depth, hp]; omega
  · rw [← B.kraft]
    congr 1
    apply List.map_congr_left
    intro s hs
    rw [B.wordLen_eq (by simpa using hs)]

/-- a single symbol gets the empty codeword (and decoding consumes nothing) -/
theorem single_symbol (w : Nat) (h : Admissible wb [w]) :
    ∃ en dn, encTree wb [w] = .ok en ∧ decTree wb [w] = .ok dn ∧
      encodePrefix en 0 = .ok [] ∧ encodeSuffix en 0 = .ok [] ∧
      ∀ src, decode dn src = .ok (0, src) := by
  obtain ⟨en, dn, T, he, hd, _, B⟩ := admissible_build h
  obtain ⟨p, hp⟩ := B.code_of_lt (s := 0) (by simp)
  have hlen := B.code_len hp
  have hp0 : p = [] := List.eq_nil_of_length_eq_zero (by
    have : [w].length = 1 := rfl
    omega)
  subst hp0
  refine ⟨en, dn, he, hd, B.prefix hp, by simpa using B.suffix hp, ?_⟩
  intro src
  simpa using B.dec_word hp src

/-- symbols outside the alphabet are rejected (see also `C09_huff`) -/
theorem out_of_alphabet (h : Admissible wb ws) (hen : encTree wb ws = .ok en) {s : Nat}
    (hs : ws.length ≤ s) :
    encodeSuffix en s = .error .impossible ∧ encodePrefix en s = .error .impossible := by
  obtain ⟨en', dn', T, he, _, _, B⟩ := admissible_build h
  rw [hen] at he; injection he with he; subst he
  exact ⟨B.suffix_reject hs, B.prefix_reject hs⟩

/-- **determinism / tie-breaking by index**: the construction is a function of the weight
list, and its only choice — which heap entry `pop` returns — is the minimum of the
lexicographic order on `(weight, index)`: among equal weights the smaller index.  It does not
depend on the layout of the heap (any two heaps with the same entries pop the same entry and
leave the same entries). -/
theorem ties_by_index {heap heap' : List (Nat × Nat)} (hp : heap.Perm heap') {m r m' r'}
    (e : popMin heap = some (m, r)) (e' : popMin heap' = some (m', r')) :
    m = m' ∧ r.Perm r' ∧
    ∀ x ∈ heap, m.1 < x.1 ∨ (m.1 = x.1 ∧ m.2 ≤ x.2) := by
  obtain ⟨h1, h2⟩ := popMin_layout hp e e'
  refine ⟨h1, h2, ?_⟩
  intro x hx
  rcases List.mem_cons.mp ((popMin_perm e).mem_iff.mp hx) with rfl | hxr
  · right; exact ⟨rfl, Nat.le_refl _⟩
  · exact popMin_min e x hxr

/-- the weight type does not matter as long as the sums fit: integer types of any width and
the exact-sum float model build the same arrays -/
theorem independent_of_weight_type (h : Admissible wb ws) :
    encTree wb ws = encTree none ws ∧ decTree wb ws = decTree none ws := by
  have hno := noOverflow_zipIdx h.2.2
  constructor
  · simp only [encTree]
    split
    · rfl
    · exact encLoop_wb_irrelevant wb _ _ _ _ hno
  · simp only [decTree]
    split
    · rfl
    · exact decLoop_wb_irrelevant wb _ _ _ _ hno

/-! ## Optimality -/

/-- the full optimality statement: for every admissible weight list, the code emitted through
the encoder array has minimum total weighted length `Σ_s w_s · |codeword_s|` among **all**
prefix-free assignments of bit strings to the symbols `0 … n-1` — in particular among the
root-to-leaf codes of all binary trees with these leaves. -/
def HuffmanOptimal : Prop :=
  ∀ (wb : Option Nat) (ws : List Nat) (en : List Nat), Admissible wb ws → encTree wb ws = .ok en →
    ∀ c : Nat → List Bool, PrefixFree ws.length c → codeCost ws en ≤ assignCost ws c

/-- optimality among all code trees (full binary or not) on the same alphabet -/
theorem optimal_among_trees (h : Admissible wb ws) (hen : encTree wb ws = .ok en)
    {U : Tree} (hU : U.IsCodeTree ws.length) : codeCost ws en ≤ U.wcost ws := by
  obtain ⟨en', dn', T, he, _, hT, B⟩ := admissible_build h
  rw [hen] at he; injection he with he; subst he
  rw [B.codeCost_eq]
  exact huffTree_optimal h.1 hT hU

/-- **optimality** (the classical exchange argument: sibling lemma + induction over the merge
loop, after Blanchette's Isabelle proof), closed in full: `HuffmanOptimal` holds. -/
theorem huffman_optimal : HuffmanOptimal := by
  intro wb ws en h hen c hc
  obtain ⟨en', dn', T, he, _, hT, B⟩ := admissible_build h
  rw [hen] at he; injection he with he; subst he
  rw [B.codeCost_eq]
  exact huffTree_optimal_codes h.1 hT hc

/-- the cost the theorems speak about is that of the emitted codewords and, equivalently, the
weighted path length of the common tree of `same_tree` -/
theorem cost_is_tree_cost (h : Admissible wb ws) (hen : encTree wb ws = .ok en) :
    ∃ T : Tree, huffTree ws = some T ∧ T.IsCodeTree ws.length ∧ codeCost ws en = T.wcost ws := by
  obtain ⟨en', dn', T, he, _, hT, B⟩ := admissible_build h
  rw [hen] at he; injection he with he; subst he
  exact ⟨T, hT, B.leaves, B.codeCost_eq⟩

/-! ## Non-vacuity: concrete instances satisfy the hypotheses -/

example : Admissible (some 32) [2, 2, 4, 1, 1] := by
  refine ⟨by decide, by decide, ?_⟩; simp [WeightsFit]
example : Admissible none [1, 1, 1] := ⟨by decide, by decide, trivial⟩
example : Admissible (some 8) [0] := by
  refine ⟨by decide, by decide, ?_⟩; simp [WeightsFit]
example : encTree (some 32) [2, 2, 4, 1, 1] = .ok [12, 13, 15, 10, 11, 14, 16, 17, 0] := by rfl
example : decTree (some 32) [2, 2, 4, 1, 1] = .ok [(3, 4), (0, 1), (5, 2), (6, 7)] := by rfl
example : encodePrefix [12, 13, 15, 10, 11, 14, 16, 17, 0] 4 = .ok [true, false, true] := by rfl
example : encodeSuffix [12, 13, 15, 10, 11, 14, 16, 17, 0] 3 = .ok [false, false, true] := by rfl
example : decode [(3, 4), (0, 1), (5, 2), (6, 7)] [some true, some false, some true, none] =
    .ok (4, [none]) := by rfl
example : codeCost [2, 2, 4, 1, 1] [12, 13, 15, 10, 11, 14, 16, 17, 0] = 22 := by rfl
/-- ties are broken by index: `[1, 1]` gives symbol 0 the bit 0 -/
example : encTree (some 32) [1, 1] = .ok [4, 5, 0] := by rfl
example : PrefixFree 2 (fun s => if s = 0 then [false] else [true]) := by
  intro s1 s2 h1 h2 hp
  have : s1 = 0 ∨ s1 = 1 := by omega
  have : s2 = 0 ∨ s2 = 1 := by omega
  rcases ‹s1 = 0 ∨ s1 = 1› with rfl | rfl <;> rcases ‹s2 = 0 ∨ s2 = 1› with rfl | rfl <;>
    simp_all
example : (Tree.node 9 (.leaf 0) (.node 8 (.leaf 2) (.leaf 1))).IsCodeTree 3 := by
  unfold Tree.IsCodeTree
  decide

end CV.Huff.C15

#print axioms CV.Huff.C15.constructors_ok
#print axioms CV.Huff.C15.same_tree
#print axioms CV.Huff.C15.prefix_eq_reverse_suffix
#print axioms CV.Huff.C15.decode_prefix
#print axioms CV.Huff.C15.decode_sound
#print axioms CV.Huff.C15.decode_truncated
#print axioms CV.Huff.C15.prefix_free
#print axioms CV.Huff.C15.kraft_equality
#print axioms CV.Huff.C15.single_symbol
#print axioms CV.Huff.C15.out_of_alphabet
#print axioms CV.Huff.C15.ties_by_index
#print axioms CV.Huff.C15.independent_of_weight_type
#print axioms CV.Huff.C15.optimal_among_trees
#print axioms CV.Huff.C15.huffman_optimal
#print axioms CV.Huff.C15.cost_is_tree_cost
