import CV.Proofs.Backend
import CV.Proofs.BackendMisc
/-!
# C17 — word sources and sinks honour their read/write/bounds/position contracts
(component `backend`: `src/backends.rs` after the repairs D11 `7b329fc`, D12 `ca8abce`)

All statements are about the Impl model `CV.Backend` (`Cur.step`/`Cur.run` for `Cursor` and
`Reverse<Cursor>` over any buffer type, `Backend.step`/`Backend.run` for `Vec`, `SmallVec`,
the iterator and callback adapters) — the functions the correspondence driver executes.
Words are arbitrary naturals, so every statement holds for every `Word` type.
`s.Inv` is the documented invariant `pos ≤ buf.len()`; `C17_cursor_inv_preserved` shows that
every trait method preserves it, the constructors establish it (`C17_constructors_inv`).

Clause "positions reported can be sought back to": for `Cursor` / `Reverse<Cursor>` it holds
at any later time (`C17_cursor_seek_back_history`; the buffer length never changes), reads
after the seek return what the buffer holds there (`C17_cursor_reads_view`), and intervening
writes overwrite those cells (`C17_cursor_write_overwrites`).  For `Vec` / `SmallVec` the
clause holds only for seeking *back* after appends (`C17_vec_seek_back`); seeking forward to a
position whose words have been read is refused (`C17_vec_seek_forward_refused`): `Vec::seek`
is `truncate` and reads pop — the documented stack semantics, not a defect.

`C17_smallvec_refines_vec` is true by construction: the `SmallVec` model *is* the `Vec` model
plus the `spilled` flag, because `backends.rs` implements the traits for both by the same
`push`/`pop`/`truncate`/`len` calls.  That the real `SmallVec` behaves like the real `Vec`
(including across the inline-capacity boundary, lengths 3/4/5 with `N = 4`) is established by
the correspondence and the oracles only, not by a theorem.
-/
namespace CV.Backend.C17

/-! ## `Cursor` and `Reverse<Cursor>` -/

/-- constructors establish the invariant (`new_at_pos` refuses exactly `pos > len`) -/
theorem C17_constructors_inv (buf : List Nat) (p : Nat) :
    (Cursor.newAtWriteBeginning buf).Inv ∧ (Cursor.newAtWriteEnd buf).Inv ∧
    (Cursor.newAtPos buf p = none ↔ p > buf.length) ∧
    (∀ c, Cursor.newAtPos buf p = some c → c.Inv ∧ c = ⟨buf, p⟩) := by
  refine ⟨by simp [Cursor.newAtWriteBeginning, Cursor.Inv], by simp [Cursor.newAtWriteEnd, Cursor.Inv],
    ?_, ?_⟩
  · by_cases h : p > buf.length <;> simp [Cursor.newAtPos, h]
  · intro c hc
    by_cases h : p > buf.length
    · simp [Cursor.newAtPos, h] at hc
    · simp [Cursor.newAtPos, h] at hc
      subst hc
      exact ⟨by simp [Cursor.Inv]; omega, rfl⟩

/-- every trait method (everything except handing out `buf_mut`) preserves `pos ≤ len` and
    returns normally, along every history -/
theorem C17_cursor_inv_preserved (wr : Bool) (s : Cur) (hI : s.Inv) (ops : List Op)
    (h : ∀ op ∈ ops, ∀ ws, op ≠ .bmSet ws) :
    ∃ outs s', Cur.run wr s ops = (outs, .ok s') ∧ s'.Inv ∧ outs.length = ops.length :=
  Cur.run_inv wr ops s hI h

example : ∃ outs s', Cur.run true (.fwd ⟨[1, 2, 3], 1⟩)
      [.readS, .write 9, .intoReversed, .readQ, .seek 7, .extend [4, 5, 6]] = (outs, .ok s') ∧
    s'.Inv ∧ outs.length = 6 :=
  C17_cursor_inv_preserved true _ (by simp [Cur.Inv, Cur.inner, Cursor.Inv]) _ (by simp)

/-- **stack reads return writes in reverse**: `k ≤ space_left` writes then `k` stack reads -/
theorem C17_cursor_lifo (s : Cur) (hI : s.Inv) (n : Nat) (ws : List Nat)
    (hsp : Cur.step true s .spaceLeft = .ok (.num n, s)) (hle : ws.length ≤ n) :
    ∃ s', Cur.run true s (ws.map Op.write ++ List.replicate ws.length Op.readS) =
        (List.replicate ws.length Out.ok ++ ws.reverse.map (fun w => Out.word (some w)), .ok s')
      ∧ s'.Inv ∧ s'.inner.pos = s.inner.pos ∧ s'.inner.buf.length = s.inner.buf.length :=
  Cur.lifo s hI n ws hsp hle

example :=
  C17_cursor_lifo (.rev ⟨⟨[1, 2, 3, 4], 3⟩⟩) (by simp [Cur.Inv, Cur.inner, Cursor.Inv]) 3 [7, 8] rfl
    (by decide)

/-- **queue reads return writes in order**: writes, seek back to the reported position, reads -/
theorem C17_cursor_fifo (s : Cur) (hI : s.Inv) (n p : Nat) (ws : List Nat)
    (hsp : Cur.step true s .spaceLeft = .ok (.num n, s)) (hle : ws.length ≤ n)
    (hp : Cur.step true s .pos = .ok (.num p, s)) :
    ∃ s', Cur.run true s (ws.map Op.write ++ ([Op.seek p] ++ List.replicate ws.length Op.readQ)) =
        (List.replicate ws.length Out.ok ++ ([Out.ok] ++ ws.map (fun w => Out.word (some w))), .ok s')
      ∧ s'.Inv :=
  Cur.fifo s hI n p ws hsp hle hp

example :=
  C17_cursor_fifo (.fwd ⟨[1, 2, 3, 4], 1⟩) (by simp [Cur.Inv, Cur.inner, Cursor.Inv]) 3 1 [7, 8] rfl
    (by decide) rfl

/-- **after the first end-of-data every read is end-of-data** (either semantics; no
    invariant needed) -/
theorem C17_cursor_fused (wr : Bool) (op : Op) (hop : op = .readS ∨ op = .readQ) (s s' : Cur)
    (h : Cur.step wr s op = .ok (.word none, s')) (m : Nat) :
    Cur.run wr s' (List.replicate m op) = (List.replicate m (Out.word none), .ok s') :=
  Cur.fused wr op hop s s' h m

example : Cur.run false (.fwd ⟨[1, 2], 2⟩) (List.replicate 3 .readQ) =
    (List.replicate 3 (Out.word none), .ok (.fwd ⟨[1, 2], 2⟩)) :=
  C17_cursor_fused false .readQ (Or.inr rfl) (.fwd ⟨[1, 2], 2⟩) _ rfl 3

/-- **`remaining` = number of reads that will succeed** (`Stack` semantics) -/
theorem C17_cursor_remaining_stack_exact (wr : Bool) (s : Cur) (hI : s.Inv) (n : Nat)
    (h : Cur.step wr s .remS = .ok (.num n, s)) (m : Nat) :
    ∃ (vs : List Nat) (s' : Cur), vs.length = n ∧ s'.Inv ∧
      Cur.run wr s (List.replicate (n + m) Op.readS) =
        (vs.map (fun w => Out.word (some w)) ++ List.replicate m (Out.word none), .ok s') :=
  Cur.remS_exact wr s hI n h m

/-- **`remaining` = number of reads that will succeed** (`Queue` semantics) -/
theorem C17_cursor_remaining_queue_exact (wr : Bool) (s : Cur) (hI : s.Inv) (n : Nat)
    (h : Cur.step wr s .remQ = .ok (.num n, s)) (m : Nat) :
    ∃ (vs : List Nat) (s' : Cur), vs.length = n ∧ s'.Inv ∧
      Cur.run wr s (List.replicate (n + m) Op.readQ) =
        (vs.map (fun w => Out.word (some w)) ++ List.replicate m (Out.word none), .ok s') :=
  Cur.remQ_exact wr s hI n h m

example :=
  C17_cursor_remaining_stack_exact false (.rev ⟨⟨[1, 2, 3, 4], 1⟩⟩)
    (by simp [Cur.Inv, Cur.inner, Cursor.Inv]) 3 rfl 2

/-- **`space_left` = number of writes that will succeed** — for `Cursor` and, after the D11
    repair, for `Reverse<Cursor>` -/
theorem C17_cursor_space_left_exact (s : Cur) (hI : s.Inv) (n : Nat)
    (h : Cur.step true s .spaceLeft = .ok (.num n, s)) (ws : List Nat) (hlen : ws.length = n)
    (w : Nat) :
    ∃ s', s'.Inv ∧
      Cur.run true s (ws.map Op.write ++ [Op.write w]) =
        (List.replicate n Out.ok ++ [Out.full], .ok s') :=
  Cur.spaceLeft_exact s hI n h ws hlen w

/-- the instance of D11: buffer of 8 words, `pos = 3` -/
example : ∃ s', s'.Inv ∧
    Cur.run true (.rev ⟨⟨List.replicate 8 0, 3⟩⟩) ([7, 7, 7].map Op.write ++ [Op.write 7]) =
      (List.replicate 3 Out.ok ++ [Out.full], .ok s') :=
  C17_cursor_space_left_exact (.rev ⟨⟨List.replicate 8 0, 3⟩⟩)
    (by simp [Cur.Inv, Cur.inner, Cursor.Inv]) 3 rfl [7, 7, 7] rfl 7

/-- the failed obligation before the D11 repair: `space_left` said 8 where 3 writes succeed -/
theorem C17_d11_legacy_counterexample :
    ∃ r : RevCursor, r.inner.Inv ∧ r.spaceLeftLegacy = 8 ∧
      (Cur.run true (.rev r) (List.replicate 4 (Op.write 7))).1 = [.ok, .ok, .ok, .full] :=
  ⟨⟨⟨List.replicate 8 0, 3⟩⟩, by simp [Cursor.Inv], rfl, rfl⟩

/-- `space_left`, `remaining`, `pos` always answer under the invariant -/
theorem C17_cursor_queries_total (s : Cur) (hI : s.Inv) :
    (∃ n, Cur.step true s .spaceLeft = .ok (.num n, s)) ∧
    (∃ n, Cur.step true s .remS = .ok (.num n, s)) ∧
    (∃ n, Cur.step true s .remQ = .ok (.num n, s)) ∧
    (∃ p, Cur.step true s .pos = .ok (.num p, s)) := by
  obtain ⟨rev, z, rfl⟩ := Cur.exists_ofZ s hI
  exact ⟨⟨_, Cur.spaceLeft_ofZ rev z⟩, ⟨_, Cur.remS_ofZ true rev z⟩, ⟨_, Cur.remQ_ofZ true rev z⟩,
    ⟨_, Cur.pos_ofZ true rev z⟩⟩

/-- **positions reported can be sought back to** -/
theorem C17_cursor_seek_pos (wr : Bool) (s : Cur) (hI : s.Inv) (p : Nat)
    (hp : Cur.step wr s .pos = .ok (.num p, s)) :
    Cur.step wr s (.seek p) = .ok (.ok, s) :=
  Cur.seek_pos wr s hI p hp

/-- **out-of-range positions are refused** (exactly those), leaving the state unchanged -/
theorem C17_cursor_seek_refused_iff (wr : Bool) (s : Cur) (q : Nat) :
    Cur.step wr s (.seek q) = .ok (.err, s) ↔ q > s.inner.buf.length :=
  Cur.seek_refused_iff wr s q

theorem C17_cursor_seek_accepted (wr : Bool) (s : Cur) (q : Nat) (h : q ≤ s.inner.buf.length) :
    ∃ s', Cur.step wr s (.seek q) = .ok (.ok, s') ∧ s'.inner.pos = q ∧
      s'.inner.buf = s.inner.buf ∧ s'.Inv :=
  Cur.seek_accepted wr s q h

example : Cur.step true (.fwd ⟨[1, 2, 3], 1⟩) (.seek 4) = .ok (.err, .fwd ⟨[1, 2, 3], 1⟩) :=
  (C17_cursor_seek_refused_iff true _ 4).mpr (by decide)

/-- **history form**: a position `p` reported at any point stays acceptable to `seek` after any
    later history of trait methods (reads with either semantics, writes, `extend_from_iter`,
    seeks, `into_reversed`, queries), because no trait method changes the buffer length; the
    seek sets exactly `p` and leaves the buffer as the history left it -/
theorem C17_cursor_seek_back_history (wr : Bool) (s : Cur) (hI : s.Inv) (p : Nat)
    (hp : Cur.step wr s .pos = .ok (.num p, s)) (ops : List Op)
    (hops : ∀ op ∈ ops, ∀ ws, op ≠ .bmSet ws) :
    ∃ outs s1 s2, Cur.run wr s ops = (outs, .ok s1) ∧
      Cur.step wr s1 (.seek p) = .ok (.ok, s2) ∧
      s2.inner.pos = p ∧ s2.inner.buf = s1.inner.buf ∧ s2.Inv :=
  Cur.seek_back_after_history wr s hI p hp ops hops

example := C17_cursor_seek_back_history true (.fwd ⟨[1, 2, 3, 4], 2⟩)
  (by simp [Cur.Inv, Cur.inner, Cursor.Inv]) 2 rfl
  [.readS, .write 9, .write 8, .seek 0, .readQ, .intoReversed, .extend [5, 6, 7]] (by simp)

/-- the buffer length is constant along every history of trait methods -/
theorem C17_cursor_len_constant (wr : Bool) (ops : List Op) (s : Cur) (hI : s.Inv)
    (hops : ∀ op ∈ ops, ∀ ws, op ≠ .bmSet ws) :
    ∃ outs s', Cur.run wr s ops = (outs, .ok s') ∧ s'.Inv ∧
      s'.inner.buf.length = s.inner.buf.length :=
  Cur.run_len wr ops s hI hops

/-- **what reads return after a seek (or at any time)**: exactly the words the buffer holds
    below the position going down (`Stack`) / from the position going up (`Queue`) — for a
    `Reverse<Cursor>` the two swap — and `Ok(None)` afterwards -/
theorem C17_cursor_reads_view (wr : Bool) (s : Cur) (hI : s.Inv) (m : Nat) :
    (Cur.run wr s (List.replicate (s.stackView.length + m) Op.readS)).1 =
      s.stackView.map (fun w => Out.word (some w)) ++ List.replicate m (Out.word none) ∧
    (Cur.run wr s (List.replicate (s.queueView.length + m) Op.readQ)).1 =
      s.queueView.map (fun w => Out.word (some w)) ++ List.replicate m (Out.word none) :=
  ⟨Cur.readS_view wr s hI m, Cur.readQ_view wr s hI m⟩

example : (Cur.run false (.fwd ⟨[1, 2, 3, 4], 3⟩) (List.replicate (3 + 1) Op.readS)).1 =
    [.word (some 3), .word (some 2), .word (some 1), .word none] :=
  (C17_cursor_reads_view false (.fwd ⟨[1, 2, 3, 4], 3⟩) (by simp [Cur.Inv, Cur.inner, Cursor.Inv]) 1).1

/-- later **writes overwrite**: a write replaces the cell at the position (`pos` for a `Cursor`,
    `pos − 1` for a `Reverse<Cursor>`), so a seek back followed by a read shows the new word -/
theorem C17_cursor_write_overwrites (c c' : Cursor) (r r' : RevCursor) (w : Nat) :
    (c.write w = .ok c' → c'.buf = c.buf.set c.pos w ∧ c'.pos = c.pos + 1) ∧
    (r.write w = .ok r' →
      r'.inner.buf = r.inner.buf.set (r.inner.pos - 1) w ∧ r'.inner.pos = r.inner.pos - 1) :=
  ⟨Cursor.write_overwrites c c' w, RevCursor.write_overwrites r r' w⟩

example : Cur.run true (.fwd ⟨[1, 2, 3, 4], 1⟩) [.pos, .write 9, .readQ, .seek 1, .readQ] =
    ([.num 1, .ok, .word (some 3), .ok, .word (some 9)], .ok (.fwd ⟨[1, 9, 3, 4], 2⟩)) := rfl

/-- `into_reversed` yields the mirror image and cannot fail under the invariant -/
theorem C17_into_reversed_mirror (c : Cursor) (hI : c.Inv) :
    ∃ r, c.intoReversed = .ok r ∧ Mirror c r :=
  Cursor.intoReversed_mirror c hI

/-- **reverse_bisim: reversing a cursor in place is observationally a no-op.**  A `Cursor`
    and the `Reverse<Cursor>` over the reversed buffer at `len − pos` (`Mirror`) give the same
    outputs for every history of reads (both semantics), writes, `extend_from_iter`,
    `remaining`, `space_left`, `is_exhausted`, `is_full`, further `into_reversed` calls, and
    end mirrored again.  (`pos`/`seek`/`buf` show the flipped direction by design, see
    `mirror_pos`.) -/
theorem C17_reverse_bisim (wr : Bool) (c : Cursor) (r : RevCursor) (h : Mirror c r)
    (ops : List Op) (hs : ∀ op ∈ ops, op.Sym = true) :
    (Cur.run wr (.fwd c) ops).1 = (Cur.run wr (.rev r) ops).1 ∧
    ∃ sa sb, (Cur.run wr (.fwd c) ops).2 = .ok sa ∧ (Cur.run wr (.rev r) ops).2 = .ok sb ∧
      Cur.Mirror sa sb :=
  Cur.reverse_bisim wr c r h ops hs

example : (Cur.run true (.fwd ⟨[1, 2, 3, 4], 1⟩) [.readQ, .write 9, .readS, .spaceLeft, .remS]).1 =
    (Cur.run true (.rev ⟨⟨[4, 3, 2, 1], 3⟩⟩) [.readQ, .write 9, .readS, .spaceLeft, .remS]).1 :=
  (C17_reverse_bisim true ⟨[1, 2, 3, 4], 1⟩ ⟨⟨[4, 3, 2, 1], 3⟩⟩ ⟨rfl, rfl⟩ _ (by decide)).1

/-- the protocol driver's machine on the cursor kinds is `Cur.run` -/
theorem C17_driver_runs_cur (wr : Bool) (ops : List Op) (s : Cur) :
    (Backend.run (.cur wr s) ops).1 = (Cur.run wr s ops).1 := by
  rw [Backend.run_cur]

/-! ## `Vec`, `SmallVec` -/

/-- LIFO for `Vec`: never refuses a write; `k` writes then `k` reads restore it exactly -/
theorem C17_vec_lifo (v : VecB) (ws : List Nat) :
    Backend.run (.vec v) (ws.map Op.write ++ List.replicate ws.length Op.readS) =
      (List.replicate ws.length Out.ok ++ ws.reverse.map (fun w => Out.word (some w)),
        .ok (.vec v)) :=
  Backend.vec_lifo v ws

/-- `remaining` is exact and reads are fused for `Vec` -/
theorem C17_vec_remaining_exact_fused (v : VecB) (m : Nat) :
    Backend.run (.vec v) (List.replicate (v.remaining + m) Op.readS) =
      (v.data.reverse.map (fun w => Out.word (some w)) ++ List.replicate m (Out.word none),
        .ok (.vec ⟨[]⟩)) :=
  Backend.vec_remaining_exact v m

/-- seek laws for `Vec` (seeking truncates) -/
theorem C17_vec_seek (v : VecB) (p : Nat) :
    v.seek v.pos = some v ∧ (v.seek p = none ↔ p > v.data.length) ∧
    (p ≤ v.data.length → v.seek p = some ⟨v.data.take p⟩ ∧ (VecB.mk (v.data.take p)).pos = p) :=
  ⟨VecB.seek_pos v, VecB.seek_none_iff v p, VecB.seek_some v p⟩

/-- for `Vec`: a position taken before appending can be sought back to, which restores the
    vector exactly -/
theorem C17_vec_seek_back (v : VecB) (ws : List Nat) :
    (VecB.mk (v.data ++ ws)).seek v.pos = some v ∧
    Backend.run (.vec v) (ws.map Op.write ++ [Op.seek v.pos]) =
      (List.replicate ws.length Out.ok ++ [Out.ok], .ok (.vec v)) :=
  ⟨VecB.seek_back_after_writes v ws, Backend.vec_seek_back v ws⟩

/-- the negative fact (documented stack semantics of `Vec`: `seek` truncates, reads pop): after
    a successful read the previously reported position is refused.
    `backend.vec 8 | data 1,2,3 | pos | read_s | seek 3` → `ok | 3 | 3 | err` on the real code. -/
theorem C17_vec_seek_forward_refused :
    (∀ v : VecB, v.data ≠ [] → ((v.read).2).seek v.pos = none) ∧
    Backend.run (.vec ⟨[1, 2, 3]⟩) [.pos, .readS, .seek 3] =
      ([.num 3, .word (some 3), .err], .ok (.vec ⟨[1, 2]⟩)) :=
  ⟨VecB.seek_forward_refused, rfl⟩

example : Backend.run (.vec ⟨[1, 2]⟩) ([7, 8, 9].map Op.write ++ List.replicate 3 Op.readS) =
    ([.ok, .ok, .ok, .word (some 9), .word (some 8), .word (some 7)], .ok (.vec ⟨[1, 2]⟩)) :=
  C17_vec_lifo ⟨[1, 2]⟩ [7, 8, 9]

/-- `SmallVec` is observationally a `Vec` on every history (`raw` shows the `spilled` flag) -/
theorem C17_smallvec_refines_vec (ops : List Op) (v : SmallVecB) (h : ∀ op ∈ ops, op ≠ .raw) :
    ∃ v', Backend.run (.smallvec v) ops = ((Backend.run (.vec v.toVec) ops).1, .ok (.smallvec v')) ∧
      (Backend.run (.vec v.toVec) ops).2 = .ok (.vec v'.toVec) :=
  SmallVecB.run_refines_vec ops v h

/-! ## iterator adapters (fused around an arbitrary, possibly non-fused iterator) -/

/-- `FallibleIteratorReadWords`: items in order up to the wrapped iterator's first `None`
    (exactly `remaining` of them), then `Ok(None)` forever, whatever the iterator would do -/
theorem C17_iter_fallible (s : List (Option Item)) (m : Nat) :
    (FallibleIter.mk ⟨s, false⟩).remaining = (Fuse.pending s).length ∧
    (Backend.run (.iterF ⟨⟨s, false⟩⟩)
        (List.replicate ((Fuse.pending s).length + m) Op.readQ)).1 =
      (Fuse.pending s).map itemOutF ++ List.replicate m (Out.word none) :=
  ⟨FallibleIter.remaining_live s, Backend.iterF_outs s m⟩

theorem C17_iter_infallible (s : List (Option Item)) (m : Nat) :
    (Backend.run (.iterI ⟨⟨s, false⟩⟩)
        (List.replicate ((Fuse.pending s).length + m) Op.readQ)).1 =
      (Fuse.pending s).map itemOutI ++ List.replicate m (Out.item none) :=
  Backend.iterI_outs s m

/-- the first `Ok(None)` is final -/
theorem C17_iter_fused (r : FallibleIter) (h : (r.read).1 = .ok none) (m : Nat) :
    (r.read).2.inner.done = true ∧
    (Backend.run (.iterF ⟨⟨(r.read).2.inner.script, true⟩⟩) (List.replicate m Op.readQ)).1 =
      List.replicate m (Out.word none) :=
  ⟨FallibleIter.read_none_done r h, Backend.iterF_done_outs _ m⟩

/-- a non-fused iterator: a hole after the first word, more items behind it -/
example : (Backend.run (.iterF ⟨⟨[some (.word 1), some .err, none, some (.word 3)], false⟩⟩)
      (List.replicate (2 + 3) Op.readQ)).1 =
    [.word (some 1), .readErr, .word none, .word none, .word none] :=
  (C17_iter_fallible [some (.word 1), some .err, none, some (.word 3)] 3).2

/-! ## callback adapters -/

/-- every word reaches the callback exactly once and in order; `extend_from_iter` is the
    sequence of writes and stops at the first failing call -/
theorem C17_callback (cb : Callback) (ws : List Nat)
    (h : ∀ i, i < ws.length → cb.failAt.contains (cb.calls + i) = false) :
    Backend.run (.cbF cb) (ws.map Op.write) =
      (List.replicate ws.length Out.ok,
        .ok (.cbF { cb with log := cb.log ++ ws, calls := cb.calls + ws.length })) ∧
    cb.extend ws = (.ok, { cb with log := cb.log ++ ws, calls := cb.calls + ws.length }) :=
  ⟨Backend.cbF_writes ws cb h, Callback.extend_ok ws cb h⟩

/-- `extend_from_iter` stops at the k-th call when that is the first to fail (`k = pre.length`):
    the words before it are delivered, the failing word is consumed and lost, `post` stays in
    the iterator -/
theorem C17_callback_extend_stops (cb : Callback) (pre : List Nat) (w : Nat) (post : List Nat)
    (hpre : ∀ i, i < pre.length → cb.failAt.contains (cb.calls + i) = false)
    (hk : cb.failAt.contains (cb.calls + pre.length) = true) :
    cb.extend (pre ++ w :: post) =
      (.extCbErr post.length,
        { cb with log := cb.log ++ pre, calls := cb.calls + pre.length + 1 }) :=
  Callback.extend_fail_kth pre cb w post hpre hk

example : (Callback.mk [] 0 [2]).extend ([1, 2] ++ 3 :: [4, 5]) = (.extCbErr 2, ⟨[1, 2], 3, [2]⟩) :=
  C17_callback_extend_stops ⟨[], 0, [2]⟩ [1, 2] 3 [4, 5] (by decide) (by decide)

/-- `InfallibleCallbackWriteWords`: writes and `extend_from_iter` cannot fail and deliver every
    word once, in order -/
theorem C17_callback_infallible (cb : Callback) (h : cb.failAt = []) (ws : List Nat) :
    Backend.run (.cbI cb) (ws.map Op.write) =
      (List.replicate ws.length Out.ok,
        .ok (.cbI { cb with log := cb.log ++ ws, calls := cb.calls + ws.length })) ∧
    Backend.step (.cbI cb) (.extend ws) =
      .ok (.ok, .cbI { cb with log := cb.log ++ ws, calls := cb.calls + ws.length }) :=
  ⟨Backend.cbI_writes ws cb h, Backend.cbI_extend cb h ws⟩

example := C17_callback_infallible ⟨[9], 1, []⟩ rfl [1, 2, 3]

example :=
  C17_callback ⟨[], 0, [5]⟩ [1, 2, 3] (by decide)

/-! ## temporary views, `…_mut` constructors, conversion traits, `into_inner`

`Backend.xstep` is what the driver runs for `as_view` / `as_mut_view` / `cloned` /
`into_inner`; the model functions are `Cursor.asView`, `asMutView`, `cloned`, `newAtPosMut`,
`newAtWriteEndMut`, `intoReadWords…`, `asReadWords…`, `…SeekReadWords…`, `Callback.intoInner`.
That the real methods behave like these functions is checked by correspondence (families
"views", "conversions") and by the oracles; the theorems state what the model says. -/

/-- `new_at_pos_mut` / `new_at_write_end_mut` are `new_at_pos` / `new_at_write_end` -/
theorem C17_new_at_mut_eq (buf : List Nat) (p : Nat) :
    Cursor.newAtPosMut buf p = Cursor.newAtPos buf p ∧
    Cursor.newAtWriteEndMut buf = Cursor.newAtWriteEnd buf :=
  ⟨rfl, rfl⟩

/-- a view / copy starts as the same words at the same position -/
theorem C17_view_start (k : Backend.ViewKind) (c : Cursor) : Backend.viewStart k c = c := by
  cases k <;> rfl

/-- **`as_view` and `cloned` read / seek (and, for the copy, write) exactly like the original
    at the same position, and leave the original untouched** -/
theorem C17_view_like_original (k : Backend.ViewKind) (hk : k ≠ .mutable) (s : Cur) (prog : List Op) :
    Backend.Cur.viewStep k s prog =
      match Cur.run (Backend.viewWritable k) (.fwd s.inner) prog with
      | (outs, .ok _) => .ok (outs, s)
      | (_, .error f) => .error f := by
  unfold Backend.Cur.viewStep
  rw [C17_view_start]
  cases h : Cur.run (Backend.viewWritable k) (.fwd s.inner) prog with
  | mk outs r =>
    cases r with
    | error f => rfl
    | ok final =>
      cases k with
      | mutable => exact absurd rfl hk
      | shared => cases s <;> rfl
      | cloned => cases s <;> rfl

/-- **writes through `as_mut_view` land in the parent buffer**: the view answers like a writable
    cursor at the same position; afterwards the parent holds the words the view ended with, at
    its own unchanged position -/
theorem C17_as_mut_view_writes_land (s : Cur) (prog : List Op) :
    Backend.Cur.viewStep .mutable s prog =
      match Cur.run true (.fwd s.inner) prog with
      | (outs, .ok final) =>
        .ok (outs, match s with
          | .fwd c => .fwd { c with buf := final.inner.buf }
          | .rev r => .rev ⟨{ r.inner with buf := final.inner.buf }⟩)
      | (_, .error f) => .error f := by
  unfold Backend.Cur.viewStep
  rw [C17_view_start]
  rfl

/-- under the invariant a view program of trait methods never faults, and the parent keeps
    its invariant (the view cannot change the buffer length) -/
theorem C17_as_mut_view_keeps_inv (s : Cur) (hI : s.Inv) (prog : List Op)
    (hp : ∀ op ∈ prog, ∀ ws, op ≠ .bmSet ws) :
    ∃ outs s', Backend.Cur.viewStep .mutable s prog = .ok (outs, s') ∧ s'.Inv ∧
      s'.inner.pos = s.inner.pos ∧ s'.inner.buf.length = s.inner.buf.length := by
  have hI' : (Cur.fwd s.inner).Inv := hI
  obtain ⟨outs, final, h1, _, h3⟩ := Cur.run_len true prog (.fwd s.inner) hI' hp
  have h3' : final.inner.buf.length = s.inner.buf.length := h3
  rw [C17_as_mut_view_writes_land, h1]
  cases s with
  | fwd c =>
    refine ⟨outs, _, rfl, ?_, rfl, h3'⟩
    have : c.pos ≤ c.buf.length := hI
    show c.pos ≤ final.inner.buf.length
    rw [h3']; exact this
  | rev r =>
    refine ⟨outs, _, rfl, ?_, rfl, h3'⟩
    have : r.inner.pos ≤ r.inner.buf.length := hI
    show r.inner.pos ≤ final.inner.buf.length
    rw [h3']; exact this

example : Backend.xstep (.cur true (.fwd ⟨[1, 2, 3, 4], 1⟩)) (.view .mutable [.write 9, .readS, .raw]) =
    .ok (.many [.ok, .word (some 9), .dump "fwd" [1, 9, 3, 4] 1], .cur true (.fwd ⟨[1, 9, 3, 4], 1⟩)) := rfl

/-- **conversion traits**: the `Stack` flavours of `IntoReadWords`, `AsReadWords`,
    `IntoSeekReadWords`, `AsSeekReadWords` are `Cursor::new_at_write_end`, the `Queue` flavours
    `Cursor::new_at_write_beginning` -/
theorem C17_conversions (buf : List Nat) :
    Cursor.intoReadWordsStack buf = Cursor.newAtWriteEnd buf ∧
    Cursor.asReadWordsStack buf = Cursor.newAtWriteEnd buf ∧
    Cursor.intoSeekReadWordsStack buf = Cursor.newAtWriteEnd buf ∧
    Cursor.asSeekReadWordsStack buf = Cursor.newAtWriteEnd buf ∧
    Cursor.intoReadWordsQueue buf = Cursor.newAtWriteBeginning buf ∧
    Cursor.asReadWordsQueue buf = Cursor.newAtWriteBeginning buf ∧
    Cursor.intoSeekReadWordsQueue buf = Cursor.newAtWriteBeginning buf ∧
    Cursor.asSeekReadWordsQueue buf = Cursor.newAtWriteBeginning buf :=
  ⟨rfl, rfl, rfl, rfl, rfl, rfl, rfl, rfl⟩

/-- `as_read_words` (Stack) of a `Vec` reads it as a stack from its end, the `Queue` flavour
    reads it in order from the start; then end-of-data -/
theorem C17_as_read_words_reads (buf : List Nat) (m : Nat) :
    (Cur.run false (.fwd (Cursor.asReadWordsStack buf)) (List.replicate (buf.length + m) Op.readS)).1 =
      buf.reverse.map (fun w => Out.word (some w)) ++ List.replicate m (Out.word none) ∧
    (Cur.run false (.fwd (Cursor.asReadWordsQueue buf)) (List.replicate (buf.length + m) Op.readQ)).1 =
      buf.map (fun w => Out.word (some w)) ++ List.replicate m (Out.word none) := by
  have hs := (C17_cursor_reads_view false (.fwd (Cursor.asReadWordsStack buf))
    (by simp [Cur.Inv, Cur.inner, Cursor.Inv, Cursor.asReadWordsStack, Cursor.newAtWriteEnd]) m).1
  have hq := (C17_cursor_reads_view false (.fwd (Cursor.asReadWordsQueue buf))
    (by simp [Cur.Inv, Cur.inner, Cursor.Inv, Cursor.asReadWordsQueue, Cursor.newAtWriteBeginning]) m).2
  simp only [Cur.stackView, Cursor.asReadWordsStack, Cursor.newAtWriteEnd, List.take_length,
    List.length_reverse] at hs
  simp only [Cur.queueView, Cursor.asReadWordsQueue, Cursor.newAtWriteBeginning, List.drop_zero] at hq
  exact ⟨hs, hq⟩

example : (Cur.run false (.fwd (Cursor.asReadWordsStack [1, 2, 3])) (List.replicate (3 + 1) Op.readS)).1 =
    [.word (some 3), .word (some 2), .word (some 1), .word none] :=
  (C17_as_read_words_reads [1, 2, 3] 1).1

/-- `into_inner` returns the callback intact: calling it directly is the adapter's `write` -/
theorem C17_callback_into_inner (cb : Callback) (w : Nat) :
    Backend.xstep (.cbF cb) (.intoInnerCall w) = Backend.xstep (.cbF cb) (.base (.write w)) ∧
    Backend.xstep (.cbI cb) (.intoInnerCall w) = Backend.xstep (.cbI cb) (.base (.write w)) := by
  constructor
  · cases h : (cb.write w).1 <;> simp [Backend.xstep, Backend.step, Callback.intoInner, h]
  · simp [Backend.xstep, Backend.step, Callback.intoInner]

end CV.Backend.C17

#print axioms CV.Backend.C17.C17_constructors_inv
#print axioms CV.Backend.C17.C17_cursor_inv_preserved
#print axioms CV.Backend.C17.C17_cursor_lifo
#print axioms CV.Backend.C17.C17_cursor_fifo
#print axioms CV.Backend.C17.C17_cursor_fused
#print axioms CV.Backend.C17.C17_cursor_remaining_stack_exact
#print axioms CV.Backend.C17.C17_cursor_remaining_queue_exact
#print axioms CV.Backend.C17.C17_cursor_space_left_exact
#print axioms CV.Backend.C17.C17_d11_legacy_counterexample
#print axioms CV.Backend.C17.C17_cursor_queries_total
#print axioms CV.Backend.C17.C17_cursor_seek_pos
#print axioms CV.Backend.C17.C17_cursor_seek_refused_iff
#print axioms CV.Backend.C17.C17_cursor_seek_accepted
#print axioms CV.Backend.C17.C17_into_reversed_mirror
#print axioms CV.Backend.C17.C17_reverse_bisim
#print axioms CV.Backend.C17.C17_driver_runs_cur
#print axioms CV.Backend.C17.C17_vec_lifo
#print axioms CV.Backend.C17.C17_vec_remaining_exact_fused
#print axioms CV.Backend.C17.C17_vec_seek
#print axioms CV.Backend.C17.C17_smallvec_refines_vec
#print axioms CV.Backend.C17.C17_iter_fallible
#print axioms CV.Backend.C17.C17_iter_infallible
#print axioms CV.Backend.C17.C17_iter_fused
#print axioms CV.Backend.C17.C17_callback
#print axioms CV.Backend.C17.C17_callback_extend_stops
#print axioms CV.Backend.C17.C17_callback_infallible
#print axioms CV.Backend.C17.C17_cursor_seek_back_history
#print axioms CV.Backend.C17.C17_cursor_len_constant
#print axioms CV.Backend.C17.C17_cursor_reads_view
#print axioms CV.Backend.C17.C17_cursor_write_overwrites
#print axioms CV.Backend.C17.C17_vec_seek_back
#print axioms CV.Backend.C17.C17_vec_seek_forward_refused
#print axioms CV.Backend.C17.C17_new_at_mut_eq
#print axioms CV.Backend.C17.C17_view_start
#print axioms CV.Backend.C17.C17_view_like_original
#print axioms CV.Backend.C17.C17_as_mut_view_writes_land
#print axioms CV.Backend.C17.C17_as_mut_view_keeps_inv
#print axioms CV.Backend.C17.C17_conversions
#print axioms CV.Backend.C17.C17_as_read_words_reads
#print axioms CV.Backend.C17.C17_callback_into_inner
