import CV.Proofs.ChainSafe
import CV.Proofs.ChainExample
/-!
# C20 (chain coder part) — no sequence of safe API calls reaches an unsafe precondition

## `unsafe` occurrences of `/repo/src/stream/chain.rs` and their model sites

| source (line of the `unsafe` keyword)                                  | model site (`CV/Model/Chain.lean`)            |
|------------------------------------------------------------------------|-----------------------------------------------|
| `decode_symbol`, l. 1070: `Word::NonZero::new_unchecked((hc << (W-P)) \| (word >> P))` | `Fault.ub "chain.dec.nonzero1"` in `takeChunk` |
| `decode_symbol`, l. 1089: `Word::NonZero::new_unchecked(hc >> P)`      | `Fault.ub "chain.dec.nonzero2"` in `takeChunk` |
| `encode_symbol`, l. 1179: `((hc << P) \| quantile).into_nonzero_unchecked()` | `Fault.ub "chain.enc.nonzero1"` in `putChunk` |
| `encode_symbol`, l. 1194: `(hc >> (W-P)).into_nonzero_unchecked()`     | `Fault.ub "chain.enc.nonzero2"` in `putChunk`  |
| `increase_precision`, l. 619, `change_precision`, l. 769: call of `unsafe fn increase_precision_unchecked` (l. 629) | `increasePrecision`; its contract (`NEW ≥ P`, `NEW ≤ W`, `S ≥ W + NEW`) is a set of compile-time facts, checked by the callers' `generic_static_asserts!` (`change_precision` only calls it for `NEW > P`); in the model they are the hypothesis `PrecOk W S q`; the body contains no unsafe operation, so there is no `Fault.ub` site |
| `decrease_precision`, l. 669, `change_precision`, l. 775: call of `unsafe fn decrease_precision_unchecked` (l. 678) | `decreasePrecision`; contract `NEW ≤ P`, `NEW > 0`, same remark |

Not unsafe but relied upon by the sites above: `ChainCoderHeads.compressed : Word::NonZero`
(type-level `hc ≠ 0`), and `Seek::seek`, which installs heads taken from `Pos::pos` of a coder
of the same type (so they satisfy the same invariant; `seek` is a constructor of `Reachable` /
`ReachableAny` below).  The verification hook `verif_from_raw` refuses `hc = 0`.
Memory-level behaviour of `Vec` is outside the model (stacks are lists).  Nothing else in
`chain.rs` is `unsafe`; no unsafe occurrence is left unmodelled.

All other `Fault`s of the model are panics of a checked build (overflow, `debug_assert!`,
`expect`), not UB; the theorems below exclude them too wherever the invariant holds.
-/
namespace CV.Chain.C20
open CV CV.Chain

variable {Sym : Type}

/-- **The four `new_unchecked` sites are unreachable from any state whose compressed head is a
    valid `Word::NonZero`** – for *every* entropy model (well-formed or not), every symbol,
    every remainders head and every content of the two stacks.  (This is why the complete
    raw-heads sweeps of the correspondence check never abort.) -/
theorem ub_sites_unreachable {c : Cfg} (hP : PrecOk c.W c.S c.P) (m : Model Sym) (x : Coder)
    (h1 : 1 ≤ x.heads.compressed) (h2 : x.heads.compressed < 2^c.W) (site : String) :
    decode c m x ≠ .error (.fault (.ub site)) ∧
    ∀ s, encode c m s x ≠ .error (.fault (.ub site)) :=
  ⟨decode_never_ub hP m h1 h2 site, fun s => encode_never_ub hP m s h1 h2 site⟩

/-- The constructors have no fault site at all (their result type is `Option Coder`); on
    arbitrary words they either refuse or establish the invariant. -/
theorem constructors_safe {c : Cfg} (hP : PrecOk c.W c.S c.P) (ws : List Nat) (hws : Words c.W ws) :
    (∀ x, fromBinary c ws = some x → Inv c x) ∧
    (∀ x, fromCompressed c ws = some x → Inv c x) ∧
    (∀ x, fromRemainders c ws = some x → Inv c x) :=
  ⟨fun _ h => (fromBinary_spec hP hws h).1, fun _ h => (fromCompressed_spec hP hws h).1,
   fun _ h => (fromRemainders_inv hP hws h).1⟩

/-- **No `Fault` of any kind** (UB, overflow, `debug_assert!`, loop fuel) from any call on a
    coder satisfying the invariant, with well-formed models: every result is `ok` or one of
    the documented error values. -/
theorem api_no_fault {c : Cfg} (hc : c.Valid) {m : Model Sym} (hm : m.WellFormed c.P)
    {x : Coder} (hx : Inv c x) :
    (∀ f, decode c m x ≠ .error (.fault f)) ∧
    (∀ s f, encode c m s x ≠ .error (.fault f)) ∧
    (∀ q f, PrecOk c.W c.S q → changePrecision c q x ≠ .error (.fault f)) ∧
    (∃ r, intoRemainders c x = .ok r) ∧
    (∀ f, intoCompressed c x ≠ .error (.fault f)) ∧
    (∀ f, intoBinary c x ≠ .error (.fault f)) := by
  have hv := CValid.of_valid hc
  have hP := hv.precOk
  have hW : 1 ≤ c.W := by obtain ⟨h1, h2, _⟩ := hP; omega
  have hr : x.heads.remainders ≠ 0 := by
    have := hx.1.2.2.1; have := pow_pos2 (c.S - c.W - c.P); omega
  refine ⟨?_, ?_, ?_, intoRemainders_no_fault hW x, ?_, ?_⟩
  · intro f h
    rcases decode_spec hv hm hx with ⟨herr, _⟩ | ⟨s, y, _, hdec, _⟩
    · rw [herr] at h; cases h
    · rw [hdec] at h; cases h
  · intro s f h
    cases hs : m.enc s with
    | none => simp [encode, hs] at h
    | some cp =>
      obtain ⟨cum, p⟩ := cp
      rcases encode_spec hv hm hx hs with ⟨herr, _⟩ | ⟨y, henc, _⟩
      · rw [herr] at h; cases h
      · rw [henc] at h; cases h
  · intro q f hq h
    rcases changePrecision_spec hP hq hx with ⟨herr, _⟩ | ⟨y, hcp, _⟩
    · rw [herr] at h; cases h
    · rw [hcp] at h; cases h
  · intro f h
    rcases intoCompressed_no_fault hW x with ⟨he, _⟩ | ⟨r, hok⟩
    · rw [he] at h; cases h
    · rw [hok] at h; cases h
  · intro f h
    rcases intoBinary_no_fault hW hr with he | ⟨r, hok⟩
    · rw [he] at h; cases h
    · rw [hok] at h; cases h

/-- Everything the public API can produce for a given `(Word, State)`: a coder of precision `P`
    obtained from arbitrary words by a constructor, or from a reachable coder by a successful
    `decode_symbol` / `encode_symbol` (well-formed model with `Probability::BITS = B`) or
    `change_precision`.  (A failing call returns an error and no new coder; `clone` yields
    the same value.) -/
inductive Reachable (Sym : Type) (W S : Nat) : Nat → Coder → Prop where
  | fromBinary {P : Nat} {ws : List Nat} {x : Coder} :
      PrecOk W S P → Words W ws → fromBinary ⟨W, S, P, P⟩ ws = some x → Reachable Sym W S P x
  | fromCompressed {P : Nat} {ws : List Nat} {x : Coder} :
      PrecOk W S P → Words W ws → fromCompressed ⟨W, S, P, P⟩ ws = some x → Reachable Sym W S P x
  | fromRemainders {P : Nat} {ws : List Nat} {x : Coder} :
      PrecOk W S P → Words W ws → fromRemainders ⟨W, S, P, P⟩ ws = some x → Reachable Sym W S P x
  | decode {P B : Nat} {m : Model Sym} {x y : Coder} {s : Sym} :
      Reachable Sym W S P x → CValid ⟨W, S, P, B⟩ → m.WellFormed P →
      decode ⟨W, S, P, B⟩ m x = .ok (s, y) → Reachable Sym W S P y
  | encode {P B : Nat} {m : Model Sym} {x y : Coder} {s : Sym} :
      Reachable Sym W S P x → CValid ⟨W, S, P, B⟩ → m.WellFormed P →
      encode ⟨W, S, P, B⟩ m s x = .ok y → Reachable Sym W S P y
  | changePrecision {P q : Nat} {x y : Coder} :
      Reachable Sym W S P x → PrecOk W S q →
      changePrecision ⟨W, S, P, P⟩ q x = .ok y → Reachable Sym W S q y
  /-- `Seek::seek` to `Pos::pos` of a reachable coder of the same type – whether it succeeds
      or fails half-way (compressed side already truncated) -/
  | seek {P : Nat} {x x' : Coder} :
      Reachable Sym W S P x → Reachable Sym W S P x' → Reachable Sym W S P (seek x (pos x')).1

/-- **Every reachable coder satisfies the invariant** (for any `B`: the invariant does not
    mention it). -/
theorem reachable_inv {W S P : Nat} {x : Coder} (h : Reachable Sym W S P x) (B : Nat) :
    PrecOk W S P ∧ Inv ⟨W, S, P, B⟩ x := by
  induction h with
  | fromBinary hP hw h => exact ⟨hP, (fromBinary_spec (c := ⟨W, S, _, _⟩) hP hw h).1⟩
  | fromCompressed hP hw h => exact ⟨hP, (fromCompressed_spec (c := ⟨W, S, _, _⟩) hP hw h).1⟩
  | fromRemainders hP hw h => exact ⟨hP, (fromRemainders_inv (c := ⟨W, S, _, _⟩) hP hw h).1⟩
  | decode _ hv hm hd ih =>
    refine ⟨ih.1, ?_⟩
    rcases decode_spec hv hm (x := _) ih.2 with ⟨herr, _⟩ | ⟨s', y', _, hdec, hy, _⟩
    · rw [herr] at hd; cases hd
    · rw [hdec] at hd; cases hd; exact hy
  | encode _ hv hm he ih =>
    refine ⟨ih.1, ?_⟩
    rename_i P' B' m' x' y' s' _
    cases hs : m'.enc s' with
    | none => simp [CV.Chain.encode, hs] at he
    | some cp =>
      obtain ⟨cum, p⟩ := cp
      rcases encode_spec hv hm (x := x') ih.2 hs with ⟨herr, _⟩ | ⟨y2, henc, hy, _⟩
      · rw [herr] at he; cases he
      · rw [henc] at he; cases he; exact hy
  | changePrecision _ hq hcp ih =>
    refine ⟨hq, ?_⟩
    rename_i P' q' x' y' _
    have hI : Inv ⟨W, S, P', P'⟩ x' := ih.2
    rcases changePrecision_spec (c := ⟨W, S, P', P'⟩) ih.1 hq hI with ⟨herr, _⟩ | ⟨y', h', hy, _⟩
    · rw [herr] at hcp; cases hcp
    · rw [h'] at hcp; cases hcp; exact hy
  | seek _ _ ih ih' => exact ⟨ih.1, seek_inv ih.2 ih'.2⟩

/-- **History-level C20**: on every coder reachable through the API, every further call – with
    any well-formed model of any admissible probability width, any symbol, any admissible new
    precision – returns `ok` or a documented error; in particular none of the four unsafe
    sites is ever reached with a violated precondition. -/
theorem reachable_no_fault {W S P : Nat} {x : Coder} (h : Reachable Sym W S P x)
    {B : Nat} (hc : (⟨W, S, P, B⟩ : Cfg).Valid) {m : Model Sym} (hm : m.WellFormed P) :
    (∀ f, decode ⟨W, S, P, B⟩ m x ≠ .error (.fault f)) ∧
    (∀ s f, encode ⟨W, S, P, B⟩ m s x ≠ .error (.fault f)) ∧
    (∀ q f, PrecOk W S q → changePrecision ⟨W, S, P, B⟩ q x ≠ .error (.fault f)) ∧
    (∃ r, intoRemainders ⟨W, S, P, B⟩ x = .ok r) ∧
    (∀ f, intoCompressed ⟨W, S, P, B⟩ x ≠ .error (.fault f)) ∧
    (∀ f, intoBinary ⟨W, S, P, B⟩ x ≠ .error (.fault f)) :=
  api_no_fault hc hm (reachable_inv h B).2

/-! ## invalid arguments: arbitrary (ill-formed) models, arbitrary symbols

C20 also covers calls with invalid arguments.  The unsafe sites only need the compressed head to
be a valid `Word::NonZero` and the compressed stack to consist of `Word`s (`WInv`); that much
survives every successful call whatever entropy model is supplied. -/

/-- **The `NonZero` head bound survives every `ok` step under an arbitrary model.** -/
theorem winv_preserved {c : Cfg} (hP : PrecOk c.W c.S c.P) (hBW : c.B ≤ c.W) (m : Model Sym)
    {x : Coder} (hx : WInv c x) :
    (∀ s y, decode c m x = .ok (s, y) → WInv c y) ∧
    (∀ s y, encode c m s x = .ok y → WInv c y) ∧
    (∀ q y, changePrecision c q x = .ok y → WInv (withP c q) y) ∧
    (∀ x', WInv c x' → WInv c (seek x (pos x')).1) :=
  ⟨fun _ _ h => decode_winv hP hx h, fun _ _ h => encode_winv hP hBW hx h,
   fun _ _ h => changePrecision_winv hx h, fun _ hx' => seek_winv hx hx'⟩

/-- Everything the public API can produce when the caller may pass **any** entropy model
    (`B ≤ W` is the trait bound `Probability: Into<Word>`, enforced by the compiler) and may
    `seek` to any position obtained from `pos` of such a coder of the same type. -/
inductive ReachableAny (Sym : Type) (W S : Nat) : Nat → Coder → Prop where
  | fromBinary {P : Nat} {ws : List Nat} {x : Coder} :
      PrecOk W S P → Words W ws → fromBinary ⟨W, S, P, P⟩ ws = some x → ReachableAny Sym W S P x
  | fromCompressed {P : Nat} {ws : List Nat} {x : Coder} :
      PrecOk W S P → Words W ws → fromCompressed ⟨W, S, P, P⟩ ws = some x → ReachableAny Sym W S P x
  | fromRemainders {P : Nat} {ws : List Nat} {x : Coder} :
      PrecOk W S P → Words W ws → fromRemainders ⟨W, S, P, P⟩ ws = some x → ReachableAny Sym W S P x
  | decode {P B : Nat} {m : Model Sym} {x y : Coder} {s : Sym} :
      ReachableAny Sym W S P x → decode ⟨W, S, P, B⟩ m x = .ok (s, y) → ReachableAny Sym W S P y
  | encode {P B : Nat} {m : Model Sym} {x y : Coder} {s : Sym} :
      ReachableAny Sym W S P x → B ≤ W → encode ⟨W, S, P, B⟩ m s x = .ok y →
      ReachableAny Sym W S P y
  | changePrecision {P q : Nat} {x y : Coder} :
      ReachableAny Sym W S P x → PrecOk W S q →
      changePrecision ⟨W, S, P, P⟩ q x = .ok y → ReachableAny Sym W S q y
  | seek {P : Nat} {x x' : Coder} :
      ReachableAny Sym W S P x → ReachableAny Sym W S P x' →
      ReachableAny Sym W S P (seek x (pos x')).1

theorem reachableAny_winv {W S P : Nat} {x : Coder} (h : ReachableAny Sym W S P x) (B : Nat) :
    PrecOk W S P ∧ WInv ⟨W, S, P, B⟩ x := by
  induction h with
  | fromBinary hP hw h => exact ⟨hP, (fromBinary_spec (c := ⟨W, S, _, _⟩) hP hw h).1.winv⟩
  | fromCompressed hP hw h => exact ⟨hP, (fromCompressed_spec (c := ⟨W, S, _, _⟩) hP hw h).1.winv⟩
  | fromRemainders hP hw h => exact ⟨hP, (fromRemainders_inv (c := ⟨W, S, _, _⟩) hP hw h).1.winv⟩
  | decode _ hd ih =>
    rename_i P' B' m' x' y' s' _
    exact ⟨ih.1, decode_winv (c := ⟨W, S, P', B'⟩) ih.1 ih.2 hd⟩
  | encode _ hB he ih =>
    rename_i P' B' m' x' y' s' _
    exact ⟨ih.1, encode_winv (c := ⟨W, S, P', B'⟩) ih.1 hB ih.2 he⟩
  | changePrecision _ hq hcp ih =>
    rename_i P' q' x' y' _
    have hI : WInv ⟨W, S, P', P'⟩ x' := ih.2
    exact ⟨hq, changePrecision_winv hI hcp⟩
  | seek _ _ ih ih' => exact ⟨ih.1, seek_winv ih.2 ih'.2⟩

/-- **`ub_sites_unreachable`, lifted to histories with arbitrary models**: whatever sequence of
    constructor / decode / encode / `change_precision` / `seek` calls produced the coder, and
    whatever models and symbols were passed along the way, the next `decode_symbol` /
    `encode_symbol` – again with any model, any symbol – does not reach a `new_unchecked(0)`. -/
theorem history_no_ub {W S P : Nat} {x : Coder} (h : ReachableAny Sym W S P x) (B : Nat)
    (m : Model Sym) (site : String) :
    decode ⟨W, S, P, B⟩ m x ≠ .error (.fault (.ub site)) ∧
    ∀ s, encode ⟨W, S, P, B⟩ m s x ≠ .error (.fault (.ub site)) := by
  obtain ⟨hP, h1, h2, _⟩ := reachableAny_winv h B
  exact ub_sites_unreachable (c := ⟨W, S, P, B⟩) hP m x h1 h2 site

/-! ## non-vacuity -/

/-- a reachable coder: `from_binary` on the example data, then one decoded symbol -/
example : ∃ x, Reachable Nat 8 16 3 x := by
  obtain ⟨x0, _, _, _, h0, _⟩ := exRun_binary
  exact ⟨x0, .fromBinary (by decide) exData_words h0⟩

example : exCfg.Valid ∧ Inv exCfg exCoder ∧ (tableModel [0, 1, 8]).WellFormed exCfg.P :=
  ⟨exCfg_valid, exCoder_inv, wf_two (by decide) (by decide)⟩

/-- the hypothesis of `ub_sites_unreachable` is strictly weaker than the invariant: a coder
    whose remainders head violates it still cannot reach an unsafe site -/
example : PrecOk exCfg.W exCfg.S exCfg.P ∧
    ¬ Inv exCfg { compressed := [], remainders := [], heads := { compressed := 255, remainders := 0 } } := by
  refine ⟨by decide, fun h => ?_⟩
  have := h.1.2.2.1
  revert this
  decide

/-- `ReachableAny` is inhabited, e.g. by a `seek` between two freshly constructed coders -/
example : ∃ x, ReachableAny Nat 8 16 3 x := by
  obtain ⟨x0, _, _, _, h0, _⟩ := exRun_binary
  exact ⟨_, .seek (.fromBinary (by decide) exData_words h0) (.fromBinary (by decide) exData_words h0)⟩

end CV.Chain.C20

#print axioms CV.Chain.C20.ub_sites_unreachable
#print axioms CV.Chain.C20.constructors_safe
#print axioms CV.Chain.C20.api_no_fault
#print axioms CV.Chain.C20.reachable_inv
#print axioms CV.Chain.C20.reachable_no_fault
#print axioms CV.Chain.C20.winv_preserved
#print axioms CV.Chain.C20.reachableAny_winv
#print axioms CV.Chain.C20.history_no_ub
