import CV.Proofs.QuantExamples
import CV.Proofs.QuantCatLink
import CV.Proofs.QuantFloatInstances
/-!
# C05 (component `quant`): all representations of one float-derived model are the same model

* eager vs lazy `…_fast`: both are `cdf i = min (h i) free + i` over the *same* integer sequence
  `h` (that the two float pipelines produce the same `h` is checked bit-for-bit by the native
  replicas: the `mono=` certificate compares `hE` and `hL`; proved by `decide` on the D4 table:
  `d4_hL_eq_hE`), so the encoders coincide
  (`C05_eager_enc_eq_lazy_enc`) and the lazy decoder returns what `cat`'s specification decoder
  returns on the eager table (`C05_lazy_dec_eq_spec`; the eager binary search is `cat`'s
  `Contiguous.dec_eq`) — under TB-F2 for the skip phase;
* the five `…_fast` representations (contiguous, non-contiguous encoder/decoder, contiguous and
  non-contiguous lookup) are built over the same `fast_quantized_cdf` items and have the same
  symbol table (`C05_fast_same_table`; their decoders/encoders are the labelled specification
  model of that table: `C03_ncdec_fast`, `C03_ncenc_fast`, `C03_lookup_fast`, `C03_nclookup_fast`);
* leakily quantised model: the symbol-table iterator lists exactly the encoder's answers, in
  order, for `min, …, max` (`C05_leaky_table`) — false before D1 (`C05_D1_counterexample`);
  the generic conversions (`to_generic_*`) consume this table and are component `cat`'s.

Label: **partial** only in the lazy decoder's skip phase (TB-F2).
-/
namespace CV.Quant
open CV

/-- **C05, eager.enc = lazy.enc** (no `Fault` on either side) -/
theorem C05_eager_enc_eq_lazy_enc {B P n : Nat} {h : Nat → Nat} (hP1 : 1 ≤ P) (hPB : P ≤ B)
    (hB : B ≤ 64) (hlen : lenOk P n = true) (tb : TBF1Fast h n) :
    ∃ cdf, fastCdf B P n (freeWeight B P n) h = .ok cdf ∧
      ∀ s, eagerEnc B cdf s = lazyEnc B P n (freeWeight B P n) h s ∧
        ∃ r, lazyEnc B P n (freeWeight B P n) h s = .ok r := by
  have ok := FastOk.of_lenOk hP1 hPB hB hlen
  have hf := freeWeight_eq ok
  exact ⟨_, fastCdf_eq ok hf, fun s =>
    ⟨eager_enc_eq_lazy_enc ok hf tb.mono s, _, lazyEnc_eq ok hf tb.mono s⟩⟩

example := C05_eager_enc_eq_lazy_enc (B := 16) (P := 12) (n := 4) (h := exH)
  (by decide) (by decide) (by decide) (by decide) exTBF1

/-- **C05, lazy.dec = the specification decoder on the eager table** (which is what the eager
    model's binary search computes: `Cat.Contiguous.dec_eq`) -/
theorem C05_lazy_dec_eq_spec {B P n : Nat} {h : Nat → Nat} {k0 : Nat → Nat} (hP1 : 1 ≤ P)
    (hPB : P ≤ B) (hB : B ≤ 64) (hlen : lenOk P n = true) (tb : TBF1Fast h n)
    (t2 : TBF2 P n (freeWeight B P n) h k0) {q : Nat} (hq : q < 2 ^ P) :
    lazyDec B P n (freeWeight B P n) h (k0 q) q
      = .ok (Cat.specDec (Cat.unwrap P (cdfList B P n (freeWeight B P n) h)) q) := by
  have ok := FastOk.of_lenOk hP1 hPB hB hlen
  have hf := freeWeight_eq ok
  obtain ⟨h1, h2, h3⟩ := t2 q hq
  obtain ⟨s, hs, hd⟩ := lazyDec_spec ok hB hf tb.mono hq h1 h2 h3
  rw [hd, unwrap_cdfList]
  have hv := (cdfList_valid (h := h) ok hf tb).2
  rw [unwrap_cdfList] at hv
  have hsn := hs.1
  have hbin : Cat.InBin (extList P n (freeWeight B P n) h) s q := by
    refine ⟨by rw [extList_length]; omega, ?_, ?_⟩
    · rw [extList_getD (by have := hs.1; omega)]; exact hs.2.1
    · rw [extList_getD (by have := hs.1; omega)]; exact hs.2.2
  have hidx : Cat.specIdx (extList P n (freeWeight B P n) h) q = s :=
    Cat.InBin.unique hv.2.2.2 (Cat.specIdx_inBin hv hq) hbin
  unfold Cat.specDec
  rw [hidx, extList_getD (by have := hs.1; omega), extList_getD (by have := hs.1; omega)]
  rfl

/-- real `f32` instance (`u8`, `P = 6`, the skip phase skips up to five symbols): for every
    quantile the lazy decoder equals the specification decoder on the eager table -/
example (q : Nat) (hq : q < 2 ^ 6) :
    lazyDec 8 6 6 (freeWeight 8 6 6) (lz.hE f32Ops 8) (lz.k0 f32Ops 8 q) q
      = .ok (Cat.specDec (Cat.unwrap 6 (cdfList 8 6 6 (freeWeight 8 6 6) (lz.hE f32Ops 8))) q) :=
  C05_lazy_dec_eq_spec (by decide) (by decide) (by decide) (by decide) lz_tbf1 lz_tbf2 hq

/-- **C05, all `…_fast` representations hold the same symbol table**: the contiguous model's,
    the non-contiguous decoder's and the non-contiguous lookup decoder's `symbol_table()` are the
    specification table of the same unwrapped cdf (with the given labels), and the hash table of
    the non-contiguous encoder holds exactly these rows -/
theorem C05_fast_same_table {Sym : Type} [DecidableEq Sym] [Inhabited Sym] {B P n : Nat}
    {h : Nat → Nat} (hP1 : 1 ≤ P) (hPB : P ≤ B) (hB : B ≤ 64) (hlen : lenOk P n = true)
    (tb : TBF1Fast h n) {syms : List Sym} (hs : syms.length = n) (hnd : syms.Nodup) :
    let free := freeWeight B P n
    let ext := extList P n free h
    let tbl := Cat.specTable (fun i => syms.getD i default) ext
    (Cat.Contiguous.table B ⟨cdfList B P n free h⟩ = .ok (Cat.specTable id ext)) ∧
    (∃ m, Cat.NcDec.fromSymbolsAndCdf B P syms (innerList P n free h) = .ok (some m) ∧
      m.table B = .ok tbl) ∧
    (∃ m, Cat.NcLookup.fromSymbolsAndCdf B P syms (innerList P n free h) = .ok (some m) ∧
      m.table B = .ok tbl) ∧
    (∃ m, Cat.NcEnc.fromSymbolsAndCdf B P syms (innerList P n free h) = .ok (some m) ∧
      m.tbl = tbl) := by
  intro free ext tbl
  have ok := FastOk.of_lenOk hP1 hPB hB hlen
  have hf := freeWeight_eq ok
  have hv := extList_valid (h := h) ok hf tb
  have hcv := cdfList_valid (h := h) ok hf tb
  have hl : syms.length + 1 = ext.length := by show _ = (extList P n free h).length; rw [extList_length]; omega
  refine ⟨?_, ?_, ?_, ?_⟩
  · have := Cat.Contiguous.table_eq (m := ⟨cdfList B P n free h⟩) hcv hPB
    rw [unwrap_cdfList] at this; exact this
  · obtain ⟨last, hm⟩ := ncdec_fast (free := free) (h := h) ok hs
    exact ⟨_, hm, Cat.NcDec.table_canon hv hl hPB⟩
  · obtain ⟨t, last, hm, _⟩ := nclookup_fast (h := h) ok hf tb hs
    exact ⟨_, hm, Cat.NcLookup.table_canon hv hl hPB⟩
  · obtain ⟨m, h1, h2, _⟩ := ncenc_fast ok hf tb hs hnd
    exact ⟨m, h1, h2⟩

example := C05_fast_same_table (B := 32) (P := 24) (n := 5) (h := d4.hE f32Ops 32)
  (syms := [7, 3, 9, 1, 4]) (by decide) (by decide) (by decide) (by decide) (d4_n ▸ d4_tbf1) rfl
  (by decide)

/-- **C05, leakily quantised model: iterated symbol table = direct queries** (D1) -/
theorem C05_leaky_table {m : LQ} {g : Int → Nat} (ok : m.Ok) (gk : GOk m g) :
    ∃ tbl, m.table (extL g) ((m.max - m.min).toNat + 1) m.min 0 = .ok tbl ∧
      tbl = tableSpec m g ((m.max - m.min).toNat + 1) m.min ∧
      tbl.length = (m.max - m.min).toNat + 1 ∧
      (∀ e ∈ tbl, m.enc (extL g) (extR g) e.1 = .ok (some (e.2.1, e.2.2))) ∧
      (∀ i (hi : i < tbl.length), (tbl[i]).1 = m.min + i) := by
  refine ⟨_, table_eq ok gk, rfl, ?_, fun e he => table_entries_enc ok gk he, ?_⟩
  · generalize (m.max - m.min).toNat + 1 = k
    generalize m.min = s
    induction k generalizing s with
    | zero => rfl
    | succ k ih => simp [tableSpec, ih]
  · generalize (m.max - m.min).toNat + 1 = k
    generalize m.min = s
    induction k generalizing s with
    | zero => intro i hi; simp [tableSpec] at hi
    | succ k ih =>
      intro i hi
      cases i with
      | zero => simp [tableSpec]
      | succ i =>
        simp only [tableSpec, List.getElem_cons_succ]
        have := ih (s + 1) i (by simp [tableSpec] at hi ⊢; omega)
        rw [this]; push_cast; omega

example : ∃ tbl, exLQ.table (extL exG) 7 (-3) 0 = .ok tbl ∧ tbl.length = 7 := by
  obtain ⟨tbl, h1, _, h3, _⟩ := C05_leaky_table exLQ_ok exG_ok
  exact ⟨tbl, h1, h3⟩

/-- the obligation fails for the code before D1: the old iterator's first entry on this instance
    is `(-3, 0, 1)` while the encoder answers `(0, 601)` for `-3` -/
theorem C05_D1_counterexample :
    exG (-3) + slack exLQ.t exLQ.B (-3 + 1) exLQ.min = 1 ∧
    exLQ.enc (extL exG) (extR exG) (-3) = .ok (some (0, 601)) := D1_counterexample

end CV.Quant

#print axioms CV.Quant.C05_eager_enc_eq_lazy_enc
#print axioms CV.Quant.C05_lazy_dec_eq_spec
#print axioms CV.Quant.C05_fast_same_table
#print axioms CV.Quant.C05_leaky_table
#print axioms CV.Quant.C05_D1_counterexample
