import Mathlib.Analysis.SpecialFunctions.Log.Base
import Mathlib.Tactic.Ring
import Mathlib.Tactic.Linarith
import Mathlib.Tactic.FieldSimp
import Mathlib.Tactic.Positivity
/-!
# C18 (diagnostics part) — the information-theoretic diagnostics equal their textbook definitions

`src/stream/model.rs` evaluates entropy, cross entropies and KL divergences of a model from its
fixed-point probabilities `p_i` (quanta of `2^-P`, with `Σ p_i = 2^P`, all `p_i > 0` — which is
what C03 proves of every constructible model) with a few algebraic shortcuts (one division by
`2^P` at the end, a shift by `P` instead of normalising every term).  Over ℝ (Mathlib's
`Real.logb 2`) the evaluated expressions are *equal* to the textbook definitions applied to
the exact probabilities `p_i / 2^P`.  What remains between this and the Rust result is only
floating-point rounding, which the harness oracle bounds against an independent
high-precision evaluation (DESIGN §6 C18, trusted-base item "floats").
-/
namespace CV.Diag
open Real

/-- exact probability of a bin with `p` quanta at precision `P` -/
noncomputable def prob (P : ℕ) (p : ℕ) : ℝ := (p : ℝ) / 2^P

/-- what `entropy_base2` evaluates: `P − (Σ p·log2 p) / 2^P` -/
noncomputable def entropyCode (P : ℕ) (ps : List ℕ) : ℝ :=
  (P : ℝ) - (ps.map (fun (p : ℕ) => (p : ℝ) * logb 2 (p : ℝ))).sum / 2^P
/-- textbook entropy `−Σ Pᵢ log2 Pᵢ` -/
noncomputable def entropySpec (P : ℕ) (ps : List ℕ) : ℝ :=
  -(ps.map (fun (p : ℕ) => prob P p * logb 2 (prob P p))).sum

/-- what `cross_entropy_base2(q)` evaluates: `Σ qᵢ·(P − log2 pᵢ)` -/
noncomputable def crossCode (P : ℕ) (ps : List ℕ) (qs : List ℝ) : ℝ :=
  (List.zipWith (fun (p : ℕ) (q : ℝ) => q * ((P : ℝ) - logb 2 (p : ℝ))) ps qs).sum
/-- textbook cross entropy `−Σ qᵢ log2 Pᵢ` -/
noncomputable def crossSpec (P : ℕ) (ps : List ℕ) (qs : List ℝ) : ℝ :=
  -(List.zipWith (fun (p : ℕ) (q : ℝ) => q * logb 2 (prob P p)) ps qs).sum

/-- what `reverse_cross_entropy_base2(q)` evaluates: `−(Σ pᵢ log2 qᵢ) / 2^P` -/
noncomputable def revCrossCode (P : ℕ) (ps : List ℕ) (qs : List ℝ) : ℝ :=
  -(List.zipWith (fun (p : ℕ) (q : ℝ) => (p : ℝ) * logb 2 q) ps qs).sum / 2^P
/-- textbook `−Σ Pᵢ log2 qᵢ` -/
noncomputable def revCrossSpec (P : ℕ) (ps : List ℕ) (qs : List ℝ) : ℝ :=
  -(List.zipWith (fun (p : ℕ) (q : ℝ) => prob P p * logb 2 q) ps qs).sum

/-- what `kl_divergence_base2(q)` evaluates: `Σ [qᵢ ≠ 0] qᵢ (log2 qᵢ − log2 pᵢ) + P` -/
noncomputable def klCode (P : ℕ) (ps : List ℕ) (qs : List ℝ) : ℝ :=
  (List.zipWith (fun (p : ℕ) (q : ℝ) => if q = 0 then 0 else q * (logb 2 q - logb 2 (p : ℝ))) ps qs).sum + P
/-- textbook `KL(q ‖ P) = Σ qᵢ log2 (qᵢ / Pᵢ)` (terms with `qᵢ = 0` vanish) -/
noncomputable def klSpec (P : ℕ) (ps : List ℕ) (qs : List ℝ) : ℝ :=
  (List.zipWith (fun (p : ℕ) (q : ℝ) => q * (logb 2 q - logb 2 (prob P p))) ps qs).sum

/-- what `reverse_kl_divergence_base2(q)` evaluates: `(Σ pᵢ (log2 pᵢ − log2 qᵢ)) / 2^P − P` -/
noncomputable def revKlCode (P : ℕ) (ps : List ℕ) (qs : List ℝ) : ℝ :=
  (List.zipWith (fun (p : ℕ) (q : ℝ) => (p : ℝ) * (logb 2 (p : ℝ) - logb 2 q)) ps qs).sum / 2^P - P
/-- textbook `KL(P ‖ q) = Σ Pᵢ (log2 Pᵢ − log2 qᵢ)` -/
noncomputable def revKlSpec (P : ℕ) (ps : List ℕ) (qs : List ℝ) : ℝ :=
  (List.zipWith (fun (p : ℕ) (q : ℝ) => prob P p * (logb 2 (prob P p) - logb 2 q)) ps qs).sum

theorem logb_prob {P p : ℕ} (hp : 0 < p) : logb 2 (prob P p) = logb 2 (p : ℝ) - P := by
  unfold prob
  have h1 : (p : ℝ) ≠ 0 := by exact_mod_cast (Nat.pos_iff_ne_zero.mp hp)
  rw [logb_div h1 (by positivity), logb_pow]
  simp

/-- partial sums: `Σ Pᵢ log2 Pᵢ = (Σ pᵢ log2 pᵢ)/2^P − P·(Σ pᵢ)/2^P` -/
theorem sum_prob_log (P : ℕ) (ps : List ℕ) (hpos : ∀ p ∈ ps, 0 < p) :
    (ps.map (fun (p : ℕ) => prob P p * logb 2 (prob P p))).sum
      = (ps.map (fun (p : ℕ) => (p : ℝ) * logb 2 (p : ℝ))).sum / 2^P - (P : ℝ) * ((ps.map (fun (p : ℕ) => (p : ℝ))).sum / 2^P) := by
  induction ps with
  | nil => simp
  | cons p ps ih =>
    have hp : 0 < p := hpos p List.mem_cons_self
    simp only [List.map_cons, List.sum_cons]
    rw [ih (fun q hq => hpos q (List.mem_cons_of_mem _ hq)), logb_prob hp]
    unfold prob
    have h2 : (2 : ℝ)^P ≠ 0 := by positivity
    field_simp
    ring

/-- **Entropy.** For a table with `Σ pᵢ = 2^P` and all `pᵢ > 0`, the evaluated expression equals
    the textbook entropy of the exact probabilities. -/
theorem entropy_eq (P : ℕ) (ps : List ℕ) (hpos : ∀ p ∈ ps, 0 < p) (hsum : ps.sum = 2^P) :
    entropyCode P ps = entropySpec P ps := by
  unfold entropyCode entropySpec
  rw [sum_prob_log P ps hpos]
  have hs : (ps.map (fun (p : ℕ) => (p : ℝ))).sum = (2 : ℝ)^P := by
    have : ((ps.sum : ℕ) : ℝ) = (ps.map (fun (p : ℕ) => (p : ℝ))).sum := by
      induction ps with
      | nil => simp
      | cons a l ih => simp [List.sum_cons]
    rw [← this, hsum]; push_cast; ring
  rw [hs]
  have h2 : (2 : ℝ)^P ≠ 0 := by positivity
  field_simp
  ring

/-- **Cross entropy** `H(q, model)`: termwise identity, no normalisation of `q` needed. -/
theorem cross_entropy_eq (P : ℕ) (ps : List ℕ) (qs : List ℝ) (hpos : ∀ p ∈ ps, 0 < p) :
    crossCode P ps qs = crossSpec P ps qs := by
  unfold crossCode crossSpec
  induction ps generalizing qs with
  | nil => simp
  | cons p ps ih =>
    cases qs with
    | nil => simp
    | cons q qs =>
      have hp : 0 < p := hpos p List.mem_cons_self
      simp only [List.zipWith_cons_cons, List.sum_cons]
      have := ih qs (fun r hr => hpos r (List.mem_cons_of_mem _ hr))
      rw [logb_prob hp]
      linarith

/-- **Reverse cross entropy** `H(model, q)`. -/
theorem reverse_cross_entropy_eq (P : ℕ) (ps : List ℕ) (qs : List ℝ) :
    revCrossCode P ps qs = revCrossSpec P ps qs := by
  unfold revCrossCode revCrossSpec
  have h2 : (2 : ℝ)^P ≠ 0 := by positivity
  have key : ∀ (ps : List ℕ) (qs : List ℝ),
      (List.zipWith (fun (p : ℕ) (q : ℝ) => prob P p * logb 2 q) ps qs).sum
        = (List.zipWith (fun (p : ℕ) (q : ℝ) => (p : ℝ) * logb 2 q) ps qs).sum / 2^P := by
    intro ps
    induction ps with
    | nil => intro qs; simp
    | cons p ps ih =>
      intro qs
      cases qs with
      | nil => simp
      | cons q qs =>
        simp only [List.zipWith_cons_cons, List.sum_cons]
        rw [ih qs]; unfold prob; field_simp
  rw [key]; ring

/-- **KL divergence** `KL(q ‖ model)` for a normalised reference distribution `q` of the same length
    (terms with `qᵢ = 0` contribute nothing on either side). -/
theorem kl_eq (P : ℕ) (ps : List ℕ) (qs : List ℝ) (hpos : ∀ p ∈ ps, 0 < p)
    (hlen : qs.length ≤ ps.length) (hq : qs.sum = 1) :
    klCode P ps qs = klSpec P ps qs := by
  unfold klCode klSpec
  have key : ∀ (ps : List ℕ) (qs : List ℝ), (∀ p ∈ ps, 0 < p) → qs.length ≤ ps.length →
      (List.zipWith (fun (p : ℕ) (q : ℝ) => q * (logb 2 q - logb 2 (prob P p))) ps qs).sum
        = (List.zipWith (fun (p : ℕ) (q : ℝ) => if q = 0 then 0 else q * (logb 2 q - logb 2 (p : ℝ))) ps qs).sum
          + (P : ℝ) * qs.sum := by
    intro ps
    induction ps with
    | nil =>
      intro qs _ hl
      have : qs = [] := List.eq_nil_of_length_eq_zero (by simpa using hl)
      subst this; simp
    | cons p ps ih =>
      intro qs hpos hl
      cases qs with
      | nil => simp
      | cons q qs =>
        have hp : 0 < p := hpos p List.mem_cons_self
        simp only [List.zipWith_cons_cons, List.sum_cons]
        rw [ih qs (fun r hr => hpos r (List.mem_cons_of_mem _ hr)) (by simpa using hl), logb_prob hp]
        by_cases h0 : q = 0
        · simp [h0]
        · simp only [h0, if_false]; ring
  rw [key ps qs hpos hlen, hq]; ring

/-- **Reverse KL divergence** `KL(model ‖ q)` for a table with `Σ pᵢ = 2^P` and a reference list of
    the same length. -/
theorem reverse_kl_eq (P : ℕ) (ps : List ℕ) (qs : List ℝ) (hpos : ∀ p ∈ ps, 0 < p)
    (hlen : ps.length = qs.length) (hsum : ps.sum = 2^P) :
    revKlCode P ps qs = revKlSpec P ps qs := by
  unfold revKlCode revKlSpec
  have h2 : (2 : ℝ)^P ≠ 0 := by positivity
  have key : ∀ (ps : List ℕ) (qs : List ℝ), (∀ p ∈ ps, 0 < p) → ps.length = qs.length →
      (List.zipWith (fun (p : ℕ) (q : ℝ) => prob P p * (logb 2 (prob P p) - logb 2 q)) ps qs).sum
        = (List.zipWith (fun (p : ℕ) (q : ℝ) => (p : ℝ) * (logb 2 (p : ℝ) - logb 2 q)) ps qs).sum / 2^P
          - (P : ℝ) * ((ps.map (fun (p : ℕ) => (p : ℝ))).sum / 2^P) := by
    intro ps
    induction ps with
    | nil => intro qs _ _; simp
    | cons p ps ih =>
      intro qs hpos hl
      cases qs with
      | nil => simp at hl
      | cons q qs =>
        have hp : 0 < p := hpos p List.mem_cons_self
        simp only [List.zipWith_cons_cons, List.sum_cons, List.map_cons]
        rw [ih qs (fun r hr => hpos r (List.mem_cons_of_mem _ hr)) (by simpa using hl), logb_prob hp]
        unfold prob
        field_simp
        ring
  have hs : (ps.map (fun (p : ℕ) => (p : ℝ))).sum = (2 : ℝ)^P := by
    have : ((ps.sum : ℕ) : ℝ) = (ps.map (fun (p : ℕ) => (p : ℝ))).sum := by
      clear hlen hsum hpos key
      induction ps with
      | nil => simp
      | cons a l ih => simp [List.sum_cons]
    rw [← this, hsum]; push_cast; ring
  rw [key ps qs hpos hlen, hs]
  field_simp

/-- `floating_point_symbol_table` divides cumulative and probability by
    `2 · 2^(P−1) = 2^P`: exactly the definition of the real-valued probabilities. -/
theorem whole_eq (P : ℕ) (hP : 1 ≤ P) : (2 : ℝ) * (2 : ℝ)^(P - 1) = 2^P := by
  rw [← pow_succ']; congr 1; omega

/-- non-vacuity: a three-symbol table at `P = 3` -/
example : ([1, 2, 5] : List ℕ).sum = 2^3 ∧ ∀ p ∈ ([1, 2, 5] : List ℕ), 0 < p := by decide

end CV.Diag

#print axioms CV.Diag.entropy_eq
#print axioms CV.Diag.cross_entropy_eq
#print axioms CV.Diag.reverse_cross_entropy_eq
#print axioms CV.Diag.kl_eq
#print axioms CV.Diag.reverse_kl_eq
#print axioms CV.Diag.whole_eq
