import CV.Properties.C12_range
import CV.Proofs.LogBound
import Mathlib.Tactic.Ring
/-!
# C12 (range coder) — logarithmic form of the size bound

`C12_range_size_bound_S` is multiplicative on naturals; here it is converted once to
`num_bits ≤ Σ log2(2^P_i/p_i) + Σ log2(1 + 2^-(S-W-P_i)) + S + 2W`, with the same rounding term as
the stack coder (`CV.LogBound`).
-/
namespace CV.Range
open CV.LogBound

/-- `(p, P, k)` summaries of the reference-coder steps `(P, cum, p)` -/
def summaries (c : Cfg) (l : List (Nat × Nat × Nat)) : List (ℕ × ℕ × ℕ) :=
  l.map (fun e => (e.2.2, e.1, c.S - c.W - e.1))

theorem sizeA_eq (c : Cfg) (l : List (Nat × Nat × Nat)) :
    sizeA c l = prodP (summaries c l) * prodK (summaries c l) := by
  induction l with
  | nil => simp [sizeA, summaries, prodP, prodK]
  | cons e l ih =>
    obtain ⟨P, cum, p⟩ := e
    simp only [sizeA, summaries, List.map_cons, prodP, prodK] at ih ⊢
    rw [ih]; ring

theorem sizeB_eq (c : Cfg) (l : List (Nat × Nat × Nat)) :
    sizeB c l = prodPrec (summaries c l) * prodK1 (summaries c l) := by
  induction l with
  | nil => simp [sizeB, summaries, prodPrec, prodK1]
  | cons e l ih =>
    obtain ⟨P, cum, p⟩ := e
    simp only [sizeB, summaries, List.map_cons, prodPrec, prodK1] at ih ⊢
    rw [ih]; ring

/-- **C12, queue coder, logarithmic form.** -/
theorem C12_range_size_bound_log {Sym : Type} {c : Cfg} (hc : RValid c) (msg : List (MStep Sym))
    (hn : MsgFits c msg.length) (hv : ∀ x ∈ msg, x.Valid c) :
    ∃ e nb, encodeMsg c (Encoder.empty c) msg = .ok e ∧ numBits c e = .ok nb ∧
      (nb : ℝ) ≤ info (summaries c (msg.map MStep.spec)) + rounding (summaries c (msg.map MStep.spec))
        + (c.S + 2 * c.W : ℕ) := by
  obtain ⟨e, nb, he, hnb, hle⟩ := C12_range_size_bound_S hc msg hn hv
  refine ⟨e, nb, he, hnb, ?_⟩
  rw [sizeA_eq, sizeB_eq] at hle
  have hp : ∀ s ∈ summaries c (msg.map MStep.spec), 0 < s.1 := by
    intro s hs
    simp only [summaries, List.mem_map] at hs
    obtain ⟨t, ⟨x, hx, rfl⟩, rfl⟩ := hs
    exact (MStep.Valid.cp_ok (hv x hx)).1
  have h := log_bound (2^nb) (2^(c.S + 2 * c.W)) _ hp (Nat.two_pow_pos _) (Nat.two_pow_pos _)
    (by rw [← Nat.mul_assoc, ← Nat.mul_assoc] at hle; exact hle)
  simp only [Nat.cast_pow, Nat.cast_ofNat, logb_two_pow] at h
  linarith

end CV.Range

#print axioms CV.Range.C12_range_size_bound_log
#print axioms CV.Range.sizeA_eq
#print axioms CV.Range.sizeB_eq
