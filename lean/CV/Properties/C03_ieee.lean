import CV.Proofs.SoftFloatMono
import CV.Properties.C19_quant
import CV.Properties.C03_quant
/-!
# C03 / C19 (component `quant`), float layer with **no float hypothesis**

`C03_quant` and `C19_quant` prove validity of the `…_fast` float constructors *from* the
hypothesis TB-F1 (`TBF1Fast`: the integer sequence produced by the float pipeline starts at zero
and never decreases).  Here the float pipeline itself is inside the logic: `fastSetup` — the
transcription of the prologue of `fast_quantized_cdf` and of the lazy model's constructor, generic
in the float operations — is instantiated with the software IEEE-754 model `CV.Model.SoftFloat`
(round-to-nearest-even `+ * /`, `<=`, saturating `as u{B}`, `u64 as F`, subnormals, signed zeros,
infinities, NaN; any binary format, in particular `binary32` and `binary64`), and TB-F1 becomes
the theorem `soft_tbf1`.  Consequently, for **every** table of floats (given as values of the
format: NaN, negative, infinite, subnormal entries included — the guards reject what they
reject), every optional normalisation (however wrong), every `1 ≤ P ≤ B ≤ 64`:

* `C03_ieee_tbf1`            — TB-F1 holds for whatever the prologue accepts;
* `C03_ieee_fast_cdf_valid`  — the constructor does not fault, its cdf is a `ValidCdf`, the
  contiguous model over it is `WellFormed` (tiling, no empty bin, none of probability one, exactly
  invertible);
* `C03_ieee_round_mono`, `C03_ieee_round_self` — the two facts about correctly rounded
  arithmetic everything rests on, as theorems about the executable rounding function.

What ties the software model to the hardware floats of the crate: the driver answers every
`quant.fast` / `quant.lazy` protocol line (and the `g` values of every `quant.leaky` line) with the
software model *and* with the native replica
and reports any difference (`CV/Driver/Quant.lean`), so the correspondence run compares the
crate's `f32`/`f64` arithmetic with `SoftFloat` bit for bit on every sampled table; the model's
single-operation agreement with native floats is additionally sampled by `sf.ops` lines.
Remaining trusted assumption for this clause: the platform's `f32`/`f64` `+ * /`, comparisons
and conversions are IEEE-754 round-to-nearest-even (what `SoftFloat` defines), outside the
sampled inputs.  The lazy decoder's float-only skip phase (TB-F2) is *not* covered here.
-/
namespace CV.Quant
open CV

/-- **TB-F1 proved**: for any binary format with a significand, any table, any normalisation -/
theorem C03_ieee_tbf1 (f : Fmt) (hp : 1 ≤ f.p) {B P : Nat} {probs : List SF} {norm : Option SF}
    {ctx : FastCtx SF} (h : fastSetup f.ops B P probs norm = some ctx) :
    TBF1Fast (ctx.hE f.ops B) ctx.n :=
  soft_tbf1 f hp h

/-- **C03/C19, `…_fast` constructors on IEEE floats, unconditionally**: accepted ⇒ no fault, a
    valid cdf, a well-formed model -/
theorem C03_ieee_fast_cdf_valid (f : Fmt) (hp : 1 ≤ f.p) {B P : Nat} {probs : List SF}
    {norm : Option SF} {ctx : FastCtx SF} (hP1 : 1 ≤ P) (hPB : P ≤ B) (hB : B ≤ 64)
    (hacc : fastSetup f.ops B P probs norm = some ctx) :
    ∃ cdf, fastCdf B P ctx.n ctx.free (ctx.hE f.ops B) = .ok cdf ∧ Cat.ValidCdf B P cdf ∧
      (contiguousModel B cdf).WellFormed P := by
  obtain ⟨cdf, h1, h2⟩ := C19_fast_accepted_valid f.ops hP1 hPB hB hacc (soft_tbf1 f hp hacc)
  refine ⟨cdf, h1, h2, ?_⟩
  apply Cat.WellFormed.congr (m2 := Cat.specModel (Cat.unwrap P cdf)) _ _
    (Cat.specModel_wellFormed h2.2)
  · intro s
    show Cat.okEnc _ s = _
    unfold Cat.okEnc
    rw [Cat.Contiguous.enc_eq (m := ⟨cdf⟩) h2 hPB s]; rfl
  · intro q hq
    show Cat.okDec _ q = _
    unfold Cat.okDec
    rw [Cat.Contiguous.dec_eq (m := ⟨cdf⟩) h2 hPB hq]; rfl

/-- the two formats the crate uses -/
theorem C03_ieee_f32_f64 {B P : Nat} {probs : List SF} {norm : Option SF} {ctx : FastCtx SF}
    (hP1 : 1 ≤ P) (hPB : P ≤ B) (hB : B ≤ 64) :
    (fastSetup sf32Ops B P probs norm = some ctx →
      ∃ cdf, fastCdf B P ctx.n ctx.free (ctx.hE sf32Ops B) = .ok cdf ∧ Cat.ValidCdf B P cdf) ∧
    (fastSetup sf64Ops B P probs norm = some ctx →
      ∃ cdf, fastCdf B P ctx.n ctx.free (ctx.hE sf64Ops B) = .ok cdf ∧ Cat.ValidCdf B P cdf) :=
  ⟨fun h => (C03_ieee_fast_cdf_valid binary32 (by decide) hP1 hPB hB h).imp fun _ h => ⟨h.1, h.2.1⟩,
   fun h => (C03_ieee_fast_cdf_valid binary64 (by decide) hP1 hPB hB h).imp fun _ h => ⟨h.1, h.2.1⟩⟩

/-- **round-to-nearest-even is monotone** (fractions compared by cross-multiplication; overflow
    to infinity is the top element) -/
theorem C03_ieee_round_mono (f : Fmt) (hp : 1 ≤ f.p) {a b c d : Nat} (hb : 0 < b) (hd : 0 < d)
    (h : a * d ≤ c * b) : MagLe (roundMag f a b) (roundMag f c d) :=
  roundMag_mono f hp hb hd h

/-- **a value of the format rounds to itself**, and every rounded result is a value of the format -/
theorem C03_ieee_round_self (f : Fmt) (hp : 1 ≤ f.p) :
    (∀ k, Rep f k → roundMag f k 1 = some k) ∧
    (∀ a b k, 0 < b → roundMag f a b = some k → Rep f k) :=
  ⟨fun _ hk => roundMag_self f hk, fun _ _ _ hb h => roundMag_rep f hp hb h⟩

/-- **C03, `LeakilyQuantizedDistribution` from the contract of the caller's `Distribution`**: if the
    values `distribution(s - 0.5)` (floats of the format: `cdf s`) lie in `[0, 1]` and do not
    decrease along the support — what a cumulative distribution function is — then the quantised
    model is `WellFormed` for every hint function, on IEEE arithmetic, with no hypothesis about the
    integer sequence.  (`free < 2^p`: `free_weight` is converted with the lossless `Into<F>`, so
    `Probability` has at most `p` bits: `u32`/`f64`, `u16`/`f32`.) -/
theorem C03_ieee_leaky_wellFormed (f : Fmt) (hp : 1 ≤ f.p) (hM : f.M ≤ f.expMask - 2) {m : LQ}
    (ok : m.Ok) (hfree : m.free < 2 ^ f.p) (cdf : Int → SF)
    (h01 : ∀ s, m.min < s → s ≤ m.max + 1 → SF.Unit01 f (cdf s))
    (hmono : ∀ s, m.min < s → s < m.max → SF.nnLe (cdf s) (cdf (s + 1))) (hint : Nat → Int) :
    (leakyModel m (fun s => f.toUInt m.B (f.mul (f.ofNat m.free) (cdf s))) hint).WellFormed m.P := by
  have hB : m.free < 2 ^ m.B := by
    have h1 := ok.hfree
    have h2 : 2 ^ m.P ≤ 2 ^ m.B := Nat.pow_le_pow_right (by decide) ok.hPB
    have h3 := two_pow_pos' m.P
    omega
  exact (C03_leaky_wellFormed ok (leaky_gok_of_cdf f hp hM hfree hB cdf h01 hmono) hint).1

/-- non-vacuity: a step-shaped CDF `(s + 3) / 8` (exact `binary64` values) on the support `-3..=3`
    at `i8`/`u16`/`P = 12` meets the hypotheses -/
example : (leakyModel exLQ (fun s => binary64.toUInt exLQ.B (binary64.mul (binary64.ofNat exLQ.free)
    (.fin false ((s + 3).toNat * 2 ^ (binary64.M - 3))))) (fun _ => 0)).WellFormed exLQ.P := by
  apply C03_ieee_leaky_wellFormed binary64 (by decide) (by decide) exLQ_ok (by decide)
  · intro s h1 h2
    have h1' : (-3 : Int) < s := h1
    have h2' : s ≤ 3 + 1 := h2
    show (s + 3).toNat * 2 ^ (binary64.M - 3) ≤ 2 ^ binary64.M
    have : (s + 3).toNat ≤ 8 := by omega
    calc (s + 3).toNat * 2 ^ (binary64.M - 3) ≤ 8 * 2 ^ (binary64.M - 3) := Nat.mul_le_mul_right _ this
      _ = 2 ^ (binary64.M - 3 + 3) := by rw [Nat.pow_add, Nat.mul_comm]
      _ = 2 ^ binary64.M := congrArg (2 ^ ·) (by decide : binary64.M - 3 + 3 = binary64.M)
  · intro s h1 h2
    have h1' : (-3 : Int) < s := h1
    show (s + 3).toNat * 2 ^ (binary64.M - 3) ≤ (s + 1 + 3).toNat * 2 ^ (binary64.M - 3)
    apply Nat.mul_le_mul_right
    omega

/-- both formats the crate uses satisfy the side condition on the exponent range -/
example : binary32.M ≤ binary32.expMask - 2 ∧ binary64.M ≤ binary64.expMask - 2 := by decide

/-! ### non-vacuity: the D4 `f32` table is accepted by the software model, bit for bit -/

/-- `[70.591324, 0.4555307, 49.606285, 0.45611787, 0.0]` as `binary32` bit patterns -/
def d4soft : List SF :=
  [0x428d2ec2, 0x3ee93b54, 0x42466cd6, 0x3ee98848, 0].map binary32.ofBits

theorem d4soft_accepted : (fastSetup sf32Ops 32 24 d4soft none).isSome = true := by decide +kernel

/-- the software model computes the same integer sequence as the hardware did on this table
    (`d4_unclamped_exceeds`: the last entry exceeds `free` by one — the D4 situation) -/
theorem d4soft_h : ((fastSetup sf32Ops 32 24 d4soft none).map
    fun c => (List.range 6).map (c.hE sf32Ops 32)) =
    some [0, 9778985, 9842089, 16714026, 16777212, 16777212] := by decide +kernel

example : ∃ ctx, fastSetup sf32Ops 32 24 d4soft none = some ctx ∧
    ∃ cdf, fastCdf 32 24 ctx.n ctx.free (ctx.hE sf32Ops 32) = .ok cdf ∧ Cat.ValidCdf 32 24 cdf := by
  have h := d4soft_accepted
  obtain ⟨ctx, hctx⟩ := Option.isSome_iff_exists.1 h
  exact ⟨ctx, hctx, (C03_ieee_f32_f64 (by decide) (by decide) (by decide)).1 hctx⟩

/-- rejected inputs are rejected by the software model too: a NaN entry, a negative entry -/
example : fastSetup sf32Ops 32 24 ([0x3f800000, 0x7fc00000, 0x3f800000].map binary32.ofBits) none = none := by
  decide +kernel
example : fastSetup sf32Ops 32 24 ([0x3f800000, 0xbf000000, 0x3f800000].map binary32.ofBits) none = none := by
  decide +kernel

end CV.Quant

#print axioms CV.Quant.C03_ieee_tbf1
#print axioms CV.Quant.C03_ieee_fast_cdf_valid
#print axioms CV.Quant.C03_ieee_f32_f64
#print axioms CV.Quant.C03_ieee_round_mono
#print axioms CV.Quant.C03_ieee_round_self
#print axioms CV.Quant.C03_ieee_leaky_wellFormed
#print axioms CV.Quant.d4soft_accepted
#print axioms CV.Quant.d4soft_h
