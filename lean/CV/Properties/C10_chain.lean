import CV.Proofs.ChainExample
import CV.Proofs.ChainTotal
/-!
# C10 (chain coder part) — decoding arbitrary data is total and stays inside the model
-/
namespace CV.Chain.C10
open CV CV.Chain

variable {Sym : Type}

/-- Whatever words a chain coder is constructed from – with any of the three constructors – it
    is either refused (`none`: not enough words / zero word on top) or satisfies the
    representation invariant, so that the totality theorems below apply.  The constructors
    themselves are total functions without any fault site. -/
theorem constructors_establish_inv {c : Cfg} (hc : c.Valid) (ws : List Nat) (hws : Words c.W ws) :
    (∀ x, fromBinary c ws = some x → Inv c x) ∧
    (∀ x, fromCompressed c ws = some x → Inv c x) ∧
    (∀ x, fromRemainders c ws = some x → Inv c x) := by
  have hP := (CValid.of_valid hc).precOk
  exact ⟨fun x h => (fromBinary_spec hP hws h).1, fun x h => (fromCompressed_spec hP hws h).1,
    fun x h => (fromRemainders_inv hP hws h).1⟩

/-- **`chain_decode_total`** (one step).  On a coder satisfying the invariant, `decode` with a
    well-formed model never faults – the two `NonZero::new_unchecked` sites are safe, the
    `Probability` subtraction and the `State` multiplication/addition do not overflow –; it
    either returns a symbol of the model's support and a coder satisfying the invariant, or
    the one documented error `OutOfCompressedData`, and that only with an empty compressed
    stack (raised before any state change). -/
theorem decode_total {c : Cfg} (hc : c.Valid) {m : Model Sym} (hm : m.WellFormed c.P)
    {x : Coder} (hx : Inv c x) :
    (decode c m x = .error .outOfData ∧ x.compressed = []) ∨
    ∃ s y, decode c m x = .ok (s, y) ∧ Inv c y ∧ ∃ cum p, m.enc s = some (cum, p) ∧ 0 < p := by
  rcases decode_spec (CValid.of_valid hc) hm hx with ⟨herr, h1, _⟩ | ⟨s, y, _, hdec, hy, _, _, ⟨⟨cum, p⟩, hcp⟩, _⟩
  · exact Or.inl ⟨herr, h1⟩
  · exact Or.inr ⟨s, y, hdec, hy, cum, p, hcp, (hm.1 _ _ _ hcp).1⟩

/-- **`chain_decode_total`** (any number of symbols, any well-formed models, any data the
    constructor accepted): the iterator yields symbols until it possibly reports
    `OutOfCompressedData`; no fault ever; every symbol returned is in the support of the model
    it was decoded with; the coder stays inside the invariant.  Termination ("never loops") is
    Lean's totality of `decodeSymbols`. -/
theorem decodeSymbols_total {c : Cfg} (hc : c.Valid) (ms : List (Model Sym)) (x : Coder)
    (hms : ∀ m ∈ ms, m.WellFormed c.P) (hx : Inv c x) :
    ((decodeSymbols c ms x).2.2 = none ∨ (decodeSymbols c ms x).2.2 = some .outOfData) ∧
    Inv c (decodeSymbols c ms x).2.1 ∧
    (decodeSymbols c ms x).1.length ≤ ms.length ∧
    ∀ (i : Nat) (s : Sym), (decodeSymbols c ms x).1[i]? = some s →
      ∃ m cum p, ms[i]? = some m ∧ m.enc s = some (cum, p) ∧ 0 < p := by
  have hv := CValid.of_valid hc
  obtain ⟨_, _, h3, h4⟩ := locality hv ms x hms hx
  refine ⟨h3, h4, ?_, decodeSymbols_support hv ms x hms hx⟩
  rw [locality_length hv ms x hms hx]
  exact quantiles_length_le _ _ _ _

/-- from raw words to symbols: both data constructors followed by any decoding -/
theorem decode_arbitrary_data {c : Cfg} (hc : c.Valid) (ws : List Nat) (hws : Words c.W ws)
    (ms : List (Model Sym)) (hms : ∀ m ∈ ms, m.WellFormed c.P) (x : Coder)
    (hx : fromBinary c ws = some x ∨ fromCompressed c ws = some x) :
    ((decodeSymbols c ms x).2.2 = none ∨ (decodeSymbols c ms x).2.2 = some .outOfData) ∧
    ∀ (i : Nat) (s : Sym), (decodeSymbols c ms x).1[i]? = some s →
      ∃ m cum p, ms[i]? = some m ∧ m.enc s = some (cum, p) ∧ 0 < p := by
  obtain ⟨h1, h2, _⟩ := constructors_establish_inv hc ws hws
  have hI : Inv c x := by
    rcases hx with h | h
    · exact h1 x h
    · exact h2 x h
  obtain ⟨a, _, _, d⟩ := decodeSymbols_total hc ms x hms hI
  exact ⟨a, d⟩

/-! ## non-vacuity -/

example : exCfg.Valid ∧ Words exCfg.W exData ∧
    (∃ x, fromBinary exCfg exData = some x) ∧ (∃ x, fromCompressed exCfg exData = some x) := by
  obtain ⟨x0, _, _, _, h1, _⟩ := exRun_binary
  obtain ⟨x1, _, _, _, h2, _⟩ := exRun_compressed
  exact ⟨exCfg_valid, exData_words, ⟨x0, h1⟩, ⟨x1, h2⟩⟩

/-- all-zero data is accepted by `from_binary` (and refused by `from_compressed`) -/
example : (∃ x, fromBinary exCfg [0, 0, 0] = some x) ∧ fromCompressed exCfg [0, 0, 0] = none :=
  ⟨⟨_, rfl⟩, rfl⟩

end CV.Chain.C10

#print axioms CV.Chain.C10.constructors_establish_inv
#print axioms CV.Chain.C10.decode_total
#print axioms CV.Chain.C10.decodeSymbols_total
#print axioms CV.Chain.C10.decode_arbitrary_data
