import CV.Proofs.RangeDecTotal
/-!
# C06 — The range encoder's output is the reference coder's output (component `range`)

`RangeSpec.words` (lean/CV/Spec/RangeSpec.lean, import-free) is the arbitrary-precision
description of range coding with the documented word order, renormalisation threshold and
sealing rule; it knows nothing about `bulk`, `situation`, carries or wrapping arithmetic.
-/
namespace CV.Range

/-- **C06**: for every message, `into_compressed` returns exactly `RangeSpec.words`. -/
theorem C06_range_words_eq_spec {Sym : Type} {c : Cfg} (hc : RValid c) (msg : List (MStep Sym))
    (hn : MsgFits c msg.length) (hv : ∀ x ∈ msg, x.Valid c) :
    ∃ e, encodeMsg c (Encoder.empty c) msg = .ok e ∧
      intoCompressed c e = .ok (RangeSpec.words c.W c.S (msg.map MStep.spec)) := by
  obtain ⟨e, he, _, _, hw⟩ := words_eq_spec hc msg hn hv
  exact ⟨e, he, hw⟩

/-- sealing any state that satisfies the invariant (reachable or not, also while words are
    held back) yields the reference's sealed words for the abstract state -/
theorem C06_range_seal_conforms {c : Cfg} (hc : RValid c) {e : Encoder} (hI : Inv c e)
    (hne : e.range ≠ maxState c) :
    intoCompressed c e = .ok (RangeSpec.sealWords c.W c.S (absE c e)) := by
  rw [intoCompressed_eq hc hI, seal_conforms hc hI hne]

/-- a whole message refines the reference run -/
theorem C06_range_run_refines {Sym : Type} {c : Cfg} (hc : RValid c) (msg : List (MStep Sym))
    (hn : MsgFits c msg.length) (hv : ∀ x ∈ msg, x.Valid c) :
    ∃ e, encodeMsg c (Encoder.empty c) msg = .ok e ∧
      absE c e = RangeSpec.run c.W c.S (RangeSpec.init c.S) (msg.map MStep.spec) := by
  obtain ⟨e, he, _, _, habs, _⟩ :=
    encodeMsg_ok msg (Encoder.empty c) (inv_empty hc) (fits_empty hn) hv
  exact ⟨e, he, by rw [habs, absE_empty]⟩

example : RValid exCfg := exCfg_valid
example : MsgFits exCfg exMsg.length := by decide
example : ∀ x ∈ exMsg, x.Valid exCfg := exMsg_valid
example : RangeSpec.words 8 16 (exMsg.map MStep.spec) = [127, 29, 86] := by decide
example : Inv exCfg exInverted ∧ exInverted.range ≠ maxState exCfg := ⟨exInverted_inv, by decide⟩

end CV.Range

#print axioms CV.Range.C06_range_words_eq_spec
#print axioms CV.Range.C06_range_seal_conforms
#print axioms CV.Range.C06_range_run_refines
