import CV.Proofs.QuantExamples
/-!
# C09 (component `quant`): impossible symbols are rejected by the float-derived models

`left_cumulative_and_probability` returns `None` for every symbol outside the declared support,
for **every** value of the symbol type, and the test precedes any narrowing conversion:

* lazy and eager categorical models compare the `usize` index with the table length;
* the leakily quantised model compares in `Symbol` (`symbol < min || symbol > max`) — symbols
  are integers in the model, so "every value of the symbol type" is "every integer";
* a support that does not fit `Probability` cannot be created at all (`C09_leaky_no_wide_support`,
  D10), so no in-support symbol can alias an out-of-support one after narrowing.

Strength of the statements: `C09_{lazy,eager,leaky}_out_of_support` unfold exactly the first
test of the respective model function — that *is* the content of the property for these models
(the range test precedes everything else, so it holds for arbitrary tables / distributions, with
the result `.ok none`, not merely "no `some`"); the substantive direction, that every in-support
symbol *is* encodable and that no aliasing support can be constructed, is
`C09_leaky_in_support` / `C09_leaky_no_wide_support` (and C03 for the categorical models).

(The coders' part of C09 — a failed encode leaves the coder intact — is in `C09_ans`, `C09_range`,
`C09_chain`.)  Label: **full**.
-/
namespace CV.Quant
open CV

/-- **C09, lazy categorical model** (no hypothesis on the float pipeline is needed) -/
theorem C09_lazy_out_of_support {B P n free : Nat} {h : Nat → Nat} {s : Nat} (hs : n ≤ s) :
    lazyEnc B P n free h s = .ok none := by
  unfold lazyEnc; rw [if_pos hs]

/-- **C09, eager categorical model built by `…_fast`** -/
theorem C09_eager_out_of_support {B : Nat} {cdf : List Nat} {s : Nat} (hs : cdf.length - 1 ≤ s) :
    eagerEnc B cdf s = .ok none := by
  unfold eagerEnc; rw [if_pos hs]

example : lazyEnc 16 12 4 4092 exH (2 ^ 32 + 3) = .ok none := C09_lazy_out_of_support (by decide)

/-- **C09, leakily quantised model**: zero probability outside `[min, max]`, whatever the
    distribution (`gl`, `gr` arbitrary, even faulty) -/
theorem C09_leaky_out_of_support {m : LQ} {gl gr : Ext} {s : Int} (hs : s < m.min ∨ s > m.max) :
    m.enc gl gr s = .ok none := by
  unfold LQ.enc; rw [if_pos hs]

example : exLQ.enc (extL exG) (extR exG) 4 = .ok none := C09_leaky_out_of_support (by decide)
example : exLQ.enc (extL exG) (extR exG) (-128) = .ok none := C09_leaky_out_of_support (by decide)

/-- … and conversely every symbol of the support is encodable (leakiness) -/
theorem C09_leaky_in_support {m : LQ} {g : Int → Nat} (ok : m.Ok) (gk : GOk m g) {s : Int}
    (h1 : m.min ≤ s) (h2 : s ≤ m.max) :
    ∃ c p, m.enc (extL g) (extR g) s = .ok (some (c, p)) ∧ 0 < p := by
  refine ⟨leftQ m g s, widthQ m g s, ?_, (widthQ_bounds ok gk h1 h2).1⟩
  rw [enc_eq ok gk]; unfold encQ; rw [if_pos ⟨h1, h2⟩]

example : ∃ c p, exLQ.enc (extL exG) (extR exG) 3 = .ok (some (c, p)) ∧ 0 < p :=
  C09_leaky_in_support exLQ_ok exG_ok (by decide) (by decide)

/-- **C09 / D10**: `LeakyQuantizer::new` refuses every support with more than `2^P` elements
    (in particular wider than `2^B`): the size is compared in a wide type, before narrowing -/
theorem C09_leaky_no_wide_support {t : SymTy} {B P : Nat} {min max : Int} (hPB : P ≤ B)
    (h : 2 ^ P < (max - min).toNat + 1) : ∃ f, LQ.new t B P min max = .error f :=
  LQ.new_rejects hPB (by omega)

example : ∃ f, LQ.new ⟨32, true⟩ 16 12 0 65541 = .error f :=
  C09_leaky_no_wide_support (by decide) (by decide)

end CV.Quant

#print axioms CV.Quant.C09_lazy_out_of_support
#print axioms CV.Quant.C09_eager_out_of_support
#print axioms CV.Quant.C09_leaky_out_of_support
#print axioms CV.Quant.C09_leaky_in_support
#print axioms CV.Quant.C09_leaky_no_wide_support
