import CV.Proofs.AnsMisc
import CV.Proofs.AnsBinary
import CV.Properties.C01_ans
/-!
# C18 (ANS part) — size, emptiness and exhaustion queries report exactly what is there
-/
namespace CV.Ans.C18
open CV CV.Ans

/-- `num_words`, `num_bits` and `iter_compressed` agree with what `into_compressed` returns at
    that moment — for every coder value, hence at every step of every history. -/
theorem sizes_exact (c : Cfg) {x : Coder} (hcap : x.cap = none) :
    ∃ ws, intoCompressed c x = some ws ∧ numWords c x = ws.length ∧
      numBits c x = c.W * ws.length ∧ iterCompressed c x = ws.reverse :=
  numWords_eq hcap

/-- a coder reports empty exactly when exporting it returns nothing
    (`maybe_exhausted` of the ANS decoder is `is_empty`) -/
theorem empty_iff_no_words {c : Cfg} (hc : c.Valid) {x : Coder} (hx : Inv c x) (hcap : x.cap = none) :
    isEmpty x = true ↔ intoCompressed c x = some [] :=
  isEmpty_iff hc hx hcap

/-- the number of valid payload bits of a coder loaded from raw binary data equals the size of
    that data, for every word list (zero words included) -/
theorem valid_bits_of_binary {c : Cfg} (hc : c.Valid) (ws : List Nat) (hws : ∀ w ∈ ws, w < 2^c.W) :
    numValidBits c (fromBinary c ws) = c.W * ws.length :=
  numValidBits_fromBinary hc ws hws


/-- does the history contain a pop below the base? -/
def noPopBelow {Sym : Type} : List (C01.Op Sym) → Prop
  | [] => True
  | .popBelow _ :: _ => False
  | _ :: ops => noPopBelow ops

theorem run_base_unchanged {Sym : Type} (W S : Nat) (ops : List (C01.Op Sym)) (h : noPopBelow ops)
    (st fin : C01.RunState Sym) (hr : C01.run W S st ops = .ok fin) : fin.base = st.base := by
  induction ops generalizing st with
  | nil => simp only [C01.run, Except.ok.injEq] at hr; rw [← hr]
  | cons op ops ih =>
    simp only [C01.run] at hr
    cases hstep : C01.step W S st op with
    | error e => rw [hstep] at hr; cases hr
    | ok st' =>
      rw [hstep] at hr
      have hb : st'.base = st.base := by
        cases op with
        | push e =>
          simp only [C01.step] at hstep
          split at hstep
          · simp only [Except.ok.injEq] at hstep; rw [← hstep]
          · cases hstep
        | pop =>
          simp only [C01.step] at hstep
          split at hstep
          · simp only [Except.ok.injEq] at hstep; rw [← hstep]
          · split at hstep
            · simp only [Except.ok.injEq] at hstep; rw [← hstep]
            · cases hstep
        | popBelow e => exact absurd h (by simp [noPopBelow])
        | reload =>
          simp only [C01.step] at hstep
          split at hstep
          · split at hstep
            · simp only [Except.ok.injEq] at hstep; rw [← hstep]
            · cases hstep
          · cases hstep
        | clone =>
          simp only [C01.step, Except.ok.injEq] at hstep; rw [← hstep]
      have hrest : noPopBelow ops := by
        cases op <;> first | exact h | exact absurd h (by simp [noPopBelow])
      rw [ih hrest st' hr, hb]

/-- **`maybe_exhausted` / `is_empty` after popping everything pushed onto an empty coder**: for any
    history of pushes, pops, reloads and clones starting from `AnsCoder::new()`, whenever every
    pushed symbol has been popped again the coder reports empty (and exports nothing). -/
theorem empty_after_popping_everything {Sym : Type} {W S : Nat} (hWS : 1 ≤ W ∧ 2 * W ≤ S)
    (ops : List (C01.Op Sym)) (hops : ∀ op ∈ ops, op.OK W S) (hnp : noPopBelow ops) :
    ∃ fin, C01.run W S { coder := Ans.empty, base := Ans.empty, ghost := [], outs := [] } ops = .ok fin ∧
      (fin.ghost = [] → isEmpty fin.coder = true ∧
        intoCompressed { W := W, S := S, P := 1, B := 1 } fin.coder = some []) := by
  have hempty : Inv { W := W, S := S, P := 1, B := 1 } Ans.empty :=
    ⟨Nat.two_pow_pos _, by simp [Ans.empty], by simp [Ans.empty]⟩
  obtain ⟨fin, h1, h2, _, _, h5⟩ := C01.run_refines_stack hWS ops hops
    { coder := Ans.empty, base := Ans.empty, ghost := [], outs := [] } hempty rfl
    (by intro e he; cases he) rfl
  refine ⟨fin, h1, fun hg => ?_⟩
  have hb := run_base_unchanged W S ops hnp _ fin h1
  have hc : fin.coder = Ans.empty := by rw [h5 hg, hb]
  rw [hc]
  refine ⟨rfl, ?_⟩
  rw [intoCompressed_none (c := { W := W, S := S, P := 1, B := 1 }) (x := Ans.empty) rfl, chunksBE_eq]
  show some (digitsBE W 0 (nchunks W 0) ++ []) = some []
  rw [nchunks_zero W (by omega), digitsBE_zero]; rfl

example : numValidBits { W := 8, S := 32, P := 1, B := 1 } (fromBinary { W := 8, S := 32, P := 1, B := 1 } [0, 0, 0, 7, 9]) = 40 := by
  rfl

end CV.Ans.C18

#print axioms CV.Ans.C18.sizes_exact
#print axioms CV.Ans.C18.empty_iff_no_words
#print axioms CV.Ans.C18.valid_bits_of_binary
#print axioms CV.Ans.C18.run_base_unchanged
#print axioms CV.Ans.C18.empty_after_popping_everything
