import CV.Proofs.AnsMisc
import CV.Proofs.AnsBinary
/-!
# C18 (ANS part) — size, emptiness and exhaustion queries report exactly what is there
-/
namespace CV.Ans.C18
open CV CV.Ans

/-- `num_words`, `num_bits` and `iter_compressed` agree with what `into_compressed` returns at
    that moment — for every coder value, hence at every step of every history. -/
theorem sizes_exact (c : Cfg) {x : Coder} (hcap : x.cap = none) :
    ∃ ws, intoCompressed c x = some ws ∧ numWords c x = ws.length ∧
      numBits c x = c.W * ws.length ∧ iterCompressed c x = ws.reverse :=
  numWords_eq (fun _ _ => trivial) hcap

/-- a coder reports empty exactly when exporting it returns nothing
    (`maybe_exhausted` of the ANS decoder is `is_empty`) -/
theorem empty_iff_no_words {c : Cfg} (hc : c.Valid) {x : Coder} (hx : Inv c x) (hcap : x.cap = none) :
    isEmpty x = true ↔ intoCompressed c x = some [] :=
  isEmpty_iff hc hx hcap

/-- the number of valid payload bits of a coder loaded from raw binary data equals the size of
    that data, for every word list (zero words included) -/
theorem valid_bits_of_binary {c : Cfg} (hc : c.Valid) (ws : List Nat) (hws : ∀ w ∈ ws, w < 2^c.W) :
    numValidBits c (fromBinary c ws) = c.W * ws.length :=
  numValidBits_fromBinary hc ws hws

example : numValidBits { W := 8, S := 32, P := 1, B := 1 } (fromBinary { W := 8, S := 32, P := 1, B := 1 } [0, 0, 0, 7, 9]) = 40 := by
  rfl

end CV.Ans.C18

#print axioms CV.Ans.C18.sizes_exact
#print axioms CV.Ans.C18.empty_iff_no_words
#print axioms CV.Ans.C18.valid_bits_of_binary
