import CV.Model.QuantFloatReplica
import CV.Proofs.QuantExamples
import CV.Proofs.QuantCatLink
import CV.Proofs.QuantFloatInstances
/-!
# C19 (component `quant`): the float constructors and `LeakyQuantizer::new` reject invalid input

`construct x = ok m → m is C03-valid`, and the listed rejections, for all inputs:

* `LeakyQuantizer::new`: accepted iff `2 ≤ size ≤ 2^P` (`C19_leaky_new_iff`) — empty, singleton
  and oversized supports, including supports wider than `2^B` (D10), are rejected, and an
  accepted quantizer satisfies `LQ.Ok`, from which C03 follows (`C03_leaky_wellFormed`);
* `…_fast` constructors (eager, lazy): rejected if the table has fewer than two or at least
  `2^P - 1` entries, if some entry is not `≥ 0` (negative or NaN, D14), or if the normalisation
  is not a positive normal float (`C19_fast_rejects`, for every IEEE operation table `FOps`);
  if accepted, validity follows from TB-F1 (`C19_fast_accepted_valid`) — the same **partial**
  label as C03;
* `…_perfect` constructors: the same rejections plus a normalisation so small that the scale
  overflows (D18–D20) (`C19_perfect_rejects`); an accepted result is validated by `cat`'s
  validator (`C03_perfect_contract`).
-/
namespace CV.Quant
open CV

/-- **C19, `LeakyQuantizer::new`** accepts exactly the supports with `2 ≤ size ≤ 2^P` -/
theorem C19_leaky_new_iff {t : SymTy} {B P : Nat} {min max : Int} (hPB : P ≤ B) :
    (∃ m, LQ.new t B P min max = .ok m) ↔ (min < max ∧ (max - min).toNat + 1 ≤ 2 ^ P) := by
  constructor
  · intro ⟨m, hm⟩
    by_cases h : min < max ∧ (max - min).toNat + 1 ≤ 2 ^ P
    · exact h
    · obtain ⟨f, hf⟩ := LQ.new_rejects (t := t) hPB h
      rw [hf] at hm; cases hm
  · intro ⟨h1, h2⟩
    unfold LQ.new
    rw [if_neg (by omega)]
    simp only [maxProb_eq hPB]
    have hp : 0 < 2 ^ P := Nat.pow_pos (by omega)
    rw [if_pos (by omega)]
    exact ⟨_, rfl⟩

/-- **C19, `LeakyQuantizer::new`: accepted ⇒ the invariant `LQ.Ok`** (hence C03 for every
    distribution satisfying `GOk`) -/
theorem C19_leaky_new_ok {t : SymTy} {B P : Nat} {min max : Int} {m : LQ} (hbits : 2 ≤ t.bits)
    (hP1 : 1 ≤ P) (hPB : P ≤ B) (hmin : t.inRange min) (hmax : t.inRange max)
    (h : LQ.new t B P min max = .ok m) : m.Ok := (LQ.new_ok hbits hP1 hPB hmin hmax h).1

example : exLQwide.Ok :=
  C19_leaky_new_ok (by decide) (by decide) (by decide) (by decide) (by decide) exLQwide_new
example : ¬ ∃ m, LQ.new ⟨32, true⟩ 16 12 0 65541 = .ok m := by
  rw [C19_leaky_new_iff (by decide)]; decide
example : ¬ ∃ m, LQ.new ⟨8, false⟩ 8 8 7 7 = .ok m := by
  rw [C19_leaky_new_iff (by decide)]; decide

/-- **C19, `…_fast` constructors reject** too short / too long tables, entries that are not
    `≥ 0` (D14), and normalisations that are not positive normal floats — for any `FOps`.
    (A *weak* statement by nature: it unfolds the guard sequence at the head of the replica
    `fastSetup`; its value is that the guards are there and come first — the replica itself is
    tied to the crate by the correspondence, including the directed invalid-argument lines.) -/
theorem C19_fast_rejects {F : Type} (o : FOps F) (B P : Nat) (probs : List F) (norm : Option F)
    (h : lenOk P probs.length = false ∨ probs.all (fun p => o.le o.zero p) = false ∨
      (∃ x, norm = some x ∧ (o.isNormal x = false ∨ o.signPos x = false))) :
    fastSetup o B P probs norm = none := by
  unfold fastSetup
  simp only
  rcases h with h | h | ⟨x, hx, h⟩
  · rw [h]; rfl
  · by_cases hl : lenOk P probs.length = true
    · rw [hl, h]; rfl
    · simp only [Bool.not_eq_true] at hl; rw [hl]; rfl
  · by_cases hl : lenOk P probs.length = true
    · by_cases ha : probs.all (fun p => o.le o.zero p) = true
      · rw [hl, ha, hx]
        simp only [Bool.not_true, Bool.false_eq_true, if_false]
        rcases h with h | h
        · rw [h]; rfl
        · rw [h]; simp
      · simp only [Bool.not_eq_true] at ha; rw [hl, ha]; rfl
    · simp only [Bool.not_eq_true] at hl; rw [hl]; rfl

/-- a single-entry table is rejected whatever the float type and its operations -/
example {F : Type} (o : FOps F) (x : F) (norm : Option F) : fastSetup o 16 12 [x] norm = none :=
  C19_fast_rejects o 16 12 [x] norm (Or.inl (by show lenOk 12 1 = false; decide))

/-- **C19, `…_fast` accepted ⇒ valid** (TB-F1 as hypothesis): whenever the guards pass, the
    constructor returns a cdf that satisfies `cat`'s `ValidCdf` — never a model with a zero or
    wrapped probability, never a `Fault` -/
theorem C19_fast_accepted_valid {F : Type} (o : FOps F) {B P : Nat} {probs : List F}
    {norm : Option F} {c : FastCtx F} (hP1 : 1 ≤ P) (hPB : P ≤ B) (hB : B ≤ 64)
    (hacc : fastSetup o B P probs norm = some c) (tb : TBF1Fast (c.hE o B) c.n) :
    ∃ cdf, fastCdf B P c.n c.free (c.hE o B) = .ok cdf ∧ Cat.ValidCdf B P cdf := by
  have hlen : lenOk P probs.length = true := by
    by_cases hl : lenOk P probs.length = true
    · exact hl
    · exfalso
      have := C19_fast_rejects o B P probs norm (Or.inl (by simpa using hl))
      rw [this] at hacc; cases hacc
  have hn : c.n = probs.length ∧ c.free = freeWeight B P probs.length := by
    unfold fastSetup at hacc
    simp only at hacc
    repeat' (split at hacc)
    all_goals first
      | (injection hacc with hacc; subst hacc; exact ⟨rfl, rfl⟩)
      | cases hacc
  have ok := FastOk.of_lenOk hP1 hPB hB hlen
  have hf := freeWeight_eq ok
  have tb' : TBF1Fast (c.hE o B) probs.length := hn.1 ▸ tb
  rw [hn.1, hn.2]
  exact ⟨_, fastCdf_eq ok hf, cdfList_valid ok hf tb'⟩

/-- a real instance: the D4 `f32` table is accepted (`d4_setup`), TB-F1 holds on it by `decide`
    (`d4_tbf1`), hence the constructed cdf is a `ValidCdf` — although the unclamped non-leaky
    part exceeds `free` on this table (`d4_unclamped_exceeds`) -/
example : ∃ cdf, fastCdf 32 24 d4.n d4.free (d4.hE f32Ops 32) = .ok cdf ∧ Cat.ValidCdf 32 24 cdf :=
  C19_fast_accepted_valid f32Ops (by decide) (by decide) (by decide) d4_setup d4_tbf1

/-- **C19, `…_perfect` constructors reject** short / oversized tables and negative entries
    anywhere in the table (D18).  (Also a *weak* statement: it unfolds the first guards of the
    replica `perfectPre`; that accepted results are valid is `cat`'s
    `C19_validator_accepts_only_valid`, through which every `…_perfect` result passes.) -/
theorem C19_perfect_rejects {F : Type} (o : FOps F) (toF64 : F → Float) (B P : Nat)
    (probs : List F)
    (h : probs.length < 2 ∨ probs.length > 2 ^ B - 1 ∨
      probs.any (fun p => o.le p o.zero && !(o.le o.zero p)) = true) :
    perfectPre o toF64 B P probs = .rejected := by
  unfold perfectPre
  simp only
  rcases h with h | h | h
  · rw [if_pos (by simp; left; exact h)]
  · rw [if_pos (by simp; right; exact h)]
  · by_cases hl : (decide (probs.length < 2) || decide (probs.length > 2 ^ B - 1)) = true
    · rw [if_pos hl]
    · rw [if_neg hl, if_pos h]

end CV.Quant

#print axioms CV.Quant.C19_leaky_new_iff
#print axioms CV.Quant.C19_leaky_new_ok
#print axioms CV.Quant.C19_fast_rejects
#print axioms CV.Quant.C19_fast_accepted_valid
#print axioms CV.Quant.C19_perfect_rejects
