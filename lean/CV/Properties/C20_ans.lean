import CV.Properties.C01_ans
import CV.Properties.C10_ans
import CV.Properties.C09_ans
/-!
# C20 (ANS part) — no arithmetic that is only correct because release builds wrap

`src/stream/stack.rs` contains no `unsafe` block. What remains of C20 for the ANS coder is the
clause about arithmetic: every plain `+ - * <<` of `encode_symbol` / `decode_symbol` is a
*checked* operation in the Impl model (`cadd`, `csub`, `cmul`, `shl`, `shr` return a `Fault` where a
checked build would panic), and the theorems below show that no reachable call faults — so the
checked and the wrapping build compute the same thing.
-/
namespace CV.Ans.C20
open CV CV.Ans

variable {Sym : Type}

/-- `encode_symbol` on an invariant coder with a well-formed `(cum, p)`: never a fault; the only
    non-`ok` outcome is the documented backend error of a bounded backend. -/
theorem encode_never_faults {c : Cfg} (hc : c.Valid) {x : Coder} (hx : Inv c x) {cum p : Nat}
    (hcp : CPok c.P cum p) : ∀ f, encodeCP c x cum p ≠ .error (.fault f) := by
  intro f h
  rcases C09.bounded_backend_error_or_ok hc hx hcp with ⟨h1, _, _⟩ | ⟨y, h1, _⟩
  · rw [h1] at h; cases h
  · rw [h1] at h; cases h

/-- `decode_symbol` on an invariant coder with a well-formed model: never a fault. -/
theorem decode_never_faults {c : Cfg} (hc : c.Valid) {m : Model Sym} (hm : m.WellFormed c.P)
    {x : Coder} (hx : Inv c x) : ∃ r, decode c m x = .ok r := by
  obtain ⟨s, y, h, _⟩ := C10.decode_total hc hm hx
  exact ⟨_, h⟩

end CV.Ans.C20

#print axioms CV.Ans.C20.encode_never_faults
#print axioms CV.Ans.C20.decode_never_faults
