import CV.Properties.C04_ans
import CV.Properties.C01_ans
import CV.Proofs.AnsMisc
/-!
# C10 (ANS part) — decoding arbitrary data is total and stays inside the model
-/
namespace CV.Ans.C10
open CV CV.Ans

variable {Sym : Type}

/-- Whatever words an ANS coder is constructed from (`from_compressed`, when it accepts them, or
    `from_binary`), the representation invariant holds — so the totality theorems below apply. -/
theorem constructors_establish_inv {c : Cfg} (hc : c.Valid) (ws : List Nat) (hws : ∀ w ∈ ws, w < 2^c.W) :
    (∀ x, fromCompressed c ws = some x → Inv c x ∧ x.cap = none) ∧
    (Inv c (fromBinary c ws) ∧ (fromBinary c ws).cap = none) := by
  refine ⟨fun x h => fromCompressed_inv hc ws hws h, ?_⟩
  obtain ⟨_, _, _, _, hinv, hcap, _, _⟩ := fromBinary_spec hc ws hws
  exact ⟨hinv, hcap⟩

/-- One decoding step on any coder satisfying the invariant never faults (no overflow, no
    truncation, no failed read), and the returned symbol lies in the support of the model
    (the model assigns it a non-zero probability). -/
theorem decode_total {c : Cfg} (hc : c.Valid) {m : Model Sym} (hm : m.WellFormed c.P)
    {x : Coder} (hx : Inv c x) :
    ∃ s y, decode c m x = .ok (s, y) ∧ Inv c y ∧ y.cap = x.cap ∧
      ∃ cum p, m.enc s = some (cum, p) ∧ 0 < p := by
  obtain ⟨hd, _, _⟩ := decode_spec hc hm hx
  obtain ⟨hinv, henc, _⟩ := encArith_decArith hc hm hx
  obtain ⟨hp, _, _, _⟩ := hm.1 _ _ _ henc
  exact ⟨_, _, hd, hinv, CV.Ans.C01.decArith_cap c m x, _, _, henc, hp⟩

/-- Any number of decoding steps with any well-formed models on any data: always succeeds. -/
theorem decodeAll_total {W S : Nat} (es : List (C04.MEntry Sym)) (hes : ∀ e ∈ es, e.OK W S)
    (x : Coder) (hx : ∀ c : Cfg, c.W = W → c.S = S → Inv c x) (hcap : x.cap = none) :
    ∃ ss z, C04.decodeAll W S x es = .ok (ss, z) ∧ ss.length = es.length := by
  obtain ⟨ss, z, h1, h2, _, _⟩ := C04.bits_back es hes x hx hcap
  exact ⟨ss, z, h1, h2⟩

end CV.Ans.C10

#print axioms CV.Ans.C10.constructors_establish_inv
#print axioms CV.Ans.C10.decode_total
#print axioms CV.Ans.C10.decodeAll_total
