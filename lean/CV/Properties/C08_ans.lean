import CV.Proofs.AnsMisc
import CV.Proofs.AnsBinary
/-!
# C08 (ANS part) — inspecting a coder never changes what it will output
-/
namespace CV.Ans.C08
open CV CV.Ans

/-- The `get_compressed()` guard shows exactly what `into_compressed()` would return at that
    moment, and after the guard is dropped the coder is *identical* to what it was (hence every
    later output is unchanged). Also on an empty coder and directly after a word boundary:
    there is no side condition. -/
theorem get_compressed_noop (c : Cfg) {x : Coder} (hcap : x.cap = none) :
    getCompressedThenDrop c x = some x ∧
    ∃ ws, intoCompressed c x = some ws ∧ iterCompressed c x = ws.reverse := by
  refine ⟨getCompressed_guard hcap, _, intoCompressed_none hcap, ?_⟩
  simp [iterCompressed, chunksBE]

/-- The raw-binary view: whenever `get_binary()` succeeds, dropping the guard restores the coder
    exactly, and the words shown are those the consuming `into_binary()` returns. -/
theorem get_binary_noop (c : Cfg) (hc : c.Valid) {x : Coder} (hcap : x.cap = none) {k v : Nat}
    (hst : x.state = 2^(k * c.W) + v) (hv : v < 2^(k * c.W)) :
    ∃ ws, getBinary c x = .ok ws ∧ intoBinary c x = .ok ws ∧ getBinaryThenDrop c x = some x := by
  refine ⟨_, getBinary_marker hc hcap hst hv, intoBinary_marker hc hcap hst hv, ?_⟩
  exact getBinary_guard hcap (getBinary_marker hc hcap hst hv)

/-- Bounded backends (`Cursor` of any capacity): whenever the guard can be created, dropping it
    restores the coder exactly. When it cannot (backend full), the repaired code (`fix:` D21)
    pops what it had written, which the model expresses by not producing a new coder at all;
    the correspondence check exercises exactly this path (`ansc … | getc`). -/
theorem get_compressed_noop_bounded (c : Cfg) {x y : Coder} (h : getCompressedThenDrop c x = some y) :
    y = x :=
  getCompressed_guard_any h

/-- if `get_binary()` fails, nothing was written -/
theorem get_binary_fail_noop (c : Cfg) {x : Coder} (hcap : x.cap = none) {ws : List Nat}
    (h : getBinary c x = .ok ws) : getBinaryThenDrop c x = some x :=
  getBinary_guard hcap h

/-- size and emptiness queries, `iter_compressed`, `clone`, `pos` are pure functions of the
    coder value in the model (`numWords`, `numBits`, `numValidBits`, `isEmpty`,
    `iterCompressed`, `pos` take a `Coder` and return no new coder), so the only inspections
    that touch the coder are the two guards above. Inserting any number of guard
    open/close pairs anywhere in a history therefore leaves every later state unchanged: -/
def inspectN (c : Cfg) : Nat → Coder → Coder
  | 0, y => y
  | n + 1, y => inspectN c n ((getCompressedThenDrop c y).getD y)

theorem inspect_erasure (c : Cfg) {x : Coder} (hcap : x.cap = none) (n : Nat) :
    inspectN c n x = x := by
  induction n with
  | zero => rfl
  | succ n ih =>
    simp only [inspectN, getCompressed_guard hcap, Option.getD_some]
    exact ih

end CV.Ans.C08

#print axioms CV.Ans.C08.get_compressed_noop
#print axioms CV.Ans.C08.get_binary_noop
#print axioms CV.Ans.C08.get_compressed_noop_bounded
#print axioms CV.Ans.C08.get_binary_fail_noop
#print axioms CV.Ans.C08.inspect_erasure
