import CV.Properties.C01_ans
import CV.Proofs.AnsAtomic
/-!
# C09 (ANS part) — impossible symbols are rejected, a failed encode leaves the coder intact
-/
namespace CV.Ans.C09
open CV CV.Ans

variable {Sym : Type}

/-- A symbol the model gives probability zero is rejected with `ImpossibleSymbol`; the model is
    functional, so "the coder is left intact" is the statement that no new coder is produced
    and the caller still holds `x` (cf. the correspondence check, which inspects the raw
    parts of the real coder after every failed call). -/
theorem impossible_rejected (c : Cfg) (m : Model Sym) (s : Sym) (x : Coder) (h : m.enc s = none) :
    encode c m s x = .error .impossible := by
  simp only [encode, h]

/-- With a bounded backend (`cap = some n`), a write that does not fit is reported as a backend
    error *before* any part of the coder changed; every encode either yields a new coder
    or one of the two documented errors — never a fault. -/
theorem bounded_backend_error_or_ok {c : Cfg} (hc : c.Valid) {x : Coder} (hx : Inv c x)
    {cum p : Nat} (hcp : CPok c.P cum p) :
    (encodeCP c x cum p = .error .backendFull ∧ flushCond c x p ∧ canWrite x = false) ∨
    (∃ y, encodeCP c x cum p = .ok y ∧ y = { encArith c { x with cap := none } cum p with cap := x.cap }) := by
  obtain ⟨hp, hsum, hp1⟩ := hcp
  obtain ⟨f1, f2, f3, f4, f5, f6⟩ := Valid.facts hc
  have hflush : (x.state >>> (c.S - c.P) ≥ p) ↔ flushCond c x p := by
    unfold flushCond
    rw [shr_eq]
    exact (Nat.le_div_iff_mul_le (Nat.two_pow_pos _))
  by_cases hf : flushCond c x p
  · by_cases hw : canWrite x = true
    · right
      -- same computation as with an unbounded backend
      have hx' : Inv c { x with cap := none } := hx
      have := encodeCP_spec hc hx' rfl (cum := cum) (p := p) ⟨hp, hsum, hp1⟩
      refine ⟨_, ?_, rfl⟩
      unfold encodeCP at this ⊢
      have hs : c.S - c.P < c.S := by omega
      simp only [shr, hs, if_true] at this ⊢
      have hcw' : canWrite { x with cap := none } = true := rfl
      simp only [hflush.mpr hf, hw, hcw', if_true] at this ⊢
      have hp0 : p ≠ 0 := by omega
      simp only [hp0, if_false] at this ⊢
      revert this
      cases cadd "ans.enc.quantile" c.B cum (narrow c.B (narrow c.W (x.state >>> c.W % p))) with
      | error f => intro h; cases h
      | ok q =>
        simp only
        cases shl "ans.enc.prefix" c.S (x.state >>> c.W / p) c.P with
        | error f => intro h; cases h
        | ok hi =>
          simp only
          intro h
          have := Except.ok.inj h
          rw [← this]
    · left
      have hw' : canWrite x = false := by simpa using hw
      refine ⟨?_, hf, hw'⟩
      unfold encodeCP
      have hs : c.S - c.P < c.S := by omega
      simp only [shr, hs, if_true, hflush.mpr hf, hw']
      rfl
  · right
    have hx' : Inv c { x with cap := none } := hx
    have := encodeCP_spec hc hx' rfl (cum := cum) (p := p) ⟨hp, hsum, hp1⟩
    refine ⟨_, ?_, rfl⟩
    unfold encodeCP at this ⊢
    have hs : c.S - c.P < c.S := by omega
    simp only [shr, hs, if_true] at this ⊢
    have hnf : ¬ (x.state >>> (c.S - c.P) ≥ p) := fun h => hf (hflush.mp h)
    simp only [hnf, if_false] at this ⊢
    have hp0 : p ≠ 0 := by omega
    simp only [hp0, if_false] at this ⊢
    revert this
    cases cadd "ans.enc.quantile" c.B cum (narrow c.B (narrow c.W (x.state % p))) with
    | error f => intro h; cases h
    | ok q =>
      simp only
      cases shl "ans.enc.prefix" c.S (x.state / p) c.P with
      | error f => intro h; cases h
      | ok hi =>
        simp only
        intro h
        have := Except.ok.inj h
        rw [← this]


/-! ## Atomicity on the statement-by-statement transcription

`encode` returns no coder on failure, so the theorem above cannot even express a partially
mutated coder.  `encodeSymbolM` (Model/Ans.lean) transcribes `encode_symbol` statement by
statement and returns the coder as the real code leaves it; these are the statements C09 means.
The driver answers every `enc` / `encnone` / batch line through `encodeSymbolM`. -/

/-- an impossible symbol is rejected and the coder is left exactly as it was -/
theorem impossible_leaves_coder_intact (c : Cfg) (m : Model Sym) (s : Sym) (x : Coder)
    (h : m.enc s = none) : encodeSymbolM c m s x = (x, .error .impossible) :=
  encodeSymbolM_impossible c m s x h

/-- a write refused by a full (bounded) backend is reported and the coder is left exactly as it
    was: `bulk.write(..)?` precedes every mutation of `state` -/
theorem backend_full_leaves_coder_intact (c : Cfg) (m : Model Sym) (s : Sym) (x : Coder)
    (h : encode c m s x = .error .backendFull) :
    encodeSymbolM c m s x = (x, .error .backendFull) :=
  encodeSymbolM_full c m s x h

/-- an attempt to encode `(symbol, model)` at configuration `c`, the caller keeping the coder
    whatever the outcome -/
def attempt (x : Coder) (a : Cfg × Model Sym × Sym) : Coder := (encodeSymbolM a.1 a.2.1 a.2.2 x).1

/-- **Impossible symbols inserted at any points of any encode history can be erased**: the coder
    after the history with the rejected attempts is the coder after the history without them
    (hence, by C01, everything encoded before and after still decodes). -/
theorem attempts_erasure (l : List (Cfg × Model Sym × Sym)) (x : Coder) :
    l.foldl attempt x = (l.filter (fun a => (a.2.1.enc a.2.2).isSome)).foldl attempt x := by
  induction l generalizing x with
  | nil => rfl
  | cons a l ih =>
    cases h : a.2.1.enc a.2.2 with
    | none =>
      have hx : attempt x a = x := by
        unfold attempt; rw [encodeSymbolM_impossible a.1 a.2.1 a.2.2 x h]
      simp only [List.foldl_cons, List.filter_cons, h, Option.isSome_none, hx]
      exact ih x
    | some cp =>
      simp only [List.foldl_cons, List.filter_cons, h, Option.isSome_some, if_true]
      exact ih _

/-- After a rejected symbol everything pushed before still pops: the history theorem of C01 with
    failed pushes interleaved (a failed push does not change the run state). -/
theorem history_with_failures {W S : Nat} (hWS : 1 ≤ W ∧ 2 * W ≤ S)
    (ops : List (C01.Op Sym)) (hops : ∀ op ∈ ops, op.OK W S)
    (st : C01.RunState Sym)
    (hbase : Inv { W := W, S := S, P := 1, B := 1 } st.base) (hcap : st.base.cap = none)
    (hghost : ∀ e ∈ st.ghost, e.OK W S)
    (hcoder : st.coder = C01.replay W S st.base st.ghost)
    (e : C01.Entry Sym) (hbad : e.m.enc e.s = none) :
    encode (e.cfg W S) e.m e.s st.coder = .error .impossible ∧
    ∃ fin, C01.run W S st ops = .ok fin ∧
      (fin.ghost.map (·.s), fin.outs) = C01.specRun (st.ghost.map (·.s)) ops st.outs :=
  ⟨impossible_rejected _ _ _ _ hbad,
   let ⟨fin, h1, _, _, h4, _⟩ := C01.run_refines_stack hWS ops hops st hbase hcap hghost hcoder
   ⟨fin, h1, h4⟩⟩

end CV.Ans.C09

#print axioms CV.Ans.C09.impossible_rejected
#print axioms CV.Ans.C09.bounded_backend_error_or_ok
#print axioms CV.Ans.C09.history_with_failures
#print axioms CV.Ans.C09.impossible_leaves_coder_intact
#print axioms CV.Ans.C09.backend_full_leaves_coder_intact
#print axioms CV.Ans.C09.attempts_erasure
