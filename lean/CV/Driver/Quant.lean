import CV.Driver.Util
import CV.Model.Quant
import CV.Model.QuantFloatReplica
import CV.Model.SoftFloat
/-!
Line protocol for component `quant` (float-derived entropy models).

```
quant.fast    <ctor> <f32|f64> <B> <P> <norm|-> <tbl> | dec q | sweep lo hi stride …   -> rejected | ok <s:c:p,…> mono=<b> valid=<b> | …
quant.perfect <f32|f64> <B> <P> <tbl> <weights>                  -> rejected | ok valid | ok invalid
quant.lazy    <f32|f64> <B> <P> <norm|-> <tbl> | op | op …       ops: enc s / dec q / table / sweep lo hi stride
quant.new     <sym> <B> <P> <min> <max>                          -> ok <free> | panic:other
quant.sfop    <f32|f64> <a> <b> <n>                              -> add mul div le u8 u16 u32 u64 ofnat   (bit patterns; `nan` for any NaN)
quant.leaky   <sym> <B> <P> <min> <max> <hint> <dist…> | op | …  ops: full rec / enc s rec / dec q inv rec /
                                                                      table rec / sweep lo hi stride
```
`<sym>` ∈ u8 i8 u16 i16 u32 i32 u64 i64; symbols are written as their two's-complement bit
pattern.  `rec` = `x:c,x:c,…` recorded values of `Distribution::distribution` (f64 bit
patterns, sorted by key), `inv` = `arg:kind:value` the recorded call of `Inverse::inverse`
(`kind` `f` = an `f64` result, `u` = a `usize` result), `<hint>` = `rec` or a constant
`kind:value`.  `<dist…>` (which distribution the harness instantiates) is ignored here.
-/
namespace CV.Driver.Quant
open CV CV.Driver CV.Quant

def sErrStr : SErr → String
  | .fault f => faultStr f
  | .missing => "missing"
  | .fuel => "fuel"

def showTriples (t : List (Nat × Nat × Nat)) : String :=
  if t.isEmpty then "-" else
  ",".intercalate (t.map fun (s, c, p) => toHex s ++ ":" ++ toHex c ++ ":" ++ toHex p)

/-- C03-validity of a symbol table at precision `P`: tiling of `[0, 2^P)` by non-empty
    intervals in order, at least two symbols (so none has probability one) -/
def validTable (P : Nat) (t : List (Nat × Nat × Nat)) : Bool :=
  let rec go (expect : Nat) : List (Nat × Nat × Nat) → Bool
    | [] => expect == 2 ^ P
    | (_, c, p) :: rest => c == expect && decide (0 < p) && decide (p < 2 ^ P) && go (c + p) rest
  decide (t.length ≥ 2) && go 0 t

def parseOptHex (s : String) : Option (Option Nat) :=
  if s == "-" then some none else (parseHex s).map some

/-! ### fast / lazy / perfect -/

def runOps {σ : Type} (op : σ → List String → Option (σ × String × Bool)) :
    σ → List (List String) → List String → List String
  | _, [], acc => acc.reverse
  | st, seg :: rest, acc =>
    match op st seg with
    | none => ("bad-op" :: acc).reverse
    | some (st', out, dead) =>
      if dead then (out :: acc).reverse else runOps op st' rest (out :: acc)

/-- the bin of `q` in an in-order symbol table (specification decoder) -/
def findBin : List (Nat × Nat × Nat) → Nat → Option (Nat × Nat × Nat)
  | [], _ => none
  | (s, c, p) :: rest, q => if c ≤ q ∧ q < c + p then some (s, c, p) else findBin rest q

/-- sweep over increasing quantiles, walking the table once -/
def fastSweep (hi stride : Nat) : (fuel : Nat) → List (Nat × Nat × Nat) → (q cnt : Nat) →
    (dg : UInt64) → String
  | 0, _, _, cnt, dg => toHex cnt ++ " " ++ toHex dg.toNat
  | _, [], q, cnt, dg => if q > hi then toHex cnt ++ " " ++ toHex dg.toNat else "no-bin"
  | fuel + 1, (s, c, p) :: rest, q, cnt, dg =>
    if q > hi then toHex cnt ++ " " ++ toHex dg.toNat
    else if q < c + p then
      fastSweep hi stride fuel ((s, c, p) :: rest) (q + stride) (cnt + 1)
        (digestStep (digestStep (digestStep dg s) c) p)
    else fastSweep hi stride fuel rest q cnt dg

/-- decoder ops on a `quant.fast` line (`hasDec = false` for the encoder-only model) -/
def fastOp (P : Nat) (hasDec : Bool) (t : List (Nat × Nat × Nat)) (seg : List String) :
    Option (String × Bool) :=
  if !hasDec then none else
  match seg with
  | ["dec", q] => do
      let q ← parseHex q
      if q ≥ 2 ^ P then none else
      match findBin t q with
      | some (s, c, p) => some (toHex s ++ " " ++ toHex c ++ " " ++ toHex p, false)
      | none => some ("no-bin", true)
  | ["sweep", lo, hi, stride] => do
      let lo ← parseHex lo
      let hi ← parseHex hi
      let stride ← parseHex stride
      if stride = 0 ∨ hi ≥ 2 ^ P then none else
      some (fastSweep hi stride ((hi - lo) / stride + t.length + 3) t lo 0 digestInit, false)
  | _ => none

def fastLine {F : Type} (o : FOps F) (B P : Nat) (norm : Option Nat) (tbl : List Nat)
    (hasDec : Bool) (ops : List (List String)) : String :=
  match fastSetup o B P (tbl.map o.ofBits) (norm.map o.ofBits) with
  | none => "rejected"
  | some c =>
    match fastCdf B P c.n c.free (c.hE o B) with
    | .error f => faultStr f
    | .ok cdf =>
      match tableOfCdf B 0 cdf with
      | .error f => faultStr f
      | .ok t =>
        let head := "ok " ++ showTriples t ++ " mono=" ++ (if c.monoCert o B then "1" else "0") ++
          " valid=" ++ (if validTable P t then "1" else "0")
        " | ".intercalate
          (runOps (fun (u : Unit) seg => (fastOp P hasDec t seg).map fun (out, dead) => (u, out, dead))
            () ops [head])

def perfectLine {F : Type} (o : FOps F) (toF64 : F → Float) (B P : Nat) (tbl w : List Nat) : String :=
  match perfectPre o toF64 B P (tbl.map o.ofBits) with
  | .rejected => "rejected"
  | .fault f => faultStr f
  | .proceeds => if perfectContract P tbl.length w then "ok valid" else "ok invalid"

structure LazySt (F : Type) where
  c : FastCtx F
  B : Nat
  P : Nat

def lazyEncStr {F : Type} (o : FOps F) (st : LazySt F) (s : Nat) : String × Bool :=
  match lazyEnc st.B st.P st.c.n st.c.free (st.c.hL o st.B) s with
  | .error f => (faultStr f, true)
  | .ok none => ("none", false)
  | .ok (some (c, p)) => (toHex c ++ " " ++ toHex p, false)

/-- decoder query plus the TB-F2 certificate: the symbol before the first one examined after
    the skip phase must not own the quantile -/
def lazyDecRaw {F : Type} (o : FOps F) (st : LazySt F) (q : Nat) : M (Nat × Nat × Nat) × Bool :=
  let k0 := st.c.k0 o st.B q
  let r := lazyDec st.B st.P st.c.n st.c.free (st.c.hE o st.B) k0 q
  let left := min (st.c.hE o st.B (k0 - 1)) st.c.free + (k0 - 1)
  (r, decide (k0 = 1 ∨ left ≤ q) && decide (1 ≤ k0 ∧ k0 ≤ st.c.n))

def lazyTable {F : Type} (o : FOps F) (st : LazySt F) : (fuel s : Nat) → List (Nat × Nat × Nat) → String
  | 0, _, acc => showTriples acc.reverse
  | fuel + 1, s, acc =>
    match lazyEnc st.B st.P st.c.n st.c.free (st.c.hL o st.B) s with
    | .error f => faultStr f
    | .ok none => "none"
    | .ok (some (c, p)) => lazyTable o st fuel (s + 1) ((s, c, p) :: acc)

def lazySweep {F : Type} (o : FOps F) (st : LazySt F) (hi stride : Nat) :
    (fuel q : Nat) → (cnt : Nat) → (dg : UInt64) → String
  | 0, _, cnt, dg => toHex cnt ++ " " ++ toHex dg.toNat
  | fuel + 1, q, cnt, dg =>
    if q > hi then toHex cnt ++ " " ++ toHex dg.toNat
    else
      match lazyDecRaw o st q with
      | (.error f, _) => faultStr f
      | (.ok (s, c, p), cert) =>
        if !cert then "cert-fail:tbf2"
        else lazySweep o st hi stride fuel (q + stride) (cnt + 1)
              (digestStep (digestStep (digestStep dg s) c) p)

def lazyOp {F : Type} (o : FOps F) (st : LazySt F) (seg : List String) : Option (String × Bool) :=
  match seg with
  | ["enc", s] => do
      let s ← parseHex s
      some (lazyEncStr o st s)
  | ["dec", q] => do
      let q ← parseHex q
      if q ≥ 2 ^ st.B then none else
      match lazyDecRaw o st q with
      | (.error f, _) => some (faultStr f, true)
      | (.ok (s, c, p), cert) =>
        some (toHex s ++ " " ++ toHex c ++ " " ++ toHex p ++ " tbf2=" ++ (if cert then "1" else "0"), false)
  | ["table"] => some (lazyTable o st st.c.n 0 [], false)
  | ["sweep", lo, hi, stride] => do
      let lo ← parseHex lo
      let hi ← parseHex hi
      let stride ← parseHex stride
      if stride = 0 ∨ hi ≥ 2 ^ st.B then none else
      some (lazySweep o st hi stride ((hi - lo) / stride + 2) lo 0 digestInit, false)
  | _ => none

def lazyLine {F : Type} (o : FOps F) (B P : Nat) (norm : Option Nat) (tbl : List Nat)
    (ops : List (List String)) : String :=
  match fastSetup o B P (tbl.map o.ofBits) (norm.map o.ofBits) with
  | none => "rejected"
  | some c =>
    let st : LazySt F := { c := c, B := B, P := P }
    let init := "ok mono=" ++ (if c.monoCert o B then "1" else "0")
    " | ".intercalate
      (runOps (fun st seg => (lazyOp o st seg).map fun (out, dead) => (st, out, dead)) st ops [init])

/-! ### leaky quantizer -/

def parseSymTy (s : String) : Option SymTy :=
  match s with
  | "u8" => some ⟨8, false⟩ | "i8" => some ⟨8, true⟩
  | "u16" => some ⟨16, false⟩ | "i16" => some ⟨16, true⟩
  | "u32" => some ⟨32, false⟩ | "i32" => some ⟨32, true⟩
  | "u64" => some ⟨64, false⟩ | "i64" => some ⟨64, true⟩
  | _ => none

def parseSym (t : SymTy) (s : String) : Option Int := do
  let v ← parseHex s
  if v ≥ 2 ^ t.bits then none
  else if t.signed ∧ v ≥ 2 ^ (t.bits - 1) then some ((v : Int) - (2 ^ t.bits : Nat))
  else some (v : Int)

def symHex (t : SymTy) (x : Int) : String := toHex (x % (2 ^ t.bits : Nat)).toNat

def parsePair (s : String) : Option (UInt64 × UInt64) :=
  match s.splitOn ":" with
  | [a, b] => do
      let a ← parseHex a
      let b ← parseHex b
      some (UInt64.ofNat a, UInt64.ofNat b)
  | _ => none

def parseRec (s : String) : Option (Array (UInt64 × UInt64)) :=
  if s == "-" then some #[] else
  (s.splitOn ",").foldl (fun acc t => match acc, parsePair t with
    | some a, some p => some (a.push p)
    | _, _ => none) (some #[])

inductive HintVal where
  | f (bits : Nat)
  | u (v : Nat)

def parseHintVal (k v : String) : Option HintVal := do
  let v ← parseHex v
  if k == "f" then some (.f v) else if k == "u" then some (.u v) else none

def HintVal.toSym (t : SymTy) : HintVal → Int
  | .f bits => f64ToSym t (Float.ofBits (UInt64.ofNat bits))
  | .u v => t.wrap (v : Int)

structure LeakySt where
  m : LQ
  full : Array (UInt64 × UInt64)
  constHint : Option HintVal

/-- `(free_weight * distribution(symbol ± 0.5)).as_()` on the **software IEEE model** (`binary64`),
    from the same recorded values; the argument `symbol ± 0.5` is formed natively (it is exact for
    every symbol type that converts losslessly to `f64`) -/
def leakyExtSoft (B free : Nat) (tab : Array (UInt64 × UInt64)) (half : Float) : Ext := fun s =>
  match recLookup tab (Float.ofInt s + half).toBits with
  | none => none
  | some c => some (binary64.toUInt B (binary64.mul (binary64.ofNat free) (binary64.ofBits c.toNat)))

/-- the answer is the software model's (what `C03_ieee_leaky_wellFormed` speaks about); the native
    replica must agree, otherwise the value is withheld (`missing`), which cannot match the
    implementation -/
def LeakySt.ext (st : LeakySt) (rec : Array (UInt64 × UInt64)) (half : Float) : Ext := fun s =>
  let pick (t : Array (UInt64 × UInt64)) : Option Nat :=
    match leakyExtSoft st.m.B st.m.free t half s, leakyExt st.m.B st.m.free t half s with
    | some a, some b => if a == b then some a else none
    | _, _ => none
  match pick rec with
  | some v => some v
  | none => pick st.full

def showSymTriples (t : SymTy) (l : List (Int × Nat × Nat)) : String :=
  if l.isEmpty then "-" else
  ",".intercalate (l.map fun (s, c, p) => symHex t s ++ ":" ++ toHex c ++ ":" ++ toHex p)

/-- certificate on a complete table: `Mono g ∧ g ≤ free` over the whole support -/
def leakyCert (st : LeakySt) : Option (Bool × Bool) :=
  let gl := st.ext #[] (-0.5)
  let n := (st.m.max - st.m.min).toNat
  let rec go (fuel : Nat) (s : Int) (prev : Nat) (mono bound : Bool) : Option (Bool × Bool) :=
    match fuel with
    | 0 => some (mono, bound)
    | fuel + 1 =>
      match gl s with
      | none => none
      | some v => go fuel (s + 1) v (mono && decide (prev ≤ v)) (bound && decide (v ≤ st.m.free))
  go n (st.m.min + 1) 0 true true

def leakyDecOne (st : LeakySt) (rec : Array (UInt64 × UInt64)) (hint : Int) (q : Nat) :
    SM (Int × Nat × Nat) :=
  st.m.dec (st.ext rec (-0.5)) (st.ext rec 0.5) (searchFuel st.m.t) hint q

def leakySweep (st : LeakySt) (hint : Int) (hi stride : Nat) :
    (fuel q cnt : Nat) → (dg : UInt64) → String
  | 0, _, cnt, dg => toHex cnt ++ " " ++ toHex dg.toNat
  | fuel + 1, q, cnt, dg =>
    if q > hi then toHex cnt ++ " " ++ toHex dg.toNat
    else
      match leakyDecOne st #[] hint q with
      | .error e => sErrStr e
      | .ok (s, c, p) =>
        leakySweep st hint hi stride fuel (q + stride) (cnt + 1)
          (digestStep (digestStep (digestStep dg (s % (2 ^ st.m.t.bits : Nat)).toNat) c) p)

def leakyOp (st : LeakySt) (seg : List String) : Option (LeakySt × String × Bool) :=
  let t := st.m.t
  match seg with
  | ["full", rec] => do
      let rec ← parseRec rec
      let st := { st with full := rec }
      match leakyCert st with
      | none => some (st, "missing", true)
      | some (mono, bound) =>
        some (st, "ok mono=" ++ (if mono then "1" else "0") ++ " bound=" ++ (if bound then "1" else "0"), false)
  | ["enc", s, rec] => do
      let s ← parseSym t s
      let rec ← parseRec rec
      match st.m.enc (st.ext rec (-0.5)) (st.ext rec 0.5) s with
      | .error e => some (st, sErrStr e, true)
      | .ok none => some (st, "none", false)
      | .ok (some (c, p)) => some (st, toHex c ++ " " ++ toHex p, false)
  | ["dec", q, inv, rec] => do
      let q ← parseHex q
      let rec ← parseRec rec
      if q ≥ 2 ^ st.m.B then none else
      let hint : Option (Option Int) :=
        match st.constHint with
        | some h => if inv == "-" then some (some (h.toSym t)) else none
        | none =>
          match inv.splitOn ":" with
          | [a, k, v] => do
              let a ← parseHex a
              let hv ← parseHintVal k v
              if (inverseArg st.m.B st.m.P q).toBits.toNat == a then some (some (hv.toSym t))
              else some none
          | _ => none
      match ← hint with
      | none => some (st, "missing", true)
      | some h =>
        match leakyDecOne st rec h q with
        | .error e => some (st, sErrStr e, true)
        | .ok (s, c, p) => some (st, symHex t s ++ " " ++ toHex c ++ " " ++ toHex p, false)
  | ["table", rec] => do
      let rec ← parseRec rec
      match st.m.table (st.ext rec (-0.5)) ((st.m.max - st.m.min).toNat + 1) st.m.min 0 with
      | .error e => some (st, sErrStr e, true)
      | .ok l => some (st, showSymTriples t l, false)
  | ["sweep", lo, hi, stride] => do
      let lo ← parseHex lo
      let hi ← parseHex hi
      let stride ← parseHex stride
      let h ← st.constHint
      if stride = 0 ∨ hi ≥ 2 ^ st.m.B then none else
      some (st, leakySweep st (h.toSym t) hi stride ((hi - lo) / stride + 2) lo 0 digestInit, false)
  | _ => none

def newLine (sym b p mn mx : String) : Option (M LQ) := do
  let t ← parseSymTy sym
  let B ← parseHex b
  let P ← parseHex p
  let mn ← parseSym t mn
  let mx ← parseSym t mx
  if P = 0 ∨ P > B then none else
  some (LQ.new t B P mn mx)

def parseFloatTy (s : String) : Option Bool :=
  if s == "f32" then some true else if s == "f64" then some false else none

/-- the answer is the one of the **software IEEE model** (`CV.Model.SoftFloat`, the model the
    `C03_ieee` theorems are about); the native-float replica must give the same answer, otherwise
    the line is answered with a diagnostic that cannot match the implementation -/
def both (soft native : String) : String :=
  if soft == native then soft else "soft-native-diff soft=[" ++ soft ++ "] native=[" ++ native ++ "]"

/-- one sample of every software float operation, as bit patterns -/
def sfopLine (f : Fmt) (w a b n : Nat) : String :=
  let o := f.ops
  let x := o.ofBits a
  let y := o.ofBits b
  let isNan (bits : Nat) : Bool :=
    ((bits >>> (f.p - 1)) % 2 ^ f.ebits == f.expMask) && (bits % 2 ^ (f.p - 1) != 0)
  let fl (r : SF) : String := let bits := o.toBits r; if isNan bits then "nan" else toHex (bits % 2 ^ w)
  " ".intercalate [fl (o.add x y), fl (o.mul x y), fl (o.div x y), (if o.le x y then "1" else "0"),
    toHex (o.toUInt 8 x), toHex (o.toUInt 16 x), toHex (o.toUInt 32 x), toHex (o.toUInt 64 x),
    fl (o.ofNat64 n)]

def handle (segs : List (List String)) : String :=
  match segs with
  | ["quant.fast", ctor, f, b, p, norm, tbl] :: ops =>
    match parseFloatTy f, parseHex b, parseHex p, parseOptHex norm, parseList tbl with
    | some is32, some B, some P, some norm, some tbl =>
      if P = 0 ∨ P > B then "bad-op"
      else if is32 then both (fastLine sf32Ops B P norm tbl (ctor != "ncenc") ops)
                              (fastLine f32Ops B P norm tbl (ctor != "ncenc") ops)
      else both (fastLine sf64Ops B P norm tbl (ctor != "ncenc") ops)
                (fastLine f64Ops B P norm tbl (ctor != "ncenc") ops)
    | _, _, _, _, _ => "bad-op"
  | [["quant.sfop", f, a, b, n]] =>
    match parseFloatTy f, parseHex a, parseHex b, parseHex n with
    | some is32, some a, some b, some n =>
      if n ≥ 2 ^ 64 then "bad-op"
      else if is32 then (if a ≥ 2 ^ 32 ∨ b ≥ 2 ^ 32 then "bad-op" else sfopLine binary32 32 a b n)
      else (if a ≥ 2 ^ 64 ∨ b ≥ 2 ^ 64 then "bad-op" else sfopLine binary64 64 a b n)
    | _, _, _, _ => "bad-op"
  | [["quant.perfect", f, b, p, tbl, w]] =>
    match parseFloatTy f, parseHex b, parseHex p, parseList tbl, parseList w with
    | some is32, some B, some P, some tbl, some w =>
      if P = 0 ∨ P > B then "bad-op"
      else if is32 then perfectLine f32Ops Float32.toFloat B P tbl w
      else perfectLine f64Ops id B P tbl w
    | _, _, _, _, _ => "bad-op"
  | ["quant.lazy", f, b, p, norm, tbl] :: ops =>
    match parseFloatTy f, parseHex b, parseHex p, parseOptHex norm, parseList tbl with
    | some is32, some B, some P, some norm, some tbl =>
      if P = 0 ∨ P > B then "bad-op"
      else if is32 then both (lazyLine sf32Ops B P norm tbl ops) (lazyLine f32Ops B P norm tbl ops)
      else both (lazyLine sf64Ops B P norm tbl ops) (lazyLine f64Ops B P norm tbl ops)
    | _, _, _, _, _ => "bad-op"
  | [["quant.new", sym, b, p, mn, mx]] =>
    match newLine sym b p mn mx with
    | none => "bad-op"
    | some (.error f) => faultStr f
    | some (.ok m) => "ok " ++ toHex m.free
  | ("quant.leaky" :: sym :: b :: p :: mn :: mx :: hint :: _dist) :: ops =>
    match newLine sym b p mn mx with
    | none => "bad-op"
    | some (.error f) => faultStr f
    | some (.ok m) =>
      let ch : Option (Option HintVal) :=
        if hint == "rec" then some none
        else match hint.splitOn ":" with
          | [k, v] => (parseHintVal k v).map some
          | _ => none
      match ch with
      | none => "bad-op"
      | some ch =>
        let st : LeakySt := { m := m, full := #[], constHint := ch }
        " | ".intercalate (runOps leakyOp st ops ["ok " ++ toHex m.free])
  | _ => "bad-op"

end CV.Driver.Quant
