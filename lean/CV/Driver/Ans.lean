import CV.Model.Ans
import CV.Model.TableModel
import CV.Spec.RansSpec
import CV.Driver.Util
/-! Line protocol for the ANS coder: `ans W S | init | op | op …` -/
namespace CV.Driver.Ans
open CV CV.Driver CV.Ans

structure St where
  x : Coder
  dead : Bool := false

def cfgOf (W S B P : Nat) : Cfg := { W := W, S := S, P := P, B := B }

def fitsAll (l : List Nat) (bits : Nat) : Bool := l.all (fun w => w < 2^bits)

def showRaw (x : Coder) : String := showList x.bulk.reverse ++ " " ++ toHex x.state

/-- the encoder-only model of the harness (`RawEnc`): a fixed `(cum, p)` (or `None`) for every symbol -/
def rawModel (cp : Option (Nat × Nat)) : Model Unit where
  enc _ := cp
  dec _ := ((), 0, 0)

def errStr : EncErr → String × Bool
  | .impossible => ("impossible", false)
  | .backendFull => ("full", false)
  | .fault f => (faultStr f, true)

/-- answer of an encode call made through the statement-by-statement transcription: the driver
    continues with the coder exactly as that transcription leaves it (also after a failure) -/
def encOutM : Coder × Except EncErr Unit → (Coder × String × Bool)
  | (y, .ok ()) => (y, "ok", false)
  | (y, .error e) => (y, (errStr e).1, (errStr e).2)

def doInit (W S : Nat) (seg : List String) : Option (Coder × String) :=
  let c := cfgOf W S 1 1
  match seg with
  | ["new"] => some (Ans.empty, "ok")
  | ["compressed", ws] => do
      let l ← parseList ws
      if !fitsAll l W then none else
      match fromCompressed c l.reverse with
      | some x => some (x, "ok")
      | none => some (Ans.empty, "err")
  | ["binary", ws] => do
      let l ← parseList ws
      if !fitsAll l W then none else
      some (fromBinary c l.reverse, "ok")
  | ["raw", ws, st] => do
      let l ← parseList ws
      let s ← parseHex st
      if !fitsAll l W || !(s < 2^S) then none else
      some ({ bulk := l.reverse, state := s }, "ok")
  | _ => none


def batchOut : Coder × Except BatchErr Unit → (Coder × String × Bool)
  | (y, .ok ()) => (y, "ok", false)
  | (y, .error .model) => (y, "modelerr", false)
  | (y, .error (.coding e)) => (y, (errStr e).1, (errStr e).2)

def decBatchOut : Coder × List Nat × Except (Option Fault) Unit → (Coder × String × Bool)
  | (y, syms, .ok ()) => (y, showList syms, false)
  | (y, syms, .error none) => (y, showList syms ++ " modelerr", false)
  | (y, _, .error (some f)) => (y, faultStr f, true)

def parseOptIdx (s : String) : Option (Option Nat) :=
  if s == "-" then some none else (parseHex s).map some

/-- one op; returns new coder, output, and whether the history died (panic) -/
def doOp (W S : Nat) (x : Coder) (seg : List String) : Option (Coder × String × Bool) :=
  let c0 := cfgOf W S 1 1
  match seg with
  | ["enc", b, p, cum, pr] => do
      let c := cfgOf W S (← parseHex b) (← parseHex p)
      let cumv ← parseHex cum
      let prv ← parseHex pr
      if !(cumv < 2^c.B) || !(prv < 2^c.B) || prv == 0 then none else
      some (encOutM (encodeSymbolM c (rawModel (some (cumv, prv))) () x))
  | ["encnone", b, p] => do
      let c := cfgOf W S (← parseHex b) (← parseHex p)
      some (encOutM (encodeSymbolM c (rawModel none) () x))
  | ["dec", b, p, cdf] => do
      let c := cfgOf W S (← parseHex b) (← parseHex p)
      let t ← parseList cdf
      match decode c (tableModel t) x with
      | .ok (s, y) => some (y, toHex s, false)
      | .error f => some (x, faultStr f, true)
  | ["encs", b, p, form, cdf, syms, errAt] => do
      let c := cfgOf W S (← parseHex b) (← parseHex p)
      let t ← parseList cdf
      let syms ← parseList syms
      let form ← parseHex form
      let errAt ← parseOptIdx errAt
      let isTry := form == 2 || form == 3
      let items : List (Option (Nat × Model Nat)) := (syms.zipIdx).map (fun (s, i) =>
        if isTry && errAt == some i then none else some (s, tableModel t))
      if form == 1 || form == 3 || form == 5 then some (batchOut (encodeSymbolsReverse c x items))
      else some (batchOut (encodeSymbols c x items))
  | ["decs", b, p, form, cdf, n, errAt] => do
      let c := cfgOf W S (← parseHex b) (← parseHex p)
      let t ← parseList cdf
      let n ← parseHex n
      let form ← parseHex form
      let errAt ← parseOptIdx errAt
      let items : List (Option (Model Nat)) := (List.range n).map (fun i =>
        if form == 1 && errAt == some i then none else some (tableModel t))
      some (decBatchOut (decodeSymbols c x items []))
  | ["raw"] => some (x, showRaw x, false)
  | ["export"] =>
      match intoCompressed c0 x with
      | some ws => some (x, showList ws.reverse, false)
      | none => some (x, "full", false)
  | ["reload"] =>
      match intoCompressed c0 x with
      | some ws => match fromCompressed c0 ws with
        | some y => some ({ y with cap := x.cap }, "ok", false)
        | none => some (x, "err", false)
      | none => some (x, "full", false)
  | ["intob"] =>
      match intoBinary c0 x with
      | .ok ws => some (x, showList ws.reverse, false)
      | .error _ => some (x, "err", false)
  | ["getc"] =>
      match intoCompressed c0 x, getCompressedThenDrop c0 x with
      | some ws, some y => some (y, showList ws.reverse, false)
      | _, _ => some (x, "full", false)
  | ["getb"] =>
      match getBinary c0 x, getBinaryThenDrop c0 x with
      | .ok ws, some y => some (y, showList ws.reverse, false)
      | _, _ => some (x, "err", false)
  | ["iter"] => some (x, showList (iterCompressed c0 x), false)
  | ["nw"] => some (x, toHex (numWords c0 x), false)
  | ["nb"] => some (x, toHex (numBits c0 x), false)
  | ["nvb"] => some (x, toHex (numValidBits c0 x), false)
  | ["empty"] => some (x, showBool (isEmpty x), false)
  | ["clone"] => some (x, "ok", false)
  | ["clear"] => some ({ Ans.empty with cap := x.cap }, "ok", false)
  | ["intovec"] =>
      match intoCompressed c0 x with
      | some ws => some (x, showList ws.reverse, false)
      | none => some (x, "full", false)
  | ["maybefull"] => some (x, "false", false)          -- `Vec::maybe_full` is `false`
  | ["mexh"] => some (x, showBool (isEmpty x), false)
  | ["asdec", b, p, cdf, n] => do
      let c := cfgOf W S (← parseHex b) (← parseHex p)
      let t ← parseList cdf
      let n ← parseHex n
      -- decoding on a temporary view: the original coder is untouched
      let r := decodeSymbols c x ((List.range n).map (fun _ => some (tableModel t))) []
      match r with
      | (_, syms, .ok ()) => some (x, if syms.isEmpty then "-" else ",".intercalate (syms.map toHex), false)
      | (_, _, _) => some (x, "panic:other", true)
  | ["intodec", b, p, cdf, n] => do
      let c := cfgOf W S (← parseHex b) (← parseHex p)
      let t ← parseList cdf
      let n ← parseHex n
      let r := decodeSymbols c x ((List.range n).map (fun _ => some (tableModel t))) []
      match r with
      | (_, syms, .ok ()) => some (x, if syms.isEmpty then "-" else ",".intercalate (syms.map toHex), false)
      | (_, _, _) => some (x, "panic:other", true)
  | ["pos"] => some (x, toHex (pos x).1 ++ " " ++ toHex (pos x).2, false)
  | ["seekself"] =>
      match seek x (pos x) with
      | some y => some (y, "ok", false)
      | none => some (x, "err", false)
  | ["seekrel", k, s] => do
      let sv ← parseHex s
      let k ← parseHex k
      if !(sv < 2^S) then none else
      if k > x.bulk.length then some (x, "unsupported", false) else
      match seek x (x.bulk.length - k, sv) with
      | some y => some (y, "ok", false)
      | none => some (x, "err", false)
  | ["seek", l, s] => do
      let sv ← parseHex s
      if !(sv < 2^S) then none else
      match seek x (← parseHex l, sv) with
      | some y => some (y, "ok", false)
      | none => some (x, "err", false)
  | _ => none

def runOps (W S : Nat) : Coder → List (List String) → List String → List String
  | _, [], acc => acc.reverse
  | x, seg :: rest, acc =>
    match doOp W S x seg with
    | none => ("bad-op" :: acc).reverse
    | some (y, out, dead) =>
      if dead then (out :: acc).reverse else runOps W S y rest (out :: acc)

/-- ops available on cursor-backed coders (`ansc`, `ansd`); `data` is the whole buffer of a
    seekable decoder (`Cursor::seek` only moves the position) -/
def doOpCursor (W S : Nat) (data : Option (List Nat)) (x : Coder) (seg : List String) :
    Option (Coder × String × Bool) :=
  match seg with
  | ["enc", _, _, _, _] => doOp W S x seg
  | ["encnone", _, _] => doOp W S x seg
  | ["dec", _, _, _] => doOp W S x seg
  | ["raw"] => doOp W S x seg
  | ["pos"] => doOp W S x seg
  | ["empty"] => doOp W S x seg
  | ["nw"] => doOp W S x seg
  | ["export"] => doOp W S x seg
  | ["intob"] =>
      match intoBinary (cfgOf W S 1 1) x with
      | .ok ws => some (x, showList ws.reverse, false)
      | .error .backendFull => some (x, "full", false)
      | .error .notWhole => some (x, "err", false)
  | ["getc"] =>
      -- the guard either shows the sealed words and restores the coder, or fails and (after the
      -- D21 repair) leaves the coder as it was
      match intoCompressed (cfgOf W S 1 1) x, getCompressedThenDrop (cfgOf W S 1 1) x with
      | some ws, some y => some (y, showList ws.reverse, false)
      | _, _ => some (x, "full", false)
  | ["getb"] =>
      match getBinary (cfgOf W S 1 1) x, getBinaryThenDrop (cfgOf W S 1 1) x with
      | .ok ws, some y => some (y, showList ws.reverse, false)
      | .error .backendFull, _ => some (x, "full", false)
      | _, _ => some (x, "err", false)
  | ["seek", l, s] => do
      let l ← parseHex l
      let s ← parseHex s
      match data with
      | some d =>
        if l ≤ d.length then some ({ x with bulk := (d.take l).reverse, state := s }, "ok", false)
        else some (x, "err", false)
      | none => none
  | _ => none

/-- `rev`: `AnsCoder::into_reversed` (`Cursor` → `Reverse<Cursor>` and back).  The buffer is reversed in
    place and the position mirrored, so the words on the stack, their order, and the free space are
    all unchanged: on the model's `Coder` (`bulk`, `state`, `cap`) the conversion is the identity.
    While reversed only the ops both backend types share are offered. -/
def doOpCursorRev (W S : Nat) (x : Coder) (seg : List String) : Option (Coder × String × Bool) :=
  match seg with
  | ["enc", _, _, _, _] => doOp W S x seg
  | ["encnone", _, _] => doOp W S x seg
  | ["dec", _, _, _] => doOp W S x seg
  | ["raw"] => doOp W S x seg
  | ["empty"] => doOp W S x seg
  | ["nw"] => doOp W S x seg
  | _ => some (x, "unsupported", false)

def runOpsCursor (W S : Nat) (data : Option (List Nat)) : Coder → List (List String) → List String → List String :=
  let rec go (rev : Bool) : Coder → List (List String) → List String → List String
    | _, [], acc => acc.reverse
    | x, ["rev"] :: rest, acc => go (!rev) x rest ("ok" :: acc)
    | x, seg :: rest, acc =>
      match (if rev then doOpCursorRev W S x seg else doOpCursor W S data x seg) with
      | none => ("bad-op" :: acc).reverse
      | some (y, out, dead) =>
        if dead then (out :: acc).reverse else go rev y rest (out :: acc)
  go false

/-- `ansspec` lines are answered by the reference specification, not by the Impl model -/
def handleSpec (W S : Nat) (segs : List (List String)) : String :=
  let rec go : List (List String) → List (Nat × Nat × Nat) → Option (List Nat) → Option (List (Nat × Nat × Nat) × Option (List Nat))
    | [], acc, ex => some (acc.reverse, ex)
    | ["enc", _, p, cum, pr] :: rest, acc, ex =>
      match parseHex p, parseHex cum, parseHex pr with
      | some P, some c, some r => go rest ((P, c, r) :: acc) ex
      | _, _, _ => none
    | ["expect", ws] :: rest, acc, _ => go rest acc (parseList ws)
    | _, _, _ => none
  match go segs [] none with
  | none => "bad-op"
  | some (syms, ex) =>
    let out := RansSpec.words W S syms
    let verdict := match ex with
      | none => "-"
      | some e => if e == out then "match" else "MISMATCH"
    showList out ++ " " ++ verdict

/-- `anssweep`: see the harness (`run_sweep`); both sides fold the same values in the same order -/
def sweep (W S B P lo hi : Nat) : String :=
  let c := cfgOf W S B P
  let total := 2^P
  let rec goCum (st : Nat) (bulk : List Nat) (pr : Nat) (fuel cum : Nat) (h : UInt64) (count : Nat) :
      Except String (UInt64 × Nat) :=
    match fuel with
    | 0 => .ok (h, count)
    | fuel + 1 =>
      let x : Coder := { bulk := bulk, state := st }
      match encodeCP c x cum pr with
      | .error _ => .error (toHex st ++ " " ++ toHex cum ++ " " ++ toHex pr ++ " => enc-error")
      | .ok y =>
        let h := digestStep h y.state
        let h := digestStep h y.bulk.length
        let h := digestStep h (y.bulk.headD 0)
        let cdf := [0] ++ (if cum > 0 then [cum] else []) ++ [cum + pr] ++ (if cum + pr < total then [total] else [])
        match decode c (tableModel cdf) x with
        | .error _ => .error (toHex st ++ " " ++ toHex cum ++ " " ++ toHex pr ++ " => dec-error")
        | .ok (sym, d) =>
          let h := digestStep h sym
          let h := digestStep h d.state
          let h := digestStep h d.bulk.length
          goCum st bulk pr fuel (cum + 1) h (count + 2)
  let rec goP (st : Nat) (bulk : List Nat) (fuel pr : Nat) (h : UInt64) (count : Nat) :
      Except String (UInt64 × Nat) :=
    match fuel with
    | 0 => .ok (h, count)
    | fuel + 1 =>
      match goCum st bulk pr (total - pr + 1) 0 h count with
      | .error e => .error e
      | .ok (h, count) => goP st bulk fuel (pr + 1) h count
  let rec goSt (fuel st : Nat) (h : UInt64) (count : Nat) : Except String (UInt64 × Nat) :=
    match fuel with
    | 0 => .ok (h, count)
    | fuel + 1 =>
      let bulk := if st ≥ 2^(S - W) then [0xab % 2^W] else []
      match goP st bulk (total - 1) 1 h count with
      | .error e => .error e
      | .ok (h, count) => goSt fuel (st + 1) h count
  match goSt (hi - lo) lo digestInit 0 with
  | .ok (h, count) => toHex count ++ " " ++ toHex h.toNat
  | .error e => e

/-- glue constructors: `ansr` (`from_reversed_compressed`: the data is consumed front to back, so
    it *is* the top-first list; `Reverse<Cursor>` positions count consumed words and `seek`
    passes through), `ansi` (`from_reversed_compressed_iter`), `ansb` (`from_binary_slice`) -/
def doOpGlue (W S : Nat) (data : List Nat) (seekable : Bool) (x : Coder) (seg : List String) :
    Option (Coder × String × Bool) :=
  match seg with
  | ["dec", _, _, _] => doOp W S x seg
  | ["empty"] => doOp W S x seg
  | ["state"] => some (x, toHex x.state, false)
  | ["pos"] => if seekable then some (x, toHex (data.length - x.bulk.length) ++ " " ++ toHex x.state, false) else none
  | ["seek", l, s] =>
    if seekable then do
      let l ← parseHex l
      let s ← parseHex s
      if l ≤ data.length then some ({ x with bulk := data.drop l, state := s }, "ok", false)
      else some (x, "err", false)
    else none
  | _ => none

def runOpsGlue (W S : Nat) (data : List Nat) (seekable : Bool) : Coder → List (List String) → List String → List String
  | _, [], acc => acc.reverse
  | x, seg :: rest, acc =>
    match doOpGlue W S data seekable x seg with
    | none => ("bad-op" :: acc).reverse
    | some (y, out, dead) =>
      if dead then (out :: acc).reverse else runOpsGlue W S data seekable y rest (out :: acc)

def handle (segs : List (List String)) : String :=
  match segs with
  | ["ans", w, s] :: init :: ops =>
    match parseHex w, parseHex s with
    | some W, some S =>
      match doInit W S init with
      | some (x, out) =>
        if out == "err" then "err" else " | ".intercalate (runOps W S x ops [out])
      | none => "bad-op"
    | _, _ => "bad-op"
  | [["anssweep", w, s, b, p, lo, hi]] =>
    match parseHex w, parseHex s, parseHex b, parseHex p, parseHex lo, parseHex hi with
    | some W, some S, some B, some P, some lo, some hi => sweep W S B P lo hi
    | _, _, _, _, _, _ => "bad-op"
  | ["ansspec", w, s] :: ops =>
    match parseHex w, parseHex s with
    | some W, some S => handleSpec W S ops
    | _, _ => "bad-op"
  | ["ansd", w, s] :: [ws] :: ops =>
    match parseHex w, parseHex s, parseList ws with
    | some W, some S, some d =>
      match fromCompressed (cfgOf W S 1 1) d.reverse with
      | some x => " | ".intercalate (runOpsCursor W S (some d) { x with cap := some d.length } ops ["ok"])
      | none => "err"
    | _, _, _ => "bad-op"
  | [kind, w, s] :: [ws] :: ops =>
    if kind == "ansr" || kind == "ansi" || kind == "ansb" || kind == "anss" || kind == "ansrb" || kind == "ansib" then
      match parseHex w, parseHex s, parseList ws with
      | some W, some S, some d =>
        if !fitsAll d W then "bad-op" else
        if kind == "ansb" then
          " | ".intercalate (runOpsGlue W S d false (fromBinary (cfgOf W S 1 1) d.reverse) ops ["ok"])
        else if kind == "anss" then
          -- `from_compressed_slice`: a cursor at the end of the slice, the last word is the top
          match fromCompressed (cfgOf W S 1 1) d.reverse with
          | some x => " | ".intercalate (runOpsGlue W S d false x ops ["ok"])
          | none => "err"
        else if kind == "ansrb" || kind == "ansib" then
          -- `from_reversed_binary[_iter]`: the data is consumed front to back
          " | ".intercalate (runOpsGlue W S d false (fromBinary (cfgOf W S 1 1) d) ops ["ok"])
        else
          match fromCompressed (cfgOf W S 1 1) d with
          | some x => " | ".intercalate (runOpsGlue W S d (kind == "ansr") x ops ["ok"])
          | none => "err"
      | _, _, _ => "bad-op"
    else "bad-op"
  | ["ansc", w, s, cap] :: ops =>
    match parseHex w, parseHex s, parseHex cap with
    | some W, some S, some n =>
      " | ".intercalate (runOpsCursor W S none { bulk := [], state := 0, cap := some n } ops ["ok"])
    | _, _, _ => "bad-op"
  | _ => "bad-op"

end CV.Driver.Ans
