import CV.Driver.Util
/-! Line protocol for component `range` (stub; owned by the component's author) -/
namespace CV.Driver.Range
open CV CV.Driver

def handle (_segs : List (List String)) : String := "bad-op"

end CV.Driver.Range
