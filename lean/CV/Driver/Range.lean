import CV.Model.Range
import CV.Model.TableModel
import CV.Model.RangeTable
import CV.Spec.RangeSpec
import CV.Driver.Util
/-!
Line protocol for the range coder.

* `range W S | <init> | op | op …` — encoder histories; `init` is `new`, `with <words>`
  (`with_backend` on a non-empty `Vec`) or `raw <bulk> <lower> <range> <n> <first>`
  (`from_raw_parts`; `n = 0` is the normal situation).  After `intodec` the history continues
  with decoder ops on the decoder returned by `into_decoder()`.
* `rangedec W S | <init> | op | op …` — decoder histories; `init` is `words <words>`
  (`from_compressed`) or `rawdec <words> <pos> <lower> <range> <point>` (`from_raw_parts`).
* `rangesweep W S B P <lowers> <ranges> <firsts>` — every encoder single step over a lattice.
* `rangedecsweep W S B P <lowers> <ranges> <points> <cdf>` — every decoder single step.
-/
namespace CV.Driver.Range
open CV CV.Driver CV.Range

inductive Mode where
  | enc (e : Encoder)
  | dec (d : Decoder)

structure St where
  mode : Mode
  /-- snapshots taken by `snap`, oldest first -/
  snaps : List (Nat × Nat × Nat) := []
  /-- `(prefix words, encoded (P, cum, p) newest first)`; `none` once the big-number
      reference no longer applies (raw start, invalid pair); `clear` starts it afresh -/
  hist : Option (List Nat × List (Nat × Nat × Nat)) := none

def cfgOf (W S B P : Nat) : Cfg := { W := W, S := S, P := P, B := B }

def showSit : Situation → String
  | .normal => "normal"
  | .inverted n f => "inv " ++ toHex n ++ " " ++ toHex f

def showEnc (e : Encoder) : String :=
  showList e.bulk ++ " " ++ toHex e.lower ++ " " ++ toHex e.range ++ " " ++ showSit e.situation

def showDec (d : Decoder) : String :=
  toHex d.pos ++ " " ++ toHex d.lower ++ " " ++ toHex d.range ++ " " ++ toHex d.point

def parseTriples : List String → Option (List (Nat × Nat × List Nat))
  | [] => some []
  | b :: p :: cdf :: rest => do
      let b ← parseHex b
      let p ← parseHex p
      let t ← parseList cdf
      let r ← parseTriples rest
      some ((b, p, t) :: r)
  | _ => none

/-- decode one symbol per `(B, P, cdf)`; output `syms exhausted?` / `syms invalid_data` -/
def decMany (W S : Nat) : Decoder → List (Nat × Nat × List Nat) → List Nat → (String × Bool)
  | d, [], acc =>
    match d.maybeExhausted (cfgOf W S 1 1) with
    | .ok b => (showList acc.reverse ++ " " ++ showBool b, false)
    | .error f => (faultStr f, true)
  | d, (b, p, cdf) :: rest, acc =>
    if !strictCdfB p cdf then ("bad-table", true) else
    match decode (cfgOf W S b p) (tableModel cdf) d with
    | .ok (s, d') => decMany W S d' rest (s :: acc)
    | .error .invalidData => (showList acc.reverse ++ " invalid_data", false)
    | .error (.fault f) => (faultStr f, true)

def doInit (W S : Nat) (kind : String) (seg : List String) : Option (Option St) :=
  let c := cfgOf W S 1 1
  match kind, seg with
  | "range", ["new"] => some (some { mode := .enc (Encoder.empty c), hist := some ([], []) })
  | "range", ["with", ws] => do
      let l ← parseList ws
      some (some { mode := .enc (Encoder.withBackend c l), hist := some (l, []) })
  | "range", ["raw", ws, lo, r, n, first] => do
      let l ← parseList ws
      let lo ← parseHex lo
      let r ← parseHex r
      let n ← parseHex n
      let first ← parseHex first
      if n ≥ 2^usizeBits then none else
      match stateNew c lo r with
      | .ok (some _) =>
        let sit := if n = 0 then Situation.normal else .inverted n first
        some (some { mode := .enc { bulk := l, lower := lo, range := r, situation := sit } })
      | _ => some none
  | "rangedec", ["words", ws] => do
      let l ← parseList ws
      match Decoder.fromCompressed c l with
      | .ok d => some (some { mode := .dec d })
      | .error _ => some none
  | "rangedec", ["borrowed", ws] => do
      -- `RangeDecoder::for_compressed(&vec)`
      let l ← parseList ws
      match Decoder.fromCompressed c l with
      | .ok d => some (some { mode := .dec d })
      | .error _ => some none
  | "rangedec", ["rawdec", ws, pos, lo, r, pt] => do
      let l ← parseList ws
      let pos ← parseHex pos
      let lo ← parseHex lo
      let r ← parseHex r
      let pt ← parseHex pt
      if pos > l.length then some none else
      match stateNew c lo r with
      | .ok (some _) =>
        match Decoder.fromRawParts c l pos lo r pt with
        | some d => some (some { mode := .dec d })
        | none => some none
      | _ => some none
  | _, _ => none

def mOut {α : Type} (st : St) (r : M α) (f : α → St × String) : St × String × Bool :=
  match r with
  | .ok a => let (s, o) := f a; (s, o, false)
  | .error e => (st, faultStr e, true)

def encOp (W S : Nat) (st : St) (e : Encoder) (seg : List String) : Option (St × String × Bool) :=
  let c := cfgOf W S 1 1
  match seg with
  | ["enc", b, p, cum, pr] => do
      let b ← parseHex b
      let p ← parseHex p
      let cum ← parseHex cum
      let pr ← parseHex pr
      match encodeCP (cfgOf W S b p) e cum pr with
      | .ok e' =>
        some ({ st with mode := .enc e',
                        hist := if cum + pr > 2^p then none else
                          st.hist.map (fun (pre, l) => (pre, (p, cum, pr) :: l)) },
              "ok", false)
      | .error .impossible => some (st, "impossible", false)
      | .error (.fault f) => some (st, faultStr f, true)
  | ["encnone", _, _] => some (st, "impossible", false)
  | ["encs", b, p, form, cdf, syms, errAt] => do
      -- 0 = encode_symbols, 2 = try_encode_symbols (`Err` item at `errAt`), 4 = encode_iid_symbols
      let b ← parseHex b
      let p ← parseHex p
      let form ← parseHex form
      let t ← parseList cdf
      let syms ← parseList syms
      let errAt ← if errAt == "-" then some none else (parseHex errAt).map some
      if form != 0 && form != 2 && form != 4 then none else
      if !strictCdfB p t then some (st, "bad-table", true) else
      let items : List (Option (Nat × Model Nat)) := (syms.zipIdx).map (fun (sy, i) =>
        if form == 2 && errAt == some i then none else some (sy, tableModel t))
      match encodeSymbols (cfgOf W S b p) e items with
      | (e', .ok ()) =>
        let enc := syms.filterMap (fun sy => (tableModel t).enc sy)
        some ({ st with mode := .enc e',
                        hist := st.hist.map (fun (pre, l) => (pre, (enc.map (fun (cum, pr) => (p, cum, pr))).reverse ++ l)) },
              "ok", false)
      | (e', .error .model) => some ({ st with mode := .enc e', hist := none }, "modelerr", false)
      | (e', .error (.coding .impossible)) =>
        some ({ st with mode := .enc e', hist := none }, "impossible", false)
      | (_, .error (.coding (.fault f))) => some (st, faultStr f, true)
  | ["full"] => some (st, showBool (maybeFull e), false)
  | ["export"] => some (mOut st (intoCompressed c e) (fun ws => (st, showList ws)))
  | ["getc"] =>
      some (mOut st (getCompressed c e) (fun (view, e') =>
        ({ st with mode := .enc e' }, showList view)))
  | "decoder" :: rest => do
      let ts ← parseTriples rest
      match tempDecoder c e with
      | .error f => some (st, faultStr f, true)
      | .ok (d, e') =>
        let (out, dead) := decMany W S d ts []
        some ({ st with mode := .enc e' }, out, dead)
  | ["nw"] => some (mOut st (numWords c e) (fun k => (st, toHex k)))
  | ["nb"] => some (mOut st (numBits c e) (fun k => (st, toHex k)))
  | ["empty"] => some (st, showBool (isEmpty c e), false)
  | ["pos"] =>
      some (mOut st e.pos (fun (n, lo, r) =>
        (st, toHex n ++ " " ++ toHex lo ++ " " ++ toHex r)))
  | ["snap"] =>
      some (mOut st e.pos (fun (n, lo, r) =>
        ({ st with snaps := st.snaps ++ [(n, lo, r)] },
         toHex n ++ " " ++ toHex lo ++ " " ++ toHex r)))
  | ["raw"] => some (st, showEnc e, false)
  | ["clone"] => some (st, "ok", false)
  | ["clear"] =>
      -- the encoder is as new: the reference applies again, to the messages encoded from here on
      some ({ st with mode := .enc (clear c e), hist := some ([], []) }, "ok", false)
  | ["intodec"] =>
      some (mOut st (intoDecoder c e) (fun d => ({ st with mode := .dec d }, "ok")))
  | ["intodec2"] =>
      -- `IntoDecoder::<PRECISION>::into_decoder` (trait form; `From<RangeEncoder>`)
      some (mOut st (intoDecoder c e) (fun d => ({ st with mode := .dec d }, "ok")))
  | ["expect", ws] => do
      let l ← parseList ws
      some (mOut st (intoCompressed c e) (fun got => (st, if got == l then "ok" else "differs")))
  | ["spec"] =>
      match st.hist with
      | some (pre, l) => some (st, showList (pre ++ RangeSpec.words W S l.reverse), false)
      | none => some (st, "n/a", false)
  | _ => none

def seekOut (st : St) (d : Decoder) (c : Cfg) (pos lo r : Nat) : St × String × Bool :=
  match stateNew c lo r with
  | .error f => (st, faultStr f, true)
  | .ok none => (st, "badstate", false)
  | .ok (some _) =>
    match d.seek c pos lo r with
    | .ok d' => ({ st with mode := .dec d' }, "ok", false)
    | .error .rejected => (st, "err", false)
    | .error (.fault f) => (st, faultStr f, true)

def decOp (W S : Nat) (st : St) (d : Decoder) (seg : List String) : Option (St × String × Bool) :=
  let c := cfgOf W S 1 1
  match seg with
  | ["dec", b, p, cdf] => do
      let b ← parseHex b
      let p ← parseHex p
      let t ← parseList cdf
      if !strictCdfB p t then some (st, "bad-table", true) else
      match decode (cfgOf W S b p) (tableModel t) d with
      | .ok (s, d') => some ({ st with mode := .dec d' }, toHex s, false)
      | .error .invalidData => some (st, "invalid_data", false)
      | .error (.fault f) => some (st, faultStr f, true)
  | ["seek", pos, lo, r] => do
      some (seekOut st d c (← parseHex pos) (← parseHex lo) (← parseHex r))
  | ["seekto", i] => do
      let i ← parseHex i
      let (pos, lo, r) ← st.snaps[i]?
      some (seekOut st d c pos lo r)
  | ["decs", b, p, form, cdf, n, errAt] => do
      -- 0 = decode_symbols, 1 = try_decode_symbols (`Err` item at `errAt`), 2 = decode_iid_symbols
      let b ← parseHex b
      let p ← parseHex p
      let form ← parseHex form
      let t ← parseList cdf
      let n ← parseHex n
      let errAt ← if errAt == "-" then some none else (parseHex errAt).map some
      if form > 2 then none else
      if !strictCdfB p t then some (st, "bad-table", true) else
      let items : List (Option (Model Nat)) := (List.range n).map (fun i =>
        if form == 1 && errAt == some i then none else some (tableModel t))
      match decodeSymbols (cfgOf W S b p) d items [] with
      | (d', ss, .ok ()) => some ({ st with mode := .dec d' }, showList ss, false)
      | (d', ss, .error .model) => some ({ st with mode := .dec d' }, showList ss ++ " modelerr", false)
      | (d', ss, .error (.coding .invalidData)) =>
        some ({ st with mode := .dec d' }, showList ss ++ " invalid_data", false)
      | (_, _, .error (.coding (.fault f))) => some (st, faultStr f, true)
  | ["exhausted"] => some (mOut st (d.maybeExhausted c) (fun b => (st, showBool b)))
  | ["exhausted2"] =>
      -- `Code::decoder_maybe_exhausted::<PRECISION>` and `Decode::maybe_exhausted`
      some (mOut st (d.maybeExhausted c) (fun b => (st, showBool b)))
  | ["raw"] => some (st, showDec d, false)
  | ["clone"] => some (st, "ok", false)
  | _ => none

def doOp (W S : Nat) (st : St) (seg : List String) : Option (St × String × Bool) :=
  match st.mode with
  | .enc e => encOp W S st e seg
  | .dec d => decOp W S st d seg

def runOps (W S : Nat) : St → List (List String) → List String → List String
  | _, [], acc => acc.reverse
  | st, seg :: rest, acc =>
    match doOp W S st seg with
    | none => ("bad-op" :: acc).reverse
    | some (st', out, dead) =>
      if dead then (out :: acc).reverse else runOps W S st' rest (out :: acc)

/-! ### single-step sweeps -/

def digestList (h : UInt64) (l : List Nat) : UInt64 :=
  l.foldl digestStep (digestStep h l.length)

def digestEnc (h : UInt64) (r : Except EncErr Encoder) : UInt64 :=
  match r with
  | .ok e =>
    let h := digestStep h 1
    let h := digestList h e.bulk
    let h := digestStep (digestStep h e.lower) e.range
    match e.situation with
    | .normal => digestStep h 0
    | .inverted n f => digestStep (digestStep (digestStep h 1) n) f
  | .error .impossible => digestStep h 2
  | .error (.fault (.overflow _)) => digestStep h 3
  | .error (.fault (.shift _)) => digestStep h 4
  | .error (.fault _) => digestStep h 5

/-- all `(cum, p)` with `1 ≤ p`, `cum + p ≤ 2^P` -/
def allCP (P : Nat) : List (Nat × Nat) :=
  (List.range (2^P)).flatMap (fun cum =>
    (List.range (2^P - cum)).map (fun p1 => (cum, p1 + 1)))

def sits (firsts : List Nat) : List Situation :=
  .normal :: firsts.flatMap (fun f => [.inverted 1 f, .inverted 2 f, .inverted 3 f])

def encSweep (W S B P : Nat) (lowers ranges firsts : List Nat) : Nat × UInt64 :=
  let c := cfgOf W S B P
  let cps := allCP P
  lowers.foldl (fun acc lo =>
    ranges.foldl (fun acc r =>
      if r / 2^(S - W) = 0 ∨ r ≥ 2^S ∨ lo ≥ 2^S then (acc.1 + 1, digestStep acc.2 9) else
      (sits firsts).foldl (fun acc sit =>
        cps.foldl (fun (acc : Nat × UInt64) (cum, p) =>
          let e : Encoder := { bulk := [], lower := lo, range := r, situation := sit }
          let h := digestEnc acc.2 (encodeCP c e cum p)
          let h := match sealWords c e with
            | .ok ws => digestList h ws
            | .error _ => digestStep h 7
          (acc.1 + 1, h)) acc) acc) acc) (0, digestInit)

def digestDec (h : UInt64) (r : Except DecErr (Nat × Decoder)) : UInt64 :=
  match r with
  | .ok (s, d) =>
    let h := digestStep (digestStep h 1) s
    digestStep (digestStep (digestStep (digestStep h d.pos) d.lower) d.range) d.point
  | .error .invalidData => digestStep h 2
  | .error (.fault (.overflow _)) => digestStep h 3
  | .error (.fault (.shift _)) => digestStep h 4
  | .error (.fault _) => digestStep h 5

def decSweep (W S B P : Nat) (lowers ranges points cdf : List Nat) : Nat × UInt64 :=
  let c := cfgOf W S B P
  let data := [0x5a % 2^W]
  lowers.foldl (fun acc lo =>
    ranges.foldl (fun acc r =>
      points.foldl (fun (acc : Nat × UInt64) pt =>
        if r / 2^(S - W) = 0 ∨ r ≥ 2^S ∨ lo ≥ 2^S ∨ pt ≥ 2^S then (acc.1 + 1, digestStep acc.2 8) else
        match Decoder.fromRawParts c data 0 lo r pt with
        | none => (acc.1 + 1, digestStep acc.2 9)
        | some d =>
          let h := digestDec acc.2 (decode c (tableModel cdf) d)
          let h := match d.maybeExhausted c with
            | .ok b => digestStep h (if b then 1 else 0)
            | .error _ => digestStep h 7
          (acc.1 + 1, h)) acc) acc) (0, digestInit)

def showDigest (r : Nat × UInt64) : String := toHex r.1 ++ " " ++ toHex r.2.toNat

def handle (segs : List (List String)) : String :=
  match segs with
  | [kind, w, s] :: init :: ops =>
    match parseHex w, parseHex s with
    | some W, some S =>
      if kind != "range" && kind != "rangedec" then "bad-op" else
      match doInit W S kind init with
      | some (some st) => " | ".intercalate (runOps W S st ops ["ok"])
      | some none => "err"
      | none => "bad-op"
    | _, _ => "bad-op"
  | [["rangesweep", w, s, b, p, los, rs, fs]] =>
    match parseHex w, parseHex s, parseHex b, parseHex p, parseList los, parseList rs,
          parseList fs with
    | some W, some S, some B, some P, some los, some rs, some fs =>
      showDigest (encSweep W S B P los rs fs)
    | _, _, _, _, _, _, _ => "bad-op"
  | [["rangedecsweep", w, s, b, p, los, rs, pts, cdf]] =>
    match parseHex w, parseHex s, parseHex b, parseHex p, parseList los, parseList rs,
          parseList pts, parseList cdf with
    | some W, some S, some B, some P, some los, some rs, some pts, some cdf =>
      if !strictCdfB P cdf then "bad-table" else
      showDigest (decSweep W S B P los rs pts cdf)
    | _, _, _, _, _, _, _, _ => "bad-op"
  | _ => "bad-op"

end CV.Driver.Range
