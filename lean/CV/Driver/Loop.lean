import CV.Driver.Util
/-! stdin → stdout loop shared by the combined driver and the per-component drivers -/
namespace CV.Driver

partial def loopLines (hin hout : IO.FS.Stream) (dispatch : String → String) : IO Unit := do
  let line ← hin.getLine
  if line.isEmpty then return ()
  let l := line.trimAscii.toString
  if l.isEmpty || l.startsWith "#" then
    hout.putStrLn l
  else
    hout.putStrLn (dispatch l)
  loopLines hin hout dispatch

def runLoop (dispatch : String → String) : IO Unit := do
  let hin ← IO.getStdin
  let hout ← IO.getStdout
  loopLines hin hout dispatch

end CV.Driver
