import CV.Model.Machine
/-! Line-protocol helpers shared by all component drivers (import-free). -/
namespace CV.Driver

def hexDigit (c : Char) : Option Nat :=
  if '0' ≤ c ∧ c ≤ '9' then some (c.toNat - '0'.toNat)
  else if 'a' ≤ c ∧ c ≤ 'f' then some (c.toNat - 'a'.toNat + 10)
  else if 'A' ≤ c ∧ c ≤ 'F' then some (c.toNat - 'A'.toNat + 10)
  else none

def parseHex (s : String) : Option Nat :=
  if s.isEmpty then none else
  s.toList.foldl (fun acc c => match acc, hexDigit c with
    | some a, some d => some (a * 16 + d)
    | _, _ => none) (some 0)

def hexChar (d : Nat) : Char :=
  if d < 10 then Char.ofNat ('0'.toNat + d) else Char.ofNat ('a'.toNat + d - 10)

partial def toHexAux (n : Nat) (acc : List Char) : List Char :=
  if n < 16 then hexChar n :: acc else toHexAux (n / 16) (hexChar (n % 16) :: acc)

def toHex (n : Nat) : String := String.ofList (toHexAux n [])

/-- comma separated hex list; `-` is the empty list -/
def parseList (s : String) : Option (List Nat) :=
  if s == "-" then some [] else
  (s.splitOn ",").foldr (fun t acc => match parseHex t, acc with
    | some v, some l => some (v :: l)
    | _, _ => none) (some [])

def showList (l : List Nat) : String :=
  if l.isEmpty then "-" else ",".intercalate (l.map toHex)

def showBool (b : Bool) : String := if b then "true" else "false"

def words (s : String) : List String :=
  (s.splitOn " ").filter (fun t => !t.isEmpty)

def segments (line : String) : List (List String) :=
  (line.splitOn "|").map words

def faultStr : Fault → String
  | .overflow _ => "panic:overflow"
  | .shift _ => "panic:shift"
  | .ub s => "ub:" ++ s
  | .panic _ => "panic:other"

/-- FNV-1a style 64-bit fold used by `sweep` lines on both sides -/
def digestStep (h : UInt64) (v : Nat) : UInt64 :=
  let rec go (fuel : Nat) (h : UInt64) (v : Nat) : UInt64 :=
    match fuel with
    | 0 => h
    | fuel + 1 =>
      let h := (h ^^^ (UInt64.ofNat (v % 256))) * 0x100000001b3
      if v < 256 then h else go fuel h (v / 256)
  go 40 h v

def digestInit : UInt64 := 0xcbf29ce484222325

end CV.Driver
