import CV.Model.Chain
import CV.Model.TableModel
import CV.Driver.Util
/-!
Line protocol for the chain coder.

`chain W S P0 | init | op | op …`

init: `binary ws` | `compressed ws` | `remainders ws` | `raw comp rems hc hr`
      (word lists in Rust `Vec` order, i.e. top of stack last); a failing constructor makes the
      whole line `err`.
ops:  `dec p b cdf` · `enc p b cum pr` · `encnone p b` · `encsym p b cdf s`
      · `encs p b form cdf syms errAt` · `decs p b form cdf n errAt` (`p` = the precision the
      generator expects the coder to have; `skip` if it differs) · `cp q` · `incp q` · `decp q` · `whole` · `raw` · `intorem`
      · `intocomp` · `intobin` · `reimport 1|2` · `final comp|bin` · `mex` · `mfull` · `clone`
      · `snap` · `seekto i` · `undo` · `undoall`

`chainsweep W S P B kind lo hi` → `count digest` (complete single-step sweeps through raw heads).
-/
namespace CV.Driver.Chain
open CV CV.Driver CV.Chain

/-- what `undo` re-does: a decoded symbol (to be encoded back with the same model) or a
    precision change (to be reverted) -/
inductive Ghost where
  | sym (p b : Nat) (cdf : List Nat) (s : Nat)
  | prec (oldP : Nat)

structure St where
  x : Coder
  P : Nat
  /-- newest first -/
  ghost : List Ghost := []
  /-- the `prefix` put away by `reimport 1` -/
  stash : List Nat := []
  /-- `(P, pos)` snapshots, newest first -/
  snaps : List (Nat × Nat × Nat × Heads) := []

def cfgOf (W S P B : Nat) : Cfg := { W := W, S := S, P := P, B := B }

/-- a stack in Rust `Vec` order -/
def showStack (l : List Nat) : String := showList l.reverse

def showRaw (x : Coder) : String :=
  showStack x.compressed ++ " " ++ showStack x.remainders ++ " " ++
    toHex x.heads.compressed ++ " " ++ toHex x.heads.remainders

/-- what the crate's static assertions say about a coder precision -/
def precOk (W S q : Nat) : Bool := decide (1 ≤ q ∧ q ≤ W ∧ W + q ≤ S)

/-- The `(Word, State)` combinations and, per probability width `B`, the precisions that are
    compiled into the Rust harness (`for_each_combo!` in `harness/src/util.rs`); anything else
    is answered `unsupported` on both sides. -/
def combos : List (Nat × Nat × List (Nat × List Nat)) :=
  [(8, 16, [(8, [1, 2, 3, 4, 5, 7, 8])]),
   (8, 32, [(8, [1, 2, 3, 4, 5, 7, 8])]),
   (8, 64, [(8, [1, 3, 8])]),
   (16, 32, [(8, [1, 4, 8]), (16, [1, 2, 7, 8, 12, 15, 16])]),
   (16, 64, [(8, [8]), (16, [1, 8, 12, 16])]),
   (32, 64, [(8, [8]), (16, [12, 16]), (32, [1, 8, 16, 24, 31, 32])]),
   (32, 128, [(16, [16]), (32, [1, 24, 32])]),
   (64, 128, [(16, [12]), (32, [1, 24, 32])])]

def bpsOf (W S : Nat) : Option (List (Nat × List Nat)) :=
  (combos.find? (fun e => e.1 == W && e.2.1 == S)).map (·.2.2)

/-- is `ChainCoder<W, S, _, _, p>` compiled in? -/
def compiledP (W S p : Nat) : Bool :=
  match bpsOf W S with
  | some bps => bps.any (fun e => e.2.contains p)
  | none => false

/-- are the model types with `Probability::BITS = b` compiled in for precision `p`? -/
def compiledBP (W S b p : Nat) : Bool :=
  match bpsOf W S with
  | some bps => bps.any (fun e => e.1 == b && e.2.contains p)
  | none => false

/-- protocol values must fit the Rust types they are parsed into (`bad-op` otherwise) -/
def wordsOk (W : Nat) (l : List Nat) : Bool := l.all (fun w => decide (w < 2^W))

/-- a cdf table fits `Probability` with `B` bits: entries `≤ 2^B`, all but the last `< 2^B`,
    no single probability of `2^B` -/
def cdfOk (B : Nat) : List Nat → Bool
  | [] => true
  | [a] => decide (a ≤ 2^B)
  | a :: b :: rest => decide (a < 2^B) && decide (b - a < 2^B) && cdfOk B (b :: rest)

def doInit (W S P : Nat) (seg : List String) : Option (Option Coder) :=
  let c := cfgOf W S P P
  match seg with
  | ["binary", ws] => do
      let l ← parseList ws
      if !wordsOk W l then none else
      some (fromBinary c l.reverse)
  | ["compressed", ws] => do
      let l ← parseList ws
      if !wordsOk W l then none else
      some (fromCompressed c l.reverse)
  | ["remainders", ws] => do
      let l ← parseList ws
      if !wordsOk W l then none else
      some (fromRemainders c l.reverse)
  | ["raw", comp, rems, hc, hr] => do
      let comp ← parseList comp
      let rems ← parseList rems
      let hc ← parseHex hc
      let hr ← parseHex hr
      if !(wordsOk W comp && wordsOk W rems && decide (hc < 2^W) && decide (hr < 2^S)) then none else
      if hc = 0 then some none else
      some (some { compressed := comp.reverse, remainders := rems.reverse,
                   heads := { compressed := hc, remainders := hr } })
  | _ => none

def encErrStr : EncErr → String × Bool
  | .impossible => ("impossible", false)
  | .outOfRemainders => ("out_of_remainders", false)
  | .fault f => (faultStr f, true)

def encOut (r : Except EncErr Coder) (x : Coder) : Coder × String × Bool :=
  match r with
  | .ok y => (y, "ok", false)
  | .error e => (x, (encErrStr e).1, (encErrStr e).2)

def expOut (r : Except ExpErr (List Nat × List Nat)) : String × Bool :=
  match r with
  | .ok (pre, suf) => (showStack pre ++ " " ++ showStack suf, false)
  | .error .notWhole => ("notwhole", false)
  | .error (.fault f) => (faultStr f, true)

def parseOptIdx (s : String) : Option (Option Nat) :=
  if s == "-" then some none else
  match parseHex s with
  | some v => if v < 2^16 then some (some v) else none
  | none => none

def listGet? : List α → Nat → Option α
  | [], _ => none
  | a :: _, 0 => some a
  | _ :: l, n + 1 => listGet? l n

/-- the ghost entries that `undo`/`undoall` may process in one go: those whose recorded
    precision is the precision the coder will have when their turn comes (assuming the
    entries before them succeed), as log entries of the model -/
def ghostPrefix : Nat → List Ghost → List (Done Nat)
  | _, [] => []
  | P, .sym p b t s :: rest => if p ≠ P then [] else .dec b (tableModel t) s :: ghostPrefix P rest
  | _, .prec q :: rest => .prec q :: ghostPrefix q rest

/-- `undo` (`all = false`) / `undoall`: executes the model's `runUndoE` on the log entries -/
def doUndo (W S : Nat) (st : St) (all : Bool) : St × String × Bool :=
  match st.ghost with
  | [] => (st, if all then "0 ok" else "empty", false)
  | g0 :: _ =>
    let avail := ghostPrefix st.P st.ghost
    let todo := if all then avail else avail.take 1
    let (n, c', y, e) := runUndoE (cfgOf W S st.P st.P) todo st.x
    let pre (o : String) : String := if all then toHex n ++ " " ++ o else o
    match e with
    | some err =>
      -- the failing entry is consumed as well
      ({ st with x := y, P := c'.P, ghost := st.ghost.drop (n + 1) }, pre (encErrStr err).1, (encErrStr err).2)
    | none =>
      let st' := { st with x := y, P := c'.P, ghost := st.ghost.drop n }
      if all then
        match st'.ghost with
        | [] => (st', pre "ok", false)
        | _ :: rest => ({ st' with ghost := rest }, pre "skip", false)   -- precision mismatch
      else
        match g0, todo with
        | _, [] => ({ st with ghost := st.ghost.drop 1 }, "skip", false)
        | _, _ => (st', "ok", false)

/-- one op; returns new state, output, and whether the history died (panic) -/
def doOp (W S : Nat) (st : St) (seg : List String) : Option (St × String × Bool) :=
  let x := st.x
  let upd (r : Coder × String × Bool) : St × String × Bool := ({ st with x := r.1 }, r.2.1, r.2.2)
  -- ops that name the precision they expect and a probability width
  let withBP (p b : String) (k : Nat → Option (St × String × Bool)) : Option (St × String × Bool) :=
    match parseHex p, parseHex b with
    | some p, some b =>
      if p ≠ st.P then some (st, "skip", false)
      else if !compiledBP W S b p then some (st, "unsupported", false)
      else k b
    | some p, none => if p ≠ st.P then some (st, "skip", false) else none
    | _, _ => none
  match seg with
  | ["dec", p, b, cdf] => withBP p b fun b => do
      let t ← parseList cdf
      if !cdfOk b t then none else
      -- a one-step schedule
      let (log, _, y, e) := runDecE (cfgOf W S st.P st.P) [Step.dec b (tableModel t)] x
      match e, log with
      | none, [.dec _ _ s] => some ({ st with x := y, ghost := .sym st.P b t s :: st.ghost }, toHex s, false)
      | some (.inl .outOfData), _ => some (st, "out_of_data", false)
      | some (.inl (.fault f)), _ => some (st, faultStr f, true)
      | _, _ => none
  | ["enc", p, b, cum, pr] => withBP p b fun b => do
      let c := cfgOf W S st.P b
      let cum ← parseHex cum
      let pr ← parseHex pr
      if !(decide (cum < 2^b) && decide (pr < 2^b)) then none else
      some (upd (encOut (encodeCP c x cum pr) x))
  | ["encnone", p, b] => withBP p b fun _ => some (st, "impossible", false)
  | ["encsym", p, b, cdf, s] => withBP p b fun b => do
      let c := cfgOf W S st.P b
      let t ← parseList cdf
      let s ← parseHex s
      if !(cdfOk b t && decide (s < 2^64)) then none else
      some (upd (encOut (encode c (tableModel t) s x) x))
  | ["encs", p, b, form, cdf, syms, errAt] => withBP p b fun b => do
      let c := cfgOf W S st.P b
      let t ← parseList cdf
      let syms ← parseList syms
      let form ← parseHex form
      let errAt ← parseOptIdx errAt
      if form > 5 then none else
      if !(cdfOk b t && syms.all (fun s => decide (s < 2^64))) then none else
      let isTry := form == 2 || form == 3
      let items : List (Option Nat) := (syms.zipIdx).map (fun (s, i) =>
        if isTry && errAt == some i then none else some s)
      let rev := form == 1 || form == 3 || form == 5
      let items := if rev then items.reverse else items
      -- what the iterator yields before its first `Err` item
      let good : List (Nat × Model Nat) :=
        (items.takeWhile Option.isSome).filterMap (fun o => o.map (fun s => (s, tableModel t)))
      let (y, e) :=
        if rev && !isTry then encodeSymbolsReverse c good.reverse x else encodeSymbols c good x
      match e with
      | some err => some ({ st with x := y }, (encErrStr err).1, (encErrStr err).2)
      | none =>
        some ({ st with x := y }, if good.length < items.length then "modelerr" else "ok", false)
  | ["decs", p, b, form, cdf, n, errAt] => withBP p b fun b => do
      let c := cfgOf W S st.P b
      let t ← parseList cdf
      let n ← parseHex n
      let form ← parseHex form
      let errAt ← parseOptIdx errAt
      if form > 2 then none else
      if !(cdfOk b t && decide (n < 2^16)) then none else
      let k := match errAt with
        | some i => if form == 1 && i < n then i else n
        | none => n
      let (syms, y, e) := decodeSymbols c (List.replicate k (tableModel t)) x
      let st' := { st with x := y, ghost := syms.reverse.map (Ghost.sym st.P b t) ++ st.ghost }
      match e with
      | some (.fault f) => some (st', faultStr f, true)
      | some .outOfData => some (st', showList syms ++ " out_of_data", false)
      | none => some (st', showList syms ++ (if k < n then " modelerr" else ""), false)
  | [op, q] =>
      if op == "cp" || op == "incp" || op == "decp" then do
        let q ← parseHex q
        let c := cfgOf W S st.P st.P
        let legal := precOk W S q &&
          (if op == "incp" then decide (q ≥ st.P) else if op == "decp" then decide (q ≤ st.P) else true)
        if !legal || !compiledP W S q then some (st, "unsupported", false) else
        if op == "cp" then
          -- a one-step schedule
          let (_, c', y, e) := runDecE c [(Step.prec q : Step Nat)] x
          match e with
          | none => some ({ st with x := y, P := c'.P, ghost := .prec st.P :: st.ghost }, "ok", false)
          | some (.inr err) => some (st, (encErrStr err).1, (encErrStr err).2)
          | some (.inl _) => none
        else
          let r : Except EncErr Coder :=
            if op == "incp" then .ok (increasePrecision c q x) else decreasePrecision c q x
          match r with
          | .ok y => some ({ st with x := y, P := q, ghost := .prec st.P :: st.ghost }, "ok", false)
          | .error e => some (st, (encErrStr e).1, (encErrStr e).2)
      else if op == "reimport" then do
        let k ← parseHex q
        let c := cfgOf W S st.P st.P
        if k != 1 && k != 2 then none else
        match intoRemainders c x with
        | .error f => some (st, faultStr f, true)
        | .ok (pre, suf) =>
          if k == 1 then
            match fromRemainders c suf with
            | some y => some ({ st with x := y, stash := pre }, "ok", false)
            | none => some (st, "err", false)
          else
            -- concatenation in `Vec` order: `prefix` below `suffix`
            match fromRemainders c (suf ++ pre) with
            | some y => some ({ st with x := y, stash := [] }, "ok", false)
            | none => some (st, "err", false)
      else if op == "final" then
        let c := cfgOf W S st.P st.P
        let r := if q == "comp" then some (intoCompressed c x) else if q == "bin" then some (intoBinary c x) else none
        match r with
        | none => none
        | some (.ok (pre, suf)) => some (st, showStack (suf ++ pre ++ st.stash), false)
        | some (.error .notWhole) => some (st, "notwhole", false)
        | some (.error (.fault f)) => some (st, faultStr f, true)
      else if op == "seekto" then do
        let i ← parseHex q
        match listGet? st.snaps.reverse i with
        | none => some (st, "unsupported", false)
        | some (p, pos) =>
          if p ≠ st.P then some (st, "unsupported", false) else
          let (y, ok) := seek x pos
          some ({ st with x := y }, if ok then "ok" else "err", false)
      else none
  | ["undo"] => some (doUndo W S st false)
  | ["undoall"] => some (doUndo W S st true)
  | ["whole"] => some (st, showBool (isWhole x), false)
  | ["raw"] => some (st, showRaw x ++ " " ++ toHex st.P, false)
  | ["intorem"] =>
      match intoRemainders (cfgOf W S st.P st.P) x with
      | .ok (pre, suf) => some (st, showStack pre ++ " " ++ showStack suf, false)
      | .error f => some (st, faultStr f, true)
  | ["intocomp"] =>
      let r := expOut (intoCompressed (cfgOf W S st.P st.P) x)
      some (st, r.1, r.2)
  | ["intobin"] =>
      let r := expOut (intoBinary (cfgOf W S st.P st.P) x)
      some (st, r.1, r.2)
  | ["mex"] => some (st, showBool (maybeExhausted x), false)
  | ["mfull"] => some (st, showBool (maybeFull x), false)
  | ["clone"] => some (st, "ok", false)
  | ["snap"] =>
      let p := pos x
      some ({ st with snaps := (st.P, p) :: st.snaps },
        toHex p.1 ++ " " ++ toHex p.2.1 ++ " " ++ toHex p.2.2.compressed ++ " " ++ toHex p.2.2.remainders, false)
  | _ => none

def runOps (W S : Nat) : St → List (List String) → List String → List String
  | _, [], acc => acc.reverse
  | st, seg :: rest, acc =>
    match doOp W S st seg with
    | none => ("bad-op" :: acc).reverse
    | some (st', out, dead) =>
      if dead then (out :: acc).reverse else runOps W S st' rest (out :: acc)

/-! ## complete single-step sweeps (raw heads) -/

def foldList (h : UInt64) (l : List Nat) : UInt64 :=
  l.foldl digestStep (digestStep h l.length)

def foldCoder (h : UInt64) (x : Coder) : UInt64 :=
  let h := digestStep h x.heads.compressed
  let h := digestStep h x.heads.remainders
  -- stacks in `Vec` order
  foldList (foldList h x.compressed.reverse) x.remainders.reverse

def faultCode : Fault → Nat
  | .overflow _ => 4
  | .shift _ => 5
  | .panic _ => 6
  | .ub _ => 7

def foldDec (h : UInt64) (r : Except DecErr (Nat × Coder)) : UInt64 :=
  match r with
  | .ok (s, y) => foldCoder (digestStep (digestStep h 0) s) y
  | .error .outOfData => digestStep h 1
  | .error (.fault f) => digestStep h (faultCode f)

def foldEnc (h : UInt64) (r : Except EncErr Coder) : UInt64 :=
  match r with
  | .ok y => foldCoder (digestStep h 0) y
  | .error .outOfRemainders => digestStep h 2
  | .error .impossible => digestStep h 3
  | .error (.fault f) => digestStep h (faultCode f)

def foldExp (h : UInt64) (r : Except ExpErr (List Nat × List Nat)) : UInt64 :=
  match r with
  | .ok (a, b) => foldList (foldList (digestStep h 0) a.reverse) b.reverse
  | .error .notWhole => digestStep h 8
  | .error (.fault f) => digestStep h (faultCode f)

/-- `for i in lo..=hi` fold -/
def forRange (lo hi : Nat) (init : σ) (f : σ → Nat → σ) : σ :=
  (List.range' lo (hi + 1 - lo)).foldl f init

structure Acc where
  n : Nat := 0
  h : UInt64 := digestInit

def Acc.step (a : Acc) (g : UInt64 → UInt64) : Acc := { n := a.n + 1, h := g a.h }

def mkCoder (comp rems : List Nat) (hc hr : Nat) : Coder :=
  { compressed := comp, remainders := rems, heads := { compressed := hc, remainders := hr } }

/-- the words tried as top of a stack in the remainders-side sweeps -/
def probeWords (W : Nat) : List Nat := [0, 1, 2^(W-1), 2^W - 1]

def sweep (W S P B : Nat) (kind : String) (lo hi : Nat) : Option Acc :=
  let c := cfgOf W S P B
  let top := 2^P
  let hr0 := 2^(S - W - P)
  match kind with
  | "decbits" =>
    -- all compressed heads `hc ∈ [lo, hi]` × all next words; 2-symbol model
    some <| forRange lo hi {} fun a hc =>
      forRange 0 (2^W - 1) a fun a w =>
        a.step fun h => foldDec h (decode c (tableModel [0, top / 2, top]) (mkCoder [w] [] hc hr0))
  | "decbits0" =>
    -- same with an empty compressed stack
    some <| forRange lo hi {} fun a hc =>
      a.step fun h => foldDec h (decode c (tableModel [0, top / 2, top]) (mkCoder [] [] hc hr0))
  | "decrem" =>
    -- all remainders heads `hr ∈ [lo, hi]` × all `p` × all remainders `< p`, `cum ∈ {0, 2^P - p}`
    some <| forRange lo hi {} fun a hr =>
      forRange 1 (top - 1) a fun a p =>
        forRange 0 (p - 1) a fun a r =>
          let a := a.step fun h => foldDec h (decode c (tableModel [0, p, top]) (mkCoder [r] [] 1 hr))
          a.step fun h => foldDec h (decode c (tableModel [0, top - p, top]) (mkCoder [top - p + r] [] 1 hr))
  | "encbits" =>
    some <| forRange lo hi {} fun a hc =>
      forRange 0 (top - 1) a fun a q =>
        a.step fun h => foldEnc h (encodeCP c (mkCoder [] [] hc hr0) q 1)
  | "encrem" =>
    some <| forRange lo hi {} fun a hr =>
      forRange 1 (top - 1) a fun a p =>
        let a := a.step fun h => foldEnc h (encodeCP c (mkCoder [] [] 1 hr) 0 p)
        let a := a.step fun h => foldEnc h (encodeCP c (mkCoder [] [] 1 hr) (top - p) p)
        (probeWords W).foldl (fun a w =>
          a.step fun h => foldEnc h (encodeCP c (mkCoder [] [w] 1 hr) 0 p)) a
  | "cp" =>
    -- `B` is (ab)used as the new precision
    if !precOk W S B then none else
    some <| forRange lo hi {} fun a hr =>
      let a := a.step fun h => foldEnc h (changePrecision c B (mkCoder [] [] 1 hr))
      (probeWords W).foldl (fun a w =>
        a.step fun h => foldEnc h (changePrecision c B (mkCoder [] [w] 1 hr))) a
  | "export" =>
    some <| forRange lo hi {} fun a hr =>
      [1, 2, 2^W - 1].foldl (fun a hc =>
        let x := mkCoder [5] [7] hc hr
        let a := a.step fun h => match intoRemainders c x with
          | .ok (p, s) => foldList (foldList (digestStep h 0) p.reverse) s.reverse
          | .error f => digestStep h (faultCode f)
        let a := a.step fun h => foldExp h (intoCompressed c x)
        a.step fun h => foldExp h (intoBinary c x)) a
  | "import" =>
    -- constructors on two-word stacks `[w0, w1]` (w1 on top) over a third probe word below
    some <| forRange lo hi {} fun a w1 =>
      forRange 0 (2^W - 1) a fun a w0 =>
        (probeWords W).foldl (fun a w =>
          let src := [w1, w0, w, 3]
          let f (r : Option Coder) (h : UInt64) : UInt64 := match r with
            | some y => foldCoder (digestStep h 0) y
            | none => digestStep h 9
          let a := a.step (f (fromBinary c src))
          let a := a.step (f (fromCompressed c src))
          a.step (f (fromRemainders c src))) a
  | _ => none

def handle (segs : List (List String)) : String :=
  match segs with
  | ["chain", w, s, p] :: init :: ops =>
    match parseHex w, parseHex s, parseHex p with
    | some W, some S, some P =>
      if !(precOk W S P && compiledP W S P) then "unsupported" else
      match doInit W S P init with
      | some (some x) => " | ".intercalate (runOps W S { x := x, P := P } ops ["ok"])
      | some none => "err"
      | none => "bad-op"
    | _, _, _ => "bad-op"
  | [["chainsweep", w, s, p, b, kind, lo, hi]] =>
    match parseHex w, parseHex s, parseHex p, parseHex b, parseHex lo, parseHex hi with
    | some W, some S, some P, some B, some lo, some hi =>
      if !(W == 8 && S == 16) then "unsupported" else
      if !compiledP W S P then "bad-op" else
      -- the swept variable is a compressed head (`u8`, non-zero) or a remainders head (`u16`)
      let overHc := kind == "decbits" || kind == "decbits0" || kind == "encbits"
      let overW := kind == "import"
      let top := if overHc || overW then 0xff else 0xffff
      if hi > top || (overHc && lo == 0) then "bad-op" else
      if kind == "cp" && !compiledP W S B then "bad-op" else
      if kind != "cp" && !compiledBP W S B P then "bad-op" else
      match sweep W S P B kind lo hi with
      | some a => toString a.n ++ " " ++ toHex a.h.toNat
      | none => "bad-op"
    | _, _, _, _, _, _ => "bad-op"
  | _ => "bad-op"

end CV.Driver.Chain
