import CV.Model.Huff
import CV.Driver.Util
/-!
Line protocol for the Huffman codebooks:

`huff <ty> | <weights> | op | op …`

* `ty` ∈ `u8 u16 u32 u64 usize` (weights: hex naturals) or `f32 f64` (weights: hex IEEE **bit
  patterns**, so that sums round on both sides exactly as in the Rust code; NaN patterns are
  rejected by the constructor).
* `weights`: comma separated, `nan` = NaN (float types) / an injected `Err` item of
  `try_from_probabilities` (integer types); `-` = empty list.
  Output: `<enc status> <dec status>` (`ok`, `rejected`, `panic:…`); the line ends there unless
  both are `ok`.
* ops: `enc` (encoder array), `dec` (decoder table, flattened), `ns` (both `num_symbols`),
  `book` (all codewords in prefix form), `prefix s [cap]`, `suffix s [cap]` (`cap` = number of
  `emit` calls that succeed), `decode <bits>` (`0`/`1`, `x` = the source yields `Err`).
-/
namespace CV.Driver.Huff
open CV CV.Driver CV.Huff

def intWidth : String → Option Nat
  | "u8" => some 8
  | "u16" => some 16
  | "u32" => some 32
  | "u64" => some 64
  | "usize" => some 64
  | _ => none

def parseWeights (s : String) : Option (List (Option Nat)) :=
  if s == "-" then some [] else
  (s.splitOn ",").foldr (fun t acc =>
    match acc with
    | none => none
    | some l =>
      if t == "nan" then some (none :: l)
      else match parseHex t with
        | some v => some (some v :: l)
        | none => none) (some [])

/-- both constructors for one header/weights pair; `none` = unparseable -/
def buildBoth (ty : String) (weights : List (Option Nat)) :
    Option (Except BuildErr (List Nat) × Except BuildErr (List (Nat × Nat))) :=
  match intWidth ty with
  | some n =>
    -- weights are values of the type: a token that does not fit is malformed
    if weights.all (fun w => match w with | some v => v < 2^n | none => true) then
      some (tryEncTree (checkedOps n) weights, tryDecTree (checkedOps n) weights)
    else none
  | none =>
    if ty == "f32" then
      if weights.all (fun w => match w with | some v => v < 2^32 | none => true) then
        let fl : List Float32 := weights.map (fun w => match w with
          | some v => Float32.ofBits (UInt32.ofNat v)
          | none => Float32.ofBits 0x7fc00000)
        let ws := f32Weights fl
        some (tryEncTree f32Ops ws, tryDecTree f32Ops ws)
      else none
    else if ty == "f64" then
      if weights.all (fun w => match w with | some v => v < 2^64 | none => true) then
        let fl : List Float := weights.map (fun w => match w with
          | some v => Float.ofBits (UInt64.ofNat v)
          | none => Float.ofBits 0x7ff8000000000000)
        let ws := f64Weights fl
        some (tryEncTree f64Ops ws, tryDecTree f64Ops ws)
      else none
    else none

def showBits (l : List Bool) : String :=
  if l.isEmpty then "-" else String.ofList (l.map (fun b => if b then '1' else '0'))

def showSrc (l : List (Option Bool)) : String :=
  if l.isEmpty then "-" else String.ofList (l.map (fun
    | some true => '1'
    | some false => '0'
    | none => 'x'))

def parseSrc (s : String) : Option (List (Option Bool)) :=
  if s == "-" then some [] else
  s.toList.foldr (fun c acc =>
    match acc with
    | none => none
    | some l =>
      if c == '0' then some (some false :: l)
      else if c == '1' then some (some true :: l)
      else if c == 'x' then some (none :: l)
      else none) (some [])

def buildStr {α : Type} : Except BuildErr α → String
  | .ok _ => "ok"
  | .error .rejected => "rejected"
  | .error (.fault f) => faultStr f

def encOut (cap : Option Nat) : Except EncErr (List Bool) → String × Bool
  | .ok bits =>
    let (seen, failed) := emitCapped cap bits
    (showBits seen ++ (if failed then " full" else " ok"), false)
  | .error .impossible => ("impossible", false)
  | .error (.fault f) => (faultStr f, true)

def parseCap : List String → Option (Option Nat)
  | [] => some none
  | [c] => (parseHex c).map some
  | _ => none

def bookStr (en : List Nat) : String × Bool :=
  let n := encNumSymbols en
  let rec go (i : Nat) (fuel : Nat) (acc : List String) : String × Bool :=
    match fuel with
    | 0 => (",".intercalate acc.reverse, false)
    | fuel + 1 =>
      match encodePrefix en i with
      | .ok bits => go (i + 1) fuel (showBits bits :: acc)
      | .error .impossible => ("impossible", false)
      | .error (.fault f) => (faultStr f, true)
  go 0 n []

def doOp (en : List Nat) (dn : List (Nat × Nat)) (seg : List String) : Option (String × Bool) :=
  match seg with
  | ["enc"] => some (showList en, false)
  | ["dec"] => some (showList (dn.foldr (fun (x, y) acc => x :: y :: acc) []), false)
  | ["ns"] => some (toHex (encNumSymbols en) ++ " " ++ toHex (decNumSymbols dn), false)
  | ["book"] => some (bookStr en)
  | "prefix" :: s :: cap => do
      let s ← parseHex s
      let cap ← parseCap cap
      some (encOut cap (encodePrefix en s))
  | "suffix" :: s :: cap => do
      let s ← parseHex s
      let cap ← parseCap cap
      some (encOut cap (encodeSuffix en s))
  | ["decode", bits] => do
      let src ← parseSrc bits
      match decode dn src with
      | .ok (s, rest) => some (toHex s ++ " " ++ showSrc rest, false)
      | .error .outOfData => some ("out_of_data", false)
      | .error .backend => some ("readerr", false)
      | .error (.fault f) => some (faultStr f, true)
  | _ => none

def runOps (en : List Nat) (dn : List (Nat × Nat)) : List (List String) → List String → List String
  | [], acc => acc.reverse
  | seg :: rest, acc =>
    match doOp en dn seg with
    | none => ("bad-op" :: acc).reverse
    | some (out, dead) =>
      if dead then (out :: acc).reverse else runOps en dn rest (out :: acc)

def handle (segs : List (List String)) : String :=
  match segs with
  | ["huff", ty] :: [ws] :: ops =>
    match parseWeights ws with
    | some weights =>
      match buildBoth ty weights with
      | some (e, d) =>
        let head := buildStr e ++ " " ++ buildStr d
        match e, d with
        | .ok en, .ok dn => " | ".intercalate (runOps en dn ops [head])
        | _, _ => head
      | none => "bad-op"
    | none => "bad-op"
  | _ => "bad-op"

end CV.Driver.Huff
