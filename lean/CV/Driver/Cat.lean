import CV.Driver.Util
/-! Line protocol for component `cat` (stub; owned by the component's author) -/
namespace CV.Driver.Cat
open CV CV.Driver

def handle (_segs : List (List String)) : String := "bad-op"

end CV.Driver.Cat
