import CV.Model.Cat
import CV.Driver.Util
/-!
Line protocol for component `cat` (integer / fixed-point entropy models)

```
cat.contig   B P probs infer            | op | op …
cat.ncdec    B P syms probs infer       | op …
cat.ncenc    B P syms probs infer       | op …
cat.lookup   B P probs infer            | op …
cat.nclookup B P syms probs infer       | op …
cat.uniform  B P range                  | op …
cat.fast     kind B P n syms            (kind ∈ dec enc lookup; n weights `1.0`; D13 glue)
cat.fromtable target B P s:c:p,…        (target ∈ dec enc lookup gdec genc: `from_iterable_entropy_model`
                                         / `to_generic_*` of a source whose symbol table is this list,
                                         valid or not)
cat.valsweep B P n infer vals           (all tables of length n over `vals`, or `all`)
cat.unisweep B P lo hi                  (all ranges in [lo, hi))
cat.bsearch  arr q                      (transcription of `slice::binary_search_by`)
```
ops: `table`, `support`, `enc s`, `dec q`, `encs s,s,…`, `decs q,q,…`, `decsweep lo hi`,
`encsweep lo hi`, `view`, `tolookup`, `togenenc`, `togendec`, `togenlookup`, `ascontig`,
`intocontig`, `asnc`, `intonc`.
-/
namespace CV.Driver.Cat
open CV CV.Driver CV.Cat

inductive Mdl where
  | contig (m : Contiguous)
  | ncdec (m : NcDec Nat)
  | ncenc (m : NcEnc Nat)
  | lookup (m : Lookup)
  | nclookup (m : NcLookup Nat)
  | uniform (m : Uniform)

/-- result of one step: `n/a`, a fault, or a value -/
inductive R (α : Type) where
  | na
  | unsupported
  | fault (f : Fault)
  | val (a : α)

def liftM {α : Type} : M α → R α
  | .ok a => .val a
  | .error f => .fault f

def lookupOk (B : Nat) : Bool := B == 8 || B == 16

def showTriple (t : Nat × Nat × Nat) : String :=
  toHex t.1 ++ ":" ++ toHex t.2.1 ++ ":" ++ toHex t.2.2

def showTable (l : List (Nat × Nat × Nat)) : String :=
  if l.isEmpty then "-" else ",".intercalate (l.map showTriple)

def mTable (B P : Nat) : Mdl → R (List (Nat × Nat × Nat))
  | .contig m => liftM (m.table B)
  | .ncdec m => liftM (m.table B)
  | .ncenc _ => .na
  | .lookup m => liftM (m.table B)
  | .nclookup m => liftM (m.table B)
  | .uniform m => liftM (m.table B P)

def mEnc (B P : Nat) (s : Nat) : Mdl → R (Option (Nat × Nat))
  | .contig m => liftM (m.enc B s)
  | .ncenc m => .val (m.enc s)
  | .uniform m => liftM (m.enc B P s)
  | _ => .na

def mDec (B P : Nat) (q : Nat) : Mdl → R (Nat × Nat × Nat)
  | .contig m => liftM (m.dec B q)
  | .ncdec m => liftM (m.dec B q)
  | .lookup m => liftM (m.dec B P q)
  | .nclookup m => liftM (m.dec B P q)
  | .uniform m => liftM (m.dec B P q)
  | .ncenc _ => .na

def mSupport : Mdl → R Nat
  | .contig m => liftM m.supportSize
  | .ncdec m => liftM m.supportSize
  | .ncenc m => .val m.supportSize
  | _ => .na

def bindR {α β : Type} : R α → (α → R β) → R β
  | .na, _ => .na
  | .unsupported, _ => .unsupported
  | .fault f, _ => .fault f
  | .val a, k => k a

def mConv (B P : Nat) (op : String) (m : Mdl) : R Mdl :=
  match op, m with
  | "view", .contig m => .val (.contig m)
  | "view", .ncdec m => .val (.ncdec m)
  | "view", .lookup m => .val (.lookup m)
  | "view", .nclookup m => .val (.nclookup m)
  | "tolookup", .contig c =>
      if lookupOk B then bindR (liftM (Lookup.fromContiguous B P c)) (fun l => .val (.lookup l))
      else .unsupported
  | "tolookup", .ncdec d =>
      if lookupOk B then
        bindR (liftM (d.table B)) (fun t => bindR (liftM (NcLookup.fromTable B P t)) (fun l => .val (.nclookup l)))
      else .unsupported
  | "ascontig", .lookup l => .val (.contig l.asContiguous)
  | "intocontig", .lookup l => .val (.contig l.asContiguous)
  | "asnc", .nclookup l => .val (.ncdec l.asNcDec)
  | "intonc", .nclookup l => .val (.ncdec l.asNcDec)
  | "togenenc", m =>
      bindR (mTable B P m) (fun t => .val (.ncenc (NcEnc.fromTable t)))
  | "togendec", m =>
      bindR (mTable B P m) (fun t => bindR (liftM (NcDec.fromTable B P t)) (fun d => .val (.ncdec d)))
  | "togenlookup", m =>
      match m with
      | .ncenc _ => .na
      | _ =>
        if lookupOk B then
          bindR (mTable B P m) (fun t => bindR (liftM (NcLookup.fromTable B P t)) (fun l => .val (.nclookup l)))
        else .unsupported
  | _, _ => .na

def showEnc : Option (Nat × Nat) → String
  | none => "none"
  | some (c, p) => toHex c ++ " " ++ toHex p

/-- outputs for list forms: entries joined by `,` -/
def encsGo (B P : Nat) (m : Mdl) : List Nat → List String → (String × Bool)
  | [], acc => (if acc.isEmpty then "-" else ",".intercalate acc.reverse, false)
  | s :: rest, acc =>
    match mEnc B P s m with
    | .na => ("n/a", false)
    | .unsupported => ("unsupported", false)
    | .fault f => (faultStr f, true)
    | .val none => encsGo B P m rest ("x" :: acc)
    | .val (some (c, p)) => encsGo B P m rest ((toHex c ++ ":" ++ toHex p) :: acc)

def decsGo (B P : Nat) (m : Mdl) : List Nat → List String → (String × Bool)
  | [], acc => (if acc.isEmpty then "-" else ",".intercalate acc.reverse, false)
  | q :: rest, acc =>
    match mDec B P q m with
    | .na => ("n/a", false)
    | .unsupported => ("unsupported", false)
    | .fault f => (faultStr f, true)
    | .val t => decsGo B P m rest (showTriple t :: acc)

def showDigest (count : Nat) (h : UInt64) : String := toHex count ++ " " ++ toHex h.toNat

def decSweepGo (B P : Nat) (m : Mdl) (n hi : Nat) : Nat → Nat → UInt64 → (String × Bool)
  | 0, _, h => (showDigest n h, false)   -- unreachable for fuel = hi - lo + 1
  | fuel + 1, q, h =>
    if q ≥ hi then (showDigest n h, false) else
    match mDec B P q m with
    | .na => ("n/a", false)
    | .unsupported => ("unsupported", false)
    | .fault f => (faultStr f, true)
    | .val (s, c, p) => decSweepGo B P m n hi fuel (q + 1) (digestStep (digestStep (digestStep h s) c) p)

def encSweepGo (B P : Nat) (m : Mdl) (n hi : Nat) : Nat → Nat → UInt64 → (String × Bool)
  | 0, _, h => (showDigest n h, false)
  | fuel + 1, s, h =>
    if s ≥ hi then (showDigest n h, false) else
    match mEnc B P s m with
    | .na => ("n/a", false)
    | .unsupported => ("unsupported", false)
    | .fault f => (faultStr f, true)
    | .val none => encSweepGo B P m n hi fuel (s + 1) (digestStep h 0)
    | .val (some (c, p)) => encSweepGo B P m n hi fuel (s + 1) (digestStep (digestStep (digestStep h 1) c) p)

def outR {α : Type} (r : R α) (m : Mdl) (k : α → (Mdl × String × Bool)) : (Mdl × String × Bool) :=
  match r with
  | .na => (m, "n/a", false)
  | .unsupported => (m, "unsupported", false)
  | .fault f => (m, faultStr f, true)
  | .val a => k a

/-- one op; returns new model, output, and whether the history died (panic) -/
def doOp (B P : Nat) (m : Mdl) (seg : List String) : Option (Mdl × String × Bool) :=
  match seg with
  | ["table"] => some (outR (mTable B P m) m (fun t => (m, showTable t, false)))
  | ["syms"] => some (outR (mTable B P m) m (fun t => (m, showList (t.map (·.1)), false)))
  | ["has", s] => do
      let s ← parseHex s
      some (outR (mEnc B P s m) m (fun r => (m, showBool r.isSome, false)))
  | ["support"] => some (outR (mSupport m) m (fun n => (m, toHex n, false)))
  | ["enc", s] => do
      let s ← parseHex s
      some (outR (mEnc B P s m) m (fun r => (m, showEnc r, false)))
  | ["dec", q] => do
      let q ← parseHex q
      some (outR (mDec B P q m) m (fun t => (m, toHex t.1 ++ " " ++ toHex t.2.1 ++ " " ++ toHex t.2.2, false)))
  | ["encs", l] => do
      let l ← parseList l
      let (o, d) := encsGo B P m l []
      some (m, o, d)
  | ["decs", l] => do
      let l ← parseList l
      let (o, d) := decsGo B P m l []
      some (m, o, d)
  | ["decsweep", lo, hi] => do
      let lo ← parseHex lo
      let hi ← parseHex hi
      let (o, d) := decSweepGo B P m (hi - lo) hi (hi - lo + 1) lo digestInit
      some (m, o, d)
  | ["encsweep", lo, hi] => do
      let lo ← parseHex lo
      let hi ← parseHex hi
      let (o, d) := encSweepGo B P m (hi - lo) hi (hi - lo + 1) lo digestInit
      some (m, o, d)
  | [op] =>
      if ["view", "tolookup", "togenenc", "togendec", "togenlookup", "ascontig", "intocontig",
          "asnc", "intonc"].contains op then
        some (outR (mConv B P op m) m (fun m' => (m', "ok", false)))
      else none
  | _ => none

def runOps (B P : Nat) : Mdl → List (List String) → List String → List String
  | _, [], acc => acc.reverse
  | m, seg :: rest, acc =>
    match doOp B P m seg with
    | none => ("bad-op" :: acc).reverse
    | some (m', out, dead) =>
      if dead then (out :: acc).reverse else runOps B P m' rest (out :: acc)

def parseBool (s : String) : Option Bool :=
  if s == "1" then some true else if s == "0" then some false else none

def parseTriple (s : String) : Option (Nat × Nat × Nat) :=
  match s.splitOn ":" with
  | [a, c, p] => do
      let a ← parseHex a; let c ← parseHex c; let p ← parseHex p
      some (a, c, p)
  | _ => none

/-- `s:c:p,s:c:p,…`; `-` is the empty table -/
def parseTriples (s : String) : Option (List (Nat × Nat × Nat)) :=
  if s == "-" then some [] else
  (s.splitOn ",").foldr (fun t acc => match parseTriple t, acc with
    | some v, some l => some (v :: l)
    | _, _ => none) (some [])

/-- constructor segment → `R (Option Mdl)` (`none` = `Err(())`) -/
def doCtor (seg : List String) : Option (Nat × Nat × R (Option Mdl)) :=
  match seg with
  | ["cat.contig", b, p, probs, infer] => do
      let B ← parseHex b; let P ← parseHex p
      let probs ← parseList probs; let infer ← parseBool infer
      some (B, P, .val ((Contiguous.fromNonzeroFixedPoint B P probs infer).map .contig))
  | ["cat.ncdec", b, p, syms, probs, infer] => do
      let B ← parseHex b; let P ← parseHex p
      let syms ← parseList syms
      let probs ← parseList probs; let infer ← parseBool infer
      some (B, P, bindR (liftM (NcDec.fromSymbolsAndNonzeroFixedPoint B P syms probs infer))
        (fun o => .val (o.map .ncdec)))
  | ["cat.ncenc", b, p, syms, probs, infer] => do
      let B ← parseHex b; let P ← parseHex p
      let syms ← parseList syms
      let probs ← parseList probs; let infer ← parseBool infer
      some (B, P, .val ((NcEnc.fromSymbolsAndNonzeroFixedPoint B P syms probs infer).map .ncenc))
  | ["cat.lookup", b, p, probs, infer] => do
      let B ← parseHex b; let P ← parseHex p
      let probs ← parseList probs; let infer ← parseBool infer
      if !lookupOk B then some (B, P, .unsupported) else
      some (B, P, .val ((Lookup.fromNonzeroFixedPoint B P probs infer).map .lookup))
  | ["cat.nclookup", b, p, syms, probs, infer] => do
      let B ← parseHex b; let P ← parseHex p
      let syms ← parseList syms
      let probs ← parseList probs; let infer ← parseBool infer
      if !lookupOk B then some (B, P, .unsupported) else
      some (B, P, bindR (liftM (NcLookup.fromSymbolsAndNonzeroFixedPoint B P syms probs infer))
        (fun o => .val (o.map .nclookup)))
  | ["cat.uniform", b, p, range] => do
      let B ← parseHex b; let P ← parseHex p
      let range ← parseHex range
      let range := narrow U range   -- the harness reads it into a `usize`
      some (B, P, bindR (liftM (Uniform.new B P range)) (fun u => .val (some (.uniform u))))
  | ["cat.fromtable", target, b, p, tbl] => do
      let B ← parseHex b; let P ← parseHex p
      let t ← parseTriples tbl
      -- only what the types can express (`NonZero` probabilities, values of type `Probability`)
      if t.any (fun e => e.2.2 == 0 || e.2.2 ≥ 2^B || e.2.1 ≥ 2^B) then none else
      match target with
      | "dec" | "gdec" =>
        some (B, P, bindR (liftM (NcDec.fromTable B P t)) (fun d => .val (some (.ncdec d))))
      | "enc" | "genc" => some (B, P, .val (some (.ncenc (NcEnc.fromTable t))))
      | "lookup" =>
        if !lookupOk B then some (B, P, .unsupported) else
        some (B, P, bindR (liftM (NcLookup.fromTable B P t)) (fun l => .val (some (.nclookup l))))
      | _ => none
  | ["cat.fast", kind, b, p, n, syms] => do
      let B ← parseHex b; let P ← parseHex p
      let n ← parseHex n
      let syms ← parseList syms
      -- `fast_quantized_cdf` rejects `len < 2 || len >= 2^P - 1` (in `usize`); its output for `n`
      -- equal weights is replaced by the placeholder `0, 1, …, n-1` (only lengths, symbols
      -- and acceptance are observed through this line kind)
      if n < 2 ∨ n ≥ wsub U (wrappingPow2 U P) 1 then some (B, P, .val none) else
      let cdf := List.range n
      match kind with
      | "dec" => some (B, P, bindR (liftM (NcDec.fromSymbolsAndCdf B P syms cdf)) (fun o => .val (o.map .ncdec)))
      | "enc" => some (B, P, bindR (liftM (NcEnc.fromSymbolsAndCdf B P syms cdf)) (fun o => .val (o.map .ncenc)))
      | "lookup" =>
        if !lookupOk B then some (B, P, .unsupported) else
        some (B, P, bindR (liftM (NcLookup.fromSymbolsAndCdf B P syms cdf)) (fun o => .val (o.map .nclookup)))
      | _ => none
  | _ => none

/-! ### sweeps -/

/-- next table in lexicographic order over indices into `vals` (little end first);
    `none` after the last -/
def nextIdx (k : Nat) : List Nat → Option (List Nat)
  | [] => none
  | i :: rest =>
    if i + 1 < k then some ((i + 1) :: rest)
    else match nextIdx k rest with
      | none => none
      | some r => some (0 :: r)

def digestList (h : UInt64) (l : List Nat) : UInt64 := l.foldl digestStep h

partial def valSweepGo (B P : Nat) (infer : Bool) (vals : Array Nat) (idx : List Nat)
    (count acc : Nat) (h : UInt64) : String :=
  let probs := idx.map (fun i => vals[i]!)
  let (acc, h) :=
    match Contiguous.fromNonzeroFixedPoint B P probs infer with
    | none => (acc, digestStep h 0)
    | some m => (acc + 1, digestList (digestStep h 1) m.cdf)
  match nextIdx vals.size idx with
  | none => toHex (count + 1) ++ " " ++ toHex acc ++ " " ++ toHex h.toNat
  | some idx => valSweepGo B P infer vals idx (count + 1) acc h

def uniDigest (B P : Nat) (range : Nat) (h : UInt64) : UInt64 :=
  match Uniform.new B P range with
  | .error _ => digestStep h 0
  | .ok u =>
    let h := digestStep (digestStep (digestStep h 1) u.ppb) u.last
    -- every symbol 0 ..= range (one past the end) and every quantile (if 2^P ≤ 2^12)
    let h := (List.range (range + 2)).foldl (fun h s =>
      match u.enc B P s with
      | .ok (some (c, p)) => digestStep (digestStep (digestStep h 1) c) p
      | .ok none => digestStep h 0
      | .error _ => digestStep h 2) h
    if P ≤ 12 then
      (List.range (2^P)).foldl (fun h q =>
        match u.dec B P q with
        | .ok (s, c, p) => digestStep (digestStep (digestStep h s) c) p
        | .error _ => digestStep h 2) h
    else h

def handle (segs : List (List String)) : String :=
  match segs with
  | [["cat.valsweep", b, p, n, infer, vals]] =>
    match parseHex b, parseHex p, parseHex n, parseBool infer with
    | some B, some P, some n, some infer =>
      let vals : Option (Array Nat) :=
        if vals == "all" then some (Array.range (2^B)) else (parseList vals).map List.toArray
      match vals with
      | some vals =>
        if vals.size == 0 then "bad-op" else
        valSweepGo B P infer vals (List.replicate n 0) 0 0 digestInit
      | none => "bad-op"
    | _, _, _, _ => "bad-op"
  | [["cat.unisweep", b, p, lo, hi]] =>
    match parseHex b, parseHex p, parseHex lo, parseHex hi with
    | some B, some P, some lo, some hi =>
      let h := (List.range (hi - lo)).foldl (fun h i => uniDigest B P (lo + i) h) digestInit
      toHex (hi - lo) ++ " " ++ toHex h.toNat
    | _, _, _, _ => "bad-op"
  | [["cat.bsearch", arr, q]] =>
    match parseList arr, parseHex q with
    | some a, some q =>
      match bsearch a q with
      | .ok i => toHex i
      | .error f => faultStr f
    | _, _ => "bad-op"
  | ctor :: ops =>
    match doCtor ctor with
    | none => "bad-op"
    | some (B, P, r) =>
      match r with
      | .na => "n/a"
      | .unsupported => "unsupported"
      | .fault f => faultStr f
      | .val none => "rejected"
      | .val (some m) => " | ".intercalate (runOps B P m ops ["ok"])
  | _ => "bad-op"

end CV.Driver.Cat
