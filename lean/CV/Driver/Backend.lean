import CV.Model.Backend
import CV.Driver.Util
/-!
Line protocol for component `backend`:

  `backend.<kind> W | init | op | op …`

kinds: `vec`, `smallvec` (inline capacity 4), `cursor-owned` (`Vec<W>`), `cursor-box`
(`Box<[W]>`), `cursor-mut` (`&mut [W]`), `cursor-slice` (`&[W]`, read-only),
`rev-cursor`, `rev-cursor-box`, `rev-cursor-mut`, `rev-cursor-slice` (the same wrapped in
`Reverse`), `iter`, `callback`.

iter also: `fallible-loose <script> <loSlack> <hiSlack|inf>` / `infallible-loose …` (an iterator
whose `size_hint` is `(actual - loSlack, actual + hiSlack)`; not exact-size: `remaining_*`
unsupported, `exhausted_*` prints `maybe_exhausted` only).

init: `data <ws>` (vec, smallvec) · `at <ws> <pos>` / `begin <ws>` / `end <ws>` (cursors) ·
`fallible <script>` / `infallible <script>` (iter; script items: hex word, `x` = `Err(())`,
`_` = a `None` hole of a non-fused iterator) · `fallible <failAt>` / `infallible` (callback).

more cursor inits: `at_mut <ws> <pos>` / `end_mut <ws>` (`new_at_pos_mut`, `new_at_write_end_mut`;
writable kinds) · `into_read_s|into_read_q|into_seek_read_s|into_seek_read_q <ws>`
(`IntoReadWords` / `IntoSeekReadWords` on the kind's buffer type) ·
`as_read_s|as_read_q|as_seek_read_s|as_seek_read_q <ws>` (`AsReadWords` / `AsSeekReadWords` on a
`Vec`; gives a `Cursor<_, &[_]>`, so slice kinds only).

ops: `read_s` `read_q` `write w` `extend_from_iter ws` `remaining_s` `remaining_q`
`exhausted_s` `exhausted_q` `space_left` `full` `pos` `seek n` `into_reversed` `roundtrip`
`raw` `bm_set ws` `bm_truncate n` · `as_view prog` `as_mut_view prog` `cloned prog` (make the
temporary object, run `prog` on it, drop it; `prog` = `-` or comma-separated sub-ops
`name` / `name:arg`, lists inside with `.`; output `[o1 ; o2 …]`) · `into_inner w` (callbacks).
-/
namespace CV.Driver.Backend
open CV CV.Driver CV.Backend

def usizeBits : Nat := 64

/-- numbers of the protocol fit in 128 bits (the harness parses them as `u128`); anything
    larger is unparseable on both sides -/
def parseHexB (s : String) : Option Nat :=
  match parseHex s with
  | some n => if n < 2^128 then some n else none
  | none => none

def parseListB (s : String) : Option (List Nat) :=
  if s == "-" then some [] else
  (s.splitOn ",").foldr (fun t acc => match parseHexB t, acc with
    | some v, some l => some (v :: l)
    | _, _ => none) (some [])

def parseUsize (s : String) : Option Nat :=
  match parseHex s with
  | some n => if n < 2^usizeBits then some n else none
  | none => none

def parseWords (W : Nat) (s : String) : Option (List Nat) :=
  (parseListB s).map (fun l => l.map (narrow W))

def parseScript (W : Nat) (s : String) : Option (List (Option Item)) :=
  if s == "-" then some [] else
  (s.splitOn ",").foldr (fun t acc =>
    match acc with
    | none => none
    | some l =>
      if t == "x" then some (some Item.err :: l)
      else if t == "_" then some (none :: l)
      else match parseHexB t with
        | some v => some (some (Item.word (narrow W v)) :: l)
        | none => none) (some [])

def showItem : Item → String
  | .word w => toHex w
  | .err => "x"

def showOut : Out → String
  | .unsupported => "unsupported"
  | .ok => "ok"
  | .err => "err"
  | .full => "full"
  | .cbErr => "cberr"
  | .readErr => "readerr"
  | .word none => "none"
  | .word (some w) => toHex w
  | .item none => "none"
  | .item (some i) => showItem i
  | .num n => toHex n
  | .bool a => showBool a
  | .bools a b => showBool a ++ " " ++ showBool b
  | .extFull n => "full " ++ toHex n
  | .extCbErr n => "cberr " ++ toHex n
  | .dump tag ws n => tag ++ " " ++ showList ws ++ " " ++ toHex n
  | .dumpItems items => if items.isEmpty then "-" else ",".intercalate (items.map showItem)

def showXOut : Backend.XOut → String
  | .one o => showOut o
  | .many os => "[" ++ " ; ".intercalate (os.map showOut) ++ "]"

/-- a sub-op of a view program: `name` or `name:arg` -/
def parseSubOp (W : Nat) (t : String) : Option Op :=
  match t.splitOn ":" with
  | ["read_s"] => some .readS
  | ["read_q"] => some .readQ
  | ["write", w] => (parseHexB w).map (fun v => .write (narrow W v))
  | ["extend_from_iter", ws] =>
    if ws == "-" then some (.extend []) else
    ((ws.splitOn ".").foldr (fun t acc => match parseHexB t, acc with
      | some v, some l => some (narrow W v :: l)
      | _, _ => none) (some [])).map .extend
  | ["remaining_s"] => some .remS
  | ["remaining_q"] => some .remQ
  | ["exhausted_s"] => some .exhS
  | ["exhausted_q"] => some .exhQ
  | ["space_left"] => some .spaceLeft
  | ["full"] => some .full
  | ["pos"] => some .pos
  | ["seek", n] => (parseUsize n).map .seek
  | ["into_reversed"] => some .intoReversed
  | ["raw"] => some .raw
  | _ => none

def parseProg (W : Nat) (s : String) : Option (List Op) :=
  if s == "-" then some [] else
  (s.splitOn ",").foldr (fun t acc => match parseSubOp W t, acc with
    | some o, some l => some (o :: l)
    | _, _ => none) (some [])

/-- `some (backend, "ok")`, or `some (_, "err")` when the constructor refuses -/
def doInit (kind : String) (W : Nat) (seg : List String) : Option (Backend × String) :=
  let dummy : Backend := .vec ⟨[]⟩
  let cursorInit (writable : Bool) (seg : List String) : Option (Option Cursor) :=
    match seg with
    | ["at_mut", ws, p] => do
        if !writable then none
        let l ← parseWords W ws
        let p ← parseUsize p
        some (Cursor.newAtPosMut l p)
    | ["end_mut", ws] => do
        if !writable then none
        let l ← parseWords W ws
        some (some (Cursor.newAtWriteEndMut l))
    | ["into_read_s", ws] => (parseWords W ws).map (fun l => some (Cursor.intoReadWordsStack l))
    | ["into_read_q", ws] => (parseWords W ws).map (fun l => some (Cursor.intoReadWordsQueue l))
    | ["into_seek_read_s", ws] => (parseWords W ws).map (fun l => some (Cursor.intoSeekReadWordsStack l))
    | ["into_seek_read_q", ws] => (parseWords W ws).map (fun l => some (Cursor.intoSeekReadWordsQueue l))
    | ["as_read_s", ws] =>
        if writable then none else (parseWords W ws).map (fun l => some (Cursor.asReadWordsStack l))
    | ["as_read_q", ws] =>
        if writable then none else (parseWords W ws).map (fun l => some (Cursor.asReadWordsQueue l))
    | ["as_seek_read_s", ws] =>
        if writable then none else (parseWords W ws).map (fun l => some (Cursor.asSeekReadWordsStack l))
    | ["as_seek_read_q", ws] =>
        if writable then none else (parseWords W ws).map (fun l => some (Cursor.asSeekReadWordsQueue l))
    | ["at", ws, p] => do
        let l ← parseWords W ws
        let p ← parseUsize p
        some (Cursor.newAtPos l p)
    | ["begin", ws] => do
        let l ← parseWords W ws
        some (some (Cursor.newAtWriteBeginning l))
    | ["end", ws] => do
        let l ← parseWords W ws
        some (some (Cursor.newAtWriteEnd l))
    | _ => none
  let mkCur (writable rev : Bool) : Option (Backend × String) :=
    match cursorInit writable seg with
    | none => none
    | some none => some (dummy, "err")
    | some (some c) => some (.cur writable (if rev then .rev ⟨c⟩ else .fwd c), "ok")
  match kind with
  | "backend.vec" =>
    match seg with
    | ["data", ws] => (parseWords W ws).map (fun l => (.vec ⟨l⟩, "ok"))
    | _ => none
  | "backend.smallvec" =>
    match seg with
    | ["data", ws] => (parseWords W ws).map (fun l => (.smallvec (SmallVecB.ofList 4 l), "ok"))
    | _ => none
  | "backend.cursor-owned" => mkCur true false
  | "backend.cursor-box" => mkCur true false
  | "backend.cursor-mut" => mkCur true false
  | "backend.cursor-slice" => mkCur false false
  | "backend.rev-cursor" => mkCur true true
  | "backend.rev-cursor-box" => mkCur true true
  | "backend.rev-cursor-mut" => mkCur true true
  | "backend.rev-cursor-slice" => mkCur false true
  | "backend.iter" =>
    match seg with
    | ["fallible", sc] => (parseScript W sc).map (fun l => (.iterF ⟨{ script := l }⟩, "ok"))
    | ["infallible", sc] => (parseScript W sc).map (fun l => (.iterI ⟨{ script := l }⟩, "ok"))
    -- loose `size_hint`: lower = actual - loSlack, upper = actual + hiSlack (`inf`: none)
    | ["fallible-loose", sc, lo, hi] =>
      match parseUsize lo, (if hi == "inf" then some 0 else parseUsize hi) with
      | some _, some _ => (parseScript W sc).map (fun l => (.iterFL ⟨{ script := l }⟩, "ok"))
      | _, _ => none
    | ["infallible-loose", sc, lo, hi] =>
      match parseUsize lo, (if hi == "inf" then some 0 else parseUsize hi) with
      | some _, some _ => (parseScript W sc).map (fun l => (.iterIL ⟨{ script := l }⟩, "ok"))
      | _, _ => none
    | _ => none
  | "backend.callback" =>
    match seg with
    | ["fallible", fa] => (parseListB fa).map (fun l => (.cbF { log := [], calls := 0, failAt := l }, "ok"))
    | ["infallible"] => some (.cbI { log := [], calls := 0, failAt := [] }, "ok")
    | _ => none
  | _ => none

def parseBaseOp (W : Nat) (b : Backend) (seg : List String) : Option Op :=
  match seg with
  | ["read_s"] => some .readS
  | ["read_q"] => some .readQ
  | ["write", w] => (parseHexB w).map (fun v => .write (narrow W v))
  | ["extend_from_iter", ws] => (parseWords W ws).map .extend
  | ["remaining_s"] => some .remS
  | ["remaining_q"] => some .remQ
  | ["exhausted_s"] => some .exhS
  | ["exhausted_q"] => some .exhQ
  | ["space_left"] => some .spaceLeft
  | ["full"] => some .full
  | ["pos"] => some .pos
  | ["seek", n] => (parseUsize n).map .seek
  | ["into_reversed"] => some .intoReversed
  | ["roundtrip"] => some .roundtrip
  | ["raw"] => some .raw
  | ["bm_set", ws] => (parseWords W ws).map .bmSet
  | ["bm_truncate", n] =>
    match parseUsize n, b with
    | some n, .cur _ s => some (.bmSet (s.inner.buf.take n))
    | some _, _ => some (.bmSet [])
    | none, _ => none
  | _ => none

def parseOp (W : Nat) (b : Backend) (seg : List String) : Option Backend.XOp :=
  match seg with
  | ["as_view", pr] => (parseProg W pr).map (Backend.XOp.view .shared)
  | ["as_mut_view", pr] => (parseProg W pr).map (Backend.XOp.view .mutable)
  | ["cloned", pr] => (parseProg W pr).map (Backend.XOp.view .cloned)
  | ["into_inner", w] => (parseHexB w).map (fun v => Backend.XOp.intoInnerCall (narrow W v))
  | _ => (parseBaseOp W b seg).map Backend.XOp.base

def runOps (W : Nat) : Backend → List (List String) → List String → List String
  | _, [], acc => acc.reverse
  | b, seg :: rest, acc =>
    match parseOp W b seg with
    | none => ("bad-op" :: acc).reverse
    | some op =>
      match Backend.xstep b op with
      | .ok (o, b') => runOps W b' rest (showXOut o :: acc)
      | .error f => (faultStr f :: acc).reverse

def handle (segs : List (List String)) : String :=
  match segs with
  | [kind, w] :: init :: ops =>
    match parseHexB w with
    | some W =>
      if W == 8 || W == 16 || W == 32 || W == 64 then
        match doInit kind W init with
        | some (b, out) =>
          if out == "err" then "err" else " | ".intercalate (runOps W b ops [out])
        | none => "bad-op"
      else "unsupported"
    | none => "bad-op"
  | _ => "bad-op"

end CV.Driver.Backend
