import CV.Driver.Util
/-! Line protocol for component `bits` (stub; owned by the component's author) -/
namespace CV.Driver.Bits
open CV CV.Driver

def handle (_segs : List (List String)) : String := "bad-op"

end CV.Driver.Bits
