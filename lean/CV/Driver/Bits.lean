import CV.Model.Bits
import CV.Model.BitsExpGolomb
import CV.Driver.Util
/-!
Line protocol for the bit-level coders.

```
bits.stack W | init | op | op …         init: new | cap n | compressed ws
bits.queue W | init | op | op …         init: new | cap n | compressed ws | dec ws
bits.bstack W cap | op | op …           a stack coder over a sink that accepts `cap` words in total
bits.bqueue W cap | op | op …           ops: `w b` -> ok|full, `ws bits` -> ok|full@<accepted>, `r` (stack), `len`, `raw`,
                                         `export` (into_compressed; ends the line) -> words|full
bits.stacksweep W n                      every bit string of length n  ->  "count digest"
bits.queuesweep W n
bits.golomb N v                          codebook only: "prefix suffix"
bits.golombdec N bitstring               codebook only, from a plain bit iterator
bits.golombsweep N lo hi                 -> "count digest"
bits.golombdecsweep N L                  every bit string of length L decoded -> "count digest"
```
ops: `w b`, `ws bitstring`, `r`, `len`, `empty`, `raw`, `export` (into_compressed, then continue
with from_compressed of the result), `getc` (guard), `iter`, `drain` (the `Iterator` impl run to
the end), `todec` (into_decoder), `intoiter` / `intoiterk k` (stack: `into_iterator()`, all /
the first k items), `oiter` / `oiterk k` (queue: `into_overshooting_iter()`), `eg N v`, `egs N form vs`, `dg N`, `dgs N form n`,
`nat bitstring` / `via bitstring` (a codebook that natively / only via the default method emits
the given bits), `mexh`, `clone`.
-/
namespace CV.Driver.Bits
open CV CV.Driver CV.Bits

inductive St where
  | stack (c : Coder)
  | stackDec (c : Coder)
  | qenc (c : Coder)
  | qdec (d : QDecoder)

def showBits (l : List Bool) : String :=
  if l.isEmpty then "-" else String.ofList (l.map (fun b => if b then '1' else '0'))

def parseBits (s : String) : Option (List Bool) :=
  if s == "-" then some [] else
  s.toList.foldr (fun ch acc => match acc with
    | none => none
    | some l => if ch == '1' then some (true :: l) else if ch == '0' then some (false :: l) else none)
    (some [])

def showRaw (c : Coder) : String :=
  showList c.backend.reverse ++ " " ++ toHex c.cw ++ " " ++ toHex c.mask

def showRawD (d : QDecoder) : String :=
  showList d.rest ++ " " ++ toHex d.cw ++ " " ++ toHex d.mask

def showOptBit : Option Bool → String
  | none => "none"
  | some true => "1"
  | some false => "0"

def showSym : Except SymErr Nat → String
  | .ok v => toHex v
  | .error .invalidCodeword => "invalid"
  | .error .outOfCompressedData => "out_of_data"

/-- integer widths for which `ExpGolomb<N>` is compiled into the harness -/
def okN (N : Nat) : Bool := N == 8 || N == 16 || N == 32 || N == 64 || N == 128

abbrev R (σ : Type) := Option (σ × String × Bool)

/-- decode `n` symbols one after the other, stop at the first error -/
def decLoop {σ : Type} (dec : σ → M (σ × Except SymErr Nat)) : Nat → σ → List Nat → σ × String × Bool
  | 0, s, acc => (s, showList acc.reverse, false)
  | k + 1, s, acc =>
    match dec s with
    | .error f => (s, faultStr f, true)
    | .ok (s', .ok v) => decLoop dec k s' (v :: acc)
    | .ok (s', .error e) => (s', showList acc.reverse ++ " " ++ showSym (.error e), false)

/-- encode a list of symbols one after the other -/
def encLoop (enc : Nat → Coder → M Coder) : List Nat → Coder → Coder × String × Bool
  | [], c => (c, "ok", false)
  | v :: vs, c =>
    match enc v c with
    | .error f => (c, faultStr f, true)
    | .ok c' => encLoop enc vs c'

/-- ops shared by the write side of `StackCoder` and `QueueEncoder` -/
def writeOp (W : Nat) (isStack : Bool) (c : Coder) (seg : List String) : Option (Coder × String × Bool) :=
  let encSym (N : Nat) (v : Nat) (c : Coder) : M Coder :=
    if isStack then Stack.encodeSymbol W (EG.encBook N) v c else Queue.encodeSymbol W (EG.encBook N) v c
  match seg with
  | ["w", b] => do
      let b ← parseHex b
      if b > 1 then none else some (writeBit W c (b == 1), "ok", false)
  | ["ws", bs] => do
      let bs ← parseBits bs
      some (writeBits W c bs, "ok", false)
  | ["len"] =>
      match len W c with
      | .ok n => some (c, toHex n, false)
      | .error f => some (c, faultStr f, true)
  | ["empty"] => some (c, showBool (isEmpty c), false)
  | ["raw"] => some (c, showRaw c, false)
  | ["eg", n, v] => do
      let N ← parseHex n
      let v ← parseHex v
      if !okN N || v ≥ 2^N then none else
      match encSym N v c with
      | .ok c' => some (c', "ok", false)
      | .error f => some (c, faultStr f, true)
  | ["egs", n, form, vs] => do
      let N ← parseHex n
      let form ← parseHex form
      let vs ← parseList vs
      if !okN N || vs.any (· ≥ 2^N) then none else
      -- 0 = encode_symbols, 1 = encode_iid_symbols, 2/3 = the `_reverse` forms (stack only)
      if form ≤ 1 then some (encLoop (encSym N) vs c)
      else if form ≤ 3 && isStack then some (encLoop (encSym N) vs.reverse c)
      else none
  | ["nat", bs] => do
      let bs ← parseBits bs
      some (writeBits W c bs, "ok", false)
  | ["via", bs] => do
      let bs ← parseBits bs
      match viaSmallBitStack bs with
      | .ok r => some (writeBits W c r, "ok", false)
      | .error f => some (c, faultStr f, true)
  | _ => none

/-- ops shared by the read side of a stack coder (over `Vec` or over `Cursor`) -/
def stackReadOp (W : Nat) (c : Coder) (seg : List String) : Option (Coder × String × Bool) :=
  match seg with
  | ["r"] => let (b, c') := readBit W c; some (c', showOptBit b, false)
  | ["dg", n] => do
      let N ← parseHex n
      if !okN N then none else
      match Stack.decodeSymbol W (EG.decBook N) c with
      | .ok (c', r) => some (c', showSym r, false)
      | .error f => some (c, faultStr f, true)
  | ["dgs", n, form, k] => do
      let N ← parseHex n
      let form ← parseHex form
      let k ← parseHex k
      if !okN N || form > 1 then none else
      some (decLoop (Stack.decodeSymbol W (EG.decBook N)) k c [])
  | ["drain"] =>
      match Stack.drain W (Stack.fuel W c) c with
      | some (bs, c') => some (c', showBits bs, false)
      | none => some (c, faultStr fuelFault, true)
  | ["len"] =>
      match len W c with
      | .ok n => some (c, toHex n, false)
      | .error f => some (c, faultStr f, true)
  | ["empty"] => some (c, showBool (isEmpty c), false)
  | ["raw"] => some (c, showRaw c, false)
  | _ => none

def doOp (W : Nat) (st : St) (seg : List String) : Option (St × String × Bool) :=
  match st with
  | .stack c =>
    match seg with
    | ["export"] =>
        let ws := Stack.intoCompressed W c
        match Stack.fromCompressed W ws with
        | .ok c' => some (.stack c', showList ws.reverse ++ " ok", false)
        | .error .endsInZero => some (.stack Bits.empty, showList ws.reverse ++ " err", false)
        | .error (.fault f) => some (.stack c, faultStr f, true)
    | ["getc"] =>
        match Stack.getCompressed W c with
        | .ok (ws, c') => some (.stack c', showList ws.reverse, false)
        | .error f => some (.stack c, faultStr f, true)
    | ["iter"] =>
        match Stack.iter W c with
        | .ok bs => some (.stack c, showBits bs, false)
        | .error f => some (.stack c, faultStr f, true)
    | ["todec"] => some (.stackDec (Stack.intoDecoder c), "ok", false)
    | ["intoiter"] =>
        -- `into_iterator()` consumes the coder; the history continues with a fresh one
        match Stack.intoIterator W c with
        | .ok bs => some (.stack Bits.empty, showBits bs, false)
        | .error f => some (.stack c, faultStr f, true)
    | ["intoiterk", k] => do
        let k ← parseHex k
        match Stack.intoIterator W c with
        | .ok bs => some (.stack Bits.empty, showBits (bs.take k), false)
        | .error f => some (.stack c, faultStr f, true)
    | _ =>
      match stackReadOp W c seg with
      | some (c', o, d) => some (.stack c', o, d)
      | none =>
        match writeOp W true c seg with
        | some (c', o, d) => some (.stack c', o, d)
        | none => none
  | .stackDec c =>
    match stackReadOp W c seg with
    | some (c', o, d) => some (.stackDec c', o, d)
    | none => none
  | .qenc c =>
    match seg with
    | ["export"] =>
        let ws := Queue.intoCompressed c
        some (.qenc (Queue.fromCompressed ws), showList ws.reverse ++ " ok", false)
    | ["getc"] =>
        let (ws, c') := Queue.getCompressed c
        some (.qenc c', showList ws.reverse, false)
    | ["todec"] => some (.qdec (Queue.intoDecoder c), "ok", false)
    | ["oiter"] =>
        -- `into_overshooting_iter()` consumes the encoder; the history continues with a fresh one
        match Queue.intoOvershootingIter W c with
        | .ok (bs, _) => some (.qenc Bits.empty, showBits bs, false)
        | .error f => some (.qenc c, faultStr f, true)
    | ["oiterk", k] => do
        let k ← parseHex k
        match Queue.intoOvershootingIter W c with
        | .ok (bs, _) => some (.qenc Bits.empty, showBits (bs.take k), false)
        | .error f => some (.qenc c, faultStr f, true)
    | _ =>
      match writeOp W false c seg with
      | some (c', o, d) => some (.qenc c', o, d)
      | none => none
  | .qdec d =>
    match seg with
    | ["r"] => let (b, d') := QDecoder.readBit W d; some (.qdec d', showOptBit b, false)
    | ["dg", n] => do
        let N ← parseHex n
        if !okN N then none else
        match QDecoder.decodeSymbol W (EG.decBook N) d with
        | .ok (d', r) => some (.qdec d', showSym r, false)
        | .error f => some (.qdec d, faultStr f, true)
    | ["dgs", n, form, k] => do
        let N ← parseHex n
        let form ← parseHex form
        let k ← parseHex k
        if !okN N || form > 1 then none else
        let (d', o, dead) := decLoop (QDecoder.decodeSymbol W (EG.decBook N)) k d []
        some (.qdec d', o, dead)
    | ["drain"] =>
        match QDecoder.iter W d with
        | .ok (bs, d') => some (.qdec d', showBits bs, false)
        | .error f => some (.qdec d, faultStr f, true)
    | ["mexh"] => some (.qdec d, showBool (QDecoder.maybeExhausted W d), false)
    | ["clone"] => some (.qdec d, "ok", false)
    | ["raw"] => some (.qdec d, showRawD d, false)
    | _ => none

def runOps (W : Nat) : St → List (List String) → List String → List String
  | _, [], acc => acc.reverse
  | st, seg :: rest, acc =>
    match doOp W st seg with
    | none => ("bad-op" :: acc).reverse
    | some (st', out, dead) =>
      if dead then (out :: acc).reverse else runOps W st' rest (out :: acc)

def okW (W : Nat) : Bool := W == 8 || W == 16 || W == 32 || W == 64

def doInit (W : Nat) (isStack : Bool) (seg : List String) : Option (Option St) :=
  match seg with
  | ["new"] => some (some (if isStack then .stack Bits.empty else .qenc Bits.empty))
  | ["cap", n] => do
      let _ ← parseHex n
      some (some (if isStack then .stack Bits.empty else .qenc Bits.empty))
  | ["compressed", ws] => do
      let l ← parseList ws
      if l.any (· ≥ 2^W) then none else
      if isStack then
        match Stack.fromCompressed W l.reverse with
        | .ok c => some (some (.stack c))
        | .error _ => some none
      else some (some (.qenc (Queue.fromCompressed l.reverse)))
  | ["dec", ws] => do
      let l ← parseList ws
      if isStack || l.any (· ≥ 2^W) then none else
      some (some (.qdec (QDecoder.fromCompressed l)))
  | _ => none

/-- all bit strings of length `n`, the `i`-th bit of string number `pat` is bit `i` of `pat` -/
def patBits (n pat : Nat) : List Bool := (List.range n).map (fun i => pat.testBit i)

def digList (h : UInt64) (l : List Nat) : UInt64 :=
  l.foldl digestStep (digestStep h l.length)

def digBits (h : UInt64) (l : List Bool) : UInt64 :=
  l.foldl (fun h b => digestStep h (if b then 1 else 0)) (digestStep h l.length)

def digRaw (h : UInt64) (c : Coder) : UInt64 :=
  digestStep (digestStep (digList h c.backend.reverse) c.cw) c.mask

/-- everything observable about a stack coder that holds the bits `bs`, folded into `h` -/
def stackCase (W : Nat) (h : UInt64) (bs : List Bool) : UInt64 :=
  let c := writeBits W Bits.empty bs
  let h := digRaw h c
  let h := match len W c with | .ok n => digestStep h n | .error _ => digestStep h 0xffff
  let h := digestStep h (if isEmpty c then 1 else 0)
  let h := match Stack.iter W c with | .ok l => digBits h l | .error _ => digestStep h 0xfffe
  -- guard: view, representation after the drop, behaviour after the drop
  let h := match Stack.getCompressed W c with
    | .ok (ws, c') =>
      let h := digRaw (digList h ws.reverse) c'
      let c'' := writeBit W c' true
      let (b, c3) := readBit W c''
      digRaw (digestStep h (match b with | none => 2 | some true => 1 | some false => 0)) c3
    | .error _ => digestStep h 0xfffd
  -- export / re-import
  let ws := Stack.intoCompressed W c
  let h := digList h ws.reverse
  match Stack.fromCompressed W ws with
  | .ok c' =>
    let h := digRaw h c'
    let h := match len W c' with | .ok n => digestStep h n | .error _ => digestStep h 0xffff
    match Stack.drain W (Stack.fuel W c') c' with
    | some (l, c'') => digRaw (digBits h l) c''
    | none => digestStep h 0xfffc
  | .error _ => digestStep h 0xfffb

def queueCase (W : Nat) (h : UInt64) (bs : List Bool) : UInt64 :=
  let c := writeBits W Bits.empty bs
  let h := digRaw h c
  let h := match len W c with | .ok n => digestStep h n | .error _ => digestStep h 0xffff
  let h := digestStep h (if isEmpty c then 1 else 0)
  let (ws, c') := Queue.getCompressed c
  let h := digRaw (digList h ws.reverse) c'
  let c'' := writeBit W c' true
  let h := digRaw h c''
  let ws := Queue.intoCompressed c
  let h := digList h ws.reverse
  let c2 := Queue.fromCompressed ws
  let h := match len W c2 with | .ok n => digestStep h n | .error _ => digestStep h 0xffff
  let h := digRaw h (writeBit W c2 true)
  let d := Queue.intoDecoder c
  let h := digestStep h (if QDecoder.maybeExhausted W d then 1 else 0)
  match QDecoder.iter W d with
  | .ok (l, d') =>
    let h := digBits h l
    digestStep (digestStep (digestStep h d'.cw) d'.mask) (if QDecoder.maybeExhausted W d' then 1 else 0)
  | .error _ => digestStep h 0xfffc

def sweepPats (f : UInt64 → List Bool → UInt64) (n : Nat) : Nat → UInt64 → UInt64
  | 0, h => h
  | k + 1, h => sweepPats f n k (f h (patBits n (2^n - 1 - k)))

def showDigest (count : Nat) (h : UInt64) : String := toHex count ++ " " ++ toHex h.toNat

def golombCase (N : Nat) (h : UInt64) (v : Nat) : UInt64 :=
  let h := match EG.prefixBits N v with | .ok l => digBits h l | .error _ => digestStep h 0xffff
  let h := match EG.suffixBits N v with | .ok l => digBits h l | .error _ => digestStep h 0xfffe
  match EG.prefixBits N v with
  | .ok l =>
    let src := l ++ [true, false, true]
    match EG.decode N listSrc (src.length + 1) src with
    | .ok (rest, .ok r) => digestStep (digestStep h r) rest.length
    | .ok (rest, .error _) => digestStep (digestStep h 0xfffd) rest.length
    | .error _ => digestStep h 0xfffc
  | .error _ => h

def golombSweep (N : Nat) (lo : Nat) : Nat → UInt64 → UInt64
  | 0, h => h
  | k + 1, h => golombSweep N (lo + 1) k (golombCase N h lo)

def golombDecCase (N : Nat) (h : UInt64) (bs : List Bool) : UInt64 :=
  match EG.decode N listSrc (bs.length + 1) bs with
  | .ok (rest, .ok r) => digestStep (digestStep h r) rest.length
  | .ok (rest, .error _) => digestStep (digestStep h 0xfffd) rest.length
  | .error _ => digestStep h 0xfffc

/-- one operation on a coder over a bounded sink -/
def boundedOp (W cap : Nat) (isStack : Bool) (c : Coder) (seg : List String) :
    Option (Coder × String × Bool) :=
  match seg with
  | ["w", b] => do
      let b ← parseHex b
      if b > 1 then none else
      let (c', ok) := writeBitB W cap c (b == 1)
      some (c', if ok then "ok" else "full", false)
  | ["ws", bs] => do
      let bs ← parseBits bs
      let (c', acc, ok) := writeBitsB W cap c bs
      some (c', if ok then "ok" else "full@" ++ toHex acc.length, false)
  | ["r"] =>
      if !isStack then none else
      let (b, c') := readBit W c
      some (c', showOptBit b, false)
  | ["len"] =>
      match len W c with
      | .ok n => some (c, toHex n, false)
      | .error f => some (c, faultStr f, true)
  | ["raw"] => some (c, showRaw c, false)
  | ["export"] =>
      let r := if isStack then Stack.intoCompressedB W cap c else Queue.intoCompressedB cap c
      match r with
      | some ws => some (c, showList ws.reverse, true)
      | none => some (c, "full", true)
  | _ => none

def boundedOps (W cap : Nat) (isStack : Bool) : Coder → List (List String) → List String → List String
  | _, [], acc => acc.reverse
  | c, seg :: rest, acc =>
    match boundedOp W cap isStack c seg with
    | none => ("bad-op" :: acc).reverse
    | some (c', out, dead) =>
      if dead then (out :: acc).reverse else boundedOps W cap isStack c' rest (out :: acc)

def handle (segs : List (List String)) : String :=
  match segs with
  | ["bits.bstack", w, cap] :: ops =>
    match parseHex w, parseHex cap with
    | some W, some cap =>
      if !okW W then "unsupported" else
      " | ".intercalate (boundedOps W cap true Bits.empty ops ["ok"])
    | _, _ => "bad-op"
  | ["bits.bqueue", w, cap] :: ops =>
    match parseHex w, parseHex cap with
    | some W, some cap =>
      if !okW W then "unsupported" else
      " | ".intercalate (boundedOps W cap false Bits.empty ops ["ok"])
    | _, _ => "bad-op"
  | [kind, w] :: init :: ops =>
    if kind != "bits.stack" && kind != "bits.queue" then "bad-op" else
    match parseHex w with
    | some W =>
      if !okW W then "unsupported" else
      match doInit W (kind == "bits.stack") init with
      | some (some st) => " | ".intercalate (runOps W st ops ["ok"])
      | some none => "err"
      | none => "bad-op"
    | none => "bad-op"
  | [["bits.stacksweep", w, n]] =>
    match parseHex w, parseHex n with
    | some W, some n =>
      if !okW W || n > 24 then "unsupported" else
      showDigest (2^n) (sweepPats (stackCase W) n (2^n) digestInit)
    | _, _ => "bad-op"
  | [["bits.queuesweep", w, n]] =>
    match parseHex w, parseHex n with
    | some W, some n =>
      if !okW W || n > 24 then "unsupported" else
      showDigest (2^n) (sweepPats (queueCase W) n (2^n) digestInit)
    | _, _ => "bad-op"
  | [["bits.golomb", n, v]] =>
    match parseHex n, parseHex v with
    | some N, some v =>
      if !okN N || v ≥ 2^N then "unsupported" else
      match EG.prefixBits N v, EG.suffixBits N v with
      | .ok p, .ok s => showBits p ++ " " ++ showBits s
      | .error f, _ => faultStr f
      | _, .error f => faultStr f
    | _, _ => "bad-op"
  | [["bits.golombdec", n, bs]] =>
    match parseHex n, parseBits bs with
    | some N, some bs =>
      if !okN N then "unsupported" else
      match EG.decode N listSrc (bs.length + 1) bs with
      | .ok (rest, r) => showSym r ++ " " ++ toHex rest.length
      | .error f => faultStr f
    | _, _ => "bad-op"
  | [["bits.golombsweep", n, lo, hi]] =>
    match parseHex n, parseHex lo, parseHex hi with
    | some N, some lo, some hi =>
      if !okN N || hi ≥ 2^N || hi < lo then "unsupported" else
      showDigest (hi - lo + 1) (golombSweep N lo (hi - lo + 1) digestInit)
    | _, _, _ => "bad-op"
  | [["bits.golombdecsweep", n, l]] =>
    match parseHex n, parseHex l with
    | some N, some L =>
      if !okN N || L > 24 then "unsupported" else
      showDigest (2^L) (sweepPats (golombDecCase N) L (2^L) digestInit)
    | _, _ => "bad-op"
  | _ => "bad-op"

end CV.Driver.Bits
