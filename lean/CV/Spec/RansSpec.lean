/-!
# Reference specification of streaming rANS (after Duda), written with `/ % * +` only

No machine words, no wrap-around, no faults, no backends: a state `x : Nat`, a list of emitted
base-`2^W` words, the documented normalisation interval and word order.  This is the
implementation-independent definition that C06 pins the stack coder's bit stream to.
-/
namespace CV.RansSpec

structure St where
  /-- words emitted so far, oldest first -/
  emitted : List Nat
  /-- the rANS state -/
  x : Nat
  deriving Repr, DecidableEq

def init : St := { emitted := [], x := 0 }

/-- Renormalise before pushing a symbol of probability `p / 2^P`: while the state is too large
    for the push to stay below `2^S` (i.e. `x ≥ p · 2^(S-P)`), move its `W` least significant
    bits to the output. (`fuel` bounds the loop; `S / W + 1` iterations always suffice.) -/
def renorm (W S P p : Nat) : Nat → St → St
  | 0, st => st
  | fuel + 1, st =>
    if p * 2^(S - P) ≤ st.x then
      renorm W S P p fuel { emitted := st.emitted ++ [st.x % 2^W], x := st.x / 2^W }
    else st

/-- push one symbol with left cumulative `cum` and probability `p` (in units of `2^-P`) -/
def push (W S : Nat) (st : St) (e : Nat × Nat × Nat) : St :=
  let P := e.1
  let cum := e.2.1
  let p := e.2.2
  let st := renorm W S P p (S / W + 1) st
  { st with x := (st.x / p) * 2^P + cum + st.x % p }

/-- base-`2^W` digits of `x`, least significant first, without leading (most significant) zeros -/
def digits (W : Nat) : Nat → Nat → List Nat
  | 0, _ => []
  | fuel + 1, x => if x = 0 then [] else (x % 2^W) :: digits W fuel (x / 2^W)

/-- the compressed words after pushing `syms` (each `(P, cum, p)`) in order onto an empty coder:
    everything emitted, then the final state, least significant word first -/
def words (W S : Nat) (syms : List (Nat × Nat × Nat)) : List Nat :=
  let st := syms.foldl (push W S) init
  st.emitted ++ digits W (S + 1) st.x

end CV.RansSpec
