/-!
# Reference range coder in arbitrary precision (no registers, no carries, no situations)

This file deliberately imports nothing and does not mention the implementation's
bookkeeping (`bulk`, `lower`, `situation`, wrapping arithmetic).  It is the textbook
carry-less description of range coding with the word order, renormalisation threshold and
sealing rule documented in `notes/range-coding.md`:

* the coder state after some symbols is an interval `[Lo, Lo + R)` of naturals, to be read
  at scale `2^(W·m + S)` (i.e. it denotes `[Lo, Lo+R) / 2^(W·m+S) ⊆ [0, 1)`);
* encoding `(cum, p)` at precision `P`: `scale = ⌊R / 2^P⌋`, `Lo += scale·cum`,
  `R = scale·p`; if then `R < 2^(S−W)` both are multiplied by `2^W` and `m` grows by one;
* sealing: `X = Lo + 2^(S−W) − 1` lies in the interval; the output is `X` truncated to its
  `m + 1` most significant words (big-endian), followed by one zero word iff the most
  significant register word of the interval's upper end `Lo + R` equals that of `X`.
  The empty message is encoded as no words at all.
-/
namespace CV.RangeSpec

structure St where
  Lo : Nat
  R : Nat
  m : Nat
  deriving Repr, DecidableEq, Inhabited

def init (S : Nat) : St := { Lo := 0, R := 2^S - 1, m := 0 }

/-- one symbol with left cumulative `cum` and probability `p` at precision `P` -/
def step (W S : Nat) (st : St) (P cum p : Nat) : St :=
  let scale := st.R / 2^P
  let lo := st.Lo + scale * cum
  let r := scale * p
  if r < 2^(S - W) then { Lo := lo * 2^W, R := r * 2^W, m := st.m + 1 }
  else { Lo := lo, R := r, m := st.m }

/-- a message is a list of `(P, cum, p)` -/
def run (W S : Nat) (st : St) : List (Nat × Nat × Nat) → St
  | [] => st
  | (P, cum, p) :: rest => run W S (step W S st P cum p) rest

/-- exactly `k` base-`2^W` digits of `x`, most significant first (`x` taken modulo `2^(W·k)`) -/
def digits (W : Nat) : Nat → Nat → List Nat
  | 0, _ => []
  | k + 1, x => digits W k (x / 2^W) ++ [x % 2^W]

/-- the sealed words of a state -/
def sealWords (W S : Nat) (st : St) : List Nat :=
  let X := st.Lo + 2^(S - W) - 1
  let pointDigits := digits W (st.m + 1) (X / 2^(S - W))
  let pointWord := (X / 2^(S - W)) % 2^W
  let upperWord := ((st.Lo + st.R) / 2^(S - W)) % 2^W
  pointDigits ++ (if upperWord = pointWord then [0] else [])

/-- the compressed representation of a message -/
def words (W S : Nat) (msg : List (Nat × Nat × Nat)) : List Nat :=
  match msg with
  | [] => []
  | _ :: _ => sealWords W S (run W S (init S) msg)

end CV.RangeSpec
