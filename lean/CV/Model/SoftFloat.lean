import CV.Model.QuantFloatReplica
/-!
# A software model of IEEE-754 binary arithmetic (import-free, executable)

`CV.Model.QuantFloatReplica` runs the crate's float→fixed computations on Lean's *native*
`Float`/`Float32`, about which nothing can be proved for all inputs.  This file defines the same
operations — `+`, `*`, `/`, `<=`, `as u{B}` (saturating), `u64 as F` — from first principles on
natural numbers, for an arbitrary binary interchange format (`p` significand bits including the
hidden one, `ebits` exponent bits; `binary32 = ⟨24, 8⟩`, `binary64 = ⟨53, 11⟩`), with
round-to-nearest-even, gradual underflow, signed zeros, infinities and NaN.  It is an instance of
the same `FOps` interface, so every definition of the replica (`fastSetup`, `FastCtx.hE`, the lazy
model's skip phase, …) runs unchanged on it.

A finite value is `(-1)^neg * k * 2^-M` with `k : Nat` and `M = bias + p - 2` (149 / 1074): every
finite float of the format is an integer multiple of the smallest subnormal.  Sums of two finite
values are therefore integers in that unit; products and quotients are rationals `num / den`, and
one function `roundMag num den` (round to nearest, ties to even, at the precision the magnitude
calls for; `none` = overflow to infinity) is the only place where rounding happens.

Tie to the code: the driver answers every `quant.fast` / `quant.lazy` protocol line with *this*
model (and cross-checks it against the native replica), so the correspondence run compares the
crate's hardware floats with the software model bit for bit on every sampled table
(`CV/Driver/Quant.lean`).  The theorems of `CV.Proofs.SoftFloatMono` / `Properties/C03_ieee` are
about this model, for all inputs.
-/
namespace CV.Quant

/-- a binary interchange format: `p` = significand bits incl. the hidden bit, `ebits` = exponent bits -/
structure Fmt where
  p : Nat
  ebits : Nat
  deriving Repr, DecidableEq

def binary32 : Fmt := ⟨24, 8⟩
def binary64 : Fmt := ⟨53, 11⟩

namespace Fmt
variable (f : Fmt)
/-- all-ones exponent field -/
def expMask : Nat := 2 ^ f.ebits - 1
def bias : Nat := 2 ^ (f.ebits - 1) - 1
/-- finite values are multiples of `2^-M` -/
def M : Nat := f.bias + f.p - 2
/-- magnitudes (in units of `2^-M`) at or above `2^(p + emaxShift)`... i.e. `limit` overflow -/
def limit : Nat := 2 ^ (f.p + (f.expMask - 2))
end Fmt

/-- a float: finite (sign, magnitude in units of `2^-M`), infinite, or NaN -/
inductive SF where
  | fin (neg : Bool) (k : Nat)
  | inf (neg : Bool)
  | nan
  deriving Repr, DecidableEq, Inhabited

/-- `a / b` rounded to the nearest integer, ties to even (`b > 0`) -/
def rneDiv (a b : Nat) : Nat :=
  let q := a / b
  let r := a % b
  if 2 * r < b then q
  else if b < 2 * r then q + 1
  else if q % 2 = 0 then q else q + 1

/-- the exponent (shift) at which `num / den` is rounded: `0` below `2^p` (subnormals and the
    first normal binade have spacing one unit), otherwise `bitlength ⌊num/den⌋ - p` -/
def roundShift (f : Fmt) (num den : Nat) : Nat :=
  let q := num / den
  if q < 2 ^ f.p then 0 else q.log2 + 1 - f.p

/-- round the non-negative rational `num / den` (in units of `2^-M`) to the format;
    `none` = the rounded magnitude exceeds the largest finite value (overflow to infinity) -/
def roundMag (f : Fmt) (num den : Nat) : Option Nat :=
  let e := roundShift f num den
  let k := rneDiv num (den * 2 ^ e) * 2 ^ e
  if k ≥ f.limit then none else some k

def SF.ofMag (neg : Bool) : Option Nat → SF
  | some k => .fin neg k
  | none => .inf neg

namespace Fmt
variable (f : Fmt)

def ofBits (bits : Nat) : SF :=
  let neg := (bits >>> (f.p - 1 + f.ebits)) % 2 == 1
  let ef := (bits >>> (f.p - 1)) % 2 ^ f.ebits
  let mant := bits % 2 ^ (f.p - 1)
  if ef = f.expMask then (if mant = 0 then .inf neg else .nan)
  else if ef = 0 then .fin neg mant
  else .fin neg ((2 ^ (f.p - 1) + mant) <<< (ef - 1))

def toBits : SF → Nat
  | .nan => (f.expMask <<< (f.p - 1)) ||| (1 <<< (f.p - 2))
  | .inf neg => ((if neg then 1 else 0) <<< (f.p - 1 + f.ebits)) ||| (f.expMask <<< (f.p - 1))
  | .fin neg k =>
    let s := (if neg then 1 else 0) <<< (f.p - 1 + f.ebits)
    if k < 2 ^ (f.p - 1) then s ||| k
    else
      let e := k.log2 + 1 - f.p
      s ||| ((e + 1) <<< (f.p - 1)) ||| ((k >>> e) - 2 ^ (f.p - 1))

def add : SF → SF → SF
  | .nan, _ => .nan
  | _, .nan => .nan
  | .inf a, .inf b => if a = b then .inf a else .nan
  | .inf a, .fin _ _ => .inf a
  | .fin _ _, .inf b => .inf b
  | .fin n1 k1, .fin n2 k2 =>
    if n1 = n2 then .ofMag n1 (roundMag f (k1 + k2) 1)
    else if k1 = k2 then .fin false 0
    else if k2 < k1 then .ofMag n1 (roundMag f (k1 - k2) 1)
    else .ofMag n2 (roundMag f (k2 - k1) 1)

def mul : SF → SF → SF
  | .nan, _ => .nan
  | _, .nan => .nan
  | .inf a, .inf b => .inf (a != b)
  | .inf a, .fin b k => if k = 0 then .nan else .inf (a != b)
  | .fin a k, .inf b => if k = 0 then .nan else .inf (a != b)
  | .fin n1 k1, .fin n2 k2 => .ofMag (n1 != n2) (roundMag f (k1 * k2) (2 ^ f.M))

def div : SF → SF → SF
  | .nan, _ => .nan
  | _, .nan => .nan
  | .inf _, .inf _ => .nan
  | .inf a, .fin b _ => .inf (a != b)
  | .fin a _, .inf b => .fin (a != b) 0
  | .fin n1 k1, .fin n2 k2 =>
    if k2 = 0 then (if k1 = 0 then .nan else .inf (n1 != n2))
    else .ofMag (n1 != n2) (roundMag f (k1 * 2 ^ f.M) k2)

/-- IEEE `a <= b` (false if either is NaN; `-0 = +0`) -/
def le (_f : Fmt) : SF → SF → Bool
  | .nan, _ => false
  | _, .nan => false
  | .inf a, .inf b => a || !b
  | .inf a, .fin _ _ => a
  | .fin _ _, .inf b => !b
  | .fin n1 k1, .fin n2 k2 =>
    match n1, n2 with
    | false, false => decide (k1 ≤ k2)
    | true, true => decide (k2 ≤ k1)
    | true, false => true
    | false, true => decide (k1 = 0 ∧ k2 = 0)

/-- `x as u{B}`: truncation toward zero, saturating; NaN ↦ 0 -/
def toUInt (B : Nat) : SF → Nat
  | .nan => 0
  | .inf neg => if neg then 0 else 2 ^ B - 1
  | .fin neg k => if neg then 0 else min (k >>> f.M) (2 ^ B - 1)

/-- `n as F` for an unsigned integer (round to nearest even) -/
def ofNat (n : Nat) : SF := .ofMag false (roundMag f (n * 2 ^ f.M) 1)

/-- the format as an instance of the replica's operation table -/
def ops : FOps SF where
  ofBits := f.ofBits
  toBits := f.toBits
  add := f.add
  mul := f.mul
  div := f.div
  le := f.le
  toUInt := f.toUInt
  ofNat64 := f.ofNat
  expShift := f.p - 1
  expMask := f.expMask
  signBit := f.p - 1 + f.ebits
  zero := .fin false 0
  negZero := .fin true 0
  one := .fin false (2 ^ (f.p - 1) <<< (f.bias - 1))
  eps := .fin false (2 ^ (f.p - 1) <<< (f.bias - f.p))

end Fmt

def sf32Ops : FOps SF := binary32.ops
def sf64Ops : FOps SF := binary64.ops

end CV.Quant
