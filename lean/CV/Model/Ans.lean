import CV.Model.Machine
/-!
# Impl model of `AnsCoder<Word, State, Backend>` (src/stream/stack.rs)

`bulk` is kept top-of-stack first (the head of the list is the *last* word of the Rust
`Vec`); `cap = some n` models a bounded `Cursor` backend whose buffer has `n` words
(`cap = none` is `Vec`, which never refuses a write).
-/
namespace CV.Ans

structure Coder where
  bulk : List Nat
  state : Nat
  cap : Option Nat := none
  deriving Repr, DecidableEq, Inhabited

inductive EncErr where
  | impossible
  | backendFull
  | fault (f : Fault)
  deriving Repr, DecidableEq

/-- representation invariant documented on the `state` field -/
def Inv (c : Cfg) (x : Coder) : Prop :=
  x.state < 2^c.S ∧ (∀ w ∈ x.bulk, w < 2^c.W) ∧ (x.bulk ≠ [] → 2^(c.S - c.W) ≤ x.state)

def empty : Coder := { bulk := [], state := 0 }

/-- can the backend accept one more word? (`WriteWords::write`) -/
def canWrite (x : Coder) : Bool :=
  match x.cap with
  | none => true
  | some n => x.bulk.length < n

/-- `encode_symbol` after the model lookup returned `(cum, p)`. -/
def encodeCP (c : Cfg) (x : Coder) (cum p : Nat) : Except EncErr Coder :=
  match shr "ans.enc.hi" c.S x.state (c.S - c.P) with
  | .error f => .error (.fault f)
  | .ok hi =>
    let flushed : Except EncErr Coder :=
      if hi ≥ p then
        if canWrite x then
          .ok { x with bulk := narrow c.W x.state :: x.bulk, state := x.state >>> c.W }
        else .error .backendFull
      else .ok x
    match flushed with
    | .error e => .error e
    | .ok x =>
      if p = 0 then .error (.fault (.panic "ans.enc.div0")) else
      let remainder := narrow c.B (narrow c.W (x.state % p))
      let pref := x.state / p
      match cadd "ans.enc.quantile" c.B cum remainder with
      | .error f => .error (.fault f)
      | .ok quantile =>
        match shl "ans.enc.prefix" c.S pref c.P with
        | .error f => .error (.fault f)
        | .ok hiPart => .ok { x with state := hiPart ||| quantile }

def encode {Sym : Type} (c : Cfg) (m : Model Sym) (s : Sym) (x : Coder) : Except EncErr Coder :=
  match m.enc s with
  | none => .error .impossible
  | some (cum, p) => encodeCP c x cum p

/-- `decode_symbol`; reading from `Vec`/`Cursor` never fails. -/
def decode {Sym : Type} (c : Cfg) (m : Model Sym) (x : Coder) : M (Sym × Coder) :=
  match shl "ans.dec.one" c.S 1 c.P with
  | .error f => .error f
  | .ok modulus =>
    let quantile := narrow c.B (narrow c.W (x.state % modulus))
    let r := m.dec quantile
    match csub "ans.dec.remainder" quantile r.2.1 with
    | .error f => .error f
    | .ok remainder =>
      match cmul "ans.dec.mul" c.S (x.state >>> c.P) r.2.2 with
      | .error f => .error f
      | .ok t =>
        match cadd "ans.dec.add" c.S t remainder with
        | .error f => .error f
        | .ok st =>
          if st < 2^(c.S - c.W) then
            match x.bulk with
            | w :: rest => .ok (r.1, { x with bulk := rest, state := ((st <<< c.W) % 2^c.S) ||| w })
            | [] => .ok (r.1, { x with state := st })
          else .ok (r.1, { x with state := st })


/-! ## Statement-by-statement transcription that can express partial mutation

`encode` above returns no coder at all on failure, so "a failed call leaves the coder intact"
would be true by the shape of its type.  `encodeSymbolM` follows `encode_symbol` statement by
statement and returns the coder exactly as the real code leaves it, also when it returns early
with `?`; `Proofs/AnsAtomic.lean` proves that on every failure this coder is the original one
(the model lookup and `bulk.write(..)?` precede every mutation of `state`) and that on success
it is the result of `encode`.  The driver answers `enc` lines with this function. -/

def encodeSymbolM {Sym : Type} (c : Cfg) (m : Model Sym) (s : Sym) (x : Coder) :
    Coder × Except EncErr Unit :=
  match m.enc s with
  | none => (x, .error .impossible)                       -- `.ok_or_else(..)?`
  | some (cum, p) =>
    match shr "ans.enc.hi" c.S x.state (c.S - c.P) with
    | .error f => (x, .error (.fault f))
    | .ok hi =>
      -- `if (state >> (S - P)) >= p { self.bulk.write(state as Word)?; self.state >>= W }`
      let afterWrite : Coder × Except EncErr Unit :=
        if hi ≥ p then
          if canWrite x then ({ x with bulk := narrow c.W x.state :: x.bulk }, .ok ())
          else (x, .error .backendFull)
        else (x, .ok ())
      match afterWrite.2 with
      | .error e => (afterWrite.1, .error e)
      | .ok () =>
        let x1 := afterWrite.1
        let x2 := if hi ≥ p then { x1 with state := x1.state >>> c.W } else x1
        if p = 0 then (x2, .error (.fault (.panic "ans.enc.div0"))) else
        let remainder := narrow c.B (narrow c.W (x2.state % p))
        let pref := x2.state / p
        match cadd "ans.enc.quantile" c.B cum remainder with
        | .error f => (x2, .error (.fault f))
        | .ok quantile =>
          match shl "ans.enc.prefix" c.S pref c.P with
          | .error f => (x2, .error (.fault f))
          | .ok hiPart => ({ x2 with state := hiPart ||| quantile }, .ok ())

/-! ## Batch forms (default methods of `Encode` / `Decode` and the `_reverse` helpers)

The Rust default methods are literally `for … { self.encode_symbol(..)?; }` loops over an iterator
whose items may be `Err` (fallible forms).  An item is `none` for an `Err` item. -/

inductive BatchErr where
  | coding (e : EncErr)
  | model                       -- `TryCodingError::InvalidEntropyModel`
  deriving Repr, DecidableEq

/-- `encode_symbols` / `try_encode_symbols` / `encode_iid_symbols`: the coder is returned as the loop
    leaves it when it stops at the first error -/
def encodeSymbols {Sym : Type} (c : Cfg) : Coder → List (Option (Sym × Model Sym)) → Coder × Except BatchErr Unit
  | x, [] => (x, .ok ())
  | x, none :: _ => (x, .error .model)
  | x, some (s, m) :: rest =>
    match encodeSymbolM c m s x with
    | (y, .ok ()) => encodeSymbols c y rest
    | (y, .error e) => (y, .error (.coding e))

/-- the `_reverse` forms iterate the same items back to front -/
def encodeSymbolsReverse {Sym : Type} (c : Cfg) (x : Coder) (items : List (Option (Sym × Model Sym))) :
    Coder × Except BatchErr Unit :=
  encodeSymbols c x items.reverse

/-- `decode_symbols` / `try_decode_symbols` / `decode_iid_symbols` collected into a list: symbols
    decoded before the first `Err` item (`none`) or fault, the coder as left, and how it ended -/
def decodeSymbols {Sym : Type} (c : Cfg) : Coder → List (Option (Model Sym)) → List Sym → Coder × List Sym × Except (Option Fault) Unit
  | x, [], acc => (x, acc.reverse, .ok ())
  | x, none :: _, acc => (x, acc.reverse, .error none)
  | x, some m :: rest, acc =>
    match decode c m x with
    | .ok (s, y) => decodeSymbols c y rest (s :: acc)
    | .error f => (x, acc.reverse, .error (some f))

/-- the `while let Some(word)` loop of `read_initial_state` -/
def readInitialLoop (c : Cfg) (state : Nat) : List Nat → Nat × List Nat
  | [] => (state, [])
  | w :: rest =>
    let st := ((state <<< c.W) % 2^c.S) ||| w
    if st ≥ 2^(c.S - c.W) then (st, rest) else readInitialLoop c st rest

/-- `from_compressed` (argument top-first); `none` = `Err(compressed)` -/
def fromCompressed (c : Cfg) (ws : List Nat) : Option Coder :=
  match ws with
  | [] => some { bulk := [], state := 0 }
  | w :: rest =>
    if w = 0 then none else
    let (st, bulk) := readInitialLoop c w rest
    some { bulk := bulk, state := st }

/-- the loop of `from_binary` -/
def fromBinaryLoop (c : Cfg) (state : Nat) : List Nat → Nat × List Nat
  | [] => (state, [])
  | w :: rest =>
    if state < 2^(c.S - c.W) then
      fromBinaryLoop c (((state <<< c.W) % 2^c.S) ||| w) rest
    else (state, w :: rest)

def fromBinary (c : Cfg) (ws : List Nat) : Coder :=
  let (st, bulk) := fromBinaryLoop c 1 ws
  { bulk := bulk, state := st }

/-- write a list of words one after the other (first element first); `none` = backend full -/
def pushAll (x : Coder) : List Nat → Option Coder
  | [] => some x
  | w :: ws => if canWrite x then pushAll { x with bulk := w :: x.bulk } ws else none

/-- `into_compressed`: result top-first, i.e. the reverse of the Rust `Vec`. -/
def intoCompressed (c : Cfg) (x : Coder) : Option (List Nat) :=
  (pushAll x (chunksLE c.W x.state)).map (·.bulk)

/-- `iter_compressed().collect()` in Rust order (bottom first) -/
def iterCompressed (c : Cfg) (x : Coder) : List Nat :=
  x.bulk.reverse ++ chunksLE c.W x.state

def numWords (c : Cfg) (x : Coder) : Nat := x.bulk.length + (chunksLE c.W x.state).length
def numBits (c : Cfg) (x : Coder) : Nat := c.W * numWords c x
def numValidBits (c : Cfg) (x : Coder) : Nat :=
  c.W * x.bulk.length + max (bitlen x.state) 1 - 1
def isEmpty (x : Coder) : Bool := x.state == 0

inductive BinErr where
  | notWhole
  | backendFull
  deriving Repr, DecidableEq

/-- `into_binary` (after the D2 repair): result top-first -/
def intoBinary (c : Cfg) (x : Coder) : Except BinErr (List Nat) :=
  if x.state = 0 then .error .notWhole else
  let validBits := bitlen x.state - 1
  if validBits % c.W ≠ 0 then .error .notWhole else
  let truncated := x.state ^^^ (1 <<< validBits)
  let words := (List.range (validBits / c.W)).map (fun i => (truncated >>> (i * c.W)) % 2^c.W)
  match pushAll x words with
  | some y => .ok y.bulk
  | none => .error .backendFull

/-- what `get_binary()` shows through the guard (`CoderGuard<SEALED = true>`), top-first -/
def getBinary (c : Cfg) (x : Coder) : Except BinErr (List Nat) :=
  match chunksBE c.W x.state with
  | [] => .error .notWhole
  | top :: restBE =>
    if top ≠ 1 then .error .notWhole else
    match pushAll x restBE.reverse with
    | some y => .ok y.bulk
    | none => .error .backendFull

/-- state after the `SEALED = true` guard is dropped: one stack read per remaining chunk -/
def dropReads (x : Coder) (n : Nat) : Coder := { x with bulk := x.bulk.drop n }

def getBinaryThenDrop (c : Cfg) (x : Coder) : Option Coder :=
  match chunksBE c.W x.state with
  | [] => none
  | top :: restBE =>
    if top ≠ 1 then none else
    match pushAll x restBE.reverse with
    | some y => some (dropReads y restBE.length)
    | none => none

/-- `get_compressed()` then drop of the guard -/
def getCompressedThenDrop (c : Cfg) (x : Coder) : Option Coder :=
  match pushAll x (chunksLE c.W x.state) with
  | some y => some (dropReads y (chunksLE c.W x.state).length)
  | none => none

/-- `Pos::pos` for a `Vec` backend: `(bulk.len(), state)` -/
def pos (x : Coder) : Nat × Nat := (x.bulk.length, x.state)

/-- `Seek::seek` for a `Vec` backend (`truncate`, fails if `pos > len`) -/
def seek (x : Coder) (p : Nat × Nat) : Option Coder :=
  if p.1 ≤ x.bulk.length then
    some { x with bulk := x.bulk.drop (x.bulk.length - p.1), state := p.2 }
  else none

end CV.Ans
