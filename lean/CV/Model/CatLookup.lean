import CV.Model.CatContiguous
/-!
# Impl model of the lookup decoder models

* `ContiguousLookupDecoderModel` (categorical/lookup_contiguous.rs)
* `NonContiguousLookupDecoderModel` (categorical/lookup_noncontiguous.rs)

`Probability: Into<usize>` restricts these to `B ∈ {8, 16}`; the static assertion
`PRECISION < usize::BITS` makes `1 << PRECISION` (a `usize`) overflow-free.
`lookup_table` is an `Array` (only for the speed of the native driver).
-/
namespace CV.Cat

/-- `Vec::resize(new_len, value)` -/
def vecResize (v : Array Nat) (newLen value : Nat) : Array Nat :=
  if newLen ≤ v.size then v.extract 0 newLen else v ++ Array.replicate (newLen - v.size) value

/-- the shared part of both `quantile_function`s: returns `(index, left, probability)` -/
def lookupQuantile (B P : Nat) (tbl : Array Nat) (cs : List Nat) (q : Nat) : M (Nat × Nat × Nat) :=
  -- `if Probability::BITS != PRECISION { assert!(quantile < Probability::one() << PRECISION) }`
  if B ≠ P ∧ ¬ (q < 2^P) then .error (.panic "lookup.quantile_function.assert") else
  match tbl[q]? with
  | none => .error (.ub "lookup.quantile_function.get_unchecked.table")
  | some idx =>
    match cs[idx]?, cs[idx + 1]? with
    | some left, some right =>
      let p := wsub B right left
      if p = 0 then .error (.ub "lookup.quantile_function.into_nonzero_unchecked")
      else .ok (idx, left, p)
    | _, _ => .error (.ub "lookup.quantile_function.get_unchecked.cdf")

/-! ## `ContiguousLookupDecoderModel` -/

structure Lookup where
  tbl : Array Nat
  cdf : List Nat
  deriving Repr

namespace Lookup

/-- the closure of `from_nonzero_fixed_point_probabilities`: state `(cdf, lookup_table)` -/
def pushOp (B : Nat) (st : List Nat × Array Nat) (_s : Unit) (_left p : Nat) :
    Option (List Nat × Array Nat) :=
  let (cdf, tbl) := st
  let index := narrow B cdf.length
  some (cdf ++ [narrow B tbl.size], vecResize tbl (tbl.size + p) index)

/-- `from_nonzero_fixed_point_probabilities(probabilities, infer_last_probability)` -/
def fromNonzeroFixedPoint (B P : Nat) (probs : List Nat) (infer : Bool) : Option Lookup :=
  match accumulate B P (pushOp B) (.rep ()) probs (([] : List Nat), (#[] : Array Nat)) infer with
  | none => none
  | some (_, (cdf, tbl)) => some { tbl := tbl, cdf := cdf ++ [wrappingPow2 B P] }

/-- the `for` loop of `From<&ContiguousCategoricalEntropyModel>` over `cdf[1..len-1]` -/
def fromContigLoop (B : Nat) : List Nat → Nat → Array Nat → Array Nat
  | [], _, tbl => tbl
  | c :: rest, symbol, tbl => fromContigLoop B rest (symbol + 1) (vecResize tbl c (narrow B symbol))

/-- `ContiguousCategoricalEntropyModel::to_lookup_decoder_model()` -/
def fromContiguous (B P : Nat) (m : Contiguous) : M Lookup :=
  -- `model.cdf.as_ref()[1..model.cdf.as_ref().len() - 1]`
  match csub "lookup.from_contiguous.len_minus_one" m.cdf.length 1 with
  | .error f => .error f
  | .ok e =>
    if e < 1 then .error (.panic "lookup.from_contiguous.slice_index") else
    let inner := (m.cdf.take e).drop 1
    let tbl := fromContigLoop B inner 0 #[]
    match csub "lookup.from_contiguous.len_minus_two" m.cdf.length 2 with
    | .error f => .error f
    | .ok l => .ok { tbl := vecResize tbl (2^P) (narrow B l), cdf := m.cdf }

/-- `quantile_function(quantile)` -/
def dec (B P : Nat) (m : Lookup) (q : Nat) : M (Nat × Nat × Nat) := lookupQuantile B P m.tbl m.cdf q

/-- `symbol_table().collect()` -/
def table (B : Nat) (m : Lookup) : M (List (Nat × Nat × Nat)) :=
  iterExtendedCdf B (m.cdf.zipIdx.map (fun (c, i) => (c, i)))

/-- `as_contiguous_categorical()` / `into_contiguous_categorical()` -/
def asContiguous (m : Lookup) : Contiguous := { cdf := m.cdf }

end Lookup

/-! ## `NonContiguousLookupDecoderModel` -/

structure NcLookup (Sym : Type) where
  tbl : Array Nat
  cdf : List (Nat × Sym)
  deriving Repr

namespace NcLookup
variable {Sym : Type}

def pushOp (B : Nat) (st : List (Nat × Sym) × Array Nat) (s : Sym) (_left p : Nat) :
    Option (List (Nat × Sym) × Array Nat) :=
  let (cdf, tbl) := st
  let index := narrow B cdf.length
  some (cdf ++ [(narrow B tbl.size, s)], vecResize tbl (tbl.size + p) index)

/-- `from_symbols_and_nonzero_fixed_point_probabilities(symbols, probabilities, infer)` -/
def fromSymbolsAndNonzeroFixedPoint (B P : Nat) (syms : List Sym) (probs : List Nat)
    (infer : Bool) : M (Option (NcLookup Sym)) :=
  match accumulate B P (pushOp B) (.list syms) probs (([] : List (Nat × Sym)), (#[] : Array Nat))
      infer with
  | none => .ok none
  | some (rest, (cdf, tbl)) =>
    match cdf.getLast? with
    | none => .error (.panic "nclookup.from_fixed.cdf_is_not_empty")
    | some (_, last) =>
      let cdf := cdf ++ [(wrappingPow2 B P, last)]
      match rest.next with
      | some _ => .ok none
      | none => .ok (some { tbl := tbl, cdf := cdf })

/-- loop of `from_symbol_table`; `dbg` = debug assertions enabled (the `verif` profile) -/
def fromTableLoop (B : Nat) (dbg : Bool) : List (Sym × Nat × Nat) → List (Nat × Sym) → Array Nat →
    M (List (Nat × Sym) × Array Nat)
  | [], cdf, tbl => .ok (cdf, tbl)
  | (s, left, p) :: rest, cdf, tbl =>
    let index := narrow B cdf.length
    -- `debug_assert_eq!(left_sided_cumulative, lookup_table.len().as_())`
    if dbg = true ∧ left ≠ narrow B tbl.size then
      .error (.panic "nclookup.from_symbol_table.debug_assert")
    else
      fromTableLoop B dbg rest (cdf ++ [(narrow B tbl.size, s)]) (vecResize tbl (tbl.size + p) index)

/-- `from_symbol_table(symbol_table)` = `from_iterable_entropy_model` given the table (after
    the D31 repair: the probabilities have to add up to `1 << PRECISION`, else a clean panic) -/
def fromTableWith (B P : Nat) (dbg : Bool) (t : List (Sym × Nat × Nat)) : M (NcLookup Sym) :=
  match fromTableLoop B dbg t [] #[] with
  | .error f => .error f
  | .ok (cdf, tbl) =>
    match cdf.getLast? with
    | none => .error (.panic "nclookup.from_symbol_table.cdf_is_not_empty")
    | some (_, last) =>
      -- `assert_eq!(lookup_table.len(), 1usize << PRECISION)`
      if tbl.size ≠ 2 ^ P then .error (.panic "nclookup.from_symbol_table.assert_len")
      else .ok { tbl := tbl, cdf := cdf ++ [(wrappingPow2 B P, last)] }

/-- the `verif` (checked) build, which is what the correspondence harness runs -/
def fromTable (B P : Nat) (t : List (Sym × Nat × Nat)) : M (NcLookup Sym) := fromTableWith B P true t

/-- loop of `from_symbols_and_floating_point_probabilities_fast` after the D13 repair -/
def fastLoop (B : Nat) (left : Nat) : List Nat → List Sym → List (Sym × Nat × Nat) →
    M (Option (List Sym × List (Sym × Nat × Nat)))
  | [], syms, t => .ok (some (syms, t))
  | right :: cdf, syms, t =>
    match syms with
    | [] => .ok none
    | s :: syms =>
      let p := wsub B right left
      if p = 0 then .error (.panic "nclookup.from_fast.leaky")
      else fastLoop B right cdf syms (t ++ [(s, left, p)])

/-- the integer part of `from_symbols_and_floating_point_probabilities_fast`: `cdf` is what
    `fast_quantized_cdf` yields -/
def fromSymbolsAndCdf (B P : Nat) (syms : List Sym) (cdf : List Nat) : M (Option (NcLookup Sym)) :=
  match cdf with
  | [] => .error (.panic "nclookup.from_fast.cdf_is_not_empty")
  | left :: cdf =>
    match fastLoop B left (cdf ++ [wrappingPow2 B P]) syms [] with
    | .error f => .error f
    | .ok none => .ok none
    | .ok (some (rest, t)) =>
      if !rest.isEmpty then .ok none else
      match fromTable B P t with
      | .error f => .error f
      | .ok m => .ok (some m)

/-- `quantile_function(quantile)` -/
def dec (B P : Nat) (m : NcLookup Sym) (q : Nat) : M (Sym × Nat × Nat) :=
  match lookupQuantile B P m.tbl (m.cdf.map (·.1)) q with
  | .error f => .error f
  | .ok (idx, left, p) =>
    match m.cdf[idx]? with
    | some (_, s) => .ok (s, left, p)
    | none => .error (.ub "nclookup.quantile_function.get_unchecked")

/-- `symbol_table().collect()` -/
def table (B : Nat) (m : NcLookup Sym) : M (List (Sym × Nat × Nat)) := iterExtendedCdf B m.cdf

/-- `as_non_contiguous_categorical()` / `into_non_contiguous_categorical()` -/
def asNcDec (m : NcLookup Sym) : NcDec Sym := { cdf := m.cdf }

end NcLookup

end CV.Cat
