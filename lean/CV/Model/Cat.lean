import CV.Model.CatValidate
import CV.Model.CatContiguous
import CV.Model.CatLookup
import CV.Model.CatUniform
/-! Impl models of component `cat` (fixed-point / integer entropy models); see the four parts. -/
