import CV.Model.CatValidate
import CV.Model.CatContiguous
import CV.Model.CatLookup
import CV.Model.CatUniform
/-!
Impl models of component `cat` (fixed-point / integer entropy models); see the four parts.

API entry points that have no model function of their own:

* the deprecated constructors
  `ContiguousCategoricalEntropyModel::from_floating_point_probabilities`,
  `ContiguousLookupDecoderModel::from_floating_point_probabilities`,
  `NonContiguousCategoricalDecoderModel::from_symbols_and_floating_point_probabilities`,
  `NonContiguousCategoricalEncoderModel::from_symbols_and_floating_point_probabilities`,
  `NonContiguousLookupDecoderModel::from_symbols_and_floating_point_probabilities`
  are one-line aliases (`Self::…_perfect(..)`, the slice variants via `symbols.iter().cloned()`):
  **alias, identified with `…_perfect`** (whose integer part is
  `from_[symbols_and_]nonzero_fixed_point_probabilities(.., false)` modelled here, the float
  part belongs to component `quant`); **checked by oracle** (`harness/src/cat_alias.rs`:
  same accept / reject / panic class and same symbol table as `…_perfect` on valid and
  invalid float tables, matching / short / long / repeated symbol lists).
* `from_iterable_entropy_model(model)` of the three non-contiguous types is
  `NcDec.fromTable` / `NcEnc.fromTable` / `NcLookup.fromTable` applied to `model.symbol_table()`;
  `to_generic_decoder_model` / `to_generic_encoder_model` / `to_generic_lookup_decoder_model`
  and the non-contiguous `to_lookup_decoder_model` are `self.into()` = `From<&M>` = the same
  function (protocol ops `togendec`, `togenenc`, `togenlookup`, `tolookup`); the direct calls
  are exercised by the oracle from every iterable source (contiguous and its view, both lookup
  decoders, non-contiguous decoder, uniform, leakily quantized; the lazy model is not iterable).
* `as_view` returns the same fields by reference and is not distinguished.
-/
