import CV.Model.Machine
/-!
# Impl model of the Huffman codebooks (src/symbol/huffman.rs, src/symbol/mod.rs)

`EncoderHuffmanTree { nodes : Vec<usize> }` is a `List Nat`, `DecoderHuffmanTree
{ nodes : Vec<[usize; 2]> }` is a `List (Nat × Nat)`.

The constructors are generic in the weight type `P : Ord + Add`.  The model is generic in the
same way: `WeightOps α` packages the strict order `lt` of the weight type, its addition `add`
(`none` = the `+` panics: integer overflow in a checked build) and `uncomparable` (a sum that
cannot be ordered any more: a float NaN produced by `inf + -inf`.  `BinaryHeap` sifts with the
derived `PartialOrd` (`<=` is `false` on NaN; the panicking `Ord::cmp` is never called), so with
such a key inside a non-empty heap the pop order depends on the heap's layout.  That situation
is **outside the model**: it is reported as the fault `huff.nan_key` and never generated; it
needs weights of both signs, the property speaks of non-negative weights).  Instances: `checkedOps n` (n-bit unsigned integers, checked
build), `wrappingOps n` (the same in a release build: sums wrap), `exactOps` (naturals),
`f32Ops` / `f64Ops` (native IEEE binary32/binary64 addition and comparison, so sums **round**
exactly as in the Rust code; `-0.0 = +0.0`; negative weights and infinities are admitted by the
constructor and by the model).

`BinaryHeap<Reverse<(P, usize)>>` is a list of `(weight, index)` pairs together with `popMin`
(extract the minimum of the lexicographic order on `(weight, index)`).  The indices in a heap
are pairwise distinct, so the keys are pairwise distinct, so the result of `pop` does not
depend on the heap's internal layout (`Proofs/HuffHeap.lean`, `popMin_layout`).

A weight list entry `none` is a NaN passed to `from_float_probabilities` resp. an `Err` item
passed to `try_from_probabilities`.
-/
namespace CV.Huff

/-- `usize::MAX` -/
def usizeMax : Nat := 2^64 - 1

/-- what the constructors use of the weight type `P` -/
structure WeightOps (α : Type) where
  /-- `a < b` (`Ord::cmp(a, b) == Less`); `Equal` is `¬ lt a b ∧ ¬ lt b a` -/
  lt : α → α → Bool
  /-- `a + b`; `none` = panics (overflow in a checked build) -/
  add : α → α → Option α
  /-- a sum that cannot be ordered (a NaN inside `NonNanFloatCore`) -/
  uncomparable : α → Bool

/-- `n`-bit unsigned integer weights in a build with overflow checks -/
def checkedOps (n : Nat) : WeightOps Nat where
  lt a b := decide (a < b)
  add a b := if a + b < 2^n then some (a + b) else none
  uncomparable _ := false

/-- `n`-bit unsigned integer weights in a release build: `+` wraps silently -/
def wrappingOps (n : Nat) : WeightOps Nat where
  lt a b := decide (a < b)
  add a b := some ((a + b) % 2^n)
  uncomparable _ := false

/-- weights whose sums are exact -/
def exactOps : WeightOps Nat where
  lt a b := decide (a < b)
  add a b := some (a + b)
  uncomparable _ := false

/-- `f32` weights inside `NonNanFloatCore`: IEEE comparison and (rounding) addition -/
def f32Ops : WeightOps Float32 where
  lt a b := decide (a < b)
  add a b := some (a + b)
  uncomparable x := x.isNaN

/-- `f64` weights inside `NonNanFloatCore` -/
def f64Ops : WeightOps Float where
  lt a b := decide (a < b)
  add a b := some (a + b)
  uncomparable x := x.isNaN

/-- `NonNanFloatCore::new` over the input iterator -/
def f32Weights (l : List Float32) : List (Option Float32) :=
  l.map (fun x => if x.isNaN then none else some x)
def f64Weights (l : List Float) : List (Option Float) :=
  l.map (fun x => if x.isNaN then none else some x)

section
variable {α : Type} (ops : WeightOps α)

/-- `Ord` on `(P, usize)`: lexicographic -/
def keyLt (a b : α × Nat) : Bool := ops.lt a.1 b.1 || (!ops.lt b.1 a.1 && a.2 < b.2)

/-- `BinaryHeap<Reverse<(P, usize)>>::pop`: the minimum and the remaining elements -/
def popMin : List (α × Nat) → Option ((α × Nat) × List (α × Nat))
  | [] => none
  | x :: xs =>
    match popMin xs with
    | none => some (x, [])
    | some (m, rest) => if keyLt ops x m then some (x, m :: rest) else some (m, x :: rest)

/-- `prob0 + prob1` followed by `heap.push(Reverse((sum, next_node_index)))`: the addition may
panic; an unorderable sum pushed onto a non-empty heap leaves the model (see the header);
pushed onto an empty heap it is never compared -/
def addPush (a b : α) (h2 : List (α × Nat)) : M α :=
  match ops.add a b with
  | none => .error (.overflow "huff.add")
  | some w =>
    if ops.uncomparable w && !h2.isEmpty then .error (.panic "huff.nan_key") else .ok w

/-- the `while let (Some(..), Some(..)) = (heap.pop(), heap.pop())` loop of
`EncoderHuffmanTree::try_from_probabilities`.  The loop runs `heap.len() - 1` times; `fuel`
(initially `heap.len()`) is never exhausted (`Proofs/HuffBuild.lean`). -/
def encLoop : Nat → List (α × Nat) → List Nat → Nat → M (List Nat)
  | 0, _, _, _ => .error (.panic "huff.enc.loop.fuel")
  | fuel + 1, heap, nodes, next =>
    match popMin ops heap with
    | none => .ok nodes
    | some (a, h1) =>
      match popMin ops h1 with
      | none => .ok nodes
      | some (b, h2) =>
        match addPush ops a.1 b.1 h2 with
        | .error f => .error f
        | .ok w =>
          -- `*nodes.get_unchecked_mut(index0) = next_node_index << 1`
          if a.2 < nodes.length then
            let nodes := nodes.set a.2 ((next <<< 1) % 2^64)
            -- `*nodes.get_unchecked_mut(index1) = (next_node_index << 1) | 1`
            if b.2 < nodes.length then
              let nodes := nodes.set b.2 (((next <<< 1) % 2^64) ||| 1)
              match cadd "huff.enc.next" 64 next 1 with
              | .error f => .error f
              | .ok next' => encLoop fuel ((w, next) :: h2) nodes next'
            else .error (.ub "huff.enc.new.index1")
          else .error (.ub "huff.enc.new.index0")

/-- `EncoderHuffmanTree::try_from_probabilities` after the `collect` -/
def encTree (ws : List α) : M (List Nat) :=
  let heap := ws.zipIdx
  if heap.length = 0 ∨ heap.length > usizeMax / 4 then .error (.panic "huff.enc.new")
  else encLoop ops heap.length heap (List.replicate (heap.length * 2 - 1) 0) heap.length

/-- the same loop in `DecoderHuffmanTree::try_from_probabilities` -/
def decLoop : Nat → List (α × Nat) → List (Nat × Nat) → Nat → M (List (Nat × Nat))
  | 0, _, _, _ => .error (.panic "huff.dec.loop.fuel")
  | fuel + 1, heap, nodes, next =>
    match popMin ops heap with
    | none => .ok nodes
    | some (a, h1) =>
      match popMin ops h1 with
      | none => .ok nodes
      | some (b, h2) =>
        match addPush ops a.1 b.1 h2 with
        | .error f => .error f
        | .ok w =>
          match cadd "huff.dec.next" 64 next 1 with
          | .error f => .error f
          | .ok next' => decLoop fuel ((w, next) :: h2) (nodes ++ [(a.2, b.2)]) next'

/-- `DecoderHuffmanTree::try_from_probabilities` after the `collect` -/
def decTree (ws : List α) : M (List (Nat × Nat)) :=
  let heap := ws.zipIdx
  if heap.length = 0 ∨ heap.length > usizeMax / 2 then .error (.panic "huff.dec.new")
  else decLoop ops heap.length heap [] heap.length

/-- `.collect::<Result<Vec<_>, E>>()`: `none` = the first `Err` (NaN) -/
def collect : List (Option α) → Option (List α)
  | [] => some []
  | none :: _ => none
  | some w :: rest =>
    match collect rest with
    | none => none
    | some l => some (w :: l)

inductive BuildErr where
  | rejected
  | fault (f : Fault)
  deriving Repr, DecidableEq

def tryEncTree (ws : List (Option α)) : Except BuildErr (List Nat) :=
  match collect ws with
  | none => .error .rejected
  | some v =>
    match encTree ops v with
    | .ok t => .ok t
    | .error f => .error (.fault f)

def tryDecTree (ws : List (Option α)) : Except BuildErr (List (Nat × Nat)) :=
  match collect ws with
  | none => .error .rejected
  | some v =>
    match decTree ops v with
    | .ok t => .ok t
    | .error f => .error (.fault f)

end

def encNumSymbols (nodes : List Nat) : Nat := nodes.length / 2 + 1
def decNumSymbols (nodes : List (Nat × Nat)) : Nat := nodes.length + 1

inductive EncErr where
  | impossible
  | fault (f : Fault)
  deriving Repr, DecidableEq

/-- the `loop` of `encode_symbol_suffix` (leaf → root).  The Rust loop has no bound; running
out of `fuel` (initially `nodes.len()`) stands for "does not terminate" and is shown not to
happen for constructed trees. -/
def suffixWalk (nodes : List Nat) : Nat → Nat → M (List Bool)
  | 0, _ => .error (.panic "huff.suffix.diverges")
  | fuel + 1, idx =>
    match nodes[idx]? with
    | none => .error (.ub "huff.suffix.get_unchecked")
    | some node =>
      if node = 0 then .ok []
      else
        match suffixWalk nodes fuel (node >>> 1) with
        | .error f => .error f
        | .ok bits => .ok ((node &&& 1 != 0) :: bits)

/-- `EncoderHuffmanTree::encode_symbol_suffix` with an `emit` that never fails:
the emitted bits in order of emission -/
def encodeSuffix (nodes : List Nat) (symbol : Nat) : Except EncErr (List Bool) :=
  if symbol > nodes.length / 2 then .error .impossible
  else
    match suffixWalk nodes nodes.length symbol with
    | .ok bits => .ok bits
    | .error f => .error (.fault f)

/-- `SmallBitStack`: `write_bit` pushes, iteration pops (C16 shows that `StackCoder` is this) -/
def stackWriteAll (stack : List Bool) : List Bool → List Bool
  | [] => stack
  | b :: bs => stackWriteAll (b :: stack) bs

/-- default `EncoderCodebook::encode_symbol_prefix`: run `encode_symbol_suffix` into a
`SmallBitStack`, then emit the stack's content by iterating (= popping) it -/
def encodePrefix (nodes : List Nat) (symbol : Nat) : Except EncErr (List Bool) :=
  match encodeSuffix nodes symbol with
  | .error e => .error e
  | .ok bits => .ok (stackWriteAll [] bits)

/-- what a failing `emit` (succeeds `cap` times, then returns `Err`) observes: the bits passed
to the successful calls, and whether the backend error was returned.  Both entry points stop
at the first failing `emit`. -/
def emitCapped (cap : Option Nat) (bits : List Bool) : List Bool × Bool :=
  match cap with
  | none => (bits, false)
  | some k => (bits.take k, k < bits.length)

inductive DecErr where
  | outOfData
  | backend
  | fault (f : Fault)
  deriving Repr, DecidableEq

/-- the `while node_index >= num_symbols` loop of `decode_symbol`; a source item `none` is an
`Err` from the bit source -/
def decodeLoop (nodes : List (Nat × Nat)) (numSymbols : Nat) :
    Nat → List (Option Bool) → Except DecErr (Nat × List (Option Bool))
  | nodeIndex, src =>
    if nodeIndex ≥ numSymbols then
      match src with
      | [] => .error .outOfData
      | none :: _ => .error .backend
      | some bit :: rest =>
        match nodes[nodeIndex - numSymbols]? with
        | none => .error (.fault (.ub "huff.decode.get_unchecked"))
        | some (x, y) => decodeLoop nodes numSymbols (if bit then y else x) rest
    else .ok (nodeIndex, src)

/-- `DecoderHuffmanTree::decode_symbol`: the symbol and the unconsumed rest of the source -/
def decode (nodes : List (Nat × Nat)) (src : List (Option Bool)) :
    Except DecErr (Nat × List (Option Bool)) :=
  let numNodes := nodes.length
  match cadd "huff.decode.num_symbols" 64 numNodes 1 with
  | .error f => .error (.fault f)
  | .ok numSymbols =>
    match cmul "huff.decode.root" 64 2 numNodes with
    | .error f => .error (.fault f)
    | .ok root => decodeLoop nodes numSymbols root src

end CV.Huff
