import CV.Model.Ans
import CV.Model.Backend
/-!
# `AnsCoder<Word, State, Backend>` over a concrete backend model

`Model/Ans.lean` keeps the backend abstract (`bulk`, `cap`).  Here the two coder steps of
`src/stream/stack.rs` are transcribed over an explicit backend (`BackendOps`: the
`WriteWords::write` and `ReadWords<_, Stack>::read` of `Model/Backend.lean`), so that
`Proofs/BackendAnsStep.lean` can prove that the abstract ANS model is what results.

```
if (self.state >> (State::BITS - PRECISION)) >= probability { self.bulk.write(self.state.as_())?; self.state >>= Word::BITS; }
…
if self.state < State::one() << (State::BITS - Word::BITS) { if let Some(word) = self.bulk.read()? { self.state = (self.state << Word::BITS) | word.into(); } }
```
The arithmetic is copied verbatim from `Ans.encodeCP` / `Ans.decode`.
-/
namespace CV.Backend

/-- what an `AnsCoder` needs from its backend -/
structure BackendOps (β : Type) where
  write : β → Nat → Except WErr β
  read : β → M (Option Nat × β)

def cursorOps : BackendOps Cursor := ⟨Cursor.write, Cursor.readStack⟩
def revCursorOps : BackendOps RevCursor := ⟨RevCursor.write, fun r => .ok r.readStack⟩
def vecOps : BackendOps VecB := ⟨fun v w => .ok (v.write w), fun v => .ok v.read⟩

/-- `encode_symbol` after the model lookup returned `(cum, p)`; `Err` leaves `self` untouched
    (the `?` on `write` precedes every assignment) -/
def encodeCPOn {β : Type} (B : BackendOps β) (c : Cfg) (b : β) (state cum p : Nat) :
    Except Ans.EncErr (β × Nat) :=
  match shr "ans.enc.hi" c.S state (c.S - c.P) with
  | .error f => .error (.fault f)
  | .ok hi =>
    let flushed : Except Ans.EncErr (β × Nat) :=
      if hi ≥ p then
        match B.write b (narrow c.W state) with
        | .ok b' => .ok (b', state >>> c.W)
        | .error .outOfSpace => .error .backendFull
        | .error (.fault f) => .error (.fault f)
      else .ok (b, state)
    match flushed with
    | .error e => .error e
    | .ok (b, state) =>
      if p = 0 then .error (.fault (.panic "ans.enc.div0")) else
      let remainder := narrow c.B (narrow c.W (state % p))
      let pref := state / p
      match cadd "ans.enc.quantile" c.B cum remainder with
      | .error f => .error (.fault f)
      | .ok quantile =>
        match shl "ans.enc.prefix" c.S pref c.P with
        | .error f => .error (.fault f)
        | .ok hiPart => .ok (b, hiPart ||| quantile)

def encodeOn {β Sym : Type} (B : BackendOps β) (c : Cfg) (m : Model Sym) (s : Sym) (b : β)
    (state : Nat) : Except Ans.EncErr (β × Nat) :=
  match m.enc s with
  | none => .error .impossible
  | some (cum, p) => encodeCPOn B c b state cum p

/-- `decode_symbol` -/
def decodeOn {β Sym : Type} (B : BackendOps β) (c : Cfg) (m : Model Sym) (b : β) (state : Nat) :
    M (Sym × β × Nat) :=
  match shl "ans.dec.one" c.S 1 c.P with
  | .error f => .error f
  | .ok modulus =>
    let quantile := narrow c.B (narrow c.W (state % modulus))
    let r := m.dec quantile
    match csub "ans.dec.remainder" quantile r.2.1 with
    | .error f => .error f
    | .ok remainder =>
      match cmul "ans.dec.mul" c.S (state >>> c.P) r.2.2 with
      | .error f => .error f
      | .ok t =>
        match cadd "ans.dec.add" c.S t remainder with
        | .error f => .error f
        | .ok st =>
          if st < 2^(c.S - c.W) then
            match B.read b with
            | .error f => .error f
            | .ok (some w, b') => .ok (r.1, b', ((st <<< c.W) % 2^c.S) ||| w)
            | .ok (none, b') => .ok (r.1, b', st)
          else .ok (r.1, b, st)

end CV.Backend
