import CV.Model.Quant
/-!
# Native `Float` / `Float32` replicas of the crate's float→fixed computations (executable only)

Input floats are bit patterns.  Lean's `Float`/`Float32` are IEEE binary64/binary32 with the same
`+ * /`, `Float.toUIntN` saturates like Rust's `as` (NaN ↦ 0, negative ↦ 0, too large ↦ MAX),
`UInt64.toFloat32`/`toFloat` round to nearest even like `u64 as f32/f64` — checked bit-for-bit
against the crate by the correspondence runs.  The general theorems do not depend on this file (they quantify over the integer sequences);
it produces the integer sequences `h`, `k0`, `gl`, `gr`, the
`hint`, that the integer layer `CV.Model.Quant` consumes, and evaluates the theorems' hypotheses
on each concrete instance (certificate checking).  Lean 4.33's kernel does reduce closed
`Float`/`Float32` terms, so on a concrete table the hypotheses can also be *proved* by `decide`
(see `CV.Proofs.QuantFloatInstances`); what cannot be done is to reason about IEEE arithmetic
for *all* inputs.
-/
namespace CV.Quant

/-- the IEEE operations the crate's generic code uses, for one float type -/
structure FOps (F : Type) where
  ofBits : Nat → F
  toBits : F → Nat
  add : F → F → F
  mul : F → F → F
  div : F → F → F
  /-- IEEE `a <= b` -/
  le : F → F → Bool
  /-- `x as u{B}` (saturating) -/
  toUInt : Nat → F → Nat
  /-- `x as F` for an unsigned integer `x < 2^64` (round to nearest even) -/
  ofNat64 : Nat → F
  expShift : Nat
  expMask : Nat
  signBit : Nat
  zero : F
  negZero : F
  one : F
  eps : F

def f32Ops : FOps Float32 where
  ofBits n := Float32.ofBits (UInt32.ofNat n)
  toBits x := x.toBits.toNat
  add := (· + ·)
  mul := (· * ·)
  div := (· / ·)
  le a b := decide (a ≤ b)
  toUInt B x :=
    if B = 8 then x.toUInt8.toNat else if B = 16 then x.toUInt16.toNat
    else if B = 32 then x.toUInt32.toNat else x.toUInt64.toNat
  ofNat64 n := (UInt64.ofNat n).toFloat32
  expShift := 23
  expMask := 0xff
  signBit := 31
  zero := Float32.ofBits 0
  negZero := Float32.ofBits 0x80000000
  one := Float32.ofBits 0x3f800000
  eps := Float32.ofBits 0x34000000

def f64Ops : FOps Float where
  ofBits n := Float.ofBits (UInt64.ofNat n)
  toBits x := x.toBits.toNat
  add := (· + ·)
  mul := (· * ·)
  div := (· / ·)
  le a b := decide (a ≤ b)
  toUInt B x :=
    if B = 8 then x.toUInt8.toNat else if B = 16 then x.toUInt16.toNat
    else if B = 32 then x.toUInt32.toNat else x.toUInt64.toNat
  ofNat64 n := (UInt64.ofNat n).toFloat
  expShift := 52
  expMask := 0x7ff
  signBit := 63
  zero := Float.ofBits 0
  negZero := Float.ofBits 0x8000000000000000
  one := Float.ofBits 0x3ff0000000000000
  eps := Float.ofBits 0x3cb0000000000000

section generic
variable {F : Type} (o : FOps F)

/-- `f.is_normal()` -/
def FOps.isNormal (x : F) : Bool :=
  let e := (o.toBits x >>> o.expShift) &&& o.expMask
  e != 0 && e != o.expMask

/-- `f.is_sign_positive()` -/
def FOps.signPos (x : F) : Bool := (o.toBits x >>> o.signBit) == 0

/-- `iter.sum::<F>()` = `fold(-0.0, +)` -/
def FOps.sum (xs : List F) : F := xs.foldl o.add o.negZero

/-- prefix sums `[init, init+x₀, (init+x₀)+x₁, …]` (`n+1` entries) -/
def FOps.prefixSums (init : F) (xs : List F) : Array F :=
  (xs.foldl (fun (acc : Array F × F) x => let c := o.add acc.2 x; (acc.1.push c, c))
    (#[init], init)).1

/-- what the `…_fast` constructors (eager and lazy) compute before any query -/
structure FastCtx (F : Type) where
  n : Nat
  free : Nat
  scale : F
  /-- prefix sums starting from `+0.0` (eager `cumulative_float`; lazy decoder) -/
  cumE : Array F
  /-- prefix sums starting from `-0.0` (lazy encoder: `left_side.iter().copied().sum()`) -/
  cumL : Array F

/-- common prologue of `fast_quantized_cdf` and
    `LazyContiguousCategoricalEntropyModel::from_floating_point_probabilities_fast`
    (after D14); `none` = `Err(())` -/
def fastSetup (B P : Nat) (probs : List F) (norm : Option F) : Option (FastCtx F) :=
  let n := probs.length
  if !lenOk P n then none
  else if !(probs.all (fun p => o.le o.zero p)) then none
  else
    let free := freeWeight B P n
    let normalization := match norm with
      | some x => x
      | none => o.sum probs
    if !o.isNormal normalization || !o.signPos normalization then none
    else
      some { n := n, free := free, scale := o.div (o.ofNat64 free) normalization,
             cumE := o.prefixSums o.zero probs, cumL := o.prefixSums o.negZero probs }

/-- `(cumulative_float * scale).as_()` -/
def FastCtx.hE (c : FastCtx F) (B : Nat) (i : Nat) : Nat :=
  o.toUInt B (o.mul (c.cumE.getD i o.zero) c.scale)
def FastCtx.hL (c : FastCtx F) (B : Nat) (i : Nat) : Nat :=
  o.toUInt B (o.mul (c.cumL.getD i o.zero) c.scale)

/-- skip phase of the lazy `quantile_function`: number of items consumed by the first loop -/
def FastCtx.k0 (c : FastCtx F) (B : Nat) (q : Nat) : Nat :=
  let enlarged := o.mul (o.add (o.add o.one o.eps) o.eps) c.scale
  let lower := o.div (o.ofNat64 (q - narrow B c.n)) enlarged
  let rec go (fuel i : Nat) : Nat :=
    match fuel with
    | 0 => i
    | fuel + 1 =>
      -- item `i` consumed: `next_symbol = i + 1`, `right_cumulative_float = cumE[i+1]`
      if o.le lower (c.cumE.getD (i + 1) o.zero) then i + 1 else go fuel (i + 1)
  go c.n 0

/-- certificate: the hypotheses of the integer-layer theorems on this instance -/
def FastCtx.monoCert (c : FastCtx F) (B : Nat) : Bool :=
  c.hE o B 0 == 0 &&
  (List.range c.n).all (fun i => decide (c.hE o B i ≤ c.hE o B (i + 1))) &&
  (List.range (c.n + 1)).all (fun i => c.hE o B i == c.hL o B i)

end generic

/-! ## `perfectly_quantized_probabilities`: replica of everything up to the first `log1p`

The optimisation loop uses `libm::log1p` on `f64`; a bit-exact replica is not feasible (Lean
has no `log1p`, and libm's port need not agree with the C library in the last bit).  The
model therefore covers the rejection logic and the first pass exactly, and the *output
contract* (`perfectContract`): the weights are non-zero and sum to `2^P`, i.e. they pass
`accumulate_nonzero_probabilities`. -/

inductive PerfectPre where
  | rejected
  | fault (f : Fault)
  | proceeds
  deriving Repr

/-- everything before the optimisation loop (after the repairs D18, D19, D20): length check, negative
    entries rejected up front, normalisation check; the first pass hands out
    `min ((prob * scale) as Probability) remaining`, which can neither underflow `remaining`
    nor overflow `weight = current + 1` (`remaining ≤ 2^B - 2`), so it never faults.
    `toF64` converts an input of type `F` to `f64` (exact). -/
def perfectPre {F : Type} (o : FOps F) (toF64 : F → Float) (B P : Nat) (probs : List F) :
    PerfectPre :=
  let n := probs.length
  if n < 2 || n > 2 ^ B - 1 then .rejected
  -- `prob < F::zero()`  ⇔  `prob <= 0 && !(0 <= prob)`
  else if probs.any (fun p => o.le p o.zero && !(o.le o.zero p)) then .rejected
  else
    let free := freeWeight B P n
    let normalization := f64Ops.sum (probs.map toF64)
    if !f64Ops.isNormal normalization || !f64Ops.signPos normalization then .rejected
    else
      let scale := (Float.ofNat free) / normalization
      -- `!scale.is_finite()` (D20): the normalisation is too small
      if ((f64Ops.toBits scale >>> 52) &&& 0x7ff) == 0x7ff then .rejected else
      let rec go (remaining : Nat) : List F → PerfectPre
        | [] => .proceeds
        | p :: rest =>
          let cur := min (f64Ops.toUInt B (toF64 p * scale)) remaining
          if cur + 1 ≥ 2 ^ B then .fault (.overflow "perfect.weight")
          else go (remaining - cur) rest
      go free probs

/-- the output contract of the `…_perfect` constructors -/
def perfectContract (P n : Nat) (weights : List Nat) : Bool :=
  weights.length == n && weights.all (fun w => decide (0 < w)) &&
  weights.foldl (· + ·) 0 == 2 ^ P

/-! ## Leaky quantizer: the distribution is an external call with recorded values -/

/-- `x as Symbol` for an `f64` (saturating, NaN ↦ 0) -/
def f64ToSym (t : SymTy) (x : Float) : Int :=
  if t.signed then
    if t.bits = 8 then x.toInt8.toInt else if t.bits = 16 then x.toInt16.toInt
    else if t.bits = 32 then x.toInt32.toInt else x.toInt64.toInt
  else
    if t.bits = 8 then x.toUInt8.toNat else if t.bits = 16 then x.toUInt16.toNat
    else if t.bits = 32 then x.toUInt32.toNat else x.toUInt64.toNat

/-- binary search in a table of recorded calls sorted by key -/
def recLookup (tab : Array (UInt64 × UInt64)) (key : UInt64) : Option UInt64 :=
  let rec go (fuel lo hi : Nat) : Option UInt64 :=
    match fuel with
    | 0 => none
    | fuel + 1 =>
      if lo ≥ hi then none
      else
        let mid := (lo + hi) / 2
        match tab[mid]? with
        | none => none
        | some (k, v) =>
          if k == key then some v
          else if k < key then go fuel (mid + 1) hi else go fuel lo mid
  go 70 0 tab.size

/-- `(free_weight * distribution(symbol ± 0.5)).as_()` from the recorded values of
    `distribution` (keys and values are `f64` bit patterns) -/
def leakyExt (B free : Nat) (tab : Array (UInt64 × UInt64)) (half : Float) : Ext := fun s =>
  match recLookup tab (Float.ofInt s + half).toBits with
  | none => none
  | some c => some (f64Ops.toUInt B (Float.ofNat free * Float.ofBits c))

/-- the argument passed to `Inverse::inverse`: `(quantile.into() + 0.5) * (1.0 / (max_probability.into() + 1.0))` -/
def inverseArg (B P q : Nat) : Float :=
  let maxProb := (2 ^ B - 1) >>> (B - P)
  (Float.ofNat q + 0.5) * (1.0 / (Float.ofNat maxProb + 1.0))

end CV.Quant
