/-!
# Machine-level conventions shared by every Impl model (import-free, executable)

A value of an `n`-bit unsigned Rust type is a `Nat`; the bound `< 2^n` lives in the
well-formedness predicate of each state record.  Every Rust operation that panics in a
checked build (`+ - * <<` overflow, `expect`, `assert!`, slice bounds) or whose unsafe
precondition would be violated returns an explicit `Fault`.
-/
namespace CV

inductive Fault where
  | overflow (site : String)
  | shift (site : String)
  | ub (site : String)
  | panic (site : String)
  deriving Repr, DecidableEq, Inhabited

def Fault.toStr : Fault → String
  | .overflow s => "panic:overflow:" ++ s
  | .shift s => "panic:shift:" ++ s
  | .ub s => "ub:" ++ s
  | .panic s => "panic:" ++ s

abbrev M := Except Fault

/-- plain `a + b` on an `n`-bit unsigned type in a checked build -/
def cadd (site : String) (n a b : Nat) : M Nat :=
  if a + b < 2^n then .ok (a + b) else .error (.overflow site)
/-- plain `a - b` on an unsigned type in a checked build -/
def csub (site : String) (a b : Nat) : M Nat :=
  if b ≤ a then .ok (a - b) else .error (.overflow site)
/-- plain `a * b` on an `n`-bit unsigned type in a checked build -/
def cmul (site : String) (n a b : Nat) : M Nat :=
  if a * b < 2^n then .ok (a * b) else .error (.overflow site)
/-- `a << k` on an `n`-bit type: shifted-out bits are dropped silently, `k ≥ n` panics -/
def shl (site : String) (n a k : Nat) : M Nat :=
  if k < n then .ok ((a <<< k) % 2^n) else .error (.shift site)
/-- `a >> k` on an `n`-bit type: `k ≥ n` panics -/
def shr (site : String) (n a k : Nat) : M Nat :=
  if k < n then .ok (a >>> k) else .error (.shift site)
/-- `a / b`, panics on `b = 0` -/
def cdiv (site : String) (a b : Nat) : M Nat :=
  if b = 0 then .error (.panic site) else .ok (a / b)
def cmod (site : String) (a b : Nat) : M Nat :=
  if b = 0 then .error (.panic site) else .ok (a % b)

def wadd (n a b : Nat) : Nat := (a + b) % 2^n
def wsub (n a b : Nat) : Nat := (a + 2^n - b % 2^n) % 2^n
def wmul (n a b : Nat) : Nat := (a * b) % 2^n
/-- `as_()` to an `n`-bit unsigned type -/
def narrow (n a : Nat) : Nat := a % 2^n
/-- the crate's `wrapping_pow2::<T>(e)` with `T::BITS = n` -/
def wrappingPow2 (n e : Nat) : Nat := if e ≥ n then 0 else 2^e

/-- number of significant bits: `T::BITS - x.leading_zeros()` -/
def bitlen (x : Nat) : Nat := if x = 0 then 0 else Nat.log2 x + 1

/-- `bit_array_to_chunks_truncated(x).rev()` with `Chunk::BITS = C`:
    the chunks of `x`, least significant first, without leading (most significant) zero chunks. -/
def chunksLE (C x : Nat) : List Nat :=
  (List.range ((bitlen x + C - 1) / C)).map (fun i => (x >>> (i * C)) % 2^C)

/-- `bit_array_to_chunks_truncated(x)`: most significant chunk first. -/
def chunksBE (C x : Nat) : List Nat := (chunksLE C x).reverse

/-- type parameters of a stream coder: `W = Word::BITS`, `S = State::BITS`,
    `P = PRECISION`, `B = Probability::BITS` -/
structure Cfg where
  W : Nat
  S : Nat
  P : Nat
  B : Nat
  deriving Repr, DecidableEq

/-- what the crate's static assertions and trait bounds admit
    (`tools/static_guards.py` compares this list with the source on every run) -/
def Cfg.Valid (c : Cfg) : Prop :=
  1 ≤ c.P ∧ c.P ≤ c.B ∧ c.B ≤ c.W ∧ 2 * c.W ≤ c.S

instance (c : Cfg) : Decidable c.Valid := by unfold Cfg.Valid; exact inferInstance

/-- abstract entropy model at precision `P`: the two trait methods
    `left_cumulative_and_probability` and `quantile_function` -/
structure Model (Sym : Type) where
  enc : Sym → Option (Nat × Nat)
  dec : Nat → Sym × Nat × Nat

/-- The contract between coders and entropy models (`EncoderModel`/`DecoderModel` docs). -/
def Model.WellFormed {Sym : Type} (P : Nat) (m : Model Sym) : Prop :=
  (∀ s c p, m.enc s = some (c, p) →
      0 < p ∧ c + p ≤ 2^P ∧ p < 2^P ∧ ∀ q, c ≤ q → q < c + p → m.dec q = (s, c, p)) ∧
  (∀ q, q < 2^P → m.enc (m.dec q).1 = some ((m.dec q).2.1, (m.dec q).2.2) ∧
      (m.dec q).2.1 ≤ q ∧ q < (m.dec q).2.1 + (m.dec q).2.2)

end CV
