import CV.Model.Bits
/-!
# Impl model of `ExpGolomb<N>` (src/symbol/exp_golomb.rs), generic in `N = N::BITS`

`N::zero().count_zeros()` and `N::max_value().count_ones()` are `N`.  `len` in the decoder is a
`u32`; `len += 1` is a checked addition.
-/
namespace CV.Bits.EG

/-- widths allowed for the symbol type (`count_zeros` returns a `u32`) -/
def ValidN (N : Nat) : Prop := 1 ≤ N ∧ N < 2^32

instance (N : Nat) : Decidable (ValidN N) := by unfold ValidN; exact inferInstance

/-- `while mask != N::zero() { emit(n_plus1 & mask != 0)?; mask = mask >> 1; }` -/
def maskLoop (x : Nat) : Nat → Nat → M (List Bool)
  | 0, mask => if mask = 0 then .ok [] else .error fuelFault
  | f + 1, mask =>
    if mask = 0 then .ok [] else
    match maskLoop x f (mask >>> 1) with
    | .error e => .error e
    | .ok bs => .ok ((x &&& mask ≠ 0) :: bs)

/-- `loop { emit(remaining & 1 != 0)?; remaining = remaining >> 1; if remaining == 0 { break } }` -/
def lsbLoop : Nat → Nat → M (List Bool)
  | 0, _ => .error fuelFault
  | f + 1, remaining =>
    let b := remaining &&& 1 ≠ 0
    let remaining := remaining >>> 1
    if remaining = 0 then .ok [b] else
    match lsbLoop f remaining with
    | .error e => .error e
    | .ok bs => .ok (b :: bs)

/-- `len = N::zero().count_zeros() - n_plus1.leading_zeros() - 1` (`u32` arithmetic) -/
def codeLen (N np1 : Nat) : M Nat :=
  match csub "eg.len.sub1" N (lz N np1) with
  | .error f => .error f
  | .ok a => csub "eg.len.sub2" a 1

/-- the `emit` calls of `encode_symbol_prefix` -/
def prefixBits (N v : Nat) : M (List Bool) :=
  let np1 := wadd N v 1
  if np1 = 0 then
    .ok (List.replicate N false ++ [true] ++ List.replicate N false)
  else
    match codeLen N np1 with
    | .error f => .error f
    | .ok len =>
      match shl "eg.mask" N 1 len with
      | .error f => .error f
      | .ok mask =>
        match maskLoop np1 (N + 1) mask with
        | .error f => .error f
        | .ok bs => .ok (List.replicate len false ++ bs)

/-- the `emit` calls of `encode_symbol_suffix` -/
def suffixBits (N v : Nat) : M (List Bool) :=
  let np1 := wadd N v 1
  if np1 = 0 then
    .ok (List.replicate N false ++ [true] ++ List.replicate N false)
  else
    match codeLen N np1 with
    | .error f => .error f
    | .ok len =>
      match lsbLoop N np1 with
      | .error f => .error f
      | .ok bs => .ok (bs ++ List.replicate len false)

def encBook (N : Nat) : EncBook Nat := { prefixBits := prefixBits N, suffixBits := suffixBits N }

/-- first loop of `decode_symbol`: count `false`s up to the first `true`;
    `none` = the source ended (`InvalidCodeword`) -/
def countZeros {σ : Type} (src : Src σ) : Nat → σ → Nat → M (σ × Option Nat)
  | 0, _, _ => .error fuelFault
  | f + 1, s, len =>
    match src.next s with
    | (some false, s') =>
      match cadd "eg.dec.len" 32 len 1 with
      | .error e => .error e
      | .ok len' => countZeros src f s' len'
    | (some true, s') => .ok (s', some len)
    | (none, s') => .ok (s', none)

/-- second loop: `for _ in 0..len { n_plus1 = (n_plus1 << 1) | bit }` -/
def readBits {σ : Type} (src : Src σ) (N : Nat) : Nat → σ → Nat → σ × Option Nat
  | 0, s, x => (s, some x)
  | k + 1, s, x =>
    match src.next s with
    | (some b, s') => readBits src N k s' (((x <<< 1) % 2^N) ||| (if b then 1 else 0))
    | (none, s') => (s', none)

/-- `DecoderCodebook::decode_symbol` for `ExpGolomb<N>` -/
def decode (N : Nat) {σ : Type} (src : Src σ) (fuel : Nat) (s : σ) : M (σ × Except SymErr Nat) :=
  match countZeros src fuel s 0 with
  | .error f => .error f
  | .ok (s, none) => .ok (s, .error .invalidCodeword)
  | .ok (s, some len) =>
    if len > N then .ok (s, .error .invalidCodeword) else
    match readBits src N len s 1 with
    | (s, none) => .ok (s, .error .invalidCodeword)
    | (s, some np1) =>
      if len = N ∧ np1 ≠ 0 then .ok (s, .error .invalidCodeword)
      else .ok (s, .ok (wsub N np1 1))

def decBook (N : Nat) : DecBook Nat := { decode := fun src fuel s => decode N src fuel s }

end CV.Bits.EG
