import CV.Model.Machine
/-!
# Impl model of `src/backends.rs` (sources and sinks of compressed words)

Import-free and executable.  Words are `Nat`s (no backend does arithmetic on words, so the
model is the same for every `Word` type; the driver narrows words to `W` bits when parsing).

Transcribed (after the repairs D11 `7b329fc` and D12 `ca8abce` in `/repo`):

* `Vec<Word>` / `SmallVec<[Word; N]>` as stacks (`VecB`, `SmallVecB`; lists in Rust index order,
  i.e. the top of the stack is the *last* element);
* `Cursor<Word, Buf>` = `(buf, pos)`: `Stack` reads decrement `pos` and then read, `Queue` reads
  read at `pos` and then increment, writes go to `pos` and increment.  `Buf` is `Vec<Word>`,
  `Box<[Word]>`, `&mut [Word]` (all writable) or `&[Word]` (read-only): the model is the same,
  the `writable` flag of `Cur.step` says which trait impls exist;
* `Reverse<Cursor>` (`RevCursor`) and `into_reversed` in both directions;
* `FallibleIteratorReadWords` / `InfallibleIteratorReadWords` (`core::iter::Fuse` around an
  arbitrary, possibly non-fused iterator that is given by a script of `next()` results);
* `FallibleCallbackWriteWords` / `InfallibleCallbackWriteWords` (the callback is the harness's:
  it appends to a log and returns `Err` on scripted calls);
* the default `WriteWords::extend_from_iter`, `maybe_full`, `maybe_exhausted`, `is_exhausted`,
  `is_full`.

Faults: a slice index out of bounds is `Fault.panic`, `len - pos` with `pos > len` is
`Fault.overflow` (`csub`).  The *pre-repair* code of D12 is kept as `Cursor.readStackLegacy` /
`RevCursor.writeLegacy` with the unchecked index as a `Fault.ub` branch and the pre-repair
`space_left` of D11 as `RevCursor.spaceLeftLegacy`, so that the failed obligations stay
visible (`Properties/C17_backend.lean`, `C20_backend.lean`).

Not modelled as a fault: `pos += 1` (plain `+` on `usize`) in `Cursor::write` and the `Queue`
read.  It executes only when `pos < buf.len()`, and a slice has at most `isize::MAX` elements,
so it cannot overflow; the model's lists are unbounded, so there is nothing to check.
-/
namespace CV.Backend

/-! ## `Vec<Word>` -/

structure VecB where
  /-- Rust index order; top of the stack = last element -/
  data : List Nat
  deriving Repr, DecidableEq, Inhabited

namespace VecB

/-- `WriteWords::write`: `self.push(word); Ok(())` -/
def write (v : VecB) (w : Nat) : VecB := ⟨v.data ++ [w]⟩
/-- overridden `extend_from_iter`: `self.extend(iter); Ok(())` -/
def extendFromIter (v : VecB) (ws : List Nat) : VecB := ⟨v.data ++ ws⟩
def maybeFull (_ : VecB) : Bool := false
/-- `ReadWords<Word, Stack>::read`: `Ok(self.pop())` (`pop` on an empty vector is `None`) -/
def read (v : VecB) : Option Nat × VecB :=
  match v.data.getLast? with
  | some w => (some w, ⟨v.data.dropLast⟩)
  | none => (none, v)
def maybeExhausted (v : VecB) : Bool := v.data.isEmpty
def remaining (v : VecB) : Nat := v.data.length
/-- default `is_exhausted`: `self.remaining() == 0` -/
def isExhausted (v : VecB) : Bool := v.remaining == 0
def pos (v : VecB) : Nat := v.data.length
/-- `Seek::seek`: truncates if `pos <= len`, else `Err(())` -/
def seek (v : VecB) (p : Nat) : Option VecB :=
  if p ≤ v.data.length then some ⟨v.data.take p⟩ else none

end VecB

/-! ## `SmallVec<[Word; N]>`

Same trait impls as `Vec`.  `spilled` (moved to the heap) is the `smallvec` crate's business,
tracked only because the harness can observe it at the inline-capacity boundary: `push`
spills when `len == N`, `extend` reserves the iterator's (exact) length first, nothing
un-spills. -/

structure SmallVecB where
  data : List Nat
  inlineCap : Nat
  spilled : Bool
  deriving Repr, DecidableEq, Inhabited

namespace SmallVecB

def ofList (n : Nat) (ws : List Nat) : SmallVecB :=
  { data := ws, inlineCap := n, spilled := decide (n < ws.length) }
def toVec (v : SmallVecB) : VecB := ⟨v.data⟩
def write (v : SmallVecB) (w : Nat) : SmallVecB :=
  { v with data := v.data ++ [w], spilled := v.spilled || decide (v.inlineCap < v.data.length + 1) }
def extendFromIter (v : SmallVecB) (ws : List Nat) : SmallVecB :=
  { v with data := v.data ++ ws,
           spilled := v.spilled || decide (v.inlineCap < v.data.length + ws.length) }
def maybeFull (_ : SmallVecB) : Bool := false
def read (v : SmallVecB) : Option Nat × SmallVecB :=
  match v.data.getLast? with
  | some w => (some w, { v with data := v.data.dropLast })
  | none => (none, v)
def maybeExhausted (v : SmallVecB) : Bool := v.data.isEmpty
def remaining (v : SmallVecB) : Nat := v.data.length
def isExhausted (v : SmallVecB) : Bool := v.remaining == 0
def pos (v : SmallVecB) : Nat := v.data.length
def seek (v : SmallVecB) (p : Nat) : Option SmallVecB :=
  if p ≤ v.data.length then some { v with data := v.data.take p } else none

end SmallVecB

/-! ## `Cursor<Word, Buf>` -/

structure Cursor where
  buf : List Nat
  pos : Nat
  deriving Repr, DecidableEq, Inhabited

/-- `Result<_, BoundedWriteError>` plus panics -/
inductive WErr where
  | outOfSpace
  | fault (f : Fault)
  deriving Repr, DecidableEq

namespace Cursor

/-- the documented invariant of the `pos` field -/
def Inv (c : Cursor) : Prop := c.pos ≤ c.buf.length

instance (c : Cursor) : Decidable c.Inv := by unfold Inv; exact inferInstance

def newAtWriteBeginning (buf : List Nat) : Cursor := ⟨buf, 0⟩
def newAtWriteEnd (buf : List Nat) : Cursor := ⟨buf, buf.length⟩
/-- `new_at_pos` / `new_at_pos_mut`: `Err(())` if `pos > len` -/
def newAtPos (buf : List Nat) (pos : Nat) : Option Cursor :=
  if pos > buf.length then none else some ⟨buf, pos⟩

/-- `ReadWords<Word, Stack>::read` (repaired, D12): checked index, `pos` untouched on panic -/
def readStack (c : Cursor) : M (Option Nat × Cursor) :=
  if c.pos = 0 then .ok (none, c) else
  match c.buf[c.pos - 1]? with
  | some w => .ok (some w, { c with pos := c.pos - 1 })
  | none => .error (.panic "cursor.read_stack.index")

/-- the same method before the repair: `self.pos -= 1; get_unchecked(self.pos)` -/
def readStackLegacy (c : Cursor) : M (Option Nat × Cursor) :=
  if c.pos = 0 then .ok (none, c) else
  match c.buf[c.pos - 1]? with
  | some w => .ok (some w, { c with pos := c.pos - 1 })
  | none => .error (.ub "cursor.read_stack.get_unchecked")

/-- `ReadWords<Word, Queue>::read`: `get(pos).cloned()`, increment if `Some` -/
def readQueue (c : Cursor) : Option Nat × Cursor :=
  match c.buf[c.pos]? with
  | some w => (some w, { c with pos := c.pos + 1 })
  | none => (none, c)

/-- `WriteWords::write`: `get_mut(pos)`; `None` ⇒ `Err(OutOfSpace)` -/
def write (c : Cursor) (w : Nat) : Except WErr Cursor :=
  if c.pos < c.buf.length then .ok { buf := c.buf.set c.pos w, pos := c.pos + 1 }
  else .error .outOfSpace

/-- `BoundedWriteWords::space_left`: `self.buf.as_ref().len() - self.pos` -/
def spaceLeft (c : Cursor) : M Nat := csub "cursor.space_left" c.buf.length c.pos
/-- default `is_full`: `self.space_left() == 0` -/
def isFull (c : Cursor) : M Bool :=
  match c.spaceLeft with
  | .ok n => .ok (n == 0)
  | .error f => .error f
/-- `maybe_full` is not overridden for `Cursor` -/
def maybeFull (_ : Cursor) : Bool := true

/-- `BoundedReadWords<Word, Stack>::remaining`: `self.pos` -/
def remainingStack (c : Cursor) : Nat := c.pos
/-- `BoundedReadWords<Word, Queue>::remaining`: `self.buf.as_ref().len() - self.pos` -/
def remainingQueue (c : Cursor) : M Nat := csub "cursor.remaining_queue" c.buf.length c.pos
def isExhaustedStack (c : Cursor) : Bool := c.remainingStack == 0
def isExhaustedQueue (c : Cursor) : M Bool :=
  match c.remainingQueue with
  | .ok n => .ok (n == 0)
  | .error f => .error f

def getPos (c : Cursor) : Nat := c.pos
/-- `Seek::seek`: `Err(())` iff `pos > len` -/
def seek (c : Cursor) (p : Nat) : Option Cursor :=
  if p > c.buf.length then none else some { c with pos := p }

/-- `new_at_pos_mut` / `new_at_write_end_mut`: the same code over `buf.as_mut().len()`
    (for buffers that implement `AsMut` but not `AsRef`) -/
def newAtPosMut (buf : List Nat) (pos : Nat) : Option Cursor :=
  if pos > buf.length then none else some ⟨buf, pos⟩
def newAtWriteEndMut (buf : List Nat) : Cursor := ⟨buf, buf.length⟩

/-- `as_view`: a `Cursor<Word, &[Word]>` over the same words at the same position -/
def asView (c : Cursor) : Cursor := ⟨c.buf, c.pos⟩
/-- `as_mut_view`: a `Cursor<Word, &mut [Word]>` over the same words at the same position;
    what is written through it is written into the parent's buffer (see `Backend.xstep`) -/
def asMutView (c : Cursor) : Cursor := ⟨c.buf, c.pos⟩
/-- `cloned`: a deep copy -/
def cloned (c : Cursor) : Cursor := ⟨c.buf, c.pos⟩

/-- `IntoReadWords<Word, Stack>::into_read_words`, `AsReadWords<Word, Stack>::as_read_words`
    (over `self.as_ref()`), and the `…SeekReadWords` variants, which call them:
    `Cursor::new_at_write_end` -/
def intoReadWordsStack (buf : List Nat) : Cursor := newAtWriteEnd buf
def asReadWordsStack (buf : List Nat) : Cursor := newAtWriteEnd buf
def intoSeekReadWordsStack (buf : List Nat) : Cursor := intoReadWordsStack buf
def asSeekReadWordsStack (buf : List Nat) : Cursor := asReadWordsStack buf
/-- the `Queue` flavours: `Cursor::new_at_write_beginning` -/
def intoReadWordsQueue (buf : List Nat) : Cursor := newAtWriteBeginning buf
def asReadWordsQueue (buf : List Nat) : Cursor := newAtWriteBeginning buf
def intoSeekReadWordsQueue (buf : List Nat) : Cursor := intoReadWordsQueue buf
def asSeekReadWordsQueue (buf : List Nat) : Cursor := asReadWordsQueue buf

/-- what safe code can do through `buf_mut()`: put any other contents (in particular a
    shorter buffer: `truncate`, `clear`, `*c.buf_mut() = &[]`) under the same `pos` -/
def bufMutSet (c : Cursor) (ws : List Nat) : Cursor := { c with buf := ws }

end Cursor

/-! ## `Reverse<Cursor<Word, Buf>>` -/

structure RevCursor where
  inner : Cursor
  deriving Repr, DecidableEq, Inhabited

namespace RevCursor

/-- `ReadWords<Word, Queue> for Reverse<B>` delegates to `B`'s `Stack` read -/
def readQueue (r : RevCursor) : M (Option Nat × RevCursor) :=
  match r.inner.readStack with
  | .ok (o, c) => .ok (o, ⟨c⟩)
  | .error f => .error f
/-- `ReadWords<Word, Stack> for Reverse<B>` delegates to `B`'s `Queue` read -/
def readStack (r : RevCursor) : Option Nat × RevCursor :=
  ((r.inner.readQueue).1, ⟨(r.inner.readQueue).2⟩)

/-- `WriteWords for Reverse<Cursor>` (repaired, D12): checked index -/
def write (r : RevCursor) (w : Nat) : Except WErr RevCursor :=
  if r.inner.pos = 0 then .error .outOfSpace else
  if r.inner.pos - 1 < r.inner.buf.length then
    .ok ⟨{ buf := r.inner.buf.set (r.inner.pos - 1) w, pos := r.inner.pos - 1 }⟩
  else .error (.fault (.panic "rev_cursor.write.index"))

/-- the same method before the repair: `get_unchecked_mut` -/
def writeLegacy (r : RevCursor) (w : Nat) : Except WErr RevCursor :=
  if r.inner.pos = 0 then .error .outOfSpace else
  if r.inner.pos - 1 < r.inner.buf.length then
    .ok ⟨{ buf := r.inner.buf.set (r.inner.pos - 1) w, pos := r.inner.pos - 1 }⟩
  else .error (.fault (.ub "rev_cursor.write.get_unchecked_mut"))

/-- `space_left` (repaired, D11): `self.0.pos` -/
def spaceLeft (r : RevCursor) : Nat := r.inner.pos
/-- `space_left` before the repair: `self.0.buf.as_ref().len()` -/
def spaceLeftLegacy (r : RevCursor) : Nat := r.inner.buf.length
def isFull (r : RevCursor) : Bool := r.spaceLeft == 0
def maybeFull (_ : RevCursor) : Bool := true

def remainingQueue (r : RevCursor) : Nat := r.inner.remainingStack
def remainingStack (r : RevCursor) : M Nat := r.inner.remainingQueue
def isExhaustedQueue (r : RevCursor) : Bool := r.inner.isExhaustedStack
def isExhaustedStack (r : RevCursor) : M Bool := r.inner.isExhaustedQueue

/-- `Pos`/`Seek` pass through without conversion -/
def getPos (r : RevCursor) : Nat := r.inner.pos
def seek (r : RevCursor) (p : Nat) : Option RevCursor :=
  match r.inner.seek p with
  | some c => some ⟨c⟩
  | none => none

def bufMutSet (r : RevCursor) (ws : List Nat) : RevCursor := ⟨r.inner.bufMutSet ws⟩

end RevCursor

/-- `Cursor::into_reversed`: reverse in place, `pos = len - pos`, wrap -/
def Cursor.intoReversed (c : Cursor) : M RevCursor :=
  match csub "cursor.into_reversed" c.buf.length c.pos with
  | .ok p => .ok ⟨{ buf := c.buf.reverse, pos := p }⟩
  | .error f => .error f

/-- `Reverse<Cursor>::into_reversed`: `self.0.into_reversed().0` -/
def RevCursor.intoReversed (r : RevCursor) : M Cursor :=
  match r.inner.intoReversed with
  | .ok r' => .ok r'.inner
  | .error f => .error f

/-! ## default `WriteWords::extend_from_iter` -/

/-- `Result<Word, ReadError>` with `ReadError = ()` (what the scripted iterators yield) -/
inductive Item where
  | word (w : Nat)
  | err
  deriving Repr, DecidableEq

/-- result of a step of the protocol machine -/
inductive Out where
  | unsupported
  | ok
  | err
  | full
  | cbErr
  | readErr
  | word (o : Option Nat)
  | item (o : Option Item)
  | num (n : Nat)
  | bool (a : Bool)
  | bools (a b : Bool)
  | extFull (leftover : Nat)
  | extCbErr (leftover : Nat)
  | dump (tag : String) (ws : List Nat) (n : Nat)
  | dumpItems (items : List Item)
  deriving Repr, DecidableEq

/-- `for word in iter { self.write(word)?; } Ok(())`: the failing word has been taken out of the
    iterator, `leftover` = how many the iterator still holds -/
def extendLoop {σ : Type} (write : σ → Nat → Except WErr σ) : σ → List Nat → M (Out × σ)
  | s, [] => .ok (.ok, s)
  | s, w :: ws =>
    match write s w with
    | .ok s' => extendLoop write s' ws
    | .error .outOfSpace => .ok (.extFull ws.length, s)
    | .error (.fault f) => .error f

/-! ## iterator adapters -/

/-- `core::iter::Fuse<I>` around an iterator given by the script of its `next()` results
    (`none` entries are "holes" of a non-fused iterator; after the script it returns `None`) -/
structure Fuse (α : Type) where
  script : List (Option α)
  done : Bool := false
  deriving Repr, DecidableEq

namespace Fuse
variable {α : Type}

def next (f : Fuse α) : Option α × Fuse α :=
  if f.done then (none, f) else
  match f.script with
  | [] => (none, { f with done := true })
  | none :: rest => (none, { script := rest, done := true })
  | some a :: rest => (some a, { f with script := rest })

/-- number of leading `Some` results of the wrapped iterator (`ExactSizeIterator::len` of an
    honest exact-size iterator) -/
def honestLen : List (Option α) → Nat
  | some _ :: rest => honestLen rest + 1
  | _ => 0

/-- `ExactSizeIterator::len` of the `Fuse`: `0` once the wrapped iterator was dropped -/
def len (f : Fuse α) : Nat := if f.done then 0 else honestLen f.script

/-- the items a clone of the adapter would still yield -/
def pending : List (Option α) → List α
  | some a :: rest => a :: pending rest
  | _ => []

end Fuse

/-- `FallibleIteratorReadWords<Iter>` -/
structure FallibleIter where
  inner : Fuse Item
  deriving Repr, DecidableEq

/-- `InfallibleIteratorReadWords<Iter>`.  Its constructor demands
    `Iter: Iterator<Item = Result<Word, ReadError>>` (copied from the fallible one) while the
    `ReadWords` impl demands `Iter: Iterator<Item = Word>`, so the words it yields are the
    `Result`s themselves. -/
structure InfallibleIter where
  inner : Fuse Item
  deriving Repr, DecidableEq

/-- `self.inner.next().transpose()`: `Ok(None)` / `Ok(Some(w))` / `Err(e)` -/
def FallibleIter.read (r : FallibleIter) : Except Unit (Option Nat) × FallibleIter :=
  match r.inner.next with
  | (none, f) => (.ok none, ⟨f⟩)
  | (some (.word w), f) => (.ok (some w), ⟨f⟩)
  | (some .err, f) => (.error (), ⟨f⟩)
def FallibleIter.remaining (r : FallibleIter) : Nat := r.inner.len

/-- `Ok(self.inner.next())` -/
def InfallibleIter.read (r : InfallibleIter) : Option Item × InfallibleIter :=
  ((r.inner.next).1, ⟨(r.inner.next).2⟩)
def InfallibleIter.remaining (r : InfallibleIter) : Nat := r.inner.len

/-! ## callback adapters -/

/-- the harness's callback: appends the word to `log` unless the call number is in `failAt`
    (then it returns `Err(())`; an infallible callback has `failAt = []`) -/
structure Callback where
  log : List Nat
  calls : Nat
  failAt : List Nat
  deriving Repr, DecidableEq

/-- `(self.write_callback)(word)` -/
def Callback.write (cb : Callback) (w : Nat) : Bool × Callback :=
  if cb.failAt.contains cb.calls then (false, { cb with calls := cb.calls + 1 })
  else (true, { cb with log := cb.log ++ [w], calls := cb.calls + 1 })

/-- `into_inner`: the callback itself, with whatever it has captured -/
def Callback.intoInner (cb : Callback) : Callback := cb

/-- default `extend_from_iter` over the callback -/
def Callback.extend : Callback → List Nat → Out × Callback
  | cb, [] => (.ok, cb)
  | cb, w :: ws =>
    if (cb.write w).1 then Callback.extend (cb.write w).2 ws
    else (.extCbErr ws.length, (cb.write w).2)

/-! ## the protocol machine: one constructor per trait method -/

inductive Op where
  | readS                    -- `ReadWords<Word, Stack>::read`
  | readQ                    -- `ReadWords<Word, Queue>::read`
  | write (w : Nat)          -- `WriteWords::write`
  | extend (ws : List Nat)   -- `WriteWords::extend_from_iter`
  | remS | remQ              -- `BoundedReadWords<Word, _>::remaining`
  | exhS | exhQ              -- `is_exhausted`, `maybe_exhausted`
  | spaceLeft                -- `BoundedWriteWords::space_left`
  | full                     -- `is_full` (where bounded), `maybe_full`
  | pos | seek (p : Nat)     -- `Pos::pos`, `Seek::seek`
  | intoReversed
  | roundtrip                -- `into_buf_and_pos` then `new_at_pos`
  | raw                      -- dump
  | bmSet (ws : List Nat)    -- `*buf_mut() = ws` (not a trait method)
  deriving Repr, DecidableEq

/-- a `Cursor` or a `Reverse<Cursor>` (what `into_reversed` toggles between) -/
inductive Cur where
  | fwd (c : Cursor)
  | rev (r : RevCursor)
  deriving Repr, DecidableEq

namespace Cur

def inner : Cur → Cursor
  | fwd c => c
  | rev r => r.inner

def Inv (s : Cur) : Prop := s.inner.Inv

/-- one method call; `writable` = the buffer type implements `AsMut<[Word]>` -/
def step (writable : Bool) : Cur → Op → M (Out × Cur)
  | fwd c, .readS =>
    match c.readStack with
    | .ok (o, c') => .ok (.word o, fwd c')
    | .error f => .error f
  | fwd c, .readQ => .ok (.word (c.readQueue).1, fwd (c.readQueue).2)
  | fwd c, .write w =>
    if writable then
      match c.write w with
      | .ok c' => .ok (.ok, fwd c')
      | .error .outOfSpace => .ok (.full, fwd c)
      | .error (.fault f) => .error f
    else .ok (.unsupported, fwd c)
  | fwd c, .extend ws =>
    if writable then
      match extendLoop Cursor.write c ws with
      | .ok (o, c') => .ok (o, fwd c')
      | .error f => .error f
    else .ok (.unsupported, fwd c)
  | fwd c, .remS => .ok (.num c.remainingStack, fwd c)
  | fwd c, .remQ =>
    match c.remainingQueue with
    | .ok n => .ok (.num n, fwd c)
    | .error f => .error f
  | fwd c, .exhS => .ok (.bools c.isExhaustedStack c.isExhaustedStack, fwd c)
  | fwd c, .exhQ =>
    match c.isExhaustedQueue with
    | .ok b => .ok (.bools b b, fwd c)
    | .error f => .error f
  | fwd c, .spaceLeft =>
    if writable then
      match c.spaceLeft with
      | .ok n => .ok (.num n, fwd c)
      | .error f => .error f
    else .ok (.unsupported, fwd c)
  | fwd c, .full =>
    if writable then
      match c.isFull with
      | .ok b => .ok (.bools b c.maybeFull, fwd c)
      | .error f => .error f
    else .ok (.unsupported, fwd c)
  | fwd c, .pos => .ok (.num c.getPos, fwd c)
  | fwd c, .seek p =>
    match c.seek p with
    | some c' => .ok (.ok, fwd c')
    | none => .ok (.err, fwd c)
  | fwd c, .intoReversed =>
    if writable then
      match c.intoReversed with
      | .ok r => .ok (.ok, rev r)
      | .error f => .error f
    else .ok (.unsupported, fwd c)
  | fwd c, .roundtrip =>
    match Cursor.newAtPos c.buf c.pos with
    | some c' => .ok (.ok, fwd c')
    | none => .ok (.err, fwd c)
  | fwd c, .raw => .ok (.dump "fwd" c.buf c.pos, fwd c)
  | fwd c, .bmSet ws => .ok (.ok, fwd (c.bufMutSet ws))
  | rev r, .readS => .ok (.word (r.readStack).1, rev (r.readStack).2)
  | rev r, .readQ =>
    match r.readQueue with
    | .ok (o, r') => .ok (.word o, rev r')
    | .error f => .error f
  | rev r, .write w =>
    if writable then
      match r.write w with
      | .ok r' => .ok (.ok, rev r')
      | .error .outOfSpace => .ok (.full, rev r)
      | .error (.fault f) => .error f
    else .ok (.unsupported, rev r)
  | rev r, .extend ws =>
    if writable then
      match extendLoop RevCursor.write r ws with
      | .ok (o, r') => .ok (o, rev r')
      | .error f => .error f
    else .ok (.unsupported, rev r)
  | rev r, .remS =>
    match r.remainingStack with
    | .ok n => .ok (.num n, rev r)
    | .error f => .error f
  | rev r, .remQ => .ok (.num r.remainingQueue, rev r)
  | rev r, .exhS =>
    match r.isExhaustedStack with
    | .ok b => .ok (.bools b b, rev r)
    | .error f => .error f
  | rev r, .exhQ => .ok (.bools r.isExhaustedQueue r.isExhaustedQueue, rev r)
  | rev r, .spaceLeft =>
    if writable then .ok (.num r.spaceLeft, rev r) else .ok (.unsupported, rev r)
  | rev r, .full =>
    if writable then .ok (.bools r.isFull r.maybeFull, rev r) else .ok (.unsupported, rev r)
  | rev r, .pos => .ok (.num r.getPos, rev r)
  | rev r, .seek p =>
    match r.seek p with
    | some r' => .ok (.ok, rev r')
    | none => .ok (.err, rev r)
  | rev r, .intoReversed =>
    if writable then
      match r.intoReversed with
      | .ok c => .ok (.ok, fwd c)
      | .error f => .error f
    else .ok (.unsupported, rev r)
  | rev r, .roundtrip =>
    match Cursor.newAtPos r.inner.buf r.inner.pos with
    | some c' => .ok (.ok, rev ⟨c'⟩)
    | none => .ok (.err, rev r)
  | rev r, .raw => .ok (.dump "rev" r.inner.buf r.inner.pos, rev r)
  | rev r, .bmSet ws => .ok (.ok, rev (r.bufMutSet ws))

/-- a whole history: the outputs up to the first fault, and the final state or the fault -/
def run (writable : Bool) : Cur → List Op → List Out × Except Fault Cur
  | s, [] => ([], .ok s)
  | s, op :: ops =>
    match step writable s op with
    | .ok (o, s') => (o :: (run writable s' ops).1, (run writable s' ops).2)
    | .error f => ([], .error f)

end Cur

/-- every backend the protocol can drive -/
inductive Backend where
  | vec (v : VecB)
  | smallvec (v : SmallVecB)
  | cur (writable : Bool) (s : Cur)
  | iterF (r : FallibleIter)
  | iterI (r : InfallibleIter)
  /-- the same adapters around an iterator whose `size_hint` is legal but not exact
      (`lo ≤ actual ≤ hi`, possibly no upper bound): not an `ExactSizeIterator`, so no
      `BoundedReadWords`; `maybe_exhausted` is the trait default `true` (the code never looks
      at `size_hint`), so the hint itself is not part of the state -/
  | iterFL (r : FallibleIter)
  | iterIL (r : InfallibleIter)
  | cbF (cb : Callback)
  | cbI (cb : Callback)
  deriving Repr, DecidableEq

namespace Backend

def step : Backend → Op → M (Out × Backend)
  | vec v, .readS => .ok (.word (v.read).1, vec (v.read).2)
  | vec v, .write w => .ok (.ok, vec (v.write w))
  | vec v, .extend ws => .ok (.ok, vec (v.extendFromIter ws))
  | vec v, .remS => .ok (.num v.remaining, vec v)
  | vec v, .exhS => .ok (.bools v.isExhausted v.maybeExhausted, vec v)
  | vec v, .full => .ok (.bool v.maybeFull, vec v)
  | vec v, .pos => .ok (.num v.pos, vec v)
  | vec v, .seek p =>
    match v.seek p with
    | some v' => .ok (.ok, vec v')
    | none => .ok (.err, vec v)
  | vec v, .raw => .ok (.dump "vec" v.data 0, vec v)
  | vec v, _ => .ok (.unsupported, vec v)
  | smallvec v, .readS => .ok (.word (v.read).1, smallvec (v.read).2)
  | smallvec v, .write w => .ok (.ok, smallvec (v.write w))
  | smallvec v, .extend ws => .ok (.ok, smallvec (v.extendFromIter ws))
  | smallvec v, .remS => .ok (.num v.remaining, smallvec v)
  | smallvec v, .exhS => .ok (.bools v.isExhausted v.maybeExhausted, smallvec v)
  | smallvec v, .full => .ok (.bool v.maybeFull, smallvec v)
  | smallvec v, .pos => .ok (.num v.pos, smallvec v)
  | smallvec v, .seek p =>
    match v.seek p with
    | some v' => .ok (.ok, smallvec v')
    | none => .ok (.err, smallvec v)
  | smallvec v, .raw => .ok (.dump "smallvec" v.data (if v.spilled then 1 else 0), smallvec v)
  | smallvec v, _ => .ok (.unsupported, smallvec v)
  | cur wr s, op =>
    match Cur.step wr s op with
    | .ok (o, s') => .ok (o, cur wr s')
    | .error f => .error f
  | iterF r, .readS | iterF r, .readQ =>
    match (r.read).1 with
    | .ok o => .ok (.word o, iterF (r.read).2)
    | .error _ => .ok (.readErr, iterF (r.read).2)
  | iterF r, .remS | iterF r, .remQ => .ok (.num r.remaining, iterF r)
  | iterF r, .exhS | iterF r, .exhQ => .ok (.bools (r.remaining == 0) true, iterF r)
  | iterF r, .raw => .ok (.dumpItems (if r.inner.done then [] else Fuse.pending r.inner.script), iterF r)
  | iterF r, _ => .ok (.unsupported, iterF r)
  | iterI r, .readS | iterI r, .readQ => .ok (.item (r.read).1, iterI (r.read).2)
  | iterI r, .remS | iterI r, .remQ => .ok (.num r.remaining, iterI r)
  | iterI r, .exhS | iterI r, .exhQ => .ok (.bools (r.remaining == 0) true, iterI r)
  | iterI r, .raw => .ok (.dumpItems (if r.inner.done then [] else Fuse.pending r.inner.script), iterI r)
  | iterI r, _ => .ok (.unsupported, iterI r)
  | iterFL r, .readS | iterFL r, .readQ =>
    match (r.read).1 with
    | .ok o => .ok (.word o, iterFL (r.read).2)
    | .error _ => .ok (.readErr, iterFL (r.read).2)
  | iterFL r, .exhS | iterFL r, .exhQ => .ok (.bool true, iterFL r)
  | iterFL r, .raw => .ok (.dumpItems (if r.inner.done then [] else Fuse.pending r.inner.script), iterFL r)
  | iterFL r, _ => .ok (.unsupported, iterFL r)
  | iterIL r, .readS | iterIL r, .readQ => .ok (.item (r.read).1, iterIL (r.read).2)
  | iterIL r, .exhS | iterIL r, .exhQ => .ok (.bool true, iterIL r)
  | iterIL r, .raw => .ok (.dumpItems (if r.inner.done then [] else Fuse.pending r.inner.script), iterIL r)
  | iterIL r, _ => .ok (.unsupported, iterIL r)
  | cbF cb, .write w =>
    if (cb.write w).1 then .ok (.ok, cbF (cb.write w).2) else .ok (.cbErr, cbF (cb.write w).2)
  | cbF cb, .extend ws => .ok ((cb.extend ws).1, cbF (cb.extend ws).2)
  | cbF cb, .full => .ok (.bool true, cbF cb)
  | cbF cb, .raw => .ok (.dump "cb" cb.log cb.calls, cbF cb)
  | cbF cb, _ => .ok (.unsupported, cbF cb)
  | cbI cb, .write w => .ok (.ok, cbI (cb.write w).2)
  | cbI cb, .extend ws => .ok ((cb.extend ws).1, cbI (cb.extend ws).2)
  | cbI cb, .full => .ok (.bool true, cbI cb)
  | cbI cb, .raw => .ok (.dump "cb" cb.log cb.calls, cbI cb)
  | cbI cb, _ => .ok (.unsupported, cbI cb)

/-- a whole protocol line: outputs up to the first fault, and the final state or the fault -/
def run : Backend → List Op → List Out × Except Fault Backend
  | b, [] => ([], .ok b)
  | b, op :: ops =>
    match step b op with
    | .ok (o, b') => (o :: (run b' ops).1, (run b' ops).2)
    | .error f => ([], .error f)

/-! ### ops that create a temporary second object -/

inductive ViewKind where
  | shared   -- `as_view()`: `Cursor<Word, &[Word]>`, read-only
  | mutable  -- `as_mut_view()`: `Cursor<Word, &mut [Word]>`
  | cloned   -- `cloned()`: `Cursor<Word, Vec<Word>>`
  deriving Repr, DecidableEq

inductive XOp where
  | base (op : Op)
  /-- make the view / copy of the (inner) cursor, run `prog` on it, drop it -/
  | view (k : ViewKind) (prog : List Op)
  /-- `into_inner()`, call the returned callback with `w` directly, wrap it again with `new` -/
  | intoInnerCall (w : Nat)
  deriving Repr

inductive XOut where
  | one (o : Out)
  | many (os : List Out)
  deriving Repr

/-- the parent cursor after the temporary object is gone: only a `&mut` view shares the words,
    and even it has its own copy of the position -/
def viewParent (k : ViewKind) (parent : Cursor) (final : Cur) : Cursor :=
  match k with
  | .mutable => { parent with buf := final.inner.buf }
  | _ => parent

def viewStart (k : ViewKind) (c : Cursor) : Cursor :=
  match k with
  | .shared => c.asView
  | .mutable => c.asMutView
  | .cloned => c.cloned

def viewWritable (k : ViewKind) : Bool :=
  match k with
  | .shared => false
  | _ => true

/-- a view op on a cursor state (`Reverse<Cursor>`: on its `.0`) -/
def Cur.viewStep (k : ViewKind) (s : Cur) (prog : List Op) : M (List Out × Cur) :=
  match Cur.run (viewWritable k) (.fwd (viewStart k s.inner)) prog with
  | (outs, .ok final) =>
    .ok (outs, match s with
      | .fwd c => .fwd (viewParent k c final)
      | .rev r => .rev ⟨viewParent k r.inner final⟩)
  | (_, .error f) => .error f

def xstep : Backend → XOp → M (XOut × Backend)
  | b, .base op =>
    match step b op with
    | .ok (o, b') => .ok (.one o, b')
    | .error f => .error f
  | cur wr s, .view k prog =>
    if k = .mutable ∧ wr = false then .ok (.one .unsupported, cur wr s) else
    match Cur.viewStep k s prog with
    | .ok (outs, s') => .ok (.many outs, cur wr s')
    | .error f => .error f
  | b, .view _ _ => .ok (.one .unsupported, b)
  | cbF cb, .intoInnerCall w =>
    if (cb.intoInner.write w).1 then .ok (.one .ok, cbF (cb.intoInner.write w).2)
    else .ok (.one .cbErr, cbF (cb.intoInner.write w).2)
  | cbI cb, .intoInnerCall w => .ok (.one .ok, cbI (cb.intoInner.write w).2)
  | b, .intoInnerCall _ => .ok (.one .unsupported, b)

end Backend

end CV.Backend
