import CV.Model.Machine
/-!
# Impl model of `accumulate_nonzero_probabilities` (src/stream/model/categorical.rs)

Transcription of the code *after* the repairs D6/D7/D15 (`num_explicit_probabilities`, at
least two symbols) and D8 (`accum - 1 >= total - 1` in wrapping arithmetic).

`B = Probability::BITS`, `P = PRECISION`.  `none` models `Err(())`.

Modelling notes
* the two `usize` counters (`laps_or_zeros`, `num_explicit_probabilities`) are unbounded
  `Nat`s: overflowing them needs `2^64` iterations of the loop;
* the symbol iterator is either `core::iter::repeat(x)` or a finite list;
* an item of `probabilities` is *one* `Nat`: since the D30 repair the code calls
  `probability.borrow()` exactly once per item and uses that value both for the validation and
  for `operation` (before, an item type with an unstable `Borrow` impl could hand `operation`
  another value than the validated one; the oracle exercises such item types).
-/
namespace CV.Cat

/-- `usize::BITS` -/
def U : Nat := 64

/-- the `symbols` iterator handed to `accumulate_nonzero_probabilities` -/
inductive SymIter (Sym : Type) where
  | rep (s : Sym)            -- `core::iter::repeat(s)`
  | list (l : List Sym)      -- any finite iterator
  deriving Repr

/-- `Iterator::next` -/
def SymIter.next {Sym : Type} : SymIter Sym → Option (Sym × SymIter Sym)
  | .rep s => some (s, .rep s)
  | .list [] => none
  | .list (s :: l) => some (s, .list l)

/-- loop state of `accumulate_nonzero_probabilities`; `st` is whatever the closure
    `operation` captured mutably -/
structure Acc (σ Sym : Type) where
  accum : Nat
  laps : Nat
  num : Nat
  syms : SymIter Sym
  st : σ

/-- the `for probability in probabilities` loop; `op st symbol left_cumulative probability` -/
def accLoop {σ Sym : Type} (B : Nat) (op : σ → Sym → Nat → Nat → Option σ) :
    List Nat → Acc σ Sym → Option (Acc σ Sym)
  | [], a => some a
  | p :: ps, a =>
    let old := a.accum
    let accum := wadd B old p
    let laps := a.laps + (if accum ≤ old then 1 else 0)
    let num := a.num + 1
    match a.syms.next with
    | none => none
    | some (s, syms) =>
      match op a.st s old p with
      | none => none
      | some st => accLoop B op ps { accum := accum, laps := laps, num := num, syms := syms, st := st }

/-- `accumulate_nonzero_probabilities::<_, Probability, _, _, _, PRECISION>(symbols,
    probabilities, operation, infer_last_probability)`; returns the rest of the symbol
    iterator and the final closure state -/
def accumulate {σ Sym : Type} (B P : Nat) (op : σ → Sym → Nat → Nat → Option σ)
    (syms : SymIter Sym) (probs : List Nat) (st : σ) (infer : Bool) :
    Option (SymIter Sym × σ) :=
  match accLoop B op probs { accum := 0, laps := 0, num := 0, syms := syms, st := st } with
  | none => none
  | some a =>
    let total := wrappingPow2 B P
    if a.num + (if infer then 1 else 0) < 2 then none
    else if infer then
      if wsub B a.accum 1 ≥ wsub B total 1 ∨ a.laps ≠ 0 then none
      else
        match a.syms.next with
        | none => none
        | some (s, syms) =>
          match op a.st s a.accum (wsub B total a.accum) with
          | none => none
          | some st => some (syms, st)
    else if a.accum ≠ total ∨ a.laps ≠ (if P = B then 1 else 0) then none
    else some (a.syms, a.st)

end CV.Cat
