import CV.Model.Machine
/-!
Executable check that a table handed to `CV.tableModel` is a strictly increasing list from `0`
to `2^P` with at least two symbols (import-free, so the driver can evaluate it on every table it
is given; `CV.Proofs.RangeTableModel` proves that it implies `Model.WellFormed`).
-/
namespace CV

def strictCdfB (P : Nat) (cdf : List Nat) : Bool :=
  decide (3 ≤ cdf.length) && decide (cdf.getD 0 0 = 0) &&
  decide (cdf.getD (cdf.length - 1) 0 = 2^P) &&
  (List.range (cdf.length - 1)).all (fun i => decide (cdf.getD i 0 < cdf.getD (i + 1) 0))

end CV
