import CV.Model.Machine
/-!
# Impl model of `ChainCoder<Word, State, Vec<Word>, Vec<Word>, PRECISION>` (src/stream/chain.rs)

Both backends are `Vec<Word>` used as stacks; they are kept **top-of-stack first** (the head of
the list is the *last* word of the Rust `Vec`).  Writing to a `Vec` never fails, reading from
an empty `Vec` yields `None`.

`Cfg` carries `W = Word::BITS`, `S = State::BITS`, `P = PRECISION` (a const generic of the
coder type: `change_precision` produces a coder that is then used with another `Cfg.P`) and
`B = Probability::BITS` of the entropy model of the current call.  The crate's static
assertions (`PRECISION > 0`, `PRECISION <= Word::BITS`, `State::BITS >= Word::BITS + PRECISION`)
and the trait bound `Probability: Into<Word>` reject other configurations at compile time;
the shift amounts `S - W - P`, `S - P`, `W - P`, `W` below are therefore in range and shifts
are transcribed as the truncating `shlT` / `>>>` (a shift never panics in this file).  Every
*value*-dependent panic / unsafe precondition is an explicit `Fault`:

* `chain.dec.remainder`  – `quantile - left_sided_cumulative` (Probability subtraction)
* `chain.dec.mul`, `chain.dec.add` – `remainders * probability + remainder` (State arithmetic)
* `chain.dec.nonzero1/2`, `chain.enc.nonzero1/2` – the four `NonZero::new_unchecked` sites
* `chain.enc.quantile` – `left_sided_cumulative + remainder` (Probability addition)
* `chain.*.nonzero_probability` – a model handing out probability 0 (impossible for a
  `NonZero` return type; the harness' numeric models `expect` it)
* `chain.into_binary.bits` – `State::BITS - leading_zeros - 1` when `remainders == 0`
* `chain.into_binary.debug_assert` – `debug_assert!(self.heads.remainders == State::one())`
* `chain.drain.fuel` – the `while` loops of the exporters are transcribed with fuel
  (`fuel = ` the value being shifted out, enough whenever `W ≥ 1`); running out of fuel is a
  fault, never a silent default.

The `expect("1 != 0")` in `ChainCoderHeads::new` is applied to the constant `Word::one()` and
has no fault constructor.
-/
namespace CV.Chain

/-- `a << k` on an `n`-bit type with `k < n` statically known: high bits are dropped. -/
def shlT (n a k : Nat) : Nat := (a <<< k) % 2^n

/-- `ChainCoderHeads` -/
structure Heads where
  /-- bit buffer with a leading-1 marker (`Word::NonZero`) -/
  compressed : Nat
  remainders : Nat
  deriving Repr, DecidableEq, Inhabited

structure Coder where
  /-- `compressed` backend, top of stack first -/
  compressed : List Nat
  /-- `remainders` backend, top of stack first -/
  remainders : List Nat
  heads : Heads
  deriving Repr, DecidableEq, Inhabited

inductive DecErr where
  | outOfData                 -- `DecoderFrontendError::OutOfCompressedData`
  | fault (f : Fault)
  deriving Repr, DecidableEq

inductive EncErr where
  | impossible                -- `EncoderFrontendError::ImpossibleSymbol`
  | outOfRemainders           -- `EncoderFrontendError::OutOfRemainders`
  | fault (f : Fault)
  deriving Repr, DecidableEq

inductive ExpErr where
  | notWhole                  -- `Err(CoderError::Frontend(self))` of `into_compressed` / `into_binary`
  | fault (f : Fault)
  deriving Repr, DecidableEq

/-- invariant documented on the fields of `ChainCoderHeads` (for the coder's current `P`) -/
def HeadsInv (c : Cfg) (h : Heads) : Prop :=
  1 ≤ h.compressed ∧ h.compressed < 2^c.W ∧
  2^(c.S - c.W - c.P) ≤ h.remainders ∧ h.remainders < 2^(c.S - c.P)

def Words (W : Nat) (l : List Nat) : Prop := ∀ w ∈ l, w < 2^W

def Inv (c : Cfg) (x : Coder) : Prop :=
  HeadsInv c x.heads ∧ Words c.W x.compressed ∧ Words c.W x.remainders

/-! ## constructors -/

/-- the `while remainders_head < threshold` loop of `ChainCoderHeads::new`;
    `none` = the source ran dry (`CoderError::Frontend(())`) -/
def fillLoop (c : Cfg) (thr : Nat) : Nat → List Nat → Option (Nat × List Nat)
  | head, [] => if head < thr then none else some (head, [])
  | head, w :: rest =>
    if head < thr then fillLoop c thr (shlT c.S head c.W ||| w) rest
    else some (head, w :: rest)

/-- `ChainCoderHeads::new(source, push_one)`; returns the heads and what is left of `source` -/
def headsNew (c : Cfg) (src : List Nat) (pushOne : Bool) : Option (Heads × List Nat) :=
  let thr := shlT c.S 1 (c.S - c.W - c.P)
  let start : Option (Nat × List Nat) :=
    if pushOne then some (1, src) else
    match src with
    | w :: rest => if w ≠ 0 then some (w, rest) else none
    | [] => none
  match start with
  | none => none
  | some (h, src) =>
    match fillLoop c thr h src with
    | none => none
    | some (h, src) => some ({ compressed := 1, remainders := h }, src)

/-- `ChainCoder::from_binary(data)`; `none` = `Err(CoderError::Frontend(data))` -/
def fromBinary (c : Cfg) (data : List Nat) : Option Coder :=
  match headsNew c data true with
  | none => none
  | some (h, rest) => some { compressed := rest, remainders := [], heads := h }

/-- `ChainCoder::from_compressed(compressed)` -/
def fromCompressed (c : Cfg) (data : List Nat) : Option Coder :=
  match headsNew c data false with
  | none => none
  | some (h, rest) => some { compressed := rest, remainders := [], heads := h }

/-- `ChainCoder::from_remainders(remainders)` -/
def fromRemainders (c : Cfg) (rems : List Nat) : Option Coder :=
  match rems with
  | [] => none
  | w :: rest =>
    if w = 0 then none else
    match headsNew c rest false with
    | none => none
    | some (h, rest) =>
      some { compressed := [], remainders := rest, heads := { h with compressed := w } }

/-! ## flush / refill of the remainders head -/

/-- `flush_remainders_head` -/
def flushHead (c : Cfg) (hr : Nat) (rems : List Nat) : Nat × List Nat :=
  (hr >>> c.W, narrow c.W hr :: rems)

/-- `refill_remainders_head`; `none` = `OutOfRemainders` (nothing has been changed) -/
def refillHead (c : Cfg) (hr : Nat) (rems : List Nat) : Option (Nat × List Nat) :=
  match rems with
  | [] => none
  | w :: rest => some (shlT c.S hr c.W ||| w, rest)

/-! ## `decode_symbol` -/

/-- bit-buffer half of `decode_symbol`: `(word, new compressed head, new compressed stack)`.
    Does not look at the remainders side at all. -/
def takeChunk (c : Cfg) (hc : Nat) (comp : List Nat) : Except DecErr (Nat × Nat × List Nat) :=
  if c.P = c.W ∨ hc < shlT c.W 1 c.P then
    match comp with
    | [] => .error .outOfData
    | word :: rest =>
      if c.P ≠ c.W then
        let v := shlT c.W hc (c.W - c.P) ||| (word >>> c.P)
        if v = 0 then .error (.fault (.ub "chain.dec.nonzero1")) else .ok (word, v, rest)
      else .ok (word, hc, rest)
  else
    let v := hc >>> c.P
    if v = 0 then .error (.fault (.ub "chain.dec.nonzero2")) else .ok (hc, v, comp)

/-- `word % (1 << PRECISION)` (or `word` if `PRECISION == Word::BITS`), then `.as_()` -/
def quantileOf (c : Cfg) (word : Nat) : Nat :=
  narrow c.B (if c.P = c.W then word else word % shlT c.W 1 c.P)

/-- remainders half of `decode_symbol` -/
def absorb (c : Cfg) (hr : Nat) (rems : List Nat) (p remainder : Nat) : M (Nat × List Nat) :=
  match cmul "chain.dec.mul" c.S hr p with
  | .error f => .error f
  | .ok t =>
    match cadd "chain.dec.add" c.S t remainder with
    | .error f => .error f
    | .ok r =>
      if r ≥ shlT c.S 1 (c.S - c.P) then .ok (flushHead c r rems) else .ok (r, rems)

def decode {Sym : Type} (c : Cfg) (m : Model Sym) (x : Coder) : Except DecErr (Sym × Coder) :=
  match takeChunk c x.heads.compressed x.compressed with
  | .error e => .error e
  | .ok (word, hc, comp) =>
    let quantile := quantileOf c word
    let (s, cum, p) := m.dec quantile
    if p = 0 then .error (.fault (.panic "chain.dec.nonzero_probability")) else
    match csub "chain.dec.remainder" quantile cum with
    | .error f => .error (.fault f)
    | .ok remainder =>
      match absorb c x.heads.remainders x.remainders p remainder with
      | .error f => .error (.fault f)
      | .ok (hr, rems) =>
        .ok (s, { compressed := comp, remainders := rems, heads := { compressed := hc, remainders := hr } })

/-- what the iterator returned by `decode_symbols(models)` yields when collected until the
    first error: the symbols decoded so far, the coder, and the error if any -/
def decodeSymbols {Sym : Type} (c : Cfg) : List (Model Sym) → Coder → List Sym × Coder × Option DecErr
  | [], x => ([], x, none)
  | m :: ms, x =>
    match decode c m x with
    | .error e => ([], x, some e)
    | .ok (s, y) =>
      let (ss, z, e) := decodeSymbols c ms y
      (s :: ss, z, e)

/-! ## `encode_symbol` -/

/-- remainders half of `encode_symbol`: `(remainders % p, remainders / p, stack)` after the
    conditional refill -/
def release (c : Cfg) (hr : Nat) (rems : List Nat) (p : Nat) : Except EncErr (Nat × Nat × List Nat) :=
  let refilled : Option (Nat × List Nat) :=
    if hr < shlT c.S p (c.S - c.W - c.P) then refillHead c hr rems else some (hr, rems)
  match refilled with
  | none => .error .outOfRemainders
  | some (hr, rems) => .ok (hr % p, hr / p, rems)

/-- bit-buffer half of `encode_symbol` -/
def putChunk (c : Cfg) (hc : Nat) (comp : List Nat) (quantile : Nat) : M (Nat × List Nat) :=
  if c.P ≠ c.W ∧ hc < shlT c.W 1 (c.W - c.P) then
    let v := shlT c.W hc c.P ||| quantile
    if v = 0 then .error (.ub "chain.enc.nonzero1") else .ok (v, comp)
  else if c.P = c.W then .ok (hc, quantile :: comp)
  else
    let word := shlT c.W hc c.P ||| quantile
    let v := hc >>> (c.W - c.P)
    if v = 0 then .error (.ub "chain.enc.nonzero2") else .ok (v, word :: comp)

/-- `encode_symbol` after the model lookup returned `(cum, p)` -/
def encodeCP (c : Cfg) (x : Coder) (cum p : Nat) : Except EncErr Coder :=
  if p = 0 then .error (.fault (.panic "chain.enc.nonzero_probability")) else
  match release c x.heads.remainders x.remainders p with
  | .error e => .error e
  | .ok (rmd, hr, rems) =>
    let remainder := narrow c.B (narrow c.W rmd)
    match cadd "chain.enc.quantile" c.B cum remainder with
    | .error f => .error (.fault f)
    | .ok quantile =>
      match putChunk c x.heads.compressed x.compressed quantile with
      | .error f => .error (.fault f)
      | .ok (hc, comp) =>
        .ok { compressed := comp, remainders := rems, heads := { compressed := hc, remainders := hr } }

def encode {Sym : Type} (c : Cfg) (m : Model Sym) (s : Sym) (x : Coder) : Except EncErr Coder :=
  match m.enc s with
  | none => .error .impossible
  | some (cum, p) => encodeCP c x cum p

/-- `encode_symbols(iter)`: stops at the first error, keeping what was encoded before -/
def encodeSymbols {Sym : Type} (c : Cfg) : List (Sym × Model Sym) → Coder → Coder × Option EncErr
  | [], x => (x, none)
  | (s, m) :: rest, x =>
    match encode c m s x with
    | .error e => (x, some e)
    | .ok y => encodeSymbols c rest y

/-- `encode_symbols_reverse(iter)` -/
def encodeSymbolsReverse {Sym : Type} (c : Cfg) (l : List (Sym × Model Sym)) (x : Coder) :
    Coder × Option EncErr :=
  encodeSymbols c l.reverse x

/-! ## precision changes (`c.P` is the precision *before* the call) -/

/-- `increase_precision_unchecked::<NEW_PRECISION>` (writing to a `Vec` cannot fail) -/
def increasePrecision (c : Cfg) (newP : Nat) (x : Coder) : Coder :=
  if x.heads.remainders ≥ shlT c.S 1 (c.S - newP) then
    let (hr, rems) := flushHead c x.heads.remainders x.remainders
    { x with remainders := rems, heads := { x.heads with remainders := hr } }
  else x

/-- `decrease_precision_unchecked::<NEW_PRECISION>` -/
def decreasePrecision (c : Cfg) (newP : Nat) (x : Coder) : Except EncErr Coder :=
  if x.heads.remainders < shlT c.S 1 (c.S - newP - c.W) then
    match refillHead c x.heads.remainders x.remainders with
    | none => .error .outOfRemainders
    | some (hr, rems) => .ok { x with remainders := rems, heads := { x.heads with remainders := hr } }
  else .ok x

/-- `change_precision::<NEW_PRECISION>` -/
def changePrecision (c : Cfg) (newP : Nat) (x : Coder) : Except EncErr Coder :=
  if newP > c.P then .ok (increasePrecision c newP x) else decreasePrecision c newP x

/-! ## exporters -/

/-- `while r > lim { stack.write(r as Word); r = r >> W }` with fuel; returns the final `r` -/
def drainGo (W lim : Nat) : Nat → Nat → List Nat → M (Nat × List Nat)
  | 0, r, st => if r ≤ lim then .ok (r, st) else .error (.panic "chain.drain.fuel")
  | fuel + 1, r, st =>
    if r ≤ lim then .ok (r, st) else drainGo W lim fuel (r >>> W) (narrow W r :: st)

def drain (W lim r : Nat) (st : List Nat) : M (Nat × List Nat) := drainGo W lim r r st

def isWhole (x : Coder) : Bool := x.heads.compressed == 1

/-- `into_remainders()`: `(prefix, suffix) = (compressed, remainders)` -/
def intoRemainders (c : Cfg) (x : Coder) : M (List Nat × List Nat) :=
  match drain c.W 0 x.heads.remainders x.remainders with
  | .error f => .error f
  | .ok (_, rems) => .ok (x.compressed, x.heads.compressed :: rems)

/-- `into_compressed()`: `(prefix, suffix) = (remainders, compressed)` -/
def intoCompressed (c : Cfg) (x : Coder) : Except ExpErr (List Nat × List Nat) :=
  if x.heads.compressed ≠ 1 then .error .notWhole else
  match drain c.W 0 x.heads.remainders x.compressed with
  | .error f => .error (.fault f)
  | .ok (_, comp) => .ok (x.remainders, comp)

/-- `into_binary()` -/
def intoBinary (c : Cfg) (x : Coder) : Except ExpErr (List Nat × List Nat) :=
  if x.heads.compressed ≠ 1 then .error .notWhole else
  match csub "chain.into_binary.bits" (bitlen x.heads.remainders) 1 with
  | .error f => .error (.fault f)
  | .ok nb =>
    if nb % c.W ≠ 0 then .error .notWhole else
    match drain c.W 1 x.heads.remainders x.compressed with
    | .error f => .error (.fault f)
    | .ok (r, comp) =>
      if r ≠ 1 then .error (.fault (.panic "chain.into_binary.debug_assert"))
      else .ok (x.remainders, comp)

/-! ## `Pos` / `Seek` / exhaustion queries (`Vec` backends) -/

def pos (x : Coder) : Nat × Nat × Heads := (x.compressed.length, x.remainders.length, x.heads)

/-- `Vec::seek`: truncate to `pos` words, fails if `pos > len` -/
def seekStack (st : List Nat) (p : Nat) : Option (List Nat) :=
  if p ≤ st.length then some (st.drop (st.length - p)) else none

/-- `Seek::seek`; the flag is `Ok(())`.  As in the code, a failing `remainders.seek` leaves
    the already truncated `compressed` behind. -/
def seek (x : Coder) (p : Nat × Nat × Heads) : Coder × Bool :=
  match seekStack x.compressed p.1 with
  | none => (x, false)
  | some comp =>
    match seekStack x.remainders p.2.1 with
    | none => ({ x with compressed := comp }, false)
    | some rems => ({ compressed := comp, remainders := rems, heads := p.2.2 }, true)

/-- `Decode::maybe_exhausted` -/
def maybeExhausted (x : Coder) : Bool := x.compressed.isEmpty
/-- `Encode::maybe_full` -/
def maybeFull (x : Coder) : Bool := x.remainders.isEmpty

/-! ## schedules: the subjects of the history-level theorems, executed by the driver

A *schedule* is a list of steps, each either "decode one symbol with model `m` (whose
`Probability` type has `B` bits)" or "`change_precision::<q>()`"; a *log* records what a
schedule did and has to be undone (re-encode the symbol / revert the precision). -/

/-- the coder type after `change_precision::<q>()` -/
def withP (c : Cfg) (q : Nat) : Cfg := { c with P := q }

/-- the `Cfg` seen by an entropy model whose `Probability` type has `B` bits -/
def withB (c : Cfg) (B : Nat) : Cfg := { c with B := B }

inductive Step (Sym : Type) where
  /-- `decode_symbol(m)` with `m::Probability::BITS = B` -/
  | dec (B : Nat) (m : Model Sym)
  /-- `change_precision::<q>()` -/
  | prec (q : Nat)

/-- what a successful step leaves to be undone -/
inductive Done (Sym : Type) where
  | dec (B : Nat) (m : Model Sym) (s : Sym)
  | prec (old : Nat)

/-- run a schedule; `none` as soon as a step reports an error.  Returns the log (oldest
    first), the final coder type and the coder. -/
def runDec {Sym : Type} (c : Cfg) : List (Step Sym) → Coder → Option (List (Done Sym) × Cfg × Coder)
  | [], x => some ([], c, x)
  | .dec B m :: rest, x =>
    match decode (withB c B) m x with
    | .ok (s, y) =>
      match runDec c rest y with
      | some (l, c', z) => some (.dec B m s :: l, c', z)
      | none => none
    | .error _ => none
  | .prec q :: rest, x =>
    match changePrecision c q x with
    | .ok y =>
      match runDec (withP c q) rest y with
      | some (l, c', z) => some (.prec c.P :: l, c', z)
      | none => none
    | .error _ => none

/-- undo a log, first entry first (so pass the reversed log of `runDec`) -/
def runUndo {Sym : Type} (c : Cfg) : List (Done Sym) → Coder → Option (Cfg × Coder)
  | [], y => some (c, y)
  | .dec B m s :: rest, y =>
    match encode (withB c B) m s y with
    | .ok z => runUndo c rest z
    | .error _ => none
  | .prec old :: rest, y =>
    match changePrecision c old y with
    | .ok z => runUndo (withP c old) rest z
    | .error _ => none

/-- `runDec`, also reporting how far it got and which error stopped it: the log of the steps
    done, the coder type and coder reached, and the error of the first failing step.  This is
    what the driver executes (`CV.Chain.runDec_eq_runDecE` ties it to `runDec`). -/
def runDecE {Sym : Type} (c : Cfg) :
    List (Step Sym) → Coder → List (Done Sym) × Cfg × Coder × Option (DecErr ⊕ EncErr)
  | [], x => ([], c, x, none)
  | .dec B m :: rest, x =>
    match decode (withB c B) m x with
    | .ok (s, y) =>
      let r := runDecE c rest y
      (.dec B m s :: r.1, r.2.1, r.2.2.1, r.2.2.2)
    | .error e => ([], c, x, some (.inl e))
  | .prec q :: rest, x =>
    match changePrecision c q x with
    | .ok y =>
      let r := runDecE (withP c q) rest y
      (.prec c.P :: r.1, r.2.1, r.2.2.1, r.2.2.2)
    | .error e => ([], c, x, some (.inr e))

/-- `runUndo`, also reporting the number of entries undone and the error that stopped it
    (`CV.Chain.runUndo_eq_runUndoE`). -/
def runUndoE {Sym : Type} (c : Cfg) : List (Done Sym) → Coder → Nat × Cfg × Coder × Option EncErr
  | [], y => (0, c, y, none)
  | .dec B m s :: rest, y =>
    match encode (withB c B) m s y with
    | .ok z =>
      let r := runUndoE c rest z
      (r.1 + 1, r.2.1, r.2.2.1, r.2.2.2)
    | .error e => (0, c, y, some e)
  | .prec old :: rest, y =>
    match changePrecision c old y with
    | .ok z =>
      let r := runUndoE (withP c old) rest z
      (r.1 + 1, r.2.1, r.2.2.1, r.2.2.2)
    | .error e => (0, c, y, some e)

end CV.Chain
