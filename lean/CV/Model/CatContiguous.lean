import CV.Model.CatValidate
/-!
# Impl model of the cdf-based categorical models

* `ContiguousCategoricalEntropyModel` (categorical/contiguous.rs)
* `NonContiguousCategoricalDecoderModel`, `NonContiguousCategoricalEncoderModel`
  (categorical/non_contiguous.rs)
* `iter_extended_cdf` (categorical.rs), `slice::binary_search_by` (core, transcribed)

A `cdf` field is the Rust `Vec` in the same order; its last entry is `wrapping_pow2(P)`
(which is `0` if `P = B`).  Views (`as_view`) have the same fields as their owners and are
not distinguished.  The `HashMap` of the encoder model is an association list with unique
keys.  Unsafe preconditions appear as `Fault.ub`.
-/
namespace CV.Cat

/-! ## `iter_extended_cdf` -/

def iterExtGo {Sym : Type} (B : Nat) (left : Nat) (sym : Sym) :
    List (Nat × Sym) → M (List (Sym × Nat × Nat))
  | [] => .ok []
  | (right, next) :: rest =>
    let p := wsub B right left
    if p = 0 then .error (.panic "iter_extended_cdf.leaky")   -- `.expect("quantization is leaky")`
    else
      match iterExtGo B right next rest with
      | .error f => .error f
      | .ok l => .ok ((sym, left, p) :: l)

/-- `iter_extended_cdf(cdf).collect()`; items of `cdf` are `(cumulative, symbol)` -/
def iterExtendedCdf {Sym : Type} (B : Nat) : List (Nat × Sym) → M (List (Sym × Nat × Nat))
  | [] => .error (.panic "iter_extended_cdf.empty")            -- `.expect("cdf is not empty")`
  | (left, sym) :: rest => iterExtGo B left sym rest

/-! ## `slice::binary_search_by` with the comparator `|x| if x <= q { Less } else { Greater }` -/

/-- the `while size > 1` loop; returns `base` -/
def bsearchLoop (a : List Nat) (q : Nat) (size base : Nat) : M Nat :=
  if _h : size > 1 then
    let half := size / 2
    let mid := base + half
    match a[mid]? with
    | none => .error (.ub "core.binary_search_by.get_unchecked")
    | some x =>
      let base := if x ≤ q then mid else base      -- `cmp == Greater` keeps `base`
      bsearchLoop a q (size - half) base
  else .ok base
termination_by size
decreasing_by omega

/-- the `Err(index)` of `a.binary_search_by(..)`; the comparator never answers `Equal`, so
    `Ok(_)` cannot be produced -/
def bsearch (a : List Nat) (q : Nat) : M Nat :=
  if a.length = 0 then .ok 0 else
  match bsearchLoop a q a.length 0 with
  | .error f => .error f
  | .ok base =>
    match a[base]? with
    | none => .error (.ub "core.binary_search_by.get_unchecked")
    | some x => .ok (base + (if x ≤ q then 1 else 0))

/-- the part of `quantile_function` shared by the contiguous and the non-contiguous decoder:
    given the cumulatives `cs` (`cdf` without the symbols) returns
    `(index, left_cumulative, probability)` -/
def cdfQuantile (B : Nat) (cs : List Nat) (q : Nat) : M (Nat × Nat × Nat) :=
  -- `cdf.get_unchecked(..cdf.len() - 1)`
  match csub "cdf.quantile_function.len_minus_one" cs.length 1 with
  | .error f => .error f
  | .ok n =>
    match bsearch (cs.take n) q with
    | .error f => .error f
    | .ok next =>
      -- `let symbol = next_symbol - 1`
      match csub "cdf.quantile_function.next_minus_one" next 1 with
      | .error f => .error f
      | .ok idx =>
        match cs[next]?, cs[idx]? with
        | some right, some left =>
          let p := wsub B right left
          if p = 0 then .error (.ub "cdf.quantile_function.into_nonzero_unchecked")
          else .ok (idx, left, p)
        | _, _ => .error (.ub "cdf.quantile_function.get_unchecked")

/-! ## `ContiguousCategoricalEntropyModel` -/

structure Contiguous where
  cdf : List Nat
  deriving Repr, DecidableEq

namespace Contiguous

/-- `from_nonzero_fixed_point_probabilities(probabilities, infer_last_probability)` -/
def fromNonzeroFixedPoint (B P : Nat) (probs : List Nat) (infer : Bool) : Option Contiguous :=
  match accumulate (Sym := Unit) B P (fun cdf _ left _ => some (cdf ++ [left])) (.rep ())
      probs ([] : List Nat) infer with
  | none => none
  | some (_, cdf) => some { cdf := cdf ++ [wrappingPow2 B P] }

/-- `support_size()` -/
def supportSize (m : Contiguous) : M Nat := csub "contiguous.support_size" m.cdf.length 1

/-- `left_cumulative_and_probability(symbol)`; `symbol : usize` is compared as is -/
def enc (B : Nat) (m : Contiguous) (s : Nat) : M (Option (Nat × Nat)) :=
  match supportSize m with
  | .error f => .error f
  | .ok n =>
    if s ≥ n then .ok none else
    match m.cdf[s]?, m.cdf[s + 1]? with
    | some left, some right =>
      let p := wsub B right left
      if p = 0 then .error (.ub "contiguous.enc.into_nonzero_unchecked")
      else .ok (some (left, p))
    | _, _ => .error (.ub "contiguous.enc.get_unchecked")

/-- `quantile_function(quantile)` -/
def dec (B : Nat) (m : Contiguous) (q : Nat) : M (Nat × Nat × Nat) := cdfQuantile B m.cdf q

/-- `symbol_table().collect()` -/
def table (B : Nat) (m : Contiguous) : M (List (Nat × Nat × Nat)) :=
  iterExtendedCdf B (m.cdf.zipIdx.map (fun (c, i) => (c, i)))

end Contiguous

/-! ## `NonContiguousCategoricalDecoderModel` -/

structure NcDec (Sym : Type) where
  cdf : List (Nat × Sym)
  deriving Repr, DecidableEq

namespace NcDec
variable {Sym : Type}

/-- `from_symbols_and_nonzero_fixed_point_probabilities(symbols, probabilities, infer)` -/
def fromSymbolsAndNonzeroFixedPoint (B P : Nat) (syms : List Sym) (probs : List Nat)
    (infer : Bool) : M (Option (NcDec Sym)) :=
  match accumulate B P (fun (cdf : List (Nat × Sym)) s left _ => some (cdf ++ [(left, s)]))
      (.list syms) probs [] infer with
  | none => .ok none
  | some (rest, cdf) =>
    match cdf.getLast? with
    | none => .error (.panic "ncdec.from_fixed.symbols_is_not_empty")
    | some (_, last) =>
      let cdf := cdf ++ [(wrappingPow2 B P, last)]
      match rest.next with
      | some _ => .ok none
      | none => .ok (some { cdf := cdf })

/-- the integer part of `from_symbols_and_floating_point_probabilities_fast` after the D13
    repair: `cdf` is what `fast_quantized_cdf` yields (one left cumulative per weight) -/
def fromSymbolsAndCdf (B P : Nat) (syms : List Sym) (cdf : List Nat) : M (Option (NcDec Sym)) :=
  let ext := cdf.zip syms
  if ext.length ≠ cdf.length ∨ syms.length > ext.length then .ok none else
  match ext.getLast? with
  | none => .error (.panic "ncdec.from_fast.len_ge_2")
  | some (_, last) => .ok (some { cdf := ext ++ [(wrappingPow2 B P, last)] })

/-- the validating loop of `from_iterable_entropy_model` (after the D32 repair):
    `total1 = wrapping_pow2(P) - 1` (wrapping); state `(expected_left_sided_cumulative, complete)` -/
def fromTableCheck (B total1 : Nat) : List (Sym × Nat × Nat) → Nat → Bool → List (Nat × Sym) →
    M (Bool × List (Nat × Sym))
  | [], _, complete, cdf => .ok (complete, cdf)
  | (s, left, p) :: rest, expected, complete, cdf =>
    -- `assert!(!complete && left_sided_cumulative == expected_left_sided_cumulative)`
    if complete = true ∨ left ≠ expected then
      .error (.panic "ncdec.from_iterable.invalid_symbol_table.start")
    else
      -- `probability.get() - Probability::one()` (`probability` is a `NonZero`)
      match csub "ncdec.from_iterable.probability_minus_one" p 1 with
      | .error f => .error f
      | .ok pm1 =>
        let rem := wsub B total1 left
        -- `assert!(probability_minus_one <= remaining_minus_one)`
        if ¬ (pm1 ≤ rem) then .error (.panic "ncdec.from_iterable.invalid_symbol_table.end")
        else fromTableCheck B total1 rest (wadd B left p) (pm1 == rem) (cdf ++ [(left, s)])

/-- `from_iterable_entropy_model(model)` given `model.symbol_table()`: a table that does not
    start at zero, is not contiguous or does not end at `1 << PRECISION` is a clean panic -/
def fromTable (B P : Nat) (tbl : List (Sym × Nat × Nat)) : M (NcDec Sym) :=
  match fromTableCheck B (wsub B (wrappingPow2 B P) 1) tbl 0 false [] with
  | .error f => .error f
  | .ok (complete, cdf) =>
    -- `assert!(complete)`
    if complete = false then .error (.panic "ncdec.from_iterable.invalid_symbol_table.incomplete")
    else
      match cdf.getLast? with
      | none => .error (.panic "ncdec.from_iterable.symbol_table_is_not_empty")
      | some (_, last) => .ok { cdf := cdf ++ [(wrappingPow2 B P, last)] }

def supportSize (m : NcDec Sym) : M Nat := csub "ncdec.support_size" m.cdf.length 1

/-- `quantile_function(quantile)` -/
def dec (B : Nat) (m : NcDec Sym) (q : Nat) : M (Sym × Nat × Nat) :=
  match cdfQuantile B (m.cdf.map (·.1)) q with
  | .error f => .error f
  | .ok (idx, left, p) =>
    match m.cdf[idx]? with
    | some (_, s) => .ok (s, left, p)
    | none => .error (.ub "ncdec.quantile_function.get_unchecked")

/-- `symbol_table().collect()` -/
def table (B : Nat) (m : NcDec Sym) : M (List (Sym × Nat × Nat)) := iterExtendedCdf B m.cdf

end NcDec

/-! ## `NonContiguousCategoricalEncoderModel` (the `HashMap` as an association list) -/

structure NcEnc (Sym : Type) where
  tbl : List (Sym × Nat × Nat)
  deriving Repr

namespace NcEnc
variable {Sym : Type} [DecidableEq Sym]

/-- `HashMap::get` -/
def get (t : List (Sym × Nat × Nat)) (s : Sym) : Option (Nat × Nat) :=
  match t with
  | [] => none
  | (k, v) :: rest => if k = s then some v else get rest s

/-- `HashMap::insert` (overwrites) -/
def insert (t : List (Sym × Nat × Nat)) (s : Sym) (v : Nat × Nat) : List (Sym × Nat × Nat) :=
  (t.filter (fun e => e.1 ≠ s)) ++ [(s, v)]

/-- the closure passed to `accumulate_nonzero_probabilities`:
    `Occupied => Err`, zero probability `=> Err` -/
def insertNew (t : List (Sym × Nat × Nat)) (s : Sym) (left p : Nat) :
    Option (List (Sym × Nat × Nat)) :=
  match get t s with
  | some _ => none
  | none => if p = 0 then none else some (t ++ [(s, (left, p))])

/-- `from_symbols_and_nonzero_fixed_point_probabilities(symbols, probabilities, infer)` -/
def fromSymbolsAndNonzeroFixedPoint (B P : Nat) (syms : List Sym) (probs : List Nat)
    (infer : Bool) : Option (NcEnc Sym) :=
  match accumulate B P insertNew (.list syms) probs [] infer with
  | none => none
  | some (rest, tbl) =>
    match rest.next with
    | some _ => none
    | none => some { tbl := tbl }

/-- loop of `from_symbols_and_cdf` over the right cumulatives -/
def fromCdfLoop (left : Nat) : List Nat → List Sym → List (Sym × Nat × Nat) →
    M (Option (Nat × List Sym × List (Sym × Nat × Nat)))
  | [], syms, t => .ok (some (left, syms, t))
  | right :: cdf, syms, t =>
    match syms with
    | [] => .ok none
    | s :: syms =>
      match get t s with
      | some _ => .ok none
      | none =>
        -- plain `right_cumulative - left_cumulative`
        match csub "ncenc.from_symbols_and_cdf.sub" right left with
        | .error f => .error f
        | .ok p =>
          if p = 0 then .ok none
          else fromCdfLoop right cdf syms (t ++ [(s, (left, p))])

/-- `from_symbols_and_cdf(symbols, cdf)` (used by `…_fast`) -/
def fromSymbolsAndCdf (B P : Nat) (syms : List Sym) (cdf : List Nat) : M (Option (NcEnc Sym)) :=
  match cdf with
  | [] => .ok none
  | left :: cdf =>
    match fromCdfLoop left cdf syms [] with
    | .error f => .error f
    | .ok none => .ok none
    | .ok (some (left, syms, t)) =>
      match syms with
      | [] => .ok none
      | s :: rest =>
        match insertNew t s left (wsub B (wrappingPow2 B P) left) with
        | none => .ok none
        | some t => if rest.isEmpty then .ok (some { tbl := t }) else .ok none

/-- `from_iterable_entropy_model(model)`: `symbol_table().collect::<HashMap>()` -/
def fromTable (tbl : List (Sym × Nat × Nat)) : NcEnc Sym :=
  { tbl := tbl.foldl (fun t (s, left, p) => insert t s (left, p)) [] }

def supportSize (m : NcEnc Sym) : Nat := m.tbl.length

/-- `left_cumulative_and_probability(symbol)` -/
def enc (m : NcEnc Sym) (s : Sym) : Option (Nat × Nat) := get m.tbl s

end NcEnc

end CV.Cat
