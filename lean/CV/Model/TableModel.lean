import CV.Model.Machine
/-!
A concrete entropy model given by an explicit list of cumulative boundaries
`cdf = [c₀ = 0, c₁, …, cₙ = 2^P]` (strictly increasing).  Symbol `i` owns `[cᵢ, cᵢ₊₁)`.
This is the model the correspondence harness hands to the real coders (implemented there as
a user-defined `EncoderModel`/`DecoderModel`), so that coder checks do not depend on the
crate's own model zoo.
-/
namespace CV

/-- index of the interval containing `q`: number of interior boundaries `≤ q` -/
def tableFind (cdf : List Nat) (q : Nat) : Nat :=
  match cdf with
  | [] => 0
  | _ :: rest => (rest.takeWhile (fun c => c ≤ q)).length

def tableModel (cdf : List Nat) : Model Nat where
  enc s :=
    if s + 1 < cdf.length then
      let c := cdf.getD s 0
      let d := cdf.getD (s + 1) 0
      if c < d then some (c, d - c) else none
    else none
  dec q :=
    let i := tableFind cdf q
    let c := cdf.getD i 0
    let d := cdf.getD (i + 1) 0
    (i, c, d - c)

end CV
