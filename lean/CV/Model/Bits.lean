import CV.Model.Machine
/-!
# Impl model of the bit-level coders of `src/symbol/mod.rs`

`SymbolCoder<Word, Stack, Vec<Word>>` (= `StackCoder`), `SymbolCoder<Word, Queue, Vec<Word>>`
(= `QueueEncoder`) and `QueueDecoder<Word, Cursor<Word, Vec<Word>>>` at word width `W`.

* `Coder.backend` is kept **top first**: the head of the list is the *last* element of the Rust
  `Vec` (`WriteWords::write` = `Vec::push` = cons; `ReadWords<Stack>::read` = `Vec::pop` = uncons).
  Functions that return exported words return them top first as well; the driver reverses.
* `QDecoder.rest` is in read order (head = next word the `Cursor` hands out).
* `Vec` never refuses a write and never fails a read, so `WriteError = ReadError = Infallible`
  and those error paths do not exist in the model.
* Every `BitArray` type has `BITS ≥ 8`.  The only shifts in this file whose amount is not the
  constant `1` go through `Machine.shl` (fault when the amount is `≥ W`); the constant shifts
  `<< 1`, `>> 1` cannot panic for any width `≥ 2` and are written as pure expressions.  All
  theorems assume `ValidW W` (`2 ≤ W`).
* Loops whose trip count is not syntactically bounded (`while`, `loop`, iterator draining) are
  transcribed with a fuel argument; running out of fuel is the distinct fault
  `Fault.ub "model:fuel"`, which the proofs show unreachable (never a silent default).
-/
namespace CV.Bits

/-- the model-only fault "fuel exhausted" (proved unreachable) -/
def fuelFault : Fault := .ub "model:fuel"

/-- widths allowed for `Word` -/
def ValidW (W : Nat) : Prop := 2 ≤ W

instance (W : Nat) : Decidable (ValidW W) := by unfold ValidW; exact inferInstance

/-- `x.trailing_zeros()` on a `W`-bit type (`= W` for `x = 0`) -/
def tz : Nat → Nat → Nat
  | 0, _ => 0
  | w + 1, x => if x % 2 = 1 then 0 else tz w (x / 2) + 1

/-- `x.leading_zeros()` on a `W`-bit type -/
def lz (W x : Nat) : Nat := W - bitlen x

/-- `SymbolCoder<Word, S, Vec<Word>>`: fields `backend`, `current_word`, `mask_last_written` -/
structure Coder where
  backend : List Nat
  cw : Nat
  mask : Nat
  deriving Repr, DecidableEq, Inhabited

/-- `SymbolCoder::new()` / `Default::default()` / `with_bit_capacity(_)` -/
def empty : Coder := { backend := [], cw := 0, mask := 0 }

/-- `WriteBitStream::write_bit` (the `Stack` and the `Queue` impl have the same text) -/
def writeBit (W : Nat) (c : Coder) (bit : Bool) : Coder :=
  let writeMask := (c.mask <<< 1) % 2^W
  if writeMask ≠ 0 then
    let newBit := if bit then writeMask else 0
    { c with cw := c.cw ||| newBit, mask := writeMask }
  else
    let backend := if c.mask ≠ 0 then c.cw :: c.backend else c.backend
    { backend := backend, cw := if bit then 1 else 0, mask := 1 }

/-- a sequence of `emit(bit)` callbacks that write into the coder -/
def writeBits (W : Nat) (c : Coder) : List Bool → Coder
  | [] => c
  | b :: bs => writeBits W (writeBit W c b) bs

/-- the tail of `read_bit` after a word is available -/
def readStep (c : Coder) : Option Bool × Coder :=
  let bit := c.cw &&& c.mask
  (some (bit ≠ 0), { c with cw := c.cw ^^^ bit, mask := c.mask >>> 1 })

/-- `ReadBitStream<Stack>::read_bit`; `none` = end of stream (the coder is left untouched) -/
def readBit (W : Nat) (c : Coder) : Option Bool × Coder :=
  if c.mask = 0 then
    match c.backend with
    | [] => (none, c)
    | w :: rest => readStep { backend := rest, cw := w, mask := (1 <<< (W - 1)) % 2^W }
  else readStep c

/-- `SymbolCoder::len` (`usize` is 64 bit; `expect` panics on overflow) -/
def len (W : Nat) (c : Coder) : M Nat :=
  let a := c.backend.length * W
  if ¬ a < 2^64 then .error (.panic "bits.len.mul") else
  let b := if c.mask = 0 then 0 else tz W c.mask + 1
  if ¬ a + b < 2^64 then .error (.panic "bits.len.add") else .ok (a + b)

/-- `SymbolCoder::is_empty` -/
def isEmpty (c : Coder) : Bool := c.mask == 0 && c.backend.isEmpty

/-! ## Stack -/
namespace Stack

/-- `StackCoder::into_compressed`, result top first -/
def intoCompressed (W : Nat) (c : Coder) : List Nat :=
  let c := writeBit W c true
  if c.mask ≠ 0 then c.cw :: c.backend else c.backend

inductive ImportErr where
  | endsInZero
  | fault (f : Fault)
  deriving Repr, DecidableEq

/-- `StackCoder::from_compressed` after the D5 repair (terminator = highest set bit of the last
    word); argument top first.  `endsInZero` = `Err(CoderError::Frontend(compressed))`. -/
def fromCompressed (W : Nat) (ws : List Nat) : Except ImportErr Coder :=
  match ws with
  | [] => .ok { backend := [], cw := 0, mask := 0 }
  | last :: rest =>
    if last = 0 then .error .endsInZero else
    match csub "bits.from.sub1" W 1 with
    | .error f => .error (.fault f)
    | .ok a =>
      match csub "bits.from.sub2" a (lz W last) with
      | .error f => .error (.fault f)
      | .ok k =>
        match shl "bits.from.shl" W 1 k with
        | .error f => .error (.fault f)
        | .ok maskEnd => .ok { backend := rest, cw := last ^^^ maskEnd, mask := maskEnd >>> 1 }

/-- the code **before** the repair (`trailing_zeros`); kept only for the counterexample -/
def fromCompressedD5 (W : Nat) (ws : List Nat) : Except ImportErr Coder :=
  match ws with
  | [] => .ok { backend := [], cw := 0, mask := 0 }
  | last :: rest =>
    if last = 0 then .error .endsInZero else
    match shl "bits.from.shl" W 1 (tz W last) with
    | .error f => .error (.fault f)
    | .ok maskEnd => .ok { backend := rest, cw := last ^^^ maskEnd, mask := maskEnd >>> 1 }

/-- `StackCoderGuard::new` -/
def guardNew (W : Nat) (c : Coder) : Coder :=
  let c := writeBit W c true
  if c.mask ≠ 0 then { c with backend := c.cw :: c.backend } else c

/-- `Deref for StackCoderGuard` (top first) -/
def guardView (c : Coder) : List Nat := c.backend

/-- `Drop for StackCoderGuard`; `Vec::pop`'s result is ignored by the code -/
def guardDrop (W : Nat) (c : Coder) : M Coder :=
  let c := if c.mask ≠ 0 then { c with backend := c.backend.drop 1 } else c
  match readBit W c with
  | (none, _) => .error (.panic "The constructor wrote a bit.")
  | (some _, c') => .ok c'

/-- `get_compressed()`, look at the words, drop the guard -/
def getCompressed (W : Nat) (c : Coder) : M (List Nat × Coder) :=
  let g := guardNew W c
  match guardDrop W g with
  | .error f => .error f
  | .ok c' => .ok (guardView g, c')

/-- the `Iterator` impl (`next = read_bit().transpose()`), run to the end -/
def drain (W : Nat) : Nat → Coder → Option (List Bool × Coder)
  | 0, _ => none
  | f + 1, c =>
    match readBit W c with
    | (none, c') => some ([], c')
    | (some b, c') =>
      match drain W f c' with
      | none => none
      | some (bs, c'') => some (b :: bs, c'')

/-- an upper bound on the number of `read_bit` calls that can succeed, plus one -/
def fuel (W : Nat) (c : Coder) : Nat := c.backend.length * W + W + 1

/-- `iter()` / `as_decoder()` / `into_iterator()` collected (bits come out top first) -/
def iter (W : Nat) (c : Coder) : M (List Bool) :=
  match drain W (fuel W c) c with
  | none => .error fuelFault
  | some (bs, _) => .ok bs

end Stack

/-! ## Queue -/
namespace Queue

/-- `QueueEncoder::from_compressed`; argument top first -/
def fromCompressed (ws : List Nat) : Coder := { backend := ws, cw := 0, mask := 0 }

/-- `QueueEncoder::into_compressed`, result top first -/
def intoCompressed (c : Coder) : List Nat :=
  if c.mask ≠ 0 then c.cw :: c.backend else c.backend

/-- `QueueEncoderGuard::new` -/
def guardNew (c : Coder) : Coder :=
  if c.mask ≠ 0 then { c with backend := c.cw :: c.backend } else c

def guardView (c : Coder) : List Nat := c.backend

/-- `Drop for QueueEncoderGuard` -/
def guardDrop (c : Coder) : Coder :=
  if c.mask ≠ 0 then { c with backend := c.backend.drop 1 } else c

def getCompressed (c : Coder) : List Nat × Coder :=
  let g := guardNew c
  (guardView g, guardDrop g)

end Queue

/-- `QueueDecoder<Word, Cursor<..>>`: `rest` = words not yet read (next first) -/
structure QDecoder where
  rest : List Nat
  cw : Nat
  mask : Nat
  deriving Repr, DecidableEq, Inhabited

namespace QDecoder

/-- `QueueDecoder::from_compressed`; argument in read order (= Rust `Vec` order) -/
def fromCompressed (ws : List Nat) : QDecoder := { rest := ws, cw := 0, mask := 0 }

/-- the part of `read_bit` after the refill -/
def readStep (W : Nat) (d : QDecoder) : Option Bool × QDecoder :=
  let bit := d.cw &&& d.mask ≠ 0
  (some bit, { d with mask := (d.mask <<< 1) % 2^W })

/-- `ReadBitStream<Queue>::read_bit` -/
def readBit (W : Nat) (d : QDecoder) : Option Bool × QDecoder :=
  if d.mask = 0 then
    match d.rest with
    | [] => (none, d)
    | w :: rest => readStep W { rest := rest, cw := w, mask := 1 }
  else readStep W d

/-- `QueueDecoder::maybe_exhausted` -/
def maybeExhausted (W : Nat) (d : QDecoder) : Bool :=
  let maskRemaining := (2^W - 1) - wsub W d.mask 1
  (d.cw &&& maskRemaining) == 0 && d.rest.isEmpty

def drain (W : Nat) : Nat → QDecoder → Option (List Bool × QDecoder)
  | 0, _ => none
  | f + 1, d =>
    match readBit W d with
    | (none, d') => some ([], d')
    | (some b, d') =>
      match drain W f d' with
      | none => none
      | some (bs, d'') => some (b :: bs, d'')

def fuel (W : Nat) (d : QDecoder) : Nat := d.rest.length * W + W + 1

/-- the `Iterator` impl collected -/
def iter (W : Nat) (d : QDecoder) : M (List Bool × QDecoder) :=
  match drain W (fuel W d) d with
  | none => .error fuelFault
  | some r => .ok r

end QDecoder

/-- `QueueEncoder::into_decoder` / `into_overshooting_iter` -/
def Queue.intoDecoder (c : Coder) : QDecoder :=
  QDecoder.fromCompressed (Queue.intoCompressed c).reverse

/-- `StackCoder::into_decoder`: the backend becomes a `Cursor` positioned at its end (the model
    of a stack of words is the same list), `current_word` / `mask_last_written` are kept -/
def Stack.intoDecoder (c : Coder) : Coder := c

/-- `StackCoder::into_iterator()` (= `into_decoder()` used through its `Iterator` impl),
    collected: every bit on the stack, last written first, then the iterator ends -/
def Stack.intoIterator (W : Nat) (c : Coder) : M (List Bool) :=
  Stack.iter W (Stack.intoDecoder c)

/-- `QueueEncoder::into_overshooting_iter()` (= `into_decoder()` used through its `Iterator`
    impl), collected: the written bits in order, **then the zero padding of the last exported
    word** (the "overshoot"), then the iterator ends; also returns the exhausted decoder -/
def Queue.intoOvershootingIter (W : Nat) (c : Coder) : M (List Bool × QDecoder) :=
  QDecoder.iter W (Queue.intoDecoder c)

/-! ## Bit sources and codebooks -/

/-- what a `DecoderCodebook::decode_symbol` sees: an `Iterator<Item = Result<bool, Infallible>>` -/
structure Src (σ : Type) where
  next : σ → Option Bool × σ

def stackSrc (W : Nat) : Src Coder := ⟨readBit W⟩
def queueSrc (W : Nat) : Src QDecoder := ⟨QDecoder.readBit W⟩
/-- a plain list of bits as a source (the Spec of both) -/
def listSrc : Src (List Bool) := ⟨fun l => match l with | [] => (none, []) | b :: r => (some b, r)⟩

/-- `SymbolCodeError` -/
inductive SymErr where
  | outOfCompressedData
  | invalidCodeword
  deriving Repr, DecidableEq

/-- `EncoderCodebook`: the sequence of `emit` calls of the two trait methods -/
structure EncBook (Sym : Type) where
  prefixBits : Sym → M (List Bool)
  suffixBits : Sym → M (List Bool)

/-- `DecoderCodebook::decode_symbol`, generic in the source; the `Nat` is loop fuel -/
structure DecBook (Sym : Type) where
  decode : {σ : Type} → Src σ → Nat → σ → M (σ × Except SymErr Sym)

/-- `WriteBitStream<Stack>::encode_symbol` -/
def Stack.encodeSymbol {Sym : Type} (W : Nat) (bk : EncBook Sym) (s : Sym) (c : Coder) : M Coder :=
  match bk.suffixBits s with
  | .error f => .error f
  | .ok bs => .ok (writeBits W c bs)

/-- `WriteBitStream<Queue>::encode_symbol` -/
def Queue.encodeSymbol {Sym : Type} (W : Nat) (bk : EncBook Sym) (s : Sym) (c : Coder) : M Coder :=
  match bk.prefixBits s with
  | .error f => .error f
  | .ok bs => .ok (writeBits W c bs)

/-- `ReadBitStream<Stack>::decode_symbol` -/
def Stack.decodeSymbol {Sym : Type} (W : Nat) (bk : DecBook Sym) (c : Coder) :
    M (Coder × Except SymErr Sym) :=
  bk.decode (stackSrc W) (Stack.fuel W c) c

/-- `ReadBitStream<Queue>::decode_symbol` -/
def QDecoder.decodeSymbol {Sym : Type} (W : Nat) (bk : DecBook Sym) (d : QDecoder) :
    M (QDecoder × Except SymErr Sym) :=
  bk.decode (queueSrc W) (QDecoder.fuel W d) d

/-- The body shared by the default methods `EncoderCodebook::encode_symbol_prefix` (via
    `encode_symbol_suffix`) and vice versa: push every emitted bit on a
    `SmallBitStack = StackCoder<usize, SmallVec<[usize; 1]>>`, then emit what the stack's
    iterator yields. -/
def viaSmallBitStack (bs : List Bool) : M (List Bool) :=
  Stack.iter 64 (writeBits 64 empty bs)

/-- a codebook that overrides only `encode_symbol_suffix` -/
def EncBook.ofSuffix {Sym : Type} (sfx : Sym → M (List Bool)) : EncBook Sym :=
  { suffixBits := sfx
    prefixBits := fun s => match sfx s with
      | .error f => .error f
      | .ok bs => viaSmallBitStack bs }

/-- a codebook that overrides only `encode_symbol_prefix` -/
def EncBook.ofPrefix {Sym : Type} (pfx : Sym → M (List Bool)) : EncBook Sym :=
  { prefixBits := pfx
    suffixBits := fun s => match pfx s with
      | .error f => .error f
      | .ok bs => viaSmallBitStack bs }

/-! ## Abstraction: the sequence of bits a coder holds, in the order they were written -/

/-- the low `k` bits of `w`, least significant (= first written) first -/
def lowBits (k w : Nat) : List Bool := (List.range k).map (fun i => w.testBit i)

/-- how many bits `current_word` holds -/
def fill (W : Nat) (c : Coder) : Nat := if c.mask = 0 then 0 else tz W c.mask + 1

/-- bits of full words, oldest word first; argument top first -/
def wordBits (W : Nat) (ws : List Nat) : List Bool := ws.reverse.flatMap (lowBits W)

/-- the abstraction function: all bits on the coder, first written first -/
def bits (W : Nat) (c : Coder) : List Bool := wordBits W c.backend ++ lowBits (fill W c) c.cw

/-- representation invariant (the doc comment on `mask_last_written`) -/
def Inv (W : Nat) (c : Coder) : Prop :=
  (∀ w ∈ c.backend, w < 2^W) ∧
  ((c.mask = 0 ∧ c.cw = 0) ∨ (∃ j, j < W ∧ c.mask = 2^j ∧ c.cw < 2^(j+1)))

/-- position of the next bit to read in `current_word` (`W` = need a new word) -/
def QDecoder.pos (W : Nat) (d : QDecoder) : Nat := if d.mask = 0 then W else tz W d.mask

/-- the bits a queue decoder will still hand out, in order -/
def QDecoder.bits (W : Nat) (d : QDecoder) : List Bool :=
  (lowBits W d.cw).drop (QDecoder.pos W d) ++ d.rest.flatMap (lowBits W)

def QDecoder.Inv (W : Nat) (d : QDecoder) : Prop :=
  d.mask = 0 ∨ ∃ j, j < W ∧ d.mask = 2^j

/-! ## Bounded sinks (`SymbolCoder<Word, S, B>` with a `B` that can refuse a write)

`write_bit` flushes the full current word with `self.backend.write(self.current_word)?` *before*
it assigns `current_word` / `mask_last_written`; a refused write therefore returns the error with
the coder untouched.  `cap` = number of words the sink accepts in total. -/

/-- `WriteBitStream::write_bit` over a sink of capacity `cap`: `(coder, accepted)` -/
def writeBitB (W cap : Nat) (c : Coder) (bit : Bool) : Coder × Bool :=
  let writeMask := (c.mask <<< 1) % 2^W
  if writeMask ≠ 0 then (writeBit W c bit, true)
  else if c.mask ≠ 0 ∧ cap ≤ c.backend.length then (c, false)
  else (writeBit W c bit, true)

/-- bits one by one until the first refusal: the coder, the accepted bits, and whether all were accepted -/
def writeBitsB (W cap : Nat) (c : Coder) : List Bool → Coder × List Bool × Bool
  | [] => (c, [], true)
  | b :: bs =>
    match writeBitB W cap c b with
    | (_, false) => (c, [], false)
    | (c', true) =>
      let (c'', acc, ok) := writeBitsB W cap c' bs
      (c'', b :: acc, ok)

/-- `StackCoder::into_compressed` over a bounded sink (top first); `none` = `Err(WriteError)` -/
def Stack.intoCompressedB (W cap : Nat) (c : Coder) : Option (List Nat) :=
  match writeBitB W cap c true with
  | (_, false) => none
  | (c, true) =>
    if c.mask ≠ 0 then (if cap ≤ c.backend.length then none else some (c.cw :: c.backend))
    else some c.backend

/-- `QueueEncoder::into_compressed` over a bounded sink (top first) -/
def Queue.intoCompressedB (cap : Nat) (c : Coder) : Option (List Nat) :=
  if c.mask ≠ 0 then (if cap ≤ c.backend.length then none else some (c.cw :: c.backend))
  else some c.backend

end CV.Bits
